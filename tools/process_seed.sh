#!/bin/bash
# usage: process_seed.sh <Cxx> <round> [check ids...]  — copies /tmp/seed<round>-Cxx/SEED_OUT to seeded/Cxx-<round>, verifies, evaluates
P=$1; R=$2; shift 2
D=/verif/seeded/$P-$R
mkdir -p $D && cp /tmp/seed$R-$P/SEED_OUT/* $D/ || exit 1
/verif/tools/verify_seed.sh $P-$R $D 2>&1 | tail -1
[ $# -eq 0 ] && set -- $P
/verif/tools/eval_seed.sh $P-$R "$@" 2>&1 | grep -av conda | cut -c1-220
