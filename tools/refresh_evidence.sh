#!/bin/bash
# Re-runs every enabled check's quick tier on the current /repo and reports the outcome; evidence files are rewritten.
cd "$(dirname "$0")/.."
git -C /repo status --short | grep -v '^??' && { echo "/repo has local modifications: refusing"; exit 1; }
for d in harness/c[0-9][0-9]; do
  id=$(basename $d | tr a-z A-Z)
  python3 -c "import json,sys; sys.exit(0 if json.load(open('$d/check.json')).get('enabled') else 1)" || continue
  out=$(VERIF_SEED=${VERIF_SEED:-1} ./check $id --tier quick 2>&1); rc=$?
  echo "$id exit=$rc $(echo "$out" | grep -E "^C[0-9]+ tier" | tail -1)"
  [ $rc -ne 0 ] && echo "$out" | grep -E "VIOLATION|INCONCLUSIVE|signature" | head -5
done
