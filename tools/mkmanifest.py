#!/usr/bin/env python3
"""Regenerates /verif/MANIFEST.json from harness/cXX/check.json files."""
import json, os, re, subprocess
ROOT = os.path.dirname(os.path.dirname(os.path.abspath(__file__)))
H = os.path.join(ROOT, "harness")
props = [json.loads(l) for l in open(os.path.join(ROOT, "properties.jsonl"))]
checks, na = [], []
for p in props:
    pid = p["id"]
    cp = os.path.join(H, pid.lower(), "check.json")
    c = json.load(open(cp)) if os.path.exists(cp) else None
    if not c or not c.get("enabled"):
        na.append({"property_id": pid, "reason": (c or {}).get("na_reason", "check not built yet in this session (planned: see DESIGN.md §4 %s); nothing is claimed for it" % pid)})
        continue
    checks.append({
        "property_id": pid,
        "quick_cmd": "./check %s --tier quick" % pid,
        "thorough_cmd": "./check %s --tier thorough" % pid,
        "evidence_file": "/verif/evidence/%s.json" % pid,
        "replay_cmd_template": "./check %s --replay {path}" % pid,
        "engine": "harness",
        "level_claimed": {"category": "exploration", "text": c["level_text"], "design_ref": c.get("design_ref", "DESIGN.md §4 " + pid)},
        "level_note": c["level_note"],
        "technique": c["technique"],
    })
hooks_commits = []
hp = os.path.join(ROOT, "hooks.json")
hooks = json.load(open(hp)) if os.path.exists(hp) else {"source_commits": []}
m = {
    "version": 1,
    "setup_cmd": "./setup.sh",
    "hooks": {
        "guard": "verif",
        "enable": "go build tag: every harness binary is built with `go test -c -tags verif` against /repo through a replace directive",
        "baseline_off_cmd": "cd /repo && GOFLAGS=-mod=mod GOPROXY=off GOSUMDB=off GOTOOLCHAIN=local go test -json -vet=off -count=1 -timeout 25m ./...",
        "source_commits": hooks.get("source_commits", []),
        "add_only": True,
    },
    "engines": [{"name": "harness", "path": "/verif/harness", "serves_properties": [c["property_id"] for c in checks],
                 "kind_free_text": "Go test binaries (one package per property) built against /repo's working tree; pgregory.net/rapid v1.3.0 generators, stateful/model-based mode and harness-owned schedules; driver /verif/check shards by PRNG value, isolates fatal crashes, merges evidence"}],
    "checks": checks,
    "not_applicable": na,
    "notes": "All checks are property-based tests / fuzzing (generated inputs, programs, histories, schedules against explicit oracles). Known findings and fixed defects: /verif/known_findings.json. Design: /verif/DESIGN.md.",
}
json.dump(m, open(os.path.join(ROOT, "MANIFEST.json"), "w"), indent=1)
print("claimed:", [c["property_id"] for c in checks], "n/a:", len(na))
