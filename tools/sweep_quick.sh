#!/bin/bash
# usage: sweep_quick.sh <seed>...  — runs every enabled check's quick tier with --no-evidence at the given VERIF_SEED values
cd "$(dirname "$0")/.."
for seed in "$@"; do
  for d in harness/c[0-9][0-9]; do
    id=$(basename $d | tr a-z A-Z)
    out=$(VERIF_SEED=$seed ./check $id --tier quick --no-evidence 2>&1); rc=$?
    echo "seed=$seed $id exit=$rc $(echo "$out" | grep -a -E "^C[0-9]+ tier" | tail -1)"
    [ $rc -ne 0 ] && echo "$out" | grep -a -E "VIOLATION|INCONCLUSIVE|signature" | head -6
  done
done
