#!/usr/bin/env python3
"""Writes the task text for a round of independently seeded changes and creates one scratch worktree of /repo per
property: /tmp/seedtask<R>-Cxx.txt and /tmp/seed<R>-Cxx. The text contains the property (statement, quantifier,
anchors) and one-line descriptions of the earlier seeds of that property - nothing else from /verif.
usage: mkseedtasks.py <round> [Cxx ...]"""
import json, os, subprocess, sys, glob

ROOT = os.path.dirname(os.path.dirname(os.path.abspath(__file__)))
rnd = sys.argv[1]
only = set(sys.argv[2:])
props = [json.loads(l) for l in open(os.path.join(ROOT, "properties.jsonl")) if l.strip()]
words = {1: "one", 2: "two", 3: "three", 4: "four", 5: "five", 6: "six", 7: "seven"}
for p in props:
    pid = p["id"]
    if only and pid not in only:
        continue
    wt = f"/tmp/seed{rnd}-{pid}"
    earlier = []
    for d in sorted(glob.glob(os.path.join(ROOT, "seeded", pid + "*"))):
        try:
            earlier.append(json.load(open(os.path.join(d, "meta.json")))["summary"][:260].replace("\n", " "))
        except Exception:
            pass
    n = len(earlier)
    prev = " ".join(f"({i+1}) {s}" for i, s in enumerate(earlier))
    txt = f"""You are given a scratch git worktree of the Go library csgura/fp (functional programming library: Option/Try/Either, immutable HAMT map/set, lists, iterators, futures/promises, lazy Eval, StateT, typeclass instances (eq/ord/hash/monoid/clone/show), and `gombok`, a go/types-based code generator in cmd/gombok + metafp + genfp) at {wt}. You may read and edit ONLY inside {wt} (never touch /repo, never touch /verif — do not even read /verif). No network: run every go command with `GOFLAGS=-mod=mod GOPROXY=off GOSUMDB=off GOTOOLCHAIN=local`.

Here is a semantic property of the library that should always hold:

{pid}: {p['title']}

Statement: {p['statement']}

Quantifier: {p['quantifier']['text']}

Anchors (files): {', '.join(p['anchors']['files'])}


YOUR TASK: produce ONE realistic change (a "seeded bug") to the library source in {wt} that BREAKS this property while (a) the whole module still compiles (`go build ./...` must pass) and (b) the repository's existing test suite still passes: `cd {wt} && GOFLAGS=-mod=mod GOPROXY=off GOSUMDB=off GOTOOLCHAIN=local go test -vet=off -count=1 ./...` must be all ok (run it before and after; package lazy takes ~25 s). If your change touches a generator (cmd/gombok, metafp, genfp, internal/generator) or a template, the committed generated files may stay as they are only if regenerating would not change them; otherwise regenerate them (`go generate ./<dir>`) as a maintainer would.
The change must look like something a maintainer could plausibly commit (a refactoring slip, an optimisation, a wrong boundary, a forgotten case), be SMALL (a few lines), and must NOT be exposed by ordinary use at once: it should need something specific to manifest — a particular interleaving, a multi-step sequence of operations, an unusual input (a particular size/threshold/arity, collision, nil/empty/zero value, spare capacity, deep nesting, an unusual struct shape), or two cooperating sites that each look fine alone. IMPORTANT: {words.get(n, str(n))} different seeded changes for this property already exist: {prev} — choose something else: another function, another mechanism, another kind of trigger. Prefer parts of the anchored code that none of them touched, and triggers such as: a rarely used exported function or method variant; an option/parameter combination; a boundary (empty, one element, exactly at a threshold, maximum arity); a value used twice or concurrently; two features that interact; an error path; an argument that is legal but unusual (negative, zero, nil function result, a comparator or hasher with ties/collisions, already-completed or already-failed inputs). Your change must be in a different place and of a different nature. Do not use `git stash` (the stash is shared between worktrees): save your diff with `git diff > /tmp/<yourfile>.diff`, revert with `git checkout -- <files>` and re-apply with `git apply`. Do not run `go clean`. Do not pick the most obvious mutation (e.g. negating a condition that every use exercises). Do not change tests. Do not add new exported API. Keep the build-tag files (`verif_on.go`/`verif_off.go`, functions named verif*) untouched: they are instrumentation hooks, inactive in normal builds.
Also write a DEMONSTRATION: a Go test file (a NEW file named `seeded_demo_test.go` in an appropriate package directory of {wt}; for generator properties the demo may create a temp module/package, run the generator built from {wt} and compile/run the result) with a test function named TestSeededDemo that FAILS with your change and PASSES without it (verify both by saving the diff, reverting and re-applying as described above). It must be deterministic or fail with very high probability, and finish within 90 s.

DELIVERABLES — leave them in {wt}/SEED_OUT/ (create the directory; do not put .go files that `go test ./...` would pick up as a package there: name the demo copy `seeded_demo_test.go.txt`):
 - patch.diff : `git diff` of the library change ONLY (not the demo file; include regenerated files if any),
 - seeded_demo_test.go.txt : copy of the demo test,
 - meta.json : {{"property": "{pid}", "summary": "...what was changed...", "needs": "...what it needs in order to manifest...", "demo_pkg_dir": "relative/dir", "demo_cmd": "go test -run TestSeededDemo ./relative/dir", "suite_passes_with_change": true|false, "demo_fails_with_change": true|false, "demo_passes_without_change": true|false}}
At the end leave the worktree WITH the change applied and the demo file in place. Final message: a short description of the change, why the existing tests miss it, and the verification results.
"""
    open(f"/tmp/seedtask{rnd}-{pid}.txt", "w").write(txt)
    if not os.path.isdir(wt):
        subprocess.run(["git", "-C", "/repo", "worktree", "add", "--detach", wt, "HEAD"], check=True,
                       stdout=subprocess.DEVNULL, stderr=subprocess.DEVNULL)
    print(pid, wt, "earlier seeds:", n)
