#!/bin/bash
# usage: eval_seed.sh <seed dir name under /verif/seeded> <check id>...   — applies the patch to /repo, runs checks (no evidence), reverts
D=/verif/seeded/$1; shift
git -C /repo status --short | grep -v '^??' && { echo "/repo dirty"; exit 1; }
git -C /repo apply $D/patch.diff || exit 1
for c in "$@"; do /verif/check $c --no-evidence 2>&1 | grep -a -E "^VIOLATION|signature|^C[0-9]+ tier|INCONCL" | head -7; done
git -C /repo checkout -- .; git -C /repo status --short
