#!/bin/bash
# usage: eval_seed.sh <seed dir name under /verif/seeded> <check id>...
# Applies the seeded patch to a scratch worktree of /repo (outside /repo and /verif), runs the checks against it
# (VERIF_REPO, no evidence written) and removes the worktree and the build outputs again. /repo itself is not touched.
D=/verif/seeded/$1; shift
T=$(mktemp -d /tmp/evalseed-XXXXXX)
git -C /repo worktree add -q --detach $T/r HEAD || exit 1
git -C $T/r apply $D/patch.diff || { git -C /repo worktree remove --force $T/r; rm -rf $T; exit 1; }
for c in "$@"; do VERIF_REPO=$T/r /verif/check $c --no-evidence 2>&1 | grep -a -E "^VIOLATION|signature|^C[0-9]+ tier|INCONCL" | head -7; done
H=$(python3 -c "import hashlib,sys; print(hashlib.sha1(sys.argv[1].encode()).hexdigest()[:8])" $T/r)
git -C /repo worktree remove --force $T/r; git -C /repo worktree prune; rm -rf $T
python3 - "$H" <<'PY'
import os,re,shutil,sys
h=sys.argv[1]
b='/verif/.build'
for f in os.listdir(b):
    if f.endswith('.'+h+'.test') or f in ('mod-'+h,'replays-'+h):
        p=os.path.join(b,f)
        shutil.rmtree(p) if os.path.isdir(p) else os.remove(p)
w='/verif/.work-'+h
if os.path.isdir(w): shutil.rmtree(w)
PY
