#!/bin/bash
# usage: verify_seed.sh <seed id> <SEED_OUT dir>   — confirms a seeded change in a fresh scratch worktree
set -u
ID=$1; SRC=$2
export GOFLAGS=-mod=mod GOPROXY=off GOSUMDB=off GOTOOLCHAIN=local
WT=/tmp/vseed-$(echo $ID | tr -c "A-Za-z0-9\n" "_")
git -C /repo worktree remove --force $WT >/dev/null 2>&1
git -C /repo worktree add -q --detach $WT HEAD || exit 9
cd $WT
PKG=$(python3 -c "import json;print(json.load(open('$SRC/meta.json'))['demo_pkg_dir'])")
echo "== apply"; git apply $SRC/patch.diff || { echo APPLY-FAILED; exit 1; }
echo "== build"; go build ./... || { echo BUILD-FAILED; exit 1; }
echo "== suite with change"; go test -vet=off -count=1 ./... 2>&1 | grep -v "^ok\|no test files" | head -20; SUITE=${PIPESTATUS[0]}
echo "suite exit=$SUITE"
if [ -f $SRC/seeded_demo_test.go.txt ]; then cp $SRC/seeded_demo_test.go.txt $PKG/seeded_demo_test.go; else cp $SRC/seeded_demo_test.go $PKG/seeded_demo_test.go; fi
echo "== demo with change (must fail)"; go test -vet=off -count=1 -run TestSeededDemo ./$PKG 2>&1 | tail -5; D1=${PIPESTATUS[0]}
git apply -R $SRC/patch.diff
echo "== demo without change (must pass)"; go test -vet=off -count=1 -run TestSeededDemo ./$PKG 2>&1 | tail -3; D2=${PIPESTATUS[0]}
cd /; git -C /repo worktree remove --force $WT
echo "RESULT id=$ID suite_exit=$SUITE demo_with=$D1 demo_without=$D2"
