#!/usr/bin/env python3
"""Wipes the shared Go build cache under the exclusive lock every harness toolchain command honours."""
import importlib.util, importlib.machinery, os, subprocess, sys
root = os.path.dirname(os.path.dirname(os.path.abspath(__file__)))
loader = importlib.machinery.SourceFileLoader("verifcheck", os.path.join(root, "check"))
spec = importlib.util.spec_from_loader("verifcheck", loader)
m = importlib.util.module_from_spec(spec)
loader.exec_module(m)
with m.cache_lock(exclusive=True):
    subprocess.run(["go", "clean", "-cache"], env=m.goenv())
print("cleaned")
