#!/bin/sh
# Offline setup: compile the shared harness packages once so that the first check does not pay for it.
set -e
cd "$(dirname "$0")/harness"
export GOFLAGS=-mod=mod GOPROXY=off GOSUMDB=off GOTOOLCHAIN=local
go build ./kit/... 
go vet -tags verif ./kit/... >/dev/null 2>&1 || true
echo setup ok
