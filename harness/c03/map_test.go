package c03

import (
	"fmt"
	"strings"
	"testing"

	"github.com/csgura/fp"
	"github.com/csgura/fp/as"
	"github.com/csgura/fp/immutable"
	"github.com/csgura/fp/iterator"
	"github.com/csgura/fp/list"
	"github.com/csgura/fp/option"
	"github.com/csgura/fp/seq"
	"pgregory.net/rapid"

	"verifharness/kit"
)

type tup = fp.Tuple2[int, int]

// ---- constructors ------------------------------------------------------------------------------

var mapCtors = []string{"immutable.Map(h,ts...)", "MapBuilder.Add..Build", "seq.ToMap", "iterator.ToMap", "list.ToMap", "immutable.Map(h)+Updated"}
var zeroMapCtors = []string{"zero+Updated", "zero.Concat(seq)", "zero+UpdatedWith"}

// buildMap builds a map from tuples (later tuples win) through the named constructor. Library code only.
func buildMap(ctor string, hs hspec, ts []tup) fp.Map[int, int] {
	switch ctor {
	case "immutable.Map(h,ts...)":
		return immutable.Map(hs.h, ts...)
	case "MapBuilder.Add..Build":
		b := immutable.MapBuilder[int, int](hs.h)
		for _, t := range ts {
			b = b.Add(t.I1, t.I2)
		}
		return b.Build()
	case "seq.ToMap":
		return seq.ToMap(fp.Seq[tup](ts), hs.h)
	case "iterator.ToMap":
		return iterator.ToMap(iterator.FromSeq(ts), hs.h)
	case "list.ToMap":
		return list.ToMap(list.Of(ts...), hs.h)
	case "immutable.Map(h)+Updated":
		m := immutable.Map[int, int](hs.h)
		for _, t := range ts {
			m = m.Updated(t.I1, t.I2)
		}
		return m
	case "zero+Updated":
		var m fp.Map[int, int]
		for _, t := range ts {
			m = m.Updated(t.I1, t.I2)
		}
		return m
	case "zero.Concat(seq)":
		var m fp.Map[int, int]
		return m.Concat(seqIterable[tup](ts))
	case "zero+UpdatedWith":
		var m fp.Map[int, int]
		for _, t := range ts {
			v := t.I2
			m = m.UpdatedWith(t.I1, func(fp.Option[int]) fp.Option[int] { return option.Some(v) })
		}
		return m
	}
	panic("harness: unknown map constructor " + ctor)
}

func modelOf(hs hspec, ts []tup) map[int]int {
	m := map[int]int{}
	for _, t := range ts {
		m[hs.cls(t.I1)] = t.I2
	}
	return m
}

func drawCtor(rt *rapid.T, hs hspec, label string) string {
	if hs.h == nil {
		for attempt := 0; ; attempt++ {
			c := rapid.SampledFrom(zeroMapCtors).Draw(rt, label)
			if c == "zero+UpdatedWith" && ExcludedOps["zero-map/UpdatedWith"] && attempt < 20 {
				continue
			}
			return c
		}
	}
	return rapid.SampledFrom(mapCtors).Draw(rt, label)
}

// drawTuples draws up to max tuples; keys are resolved against present (sorted classes of the current model).
func drawTuples(rt *rapid.T, label string, hs hspec, present []int, max int) []tup {
	n := rapid.IntRange(0, max).Draw(rt, label+".n")
	ts := make([]tup, 0, n)
	for i := 0; i < n; i++ {
		k := drawKeySel(rt, label+".k", modesInsert).resolve(hs, present)
		v := rapid.IntRange(0, 99).Draw(rt, label+".v")
		ts = append(ts, as.Tuple2(k, v))
	}
	return ts
}

func showTuples(ts []tup) string {
	var sb strings.Builder
	sb.WriteString("[")
	for _, t := range ts {
		fmt.Fprintf(&sb, "%d:%d ", t.I1, t.I2)
	}
	sb.WriteString("]")
	return sb.String()
}

// ---- the state machine ---------------------------------------------------------------------------

type mver struct {
	m     fp.Map[int, int]
	model map[int]int
}

type mapRun struct {
	rec      *kit.Rec
	hs       hspec
	sub      string
	cur      mver
	pool     []mver
	steps    int
	maxSteps int
	hist     []string
	dirty    bool
	switched bool // the current value was replaced by a kept version since the last observation
	removed  bool // a present key has been removed
	maxSize  int
	cen      census
}

func (r *mapRun) history() string { return strings.Join(r.hist, " ; ") }

var mapOps = func() []string {
	w := map[string]int{"Updated": 6, "Removed": 6, "UpdatedWith": 5, "Concat": 3, "BulkInsert": 3, "BulkRemove": 3, "Fork": 1, "Switch": 1, "Rebuild": 1}
	names := []string{"Updated", "Removed", "UpdatedWith", "Concat", "BulkInsert", "BulkRemove", "Fork", "Switch", "Rebuild"}
	out := []string{}
	for _, n := range names {
		for i := 0; i < w[n]; i++ {
			out = append(out, n)
		}
	}
	return out
}()

// bulkKeys: n keys lo, lo+stride, ... (mod 96), duplicates removed, order kept.
func bulkKeys(lo, n, stride int) []int {
	seen := map[int]bool{}
	ks := []int{}
	for i := 0; i < n; i++ {
		k := mod(lo+i*stride, keySpace)
		if !seen[k] {
			seen[k] = true
			ks = append(ks, k)
		}
	}
	return ks
}

func drawBulk(rt *rapid.T) (lo, n, stride int) {
	lo = rapid.IntRange(0, keySpace-1).Draw(rt, "lo")
	n = rapid.IntRange(1, 48).Draw(rt, "n")
	stride = rapid.SampledFrom([]int{1, 1, 1, 5, 32}).Draw(rt, "stride")
	return
}

func (r *mapRun) step(rt *rapid.T) {
	if r.steps >= r.maxSteps {
		return // step bound reached: further actions are no-ops
	}
	r.steps++
	rec, hs := r.rec, r.hs
	present := sortedKeys(r.cur.model)
	op := rapid.SampledFrom(mapOps).Draw(rt, "op")
	rec.Label("op:" + op)
	sig := "C03|" + r.sub + "|" + op
	cur := r.cur.m
	var nm fp.Map[int, int]
	switch op {
	case "Updated":
		k := drawKeySel(rt, "k", modesInsert).resolve(hs, present)
		v := rapid.IntRange(0, 99).Draw(rt, "v")
		r.hist = append(r.hist, fmt.Sprintf("Updated(%d,%d)", k, v))
		rec.Guard(rt, sig, func() { nm = cur.Updated(k, v) })
		r.cur.model[hs.cls(k)] = v

	case "Removed":
		n := rapid.IntRange(0, 4).Draw(rt, "n")
		ks := make([]int, 0, n+1)
		for i := 0; i < n; i++ {
			ks = append(ks, drawKeySel(rt, "k", modesRemove).resolve(hs, present))
		}
		if n > 0 && rapid.IntRange(0, 3).Draw(rt, "repeat") == 0 {
			ks = append(ks, ks[0])
		}
		r.hist = append(r.hist, fmt.Sprintf("Removed(%v)", ks))
		rec.Guard(rt, sig, func() { nm = cur.Removed(ks...) })
		for _, k := range ks {
			if _, ok := r.cur.model[hs.cls(k)]; ok {
				r.removed = true
				delete(r.cur.model, hs.cls(k))
			}
		}

	case "UpdatedWith":
		k := drawKeySel(rt, "k", []int{selPresent, selAbsent, selPresent, selAny}).resolve(hs, present)
		onNone := rapid.IntRange(-1, 99).Draw(rt, "onNone") // -1: stay None
		onSome := rapid.IntRange(-1, 99).Draw(rt, "onSome") // -1: remove
		remapV := func(old int) int { return (old*31 + onSome) % 1000 }
		remap := func(o fp.Option[int]) fp.Option[int] {
			if o.IsDefined() {
				if onSome < 0 {
					return option.None[int]()
				}
				return option.Some(remapV(o.Get()))
			}
			if onNone < 0 {
				return option.None[int]()
			}
			return option.Some(onNone)
		}
		old, had := r.cur.model[hs.cls(k)]
		outcome := ""
		switch {
		case !had && onNone < 0:
			outcome = "None→None"
		case !had:
			outcome = "None→Some"
		case onSome < 0:
			outcome = "Some→None"
		default:
			outcome = "Some→Some"
		}
		r.hist = append(r.hist, fmt.Sprintf("UpdatedWith(%d,%s onNone=%d onSome=%d)", k, outcome, onNone, onSome))
		if hs.h == nil && cur.Base == nil && ExcludedOps["zero-map/UpdatedWith"] {
			rec.Excluded()
			r.hist[len(r.hist)-1] += "[excluded]"
			return
		}
		rec.Label("UpdatedWith:" + outcome)
		switch outcome {
		case "None→Some":
			r.cur.model[hs.cls(k)] = onNone
		case "Some→None":
			delete(r.cur.model, hs.cls(k))
			r.removed = true
		case "Some→Some":
			r.cur.model[hs.cls(k)] = remapV(old)
		}
		rec.Guard(rt, sig, func() { nm = cur.UpdatedWith(k, remap) })

	case "Concat":
		ts := drawTuples(rt, "other", hs, present, 24)
		kind := rapid.IntRange(0, 3).Draw(rt, "otherKind") // 0: raw sequence (duplicates kept), else a map
		if kind == 0 {
			r.hist = append(r.hist, "Concat(seq"+showTuples(ts)+")")
			rec.Guard(rt, sig, func() { nm = cur.Concat(seqIterable[tup](ts)) })
		} else {
			ohs := hs
			if hs.h == nil && rapid.Bool().Draw(rt, "otherImmutable") {
				ohs = identitySpec // any Iterable may be concatenated to a zero-value map
			}
			ctor := drawCtor(rt, ohs, "otherCtor")
			r.hist = append(r.hist, "Concat("+ctor+showTuples(ts)+")")
			var other fp.Map[int, int]
			rec.Guard(rt, "C03|"+r.sub+"|"+ctor, func() { other = buildMap(ctor, ohs, ts) })
			ocen := &r.cen
			if hs.h == nil {
				ocen = nil // the census is about the container under test, which is not trie-backed here
			}
			observeMap(rt, rec, r.sub, "argument of Concat built by "+ctor, other, modelOf(ohs, ts), ohs, ocen, r.history)
			rec.Guard(rt, sig, func() { nm = cur.Concat(other) })
		}
		for _, t := range ts {
			r.cur.model[hs.cls(t.I1)] = t.I2
		}

	case "BulkInsert":
		lo, n, stride := drawBulk(rt)
		v0 := rapid.IntRange(0, 50).Draw(rt, "v0")
		ks := bulkKeys(lo, n, stride)
		r.hist = append(r.hist, fmt.Sprintf("BulkInsert(lo=%d n=%d stride=%d v0=%d)", lo, n, stride, v0))
		rec.Guard(rt, sig, func() {
			nm = cur
			for i, k := range ks {
				nm = nm.Updated(k, v0+i)
			}
		})
		for i, k := range ks {
			r.cur.model[hs.cls(k)] = v0 + i
		}

	case "BulkRemove":
		lo, n, stride := drawBulk(rt)
		ks := bulkKeys(lo, n, stride)
		oneCall := rapid.Bool().Draw(rt, "oneCall")
		r.hist = append(r.hist, fmt.Sprintf("BulkRemove(lo=%d n=%d stride=%d variadic=%v)", lo, n, stride, oneCall))
		rec.Guard(rt, sig, func() {
			if oneCall {
				nm = cur.Removed(ks...)
				return
			}
			nm = cur
			for _, k := range ks {
				nm = nm.Removed(k)
			}
		})
		for _, k := range ks {
			if _, ok := r.cur.model[hs.cls(k)]; ok {
				r.removed = true
				delete(r.cur.model, hs.cls(k))
			}
		}

	case "Fork":
		slot := rapid.IntRange(0, 3).Draw(rt, "slot")
		cp := mver{m: r.cur.m, model: cloneModel(r.cur.model)}
		if len(r.pool) < 4 {
			r.pool = append(r.pool, cp)
			slot = len(r.pool) - 1
		} else {
			r.pool[slot] = cp
		}
		r.hist = append(r.hist, fmt.Sprintf("Fork(->%d)", slot))
		return

	case "Switch":
		slot := rapid.IntRange(0, 3).Draw(rt, "slot")
		if len(r.pool) == 0 {
			r.hist = append(r.hist, "Switch(none)")
			return
		}
		slot %= len(r.pool)
		r.hist = append(r.hist, fmt.Sprintf("Switch(<-%d)", slot))
		r.cur = mver{m: r.pool[slot].m, model: cloneModel(r.pool[slot].model)}
		r.dirty, r.switched = true, true
		return

	case "Rebuild":
		extra := drawTuples(rt, "extra", hs, present, 6)
		ctor := drawCtor(rt, hs, "ctor")
		r.hist = append(r.hist, "Rebuild("+ctor+" +"+showTuples(extra)+")")
		rec.Guard(rt, "C03|"+r.sub+"|"+ctor, func() {
			ents, _ := drain(cur.Iterator(), 4*keySpace)
			nm = buildMap(ctor, hs, append(ents, extra...))
		})
		r.switched = true
		for _, t := range extra {
			r.cur.model[hs.cls(t.I1)] = t.I2
		}
	}
	r.cur.m = nm
	r.dirty = true
}

func (r *mapRun) check(rt *rapid.T) {
	if !r.dirty {
		return
	}
	r.dirty = false
	vc, ok := observeMap(rt, r.rec, r.sub, "current map", r.cur.m, r.cur.model, r.hs, &r.cen, r.history)
	r.cen.transition(vc, ok, r.switched)
	r.switched = false
	if n := len(r.cur.model); n > r.maxSize {
		r.maxSize = n
	}
}

func mapRule(zero bool) string {
	s := "history = drawn start state (constructor + up to 12 tuples) followed by a rapid Repeat of operations on fp.Map[int,int] " +
		"(Updated, Removed(k...) with present/absent/repeated keys, UpdatedWith with all four remap outcomes, Concat with a generated map or tuple sequence, " +
		"bulk insert/remove of a key range, fork/switch between up to 4 kept versions each with its own model, rebuild through a constructor); keys 0..95; " +
		"after every step the full observation (Get/Contains on 102 probe keys, Size, IsEmpty/NonEmpty, Iterator/Keys/Values as multisets, trie invariants) is compared with a Go map keyed by Eqv class; "
	if zero {
		return s + "zero-value fp.Map (Go == semantics, no hasher); non-trivial iff a present key was removed and the map reached >= 2 keys; distinct by op-sequence"
	}
	return s + "non-trivial iff the census saw >= 1 bitmap-indexed, hash-array or collision node and a present key was removed; distinct by op-sequence"
}

func runMapModel(t *testing.T, sub string, hs hspec) {
	kit.Check(t, sub, mapRule(hs.h == nil), kit.Opt{}, func(rt *rapid.T, rec *kit.Rec) {
		r := &mapRun{rec: rec, hs: hs, sub: sub, maxSteps: setSteps(), dirty: true}
		ctor := drawCtor(rt, hs, "startCtor")
		ts := drawTuples(rt, "start", hs, nil, 12)
		if hs.h == nil && rapid.IntRange(0, 3).Draw(rt, "startPristine") == 0 {
			ctor, ts = "zero+Updated", nil // no tuples: the pristine zero value
		}
		r.hist = append(r.hist, "start="+ctor+showTuples(ts))
		rec.Label("start:" + ctor)
		defer func() {
			nt := r.removed && r.cen.interesting()
			if hs.h == nil {
				nt = r.removed && r.maxSize >= 2
			}
			r.cen.report(rec)
			rec.Case(nt, r.history())
		}()
		rec.Guard(rt, "C03|"+sub+"|"+ctor, func() { r.cur.m = buildMap(ctor, hs, ts) })
		r.cur.model = modelOf(hs, ts)
		rt.Repeat(map[string]func(*rapid.T){"": r.check, "step": r.step})
	})
}

func TestMapModel(t *testing.T) {
	for _, hs := range hashers {
		runMapModel(t, "map/"+hs.name, hs)
	}
	runMapModel(t, "zero-map", zeroSpec)
}
