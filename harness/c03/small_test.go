package c03

import (
	"fmt"
	"testing"

	"github.com/csgura/fp"
	"github.com/csgura/fp/immutable"
	"github.com/csgura/fp/option"
	"pgregory.net/rapid"

	"verifharness/kit"
)

// Small sub-checks, one per operation on the zero values and per builder, so that a crash in one
// operation cannot hide the others behind it.

var noHist = func() string { return "(single operation, see message)" }

// drawZeroArg draws "another set" for the zero-value sub-checks: the pristine zero value, a zero-based
// set (Go == semantics) or an immutable set with the identity hasher. nonPristine forces an implementation.
func drawZeroArg(rt *rapid.T, rec *kit.Rec, sub string, nonPristine bool) (fp.Set[int], map[int]bool, string) {
	xs := rapid.SliceOfN(rapid.IntRange(0, 11), 0, 6).Draw(rt, "xs")
	kinds := []string{"zero+Incl", "zero.Concat(seq)", "immutable.Set(h,xs...)", "SetBuilder.Add..Build"}
	ctor := rapid.SampledFrom(kinds).Draw(rt, "ctor")
	if nonPristine && len(xs) == 0 && (ctor == "zero+Incl" || ctor == "zero.Concat(seq)") {
		xs = []int{rapid.IntRange(0, 11).Draw(rt, "x0")}
	}
	var s fp.Set[int]
	rec.Guard(rt, "C03|"+sub+"|"+ctor, func() { s = buildSet(ctor, identitySpec, xs) })
	return s, setModelOf(identitySpec, xs), fmt.Sprintf("%s%v", ctor, xs)
}

func subtract(a, b map[int]bool) map[int]bool {
	r := map[int]bool{}
	for k := range a {
		if !b[k] {
			r[k] = true
		}
	}
	return r
}

func intersect(a, b map[int]bool) map[int]bool {
	r := map[int]bool{}
	for k := range a {
		if b[k] {
			r[k] = true
		}
	}
	return r
}

func TestZeroSet(t *testing.T) {
	type binop struct {
		name string
		call func(a, b fp.Set[int]) fp.Set[int]
		ref  func(a, b map[int]bool) map[int]bool
	}
	ops := []binop{
		{"Diff", func(a, b fp.Set[int]) fp.Set[int] { return a.Diff(b) }, subtract},
		{"Intersect", func(a, b fp.Set[int]) fp.Set[int] { return a.Intersect(b) }, intersect},
		{"Concat", func(a, b fp.Set[int]) fp.Set[int] { return a.Concat(b) }, func(a, b map[int]bool) map[int]bool {
			r := cloneModel(a)
			for k := range b {
				r[k] = true
			}
			return r
		}},
	}
	for _, op := range ops {
		op := op
		sub := "zero-set/" + op.name
		kit.Check(t, sub, "receiver = the zero fp.Set[int]; argument = generated set (pristine zero, zero-based or immutable, elements 0..11); result compared with the set-algebra meaning and must accept a further Incl; non-trivial iff the argument is non-empty; distinct by printed argument",
			kit.Opt{}, func(rt *rapid.T, rec *kit.Rec) {
				o, om, desc := drawZeroArg(rt, rec, sub, false)
				x := rapid.IntRange(0, 11).Draw(rt, "x")
				rec.Case(len(om) > 0, fmt.Sprintf("%s then Incl(%d)", desc, x))
				var z, r, r2 fp.Set[int]
				rec.Guard(rt, "C03|zero-set|"+op.name, func() { r = op.call(z, o) })
				want := op.ref(map[int]bool{}, om)
				observeSet(rt, rec, sub, fmt.Sprintf("zero.%s(%s)", op.name, desc), r, want, identitySpec, nil, noHist)
				rec.Guard(rt, "C03|zero-set|"+op.name, func() { r2 = r.Incl(x) })
				want[x] = true
				observeSet(rt, rec, sub, fmt.Sprintf("zero.%s(%s).Incl(%d)", op.name, desc, x), r2, want, identitySpec, nil, noHist)
			})
		sub2 := "zero-set/" + op.name + "-arg"
		kit.Check(t, sub2, "receiver = generated set with an implementation (zero-based with >= 1 element, or immutable); argument = the zero fp.Set[int]; non-trivial iff the receiver is non-empty; distinct by printed receiver",
			kit.Opt{}, func(rt *rapid.T, rec *kit.Rec) {
				o, om, desc := drawZeroArg(rt, rec, sub2, true)
				rec.Case(len(om) > 0, desc)
				var z, r fp.Set[int]
				rec.Guard(rt, "C03|zero-set|"+op.name+"-arg", func() { r = op.call(o, z) })
				observeSet(rt, rec, sub2, fmt.Sprintf("(%s).%s(zero)", desc, op.name), r, op.ref(om, map[int]bool{}), identitySpec, nil, noHist)
			})
	}
	kit.Check(t, "zero-set/SubsetOf", "zero.SubsetOf(x) must be true and x.SubsetOf(zero) iff x is empty, x a generated set; non-trivial iff x is non-empty; distinct by printed x",
		kit.Opt{}, func(rt *rapid.T, rec *kit.Rec) {
			o, om, desc := drawZeroArg(rt, rec, "zero-set/SubsetOf", false)
			rec.Case(len(om) > 0, desc)
			var z fp.Set[int]
			var a, b, c bool
			rec.Guard(rt, "C03|zero-set|SubsetOf", func() { a, b, c = z.SubsetOf(o), o.SubsetOf(z), z.SubsetOf(z) })
			if !a || !c || b != (len(om) == 0) {
				rec.Failf(rt, "C03|zero-set|SubsetOf", "x=%s: zero.SubsetOf(x)=%v (want true) x.SubsetOf(zero)=%v (want %v) zero.SubsetOf(zero)=%v", desc, a, b, len(om) == 0, c)
			}
		})
	kit.Check(t, "zero-set/Incl-Excl", "zero.Excl(x) is empty; zero.Incl(x) = {x}; zero.Incl(x).Excl(y); non-trivial iff x == y; distinct by (x,y)",
		kit.Opt{}, func(rt *rapid.T, rec *kit.Rec) {
			x, y := rapid.IntRange(0, 5).Draw(rt, "x"), rapid.IntRange(0, 5).Draw(rt, "y")
			rec.Case(x == y, fmt.Sprintf("%d,%d", x, y))
			var z, a, b, c fp.Set[int]
			rec.Guard(rt, "C03|zero-set|Incl-Excl", func() { a, b = z.Excl(x), z.Incl(x); c = b.Excl(y) })
			observeSet(rt, rec, "zero-set/Incl-Excl", "zero", z, map[int]bool{}, zeroSpec, nil, noHist)
			observeSet(rt, rec, "zero-set/Incl-Excl", "zero.Excl(x)", a, map[int]bool{}, zeroSpec, nil, noHist)
			observeSet(rt, rec, "zero-set/Incl-Excl", "zero.Incl(x)", b, map[int]bool{x: true}, zeroSpec, nil, noHist)
			want := map[int]bool{x: true}
			delete(want, y)
			observeSet(rt, rec, "zero-set/Incl-Excl", "zero.Incl(x).Excl(y)", c, want, zeroSpec, nil, noHist)
		})
}

func TestZeroMap(t *testing.T) {
	kit.Check(t, "zero-map/UpdatedWith", "zero fp.Map[int,int]; two successive UpdatedWith(k, remap) with drawn outcomes for None and Some arguments (all four None/Some transitions); non-trivial iff the first call inserts; distinct by printed draws",
		kit.Opt{}, func(rt *rapid.T, rec *kit.Rec) {
			k1, k2 := rapid.IntRange(0, 3).Draw(rt, "k1"), rapid.IntRange(0, 3).Draw(rt, "k2")
			n1, s1 := rapid.IntRange(-1, 9).Draw(rt, "onNone1"), rapid.IntRange(-1, 9).Draw(rt, "onSome1")
			n2, s2 := rapid.IntRange(-1, 9).Draw(rt, "onNone2"), rapid.IntRange(-1, 9).Draw(rt, "onSome2")
			rec.Case(n1 >= 0, fmt.Sprintf("UW(%d,%d,%d) UW(%d,%d,%d)", k1, n1, s1, k2, n2, s2))
			mk := func(onNone, onSome int) func(fp.Option[int]) fp.Option[int] {
				return func(o fp.Option[int]) fp.Option[int] {
					r := onNone
					if o.IsDefined() {
						r = onSome
						if r >= 0 {
							r += 10 * o.Get()
						}
					}
					if r < 0 {
						return option.None[int]()
					}
					return option.Some(r)
				}
			}
			ref := func(m map[int]int, k, onNone, onSome int) {
				old, had := m[k]
				switch {
				case had && onSome < 0:
					delete(m, k)
				case had:
					m[k] = onSome + 10*old
				case onNone >= 0:
					m[k] = onNone
				}
			}
			var z, a, b fp.Map[int, int]
			model := map[int]int{}
			rec.Guard(rt, "C03|zero-map|UpdatedWith", func() { a = z.UpdatedWith(k1, mk(n1, s1)) })
			ref(model, k1, n1, s1)
			observeMap(rt, rec, "zero-map/UpdatedWith", "zero.UpdatedWith", a, model, zeroSpec, nil, noHist)
			rec.Guard(rt, "C03|zero-map|UpdatedWith", func() { b = a.UpdatedWith(k2, mk(n2, s2)) })
			ref(model, k2, n2, s2)
			observeMap(rt, rec, "zero-map/UpdatedWith", "zero.UpdatedWith.UpdatedWith", b, model, zeroSpec, nil, noHist)
		})
	kit.Check(t, "zero-map/Removed", "zero.Removed(ks...) is empty and usable (a following Updated gives a one-entry map); non-trivial iff ks non-empty; distinct by ks",
		kit.Opt{}, func(rt *rapid.T, rec *kit.Rec) {
			ks := rapid.SliceOfN(rapid.IntRange(0, 5), 0, 3).Draw(rt, "ks")
			rec.Case(len(ks) > 0, fmt.Sprint(ks))
			var z, a, b fp.Map[int, int]
			rec.Guard(rt, "C03|zero-map|Removed", func() { a = z.Removed(ks...); b = a.Updated(1, 2) })
			observeMap(rt, rec, "zero-map/Removed", "zero", z, map[int]int{}, zeroSpec, nil, noHist)
			observeMap(rt, rec, "zero-map/Removed", "zero.Removed", a, map[int]int{}, zeroSpec, nil, noHist)
			observeMap(rt, rec, "zero-map/Removed", "zero.Removed.Updated(1,2)", b, map[int]int{1: 2}, zeroSpec, nil, noHist)
		})
	kit.Check(t, "zero-map/Concat", "zero.Concat(x) and x.Concat(zero) for a generated map x (zero-based or immutable) have exactly x's entries; non-trivial iff x non-empty; distinct by printed x",
		kit.Opt{}, func(rt *rapid.T, rec *kit.Rec) {
			ts := drawTuples(rt, "x", identitySpec, nil, 6)
			hs := zeroSpec
			if rapid.Bool().Draw(rt, "immutable") {
				hs = identitySpec
			}
			ctor := drawCtor(rt, hs, "ctor")
			rec.Case(len(ts) > 0, ctor+showTuples(ts))
			var z, x, a, b fp.Map[int, int]
			rec.Guard(rt, "C03|zero-map|"+ctor, func() { x = buildMap(ctor, hs, ts) })
			rec.Guard(rt, "C03|zero-map|Concat", func() { a, b = z.Concat(x), x.Concat(z) })
			observeMap(rt, rec, "zero-map/Concat", "zero.Concat(x)", a, modelOf(hs, ts), zeroSpec, nil, noHist)
			observeMap(rt, rec, "zero-map/Concat", "x.Concat(zero)", b, modelOf(hs, ts), hs, nil, noHist)
		})
}

func TestBuilder(t *testing.T) {
	hgen := rapid.IntRange(0, len(hashers)-1)
	kit.Check(t, "builder/reuse-after-Build/map",
		"MapBuilder(h): Add ts1, Build -> m1, then try Add ts2 and a second Build on the same builder (a panic is the documented behaviour and is accepted); m1 must agree with the model of ts1 before and after the attempt, a second map (if handed out) with ts1+ts2; non-trivial iff ts2 writes a key or value that differs from m1; distinct by printed draws",
		kit.Opt{}, func(rt *rapid.T, rec *kit.Rec) {
			hs := hashers[hgen.Draw(rt, "hasher")]
			ts1 := drawTuples(rt, "ts1", hs, nil, 20)
			ts2 := drawTuples(rt, "ts2", hs, sortedKeys(modelOf(hs, ts1)), 6)
			m1model := modelOf(hs, ts1)
			all := modelOf(hs, append(append([]tup{}, ts1...), ts2...))
			rec.Case(showModel(all) != showModel(m1model), hs.name+showTuples(ts1)+showTuples(ts2))
			hist := func() string { return "hasher " + hs.name + " Add" + showTuples(ts1) + " Build; Add" + showTuples(ts2) + " Build" }
			b := immutable.MapBuilder[int, int](hs.h)
			var m1 fp.Map[int, int]
			rec.Guard(rt, "C03|MapBuilder|Build", func() {
				for _, t := range ts1 {
					b.Add(t.I1, t.I2)
				}
				m1 = b.Build()
			})
			observeMap(rt, rec, "builder/reuse-after-Build/map", "first Build", m1, m1model, hs, nil, hist)
			var m2 fp.Map[int, int]
			_, panicked := kit.Catch(func() {
				for _, t := range ts2 {
					b.Add(t.I1, t.I2)
				}
				m2 = b.Build()
			})
			if panicked {
				rec.Label("reuse-panics")
			} else {
				rec.Label("reuse-accepted")
				observeMap(rt, rec, "builder/reuse-after-Build/map", "second Build", m2, all, hs, nil, hist)
			}
			observeMap(rt, rec, "builder/reuse-after-Build/map", "first Build after the builder was used again", m1, m1model, hs, nil, hist)
		})
	kit.Check(t, "builder/reuse-after-Build/set",
		"SetBuilder(h): Add xs1, Build -> s1, then try Add xs2 and a second Build on the same builder (a panic is accepted); s1 must agree with the model of xs1 before and after the attempt, a second set (if handed out) with xs1+xs2; non-trivial iff xs2 has an element that is not in s1; distinct by printed draws",
		kit.Opt{}, func(rt *rapid.T, rec *kit.Rec) {
			hs := hashers[hgen.Draw(rt, "hasher")]
			xs1 := drawElems(rt, "xs1", hs, nil, 20)
			xs2 := drawElems(rt, "xs2", hs, sortedKeys(setModelOf(hs, xs1)), 6)
			s1model := setModelOf(hs, xs1)
			all := setModelOf(hs, append(append([]int{}, xs1...), xs2...))
			rec.Case(len(all) != len(s1model), fmt.Sprintf("%s%v%v", hs.name, xs1, xs2))
			hist := func() string { return fmt.Sprintf("hasher %s Add%v Build; Add%v Build", hs.name, xs1, xs2) }
			b := immutable.SetBuilder(hs.h)
			var s1 fp.Set[int]
			rec.Guard(rt, "C03|SetBuilder|Build", func() {
				for _, x := range xs1 {
					b.Add(x)
				}
				s1 = b.Build()
			})
			observeSet(rt, rec, "builder/reuse-after-Build/set", "first Build", s1, s1model, hs, nil, hist)
			var s2 fp.Set[int]
			_, panicked := kit.Catch(func() {
				for _, x := range xs2 {
					b.Add(x)
				}
				s2 = b.Build()
			})
			if panicked {
				rec.Label("reuse-panics")
			} else {
				rec.Label("reuse-accepted")
				observeSet(rt, rec, "builder/reuse-after-Build/set", "second Build", s2, all, hs, nil, hist)
			}
			observeSet(rt, rec, "builder/reuse-after-Build/set", "first Build after the builder was used again", s1, s1model, hs, nil, hist)
		})
}
