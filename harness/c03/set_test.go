package c03

import (
	"fmt"
	"strings"
	"testing"

	"github.com/csgura/fp"
	"github.com/csgura/fp/immutable"
	"github.com/csgura/fp/iterator"
	"github.com/csgura/fp/list"
	"github.com/csgura/fp/seq"
	"pgregory.net/rapid"

	"verifharness/kit"
)

var setCtors = []string{"immutable.Set(h,xs...)", "SetBuilder.Add..Build", "seq.ToSet", "iterator.ToSet", "list.ToSet", "immutable.Set(h)+Incl"}
var zeroSetCtors = []string{"zero+Incl", "zero.Concat(seq)"}

func buildSet(ctor string, hs hspec, xs []int) fp.Set[int] {
	switch ctor {
	case "immutable.Set(h,xs...)":
		return immutable.Set(hs.h, xs...)
	case "SetBuilder.Add..Build":
		b := immutable.SetBuilder(hs.h)
		for _, x := range xs {
			b = b.Add(x)
		}
		return b.Build()
	case "seq.ToSet":
		return seq.ToSet(fp.Seq[int](xs), hs.h)
	case "iterator.ToSet":
		return iterator.ToSet(iterator.FromSeq(xs), hs.h)
	case "list.ToSet":
		return list.ToSet(list.Of(xs...), hs.h)
	case "immutable.Set(h)+Incl":
		s := immutable.Set(hs.h)
		for _, x := range xs {
			s = s.Incl(x)
		}
		return s
	case "zero+Incl":
		var s fp.Set[int]
		for _, x := range xs {
			s = s.Incl(x)
		}
		return s
	case "zero.Concat(seq)":
		var s fp.Set[int]
		return s.Concat(seqIterable[int](xs))
	}
	panic("harness: unknown set constructor " + ctor)
}

func setModelOf(hs hspec, xs []int) map[int]bool {
	m := map[int]bool{}
	for _, x := range xs {
		m[hs.cls(x)] = true
	}
	return m
}

func drawSetCtor(rt *rapid.T, hs hspec, label string) string {
	if hs.h == nil {
		return rapid.SampledFrom(zeroSetCtors).Draw(rt, label)
	}
	return rapid.SampledFrom(setCtors).Draw(rt, label)
}

func drawElems(rt *rapid.T, label string, hs hspec, present []int, max int) []int {
	n := rapid.IntRange(0, max).Draw(rt, label+".n")
	xs := make([]int, 0, n)
	for i := 0; i < n; i++ {
		xs = append(xs, drawKeySel(rt, label+".k", modesInsert).resolve(hs, present))
	}
	return xs
}

// drawOther draws the elements of "another generated set": random elements, optionally together with
// all elements of the current set (superset) or every second one (so that SubsetOf is true on a good
// share of the cases and Diff/Intersect are neither empty nor everything).
func drawOther(rt *rapid.T, hs hspec, present []int) []int {
	xs := drawElems(rt, "other", hs, present, 16)
	switch rapid.IntRange(0, 3).Draw(rt, "otherShape") {
	case 1:
		for i, c := range present {
			if hs.coarse && i%2 == 1 {
				c += 48
			}
			xs = append(xs, c)
		}
	case 2:
		for i, c := range present {
			if i%2 == 0 {
				xs = append(xs, c)
			}
		}
	}
	return xs
}

type sver struct {
	s     fp.Set[int]
	model map[int]bool
}

type setRun struct {
	rec      *kit.Rec
	hs       hspec
	sub      string
	cur      sver
	pool     []sver
	steps    int
	maxSteps int
	hist     []string
	dirty    bool
	switched bool // the current value was replaced by a kept version since the last observation
	removed  bool
	maxSize  int
	cen      census
}

func (r *setRun) history() string { return strings.Join(r.hist, " ; ") }

var setOps = func() []string {
	w := map[string]int{"Incl": 6, "Excl": 6, "Concat": 3, "Diff": 3, "Intersect": 3, "SubsetOf": 3, "BulkIncl": 3, "BulkExcl": 3, "Fork": 1, "Switch": 1, "Rebuild": 2}
	names := []string{"Incl", "Excl", "Concat", "Diff", "Intersect", "SubsetOf", "BulkIncl", "BulkExcl", "Fork", "Switch", "Rebuild"}
	out := []string{}
	for _, n := range names {
		for i := 0; i < w[n]; i++ {
			out = append(out, n)
		}
	}
	return out
}()

// pristine: the zero fp.Set (no implementation, no empty-constructor) as far as the harness can tell.
func pristine(s fp.Set[int]) bool { return fp.VerifSetMinimal(s) == nil }

// other builds and observes the second operand of Concat/Diff/Intersect/SubsetOf.
func (r *setRun) other(rt *rapid.T, op string, present []int) (fp.Set[int], map[int]bool, hspec) {
	hs := r.hs
	xs := drawOther(rt, hs, present)
	ohs := hs
	if hs.h == nil && rapid.Bool().Draw(rt, "otherImmutable") {
		ohs = identitySpec
	}
	ctor := drawSetCtor(rt, ohs, "otherCtor")
	r.hist = append(r.hist, fmt.Sprintf("%s(%s%v)", op, ctor, xs))
	var o fp.Set[int]
	r.rec.Guard(rt, "C03|"+r.sub+"|"+ctor, func() { o = buildSet(ctor, ohs, xs) })
	om := setModelOf(ohs, xs)
	ocen := &r.cen
	if hs.h == nil {
		ocen = nil // the census is about the container under test, which is not trie-backed here
	}
	observeSet(rt, r.rec, r.sub, "argument of "+op+" built by "+ctor, o, om, ohs, ocen, r.history)
	return o, om, ohs
}

func (r *setRun) step(rt *rapid.T) {
	if r.steps >= r.maxSteps {
		return
	}
	r.steps++
	rec, hs := r.rec, r.hs
	present := sortedKeys(r.cur.model)
	op := rapid.SampledFrom(setOps).Draw(rt, "op")
	sig := "C03|" + r.sub + "|" + op
	cur := r.cur.s
	if hs.h == nil && pristine(cur) && (op == "Diff" || op == "Intersect") && ExcludedOps["zero-set/"+op] {
		rec.Excluded()
		r.hist = append(r.hist, op+"[excluded on the pristine zero Set]")
		return
	}
	rec.Label("op:" + op)
	var ns fp.Set[int]
	switch op {
	case "Incl":
		k := drawKeySel(rt, "k", modesInsert).resolve(hs, present)
		r.hist = append(r.hist, fmt.Sprintf("Incl(%d)", k))
		rec.Guard(rt, sig, func() { ns = cur.Incl(k) })
		r.cur.model[hs.cls(k)] = true

	case "Excl":
		k := drawKeySel(rt, "k", modesRemove).resolve(hs, present)
		r.hist = append(r.hist, fmt.Sprintf("Excl(%d)", k))
		rec.Guard(rt, sig, func() { ns = cur.Excl(k) })
		if r.cur.model[hs.cls(k)] {
			r.removed = true
			delete(r.cur.model, hs.cls(k))
		}

	case "Concat":
		if rapid.IntRange(0, 3).Draw(rt, "otherKind") == 0 {
			xs := drawElems(rt, "other", hs, present, 24)
			r.hist = append(r.hist, fmt.Sprintf("Concat(seq%v)", xs))
			rec.Guard(rt, sig, func() { ns = cur.Concat(seqIterable[int](xs)) })
			for _, x := range xs {
				r.cur.model[hs.cls(x)] = true
			}
		} else {
			o, om, _ := r.other(rt, op, present)
			rec.Guard(rt, sig, func() { ns = cur.Concat(o) })
			for c := range om {
				r.cur.model[c] = true
			}
		}

	case "Diff":
		o, om, _ := r.other(rt, op, present)
		rec.Guard(rt, sig, func() { ns = cur.Diff(o) })
		r.switched = true // built from the empty set, not by removal
		for c := range om {
			delete(r.cur.model, c)
		}

	case "Intersect":
		o, om, _ := r.other(rt, op, present)
		rec.Guard(rt, sig, func() { ns = cur.Intersect(o) })
		r.switched = true
		for _, c := range present {
			if !om[c] {
				delete(r.cur.model, c)
			}
		}

	case "SubsetOf":
		o, om, _ := r.other(rt, op, present)
		var fwd, bwd bool
		rec.Guard(rt, sig, func() { fwd, bwd = cur.SubsetOf(o), o.SubsetOf(cur) })
		wantF, wantB := true, true
		for c := range r.cur.model {
			wantF = wantF && om[c]
		}
		for c := range om {
			wantB = wantB && r.cur.model[c]
		}
		rec.Label(fmt.Sprintf("SubsetOf:%v/%v", wantF, wantB))
		if fwd != wantF {
			rec.Failf(rt, sig, "cur.SubsetOf(other) = %v, want %v; cur=%s other=%s\n  history: %s", fwd, wantF, showSetModel(r.cur.model), showSetModel(om), r.history())
		}
		if bwd != wantB {
			rec.Failf(rt, sig, "other.SubsetOf(cur) = %v, want %v; cur=%s other=%s\n  history: %s", bwd, wantB, showSetModel(r.cur.model), showSetModel(om), r.history())
		}
		return

	case "BulkIncl":
		lo, n, stride := drawBulk(rt)
		ks := bulkKeys(lo, n, stride)
		r.hist = append(r.hist, fmt.Sprintf("BulkIncl(lo=%d n=%d stride=%d)", lo, n, stride))
		rec.Guard(rt, sig, func() {
			ns = cur
			for _, k := range ks {
				ns = ns.Incl(k)
			}
		})
		for _, k := range ks {
			r.cur.model[hs.cls(k)] = true
		}

	case "BulkExcl":
		lo, n, stride := drawBulk(rt)
		ks := bulkKeys(lo, n, stride)
		r.hist = append(r.hist, fmt.Sprintf("BulkExcl(lo=%d n=%d stride=%d)", lo, n, stride))
		rec.Guard(rt, sig, func() {
			ns = cur
			for _, k := range ks {
				ns = ns.Excl(k)
			}
		})
		for _, k := range ks {
			if r.cur.model[hs.cls(k)] {
				r.removed = true
				delete(r.cur.model, hs.cls(k))
			}
		}

	case "Fork":
		slot := rapid.IntRange(0, 3).Draw(rt, "slot")
		cp := sver{s: r.cur.s, model: cloneModel(r.cur.model)}
		if len(r.pool) < 4 {
			r.pool = append(r.pool, cp)
			slot = len(r.pool) - 1
		} else {
			r.pool[slot] = cp
		}
		r.hist = append(r.hist, fmt.Sprintf("Fork(->%d)", slot))
		return

	case "Switch":
		slot := rapid.IntRange(0, 3).Draw(rt, "slot")
		if len(r.pool) == 0 {
			r.hist = append(r.hist, "Switch(none)")
			return
		}
		slot %= len(r.pool)
		r.hist = append(r.hist, fmt.Sprintf("Switch(<-%d)", slot))
		r.cur = sver{s: r.pool[slot].s, model: cloneModel(r.pool[slot].model)}
		r.dirty, r.switched = true, true
		return

	case "Rebuild": // builder Add...Build / ToSet over the current elements plus extras
		extra := drawElems(rt, "extra", hs, present, 6)
		ctor := drawSetCtor(rt, hs, "ctor")
		r.hist = append(r.hist, fmt.Sprintf("Rebuild(%s +%v)", ctor, extra))
		rec.Guard(rt, "C03|"+r.sub+"|"+ctor, func() {
			elems, _ := drain(cur.Iterator(), 4*keySpace)
			ns = buildSet(ctor, hs, append(elems, extra...))
		})
		r.switched = true
		for _, x := range extra {
			r.cur.model[hs.cls(x)] = true
		}
	}
	r.cur.s = ns
	r.dirty = true
}

func (r *setRun) check(rt *rapid.T) {
	if !r.dirty {
		return
	}
	r.dirty = false
	vc, ok := observeSet(rt, r.rec, r.sub, "current set", r.cur.s, r.cur.model, r.hs, &r.cen, r.history)
	r.cen.transition(vc, ok, r.switched)
	r.switched = false
	if n := len(r.cur.model); n > r.maxSize {
		r.maxSize = n
	}
}

func setRule(zero bool) string {
	s := "history = drawn start state (constructor + up to 12 elements) followed by a rapid Repeat of operations on fp.Set[int] " +
		"(Incl, Excl of present/absent elements, Concat/Diff/Intersect/SubsetOf with another generated set of the same hasher that is unrelated, a superset or a subset, " +
		"bulk Incl/Excl of a key range, fork/switch between up to 4 kept versions each with its own model, rebuild through SetBuilder/ToSet); elements 0..95; " +
		"after every step Contains on 102 probe keys, Size, IsEmpty/NonEmpty, Iterator as a multiset and the trie invariants are compared with a Go map keyed by Eqv class; "
	if zero {
		return s + "zero-value fp.Set (Go == semantics, no hasher); non-trivial iff a present element was removed and the set reached >= 2 elements; distinct by op-sequence"
	}
	return s + "non-trivial iff the census saw >= 1 bitmap-indexed, hash-array or collision node and a present element was removed by Excl; distinct by op-sequence"
}

func runSetModel(t *testing.T, sub string, hs hspec) {
	kit.Check(t, sub, setRule(hs.h == nil), kit.Opt{}, func(rt *rapid.T, rec *kit.Rec) {
		r := &setRun{rec: rec, hs: hs, sub: sub, maxSteps: setSteps(), dirty: true}
		ctor := drawSetCtor(rt, hs, "startCtor")
		xs := drawElems(rt, "start", hs, nil, 12)
		if hs.h == nil && rapid.IntRange(0, 3).Draw(rt, "startPristine") == 0 {
			ctor, xs = "zero+Incl", nil // no elements: the pristine zero value
		}
		r.hist = append(r.hist, fmt.Sprintf("start=%s%v", ctor, xs))
		rec.Label("start:" + ctor)
		defer func() {
			nt := r.removed && r.cen.interesting()
			if hs.h == nil {
				nt = r.removed && r.maxSize >= 2
			}
			r.cen.report(rec)
			rec.Case(nt, r.history())
		}()
		rec.Guard(rt, "C03|"+sub+"|"+ctor, func() { r.cur.s = buildSet(ctor, hs, xs) })
		r.cur.model = setModelOf(hs, xs)
		rt.Repeat(map[string]func(*rapid.T){"": r.check, "step": r.step})
	})
}

func TestSetModel(t *testing.T) {
	for _, hs := range hashers {
		runSetModel(t, "set/"+hs.name, hs)
	}
	runSetModel(t, "zero-set", zeroSpec)
}
