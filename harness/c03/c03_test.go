// Package c03: immutable Map/Set (HAMT port, zero-value fallbacks, builders, ToMap/ToSet)
// compared with a mathematical map after every step of a generated operation history,
// for a family of lawful hashers (identity, low entropy, constant, high bits only, coarser Eqv).
package c03

import (
	"flag"
	"fmt"
	"os"
	"sort"
	"strconv"
	"strings"
	"testing"

	"github.com/csgura/fp"
	"github.com/csgura/fp/eq"
	"github.com/csgura/fp/hash"
	"github.com/csgura/fp/immutable"
	"github.com/csgura/fp/iterator"
	"pgregory.net/rapid"

	"verifharness/kit"
)

func TestMain(m *testing.M) { kit.Main(m) }

// ExcludedOps lists operations the stateful zero-value sub-checks must skip because they are
// recorded known findings that would otherwise fail those sub-checks on every run.
// Default: empty (nothing excluded). Keys: "zero-set/Diff", "zero-set/Intersect" (receiver is the
// pristine zero fp.Set), "zero-map/UpdatedWith" (receiver is the pristine zero fp.Map).
// Every skipped draw is counted with rec.Excluded(). Can be filled through the environment
// variable VERIF_C03_EXCLUDE (comma separated).
var ExcludedOps = map[string]bool{}

func init() {
	for _, k := range strings.Split(os.Getenv("VERIF_C03_EXCLUDE"), ",") {
		if k = strings.TrimSpace(k); k != "" {
			ExcludedOps[k] = true
		}
	}
}

// ---- key space, hashers ------------------------------------------------------------------------

const keySpace = 96 // keys 0..95

// probe keys: the whole key space plus a few keys that are never inserted
var probes = func() []int {
	p := make([]int, 0, keySpace+6)
	for k := 0; k < keySpace; k++ {
		p = append(p, k)
	}
	return append(p, 96, 97, 143, 1000, -1, -7)
}()

func mod(a, m int) int { return ((a % m) + m) % m }

// hspec is one lawful Hashable[int] together with the function that maps a key to the
// representative of its Eqv class (the model is keyed by representatives).
type hspec struct {
	name   string
	h      fp.Hashable[int] // nil: zero-value containers (Go == semantics, never see a Hashable)
	cls    func(int) int
	coarse bool
}

func idClass(k int) int { return k }

func newH(f func(int) uint32) fp.Hashable[int] { return hash.New(eq.Given[int](), f) }

var hashers = []hspec{
	{name: "identity", h: newH(func(k int) uint32 { return uint32(k) }), cls: idClass},
	{name: "mod4", h: newH(func(k int) uint32 { return uint32(mod(k, 4)) }), cls: idClass},
	{name: "const7", h: newH(func(k int) uint32 { return 7 }), cls: idClass},
	{name: "hibits", h: newH(func(k int) uint32 { return uint32(k) << 27 }), cls: idClass},
	{name: "twolevel", h: newH(func(k int) uint32 { return uint32(mod(k, 3)) | uint32(k/3)<<5 }), cls: idClass},
	{name: "hash.Number", h: hash.Number[int](), cls: idClass},
	{name: "groups8", h: newH(func(k int) uint32 { return uint32(k / 8) }), cls: idClass},
	{name: "mod24", h: newH(func(k int) uint32 { return uint32(mod(k, 24)) }), cls: idClass}, // collision nodes below a hash-array node
	{name: "coarse48", coarse: true,
		h: hash.New(eq.New(func(a, b int) bool { return mod(a, 48) == mod(b, 48) }),
			func(a int) uint32 { return uint32(mod(a, 48) % 5) }),
		cls: func(k int) int { return mod(k, 48) }},
}

var zeroSpec = hspec{name: "zero", h: nil, cls: idClass}
var identitySpec = hashers[0]

// ---- key selection (state-independent draws, resolved against the model) -------------------------

const (
	selAny = iota
	selPresent
	selAbsent
)

type keySel struct {
	mode, sel int
	alt       bool
}

var (
	modesInsert = []int{selAny, selAny, selPresent, selAbsent}
	modesRemove = []int{selPresent, selPresent, selPresent, selAbsent, selAny}
)

func drawKeySel(rt *rapid.T, label string, modes []int) keySel {
	return keySel{
		mode: rapid.SampledFrom(modes).Draw(rt, label+".mode"),
		sel:  rapid.IntRange(0, keySpace-1).Draw(rt, label+".sel"),
		alt:  rapid.Bool().Draw(rt, label+".alt"),
	}
}

// resolve turns a selection into a key of the key space. present = sorted class representatives.
func (ks keySel) resolve(hs hspec, present []int) int {
	switch ks.mode {
	case selPresent:
		if len(present) > 0 {
			c := present[ks.sel%len(present)]
			if hs.coarse && ks.alt {
				return c + 48 // the other member of the class inside the key space
			}
			return c
		}
	case selAbsent:
		in := map[int]bool{}
		for _, c := range present {
			in[c] = true
		}
		abs := make([]int, 0, keySpace)
		for k := 0; k < keySpace; k++ {
			if !in[hs.cls(k)] {
				abs = append(abs, k)
			}
		}
		if len(abs) > 0 {
			return abs[ks.sel%len(abs)]
		}
	}
	return ks.sel
}

func sortedKeys[V any](m map[int]V) []int {
	ks := make([]int, 0, len(m))
	for k := range m {
		ks = append(ks, k)
	}
	sort.Ints(ks)
	return ks
}

func cloneModel[V any](m map[int]V) map[int]V {
	r := make(map[int]V, len(m))
	for k, v := range m {
		r[k] = v
	}
	return r
}

func showModel(m map[int]int) string {
	var sb strings.Builder
	sb.WriteString("{")
	for _, k := range sortedKeys(m) {
		fmt.Fprintf(&sb, "%d:%d ", k, m[k])
	}
	sb.WriteString("}")
	return sb.String()
}

func showSetModel(m map[int]bool) string { return fmt.Sprint(sortedKeys(m)) }

// seqIterable turns a slice into an fp.Iterable (fp.Seq itself has no Iterator method).
type seqIterable[T any] []T

func (s seqIterable[T]) Iterator() fp.Iterator[T] { return iterator.FromSeq([]T(s)) }

// drain pulls at most limit elements; over reports that the iterator had still more.
func drain[T any](it fp.Iterator[T], limit int) (out []T, over bool) {
	for it.HasNext() {
		if len(out) >= limit {
			return out, true
		}
		out = append(out, it.Next())
	}
	return out, false
}

// ---- census ------------------------------------------------------------------------------------

type census struct {
	array, bitmap, hasharray, collision, deep bool
	walked, unavailable                        bool
	// shrinking transitions of the value under test between two consecutive steps
	haShrunk, collCollapsed, emptied bool
	last                             immutable.VerifCensus
	lastOK                           bool
}

// transition records what a step did to the node population of the current value.
// fresh: the current value was replaced by another version (switch), so there is no transition.
func (c *census) transition(now immutable.VerifCensus, ok, fresh bool) {
	if ok && c.lastOK && !fresh {
		c.haShrunk = c.haShrunk || now.HashArray < c.last.HashArray
		c.collCollapsed = c.collCollapsed || now.Collision < c.last.Collision
		c.emptied = c.emptied || (now.Entries == 0 && c.last.Entries > 0)
	}
	c.last, c.lastOK = now, ok
}

func (c *census) add(v immutable.VerifCensus, ok bool) {
	if !ok {
		c.unavailable = true
		return
	}
	c.walked = true
	c.array = c.array || v.Array > 0
	c.bitmap = c.bitmap || v.Bitmap > 0
	c.hasharray = c.hasharray || v.HashArray > 0
	c.collision = c.collision || v.Collision > 0
	c.deep = c.deep || v.MaxDepth >= 3
}

func (c *census) interesting() bool { return c.bitmap || c.hasharray || c.collision }

func (c *census) report(rec *kit.Rec) {
	if c.array {
		rec.Label("array")
	}
	if c.bitmap {
		rec.Label("bitmap")
	}
	if c.hasharray {
		rec.Label("hasharray")
	}
	if c.collision {
		rec.Label("collision")
	}
	if c.deep {
		rec.Label("depth>=3")
	}
	if c.haShrunk {
		rec.Label("step:hasharray-node-went-away")
	}
	if c.collCollapsed {
		rec.Label("step:collision-node-went-away")
	}
	if c.emptied {
		rec.Label("step:emptied")
	}
	if c.walked && !c.interesting() {
		rec.Label("array-or-empty-only")
	}
	if c.unavailable {
		rec.Label("not-hamt-backed")
	}
}

// ---- full observation of a map -------------------------------------------------------------------

// observeMap compares everything C03 names (Get/Contains over the key space, Size, IsEmpty/NonEmpty,
// Iterator/Keys/Values as multisets, structural invariants when the base is the HAMT) with model.
// sub is the sub-check name (signature prefix), what says which value is looked at, hist gives the history so far.
func observeMap(rt *rapid.T, rec *kit.Rec, sub, what string, m fp.Map[int, int], model map[int]int, hs hspec, cen *census, hist func() string) (immutable.VerifCensus, bool) {
	limit := 4*keySpace + 16
	gets := make([]fp.Option[int], len(probes))
	cont := make([]bool, len(probes))
	var size int
	var isEmpty, nonEmpty bool
	var ents []fp.Tuple2[int, int]
	var keys, vals []int
	var overE, overK, overV bool
	var vc immutable.VerifCensus
	var vok bool
	var verr error
	rec.Guard(rt, "C03|"+sub+"|observe", func() {
		for i, k := range probes {
			gets[i] = m.Get(k)
			cont[i] = m.Contains(k)
		}
		size = m.Size()
		isEmpty, nonEmpty = m.IsEmpty(), m.NonEmpty()
		ents, overE = drain(m.Iterator(), limit)
		keys, overK = drain(m.Keys(), limit)
		vals, overV = drain(m.Values(), limit)
		vc, vok, verr = immutable.VerifCheck[int, int](m.Base)
	})
	fail := func(clause, format string, args ...any) {
		rec.Failf(rt, "C03|"+sub+"|"+clause, "%s: %s\n  model=%s\n  history: %s", what, fmt.Sprintf(format, args...), showModel(model), hist())
	}
	if cen != nil {
		cen.add(vc, vok)
	}
	if vok && verr != nil {
		fail("structure", "structural invariant of the trie broken: %v", verr)
	}
	for i, k := range probes {
		want, present := model[hs.cls(k)]
		g := gets[i]
		switch {
		case present && !g.IsDefined():
			fail("Get", "Get(%d) = None, want Some(%d)", k, want)
		case present && g.Get() != want:
			fail("Get", "Get(%d) = Some(%d), want Some(%d) (latest value written)", k, g.Get(), want)
		case !present && g.IsDefined():
			fail("Get", "Get(%d) = Some(%d), want None (key absent/removed)", k, g.Get())
		}
		if cont[i] != present {
			fail("Contains", "Contains(%d) = %v, want %v", k, cont[i], present)
		}
	}
	if size != len(model) {
		fail("Size", "Size() = %d, want %d distinct keys", size, len(model))
	}
	if isEmpty != (len(model) == 0) || nonEmpty != (len(model) != 0) {
		fail("IsEmpty", "IsEmpty() = %v NonEmpty() = %v with %d keys", isEmpty, nonEmpty, len(model))
	}
	if overE || overK || overV {
		fail("Iterator", "iterator yields more than %d elements for a map of %d keys", limit, len(model))
	}
	seen := map[int]bool{}
	for _, e := range ents {
		c := hs.cls(e.I1)
		want, ok := model[c]
		if !ok {
			fail("Iterator", "Iterator yields (%d,%d) but that key is not in the map; yielded %v", e.I1, e.I2, ents)
		}
		if seen[c] {
			fail("Iterator", "Iterator yields key %d more than once; yielded %v", e.I1, ents)
		}
		seen[c] = true
		if e.I2 != want {
			fail("Iterator", "Iterator yields (%d,%d), latest value is %d", e.I1, e.I2, want)
		}
	}
	if len(ents) != len(model) {
		missing := []int{}
		for _, c := range sortedKeys(model) {
			if !seen[c] {
				missing = append(missing, c)
			}
		}
		fail("Iterator", "Iterator yields %d entries, want %d; never yielded keys %v", len(ents), len(model), missing)
	}
	seenK := map[int]bool{}
	for _, k := range keys {
		c := hs.cls(k)
		if _, ok := model[c]; !ok || seenK[c] {
			fail("Keys", "Keys() yields %d (absent or repeated); yielded %v", k, keys)
		}
		seenK[c] = true
	}
	if len(keys) != len(model) {
		fail("Keys", "Keys() yields %d keys, want %d", len(keys), len(model))
	}
	wantVals := make([]int, 0, len(model))
	for _, v := range model {
		wantVals = append(wantVals, v)
	}
	sort.Ints(wantVals)
	gotVals := append([]int{}, vals...)
	sort.Ints(gotVals)
	if fmt.Sprint(gotVals) != fmt.Sprint(wantVals) {
		fail("Values", "Values() as a sorted multiset = %v, want %v", gotVals, wantVals)
	}
	return vc, vok
}

// observeSet: Contains over the key space, Size, IsEmpty/NonEmpty, Iterator as a multiset, structure.
func observeSet(rt *rapid.T, rec *kit.Rec, sub, what string, s fp.Set[int], model map[int]bool, hs hspec, cen *census, hist func() string) (immutable.VerifCensus, bool) {
	limit := 4*keySpace + 16
	cont := make([]bool, len(probes))
	var size int
	var isEmpty, nonEmpty bool
	var elems []int
	var over bool
	var vc immutable.VerifCensus
	var vok bool
	var verr error
	rec.Guard(rt, "C03|"+sub+"|observe", func() {
		for i, k := range probes {
			cont[i] = s.Contains(k)
		}
		size = s.Size()
		isEmpty, nonEmpty = s.IsEmpty(), s.NonEmpty()
		elems, over = drain(s.Iterator(), limit)
		vc, vok, verr = immutable.VerifCheckSet[int](fp.VerifSetMinimal(s))
	})
	fail := func(clause, format string, args ...any) {
		rec.Failf(rt, "C03|"+sub+"|"+clause, "%s: %s\n  model=%s\n  history: %s", what, fmt.Sprintf(format, args...), showSetModel(model), hist())
	}
	if cen != nil {
		cen.add(vc, vok)
	}
	if vok && verr != nil {
		fail("structure", "structural invariant of the trie broken: %v", verr)
	}
	for i, k := range probes {
		if want := model[hs.cls(k)]; cont[i] != want {
			fail("Contains", "Contains(%d) = %v, want %v", k, cont[i], want)
		}
	}
	if size != len(model) {
		fail("Size", "Size() = %d, want %d distinct elements", size, len(model))
	}
	if isEmpty != (len(model) == 0) || nonEmpty != (len(model) != 0) {
		fail("IsEmpty", "IsEmpty() = %v NonEmpty() = %v with %d elements", isEmpty, nonEmpty, len(model))
	}
	if over {
		fail("Iterator", "iterator yields more than %d elements for a set of %d", limit, len(model))
	}
	seen := map[int]bool{}
	for _, e := range elems {
		c := hs.cls(e)
		if !model[c] {
			fail("Iterator", "Iterator yields %d which is not in the set; yielded %v", e, elems)
		}
		if seen[c] {
			fail("Iterator", "Iterator yields %d more than once; yielded %v", e, elems)
		}
		seen[c] = true
	}
	if len(elems) != len(model) {
		missing := []int{}
		for _, c := range sortedKeys(model) {
			if !seen[c] {
				missing = append(missing, c)
			}
		}
		fail("Iterator", "Iterator yields %d elements, want %d; never yielded %v", len(elems), len(model), missing)
	}
	return vc, vok
}

// setSteps sets the mean number of rapid Repeat actions for the stateful sub-checks.
func setSteps() (maxSteps int) {
	_ = flag.Set("rapid.steps", strconv.Itoa(kit.Pick(36, 160)))
	return kit.Pick(60, 400)
}
