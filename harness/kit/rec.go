// Package kit is the shared toolkit of the verification harness: evidence
// recorder, sub-check wrapper around rapid.Check, fuel, probes, generators.
package kit

import (
	"encoding/base64"
	"encoding/binary"
	"encoding/json"
	"flag"
	"fmt"
	"hash/fnv"
	"os"
	"path/filepath"
	"runtime"
	"runtime/debug"
	"sort"
	"strconv"
	"strings"
	"sync"
	"testing"
	"time"

	"pgregory.net/rapid"
)

// Rec accumulates what one sub-check actually explored.
type Rec struct {
	mu         sync.Mutex
	Sub        string
	Rule       string
	evals      int64
	nontrivial map[uint64]struct{}
	labels     map[string]int64
	samples    []string
	ntSamples  []string
	excluded   int64
	sig        string
	msg        string
	extra      map[string]any
	lastBeat   time.Time
	hangIsViol bool
}

const maxHashes = 400000

func hash64(s string) uint64 {
	h := fnv.New64a()
	_, _ = h.Write([]byte(s))
	return h.Sum64()
}

// Case records one executed case. desc is a canonical descriptor of the case;
// nontrivial tells whether it is non-trivial by the sub-check's stated rule.
func (r *Rec) Case(nontrivial bool, desc string) {
	r.mu.Lock()
	defer r.mu.Unlock()
	r.evals++
	r.lastBeat = time.Now()
	if len(r.samples) < 3 {
		r.samples = append(r.samples, clip(desc))
	}
	if nontrivial {
		if len(r.nontrivial) < maxHashes {
			h := hash64(desc)
			if _, ok := r.nontrivial[h]; !ok {
				r.nontrivial[h] = struct{}{}
				if len(r.ntSamples) < 3 {
					r.ntSamples = append(r.ntSamples, clip(desc))
				}
			}
		}
	}
}

func clip(s string) string {
	if len(s) > 600 {
		return s[:600] + "…"
	}
	return s
}

// Label counts a class of cases (rapid-style classify).
func (r *Rec) Label(l string) {
	r.mu.Lock()
	r.labels[l]++
	r.mu.Unlock()
}

func (r *Rec) LabelN(l string, n int64) {
	r.mu.Lock()
	r.labels[l] += n
	r.mu.Unlock()
}

// Excluded counts a draw removed from the domain because it is a listed known finding.
func (r *Rec) Excluded() {
	r.mu.Lock()
	r.excluded++
	r.mu.Unlock()
}

func (r *Rec) Extra(k string, v any) {
	r.mu.Lock()
	r.extra[k] = v
	r.mu.Unlock()
}

func (r *Rec) Beat() {
	r.mu.Lock()
	r.lastBeat = time.Now()
	r.mu.Unlock()
}

// Failf fails the current case with a signature that identifies *what* failed
// (used by the driver to match known findings) and a message.
func (r *Rec) Failf(t *rapid.T, sig string, format string, args ...any) {
	msg := fmt.Sprintf(format, args...)
	r.mu.Lock()
	r.sig = sig
	r.msg = msg
	r.mu.Unlock()
	t.Fatalf("[sig=%s] %s", sig, msg)
}

// Fuel exhaustion / typed panics -------------------------------------------------

// FuelExhausted is thrown by probes whose call budget is exceeded.
type FuelExhausted struct{ What string }

func (f FuelExhausted) Error() string { return "fuel exhausted: " + f.What }

// Guard runs library code (never rapid draws) and converts a panic into a
// failure carrying sig. Fuel exhaustion gets the "|nonterm" suffix.
func (r *Rec) Guard(t *rapid.T, sig string, f func()) {
	var pv any
	var stack string
	func() {
		defer func() {
			if p := recover(); p != nil {
				pv = p
				stack = string(debug.Stack())
			}
		}()
		f()
	}()
	if pv != nil {
		if fe, ok := pv.(FuelExhausted); ok {
			r.Failf(t, sig+"|nonterm", "non-termination / over-consumption: %v", fe)
		}
		r.Failf(t, sig+"|panic", "unexpected panic: %v\n%s", pv, trimStack(stack))
	}
}

func trimStack(s string) string {
	lines := strings.Split(s, "\n")
	if len(lines) > 40 {
		lines = lines[:40]
	}
	return strings.Join(lines, "\n")
}

// Catch runs f and returns the recovered panic value (nil,false if none).
func Catch(f func()) (pv any, panicked bool) {
	defer func() {
		if p := recover(); p != nil {
			pv = p
			panicked = true
		}
	}()
	f()
	return nil, false
}

// Output -----------------------------------------------------------------------

type outRec struct {
	Event      string           `json:"event"`
	Sub        string           `json:"sub"`
	Rule       string           `json:"rule,omitempty"`
	Evals      int64            `json:"evals,omitempty"`
	Hashes     string           `json:"hashes,omitempty"`
	Labels     map[string]int64 `json:"labels,omitempty"`
	Samples    []string         `json:"samples,omitempty"`
	NtSamples  []string         `json:"nt_samples,omitempty"`
	Excluded   int64            `json:"excluded,omitempty"`
	Failed     bool             `json:"failed,omitempty"`
	Sig        string           `json:"sig,omitempty"`
	Msg        string           `json:"msg,omitempty"`
	FailFile   string           `json:"failfile,omitempty"`
	Seed       uint64           `json:"seed,omitempty"`
	Checks     int              `json:"checks,omitempty"`
	WallS      float64          `json:"wall_s,omitempty"`
	Extra      map[string]any   `json:"extra,omitempty"`
	Hang       bool             `json:"hang,omitempty"`
	HangIsViol bool             `json:"hang_is_violation,omitempty"`
}

var (
	outMu   sync.Mutex
	outFile *os.File
	skipSet map[string]bool
	onlySet map[string]bool
	tier    = "quick"
)

func emit(o outRec) {
	outMu.Lock()
	defer outMu.Unlock()
	if outFile == nil {
		return
	}
	b, _ := json.Marshal(o)
	_, _ = outFile.Write(append(b, '\n'))
	_ = outFile.Sync()
}

// Tier returns "quick" or "thorough".
func Tier() string { return tier }

// Thorough reports whether the thorough tier is running.
func Thorough() bool { return tier == "thorough" }

// Pick returns q in the quick tier and th in the thorough tier.
func Pick(q, th int) int {
	if Thorough() {
		return th
	}
	return q
}

// MainWith is Main with clean-up functions that run before the process exits.
func MainWith(m *testing.M, cleanups ...func()) {
	exitHooks = append(exitHooks, cleanups...)
	Main(m)
}

var exitHooks []func()

// Main is called from every harness package's TestMain.
func Main(m *testing.M) {
	debug.SetMaxStack(96 << 20)
	flag.Parse()
	if p := os.Getenv("VERIF_OUT"); p != "" {
		f, err := os.OpenFile(p, os.O_CREATE|os.O_APPEND|os.O_WRONLY, 0o644)
		if err != nil {
			fmt.Fprintln(os.Stderr, "kit: cannot open VERIF_OUT:", err)
			os.Exit(4)
		}
		outFile = f
	}
	if t := os.Getenv("VERIF_TIER"); t == "thorough" {
		tier = "thorough"
	}
	skipSet = map[string]bool{}
	if p := os.Getenv("VERIF_SKIPFILE"); p != "" {
		if b, err := os.ReadFile(p); err == nil {
			for _, s := range strings.Split(string(b), "\n") {
				if s = strings.TrimSpace(s); s != "" {
					skipSet[s] = true
				}
			}
		}
	}
	if s := os.Getenv("VERIF_ONLY"); s != "" {
		onlySet = map[string]bool{}
		for _, x := range strings.Split(s, ",") {
			onlySet[x] = true
		}
	}
	code := m.Run()
	if outFile != nil {
		_ = outFile.Close()
	}
	for _, h := range exitHooks {
		h()
	}
	os.Exit(code)
}

// Opt configures one sub-check.
type Opt struct {
	// Weight scales the number of cases relative to -rapid.checks (default 1).
	Weight float64
	// MinChecks is a lower bound for the number of cases.
	MinChecks int
	// HangIsViolation: the property statement itself demands termination, so a
	// case exceeding HangAfter is reported as a violation instead of inconclusive.
	HangIsViolation bool
	// HangAfter is the per-case watchdog (default 60 s).
	HangAfter time.Duration
	// Abs, if > 0, is the absolute number of cases in this process (costly cases: whole packages).
	Abs int
}

func baseChecks() int {
	f := flag.Lookup("rapid.checks")
	if f == nil {
		return 100
	}
	n, _ := strconv.Atoi(f.Value.String())
	return n
}

func baseSeed() uint64 {
	f := flag.Lookup("rapid.seed")
	if f == nil {
		return 0
	}
	n, _ := strconv.ParseUint(f.Value.String(), 10, 64)
	return n
}

var origChecks = -1

// Check runs one sub-check: a rapid property with its own recorder, as a Go
// subtest, so that every sub-check runs even if another one fails.
func Check(t *testing.T, name string, rule string, opt Opt, prop func(t *rapid.T, rec *Rec)) {
	t.Helper()
	full := t.Name() + "/" + name
	if skipSet[full] {
		return
	}
	if onlySet != nil && !onlySet[full] {
		return
	}
	if origChecks < 0 {
		origChecks = baseChecks()
	}
	checks := origChecks
	if opt.Weight > 0 {
		checks = int(float64(checks) * opt.Weight)
	}
	if checks < opt.MinChecks {
		checks = opt.MinChecks
	}
	if opt.Abs > 0 {
		checks = opt.Abs
	}
	if checks < 1 {
		checks = 1
	}
	_ = flag.Set("rapid.checks", strconv.Itoa(checks))
	rec := &Rec{Sub: full, Rule: rule, nontrivial: map[uint64]struct{}{}, labels: map[string]int64{}, extra: map[string]any{}, lastBeat: time.Now(), hangIsViol: opt.HangIsViolation}
	emit(outRec{Event: "start", Sub: full})
	hangAfter := opt.HangAfter
	if hangAfter == 0 {
		hangAfter = 60 * time.Second
	}
	stop := make(chan struct{})
	go watchdog(rec, hangAfter, stop)
	start := time.Now()
	ok := t.Run(name, func(t *testing.T) {
		rapid.Check(t, func(rt *rapid.T) {
			rec.Beat()
			prop(rt, rec)
		})
	})
	close(stop)
	o := rec.out()
	o.Event = "done"
	o.WallS = time.Since(start).Seconds()
	o.Checks = checks
	o.Seed = baseSeed()
	if !ok {
		o.Failed = true
		o.FailFile = newestFailFile(full)
	}
	emit(o)
}

func (r *Rec) out() outRec {
	r.mu.Lock()
	defer r.mu.Unlock()
	hs := make([]uint64, 0, len(r.nontrivial))
	for h := range r.nontrivial {
		hs = append(hs, h)
	}
	sort.Slice(hs, func(i, j int) bool { return hs[i] < hs[j] })
	buf := make([]byte, 8*len(hs))
	for i, h := range hs {
		binary.LittleEndian.PutUint64(buf[8*i:], h)
	}
	samples := append([]string{}, r.ntSamples...)
	for _, s := range r.samples {
		if len(samples) >= 4 {
			break
		}
		samples = append(samples, s)
	}
	return outRec{Sub: r.Sub, Rule: r.Rule, Evals: r.evals, Hashes: base64.StdEncoding.EncodeToString(buf), Labels: r.labels,
		Samples: samples, Excluded: r.excluded, Sig: r.sig, Msg: clipMsg(r.msg), Extra: r.extra}
}

func clipMsg(s string) string {
	if len(s) > 4000 {
		return s[:4000] + "…"
	}
	return s
}

func safeName(f string) string {
	var s strings.Builder
	for _, r := range f {
		if (r >= 'a' && r <= 'z') || (r >= 'A' && r <= 'Z') || (r >= '0' && r <= '9') || r == '-' || r == '_' || r > 127 {
			s.WriteRune(r)
		} else {
			s.WriteRune('_')
		}
	}
	return s.String()
}

func newestFailFile(full string) string {
	matches, _ := filepath.Glob(filepath.Join("testdata", "rapid", safeName(full), "*.fail"))
	if len(matches) == 0 {
		return ""
	}
	sort.Strings(matches)
	b, err := os.ReadFile(matches[len(matches)-1])
	if err != nil {
		return ""
	}
	if len(b) > 1<<20 {
		return ""
	}
	return string(b)
}

func watchdog(rec *Rec, after time.Duration, stop chan struct{}) {
	tick := time.NewTicker(after / 8)
	defer tick.Stop()
	for {
		select {
		case <-stop:
			return
		case <-tick.C:
			rec.mu.Lock()
			idle := time.Since(rec.lastBeat)
			rec.mu.Unlock()
			if idle > after {
				buf := make([]byte, 1<<20)
				n := runtime.Stack(buf, true)
				fmt.Fprintf(os.Stderr, "kit: watchdog: sub-check %s: one case has been running for %v\n%s\n", rec.Sub, idle, buf[:n])
				o := rec.out()
				o.Event = "hang"
				o.Hang = true
				o.HangIsViol = rec.hangIsViol
				o.Seed = baseSeed()
				emit(o)
				for _, h := range exitHooks {
					h()
				}
				os.Exit(3)
			}
		}
	}
}

// Plain runs a non-rapid sub-check (regression cases, exhaustive enumerations).
// body reports failures through rec.PlainFail.
func Plain(t *testing.T, name string, rule string, body func(t *testing.T, rec *Rec)) {
	t.Helper()
	full := t.Name() + "/" + name
	if skipSet[full] {
		return
	}
	if onlySet != nil && !onlySet[full] {
		return
	}
	if sh := os.Getenv("VERIF_SHARD"); sh != "" && sh != "0" {
		return // deterministic enumerations run once, in shard 0
	}
	rec := &Rec{Sub: full, Rule: rule, nontrivial: map[uint64]struct{}{}, labels: map[string]int64{}, extra: map[string]any{}, lastBeat: time.Now()}
	emit(outRec{Event: "start", Sub: full})
	stop := make(chan struct{})
	go watchdog(rec, 300*time.Second, stop)
	start := time.Now()
	ok := t.Run(name, func(t *testing.T) { body(t, rec) })
	close(stop)
	o := rec.out()
	o.Event = "done"
	o.WallS = time.Since(start).Seconds()
	o.Seed = baseSeed()
	o.Failed = !ok
	emit(o)
}

// PlainFail fails a Plain sub-check with a signature.
func (r *Rec) PlainFail(t *testing.T, sig string, format string, args ...any) {
	msg := fmt.Sprintf(format, args...)
	r.mu.Lock()
	r.sig = sig
	r.msg = msg
	r.mu.Unlock()
	t.Fatalf("[sig=%s] %s", sig, msg)
}
