package kit

import (
	"errors"
	"fmt"
	"strings"

	"pgregory.net/rapid"
)

// SmallInt: heavy on collisions, sometimes full range.
func SmallInt() *rapid.Generator[int] {
	return rapid.OneOf(rapid.IntRange(-3, 8), rapid.IntRange(-3, 8), rapid.IntRange(-3, 8), rapid.Int())
}

// TinyInt draws from -3..8 only.
func TinyInt() *rapid.Generator[int] { return rapid.IntRange(-3, 8) }

var strAlphabet = []string{"a", "b", "", "A", "é", "ab", "ba"}

// SmallString: short strings over a tiny alphabet (many equal pairs).
func SmallString() *rapid.Generator[string] {
	return rapid.Custom(func(t *rapid.T) string {
		n := rapid.IntRange(0, 3).Draw(t, "n")
		var sb strings.Builder
		for i := 0; i < n; i++ {
			sb.WriteString(rapid.SampledFrom(strAlphabet).Draw(t, "c"))
		}
		return sb.String()
	})
}

// IntSlice draws a slice of small ints of length 0..max.
func IntSlice(max int) *rapid.Generator[[]int] {
	return rapid.SliceOfN(TinyInt(), 0, max)
}

// IntSliceWide is IntSlice for inputs whose length the code under test does not bound: 0..max most of the time,
// but one case in six has 9..40 elements and one in twelve 41..300 (a threshold inside an implementation - a
// chunk size, a switch to another algorithm - is only crossed by inputs longer than any "small" bound).
func IntSliceWide(max int) *rapid.Generator[[]int] {
	return rapid.Custom(func(t *rapid.T) []int {
		lo, hi := 0, max
		switch rapid.IntRange(0, 11).Draw(t, "sizeClass") {
		case 0, 1:
			lo, hi = 9, 40
		case 2:
			lo, hi = 41, 300
		}
		if hi < max {
			lo, hi = 0, max
		}
		return rapid.SliceOfN(TinyInt(), lo, hi).Draw(t, "elems")
	})
}

// Sentinel errors, compared by identity (errors.Is).
var Errs = []error{errors.New("errE0"), errors.New("errE1"), errors.New("errE2"), errors.New("errE3"), errors.New("errE4"), errors.New("errE5"), errors.New("errE6"), errors.New("errE7"), errors.New("errE8"), errors.New("errE9")}

func ErrGen() *rapid.Generator[error] { return rapid.SampledFrom(Errs) }

// ErrName gives a stable printable name of an error.
func ErrName(e error) string {
	if e == nil {
		return "nil"
	}
	return e.Error()
}

// Table function int -> int : f(x) = tab[x mod k].
type IntFn struct {
	Tab []int
}

func (f IntFn) Call(x int) int {
	k := len(f.Tab)
	i := ((x % k) + k) % k
	return f.Tab[i]
}
func (f IntFn) String() string { return fmt.Sprintf("λx.%v[x mod %d]", f.Tab, len(f.Tab)) }

func IntFnGen() *rapid.Generator[IntFn] {
	return rapid.Custom(func(t *rapid.T) IntFn {
		return IntFn{Tab: rapid.SliceOfN(TinyInt(), 1, 4).Draw(t, "tab")}
	})
}

// Pred is a table predicate.
type Pred struct{ Tab []bool }

func (p Pred) Call(x int) bool {
	k := len(p.Tab)
	return p.Tab[((x%k)+k)%k]
}
func (p Pred) String() string { return fmt.Sprintf("λx.%v[x mod %d]", p.Tab, len(p.Tab)) }

func PredGen() *rapid.Generator[Pred] {
	return rapid.Custom(func(t *rapid.T) Pred {
		return Pred{Tab: rapid.SliceOfN(rapid.Bool(), 1, 4).Draw(t, "ptab")}
	})
}

// Fuel is a call budget; Use panics with FuelExhausted when it is exceeded.
type Fuel struct {
	Left int
	What string
}

func NewFuel(n int, what string) *Fuel { return &Fuel{Left: n, What: what} }

func (f *Fuel) Use() {
	f.Left--
	if f.Left < 0 {
		panic(FuelExhausted{f.What})
	}
}

// Probe counts calls and remembers global order.
type Probe struct {
	Name  string
	Calls int
	Order []int
	seq   *int
}

type ProbeSet struct {
	seq    int
	Probes []*Probe
}

func (ps *ProbeSet) New(name string) *Probe {
	p := &Probe{Name: name, seq: &ps.seq}
	ps.Probes = append(ps.Probes, p)
	return p
}

func (p *Probe) Hit() {
	p.Calls++
	*p.seq++
	p.Order = append(p.Order, *p.seq)
}
