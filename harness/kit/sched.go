package kit

import (
	"fmt"
	"runtime/debug"
	"sync"

	"pgregory.net/rapid"
)

// Cooperative scheduler: harness threads are goroutines that run ONE AT A TIME.
// A thread runs until it reaches a yield point (a hook inside the library, a
// spawn, an explicit Yield) or ends, then hands the baton back to the
// controller, which asks the decision source which runnable thread goes next.
// A schedule therefore is a sequence of small ints – generated, shrinkable and
// replayable like any other input.

type Thread struct {
	ID      int
	Name    string
	resume  chan struct{}
	done    bool
	started bool
	fn      func()
	panicV  any
	panicS  string
	// spinning: waiting for a mutex held by another thread; not eligible until
	// some other thread has taken a step since.
	spinning  bool
	spinStamp int
	Steps     int
	lastOp    string
}

type killed struct{}

type Sched struct {
	mu       sync.Mutex
	threads  []*Thread
	cur      *Thread
	yielded  chan struct{}
	kill     chan struct{}
	dead     bool
	stamp    int // global step counter
	progress int // steps that were not a failed lock attempt
	Trace    []string
	// OnStep, if set, runs in the controller after every step (invariants).
	OnStep func(step int, t *Thread)
	// MaxSteps bounds a run (default 100000).
	MaxSteps int
	wg       sync.WaitGroup
	quiet    int
}

var (
	activeMu    sync.Mutex
	activeSched *Sched
)

// ActiveSched returns the scheduler owning the calling context, if any.
func ActiveSched() *Sched {
	activeMu.Lock()
	defer activeMu.Unlock()
	return activeSched
}

func NewSched() *Sched {
	return &Sched{yielded: make(chan struct{}), kill: make(chan struct{}), MaxSteps: 100000}
}

// Go registers a new thread. May be called by the controller before Run or by
// a running thread (spawn).
func (s *Sched) Go(name string, fn func()) *Thread {
	s.mu.Lock()
	t := &Thread{ID: len(s.threads), Name: name, resume: make(chan struct{}), fn: fn}
	s.threads = append(s.threads, t)
	s.mu.Unlock()
	return t
}

func (s *Sched) start(t *Thread) {
	t.started = true
	s.wg.Add(1)
	go func() {
		defer s.wg.Done()
		defer func() {
			if p := recover(); p != nil {
				if _, ok := p.(killed); !ok {
					t.panicV = p
					t.panicS = string(debug.Stack())
				}
			}
			t.done = true
			if !s.isDead() {
				s.yielded <- struct{}{}
			}
		}()
		select {
		case <-t.resume:
		case <-s.kill:
			panic(killed{})
		}
		t.fn()
	}()
}

func (s *Sched) isDead() bool {
	s.mu.Lock()
	defer s.mu.Unlock()
	return s.dead
}

// Yield is called (through the hooks) by the running thread.
func (s *Sched) Yield(op string) {
	t := s.cur
	if t == nil {
		return
	}
	t.lastOp = op
	s.yielded <- struct{}{}
	select {
	case <-t.resume:
	case <-s.kill:
		panic(killed{})
	}
}

// SpinYield is called by a thread that found a mutex held by another thread.
func (s *Sched) SpinYield(op string) {
	t := s.cur
	if t == nil {
		return
	}
	t.spinning = true
	t.spinStamp = s.progress
	s.Yield(op)
	t.spinning = false
}

func (s *Sched) runnable() (r []*Thread, deadlock bool) {
	s.mu.Lock()
	defer s.mu.Unlock()
	alive := 0
	for _, t := range s.threads {
		if t.done {
			continue
		}
		alive++
		if t.spinning && t.spinStamp == s.progress {
			// no thread has made progress since it found the mutex held
			continue
		}
		r = append(r, t)
	}
	if len(r) == 0 && alive > 0 {
		return nil, true
	}
	return r, false
}

// RunResult describes how a run ended.
type RunResult struct {
	Steps     int
	Panic     any
	PanicInfo string
	PanicIn   string
	Overrun   bool // MaxSteps exceeded (livelock) or Deadlock
	Deadlock  bool // every live thread waits for a mutex nobody will release
	Decisions int  // decision points with more than one option
}

// Run drives all threads to completion. pick(n, names) returns an index in [0,n).
// It must be called from the controller goroutine (the rapid property body).
func (s *Sched) Run(pick func(n int, runnable []*Thread) int) (res RunResult) {
	activeMu.Lock()
	if activeSched != nil {
		activeMu.Unlock()
		panic("kit: nested scheduler run")
	}
	activeSched = s
	activeMu.Unlock()
	defer func() {
		activeMu.Lock()
		activeSched = nil
		activeMu.Unlock()
		s.teardown()
	}()
	for {
		rs, deadlock := s.runnable()
		if deadlock {
			res.Overrun = true
			res.Deadlock = true
			return
		}
		if len(rs) == 0 {
			return
		}
		if res.Steps >= s.MaxSteps {
			res.Overrun = true
			return
		}
		i := 0
		if len(rs) > 1 {
			res.Decisions++
			i = pick(len(rs), rs)
			if i < 0 || i >= len(rs) {
				i = 0
			}
		}
		t := rs[i]
		if !t.started {
			s.start(t)
		}
		s.cur = t
		s.stamp++
		t.Steps++
		res.Steps++
		t.resume <- struct{}{}
		<-s.yielded
		s.cur = nil
		if !t.spinning || t.done {
			s.progress++
		}
		if t.done {
			t.lastOp = "end"
		}
		if len(s.Trace) < 4000 {
			s.Trace = append(s.Trace, fmt.Sprintf("%s:%s", t.Name, t.lastOp))
		}
		if t.panicV != nil {
			res.Panic = t.panicV
			res.PanicInfo = t.panicS
			res.PanicIn = t.Name
			return
		}
		if s.OnStep != nil {
			s.OnStep(res.Steps, t)
		}
	}
}

// teardown releases every parked thread goroutine.
func (s *Sched) teardown() {
	s.mu.Lock()
	s.dead = true
	s.mu.Unlock()
	close(s.kill)
	// threads that never started have no goroutine
	s.wg.Wait()
}

// Hook helpers -------------------------------------------------------------------

// HookYield is what the library hooks call: yields only when the caller is the
// running thread of the active scheduler.
func HookYield(op string) {
	s := ActiveSched()
	if s == nil || s.cur == nil || s.quiet > 0 {
		return
	}
	s.Yield(op)
}

// Quiet runs f (in the running thread or the controller) without yielding at hooks.
func Quiet(f func()) {
	s := ActiveSched()
	if s == nil {
		f()
		return
	}
	s.quiet++
	defer func() { s.quiet-- }()
	f()
}

// HookSpawn turns a task of the default executor into a scheduler thread.
func HookSpawn(run func()) bool {
	s := ActiveSched()
	if s == nil {
		return false
	}
	s.Go(fmt.Sprintf("task%d", len(s.threads)), run)
	return true
}

// HookBeforeLock makes mutex acquisition scheduler-aware using the REAL mutex
// state: the thread yields while TryLock fails, so a thread never blocks the
// process while another (parked) thread holds the mutex.
func HookBeforeLock(l *sync.Mutex) {
	s := ActiveSched()
	if s == nil || s.cur == nil {
		return
	}
	s.Yield("lock?")
	for {
		if l.TryLock() {
			l.Unlock()
			return
		}
		s.SpinYield("lock-wait")
	}
}

// Decision sources ---------------------------------------------------------------

// DFS explorer over decision vectors (stateless exhaustive enumeration of a small
// configuration): call Next() before each run; Pick inside it; Done() after.
type DFS struct {
	prefix []int // choices to replay
	widths []int // widths observed along the current run
	pos    int
	first  bool
	Runs   int
}

func NewDFS() *DFS { return &DFS{first: true} }

// Next prepares the next run; returns false when the space is exhausted.
func (d *DFS) Next() bool {
	if d.first {
		d.first = false
		d.pos = 0
		d.widths = d.widths[:0]
		d.Runs++
		return true
	}
	// backtrack: increment the last decision that has room
	choices := make([]int, len(d.widths))
	copy(choices, d.prefix)
	for i := len(d.widths) - 1; i >= 0; i-- {
		c := 0
		if i < len(choices) {
			c = choices[i]
		}
		if c+1 < d.widths[i] {
			d.prefix = append(append([]int{}, choices[:i]...), c+1)
			d.pos = 0
			d.widths = d.widths[:0]
			d.Runs++
			return true
		}
	}
	return false
}

func (d *DFS) Pick(n int) int {
	c := 0
	if d.pos < len(d.prefix) {
		c = d.prefix[d.pos]
	} else {
		d.prefix = append(d.prefix, 0)
	}
	if c >= n {
		c = n - 1
		d.prefix[d.pos] = c
	}
	d.widths = append(d.widths, n)
	d.pos++
	return c
}

// Choices returns the decision vector of the current run.
func (d *DFS) Choices() []int { return append([]int{}, d.prefix[:d.pos]...) }

// UniformPick draws every decision uniformly from rapid.
func UniformPick(rt *rapid.T) func(n int, rs []*Thread) int {
	return func(n int, rs []*Thread) int {
		return rapid.IntRange(0, n-1).Draw(rt, "pick")
	}
}

// PCTPick is a PCT-style source: every thread gets a random priority when first
// seen; at d random change points the running thread's priority drops below all
// others. The highest-priority runnable thread runs.
func PCTPick(rt *rapid.T, d int, horizon int) func(n int, rs []*Thread) int {
	prio := map[int]int{}
	step := 0
	low := -1
	changes := map[int]bool{}
	for i := 0; i < d; i++ {
		changes[rapid.IntRange(1, horizon).Draw(rt, "chg")] = true
	}
	return func(n int, rs []*Thread) int {
		step++
		best, bi := -1<<30, 0
		for i, t := range rs {
			p, ok := prio[t.ID]
			if !ok {
				p = rapid.IntRange(0, 1000).Draw(rt, "prio")
				prio[t.ID] = p
			}
			if p > best {
				best, bi = p, i
			}
		}
		if changes[step] {
			prio[rs[bi].ID] = low
			low--
			// re-pick
			best, bi = -1<<30, 0
			for i, t := range rs {
				if prio[t.ID] > best {
					best, bi = prio[t.ID], i
				}
			}
		}
		return bi
	}
}

// IsKilled reports whether a recovered panic value is the scheduler's tear-down signal
// (harness code that recovers panics inside a thread must re-panic it).
func IsKilled(p any) bool {
	_, ok := p.(killed)
	return ok
}
