package kit

import (
	_ "github.com/anishathalye/porcupine"
	_ "github.com/csgura/fp"
	_ "pgregory.net/rapid"
)
