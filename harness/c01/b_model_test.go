package c01

// Part B of C01: Seq, List, Iterator, lazy.Eval, fn0, fn1.
//
// This file holds everything that is independent of the library:
//   - the reference monads (model values are `any`):
//       sequence  : []any, unit(x) = [x], bind = concat-map          (Seq, List: persistent)
//       cursor    : *bCur, a ONE-SHOT shared cursor over a slice      (Iterator)
//       box       : bBox, a strict value                              (lazy.Eval)
//       thunk     : func() any                                        (fn0)
//       reader    : func(int) any, observed on a small test domain    (fn1)
//   - ONE reference definition per derived combinator, written over unit/bind only
//   - value descriptors, table functions, N-ary position-sensitive functions.

import (
	"fmt"
	"strings"

	"github.com/csgura/fp"
	"pgregory.net/rapid"

	"verifharness/kit"
)

// ---- reference monad ---------------------------------------------------------------

// bM is a harness-side monad over untyped model values.
type bM struct {
	name string
	unit func(x any) any
	bind func(m any, k func(any) any) any
	// zero is the empty value of sequence-like monads (nil for the others); used by FilterMap only.
	zero func() any
	// wrap builds a model value M[any] directly from its items (sequence-like: the items in order;
	// box/thunk: the single item; reader: e -> items[e mod k]).
	wrap func(items []any) any
	// obs observes a model value M[int] as a comparable int slice.
	obs func(m any) []int
}

// bWork counts bind steps of the current case (used to size the callback fuel).
var bWork int

// sequence model (Seq, List)
var bSeqM = bM{
	name: "sequence",
	unit: func(x any) any { return []any{x} },
	bind: func(m any, k func(any) any) any {
		out := []any{}
		for _, x := range m.([]any) {
			bWork++
			out = append(out, k(x).([]any)...)
		}
		return out
	},
	zero: func() any { return []any{} },
	wrap: func(items []any) any { return append([]any{}, items...) },
	obs: func(m any) []int {
		out := []int{}
		for _, x := range m.([]any) {
			out = append(out, x.(int))
		}
		return out
	},
}

// bCur is the one-shot cursor: every alias of the same *bCur sees the same position.
type bCur struct {
	items []any
	pos   int
}

func (c *bCur) hasNext() bool { return c.pos < len(c.items) }
func (c *bCur) next() any     { x := c.items[c.pos]; c.pos++; return x }

// cursor model (Iterator). bind pulls the outer cursor one element at a time and drains the
// cursor returned by k before pulling the next one, which is what "for x in m: yield from k(x)"
// means for one-shot values: a cursor captured by k (e.g. the second operand of Map2 / Ap) is
// drained by the first outer element and empty for all later ones.
var bCurM = bM{
	name: "cursor",
	unit: func(x any) any { return &bCur{items: []any{x}} },
	bind: func(m any, k func(any) any) any {
		out := []any{}
		c := m.(*bCur)
		for c.hasNext() {
			bWork++
			r := k(c.next()).(*bCur)
			for r.hasNext() {
				out = append(out, r.next())
			}
		}
		return &bCur{items: out}
	},
	zero: func() any { return &bCur{} },
	wrap: func(items []any) any { return &bCur{items: append([]any{}, items...)} },
	obs: func(m any) []int {
		out := []int{}
		c := m.(*bCur)
		for c.hasNext() {
			out = append(out, c.next().(int))
		}
		return out
	},
}

// box model (lazy.Eval): a strict value
type bBox struct{ v any }

var bBoxM = bM{
	name: "box",
	unit: func(x any) any { return bBox{x} },
	bind: func(m any, k func(any) any) any { bWork++; return k(m.(bBox).v) },
	wrap: func(items []any) any { return bBox{items[0]} },
	obs:  func(m any) []int { return []int{m.(bBox).v.(int)} },
}

// thunk model (fn0)
var bThunkM = bM{
	name: "thunk",
	unit: func(x any) any { return func() any { return x } },
	bind: func(m any, k func(any) any) any {
		return func() any { bWork++; return k(m.(func() any)()).(func() any)() }
	},
	wrap: func(items []any) any { return func() any { return items[0] } },
	obs:  func(m any) []int { return []int{m.(func() any)().(int)} },
}

// bDomain is the test domain on which fn1 values are compared extensionally.
var bDomain = []int{-3, -2, -1, 0, 1, 2, 3, 4, 5, 7, 8, 11, 100}

func bMod(x, k int) int { return ((x % k) + k) % k }

// reader model (fn1)
var bReaderM = bM{
	name: "reader",
	unit: func(x any) any { return func(int) any { return x } },
	bind: func(m any, k func(any) any) any {
		return func(e int) any { bWork++; return k(m.(func(int) any)(e)).(func(int) any)(e) }
	},
	wrap: func(items []any) any { return func(e int) any { return items[bMod(e, len(items))] } },
	obs: func(m any) []int {
		out := []int{}
		for _, e := range bDomain {
			out = append(out, m.(func(int) any)(e).(int))
		}
		return out
	},
}

// ---- ONE reference definition per combinator, over unit/bind only -------------------------

type bAnyFn = func(any) any

func bRefMap(M bM, m any, f bAnyFn) any {
	return M.bind(m, func(x any) any { return M.unit(f(x)) })
}

func bRefFlatten(M bM, mm any) any {
	return M.bind(mm, func(inner any) any { return inner })
}

// Ap(tf, m) = tf >>= \f -> m >>= \x -> unit (f x)
func bRefAp(M bM, tf any, m any) any {
	return M.bind(tf, func(f any) any {
		return M.bind(m, func(x any) any { return M.unit(f.(bAnyFn)(x)) })
	})
}

// Map2(a, b, f) = a >>= \x -> b >>= \y -> unit (f x y)
func bRefMap2(M bM, a, b any, f func(x, y any) any) any {
	return M.bind(a, func(x any) any {
		return M.bind(b, func(y any) any { return M.unit(f(x, y)) })
	})
}

func bRefLift(M bM, f bAnyFn) func(any) any {
	return func(m any) any { return bRefMap(M, m, f) }
}

func bRefLiftM(M bM, f bAnyFn) func(any) any {
	return func(m any) any { return M.bind(m, f) }
}

// Compose(f, g) = \a -> f a >>= g
func bRefCompose(M bM, f, g bAnyFn) bAnyFn {
	return func(a any) any { return M.bind(f(a), g) }
}

func bRefComposePure(M bM, f bAnyFn) bAnyFn {
	return func(a any) any { return M.unit(f(a)) }
}

// FilterMap(m, f) = m >>= \x -> maybe zero unit (f x)
func bRefFilterMap(M bM, m any, f func(any) (any, bool)) any {
	return M.bind(m, func(x any) any {
		if y, ok := f(x); ok {
			return M.unit(y)
		}
		return M.zero()
	})
}

// FlapN(tf)(a1)..(aN) = tf >>= \f -> unit (f a1 .. aN)      (flap: fmap ($ a))
// Model functions of arity N are func(args []int) int.
func bRefFlapN(M bM, tf any, args []int) any {
	return M.bind(tf, func(f any) any { return M.unit(f.(func([]int) int)(args)) })
}

// MethodN(m, f)(a2..aN) = m >>= \a1 -> unit (f a1 a2 .. aN); FlapMap(f, m)(b) = Method1(m, f)(b)
func bRefMethodN(M bM, m any, f func([]int) int, rest []int) any {
	return M.bind(m, func(a any) any {
		return M.unit(f(append([]int{a.(int)}, rest...)))
	})
}

// product of the reader monad (fn1.Merge*): fs[0] >>= \x1 -> .. fs[n-1] >>= \xn -> unit [x1..xn]
func bRefProduct(M bM, ms []any) any {
	var rec func(i int, acc []int) any
	rec = func(i int, acc []int) any {
		if i == len(ms) {
			return M.unit(append([]int{}, acc...))
		}
		return M.bind(ms[i], func(x any) any { return rec(i+1, append(append([]int{}, acc...), x.(int))) })
	}
	return rec(0, nil)
}

// positional zip (NOT monadic): shortest operand decides
func bRefZip(cols ...[]int) [][]int {
	if len(cols) == 0 {
		return nil
	}
	n := len(cols[0])
	for _, c := range cols {
		if len(c) < n {
			n = len(c)
		}
	}
	out := [][]int{}
	for i := 0; i < n; i++ {
		row := []int{}
		for _, c := range cols {
			row = append(row, c[i])
		}
		out = append(out, row)
	}
	return out
}

func bFlat(rows [][]int) []int {
	out := []int{}
	for _, r := range rows {
		out = append(out, r...)
	}
	return out
}

// ---- value descriptors ------------------------------------------------------------------

// bVal describes one monadic value M[int]: construction kind + content. How K and Xs are read
// is up to the package (sequence content, the Eval's value, the fn1 table ...).
type bVal struct {
	K  int
	Xs []int
}

func (v bVal) String() string { return fmt.Sprintf("k%d%v", v.K, v.Xs) }

func (v bVal) shifted(s int) []int {
	out := make([]int, len(v.Xs))
	for i, x := range v.Xs {
		out[i] = x + s
	}
	return out
}

// bGenXs draws the length first (so that every length 0..maxLen is common) and then the elements.
func bGenXs(rt *rapid.T, label string, minLen, maxLen int) []int {
	n := rapid.IntRange(minLen, maxLen).Draw(rt, label+".len")
	return rapid.SliceOfN(kit.TinyInt(), n, n).Draw(rt, label)
}

func bAnys(xs []int) []any {
	out := make([]any, len(xs))
	for i, x := range xs {
		out[i] = x
	}
	return out
}

// bTab is a table function int -> M[int]: f(x) = Rows[x mod k] with Mix*x added to every element.
type bTab struct {
	Rows []bVal
	Mix  int
}

func (t bTab) row(x int) (bVal, int) { return t.Rows[bMod(x, len(t.Rows))], t.Mix * x }

func (t bTab) String() string {
	s := []string{}
	for _, r := range t.Rows {
		s = append(s, r.String())
	}
	return fmt.Sprintf("λx.{%s}[x mod %d]+%d·x", strings.Join(s, " "), len(t.Rows), t.Mix)
}

// bFn1 is a table function int -> int: f(x) = Tab[x mod k] + Mul*x
type bFn1 struct {
	Tab []int
	Mul int
}

func (f bFn1) call(x int) int { return f.Tab[bMod(x, len(f.Tab))] + f.Mul*x }
func (f bFn1) String() string { return fmt.Sprintf("λx.%v[x mod %d]+%d·x", f.Tab, len(f.Tab), f.Mul) }
func (f bFn1) lib(fuel *kit.Fuel) func(int) int {
	return func(x int) int { fuel.Use(); return f.call(x) }
}
func (f bFn1) ref() bAnyFn { return func(x any) any { return f.call(x.(int)) } }

func bGenFn1(rt *rapid.T, label string) bFn1 {
	return bFn1{Tab: rapid.SliceOfN(kit.TinyInt(), 1, 3).Draw(rt, label+".tab"), Mul: rapid.SampledFrom([]int{0, 1, 1, 2, -1}).Draw(rt, label+".mul")}
}

// bLinFn is a position-sensitive N-ary function: f(x1..xN) = C[0] + Σ C[i]·xi
type bLinFn struct{ C []int }

func bLin(c []int, xs ...int) int {
	r := c[0]
	for i, x := range xs {
		r += c[i+1] * x
	}
	return r
}
func (f bLinFn) call(xs []int) int { return bLin(f.C, xs...) }
func (f bLinFn) String() string    { return fmt.Sprintf("lin%v", f.C) }

func bGenLin(rt *rapid.T, label string, n int) bLinFn {
	return bLinFn{C: rapid.SliceOfN(rapid.IntRange(-2, 4), n+1, n+1).Draw(rt, label)}
}

// bOptFn is a table function int -> Option[int]
type bOptFn struct {
	Tab  []int
	Some []bool
}

func (f bOptFn) call(x int) (int, bool) {
	i := bMod(x, len(f.Tab))
	return f.Tab[i] + x, f.Some[i]
}
func (f bOptFn) String() string {
	return fmt.Sprintf("λx.opt%v%v[x mod %d]+x", f.Tab, f.Some, len(f.Tab))
}
func (f bOptFn) lib(fuel *kit.Fuel) func(int) fp.Option[int] {
	return func(x int) fp.Option[int] {
		fuel.Use()
		if y, ok := f.call(x); ok {
			return fp.Some(y)
		}
		return fp.None[int]()
	}
}
func (f bOptFn) ref() func(any) (any, bool) {
	return func(x any) (any, bool) { y, ok := f.call(x.(int)); return y, ok }
}

func bGenOptFn(rt *rapid.T, label string) bOptFn {
	n := rapid.IntRange(1, 3).Draw(rt, label+".n")
	return bOptFn{Tab: rapid.SliceOfN(kit.TinyInt(), n, n).Draw(rt, label+".tab"), Some: rapid.SliceOfN(rapid.Bool(), n, n).Draw(rt, label+".some")}
}

// curried N-ary functions, built by hand (the library's curried/as packages are not used)
type bC1 = fp.Func1[int, int]
type bC2 = fp.Func1[int, bC1]
type bC3 = fp.Func1[int, bC2]
type bC4 = fp.Func1[int, bC3]
type bC5 = fp.Func1[int, bC4]
type bC6 = fp.Func1[int, bC5]
type bC7 = fp.Func1[int, bC6]
type bC8 = fp.Func1[int, bC7]
type bC9 = fp.Func1[int, bC8]

// c holds the coefficients of the remaining arguments, acc the value accumulated so far
func bMkC1(c []int, acc int, fuel *kit.Fuel) bC1 {
	return func(a int) int { fuel.Use(); return acc + c[0]*a }
}
func bMkC2(c []int, acc int, fuel *kit.Fuel) bC2 {
	return func(a int) bC1 { return bMkC1(c[1:], acc+c[0]*a, fuel) }
}
func bMkC3(c []int, acc int, fuel *kit.Fuel) bC3 {
	return func(a int) bC2 { return bMkC2(c[1:], acc+c[0]*a, fuel) }
}
func bMkC4(c []int, acc int, fuel *kit.Fuel) bC4 {
	return func(a int) bC3 { return bMkC3(c[1:], acc+c[0]*a, fuel) }
}
func bMkC5(c []int, acc int, fuel *kit.Fuel) bC5 {
	return func(a int) bC4 { return bMkC4(c[1:], acc+c[0]*a, fuel) }
}
func bMkC6(c []int, acc int, fuel *kit.Fuel) bC6 {
	return func(a int) bC5 { return bMkC5(c[1:], acc+c[0]*a, fuel) }
}
func bMkC7(c []int, acc int, fuel *kit.Fuel) bC7 {
	return func(a int) bC6 { return bMkC6(c[1:], acc+c[0]*a, fuel) }
}
func bMkC8(c []int, acc int, fuel *kit.Fuel) bC8 {
	return func(a int) bC7 { return bMkC7(c[1:], acc+c[0]*a, fuel) }
}
func bMkC9(c []int, acc int, fuel *kit.Fuel) bC9 {
	return func(a int) bC8 { return bMkC8(c[1:], acc+c[0]*a, fuel) }
}

// ---- small helpers ------------------------------------------------------------------------

func bEqInts(a, b []int) bool {
	if len(a) != len(b) {
		return false
	}
	for i := range a {
		if a[i] != b[i] {
			return false
		}
	}
	return true
}

// bFuelFor: callbacks may legitimately be re-run by the lazy List combinators (a FlatMap node
// re-creates its successor for Head and for Tail); the budget is >= 100x the reference's work.
func bFuelFor(work int, what string) *kit.Fuel { return kit.NewFuel(5000+100*work, what) }

func bVals(vs ...bVal) []bVal { return vs }
