package c01

import (
	"fmt"
	"testing"

	"github.com/csgura/fp"
	"github.com/csgura/fp/iterator"
	"github.com/csgura/fp/list"
	"pgregory.net/rapid"

	"verifharness/kit"
)

// bMkList builds the same element sequence as 0 slice-backed (list.Of), 1 cons cells
// (list.Apply), 2 lazily generated (list.Generate), 3 collected from an iterator
// (list.Collect), 4 a cons cell in front of a slice-backed tail.
func bMkList[T any](kind int, xs []T) fp.List[T] {
	switch kind {
	case 0:
		return list.Of(xs...)
	case 1:
		var l fp.List[T] = list.Empty[T]()
		for i := len(xs) - 1; i >= 0; i-- {
			l = list.Apply(xs[i], l)
		}
		return l
	case 2:
		return list.Generate(func(i int) fp.Option[T] {
			if i < len(xs) {
				return fp.Some(xs[i])
			}
			return fp.None[T]()
		})
	case 3:
		return list.Collect(iterator.FromSeq(xs))
	default:
		if len(xs) == 0 {
			return list.Empty[T]()
		}
		return list.Apply(xs[0], list.Of(xs[1:]...))
	}
}

const bListKinds = 5

// bDrainList walks IsEmpty/Head/Tail; ok=false when more than limit cells come out.
func bDrainList[T any](l fp.List[T], limit int) ([]T, bool) {
	out := []T{}
	for l.NonEmpty() {
		if len(out) >= limit {
			return out, false
		}
		out = append(out, l.Head())
		l = l.Tail()
	}
	return out, true
}

func bListCore() *bCore[fp.List[int]] {
	return &bCore[fp.List[int]]{
		name: "list", model: bSeqM, maxLen: 5,
		genVal: func(rt *rapid.T, label string, maxLen int) bVal {
			return bVal{K: rapid.IntRange(0, bListKinds-1).Draw(rt, label+".kind"), Xs: bGenXs(rt, label, 0, maxLen)}
		},
		build:   func(v bVal, s int) fp.List[int] { return bMkList(v.K, v.shifted(s)) },
		lift:    func(v bVal, s int) any { return bSeqM.wrap(bAnys(v.shifted(s))) },
		observe: func(m fp.List[int], limit int) ([]int, bool) { return bDrainList(m, limit) },
		ntVal:   bSeqLikeNT, ntRule: bSeqLikeRule,
	}
}

func TestBList(t *testing.T) {
	c := bListCore()
	type M = fp.List[int]
	type MF = fp.List[fp.Func1[int, int]]
	genOuter := func(rt *rapid.T, label string) int { return rapid.IntRange(0, bListKinds-1).Draw(rt, label) }
	p := &bPkg[M, fp.List[M], MF]{
		bCore:       c,
		units:       []bUnit[M]{{"Of", func(x int) M { return list.Of(x) }}},
		flatMapName: "FlatMap",
		flatMap:     func(m M, f func(int) M) M { return list.FlatMap(m, f) },
		mapI:        func(m M, f func(int) int) M { return list.Map(m, f) },
		map2:        func(a, b M, f func(int, int) int) M { return list.Map2(a, b, f) },
		mapM:        func(m M, f func(int) M) fp.List[M] { return list.Map(m, f) },
		flatten:     func(mm fp.List[M]) M { return list.Flatten(mm) },
		mapF:        func(m M, f func(int) fp.Func1[int, int]) MF { return list.Map(m, f) },
		ap:          func(tf MF, m M) M { return list.Ap(tf, m) },
		lift:        func(f func(int) int) func(M) M { return list.Lift(f) },
		compose:     func(f, g func(int) M) func(int) M { return list.Compose(f, g) },
		composePure: func(f func(int) int) func(int) M { return list.ComposePure(f) },
		filterMap:   func(m M, f func(int) fp.Option[int]) M { return list.FilterMap(m, f) },
		genOuter:    genOuter,
		outerMin:    0, outerMax: 4,
		buildMM: func(o int, inner []M) fp.List[M] { return bMkList(o, inner) },
		buildMF: func(o int, fs []fp.Func1[int, int]) MF { return bMkList(o, fs) },
	}
	bRunPkg(t, p)

	bCheckFlapN(t, c, "Flap", 1, genOuter,
		func(o int, fs []bLinFn, fuel *kit.Fuel) fp.List[bC1] {
			xs := []bC1{}
			for _, f := range fs {
				xs = append(xs, bMkC1(f.C[1:], f.C[0], fuel))
			}
			return bMkList(o, xs)
		},
		func(tf fp.List[bC1], a []int) M { return list.Flap(tf)(a[0]) })
	bCheckFlapN(t, c, "Flap2", 2, genOuter,
		func(o int, fs []bLinFn, fuel *kit.Fuel) fp.List[bC2] {
			xs := []bC2{}
			for _, f := range fs {
				xs = append(xs, bMkC2(f.C[1:], f.C[0], fuel))
			}
			return bMkList(o, xs)
		},
		func(tf fp.List[bC2], a []int) M { return list.Flap2(tf)(a[0])(a[1]) })
	bCheckMethodN(t, c, "FlapMap", 2, func(m M, f bLinFn, fuel *kit.Fuel, r []int) M {
		return list.FlapMap(func(a, b int) int { fuel.Use(); return bLin(f.C, a, b) }, m)(r[0])
	})
	bCheckMethodN(t, c, "Method1", 2, func(m M, f bLinFn, fuel *kit.Fuel, r []int) M {
		return list.Method1(m, func(a, b int) int { fuel.Use(); return bLin(f.C, a, b) })(r[0])
	})
	bCheckMethodN(t, c, "Method2", 3, func(m M, f bLinFn, fuel *kit.Fuel, r []int) M {
		return list.Method2(m, func(a, b, cc int) int { fuel.Use(); return bLin(f.C, a, b, cc) })(r[0], r[1])
	})

	// Zip family: positional semantics, not monadic
	kit.Check(t, "list.Zip/positional", "two Lists of every construction kind and independent lengths 0..5; Zip(a,b) against the positional zip (shortest wins); non-trivial iff the lengths differ or both >= 2; distinct by printed inputs", bOpt, func(rt *rapid.T, rec *kit.Rec) {
		a := c.genVal(rt, "a", 5)
		b := c.genVal(rt, "b", 5)
		rec.Case(len(a.Xs) != len(b.Xs) || len(a.Xs) >= 2, fmt.Sprintf("%s|%s", a, b))
		want := bFlat(bRefZip(a.Xs, b.Xs))
		var got []int
		ok := true
		rec.Guard(rt, "C01|list.Zip|positional", func() {
			var tps []fp.Tuple2[int, int]
			tps, ok = bDrainList(list.Zip(c.build(a, 0), c.build(b, 0)), len(want)+8)
			for _, tp := range tps {
				got = append(got, tp.I1, tp.I2)
			}
		})
		if !ok || !bEqInts(got, want) {
			rec.Failf(rt, "C01|list.Zip|positional", "list.Zip(%s, %s) flattened = %v (complete=%v), want %v", a, b, got, ok, want)
		}
	})
	kit.Check(t, "list.Zip3/positional", "three Lists of every construction kind and independent lengths 0..5; Zip3 against the positional zip; non-trivial iff the lengths differ or all >= 2; distinct by printed inputs", bOpt, func(rt *rapid.T, rec *kit.Rec) {
		a := c.genVal(rt, "a", 5)
		b := c.genVal(rt, "b", 5)
		d := c.genVal(rt, "c", 5)
		rec.Case(len(a.Xs) != len(b.Xs) || len(b.Xs) != len(d.Xs) || len(a.Xs) >= 2, fmt.Sprintf("%s|%s|%s", a, b, d))
		want := bFlat(bRefZip(a.Xs, b.Xs, d.Xs))
		var got []int
		ok := true
		rec.Guard(rt, "C01|list.Zip3|positional", func() {
			var tps []fp.Tuple3[int, int, int]
			tps, ok = bDrainList(list.Zip3(c.build(a, 0), c.build(b, 0), c.build(d, 0)), len(want)+8)
			for _, tp := range tps {
				got = append(got, tp.I1, tp.I2, tp.I3)
			}
		})
		if !ok || !bEqInts(got, want) {
			rec.Failf(rt, "C01|list.Zip3|positional", "list.Zip3(%s, %s, %s) flattened = %v (complete=%v), want %v", a, b, d, got, ok, want)
		}
	})
	kit.Check(t, "list.ZipWithIndex/positional", "a List of every construction kind, length 0..5; ZipWithIndex(a) against [(0,a0),(1,a1),..]; non-trivial iff length >= 2; distinct by printed input", bOpt, func(rt *rapid.T, rec *kit.Rec) {
		a := c.genVal(rt, "a", 5)
		rec.Case(len(a.Xs) >= 2, a.String())
		idx := []int{}
		for i := range a.Xs {
			idx = append(idx, i)
		}
		want := bFlat(bRefZip(idx, a.Xs))
		var got []int
		ok := true
		rec.Guard(rt, "C01|list.ZipWithIndex|positional", func() {
			var tps []fp.Tuple2[int, int]
			tps, ok = bDrainList(list.ZipWithIndex(c.build(a, 0)), len(want)+8)
			for _, tp := range tps {
				got = append(got, tp.I1, tp.I2)
			}
		})
		if !ok || !bEqInts(got, want) {
			rec.Failf(rt, "C01|list.ZipWithIndex|positional", "list.ZipWithIndex(%s) flattened = %v (complete=%v), want %v", a, got, ok, want)
		}
	})
}
