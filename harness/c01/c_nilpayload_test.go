package c01

import (
	"fmt"
	"testing"

	"github.com/csgura/fp"
	"github.com/csgura/fp/option"
	"github.com/csgura/fp/try"
	"pgregory.net/rapid"

	"verifharness/kit"
)

// Payloads that can be nil. The unit of Option is Some (option.Pure): a defined Option may hold a nil pointer,
// and every combinator defined through FlatMap and the unit keeps it defined - only the constructors that are
// documented as nil-filtering (option.Of, option.Ptr, ...) turn nil into None, and they are not used here.
// Added after three independently seeded changes of the same kind (a combinator re-wrapping its result with
// option.Of): all checks of this package used int payloads.
type np = *int

var npPool = func() []np {
	r := []np{nil}
	for i := 0; i < 4; i++ {
		v := i * 10
		r = append(r, &v)
	}
	return r
}()

func npShow(p np) string {
	if p == nil {
		return "nil"
	}
	return fmt.Sprintf("&%d", *p)
}

type npOpt struct {
	def bool
	v   np
}

func (o npOpt) String() string {
	if !o.def {
		return "None"
	}
	return "Some(" + npShow(o.v) + ")"
}

func npOf(o fp.Option[np]) npOpt {
	if !o.IsDefined() {
		return npOpt{}
	}
	return npOpt{true, o.Get()}
}

func npTryOf(t fp.Try[fp.Option[np]]) string {
	if !t.IsSuccess() {
		return "Failure(" + t.Failed().Get().Error() + ")"
	}
	return "Success(" + npOf(t.Get()).String() + ")"
}

func TestNilPayload(t *testing.T) {
	type scen struct {
		m    fp.Option[np] // operand
		m2   fp.Option[np]
		tab  []np // f(x) = tab[index of x in the pool]
		fail int  // index (in the pool) at which the Try-returning function fails, -1 never
		desc string
	}
	draw := func(rt *rapid.T) scen {
		var s scen
		pick := func(label string) fp.Option[np] {
			k := rapid.IntRange(0, len(npPool)).Draw(rt, label)
			if k == len(npPool) {
				return option.None[np]()
			}
			return option.Some(npPool[k])
		}
		s.m, s.m2 = pick("m"), pick("m2")
		for range npPool {
			s.tab = append(s.tab, npPool[rapid.IntRange(0, len(npPool)-1).Draw(rt, "f")])
		}
		s.fail = rapid.IntRange(-1, len(npPool)-1).Draw(rt, "failAt")
		s.desc = fmt.Sprintf("m=%v m2=%v f=%v failAt=%d", npOf(s.m), npOf(s.m2), func() []string {
			var r []string
			for _, p := range s.tab {
				r = append(r, npShow(p))
			}
			return r
		}(), s.fail)
		return s
	}
	idx := func(p np) int {
		for i, q := range npPool {
			if p == q {
				return i
			}
		}
		return 0
	}
	errF := kit.Errs[0]
	rule := "operands: None or Some(p) with p nil or one of four pointers; f a table function on that pool (may return nil); the Try-returning function fails at one drawn argument or never; oracle: the definition through FlatMap and the unit Some, written on (defined, pointer) pairs; non-trivial iff a nil pointer is the payload of an operand or the result of f on it; distinct by printed case"
	type variant struct {
		name string
		run  func(s scen, f func(np) np, ft func(np) fp.Try[np]) string
		ref  func(s scen, f func(np) np, failAt func(np) bool) string
	}
	mapRef := func(o npOpt, f func(np) np) npOpt {
		if !o.def {
			return o
		}
		return npOpt{true, f(o.v)}
	}
	variants := []variant{
		{"option.Map", func(s scen, f func(np) np, _ func(np) fp.Try[np]) string { return npOf(option.Map(s.m, f)).String() },
			func(s scen, f func(np) np, _ func(np) bool) string { return mapRef(npOf(s.m), f).String() }},
		{"fp.Option.Map", func(s scen, f func(np) np, _ func(np) fp.Try[np]) string { return npOf(s.m.Map(f)).String() },
			func(s scen, f func(np) np, _ func(np) bool) string { return mapRef(npOf(s.m), f).String() }},
		{"option.FlatMap(unit.f)", func(s scen, f func(np) np, _ func(np) fp.Try[np]) string {
			return npOf(option.FlatMap(s.m, func(x np) fp.Option[np] { return option.Some(f(x)) })).String()
		}, func(s scen, f func(np) np, _ func(np) bool) string { return mapRef(npOf(s.m), f).String() }},
		{"option.Lift", func(s scen, f func(np) np, _ func(np) fp.Try[np]) string { return npOf(option.Lift(f)(s.m)).String() },
			func(s scen, f func(np) np, _ func(np) bool) string { return mapRef(npOf(s.m), f).String() }},
		{"option.Map2(first)", func(s scen, f func(np) np, _ func(np) fp.Try[np]) string {
			return npOf(option.Map2(s.m, s.m2, func(a, b np) np { return f(a) })).String()
		}, func(s scen, f func(np) np, _ func(np) bool) string {
			a, b := npOf(s.m), npOf(s.m2)
			if !a.def || !b.def {
				return npOpt{}.String()
			}
			return npOpt{true, f(a.v)}.String()
		}},
		{"option.Flatten", func(s scen, f func(np) np, _ func(np) fp.Try[np]) string {
			return npOf(option.Flatten(option.Map(s.m, func(x np) fp.Option[np] { return option.Some(f(x)) }))).String()
		}, func(s scen, f func(np) np, _ func(np) bool) string { return mapRef(npOf(s.m), f).String() }},
		{"option.Pure", func(s scen, f func(np) np, _ func(np) fp.Try[np]) string {
			return npOf(option.Pure(f(npPool[0]))).String()
		},
			func(s scen, f func(np) np, _ func(np) bool) string { return npOpt{true, f(npPool[0])}.String() }},
		{"fp.Option.Filter(true)", func(s scen, f func(np) np, _ func(np) fp.Try[np]) string {
			return npOf(s.m.Filter(func(np) bool { return true })).String()
		}, func(s scen, f func(np) np, _ func(np) bool) string { return npOf(s.m).String() }},
		{"try.TraverseOption", func(s scen, f func(np) np, ft func(np) fp.Try[np]) string {
			return npTryOf(try.TraverseOption(s.m, ft))
		},
			func(s scen, f func(np) np, failAt func(np) bool) string {
				o := npOf(s.m)
				if !o.def {
					return "Success(None)"
				}
				if failAt(o.v) {
					return "Failure(" + errF.Error() + ")"
				}
				return "Success(" + npOpt{true, f(o.v)}.String() + ")"
			}},
		{"try.PureOptionT+MapOptionT", func(s scen, f func(np) np, _ func(np) fp.Try[np]) string {
			return npTryOf(try.MapOptionT(try.LiftOptionT(try.Success(npPool[0])), f)) + "/" + npTryOf(try.PureOptionT(f(npPool[0])))
		}, func(s scen, f func(np) np, _ func(np) bool) string {
			r := "Success(" + npOpt{true, f(npPool[0])}.String() + ")"
			return r + "/" + r
		}},
		{"try.TraverseOptionT", func(s scen, f func(np) np, ft func(np) fp.Try[np]) string {
			return npTryOf(try.TraverseOptionT(try.Success(s.m), ft))
		}, func(s scen, f func(np) np, failAt func(np) bool) string {
			o := npOf(s.m)
			if !o.def {
				return "Success(None)"
			}
			if failAt(o.v) {
				return "Failure(" + errF.Error() + ")"
			}
			return "Success(" + npOpt{true, f(o.v)}.String() + ")"
		}},
		{"try.SubFlatMapOptionT+FlatMapOptionT", func(s scen, f func(np) np, _ func(np) fp.Try[np]) string {
			a := try.SubFlatMapOptionT(try.Success(s.m), func(x np) fp.Option[np] { return option.Some(f(x)) })
			b := try.FlatMapOptionT(try.Success(s.m), func(x np) fp.Try[fp.Option[np]] { return try.Success(option.Some(f(x))) })
			return npTryOf(a) + "/" + npTryOf(b)
		}, func(s scen, f func(np) np, _ func(np) bool) string {
			r := "Success(" + mapRef(npOf(s.m), f).String() + ")"
			return r + "/" + r
		}},
	}
	for _, v := range variants {
		v := v
		kit.Check(t, v.name+"/nil-payload", rule, kit.Opt{Weight: 0.5}, func(rt *rapid.T, rec *kit.Rec) {
			s := draw(rt)
			f := func(x np) np { return s.tab[idx(x)] }
			failAt := func(x np) bool { return idx(x) == s.fail }
			ft := func(x np) fp.Try[np] {
				if failAt(x) {
					return try.Failure[np](errF)
				}
				return try.Success(f(x))
			}
			nilIn := s.m.IsDefined() && s.m.Get() == nil
			nilOut := s.m.IsDefined() && f(s.m.Get()) == nil
			rec.Case(nilIn || nilOut || f(npPool[0]) == nil, s.desc)
			want := v.ref(s, f, failAt)
			var got string
			sig := "C01|" + v.name + "|nil-payload"
			rec.Guard(rt, sig, func() { got = v.run(s, f, ft) })
			if got != want {
				rec.Failf(rt, sig, "%s with %s: library gives %s, the definition through FlatMap and Some gives %s", v.name, s.desc, got, want)
			}
		})
	}
}
