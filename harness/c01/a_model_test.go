package c01

// Part A of C01: reference monad and the single reference definition of every
// derived combinator of the generated monad family (Option, Try, Either, StateT).
//
// The reference monad is "state -> (value | error, state')" with the state kept
// outside the result (the shape of fp.StateT).  Option, Try and Either are the
// special case in which nobody touches the state, so ONE unit/bind and ONE
// reference definition per combinator serve all four packages.  Nothing in this
// file calls the library.

import (
	"errors"
	"fmt"
	"reflect"
	"strings"
)

// aMV is a model result: a value or an error (None is the error aErrEmpty, Left(l) is aLeftErr(l)).
type aMV struct {
	ok  bool
	val any
	err error
}

// aM is a model monadic value.
type aM func(s int) (aMV, int)

var aErrEmpty = errors.New("<empty>")

type aLeftErr int

func (e aLeftErr) Error() string { return fmt.Sprintf("Left(%d)", int(e)) }

func aUnit(v any) aM {
	return func(s int) (aMV, int) { return aMV{ok: true, val: v}, s }
}

func aFail(e error) aM {
	return func(s int) (aMV, int) { return aMV{err: e}, s }
}

func aBind(m aM, f func(any) aM) aM {
	return func(s int) (aMV, int) {
		r, s1 := m(s)
		if !r.ok {
			return aMV{err: r.err}, s1
		}
		return f(r.val)(s1)
	}
}

// ---- reference definitions, each written once over aUnit / aBind ------------------

func aRefMap(m aM, f func(any) any) aM {
	return aBind(m, func(x any) aM { return aUnit(f(x)) })
}

func aRefFlatten(mm aM) aM {
	return aBind(mm, func(x any) aM { return x.(aM) })
}

func aRefReplace(m aM, b any) aM {
	return aRefMap(m, func(any) any { return b })
}

// aRefDo is do-notation: x1 <- steps[0]([]); x2 <- steps[1]([x1]); ... ; unit(f(x1..xn)).
// prev is given most recent first (the order of the library's HList).
func aRefDo(steps []func(prev []any) aM, f func(xs []any) aM) aM {
	var goFrom func(i int, xs []any) aM
	goFrom = func(i int, xs []any) aM {
		if i == len(steps) {
			return f(xs)
		}
		prev := make([]any, 0, len(xs))
		for j := len(xs) - 1; j >= 0; j-- {
			prev = append(prev, xs[j])
		}
		return aBind(steps[i](prev), func(x any) aM {
			nx := append(append([]any{}, xs...), x)
			return goFrom(i+1, nx)
		})
	}
	return goFrom(0, nil)
}

func aConstSteps(ms []aM) []func(prev []any) aM {
	steps := make([]func(prev []any) aM, len(ms))
	for i := range ms {
		m := ms[i]
		steps[i] = func([]any) aM { return m }
	}
	return steps
}

// refLiftA_N / refMapN: bind(m1, x1 => ... bind(mN, xN => unit(f(x1..xN))))
func aRefLiftA(ms []aM, f func(xs []any) any) aM {
	return aRefDo(aConstSteps(ms), func(xs []any) aM { return aUnit(f(xs)) })
}

// refLiftM_N / refFlatMapN: bind(m1, x1 => ... bind(mN, xN => f(x1..xN)))
func aRefLiftM(ms []aM, f func(xs []any) aM) aM {
	return aRefDo(aConstSteps(ms), f)
}

func aRefZip(ms []aM) aM {
	return aRefLiftA(ms, func(xs []any) any { return append([]any{}, xs...) })
}

func aRefUnZip(m aM) (aM, aM) {
	return aRefMap(m, func(t any) any { return t.([]any)[0] }), aRefMap(m, func(t any) any { return t.([]any)[1] })
}

// function values inside the model are curried: func(any) any
func aRefAp(mf aM, ma aM) aM {
	return aBind(mf, func(f any) aM {
		return aBind(ma, func(a any) aM { return aUnit(f.(func(any) any)(a)) })
	})
}

func aRefApFunc(mf aM, sup func() aM) aM {
	return aBind(mf, func(f any) aM {
		return aBind(sup(), func(a any) aM { return aUnit(f.(func(any) any)(a)) })
	})
}

func aRefCompose(fs ...func(any) aM) func(any) aM {
	return func(a any) aM {
		cur := fs[0](a)
		for _, f := range fs[1:] {
			cur = aBind(cur, f)
		}
		return cur
	}
}

func aRefLift(f func(any) any) func(aM) aM {
	return func(m aM) aM { return aRefMap(m, f) }
}

func aRefLiftM1(f func(any) aM) func(aM) aM {
	return func(m aM) aM { return aBind(m, f) }
}

// Flap(tf)(a) = Ap(tf, unit(a))
func aRefFlap(mf aM, a any) aM { return aRefAp(mf, aUnit(a)) }

func aRefFlapN(mf aM, as []any) aM {
	cur := mf
	for _, a := range as {
		cur = aRefFlap(cur, a)
	}
	return cur
}

// aCurry turns an n-ary function on []any into nested func(any) any.
func aCurry(n int, f func(xs []any) any) any {
	var build func(acc []any) any
	build = func(acc []any) any {
		if len(acc) == n {
			return f(acc)
		}
		return func(x any) any { return build(append(append([]any{}, acc...), x)) }
	}
	return build(nil)
}

// FlapMap(f, ma)(b) = Flap(Map(ma, curry f))(b)
func aRefFlapMap(f func(a, b any) any, ma aM) func(b any) aM {
	return func(b any) aM {
		return aRefFlap(aRefMap(ma, func(a any) any {
			return func(b any) any { return f(a, b) }
		}), b)
	}
}

func aRefFlatFlapMap(f func(a, b any) any, ma aM) func(b any) aM {
	return func(b any) aM { return aRefFlatten(aRefFlapMap(f, ma)(b)) }
}

// MethodN(ta, f)(a2..aN) = Map(ta, a1 => f(a1, a2..aN))
func aRefMethod(ma aM, f func(xs []any) any, rest []any) aM {
	return aRefMap(ma, func(a1 any) any { return f(append([]any{a1}, rest...)) })
}

// FlatMethodN(ta, f)(a2..aN) = FlatMap(ta, a1 => f(a1, a2..aN))
func aRefFlatMethod(ma aM, f func(xs []any) aM, rest []any) aM {
	return aBind(ma, func(a1 any) aM { return f(append([]any{a1}, rest...)) })
}

// With(withf, mv)(a) = Flap(Map(mv, flip withf))(a)
func aRefWith(withf func(a, b any) any, mv aM) func(a any) aM {
	return func(a any) aM {
		return aRefFlap(aRefMap(mv, func(b any) any {
			return func(a any) any { return withf(a, b) }
		}), a)
	}
}

// foldM f z [x1..xn] = bind(f(z,x1), b1 => bind(f(b1,x2), ...)); foldM f z [] = unit z
func aRefFoldM(xs []any, zero any, f func(b, a any) aM) aM {
	acc := aUnit(zero)
	for _, x := range xs {
		x := x
		acc = aBind(acc, func(b any) aM { return f(b, x) })
	}
	return acc
}

func aRefSequence(ms []aM) aM {
	acc := aUnit([]any{})
	for _, m := range ms {
		m := m
		acc = aBind(acc, func(l any) aM {
			return aBind(m, func(x any) aM { return aUnit(append(append([]any{}, l.([]any)...), x)) })
		})
	}
	return acc
}

func aRefTraverse(xs []any, f func(any) aM) aM {
	ms := make([]aM, len(xs))
	for i, x := range xs {
		x := x
		// f is applied when the effect is reached, as in foldM
		ms[i] = func(s int) (aMV, int) { return f(x)(s) }
	}
	return aRefSequence(ms)
}

func aRefMapSeqLift(m aM, f func(any) any) aM {
	return aRefMap(m, func(xs any) any {
		r := []any{}
		for _, x := range xs.([]any) {
			r = append(r, f(x))
		}
		return r
	})
}

// ---- running and comparing ---------------------------------------------------------

type aOut struct {
	in  int
	r   aMV
	out int
}

type aRes []aOut

func aRun(m aM, inits []int) aRes {
	res := make(aRes, 0, len(inits))
	for _, s := range inits {
		r, ns := m(s)
		res = append(res, aOut{in: s, r: r, out: ns})
	}
	return res
}

func aMVEq(a, b aMV) bool {
	if a.ok != b.ok {
		return false
	}
	if a.ok {
		return reflect.DeepEqual(a.val, b.val)
	}
	if a.err == nil || b.err == nil {
		return a.err == nil && b.err == nil
	}
	return errors.Is(a.err, b.err)
}

func aResEq(got, want aRes) bool {
	if len(got) != len(want) {
		return false
	}
	for i := range got {
		if got[i].in != want[i].in || got[i].out != want[i].out || !aMVEq(got[i].r, want[i].r) {
			return false
		}
	}
	return true
}

func (v aMV) String() string {
	if v.ok {
		return fmt.Sprintf("ok(%v)", v.val)
	}
	if v.err == nil {
		return "fail(<nil error>)"
	}
	msg := v.err.Error()
	if len(msg) > 60 {
		msg = msg[:60] + "…"
	}
	return "fail(" + msg + ")"
}

func (r aRes) String() string {
	var sb strings.Builder
	for i, o := range r {
		if i > 0 {
			sb.WriteString("; ")
		}
		if len(r) == 1 && o.in == 0 && o.out == 0 {
			sb.WriteString(o.r.String())
		} else {
			fmt.Fprintf(&sb, "s=%d -> (%v, s'=%d)", o.in, o.r, o.out)
		}
	}
	return sb.String()
}

// aH is the position-sensitive combining function used for all N-ary callbacks.
func aH(xs ...int) int {
	h := 17
	for _, x := range xs {
		h = 31*h + x
	}
	return h
}

func aHAny(xs []any) any {
	is := make([]int, len(xs))
	for i, x := range xs {
		is[i] = x.(int)
	}
	return aH(is...)
}

func aAnys(xs []int) []any {
	r := make([]any, len(xs))
	for i, x := range xs {
		r[i] = x
	}
	return r
}
