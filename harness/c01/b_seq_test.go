package c01

import (
	"fmt"
	"testing"

	"github.com/csgura/fp"
	"github.com/csgura/fp/seq"
	"pgregory.net/rapid"

	"verifharness/kit"
)

// bMkSeq builds a fp.Seq[T] of one of the slice shapes: 0 exact (nil when empty),
// 1 a view with spare capacity into a larger backing array, 2 freshly made (empty non-nil).
func bMkSeq[T any](kind int, xs []T) fp.Seq[T] {
	switch kind {
	case 0:
		if len(xs) == 0 {
			return nil
		}
		return append(fp.Seq[T]{}, xs...)
	case 1:
		back := make([]T, len(xs), len(xs)+3)
		copy(back, xs)
		return back
	default:
		r := make(fp.Seq[T], len(xs))
		copy(r, xs)
		return r
	}
}

func bSeqLikeNT(v bVal) bool { return len(v.Xs) == 0 || len(v.Xs) >= 2 }

const bSeqLikeRule = "non-trivial iff at least one operand / inner value / table row is empty or has length >= 2"

func bObserveSlice(m []int, limit int) ([]int, bool) {
	if len(m) > limit {
		return append([]int{}, m[:limit]...), false
	}
	return append([]int{}, m...), true
}

func bSeqCore() *bCore[fp.Seq[int]] {
	return &bCore[fp.Seq[int]]{
		name: "seq", model: bSeqM, maxLen: 5,
		genVal: func(rt *rapid.T, label string, maxLen int) bVal {
			return bVal{K: rapid.IntRange(0, 2).Draw(rt, label+".kind"), Xs: bGenXs(rt, label, 0, maxLen)}
		},
		build:   func(v bVal, s int) fp.Seq[int] { return bMkSeq(v.K, v.shifted(s)) },
		lift:    func(v bVal, s int) any { return bSeqM.wrap(bAnys(v.shifted(s))) },
		observe: func(m fp.Seq[int], limit int) ([]int, bool) { return bObserveSlice(m, limit) },
		ntVal:   bSeqLikeNT, ntRule: bSeqLikeRule,
	}
}

func TestBSeq(t *testing.T) {
	c := bSeqCore()
	type M = fp.Seq[int]
	p := &bPkg[M, fp.Seq[M], fp.Seq[fp.Func1[int, int]]]{
		bCore:       c,
		units:       []bUnit[M]{{"Pure", seq.Pure[int]}, {"Of", func(x int) M { return seq.Of(x) }}},
		flatMapName: "FlatMap",
		flatMap:     func(m M, f func(int) M) M { return seq.FlatMap(m, f) },
		mapI:        func(m M, f func(int) int) M { return seq.Map(m, f) },
		map2:        func(a, b M, f func(int, int) int) M { return seq.Map2(a, b, f) },
		mapM:        func(m M, f func(int) M) fp.Seq[M] { return seq.Map(m, f) },
		flatten:     func(mm fp.Seq[M]) M { return seq.Flatten(mm) },
		mapF: func(m M, f func(int) fp.Func1[int, int]) fp.Seq[fp.Func1[int, int]] {
			return seq.Map(m, f)
		},
		ap:          func(tf fp.Seq[fp.Func1[int, int]], m M) M { return seq.Ap(tf, m) },
		lift:        func(f func(int) int) func(M) M { return seq.Lift(f) },
		liftM:       func(f func(int) M) func(M) M { return seq.LiftM(f) },
		compose:     func(f, g func(int) M) func(int) M { return seq.Compose(f, g) },
		composePure: func(f func(int) int) func(int) M { return seq.ComposePure(f) },
		filterMap:   func(m M, f func(int) fp.Option[int]) M { return seq.FilterMap(m, f) },
		genOuter:    func(rt *rapid.T, label string) int { return rapid.IntRange(0, 2).Draw(rt, label) },
		outerMin:    0, outerMax: 4,
		buildMM: func(o int, inner []M) fp.Seq[M] { return bMkSeq(o, inner) },
		buildMF: func(o int, fs []fp.Func1[int, int]) fp.Seq[fp.Func1[int, int]] { return bMkSeq(o, fs) },
	}
	bRunPkg(t, p)

	tail := "; " + c.ntRule + "; distinct by printed inputs"

	// the methods of fp.Seq are a second FlatMap/Map pair
	kit.Check(t, "seq.method.FlatMap/ref", "Seq.FlatMap method (m.FlatMap(f)) against the harness' concat-map"+tail, bOpt, func(rt *rapid.T, rec *kit.Rec) {
		m := c.genVal(rt, "m", c.maxLen)
		f := c.genTab(rt, "f", c.maxLen)
		rec.Case(c.nt(bVals(m), f), fmt.Sprintf("%s|%s", m, f))
		c.expect(rt, rec, "C01|seq.method.FlatMap|ref", fmt.Sprintf("%s.FlatMap(%s)", m, f),
			func() any { return bSeqM.bind(c.lift(m, 0), c.tabRef(f)) },
			func(fuel *kit.Fuel) M {
				return c.build(m, 0).FlatMap(func(x int) fp.Seq[int] { return c.tabLib(f, fuel)(x) })
			})
	})
	kit.Check(t, "seq.method.Map/def", "Seq.Map method (m.Map(f)) against bind(m, x => unit(f x)) and against m.FlatMap(Pure∘f)"+tail, bOpt, func(rt *rapid.T, rec *kit.Rec) {
		m := c.genVal(rt, "m", c.maxLen)
		f := bGenFn1(rt, "f")
		rec.Case(c.nt(bVals(m)), fmt.Sprintf("%s|%s", m, f))
		ref := func() any { return bRefMap(bSeqM, c.lift(m, 0), f.ref()) }
		c.expect(rt, rec, "C01|seq.method.Map|def", fmt.Sprintf("%s.Map(%s)", m, f), ref,
			func(fuel *kit.Fuel) M { return c.build(m, 0).Map(f.lib(fuel)) })
		c.expect(rt, rec, "C01|seq.method.Map|def", fmt.Sprintf("%s.FlatMap(Pure∘%s)", m, f), ref,
			func(fuel *kit.Fuel) M {
				return c.build(m, 0).FlatMap(func(x int) fp.Seq[int] { return seq.Pure(f.lib(fuel)(x)) })
			})
	})

	// Kleisli functions that return VIEWS of one shared array (prefixes base[:n], with the rest of the array
	// as spare capacity) - ordinary Go, e.g. `func(n int) fp.Seq[int] { return base.Take(n) }`. A combinator
	// that keeps a result it was handed and appends into its spare capacity rewrites the array the later
	// results are views of. Added after an independently seeded change of exactly that kind in seq.FlatMap.
	kit.Check(t, "seq.FlatMap/shared-base-views", "m (0-6 small ints), base array (2-8 ints); f(x) = base[:x mod (len(base)+1)], a prefix view whose spare capacity is the rest of base; "+
		"seq.FlatMap, the FlatMap method, Flatten∘Map, Compose, LiftM and FlatMap∘FlatMap (associativity) against the concat-map over prefix COPIES; non-trivial iff two results are non-empty and the first non-empty one is shorter than base; distinct by printed inputs", bOpt,
		func(rt *rapid.T, rec *kit.Rec) {
			m := rapid.SliceOfN(rapid.IntRange(0, 9), 0, 6).Draw(rt, "m")
			pristine := rapid.SliceOfN(rapid.IntRange(10, 99), 2, 8).Draw(rt, "base")
			kind := rapid.IntRange(0, 2).Draw(rt, "mkind")
			g := bGenFn1(rt, "g")
			n := func(x int) int { return bMod(x, len(pristine)+1) }
			nonEmpty, firstShort := 0, false
			for _, x := range m {
				if n(x) > 0 {
					if nonEmpty == 0 {
						firstShort = n(x) < len(pristine)
					}
					nonEmpty++
				}
			}
			rec.Case(nonEmpty >= 2 && firstShort, fmt.Sprintf("k%d m=%v base=%v g=%s", kind, m, pristine, g))
			want := []int{}
			for _, x := range m {
				want = append(want, pristine[:n(x)]...)
			}
			want2 := []int{} // (m >>= f) >>= (y => f(g y))
			for _, y := range want {
				want2 = append(want2, pristine[:n(g.call(y))]...)
			}
			variants := []struct {
				name string
				want []int
				run  func(base fp.Seq[int], f func(int) fp.Seq[int]) fp.Seq[int]
			}{
				{"seq.FlatMap", want, func(base fp.Seq[int], f func(int) fp.Seq[int]) fp.Seq[int] { return seq.FlatMap(bMkSeq(kind, m), f) }},
				{"seq.method.FlatMap", want, func(base fp.Seq[int], f func(int) fp.Seq[int]) fp.Seq[int] { return bMkSeq(kind, m).FlatMap(f) }},
				{"seq.Flatten", want, func(base fp.Seq[int], f func(int) fp.Seq[int]) fp.Seq[int] {
					return seq.Flatten(seq.Map(bMkSeq(kind, m), f))
				}},
				{"seq.Compose", want, func(base fp.Seq[int], f func(int) fp.Seq[int]) fp.Seq[int] {
					return seq.Compose(func(int) fp.Seq[int] { return bMkSeq(kind, m) }, f)(0)
				}},
				{"seq.LiftM", want, func(base fp.Seq[int], f func(int) fp.Seq[int]) fp.Seq[int] { return seq.LiftM(f)(bMkSeq(kind, m)) }},
				{"seq.FlatMap/associativity", want2, func(base fp.Seq[int], f func(int) fp.Seq[int]) fp.Seq[int] {
					return seq.FlatMap(seq.FlatMap(bMkSeq(kind, m), f), func(y int) fp.Seq[int] { return f(g.call(y)) })
				}},
			}
			for _, v := range variants {
				base := append(fp.Seq[int]{}, pristine...) // a fresh array per variant: full length, no capacity beyond it
				f := func(x int) fp.Seq[int] { return base[:n(x)] }
				var got fp.Seq[int]
				sig := "C01|" + v.name + "|shared-base-views"
				rec.Guard(rt, sig, func() { got = v.run(base, f) })
				if fmt.Sprint([]int(got)) != fmt.Sprint(v.want) && !(len(got) == 0 && len(v.want) == 0) {
					rec.Failf(rt, sig, "%s over m=%v with f(x) = base[:x mod %d], base=%v: got %v, the concat-map gives %v (base afterwards: %v)", v.name, m, len(pristine)+1, pristine, []int(got), v.want, []int(base))
				}
			}
		})

	kit.Check(t, "seq.FilterNil/ref", "a Seq[*int] with nil entries at drawn positions; FilterNil(m) against bind(m, p => p == nil ? empty : unit(*p)); non-trivial iff some entry is nil or length >= 2; distinct by printed input", bOpt, func(rt *rapid.T, rec *kit.Rec) {
		kind := rapid.IntRange(0, 2).Draw(rt, "kind")
		xs := rapid.SliceOfN(kit.TinyInt(), 0, 5).Draw(rt, "xs")
		nils := rapid.SliceOfN(rapid.Bool(), len(xs), len(xs)).Draw(rt, "nil")
		anyNil := false
		for _, b := range nils {
			anyNil = anyNil || b
		}
		rec.Case(anyNil || len(xs) >= 2, fmt.Sprintf("k%d%v%v", kind, xs, nils))
		c.expect(rt, rec, "C01|seq.FilterNil|ref", fmt.Sprintf("seq.FilterNil(k%d %v nil=%v)", kind, xs, nils),
			func() any {
				items := []any{}
				for i := range xs {
					items = append(items, i)
				}
				return bRefFilterMap(bSeqM, items, func(i any) (any, bool) { return xs[i.(int)], !nils[i.(int)] })
			},
			func(fuel *kit.Fuel) M {
				ps := []*int{}
				for i := range xs {
					if nils[i] {
						ps = append(ps, nil)
					} else {
						v := xs[i]
						ps = append(ps, &v)
					}
				}
				return seq.FilterNil(bMkSeq(kind, ps))
			})
	})

	// Zip family: positional semantics, not monadic
	kit.Check(t, "seq.Zip/positional", "two Seqs of independent lengths 0..5; Zip(a,b) against the positional zip (shortest wins); non-trivial iff the lengths differ or both >= 2; distinct by printed inputs", bOpt, func(rt *rapid.T, rec *kit.Rec) {
		a := c.genVal(rt, "a", 5)
		b := c.genVal(rt, "b", 5)
		rec.Case(len(a.Xs) != len(b.Xs) || len(a.Xs) >= 2, fmt.Sprintf("%s|%s", a, b))
		want := bFlat(bRefZip(a.Xs, b.Xs))
		var got []int
		rec.Guard(rt, "C01|seq.Zip|positional", func() {
			for _, tp := range seq.Zip(c.build(a, 0), c.build(b, 0)) {
				got = append(got, tp.I1, tp.I2)
			}
		})
		if !bEqInts(got, want) {
			rec.Failf(rt, "C01|seq.Zip|positional", "seq.Zip(%s, %s) flattened = %v, want %v", a, b, got, want)
		}
	})
	kit.Check(t, "seq.ZipWithIndex/positional", "a Seq of length 0..5; ZipWithIndex(a) against [(0,a0),(1,a1),..]; non-trivial iff length >= 2; distinct by printed input", bOpt, func(rt *rapid.T, rec *kit.Rec) {
		a := c.genVal(rt, "a", 5)
		rec.Case(len(a.Xs) >= 2, a.String())
		idx := []int{}
		for i := range a.Xs {
			idx = append(idx, i)
		}
		want := bFlat(bRefZip(idx, a.Xs))
		var got []int
		rec.Guard(rt, "C01|seq.ZipWithIndex|positional", func() {
			for _, tp := range seq.ZipWithIndex(c.build(a, 0)) {
				got = append(got, tp.I1, tp.I2)
			}
		})
		if !bEqInts(got, want) {
			rec.Failf(rt, "C01|seq.ZipWithIndex|positional", "seq.ZipWithIndex(%s) flattened = %v, want %v", a, got, want)
		}
	})
}
