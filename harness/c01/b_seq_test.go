package c01

import (
	"fmt"
	"testing"

	"github.com/csgura/fp"
	"github.com/csgura/fp/seq"
	"pgregory.net/rapid"

	"verifharness/kit"
)

// bMkSeq builds a fp.Seq[T] of one of the slice shapes: 0 exact (nil when empty),
// 1 a view with spare capacity into a larger backing array, 2 freshly made (empty non-nil).
func bMkSeq[T any](kind int, xs []T) fp.Seq[T] {
	switch kind {
	case 0:
		if len(xs) == 0 {
			return nil
		}
		return append(fp.Seq[T]{}, xs...)
	case 1:
		back := make([]T, len(xs), len(xs)+3)
		copy(back, xs)
		return back
	default:
		r := make(fp.Seq[T], len(xs))
		copy(r, xs)
		return r
	}
}

func bSeqLikeNT(v bVal) bool { return len(v.Xs) == 0 || len(v.Xs) >= 2 }

const bSeqLikeRule = "non-trivial iff at least one operand / inner value / table row is empty or has length >= 2"

func bObserveSlice(m []int, limit int) ([]int, bool) {
	if len(m) > limit {
		return append([]int{}, m[:limit]...), false
	}
	return append([]int{}, m...), true
}

func bSeqCore() *bCore[fp.Seq[int]] {
	return &bCore[fp.Seq[int]]{
		name: "seq", model: bSeqM, maxLen: 5,
		genVal: func(rt *rapid.T, label string, maxLen int) bVal {
			return bVal{K: rapid.IntRange(0, 2).Draw(rt, label+".kind"), Xs: bGenXs(rt, label, 0, maxLen)}
		},
		build:   func(v bVal, s int) fp.Seq[int] { return bMkSeq(v.K, v.shifted(s)) },
		lift:    func(v bVal, s int) any { return bSeqM.wrap(bAnys(v.shifted(s))) },
		observe: func(m fp.Seq[int], limit int) ([]int, bool) { return bObserveSlice(m, limit) },
		ntVal:   bSeqLikeNT, ntRule: bSeqLikeRule,
	}
}

func TestBSeq(t *testing.T) {
	c := bSeqCore()
	type M = fp.Seq[int]
	p := &bPkg[M, fp.Seq[M], fp.Seq[fp.Func1[int, int]]]{
		bCore:       c,
		units:       []bUnit[M]{{"Pure", seq.Pure[int]}, {"Of", func(x int) M { return seq.Of(x) }}},
		flatMapName: "FlatMap",
		flatMap:     func(m M, f func(int) M) M { return seq.FlatMap(m, f) },
		mapI:        func(m M, f func(int) int) M { return seq.Map(m, f) },
		map2:        func(a, b M, f func(int, int) int) M { return seq.Map2(a, b, f) },
		mapM:        func(m M, f func(int) M) fp.Seq[M] { return seq.Map(m, f) },
		flatten:     func(mm fp.Seq[M]) M { return seq.Flatten(mm) },
		mapF: func(m M, f func(int) fp.Func1[int, int]) fp.Seq[fp.Func1[int, int]] {
			return seq.Map(m, f)
		},
		ap:          func(tf fp.Seq[fp.Func1[int, int]], m M) M { return seq.Ap(tf, m) },
		lift:        func(f func(int) int) func(M) M { return seq.Lift(f) },
		liftM:       func(f func(int) M) func(M) M { return seq.LiftM(f) },
		compose:     func(f, g func(int) M) func(int) M { return seq.Compose(f, g) },
		composePure: func(f func(int) int) func(int) M { return seq.ComposePure(f) },
		filterMap:   func(m M, f func(int) fp.Option[int]) M { return seq.FilterMap(m, f) },
		genOuter:    func(rt *rapid.T, label string) int { return rapid.IntRange(0, 2).Draw(rt, label) },
		outerMin:    0, outerMax: 4,
		buildMM: func(o int, inner []M) fp.Seq[M] { return bMkSeq(o, inner) },
		buildMF: func(o int, fs []fp.Func1[int, int]) fp.Seq[fp.Func1[int, int]] { return bMkSeq(o, fs) },
	}
	bRunPkg(t, p)

	tail := "; " + c.ntRule + "; distinct by printed inputs"

	// the methods of fp.Seq are a second FlatMap/Map pair
	kit.Check(t, "seq.method.FlatMap/ref", "Seq.FlatMap method (m.FlatMap(f)) against the harness' concat-map"+tail, bOpt, func(rt *rapid.T, rec *kit.Rec) {
		m := c.genVal(rt, "m", c.maxLen)
		f := c.genTab(rt, "f", c.maxLen)
		rec.Case(c.nt(bVals(m), f), fmt.Sprintf("%s|%s", m, f))
		c.expect(rt, rec, "C01|seq.method.FlatMap|ref", fmt.Sprintf("%s.FlatMap(%s)", m, f),
			func() any { return bSeqM.bind(c.lift(m, 0), c.tabRef(f)) },
			func(fuel *kit.Fuel) M {
				return c.build(m, 0).FlatMap(func(x int) fp.Seq[int] { return c.tabLib(f, fuel)(x) })
			})
	})
	kit.Check(t, "seq.method.Map/def", "Seq.Map method (m.Map(f)) against bind(m, x => unit(f x)) and against m.FlatMap(Pure∘f)"+tail, bOpt, func(rt *rapid.T, rec *kit.Rec) {
		m := c.genVal(rt, "m", c.maxLen)
		f := bGenFn1(rt, "f")
		rec.Case(c.nt(bVals(m)), fmt.Sprintf("%s|%s", m, f))
		ref := func() any { return bRefMap(bSeqM, c.lift(m, 0), f.ref()) }
		c.expect(rt, rec, "C01|seq.method.Map|def", fmt.Sprintf("%s.Map(%s)", m, f), ref,
			func(fuel *kit.Fuel) M { return c.build(m, 0).Map(f.lib(fuel)) })
		c.expect(rt, rec, "C01|seq.method.Map|def", fmt.Sprintf("%s.FlatMap(Pure∘%s)", m, f), ref,
			func(fuel *kit.Fuel) M {
				return c.build(m, 0).FlatMap(func(x int) fp.Seq[int] { return seq.Pure(f.lib(fuel)(x)) })
			})
	})

	kit.Check(t, "seq.FilterNil/ref", "a Seq[*int] with nil entries at drawn positions; FilterNil(m) against bind(m, p => p == nil ? empty : unit(*p)); non-trivial iff some entry is nil or length >= 2; distinct by printed input", bOpt, func(rt *rapid.T, rec *kit.Rec) {
		kind := rapid.IntRange(0, 2).Draw(rt, "kind")
		xs := rapid.SliceOfN(kit.TinyInt(), 0, 5).Draw(rt, "xs")
		nils := rapid.SliceOfN(rapid.Bool(), len(xs), len(xs)).Draw(rt, "nil")
		anyNil := false
		for _, b := range nils {
			anyNil = anyNil || b
		}
		rec.Case(anyNil || len(xs) >= 2, fmt.Sprintf("k%d%v%v", kind, xs, nils))
		c.expect(rt, rec, "C01|seq.FilterNil|ref", fmt.Sprintf("seq.FilterNil(k%d %v nil=%v)", kind, xs, nils),
			func() any {
				items := []any{}
				for i := range xs {
					items = append(items, i)
				}
				return bRefFilterMap(bSeqM, items, func(i any) (any, bool) { return xs[i.(int)], !nils[i.(int)] })
			},
			func(fuel *kit.Fuel) M {
				ps := []*int{}
				for i := range xs {
					if nils[i] {
						ps = append(ps, nil)
					} else {
						v := xs[i]
						ps = append(ps, &v)
					}
				}
				return seq.FilterNil(bMkSeq(kind, ps))
			})
	})

	// Zip family: positional semantics, not monadic
	kit.Check(t, "seq.Zip/positional", "two Seqs of independent lengths 0..5; Zip(a,b) against the positional zip (shortest wins); non-trivial iff the lengths differ or both >= 2; distinct by printed inputs", bOpt, func(rt *rapid.T, rec *kit.Rec) {
		a := c.genVal(rt, "a", 5)
		b := c.genVal(rt, "b", 5)
		rec.Case(len(a.Xs) != len(b.Xs) || len(a.Xs) >= 2, fmt.Sprintf("%s|%s", a, b))
		want := bFlat(bRefZip(a.Xs, b.Xs))
		var got []int
		rec.Guard(rt, "C01|seq.Zip|positional", func() {
			for _, tp := range seq.Zip(c.build(a, 0), c.build(b, 0)) {
				got = append(got, tp.I1, tp.I2)
			}
		})
		if !bEqInts(got, want) {
			rec.Failf(rt, "C01|seq.Zip|positional", "seq.Zip(%s, %s) flattened = %v, want %v", a, b, got, want)
		}
	})
	kit.Check(t, "seq.ZipWithIndex/positional", "a Seq of length 0..5; ZipWithIndex(a) against [(0,a0),(1,a1),..]; non-trivial iff length >= 2; distinct by printed input", bOpt, func(rt *rapid.T, rec *kit.Rec) {
		a := c.genVal(rt, "a", 5)
		rec.Case(len(a.Xs) >= 2, a.String())
		idx := []int{}
		for i := range a.Xs {
			idx = append(idx, i)
		}
		want := bFlat(bRefZip(idx, a.Xs))
		var got []int
		rec.Guard(rt, "C01|seq.ZipWithIndex|positional", func() {
			for _, tp := range seq.ZipWithIndex(c.build(a, 0)) {
				got = append(got, tp.I1, tp.I2)
			}
		})
		if !bEqInts(got, want) {
			rec.Failf(rt, "C01|seq.ZipWithIndex|positional", "seq.ZipWithIndex(%s) flattened = %v, want %v", a, got, want)
		}
	})
}
