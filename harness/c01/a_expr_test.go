package c01

// Part A of C01: finite compositions of the combinators.  An expression tree whose
// nodes all have type M[int] is drawn by rapid, evaluated with the library (per package,
// generated evaluator aEval<P>) and with the reference definitions (exprM below).

import (
	"fmt"
	"strings"

	"pgregory.net/rapid"

	"verifharness/kit"
)

const (
	aOpLeaf = iota
	aOpCompose
	aOpFoldM
	aOpMap
	aOpFlatMap
	aOpFlatten
	aOpReplace
	aOpLiftM
	aOpMethod1
	aOpFlatMethod1
	aOpFlap
	aOpTraverse
	aOpMap2
	aOpAp
	aOpZip
	aOpFlatMap2
	aOpLiftA3
	aOpSequence
	aOpCount
)

var aOpNames = [...]string{"leaf", "Compose", "FoldM", "Map", "FlatMap", "Flatten∘Map", "Replace", "LiftM", "Method1", "FlatMethod1", "Flap∘Map", "FlatMap∘TraverseSlice", "Map2", "Ap∘Map", "Map∘Zip", "FlatMap2", "LiftA3", "Map∘Sequence"}

var aOpKids = [...]int{0, 0, 0, 1, 1, 1, 1, 1, 1, 1, 1, 1, 2, 2, 2, 2, 3, 3}

type aExpr struct {
	Op   int
	Kids []*aExpr
	D    aVal
	F    kit.IntFn
	K    aKFn
	K2   aKFn
	B    int
	Xs   []int
}

func (e *aExpr) String() string {
	var sb strings.Builder
	sb.WriteString(aOpNames[e.Op])
	sb.WriteString("(")
	switch e.Op {
	case aOpLeaf:
		fmt.Fprintf(&sb, "%v", e.D)
	case aOpCompose:
		fmt.Fprintf(&sb, "%v,%v,%d", e.K, e.K2, e.B)
	case aOpFoldM:
		fmt.Fprintf(&sb, "%v,%d,%v", e.Xs, e.B, e.K)
	case aOpMap:
		fmt.Fprintf(&sb, "%v", e.F)
	case aOpFlatMap, aOpLiftM, aOpFlatMap2:
		fmt.Fprintf(&sb, "%v", e.K)
	case aOpFlatten:
		fmt.Fprintf(&sb, "x=>%v+x", e.D)
	case aOpReplace, aOpMethod1, aOpFlap:
		fmt.Fprintf(&sb, "%d", e.B)
	case aOpFlatMethod1:
		fmt.Fprintf(&sb, "%v,%d", e.K, e.B)
	case aOpTraverse:
		fmt.Fprintf(&sb, "%v,%v", e.Xs, e.K)
	}
	for _, k := range e.Kids {
		sb.WriteString(" ")
		sb.WriteString(k.String())
	}
	sb.WriteString(")")
	return sb.String()
}

func (e *aExpr) size() int {
	n := 1
	for _, k := range e.Kids {
		n += k.size()
	}
	return n
}

// drawExpr draws a tree of at most maxNodes (>= 1) nodes.
func (c *aCase) drawExpr(label string, maxNodes int, depth int) *aExpr {
	e := &aExpr{}
	rest := maxNodes - 1
	switch {
	case rest <= 0 || depth == 0:
		e.Op = rapid.IntRange(aOpLeaf, aOpFoldM).Draw(c.rt, label+".leafop")
	case rest == 1:
		e.Op = rapid.IntRange(aOpMap, aOpTraverse).Draw(c.rt, label+".op")
	case rest == 2:
		e.Op = rapid.IntRange(aOpMap, aOpFlatMap2).Draw(c.rt, label+".op")
	default:
		e.Op = rapid.IntRange(aOpMap, aOpCount-1).Draw(c.rt, label+".op")
	}
	q := func(l string) string { return label + "." + l }
	dv := func(l string) aVal {
		d := aDrawVal(c.rt, c.ad, q(l), 2)
		c.nt = c.nt || d.Fail
		return d
	}
	dk := func(l string) aKFn {
		f := kit.IntFnGen().Draw(c.rt, q(l)+".tab")
		k := aKFn{F: f, Rows: make([]aVal, len(f.Tab))}
		for i := range k.Rows {
			k.Rows[i] = aDrawVal(c.rt, c.ad, fmt.Sprintf("%s.row%d", q(l), i), 2)
			k.Rows[i].V = 0
		}
		c.nt = c.nt || k.hasFail()
		return k
	}
	switch e.Op {
	case aOpLeaf:
		e.D = dv("d")
	case aOpCompose:
		e.K, e.K2, e.B = dk("k"), dk("k2"), kit.TinyInt().Draw(c.rt, q("b"))
	case aOpFoldM:
		e.Xs = rapid.SliceOfN(kit.TinyInt(), 0, 3).Draw(c.rt, q("xs"))
		e.B, e.K = kit.TinyInt().Draw(c.rt, q("b")), dk("k")
	case aOpMap:
		e.F = kit.IntFnGen().Draw(c.rt, q("f"))
	case aOpFlatMap, aOpLiftM, aOpFlatMap2:
		e.K = dk("k")
	case aOpFlatten:
		e.D = dv("d")
	case aOpReplace, aOpMethod1, aOpFlap:
		e.B = kit.TinyInt().Draw(c.rt, q("b"))
	case aOpFlatMethod1:
		e.K, e.B = dk("k"), kit.TinyInt().Draw(c.rt, q("b"))
	case aOpTraverse:
		e.Xs = rapid.SliceOfN(kit.TinyInt(), 0, 3).Draw(c.rt, q("xs"))
		e.K = dk("k")
	}
	nk := aOpKids[e.Op]
	for i := 0; i < nk; i++ {
		kid := c.drawExpr(fmt.Sprintf("%s.%d", label, i), rest-(nk-i-1), depth-1)
		rest -= kid.size()
		e.Kids = append(e.Kids, kid)
	}
	return e
}

func (c *aCase) expr(label string) *aExpr {
	budget := rapid.IntRange(2, kit.Pick(6, 12)).Draw(c.rt, label+".nodes")
	e := c.drawExpr(label, budget, 5)
	c.note(label, e)
	c.rec.Label(fmt.Sprintf("nodes=%d", e.size()))
	return e
}

// exprM evaluates the tree with the reference definitions only.
func (c *aCase) exprM(e *aExpr) aM {
	kid := func(i int) aM { return c.exprM(e.Kids[i]) }
	h2 := func(x, y any) any { return aH(x.(int), y.(int)) }
	curryH := func(v any) any { return func(x any) any { return aH(v.(int), x.(int)) } }
	switch e.Op {
	case aOpLeaf:
		return c.m(e.D)
	case aOpCompose:
		return aRefCompose(c.km(e.K), c.km(e.K2))(e.B)
	case aOpFoldM:
		return aRefFoldM(aAnys(e.Xs), e.B, func(b, a any) aM { return c.m(e.K.at(aH(b.(int), a.(int)))) })
	case aOpMap:
		return aRefMap(kid(0), aPM(e.F))
	case aOpFlatMap:
		return aBind(kid(0), c.km(e.K))
	case aOpFlatten:
		return aRefFlatten(aRefMap(kid(0), func(x any) any { return c.m(e.D.plusV(x.(int))) }))
	case aOpReplace:
		return aRefReplace(kid(0), e.B)
	case aOpLiftM:
		return aRefLiftM1(c.km(e.K))(kid(0))
	case aOpMethod1:
		return aRefMethod(kid(0), aHAny, []any{e.B})
	case aOpFlatMethod1:
		return aRefFlatMethod(kid(0), c.kmN(e.K), []any{e.B})
	case aOpFlap:
		return aRefFlap(aRefMap(kid(0), curryH), e.B)
	case aOpTraverse:
		return aBind(kid(0), func(v any) aM {
			return aRefMap(aRefTraverse(aAnys(aShift(e.Xs, v.(int))), c.km(e.K)), func(l any) any { return aHAny(l.([]any)) })
		})
	case aOpMap2:
		return aRefLiftA([]aM{kid(0), kid(1)}, aHAny)
	case aOpAp:
		return aRefAp(aRefMap(kid(0), curryH), kid(1))
	case aOpZip:
		return aRefMap(aRefZip([]aM{kid(0), kid(1)}), func(t any) any { return h2(t.([]any)[0], t.([]any)[1]) })
	case aOpFlatMap2:
		return aRefLiftM([]aM{kid(0), kid(1)}, c.kmN(e.K))
	case aOpLiftA3:
		return aRefLiftA([]aM{kid(0), kid(1), kid(2)}, aHAny)
	case aOpSequence:
		return aRefMap(aRefSequence([]aM{kid(0), kid(1), kid(2)}), func(l any) any { return aHAny(l.([]any)) })
	}
	panic("unknown op")
}

const aRuleExpr = "expression tree of 2..6 (thorough: 2..12) combinator nodes, every node of type M[int]: leaves are operands per constructor, Compose(f,g)(b), FoldM(xs,z,f); inner nodes Map, FlatMap, Flatten∘Map, Replace, LiftM, Method1, FlatMethod1, Flap∘Map, FlatMap∘TraverseSlice, Map2, Ap∘Map, Map∘Zip, FlatMap2, LiftA3, Map∘Sequence with drawn table functions; the tree is evaluated with the library and with the reference definitions over the harness' own unit/bind (StateT: on 2 generated initial states); non-trivial iff some leaf is not a success or some table has a failing row; distinct by printed tree"
