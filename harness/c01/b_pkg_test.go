package c01

// Generic part of C01/B: a package under test is described once (bCore + bPkg: how to build a
// library value from a descriptor, how to observe it, and the real FlatMap/unit/derived
// combinators instantiated at int); the sub-checks (three laws, FlatMap vs concat-map reference,
// Map = FlatMap . unit, every derived combinator vs its ONE reference definition, random
// composition trees) are written once over that description.

import (
	"fmt"
	"strings"
	"testing"
	"time"

	"github.com/csgura/fp"
	"pgregory.net/rapid"

	"verifharness/kit"
)

// the property demands termination: hangs are violations
var bOpt = kit.Opt{HangIsViolation: true, HangAfter: 20 * time.Second}

func bOptW(w float64) kit.Opt {
	return kit.Opt{HangIsViolation: true, HangAfter: 20 * time.Second, Weight: w}
}

type bUnit[M any] struct {
	name string
	f    func(int) M
}

// bCore: values of one package's M[int].
type bCore[M any] struct {
	name   string // package name: seq, list, iterator, lazy, fn0, fn1
	model  bM
	maxLen int
	genVal func(rt *rapid.T, label string, maxLen int) bVal
	// build makes a FRESH library value (iterators are one-shot) with shift added to every element
	build func(v bVal, shift int) M
	// lift is the model value of the same descriptor
	lift func(v bVal, shift int) any
	// observe drains / runs a library value; ok=false when more than limit elements came out
	observe func(m M, limit int) (got []int, ok bool)
	// fixup re-establishes a kind's invariant after Xs was replaced (iterator.Range: consecutive)
	fixup func(v bVal) bVal
	// ntVal: does this operand / table row make a case non-trivial (rule text in ntRule)
	ntVal  func(v bVal) bool
	ntRule string
}

func (c *bCore[M]) nt(vals []bVal, tabs ...bTab) bool {
	for _, v := range vals {
		if c.ntVal(v) {
			return true
		}
	}
	for _, t := range tabs {
		for _, r := range t.Rows {
			if c.ntVal(r) {
				return true
			}
		}
	}
	return false
}

func (c *bCore[M]) genTab(rt *rapid.T, label string, maxLen int) bTab {
	n := rapid.IntRange(1, 3).Draw(rt, label+".rows")
	t := bTab{Mix: rapid.SampledFrom([]int{0, 0, 1, 10}).Draw(rt, label+".mix")}
	for i := 0; i < n; i++ {
		t.Rows = append(t.Rows, c.genVal(rt, label+".row", maxLen))
	}
	return t
}

// genValNE / genTabNE: as genVal / genTab, but an empty sequence-like value is replaced by a
// non-empty one of the same construction kind with probability 3/4 (composition trees multiply
// the chance of an empty result otherwise).
func (c *bCore[M]) genValNE(rt *rapid.T, label string, maxLen int) bVal {
	v := c.genVal(rt, label, maxLen)
	if c.model.zero != nil && len(v.Xs) == 0 && maxLen > 0 && rapid.IntRange(0, 3).Draw(rt, label+".keepEmpty") != 0 {
		v.Xs = bGenXs(rt, label+".ne", 1, maxLen)
		if c.fixup != nil {
			v = c.fixup(v)
		}
	}
	return v
}

func (c *bCore[M]) genTabNE(rt *rapid.T, label string, maxLen int) bTab {
	n := rapid.IntRange(1, 3).Draw(rt, label+".rows")
	t := bTab{Mix: rapid.SampledFrom([]int{0, 0, 1, 10}).Draw(rt, label+".mix")}
	for i := 0; i < n; i++ {
		t.Rows = append(t.Rows, c.genValNE(rt, label+".row", maxLen))
	}
	return t
}

func (c *bCore[M]) tabLib(t bTab, fuel *kit.Fuel) func(int) M {
	// Values of the persistent kinds (seq, list, lazy, fn0, fn1) may be handed out more than once: for the
	// arguments that select an even table row the function returns the SAME value it returned before for
	// that (row, shift) - a combinator must not consume or alter what a Kleisli function gave it. Iterators
	// are one-shot and always built afresh.
	cache := map[[2]int]M{}
	return func(x int) M {
		fuel.Use()
		r, s := t.row(x)
		if c.name == "iterator" {
			return c.build(r, s)
		}
		ri := bMod(x, len(t.Rows))
		if ri%2 != 0 {
			return c.build(r, s)
		}
		k := [2]int{ri, s}
		if v, ok := cache[k]; ok {
			return v
		}
		v := c.build(r, s)
		cache[k] = v
		return v
	}
}

func (c *bCore[M]) tabRef(t bTab) bAnyFn {
	return func(x any) any {
		r, s := t.row(x.(int))
		return c.lift(r, s)
	}
}

// expect: library expression vs reference definition (evaluated in the model first, which also
// sizes the fuel and the drain limit).
func (c *bCore[M]) expect(rt *rapid.T, rec *kit.Rec, sig, input string, ref func() any, lib func(fuel *kit.Fuel) M) {
	bWork = 0
	want := c.model.obs(ref())
	fuel := bFuelFor(bWork+len(want), sig)
	var got []int
	ok := true
	rec.Guard(rt, sig, func() { got, ok = c.observe(lib(fuel), len(want)+8) })
	if !ok {
		rec.Failf(rt, sig+"|nonterm", "%s: more than %d elements came out (first: %v); the definition over unit/bind gives the %d elements %v", input, len(want)+8, got, len(want), want)
	}
	if !bEqInts(got, want) {
		rec.Failf(rt, sig, "%s = %v, but its definition over unit/bind gives %v", input, got, want)
	}
}

// same: two library expressions must be observably equal (the laws). ref only sizes fuel/limit.
func (c *bCore[M]) same(rt *rapid.T, rec *kit.Rec, sig, input string, ref func() any, lhs, rhs func(fuel *kit.Fuel) M) {
	bWork = 0
	n := len(c.model.obs(ref()))
	fuel := bFuelFor(4*(bWork+n), sig)
	limit := 10*n + 64
	var l, r []int
	okL, okR := true, true
	rec.Guard(rt, sig, func() {
		l, okL = c.observe(lhs(fuel), limit)
		r, okR = c.observe(rhs(fuel), limit)
	})
	if !okL || !okR {
		rec.Failf(rt, sig+"|nonterm", "%s: more than %d elements came out (lhs %v, rhs %v)", input, limit, l, r)
	}
	if !bEqInts(l, r) {
		rec.Failf(rt, sig, "%s: left side = %v, right side = %v", input, l, r)
	}
}

// bPkg: the real combinators of one package instantiated at int.
// MM = M[M[int]], MF = M[Func1[int,int]]; optional members are nil when the package has none.
type bPkg[M, MM, MF any] struct {
	*bCore[M]
	units       []bUnit[M]
	flatMapName string
	flatMap     func(M, func(int) M) M
	mapI        func(M, func(int) int) M

	map2        func(M, M, func(int, int) int) M
	mapM        func(M, func(int) M) MM
	flatten     func(MM) M
	mapF        func(M, func(int) fp.Func1[int, int]) MF
	ap          func(MF, M) M
	lift        func(func(int) int) func(M) M
	liftM       func(func(int) M) func(M) M
	compose     func(f, g func(int) M) func(int) M
	composePure func(func(int) int) func(int) M
	// composePureName: the library name of the a -> unit(f a) builder (default ComposePure)
	composePureName string
	filterMap       func(M, func(int) fp.Option[int]) M

	// direct construction of nested values: outer kind + items
	genOuter           func(rt *rapid.T, label string) int
	outerMin, outerMax int
	buildMM            func(outer int, inner []M) MM
	buildMF            func(outer int, fs []fp.Func1[int, int]) MF
}

func bRunPkg[M, MM, MF any](t *testing.T, p *bPkg[M, MM, MF]) {
	t.Helper()
	c := p.bCore
	mo := c.model
	n := c.name
	vals := "operands from every construction kind of the package (length 0.." + fmt.Sprint(c.maxLen) + " where sequence-like), table functions int->M[int] whose rows are such values (+Mix·x), int functions as tables; "
	tail := "; " + c.ntRule + "; distinct by printed (combinator, construction kinds, contents, tables)"
	unitNames := []string{}
	for _, u := range p.units {
		unitNames = append(unitNames, n+"."+u.name)
	}
	un := strings.Join(unitNames, "/")
	fm := n + "." + p.flatMapName
	seqLike := c.model.zero != nil

	kit.Check(t, fm+"/left-identity", vals+"FlatMap(unit(a), f) == f(a) with unit in {"+un+"}, both sides computed by the library"+tail, bOpt, func(rt *rapid.T, rec *kit.Rec) {
		ui := rapid.IntRange(0, len(p.units)-1).Draw(rt, "unit")
		a := kit.TinyInt().Draw(rt, "a")
		f := c.genTab(rt, "f", c.maxLen)
		rec.Case(c.nt(nil, f), fmt.Sprintf("%s|%d|%s", p.units[ui].name, a, f))
		sig := "C01|" + fm + "|left-identity"
		c.same(rt, rec, sig, fmt.Sprintf("FlatMap(%s(%d), %s) vs f(%d)", p.units[ui].name, a, f, a),
			func() any { return c.tabRef(f)(a) },
			func(fuel *kit.Fuel) M { return p.flatMap(p.units[ui].f(a), c.tabLib(f, fuel)) },
			func(fuel *kit.Fuel) M { return c.tabLib(f, fuel)(a) })
	})

	kit.Check(t, fm+"/right-identity", vals+"FlatMap(m, unit) == m with unit in {"+un+"}"+tail, bOpt, func(rt *rapid.T, rec *kit.Rec) {
		ui := rapid.IntRange(0, len(p.units)-1).Draw(rt, "unit")
		m := c.genVal(rt, "m", c.maxLen)
		rec.Case(c.nt(bVals(m)), fmt.Sprintf("%s|%s", p.units[ui].name, m))
		sig := "C01|" + fm + "|right-identity"
		c.same(rt, rec, sig, fmt.Sprintf("FlatMap(%s, %s) vs m", m, p.units[ui].name),
			func() any { return c.lift(m, 0) },
			func(fuel *kit.Fuel) M {
				return p.flatMap(c.build(m, 0), func(x int) M { fuel.Use(); return p.units[ui].f(x) })
			},
			func(fuel *kit.Fuel) M { return c.build(m, 0) })
	})

	kit.Check(t, fm+"/associativity", vals+"FlatMap(FlatMap(m,f),g) == FlatMap(m, x => FlatMap(f(x), g))"+tail, bOpt, func(rt *rapid.T, rec *kit.Rec) {
		m := c.genVal(rt, "m", c.maxLen)
		f := c.genTab(rt, "f", 3)
		g := c.genTab(rt, "g", 3)
		rec.Case(c.nt(bVals(m), f, g), fmt.Sprintf("%s|%s|%s", m, f, g))
		sig := "C01|" + fm + "|associativity"
		c.same(rt, rec, sig, fmt.Sprintf("m=%s f=%s g=%s", m, f, g),
			func() any { return mo.bind(mo.bind(c.lift(m, 0), c.tabRef(f)), c.tabRef(g)) },
			func(fuel *kit.Fuel) M {
				return p.flatMap(p.flatMap(c.build(m, 0), c.tabLib(f, fuel)), c.tabLib(g, fuel))
			},
			func(fuel *kit.Fuel) M {
				return p.flatMap(c.build(m, 0), func(x int) M { return p.flatMap(c.tabLib(f, fuel)(x), c.tabLib(g, fuel)) })
			})
	})

	kit.Check(t, fm+"/ref", vals+"FlatMap(m, f) against the harness' own bind (sequence-like: concat-map in order)"+tail, bOpt, func(rt *rapid.T, rec *kit.Rec) {
		m := c.genVal(rt, "m", c.maxLen)
		f := c.genTab(rt, "f", c.maxLen)
		rec.Case(c.nt(bVals(m), f), fmt.Sprintf("%s|%s", m, f))
		c.expect(rt, rec, "C01|"+fm+"|ref", fmt.Sprintf("%s(%s, %s)", fm, m, f),
			func() any { return mo.bind(c.lift(m, 0), c.tabRef(f)) },
			func(fuel *kit.Fuel) M { return p.flatMap(c.build(m, 0), c.tabLib(f, fuel)) })
	})

	kit.Check(t, n+".Map/def", vals+"Map(m, f) == FlatMap(m, unit∘f) (library both sides) and == the reference definition bind(m, x => unit(f x))"+tail, bOpt, func(rt *rapid.T, rec *kit.Rec) {
		ui := rapid.IntRange(0, len(p.units)-1).Draw(rt, "unit")
		m := c.genVal(rt, "m", c.maxLen)
		f := bGenFn1(rt, "f")
		rec.Case(c.nt(bVals(m)), fmt.Sprintf("%s|%s|%s", p.units[ui].name, m, f))
		sig := "C01|" + n + ".Map|def"
		in := fmt.Sprintf("%s.Map(%s, %s)", n, m, f)
		ref := func() any { return bRefMap(mo, c.lift(m, 0), f.ref()) }
		c.same(rt, rec, sig, in+" vs FlatMap(m, "+p.units[ui].name+"∘f)", ref,
			func(fuel *kit.Fuel) M { return p.mapI(c.build(m, 0), f.lib(fuel)) },
			func(fuel *kit.Fuel) M {
				return p.flatMap(c.build(m, 0), func(x int) M { return p.units[ui].f(f.lib(fuel)(x)) })
			})
		c.expect(rt, rec, sig, in, ref, func(fuel *kit.Fuel) M { return p.mapI(c.build(m, 0), f.lib(fuel)) })
	})

	if p.map2 != nil {
		kit.Check(t, n+".Map2/ref", vals+"Map2(a, b, f) against bind(a, x => bind(b, y => unit(f x y))), f position-sensitive"+tail, bOpt, func(rt *rapid.T, rec *kit.Rec) {
			a := c.genVal(rt, "a", c.maxLen)
			b := c.genVal(rt, "b", c.maxLen)
			f := bGenLin(rt, "f", 2)
			rec.Case(c.nt(bVals(a, b)), fmt.Sprintf("%s|%s|%s", a, b, f))
			c.expect(rt, rec, "C01|"+n+".Map2|ref", fmt.Sprintf("%s.Map2(%s, %s, %s)", n, a, b, f),
				func() any {
					return bRefMap2(mo, c.lift(a, 0), c.lift(b, 0), func(x, y any) any { return f.call([]int{x.(int), y.(int)}) })
				},
				func(fuel *kit.Fuel) M {
					return p.map2(c.build(a, 0), c.build(b, 0), func(x, y int) int { fuel.Use(); return f.call([]int{x, y}) })
				})
		})
	}

	if p.flatten != nil && p.buildMM != nil {
		kit.Check(t, n+".Flatten/ref", "a nested value M[M[int]] built directly (outer construction kind, inner values of every kind, incl. empty inner values at every position); Flatten(mm) against bind(mm, id)"+tail, bOpt, func(rt *rapid.T, rec *kit.Rec) {
			ok := p.genOuter(rt, "outer")
			k := rapid.IntRange(p.outerMin, p.outerMax).Draw(rt, "n")
			inner := []bVal{}
			for i := 0; i < k; i++ {
				inner = append(inner, c.genVal(rt, "inner", 3))
			}
			rec.Case(c.nt(inner) || k == 0 || (c.model.zero != nil && k >= 2), fmt.Sprintf("o%d|%v", ok, inner))
			c.expect(rt, rec, "C01|"+n+".Flatten|ref", fmt.Sprintf("%s.Flatten(o%d%v)", n, ok, inner),
				func() any {
					items := []any{}
					for _, v := range inner {
						items = append(items, c.lift(v, 0))
					}
					return bRefFlatten(mo, mo.wrap(items))
				},
				func(fuel *kit.Fuel) M {
					ms := []M{}
					for _, v := range inner {
						ms = append(ms, c.build(v, 0))
					}
					return p.flatten(p.buildMM(ok, ms))
				})
		})
	}

	if p.ap != nil && p.buildMF != nil {
		kit.Check(t, n+".Ap/ref", "a value of functions M[int->int] built directly (outer construction kind, 0..4 table functions) and an operand; Ap(tf, m) against bind(tf, f => bind(m, x => unit(f x))) (functions outer, operand inner)"+tail, bOpt, func(rt *rapid.T, rec *kit.Rec) {
			ok := p.genOuter(rt, "outer")
			k := rapid.IntRange(p.outerMin, p.outerMax).Draw(rt, "n")
			fs := []bFn1{}
			for i := 0; i < k; i++ {
				fs = append(fs, bGenFn1(rt, "f"))
			}
			m := c.genVal(rt, "m", c.maxLen)
			rec.Case(c.nt(bVals(m)) || k == 0 || (c.model.zero != nil && k >= 2), fmt.Sprintf("o%d%v|%s", ok, fs, m))
			c.expect(rt, rec, "C01|"+n+".Ap|ref", fmt.Sprintf("%s.Ap(o%d%v, %s)", n, ok, fs, m),
				func() any {
					items := []any{}
					for _, f := range fs {
						items = append(items, f.ref())
					}
					return bRefAp(mo, mo.wrap(items), c.lift(m, 0))
				},
				func(fuel *kit.Fuel) M {
					lfs := []fp.Func1[int, int]{}
					for _, f := range fs {
						lfs = append(lfs, f.lib(fuel))
					}
					return p.ap(p.buildMF(ok, lfs), c.build(m, 0))
				})
		})
	}

	if p.lift != nil {
		kit.Check(t, n+".Lift/ref", vals+"Lift(f)(m) against bind(m, x => unit(f x))"+tail, bOpt, func(rt *rapid.T, rec *kit.Rec) {
			m := c.genVal(rt, "m", c.maxLen)
			f := bGenFn1(rt, "f")
			rec.Case(c.nt(bVals(m)), fmt.Sprintf("%s|%s", m, f))
			c.expect(rt, rec, "C01|"+n+".Lift|ref", fmt.Sprintf("%s.Lift(%s)(%s)", n, f, m),
				func() any { return bRefLift(mo, f.ref())(c.lift(m, 0)) },
				func(fuel *kit.Fuel) M { return p.lift(f.lib(fuel))(c.build(m, 0)) })
		})
	}

	if p.liftM != nil {
		kit.Check(t, n+".LiftM/ref", vals+"LiftM(f)(m) against bind(m, f)"+tail, bOpt, func(rt *rapid.T, rec *kit.Rec) {
			m := c.genVal(rt, "m", c.maxLen)
			f := c.genTab(rt, "f", c.maxLen)
			rec.Case(c.nt(bVals(m), f), fmt.Sprintf("%s|%s", m, f))
			c.expect(rt, rec, "C01|"+n+".LiftM|ref", fmt.Sprintf("%s.LiftM(%s)(%s)", n, f, m),
				func() any { return bRefLiftM(mo, c.tabRef(f))(c.lift(m, 0)) },
				func(fuel *kit.Fuel) M { return p.liftM(c.tabLib(f, fuel))(c.build(m, 0)) })
		})
	}

	if p.compose != nil {
		kit.Check(t, n+".Compose/ref", vals+"Compose(f, g)(a) against bind(f(a), g) (Kleisli composition, f first)"+tail, bOpt, func(rt *rapid.T, rec *kit.Rec) {
			a := kit.TinyInt().Draw(rt, "a")
			f := c.genTab(rt, "f", c.maxLen)
			g := c.genTab(rt, "g", c.maxLen)
			rec.Case(c.nt(nil, f, g), fmt.Sprintf("%d|%s|%s", a, f, g))
			c.expect(rt, rec, "C01|"+n+".Compose|ref", fmt.Sprintf("%s.Compose(%s, %s)(%d)", n, f, g, a),
				func() any { return bRefCompose(mo, c.tabRef(f), c.tabRef(g))(a) },
				func(fuel *kit.Fuel) M { return p.compose(c.tabLib(f, fuel), c.tabLib(g, fuel))(a) })
		})
	}

	if p.composePure != nil {
		cpn := "ComposePure"
		if p.composePureName != "" {
			cpn = p.composePureName
		}
		kit.Check(t, n+"."+cpn+"/ref", "int a and a table function f; "+cpn+"(f)(a) against unit(f a), and FlatMap(m, "+cpn+"(f)) against Map's definition"+tail, bOpt, func(rt *rapid.T, rec *kit.Rec) {
			a := kit.TinyInt().Draw(rt, "a")
			m := c.genVal(rt, "m", c.maxLen)
			f := bGenFn1(rt, "f")
			rec.Case(c.nt(bVals(m)), fmt.Sprintf("%d|%s|%s", a, m, f))
			sig := "C01|" + n + "." + cpn + "|ref"
			c.expect(rt, rec, sig, fmt.Sprintf("%s.%s(%s)(%d)", n, cpn, f, a),
				func() any { return bRefComposePure(mo, f.ref())(a) },
				func(fuel *kit.Fuel) M { return p.composePure(f.lib(fuel))(a) })
			c.expect(rt, rec, sig, fmt.Sprintf("FlatMap(%s, %s.%s(%s))", m, n, cpn, f),
				func() any { return mo.bind(c.lift(m, 0), bRefComposePure(mo, f.ref())) },
				func(fuel *kit.Fuel) M { return p.flatMap(c.build(m, 0), p.composePure(f.lib(fuel))) })
		})
	}

	if p.filterMap != nil {
		kit.Check(t, n+".FilterMap/ref", vals+"table function int->Option[int]; FilterMap(m, f) against bind(m, x => f x is Some y ? unit y : empty)"+tail, bOpt, func(rt *rapid.T, rec *kit.Rec) {
			m := c.genVal(rt, "m", c.maxLen)
			f := bGenOptFn(rt, "f")
			rec.Case(c.nt(bVals(m)), fmt.Sprintf("%s|%s", m, f))
			c.expect(rt, rec, "C01|"+n+".FilterMap|ref", fmt.Sprintf("%s.FilterMap(%s, %s)", n, m, f),
				func() any { return bRefFilterMap(mo, c.lift(m, 0), f.ref()) },
				func(fuel *kit.Fuel) M { return p.filterMap(c.build(m, 0), f.lib(fuel)) })
		})
	}

	kit.Check(t, n+"/compose-tree", "an expression tree of "+fmt.Sprintf("2..%d", kit.Pick(6, 10))+" combinator nodes over the package's combinators ("+strings.Join(p.treeOps(), ",")+"), leaves = fresh values of every construction kind (each used once) / unit(x); interpreted by the library and by the reference definitions in the model"+tail, bOpt, func(rt *rapid.T, rec *kit.Rec) {
		nodes := rapid.IntRange(2, kit.Pick(6, 10)).Draw(rt, "nodes")
		maxLen := 3
		if nodes > 6 {
			maxLen = 2
		}
		if c.maxLen < maxLen {
			maxLen = c.maxLen
		}
		e := p.genExpr(rt, nodes, maxLen)
		vs, ts := e.collect(nil, nil)
		rec.Case(c.nt(vs, ts...), e.String())
		for _, op := range e.ops(nil) {
			rec.Label(op)
		}
		switch ol := len(c.model.obs(p.evalRef(e))); {
		case !seqLike:
		case ol == 0:
			rec.Label("out=0")
		case ol <= 3:
			rec.Label("out=1..3")
		default:
			rec.Label("out>3")
		}
		c.expect(rt, rec, "C01|"+n+"|compose-tree", e.String(),
			func() any { return p.evalRef(e) },
			func(fuel *kit.Fuel) M { return p.evalLib(e, fuel) })
	})
}

// ---- expression trees ------------------------------------------------------------------------

type bExpr struct {
	op        string
	kids      []*bExpr
	val       bVal
	x, u      int
	f1        bFn1
	f2        bLinFn
	tab, tab2 bTab
	opt       bOptFn
}

func (e *bExpr) String() string {
	k := func(i int) string { return e.kids[i].String() }
	switch e.op {
	case "leaf":
		return e.val.String()
	case "unit":
		return fmt.Sprintf("unit%d(%d)", e.u, e.x)
	case "map":
		return fmt.Sprintf("Map(%s, %s)", k(0), e.f1)
	case "lift":
		return fmt.Sprintf("Lift(%s)(%s)", e.f1, k(0))
	case "flatMap":
		return fmt.Sprintf("FlatMap(%s, %s)", k(0), e.tab)
	case "liftM":
		return fmt.Sprintf("LiftM(%s)(%s)", e.tab, k(0))
	case "flattenMap":
		return fmt.Sprintf("Flatten(Map(%s, %s))", k(0), e.tab)
	case "filterMap":
		return fmt.Sprintf("FilterMap(%s, %s)", k(0), e.opt)
	case "map2":
		return fmt.Sprintf("Map2(%s, %s, %s)", k(0), k(1), e.f2)
	case "apMap":
		return fmt.Sprintf("Ap(Map(%s, curried %s), %s)", k(0), e.f2, k(1))
	case "compose":
		return fmt.Sprintf("Compose(%s, %s)(%d)", e.tab, e.tab2, e.x)
	case "composePure":
		return fmt.Sprintf("ComposePure(%s)(%d)", e.f1, e.x)
	}
	return "?" + e.op
}

func (e *bExpr) collect(vs []bVal, ts []bTab) ([]bVal, []bTab) {
	switch e.op {
	case "leaf":
		vs = append(vs, e.val)
	case "flatMap", "liftM", "flattenMap":
		ts = append(ts, e.tab)
	case "compose":
		ts = append(ts, e.tab, e.tab2)
	}
	for _, k := range e.kids {
		vs, ts = k.collect(vs, ts)
	}
	return vs, ts
}

func (e *bExpr) ops(acc []string) []string {
	if e.op != "leaf" && e.op != "unit" {
		acc = append(acc, e.op)
	}
	for _, k := range e.kids {
		acc = k.ops(acc)
	}
	return acc
}

func (p *bPkg[M, MM, MF]) opSets() (unary, binary, leafLike []string) {
	unary = []string{"map", "flatMap"}
	if p.flatten != nil && p.mapM != nil {
		unary = append(unary, "flattenMap")
	}
	if p.lift != nil {
		unary = append(unary, "lift")
	}
	if p.liftM != nil {
		unary = append(unary, "liftM")
	}
	if p.filterMap != nil {
		unary = append(unary, "filterMap")
	}
	if p.map2 != nil {
		binary = append(binary, "map2")
	}
	if p.ap != nil && p.mapF != nil {
		binary = append(binary, "apMap")
	}
	if p.compose != nil {
		leafLike = append(leafLike, "compose")
	}
	if p.composePure != nil {
		leafLike = append(leafLike, "composePure")
	}
	return
}

func (p *bPkg[M, MM, MF]) treeOps() []string {
	u, b, l := p.opSets()
	return append(append(append([]string{}, u...), b...), l...)
}

// genExpr draws a tree with exactly `budget` combinator nodes.
func (p *bPkg[M, MM, MF]) genExpr(rt *rapid.T, budget int, maxLen int) *bExpr {
	c := p.bCore
	if budget == 0 {
		if rapid.IntRange(0, 6).Draw(rt, "leafKind") == 0 {
			return &bExpr{op: "unit", x: kit.TinyInt().Draw(rt, "x"), u: rapid.IntRange(0, len(p.units)-1).Draw(rt, "u")}
		}
		return &bExpr{op: "leaf", val: c.genValNE(rt, "leaf", maxLen)}
	}
	unary, binary, leafLike := p.opSets()
	cand := append(append([]string{}, unary...), binary...)
	cand = append(cand, binary...) // binary nodes make the interesting shapes
	if budget == 1 {
		cand = append(cand, leafLike...)
	}
	e := &bExpr{op: rapid.SampledFrom(cand).Draw(rt, "op")}
	switch e.op {
	case "map", "lift":
		e.f1 = bGenFn1(rt, "f1")
		e.kids = []*bExpr{p.genExpr(rt, budget-1, maxLen)}
	case "flatMap", "liftM", "flattenMap":
		e.tab = c.genTabNE(rt, "tab", 2)
		e.kids = []*bExpr{p.genExpr(rt, budget-1, maxLen)}
	case "filterMap":
		e.opt = bGenOptFn(rt, "opt")
		e.kids = []*bExpr{p.genExpr(rt, budget-1, maxLen)}
	case "map2", "apMap":
		e.f2 = bGenLin(rt, "f2", 2)
		l := rapid.IntRange(0, budget-1).Draw(rt, "split")
		e.kids = []*bExpr{p.genExpr(rt, l, maxLen), p.genExpr(rt, budget-1-l, maxLen)}
	case "compose":
		e.tab = c.genTabNE(rt, "tab", 2)
		e.tab2 = c.genTabNE(rt, "tab2", 2)
		e.x = kit.TinyInt().Draw(rt, "x")
	case "composePure":
		e.f1 = bGenFn1(rt, "f1")
		e.x = kit.TinyInt().Draw(rt, "x")
	}
	return e
}

func (p *bPkg[M, MM, MF]) evalLib(e *bExpr, fuel *kit.Fuel) M {
	c := p.bCore
	k := func(i int) M { return p.evalLib(e.kids[i], fuel) }
	switch e.op {
	case "leaf":
		return c.build(e.val, 0)
	case "unit":
		return p.units[e.u].f(e.x)
	case "map":
		return p.mapI(k(0), e.f1.lib(fuel))
	case "lift":
		return p.lift(e.f1.lib(fuel))(k(0))
	case "flatMap":
		return p.flatMap(k(0), c.tabLib(e.tab, fuel))
	case "liftM":
		return p.liftM(c.tabLib(e.tab, fuel))(k(0))
	case "flattenMap":
		return p.flatten(p.mapM(k(0), c.tabLib(e.tab, fuel)))
	case "filterMap":
		return p.filterMap(k(0), e.opt.lib(fuel))
	case "map2":
		return p.map2(k(0), k(1), func(x, y int) int { fuel.Use(); return e.f2.call([]int{x, y}) })
	case "apMap":
		tf := p.mapF(k(0), func(x int) fp.Func1[int, int] {
			fuel.Use()
			return func(y int) int { fuel.Use(); return e.f2.call([]int{x, y}) }
		})
		return p.ap(tf, k(1))
	case "compose":
		return p.compose(c.tabLib(e.tab, fuel), c.tabLib(e.tab2, fuel))(e.x)
	case "composePure":
		return p.composePure(e.f1.lib(fuel))(e.x)
	}
	panic("bExpr: unknown op " + e.op)
}

func (p *bPkg[M, MM, MF]) evalRef(e *bExpr) any {
	c := p.bCore
	mo := c.model
	k := func(i int) any { return p.evalRef(e.kids[i]) }
	switch e.op {
	case "leaf":
		return c.lift(e.val, 0)
	case "unit":
		return mo.unit(e.x)
	case "map":
		return bRefMap(mo, k(0), e.f1.ref())
	case "lift":
		return bRefLift(mo, e.f1.ref())(k(0))
	case "flatMap":
		return mo.bind(k(0), c.tabRef(e.tab))
	case "liftM":
		return bRefLiftM(mo, c.tabRef(e.tab))(k(0))
	case "flattenMap":
		return bRefFlatten(mo, bRefMap(mo, k(0), c.tabRef(e.tab)))
	case "filterMap":
		return bRefFilterMap(mo, k(0), e.opt.ref())
	case "map2":
		a, b := k(0), k(1)
		return bRefMap2(mo, a, b, func(x, y any) any { return e.f2.call([]int{x.(int), y.(int)}) })
	case "apMap":
		a, b := k(0), k(1)
		tf := bRefMap(mo, a, func(x any) any {
			return bAnyFn(func(y any) any { return e.f2.call([]int{x.(int), y.(int)}) })
		})
		return bRefAp(mo, tf, b)
	case "compose":
		return bRefCompose(mo, c.tabRef(e.tab), c.tabRef(e.tab2))(e.x)
	case "composePure":
		return bRefComposePure(mo, e.f1.ref())(e.x)
	}
	panic("bExpr: unknown op " + e.op)
}
