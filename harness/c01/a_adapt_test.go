package c01

// Part A of C01: per-package adapters (descriptor -> library value, library value ->
// model), generators of operands / table functions, and the per-case context.

import (
	"fmt"
	"strings"
	"time"

	"github.com/csgura/fp"
	"github.com/csgura/fp/either"
	"github.com/csgura/fp/option"
	"github.com/csgura/fp/statet"
	"github.com/csgura/fp/try"
	"pgregory.net/rapid"

	"verifharness/kit"
)

// aL is the Left payload type used for Either.
type aL int

// aAd describes one effect package for the model side.
type aAd struct {
	name  string
	errOf func(e int) error // error a failing descriptor stands for
	nerr  int               // number of distinct failure payloads
	state bool              // StateT: operands read/write the state, runs on generated initial states
}

var (
	aAdOption = &aAd{name: "option", errOf: func(int) error { return aErrEmpty }, nerr: 1}
	aAdTry    = &aAd{name: "try", errOf: func(e int) error { return kit.Errs[e] }, nerr: 4}
	aAdEither = &aAd{name: "either", errOf: func(e int) error { return aLeftErr(100 + e) }, nerr: 4}
	aAdStateT = &aAd{name: "statet", errOf: func(e int) error { return kit.Errs[e] }, nerr: 4, state: true}
)

// aVal describes one monadic operand: success with payload V or failure number E;
// for StateT additionally how it rewrites the state and whether the payload reads it.
type aVal struct {
	Fail bool
	E    int
	V    int
	SOp  int // 0 keep, 1 s+SK, 2 2*s+SK, 3 put SK
	SK   int
	UseS bool // payload = V + 7*s (s = incoming state)
}

func (d aVal) step(s int) (v int, ns int) {
	v = d.V
	if d.UseS {
		v += 7 * s
	}
	switch d.SOp {
	case 1:
		ns = s + d.SK
	case 2:
		ns = 2*s + d.SK
	case 3:
		ns = d.SK
	default:
		ns = s
	}
	return
}

func (d aVal) String() string {
	var sb strings.Builder
	if d.Fail {
		fmt.Fprintf(&sb, "fail(E%d)", d.E)
	} else if d.UseS {
		fmt.Fprintf(&sb, "ok(%d+7s)", d.V)
	} else {
		fmt.Fprintf(&sb, "ok(%d)", d.V)
	}
	switch d.SOp {
	case 1:
		fmt.Fprintf(&sb, ";s+%d", d.SK)
	case 2:
		fmt.Fprintf(&sb, ";2s+%d", d.SK)
	case 3:
		fmt.Fprintf(&sb, ";put%d", d.SK)
	}
	return sb.String()
}

func (d aVal) plusV(k int) aVal { d.V += k; return d }

// model of an operand whose success payload is pay(v)
func (ad *aAd) model(d aVal, pay func(v int) any) aM {
	return func(s int) (aMV, int) {
		v, ns := d.step(s)
		if d.Fail {
			return aMV{err: ad.errOf(d.E)}, ns
		}
		return aMV{ok: true, val: pay(v)}, ns
	}
}

func aIdAny(v int) any { return v }
func aIdInt(v int) int { return v }
func aInt(v int) any   { return v }

// ---- library constructors -------------------------------------------------------------

func aOptionMk[T any](d aVal, pay func(int) T) fp.Option[T] {
	if d.Fail {
		return option.None[T]()
	}
	return option.Some(pay(d.V))
}

func aTryMk[T any](d aVal, pay func(int) T) fp.Try[T] {
	if d.Fail {
		return try.Failure[T](kit.Errs[d.E])
	}
	return try.Success(pay(d.V))
}

func aEitherMk[T any](d aVal, pay func(int) T) fp.Either[aL, T] {
	if d.Fail {
		return either.Left[aL, T](aL(100 + d.E))
	}
	return either.Right[aL](pay(d.V))
}

func aStateTMk[T any](d aVal, pay func(int) T) fp.StateT[int, T] {
	return func(s int) (fp.Try[T], int) {
		v, ns := d.step(s)
		if d.Fail {
			return try.Failure[T](kit.Errs[d.E]), ns
		}
		return try.Success(pay(v)), ns
	}
}

// the real units
func aOptionPure[T any](v T) fp.Option[T]      { return option.Pure(v) }
func aTryPure[T any](v T) fp.Try[T]            { return try.Pure(v) }
func aEitherPure[T any](v T) fp.Either[aL, T]  { return either.Pure[aL](v) }
func aStateTPure[T any](v T) fp.StateT[int, T] { return statet.Pure[int](v) }

// ---- library value -> model -------------------------------------------------------------

func aOptionMV[T any](m fp.Option[T], conv func(T) any) aMV {
	if m.IsDefined() {
		return aMV{ok: true, val: conv(m.Get())}
	}
	return aMV{err: aErrEmpty}
}

func aTryMV[T any](m fp.Try[T], conv func(T) any) aMV {
	if m.IsSuccess() {
		return aMV{ok: true, val: conv(m.Get())}
	}
	v, err := m.Unapply()
	_ = v
	return aMV{err: err}
}

func aOptionTo[T any](m fp.Option[T], conv func(T) any) aM {
	return func(s int) (aMV, int) { return aOptionMV(m, conv), s }
}

func aTryTo[T any](m fp.Try[T], conv func(T) any) aM {
	return func(s int) (aMV, int) { return aTryMV(m, conv), s }
}

func aEitherTo[T any](m fp.Either[aL, T], conv func(T) any) aM {
	return func(s int) (aMV, int) {
		if m == nil {
			return aMV{err: nil}, s
		}
		if m.IsRight() {
			return aMV{ok: true, val: conv(m.Get())}, s
		}
		return aMV{err: aLeftErr(m.Left())}, s
	}
}

func aStateTTo[T any](m fp.StateT[int, T], conv func(T) any) aM {
	return func(s int) (aMV, int) {
		r, ns := m(s)
		return aTryMV(r, conv), ns
	}
}

// result converters
func aSeqAny(s fp.Seq[int]) any {
	r := []any{}
	for _, x := range s {
		r = append(r, x)
	}
	return r
}
func aSliceAny(s []int) any { return aSeqAny(s) }
func aIterAny(it fp.Iterator[int]) any {
	r := []any{}
	for n := 0; it.HasNext(); n++ {
		if n > 10000 {
			panic(kit.FuelExhausted{What: "result iterator"})
		}
		r = append(r, it.Next())
	}
	return r
}
func aT2Any(t fp.Tuple2[int, int]) any      { return []any{t.I1, t.I2} }
func aT3Any(t fp.Tuple3[int, int, int]) any { return []any{t.I1, t.I2, t.I3} }

// ---- table functions int -> M[int] -----------------------------------------------------

// aKFn: f(x) = row[x mod k]; a success row yields Tab[i] + 3*x.
type aKFn struct {
	F    kit.IntFn
	Rows []aVal
}

func (k aKFn) at(x int) aVal {
	n := len(k.Rows)
	i := ((x % n) + n) % n
	d := k.Rows[i]
	d.V = k.F.Tab[i] + 3*x
	return d
}

func (k aKFn) String() string {
	parts := make([]string, len(k.Rows))
	for i, r := range k.Rows {
		r.V = k.F.Tab[i]
		s := r.String()
		if !r.Fail {
			s = strings.Replace(s, ")", "+3x)", 1)
		}
		parts[i] = s
	}
	return fmt.Sprintf("λx.[%s][x mod %d]", strings.Join(parts, " "), len(k.Rows))
}

func (k aKFn) hasFail() bool {
	for _, r := range k.Rows {
		if r.Fail {
			return true
		}
	}
	return false
}

// ---- generators ----------------------------------------------------------------------------

func aDrawVal(rt *rapid.T, ad *aAd, label string, fail int) aVal {
	// fail: 0 must succeed, 1 must fail, 2 drawn (1 in 3)
	var d aVal
	switch fail {
	case 0:
	case 1:
		d.Fail = true
	default:
		d.Fail = rapid.IntRange(0, 2).Draw(rt, label+".fail") == 0
	}
	if d.Fail {
		if ad.nerr > 1 {
			d.E = rapid.IntRange(0, ad.nerr-1).Draw(rt, label+".err")
		}
	} else {
		d.V = kit.TinyInt().Draw(rt, label+".v")
	}
	if ad.state {
		d.SOp = rapid.IntRange(0, 3).Draw(rt, label+".sop")
		if d.SOp != 0 {
			d.SK = rapid.IntRange(-2, 3).Draw(rt, label+".sk")
		}
		if !d.Fail {
			d.UseS = rapid.Bool().Draw(rt, label+".uses")
		}
	}
	return d
}

// ---- per-case context ----------------------------------------------------------------------

type aCase struct {
	rt    *rapid.T
	rec   *kit.Rec
	ad    *aAd
	sig   string
	fu    *kit.Fuel
	inits []int
	desc  []string
	nt    bool
}

func aBegin(rt *rapid.T, rec *kit.Rec, ad *aAd, sig string) *aCase {
	c := &aCase{rt: rt, rec: rec, ad: ad, sig: sig, fu: kit.NewFuel(20000, "callback calls in "+sig), inits: []int{0}}
	if ad.state {
		c.inits = []int{rapid.IntRange(-3, 8).Draw(rt, "s0"), rapid.IntRange(-3, 8).Draw(rt, "s1")}
		c.desc = append(c.desc, fmt.Sprintf("inits=%v", c.inits))
	}
	return c
}

func (c *aCase) note(label string, v any) {
	c.desc = append(c.desc, fmt.Sprintf("%s=%v", label, v))
}

func (c *aCase) val(label string) aVal {
	d := aDrawVal(c.rt, c.ad, label, 2)
	c.nt = c.nt || d.Fail
	c.note(label, d)
	return d
}

// vals draws n operands with a failure pattern: none / exactly one / exactly two / iid.
func (c *aCase) vals(label string, n int) []aVal {
	if n == 0 {
		return nil
	}
	mode := rapid.IntRange(0, 3).Draw(c.rt, label+".mode")
	f1, f2 := -1, -1
	if mode == 1 || mode == 2 {
		f1 = rapid.IntRange(0, n-1).Draw(c.rt, label+".f1")
	}
	if mode == 2 {
		f2 = rapid.IntRange(0, n-1).Draw(c.rt, label+".f2")
	}
	ds := make([]aVal, n)
	for i := range ds {
		fail := 0
		if mode == 3 {
			fail = 2
		} else if i == f1 || i == f2 {
			fail = 1
		}
		ds[i] = aDrawVal(c.rt, c.ad, fmt.Sprintf("%s%d", label, i+1), fail)
		c.nt = c.nt || ds[i].Fail
	}
	c.note(label, ds)
	return ds
}

func (c *aCase) kfn(label string) aKFn {
	f := kit.IntFnGen().Draw(c.rt, label+".tab")
	k := aKFn{F: f, Rows: make([]aVal, len(f.Tab))}
	for i := range k.Rows {
		d := aDrawVal(c.rt, c.ad, fmt.Sprintf("%s.row%d", label, i), 2)
		d.V = 0
		k.Rows[i] = d
	}
	c.nt = c.nt || k.hasFail()
	c.note(label, k)
	return k
}

func (c *aCase) ifn(label string) kit.IntFn {
	f := kit.IntFnGen().Draw(c.rt, label)
	c.note(label, f)
	return f
}

func (c *aCase) int(label string) int {
	v := kit.TinyInt().Draw(c.rt, label)
	c.note(label, v)
	return v
}

func (c *aCase) ints(label string, n int) []int {
	vs := make([]int, n)
	for i := range vs {
		vs[i] = kit.TinyInt().Draw(c.rt, fmt.Sprintf("%s%d", label, i+1))
	}
	c.note(label, vs)
	return vs
}

func (c *aCase) slice(label string, max int) []int {
	vs := rapid.SliceOfN(kit.TinyInt(), 0, max).Draw(c.rt, label)
	c.note(label, vs)
	return vs
}

func (c *aCase) pick(label string, n int) int {
	v := rapid.IntRange(0, n-1).Draw(c.rt, label)
	c.note(label, v)
	return v
}

// start records the case; call after all draws and before the library is called.
func (c *aCase) start() {
	c.rec.Case(c.nt, c.sig+" "+strings.Join(c.desc, " "))
	if c.nt {
		c.rec.Label("with-failure")
	} else {
		c.rec.Label("all-success")
	}
}

func (c *aCase) guard(f func()) { c.rec.Guard(c.rt, c.sig, f) }

func (c *aCase) run(m aM) aRes { return aRun(m, c.inits) }

func (c *aCase) same(what string, got, want aRes) {
	if !aResEq(got, want) {
		c.rec.Failf(c.rt, c.sig, "%s: library gives %v, reference gives %v; case: %s", what, got, want, strings.Join(c.desc, " "))
	}
}

// model of an int operand / of a table function
func (c *aCase) m(d aVal) aM { return c.ad.model(d, aIdAny) }

func (c *aCase) ms(ds []aVal) []aM {
	r := make([]aM, len(ds))
	for i, d := range ds {
		r[i] = c.m(d)
	}
	return r
}

func (c *aCase) km(k aKFn) func(any) aM {
	return func(x any) aM { return c.m(k.at(x.(int))) }
}

// model of the N-ary effectful callback  (x1..xn) => k(aH(x1..xn))
func (c *aCase) kmN(k aKFn) func(xs []any) aM {
	return func(xs []any) aM { return c.m(k.at(aHAny(xs).(int))) }
}

// aOpt: options of the law / coherence sub-checks: the property demands termination.
func aOpt(weight float64) kit.Opt {
	return kit.Opt{Weight: weight, MinChecks: 8, HangIsViolation: true, HangAfter: 20 * time.Second}
}

const aRuleOperands = "operands drawn per constructor (success(v) | failure/empty/Left(e); StateT: additionally a state rewrite and a state-reading payload, run on 2 generated initial states) with failure patterns none/one/two/iid; table functions int -> M[int] = kit.IntFnGen rows with a per-row failure choice (distinct sentinel errors); N-ary callbacks are the position-sensitive hash 31*h+x; the library result (value | error identity | final state) is compared with the combinator's reference definition over the harness' own unit/bind; non-trivial iff an operand is not a success or a drawn table has a failing row; distinct by printed (combinator, operands, tables)"
