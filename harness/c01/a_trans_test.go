package c01

// Part A of C01: try's SeqT / OptionT transformer functions against the composition of
// the outer model (Try) and an inner model (Seq = list, Option = 0/1 value), plus the few
// hand-written members of option_op.go / try_op.go that the generated family does not cover.

import (
	"fmt"
	"testing"

	"github.com/csgura/fp"
	"github.com/csgura/fp/iterator"
	"github.com/csgura/fp/option"
	"github.com/csgura/fp/ord"
	"github.com/csgura/fp/seq"
	"github.com/csgura/fp/try"
	"pgregory.net/rapid"

	"verifharness/kit"
)

// ---- inner models -----------------------------------------------------------------------

// aInner is the inner monad of a transformer, written in the harness.
type aInner struct {
	unit func(a any) any
	bind func(i any, f func(a any) any) any
	// seq turns an inner structure of outer model values into an outer model value of an inner structure
	seq func(i any) aM
}

// Seq: []any
var aInnerSeq = aInner{
	unit: func(a any) any { return []any{a} },
	bind: func(i any, f func(any) any) any {
		r := []any{}
		for _, x := range i.([]any) {
			r = append(r, f(x).([]any)...)
		}
		return r
	},
	seq: func(i any) aM {
		ms := []aM{}
		for _, x := range i.([]any) {
			ms = append(ms, x.(aM))
		}
		return aRefSequence(ms)
	},
}

// Option: aOV
type aOV struct {
	some bool
	v    any
}

func (o aOV) String() string {
	if o.some {
		return fmt.Sprintf("Some(%v)", o.v)
	}
	return "None"
}

var aInnerOption = aInner{
	unit: func(a any) any { return aOV{some: true, v: a} },
	bind: func(i any, f func(any) any) any {
		o := i.(aOV)
		if !o.some {
			return aOV{}
		}
		return f(o.v)
	},
	seq: func(i any) aM {
		o := i.(aOV)
		if !o.some {
			return aUnit(aOV{})
		}
		return aRefMap(o.v.(aM), func(x any) any { return aOV{some: true, v: x} })
	},
}

// the six transformer functions, written once over the outer unit/bind and the inner monad
func aRefPureT(in aInner, a any) aM { return aUnit(in.unit(a)) }
func aRefLiftT(in aInner, m aM) aM  { return aRefMap(m, in.unit) }
func aRefMapT(in aInner, t aM, f func(any) any) aM {
	return aRefMap(t, func(i any) any { return in.bind(i, func(a any) any { return in.unit(f(a)) }) })
}
func aRefSubFlatMapT(in aInner, t aM, f func(any) any) aM {
	return aRefMap(t, func(i any) any { return in.bind(i, f) })
}
func aRefTraverseT(in aInner, t aM, f func(any) aM) aM {
	return aBind(t, func(i any) aM {
		return in.seq(in.bind(i, func(a any) any { return in.unit(f(a)) }))
	})
}
func aRefFlatMapT(in aInner, t aM, f func(any) aM) aM {
	return aRefMap(aRefTraverseT(in, t, f), func(ii any) any { return in.bind(ii, func(i any) any { return i }) })
}

// ---- conversions ---------------------------------------------------------------------------

func aOptAny(o fp.Option[int]) any {
	if o.IsDefined() {
		return aOV{some: true, v: o.Get()}
	}
	return aOV{}
}
func aBoolAny(b bool) any     { return b }
func aStrAny(s string) any    { return s }
func aOVOf(d aVal, v int) aOV { return aOV{some: !d.Fail, v: d.plusV(v).V}.norm() }
func (o aOV) norm() aOV {
	if !o.some {
		return aOV{}
	}
	return o
}

const aRuleTrans = "outer Try operand drawn per constructor (Success | Failure(errE[i])) whose payload is an inner Seq (0..4 ints) / Option (Some | None); table functions int -> Try / Seq / Option with failing or empty rows; the library result is compared with the composition of the harness' outer model (unit/bind of Try) and inner model (list / 0-1 value); non-trivial iff the outer operand fails, the inner structure is empty, or a table has a failing/empty row; distinct by printed (function, operands, tables)"

const aRuleTransOp = "outer Try operand (Success | Failure(errE[i])) with an inner Seq (0..4 ints) / Option payload and the arguments of the lifted operation; <Op>SeqT / <Op>OptionT is compared with harness-Map (reference unit/bind) of the library's own fp.Seq / fp.Option operation, which is the defining primitive of the lifted function; non-trivial iff the outer operand fails or the inner structure is empty; distinct by printed (function, operand, arguments)"

// aSeqRows: table function int -> Seq[int]: row i is a short list, shifted by x
type aSeqFn struct{ Rows [][]int }

func (f aSeqFn) at(x int) []int {
	n := len(f.Rows)
	return aShift(f.Rows[((x%n)+n)%n], x)
}
func (f aSeqFn) String() string { return fmt.Sprintf("λx.%v[x mod %d]+x", f.Rows, len(f.Rows)) }

func (c *aCase) seqFn(label string) aSeqFn {
	rows := rapid.SliceOfN(rapid.SliceOfN(kit.TinyInt(), 0, 3), 1, 3).Draw(c.rt, label)
	f := aSeqFn{Rows: rows}
	for _, r := range rows {
		if len(r) == 0 {
			c.nt = true
		}
	}
	c.note(label, f)
	return f
}

// draw of an inner option descriptor (uses the Option adapter's generator)
func (c *aCase) oval(label string) aVal {
	d := aDrawVal(c.rt, aAdOption, label, 2)
	c.nt = c.nt || d.Fail
	if d.Fail {
		c.note(label, "None")
	} else {
		c.note(label, fmt.Sprintf("Some(%d)", d.V))
	}
	return d
}

func (c *aCase) okfn(label string) aKFn {
	f := kit.IntFnGen().Draw(c.rt, label+".tab")
	k := aKFn{F: f, Rows: make([]aVal, len(f.Tab))}
	for i := range k.Rows {
		k.Rows[i] = aDrawVal(c.rt, aAdOption, fmt.Sprintf("%s.row%d", label, i), 2)
		k.Rows[i].V = 0
	}
	c.nt = c.nt || k.hasFail()
	c.note(label, k)
	return k
}

func (c *aCase) pred(label string) kit.Pred {
	p := kit.PredGen().Draw(c.rt, label)
	c.note(label, p)
	return p
}

func TestATrySeqT(t *testing.T) {
	ad := aAdTry
	in := aInnerSeq
	type TS = fp.Try[fp.Seq[int]]
	mkS := func(d aVal, xs []int) TS {
		return aTryMk(d, func(v int) fp.Seq[int] { return aShift(xs, v) })
	}
	mS := func(d aVal, xs []int) aM {
		return ad.model(d, func(v int) any { return aSeqAny(aShift(xs, v)) })
	}
	toS := func(m TS) aM { return aTryTo(m, aSeqAny) }
	drawS := func(c *aCase) (aVal, []int) {
		d, xs := c.val("t"), c.slice("xs", 4)
		if len(xs) == 0 {
			c.nt = true
		}
		return d, xs
	}

	kit.Check(t, "try.PureSeqT/ref", aRuleTrans+"; here every case counts as non-trivial (no operand can fail)", aOpt(1.5), func(rt *rapid.T, rec *kit.Rec) {
		c := aBegin(rt, rec, ad, "C01|try.PureSeqT|ref")
		a := c.int("a")
		c.nt = true
		c.start()
		var got aRes
		c.guard(func() { got = c.run(toS(try.PureSeqT(a))) })
		c.same("PureSeqT(a)", got, c.run(aRefPureT(in, a)))
	})
	kit.Check(t, "try.LiftSeqT/ref", aRuleTrans, aOpt(3), func(rt *rapid.T, rec *kit.Rec) {
		c := aBegin(rt, rec, ad, "C01|try.LiftSeqT|ref")
		d := c.val("m")
		c.start()
		var got aRes
		c.guard(func() { got = c.run(toS(try.LiftSeqT(aTryMk(d, aIdInt)))) })
		c.same("LiftSeqT(m)", got, c.run(aRefLiftT(in, c.m(d))))
	})
	kit.Check(t, "try.MapSeqT/ref", aRuleTrans, aOpt(3), func(rt *rapid.T, rec *kit.Rec) {
		c := aBegin(rt, rec, ad, "C01|try.MapSeqT|ref")
		d, xs := drawS(c)
		f := c.ifn("f")
		c.start()
		var got aRes
		c.guard(func() { got = c.run(toS(try.MapSeqT(mkS(d, xs), aPF(c, f)))) })
		c.same("MapSeqT(t,f)", got, c.run(aRefMapT(in, mS(d, xs), aPM(f))))
	})
	kit.Check(t, "try.SubFlatMapSeqT/ref", aRuleTrans, aOpt(3), func(rt *rapid.T, rec *kit.Rec) {
		c := aBegin(rt, rec, ad, "C01|try.SubFlatMapSeqT|ref")
		d, xs := drawS(c)
		f := c.seqFn("f")
		c.start()
		var got aRes
		c.guard(func() {
			got = c.run(toS(try.SubFlatMapSeqT(mkS(d, xs), func(x int) fp.Seq[int] { c.fu.Use(); return f.at(x) })))
		})
		c.same("SubFlatMapSeqT(t,f)", got, c.run(aRefSubFlatMapT(in, mS(d, xs), func(x any) any { return aSeqAny(f.at(x.(int))) })))
	})
	kit.Check(t, "try.TraverseSeqT/ref", aRuleTrans, aOpt(3), func(rt *rapid.T, rec *kit.Rec) {
		c := aBegin(rt, rec, ad, "C01|try.TraverseSeqT|ref")
		d, xs := drawS(c)
		k := c.kfn("f")
		c.start()
		var got aRes
		c.guard(func() {
			got = c.run(toS(try.TraverseSeqT(mkS(d, xs), func(x int) fp.Try[int] { c.fu.Use(); return aTryMk(k.at(x), aIdInt) })))
		})
		c.same("TraverseSeqT(t,f)", got, c.run(aRefTraverseT(in, mS(d, xs), c.km(k))))
	})
	kit.Check(t, "try.FlatMapSeqT/ref", aRuleTrans, aOpt(3), func(rt *rapid.T, rec *kit.Rec) {
		c := aBegin(rt, rec, ad, "C01|try.FlatMapSeqT|ref")
		d, xs := drawS(c)
		k, sf := c.kfn("f"), c.seqFn("fs")
		c.start()
		var got aRes
		c.guard(func() {
			got = c.run(toS(try.FlatMapSeqT(mkS(d, xs), func(x int) TS {
				c.fu.Use()
				return aTryMk(k.at(x), func(v int) fp.Seq[int] { return sf.at(v) })
			})))
		})
		c.same("FlatMapSeqT(t,f)", got, c.run(aRefFlatMapT(in, mS(d, xs), func(x any) aM {
			return ad.model(k.at(x.(int)), func(v int) any { return aSeqAny(sf.at(v)) })
		})))
	})

	// lifted pure operations: <Op>SeqT(t, args) = Map(t, s => s.<Op>(args))
	type args struct {
		p    kit.Pred
		n    int
		item int
		tail []int
		sep  string
		zero int
	}
	seqOp := func(name string, draw func(c *aCase, a *args),
		lib func(c *aCase, m TS, a args) aM, inner func(c *aCase, s fp.Seq[int], a args) any) {
		kit.Check(t, "try."+name+"/ref", aRuleTransOp, aOpt(1.5), func(rt *rapid.T, rec *kit.Rec) {
			c := aBegin(rt, rec, ad, "C01|try."+name+"|ref")
			d, xs := drawS(c)
			var a args
			if draw != nil {
				draw(c, &a)
			}
			c.start()
			var got aRes
			c.guard(func() { got = c.run(lib(c, mkS(d, xs), a)) })
			var want aRes
			c.rec.Guard(c.rt, c.sig+"|inner-op", func() {
				want = c.run(ad.model(d, func(v int) any { return inner(c, fp.Seq[int](aShift(xs, v)), a) }))
			})
			c.same(name, got, want)
		})
	}
	pr := func(c *aCase, a *args) { a.p = c.pred("p") }
	nn := func(c *aCase, a *args) { a.n = rapid.IntRange(0, 5).Draw(c.rt, "n"); c.note("n", a.n) }
	it := func(c *aCase, a *args) { a.item = c.int("item") }
	pc := func(c *aCase, p kit.Pred) func(int) bool { return func(x int) bool { c.fu.Use(); return p.Call(x) } }
	step := func(c *aCase) func(int, int) int { return func(b, x int) int { c.fu.Use(); return aH(b, x) } }
	io := ord.Given[int]()

	seqOp("FilterSeqT", pr, func(c *aCase, m TS, a args) aM { return toS(try.FilterSeqT(m, pc(c, a.p))) },
		func(c *aCase, s fp.Seq[int], a args) any { return aSeqAny(s.Filter(a.p.Call)) })
	seqOp("FilterNotSeqT", pr, func(c *aCase, m TS, a args) aM { return toS(try.FilterNotSeqT(m, pc(c, a.p))) },
		func(c *aCase, s fp.Seq[int], a args) any { return aSeqAny(s.FilterNot(a.p.Call)) })
	seqOp("ExistsSeqT", pr, func(c *aCase, m TS, a args) aM { return aTryTo(try.ExistsSeqT(m, pc(c, a.p)), aBoolAny) },
		func(c *aCase, s fp.Seq[int], a args) any { return s.Exists(a.p.Call) })
	seqOp("ForAllSeqT", pr, func(c *aCase, m TS, a args) aM { return aTryTo(try.ForAllSeqT(m, pc(c, a.p)), aBoolAny) },
		func(c *aCase, s fp.Seq[int], a args) any { return s.ForAll(a.p.Call) })
	seqOp("FindSeqT", pr, func(c *aCase, m TS, a args) aM { return aTryTo(try.FindSeqT(m, pc(c, a.p)), aOptAny) },
		func(c *aCase, s fp.Seq[int], a args) any { return aOptAny(s.Find(a.p.Call)) })
	seqOp("AddSeqT", it, func(c *aCase, m TS, a args) aM { return toS(try.AddSeqT(m, a.item)) },
		func(c *aCase, s fp.Seq[int], a args) any { return aSeqAny(s.Add(a.item)) })
	seqOp("AppendSeqT", it, func(c *aCase, m TS, a args) aM { return toS(try.AppendSeqT(m, a.item)) },
		func(c *aCase, s fp.Seq[int], a args) any { return aSeqAny(s.Append(a.item)) })
	seqOp("ConcatSeqT", func(c *aCase, a *args) { a.tail = c.slice("tail", 3) },
		func(c *aCase, m TS, a args) aM { return toS(try.ConcatSeqT(m, fp.Seq[int](aShift(a.tail, 0)))) },
		func(c *aCase, s fp.Seq[int], a args) any { return aSeqAny(s.Concat(fp.Seq[int](aShift(a.tail, 0)))) })
	seqOp("DropSeqT", nn, func(c *aCase, m TS, a args) aM { return toS(try.DropSeqT(m, a.n)) },
		func(c *aCase, s fp.Seq[int], a args) any { return aSeqAny(s.Drop(a.n)) })
	seqOp("TakeSeqT", nn, func(c *aCase, m TS, a args) aM { return toS(try.TakeSeqT(m, a.n)) },
		func(c *aCase, s fp.Seq[int], a args) any { return aSeqAny(s.Take(a.n)) })
	seqOp("GetSeqT", nn, func(c *aCase, m TS, a args) aM { return aTryTo(try.GetSeqT(m, a.n), aOptAny) },
		func(c *aCase, s fp.Seq[int], a args) any { return aOptAny(s.Get(a.n)) })
	seqOp("HeadSeqT", nil, func(c *aCase, m TS, a args) aM { return aTryTo(try.HeadSeqT(m), aOptAny) },
		func(c *aCase, s fp.Seq[int], a args) any { return aOptAny(s.Head()) })
	seqOp("LastSeqT", nil, func(c *aCase, m TS, a args) aM { return aTryTo(try.LastSeqT(m), aOptAny) },
		func(c *aCase, s fp.Seq[int], a args) any { return aOptAny(s.Last()) })
	seqOp("TailSeqT", nil, func(c *aCase, m TS, a args) aM { return toS(try.TailSeqT(m)) },
		func(c *aCase, s fp.Seq[int], a args) any { return aSeqAny(s.Tail()) })
	seqOp("InitSeqT", nil, func(c *aCase, m TS, a args) aM { return toS(try.InitSeqT(m)) },
		func(c *aCase, s fp.Seq[int], a args) any { return aSeqAny(s.Init()) })
	seqOp("ReverseSeqT", nil, func(c *aCase, m TS, a args) aM { return toS(try.ReverseSeqT(m)) },
		func(c *aCase, s fp.Seq[int], a args) any { return aSeqAny(s.Reverse()) })
	seqOp("IsEmptySeqT", nil, func(c *aCase, m TS, a args) aM { return aTryTo(try.IsEmptySeqT(m), aBoolAny) },
		func(c *aCase, s fp.Seq[int], a args) any { return s.IsEmpty() })
	seqOp("NonEmptySeqT", nil, func(c *aCase, m TS, a args) aM { return aTryTo(try.NonEmptySeqT(m), aBoolAny) },
		func(c *aCase, s fp.Seq[int], a args) any { return s.NonEmpty() })
	seqOp("SizeSeqT", nil, func(c *aCase, m TS, a args) aM { return aTryTo(try.SizeSeqT(m), aInt) },
		func(c *aCase, s fp.Seq[int], a args) any { return s.Size() })
	seqOp("MakeStringSeqT", func(c *aCase, a *args) {
		a.sep = rapid.SampledFrom([]string{"", ",", "--"}).Draw(c.rt, "sep")
		c.note("sep", fmt.Sprintf("%q", a.sep))
	}, func(c *aCase, m TS, a args) aM { return aTryTo(try.MakeStringSeqT(m, a.sep), aStrAny) },
		func(c *aCase, s fp.Seq[int], a args) any { return s.MakeString(a.sep) })
	seqOp("FoldSeqT", func(c *aCase, a *args) { a.zero = c.int("zero") },
		func(c *aCase, m TS, a args) aM { return aTryTo(try.FoldSeqT(m, a.zero, step(c)), aInt) },
		func(c *aCase, s fp.Seq[int], a args) any { return seq.Fold(s, a.zero, step(c)) })
	seqOp("ScanSeqT", func(c *aCase, a *args) { a.zero = c.int("zero") },
		func(c *aCase, m TS, a args) aM { return toS(try.ScanSeqT(m, a.zero, step(c))) },
		func(c *aCase, s fp.Seq[int], a args) any { return aSeqAny(seq.Scan(s, a.zero, step(c))) })
	seqOp("SortSeqT", nil, func(c *aCase, m TS, a args) aM { return toS(try.SortSeqT(m, io)) },
		func(c *aCase, s fp.Seq[int], a args) any { return aSeqAny(seq.Sort(s, io)) })
	seqOp("MinSeqT", nil, func(c *aCase, m TS, a args) aM { return aTryTo(try.MinSeqT(m, io), aOptAny) },
		func(c *aCase, s fp.Seq[int], a args) any { return aOptAny(seq.Min(s, io)) })
	seqOp("MaxSeqT", nil, func(c *aCase, m TS, a args) aM { return aTryTo(try.MaxSeqT(m, io), aOptAny) },
		func(c *aCase, s fp.Seq[int], a args) any { return aOptAny(seq.Max(s, io)) })
}

func TestATryOptionT(t *testing.T) {
	ad := aAdTry
	in := aInnerOption
	type TO = fp.Try[fp.Option[int]]
	mkO := func(d, di aVal) TO {
		return aTryMk(d, func(v int) fp.Option[int] { return aOptionMk(di.plusV(v), aIdInt) })
	}
	mO := func(d, di aVal) aM {
		return ad.model(d, func(v int) any { return aOVOf(di, v) })
	}
	toO := func(m TO) aM { return aTryTo(m, aOptAny) }
	drawO := func(c *aCase) (aVal, aVal) { return c.val("t"), c.oval("inner") }

	kit.Check(t, "try.PureOptionT/ref", aRuleTrans+"; here every case counts as non-trivial (no operand can fail)", aOpt(1.5), func(rt *rapid.T, rec *kit.Rec) {
		c := aBegin(rt, rec, ad, "C01|try.PureOptionT|ref")
		a := c.int("a")
		c.nt = true
		c.start()
		var got aRes
		c.guard(func() { got = c.run(toO(try.PureOptionT(a))) })
		c.same("PureOptionT(a)", got, c.run(aRefPureT(in, a)))
	})
	kit.Check(t, "try.LiftOptionT/ref", aRuleTrans, aOpt(3), func(rt *rapid.T, rec *kit.Rec) {
		c := aBegin(rt, rec, ad, "C01|try.LiftOptionT|ref")
		d := c.val("m")
		c.start()
		var got aRes
		c.guard(func() { got = c.run(toO(try.LiftOptionT(aTryMk(d, aIdInt)))) })
		c.same("LiftOptionT(m)", got, c.run(aRefLiftT(in, c.m(d))))
	})
	kit.Check(t, "try.MapOptionT/ref", aRuleTrans, aOpt(3), func(rt *rapid.T, rec *kit.Rec) {
		c := aBegin(rt, rec, ad, "C01|try.MapOptionT|ref")
		d, di := drawO(c)
		f := c.ifn("f")
		c.start()
		var got aRes
		c.guard(func() { got = c.run(toO(try.MapOptionT(mkO(d, di), aPF(c, f)))) })
		c.same("MapOptionT(t,f)", got, c.run(aRefMapT(in, mO(d, di), aPM(f))))
	})
	kit.Check(t, "try.SubFlatMapOptionT/ref", aRuleTrans, aOpt(3), func(rt *rapid.T, rec *kit.Rec) {
		c := aBegin(rt, rec, ad, "C01|try.SubFlatMapOptionT|ref")
		d, di := drawO(c)
		k := c.okfn("f")
		c.start()
		var got aRes
		c.guard(func() {
			got = c.run(toO(try.SubFlatMapOptionT(mkO(d, di), func(x int) fp.Option[int] { c.fu.Use(); return aOptionMk(k.at(x), aIdInt) })))
		})
		c.same("SubFlatMapOptionT(t,f)", got, c.run(aRefSubFlatMapT(in, mO(d, di), func(x any) any { return aOVOf(k.at(x.(int)), 0) })))
	})
	kit.Check(t, "try.TraverseOptionT/ref", aRuleTrans, aOpt(3), func(rt *rapid.T, rec *kit.Rec) {
		c := aBegin(rt, rec, ad, "C01|try.TraverseOptionT|ref")
		d, di := drawO(c)
		k := c.kfn("f")
		c.start()
		var got aRes
		c.guard(func() {
			got = c.run(toO(try.TraverseOptionT(mkO(d, di), func(x int) fp.Try[int] { c.fu.Use(); return aTryMk(k.at(x), aIdInt) })))
		})
		c.same("TraverseOptionT(t,f)", got, c.run(aRefTraverseT(in, mO(d, di), c.km(k))))
	})
	kit.Check(t, "try.FlatMapOptionT/ref", aRuleTrans, aOpt(3), func(rt *rapid.T, rec *kit.Rec) {
		c := aBegin(rt, rec, ad, "C01|try.FlatMapOptionT|ref")
		d, di := drawO(c)
		k, ko := c.kfn("f"), c.okfn("fo")
		c.start()
		var got aRes
		c.guard(func() {
			got = c.run(toO(try.FlatMapOptionT(mkO(d, di), func(x int) TO {
				c.fu.Use()
				return aTryMk(k.at(x), func(v int) fp.Option[int] { return aOptionMk(ko.at(v), aIdInt) })
			})))
		})
		c.same("FlatMapOptionT(t,f)", got, c.run(aRefFlatMapT(in, mO(d, di), func(x any) aM {
			return ad.model(k.at(x.(int)), func(v int) any { return aOVOf(ko.at(v), 0) })
		})))
	})
	kit.Check(t, "try.TraverseOption/ref", aRuleTrans, aOpt(3), func(rt *rapid.T, rec *kit.Rec) {
		c := aBegin(rt, rec, ad, "C01|try.TraverseOption|ref")
		di, k := c.oval("opt"), c.kfn("f")
		c.start()
		var got aRes
		c.guard(func() {
			got = c.run(toO(try.TraverseOption(aOptionMk(di, aIdInt), func(x int) fp.Try[int] { c.fu.Use(); return aTryMk(k.at(x), aIdInt) })))
		})
		c.same("TraverseOption(opt,f)", got, c.run(aRefTraverseT(in, aUnit(aOVOf(di, 0)), c.km(k))))
	})

	// lifted pure operations: <Op>OptionT(t, args) = Map(t, o => o.<Op>(args))
	optOp := func(name string, draw func(c *aCase) any,
		lib func(c *aCase, m TO, a any) aM, inner func(c *aCase, o fp.Option[int], a any) any) {
		kit.Check(t, "try."+name+"/ref", aRuleTransOp, aOpt(1.5), func(rt *rapid.T, rec *kit.Rec) {
			c := aBegin(rt, rec, ad, "C01|try."+name+"|ref")
			d, di := drawO(c)
			var a any
			if draw != nil {
				a = draw(c)
			}
			c.start()
			var got aRes
			c.guard(func() { got = c.run(lib(c, mkO(d, di), a)) })
			var want aRes
			c.rec.Guard(c.rt, c.sig+"|inner-op", func() {
				want = c.run(ad.model(d, func(v int) any { return inner(c, aOptionMk(di.plusV(v), aIdInt), a) }))
			})
			c.same(name, got, want)
		})
	}
	drawInt := func(c *aCase) any { return c.int("arg") }
	drawOpt := func(c *aCase) any { return c.oval("arg") }
	sup := func(c *aCase, v int) func() int { return func() int { c.fu.Use(); return v } }
	optOp("FilterOptionT", func(c *aCase) any { return c.pred("p") },
		func(c *aCase, m TO, a any) aM {
			return toO(try.FilterOptionT(m, func(x int) bool { c.fu.Use(); return a.(kit.Pred).Call(x) }))
		},
		func(c *aCase, o fp.Option[int], a any) any { return aOptAny(o.Filter(a.(kit.Pred).Call)) })
	optOp("OrElseOptionT", drawInt,
		func(c *aCase, m TO, a any) aM { return aTryTo(try.OrElseOptionT(m, a.(int)), aInt) },
		func(c *aCase, o fp.Option[int], a any) any { return o.OrElse(a.(int)) })
	optOp("OrZeroOptionT", nil,
		func(c *aCase, m TO, a any) aM { return aTryTo(try.OrZeroOptionT(m), aInt) },
		func(c *aCase, o fp.Option[int], a any) any { return o.OrZero() })
	optOp("OrElseGetOptionT", drawInt,
		func(c *aCase, m TO, a any) aM { return aTryTo(try.OrElseGetOptionT(m, sup(c, a.(int))), aInt) },
		func(c *aCase, o fp.Option[int], a any) any { return o.OrElseGet(sup(c, a.(int))) })
	optOp("OrOptionT", drawOpt,
		func(c *aCase, m TO, a any) aM {
			return toO(try.OrOptionT(m, func() fp.Option[int] { c.fu.Use(); return aOptionMk(a.(aVal), aIdInt) }))
		},
		func(c *aCase, o fp.Option[int], a any) any {
			return aOptAny(o.Or(func() fp.Option[int] { return aOptionMk(a.(aVal), aIdInt) }))
		})
	optOp("OrOptionOptionT", drawOpt,
		func(c *aCase, m TO, a any) aM { return toO(try.OrOptionOptionT(m, aOptionMk(a.(aVal), aIdInt))) },
		func(c *aCase, o fp.Option[int], a any) any { return aOptAny(o.OrOption(aOptionMk(a.(aVal), aIdInt))) })
	ptrOf := func(d aVal) *int {
		if d.Fail {
			return nil
		}
		v := d.V
		return &v
	}
	optOp("OrPtrOptionT", drawOpt,
		func(c *aCase, m TO, a any) aM { return toO(try.OrPtrOptionT(m, ptrOf(a.(aVal)))) },
		func(c *aCase, o fp.Option[int], a any) any { return aOptAny(o.OrPtr(ptrOf(a.(aVal)))) })
	optOp("RecoverOptionT", drawInt,
		func(c *aCase, m TO, a any) aM { return toO(try.RecoverOptionT(m, sup(c, a.(int)))) },
		func(c *aCase, o fp.Option[int], a any) any { return aOptAny(o.Recover(sup(c, a.(int)))) })
	optOp("FoldOptionT", drawInt,
		func(c *aCase, m TO, a any) aM {
			return aTryTo(try.FoldOptionT(m, a.(int), func(b, x int) int { c.fu.Use(); return aH(b, x) }), aInt)
		},
		func(c *aCase, o fp.Option[int], a any) any {
			return option.Fold(o, a.(int), func(b, x int) int { return aH(b, x) })
		})
}

// hand-written members of option_op.go / try_op.go outside the generated files
func TestAHandWritten(t *testing.T) {
	kit.Check(t, "option.ComposePure/ref", aRuleOperands+"; here: ComposePure(f)(a) = unit(f(a)); every case counts as non-trivial (cannot fail)", aOpt(1.5), func(rt *rapid.T, rec *kit.Rec) {
		c := aBegin(rt, rec, aAdOption, "C01|option.ComposePure|ref")
		a, f := c.int("a"), c.ifn("f")
		c.nt = true
		c.start()
		var g0, g1, g2 aRes
		c.guard(func() {
			g0 = c.run(aOptionTo(option.ComposePure(aPF(c, f))(a), aInt))
			g1 = c.run(aOptionTo(option.Pure1(aPF(c, f))(a), aInt))
			g2 = c.run(aOptionTo(option.Pure0(func() int { c.fu.Use(); return f.Call(a) })(fp.Unit{}), aInt))
		})
		want := c.run(aUnit(f.Call(a)))
		c.same("option.ComposePure(f)(a)", g0, want)
		c.same("option.Pure1(f)(a)", g1, want)
		c.same("option.Pure0(f)(unit)", g2, want)
	})
	kit.Check(t, "try.ComposePure/ref", aRuleOperands+"; here: ComposePure(f)(a) = unit(f(a)), Pure0(f)() = unit(f()); every case counts as non-trivial (cannot fail)", aOpt(1.5), func(rt *rapid.T, rec *kit.Rec) {
		c := aBegin(rt, rec, aAdTry, "C01|try.ComposePure|ref")
		a, f := c.int("a"), c.ifn("f")
		c.nt = true
		c.start()
		var g0, g2 aRes
		c.guard(func() {
			g0 = c.run(aTryTo(try.ComposePure(aPF(c, f))(a), aInt))
			g2 = c.run(aTryTo(try.Pure0(func() int { c.fu.Use(); return f.Call(a) })(fp.Unit{}), aInt))
		})
		want := c.run(aUnit(f.Call(a)))
		c.same("try.ComposePure(f)(a)", g0, want)
		c.same("try.Pure0(f)(unit)", g2, want)
	})
	kit.Check(t, "try.Func0/ref", aRuleFunc, aOpt(1.5), func(rt *rapid.T, rec *kit.Rec) {
		c := aBegin(rt, rec, aAdTry, "C01|try.Func0|ref")
		d := c.val("row")
		c.start()
		var g0, g1 aRes
		c.guard(func() {
			g0 = c.run(aTryTo(try.Func0(func() (int, error) { c.fu.Use(); return aRetErr(d) })(fp.Unit{}), aInt))
			g1 = c.run(aTryTo(try.Unit0(func() error { c.fu.Use(); _, err := aRetErr(d); return err })(fp.Unit{}), aUnitAny))
		})
		c.same("try.Func0(f)(unit)", g0, c.run(c.m(d)))
		c.same("try.Unit0(f)(unit)", g1, c.run(aRefReplace(c.m(d), "unit")))
	})
	kit.Check(t, "try.ComposeOption/ref", aRuleOperands+"; here: ComposeOption(f1,f2)(a) = FlatMap(FromOption(f1(a)), f2), None becomes Failure(fp.ErrOptionEmpty)", aOpt(3), func(rt *rapid.T, rec *kit.Rec) {
		c := aBegin(rt, rec, aAdTry, "C01|try.ComposeOption|ref")
		a, ko, k := c.int("a"), c.okfn("f1"), c.kfn("f2")
		c.start()
		var got aRes
		c.guard(func() {
			got = c.run(aTryTo(try.ComposeOption(
				func(x int) fp.Option[int] { c.fu.Use(); return aOptionMk(ko.at(x), aIdInt) },
				func(x int) fp.Try[int] { c.fu.Use(); return aTryMk(k.at(x), aIdInt) })(a), aInt))
		})
		first := func(x any) aM {
			d := ko.at(x.(int))
			if d.Fail {
				return aFail(fp.ErrOptionEmpty)
			}
			return aUnit(d.V)
		}
		c.same("ComposeOption(f1,f2)(a)", got, c.run(aRefCompose(first, c.km(k))(a)))
	})
	kit.Check(t, "try.Traverse_/ref", aRuleOperands+"; here: Traverse_(xs,f) returns the error of Traverse(xs,f), nil if it succeeds; input sequence of 0..5 ints", aOpt(3), func(rt *rapid.T, rec *kit.Rec) {
		c := aBegin(rt, rec, aAdTry, "C01|try.Traverse_|ref")
		xs, k := c.slice("xs", 5), c.kfn("f")
		c.start()
		var err error
		c.guard(func() {
			err = try.Traverse_(iterator.FromSeq(xs), func(x int) fp.Try[int] { c.fu.Use(); return aTryMk(k.at(x), aIdInt) })
		})
		want, _ := aRefTraverse(aAnys(xs), c.km(k))(0)
		got := aMV{ok: err == nil, err: err}
		if got.ok != want.ok || (!got.ok && !aMVEq(got, aMV{err: want.err})) {
			c.rec.Failf(c.rt, c.sig, "Traverse_(%v, f) returned error %v, reference traverse gives %v", xs, err, want)
		}
	})
}

// aPF: library side of a pure table function (fuelled)
func aPF(c *aCase, f kit.IntFn) func(int) int {
	return func(x int) int { c.fu.Use(); return f.Call(x) }
}
