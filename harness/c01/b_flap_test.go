package c01

// Flap* / FlapMap / Method* sub-checks shared by list and iterator (arity glue is supplied by
// the caller because Go cannot abstract over the curried function types).

import (
	"fmt"
	"testing"

	"pgregory.net/rapid"

	"verifharness/kit"
)

// bCheckFlapN: TF = M[curried n-ary function]; call applies Flap<n>(tf) to the n arguments.
func bCheckFlapN[M, TF any](t *testing.T, c *bCore[M], name string, n int,
	genOuter func(rt *rapid.T, label string) int,
	buildTF func(outer int, fs []bLinFn, fuel *kit.Fuel) TF,
	call func(tf TF, args []int) M) {
	t.Helper()
	full := c.name + "." + name
	kit.Check(t, full+"/ref",
		fmt.Sprintf("a value of 0..4 curried position-sensitive %d-ary functions built directly (outer construction kind drawn) and %d int arguments; %s(tf)(a1)..(a%d) against bind(tf, f => unit(f a1 .. a%d)); non-trivial iff tf is empty or holds >= 2 functions; distinct by printed (kind, coefficient vectors, arguments)", n, n, name, n, n),
		bOpt, func(rt *rapid.T, rec *kit.Rec) {
			outer := genOuter(rt, "outer")
			k := rapid.IntRange(0, 4).Draw(rt, "n")
			fs := []bLinFn{}
			for i := 0; i < k; i++ {
				fs = append(fs, bGenLin(rt, "f", n))
			}
			args := rapid.SliceOfN(kit.TinyInt(), n, n).Draw(rt, "args")
			rec.Case(k == 0 || k >= 2, fmt.Sprintf("o%d%v|%v", outer, fs, args))
			rec.Label(fmt.Sprintf("fns=%d", k))
			c.expect(rt, rec, "C01|"+full+"|ref", fmt.Sprintf("%s(o%d%v)%v", full, outer, fs, args),
				func() any {
					items := []any{}
					for _, f := range fs {
						items = append(items, f.call)
					}
					return bRefFlapN(c.model, c.model.wrap(items), args)
				},
				func(fuel *kit.Fuel) M { return call(buildTF(outer, fs, fuel), args) })
		})
}

// bCheckMethodN: f has `arity` parameters, the first one is fed from m, the others are given.
// Method1/FlapMap: arity 2; Method2 and Method3: arity 3; MethodN (N>=3): arity N.
func bCheckMethodN[M any](t *testing.T, c *bCore[M], name string, arity int,
	call func(m M, f bLinFn, fuel *kit.Fuel, rest []int) M) {
	t.Helper()
	full := c.name + "." + name
	kit.Check(t, full+"/ref",
		fmt.Sprintf("an operand of every construction kind (length 0..%d), a position-sensitive %d-ary function and %d int arguments; %s against bind(m, a1 => unit(f a1 a2 ..)); %s; distinct by printed (operand, coefficients, arguments)", c.maxLen, arity, arity-1, name, c.ntRule),
		bOpt, func(rt *rapid.T, rec *kit.Rec) {
			m := c.genVal(rt, "m", c.maxLen)
			f := bGenLin(rt, "f", arity)
			rest := rapid.SliceOfN(kit.TinyInt(), arity-1, arity-1).Draw(rt, "rest")
			rec.Case(c.nt(bVals(m)), fmt.Sprintf("%s|%s|%v", m, f, rest))
			rec.Label(fmt.Sprintf("len=%d", len(m.Xs)))
			c.expect(rt, rec, "C01|"+full+"|ref", fmt.Sprintf("%s(%s, %s)%v", full, m, f, rest),
				func() any { return bRefMethodN(c.model, c.lift(m, 0), f.call, rest) },
				func(fuel *kit.Fuel) M { return call(c.build(m, 0), f, fuel, rest) })
		})
}
