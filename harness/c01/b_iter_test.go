package c01

import (
	"fmt"
	"testing"

	"github.com/csgura/fp"
	"github.com/csgura/fp/iterator"
	"pgregory.net/rapid"

	"verifharness/kit"
)

// Iterator values are ONE-SHOT. The reference is the cursor model (b_model_test.go): the
// reference definitions are evaluated over shared cursors, so e.g. Map2(a, b, f) / Ap(tf, m) are
// EXPECTED to find their second operand drained after the first element of the first operand,
// exactly as their definitions over FlatMap imply (modelled faithfully, not excluded). Every
// library value is built fresh for each use and every generated leaf is used exactly once.

// bMkIter: 0 FromSeq, 1 FromList(cons cells), 2 FromSlice (ints: iterator.Range, see build),
// 3 Concat of two pieces with an empty piece in between, 4 iterator.Of, 5 ReverseSeq of the
// reversed slice, 6 FromList(lazy list.Generate), 7 Empty / FromOption / iterator.Concat(head, tail).
func bMkIter[T any](kind int, xs []T) fp.Iterator[T] {
	switch kind {
	case 0:
		return iterator.FromSeq(xs)
	case 1:
		return iterator.FromList(bMkList(1, xs))
	case 2:
		return iterator.FromSlice(xs)
	case 3:
		h := (len(xs) + 1) / 2
		return iterator.FromSeq(xs[:h]).Concat(iterator.Empty[T]()).Concat(iterator.FromSeq(xs[h:]))
	case 4:
		return iterator.Of(xs...)
	case 5:
		r := make([]T, len(xs))
		for i, x := range xs {
			r[len(xs)-1-i] = x
		}
		return iterator.ReverseSeq(r)
	case 6:
		return iterator.FromList(bMkList(2, xs))
	default:
		switch len(xs) {
		case 0:
			return iterator.Empty[T]()
		case 1:
			return iterator.FromOption(fp.Some(xs[0]))
		}
		return iterator.Concat(xs[0], iterator.FromSeq(xs[1:]))
	}
}

const bIterKinds = 8

// bDrainIter: HasNext/Next loop; ok=false when more than limit elements come out.
func bDrainIter[T any](it fp.Iterator[T], limit int) ([]T, bool) {
	out := []T{}
	for it.HasNext() {
		if len(out) >= limit {
			return out, false
		}
		out = append(out, it.Next())
	}
	return out, true
}

func bIterCore() *bCore[fp.Iterator[int]] {
	return &bCore[fp.Iterator[int]]{
		name: "iterator", model: bCurM, maxLen: 5,
		genVal: func(rt *rapid.T, label string, maxLen int) bVal {
			k := rapid.IntRange(0, bIterKinds-1).Draw(rt, label+".kind")
			if k == 2 { // Range: consecutive ints
				from := kit.TinyInt().Draw(rt, label+".from")
				n := rapid.IntRange(0, maxLen).Draw(rt, label+".n")
				xs := []int{}
				for i := 0; i < n; i++ {
					xs = append(xs, from+i)
				}
				return bVal{K: 2, Xs: xs}
			}
			return bVal{K: k, Xs: bGenXs(rt, label, 0, maxLen)}
		},
		build: func(v bVal, s int) fp.Iterator[int] {
			xs := v.shifted(s)
			if v.K == 2 {
				if len(xs) == 0 {
					return iterator.Range(3, 3)
				}
				return iterator.Range(xs[0], xs[0]+len(xs))
			}
			return bMkIter(v.K, xs)
		},
		fixup: func(v bVal) bVal {
			if v.K == 2 {
				for i := range v.Xs {
					v.Xs[i] = v.Xs[0] + i
				}
			}
			return v
		},
		lift:    func(v bVal, s int) any { return bCurM.wrap(bAnys(v.shifted(s))) },
		observe: func(m fp.Iterator[int], limit int) ([]int, bool) { return bDrainIter(m, limit) },
		ntVal:   bSeqLikeNT, ntRule: bSeqLikeRule,
	}
}

func TestBIterator(t *testing.T) {
	c := bIterCore()
	type M = fp.Iterator[int]
	type MF = fp.Iterator[fp.Func1[int, int]]
	genOuter := func(rt *rapid.T, label string) int { return rapid.IntRange(0, bIterKinds-1).Draw(rt, label) }
	p := &bPkg[M, fp.Iterator[M], MF]{
		bCore:       c,
		units:       []bUnit[M]{{"Of", func(x int) M { return iterator.Of(x) }}},
		flatMapName: "FlatMap",
		flatMap:     func(m M, f func(int) M) M { return iterator.FlatMap(m, f) },
		mapI:        func(m M, f func(int) int) M { return iterator.Map(m, f) },
		map2:        func(a, b M, f func(int, int) int) M { return iterator.Map2(a, b, f) },
		mapM:        func(m M, f func(int) M) fp.Iterator[M] { return iterator.Map(m, f) },
		flatten:     func(mm fp.Iterator[M]) M { return iterator.Flatten(mm) },
		mapF:        func(m M, f func(int) fp.Func1[int, int]) MF { return iterator.Map(m, f) },
		ap:          func(tf MF, m M) M { return iterator.Ap(tf, m) },
		lift:        func(f func(int) int) func(M) M { return iterator.Lift(f) },
		compose:     func(f, g func(int) M) func(int) M { return iterator.Compose(f, g) },
		composePure: func(f func(int) int) func(int) M { return iterator.ComposePure(f) },
		filterMap:   func(m M, f func(int) fp.Option[int]) M { return iterator.FilterMap(m, f) },
		genOuter:    genOuter,
		outerMin:    0, outerMax: 4,
		buildMM: func(o int, inner []M) fp.Iterator[M] { return bMkIter(o, inner) },
		buildMF: func(o int, fs []fp.Func1[int, int]) MF { return bMkIter(o, fs) },
	}
	bRunPkg(t, p)

	tail := "; " + c.ntRule + "; distinct by printed inputs"

	// the methods of fp.Iterator are a second FlatMap/Map pair
	kit.Check(t, "iterator.method.FlatMap/ref", "Iterator.FlatMap method against the harness' bind (cursor model)"+tail, bOpt, func(rt *rapid.T, rec *kit.Rec) {
		m := c.genVal(rt, "m", c.maxLen)
		f := c.genTab(rt, "f", c.maxLen)
		rec.Case(c.nt(bVals(m), f), fmt.Sprintf("%s|%s", m, f))
		c.expect(rt, rec, "C01|iterator.method.FlatMap|ref", fmt.Sprintf("%s.FlatMap(%s)", m, f),
			func() any { return bCurM.bind(c.lift(m, 0), c.tabRef(f)) },
			func(fuel *kit.Fuel) M { return c.build(m, 0).FlatMap(c.tabLib(f, fuel)) })
	})
	kit.Check(t, "iterator.method.Map/def", "Iterator.Map method against bind(m, x => unit(f x)) and against m.FlatMap(Of∘f)"+tail, bOpt, func(rt *rapid.T, rec *kit.Rec) {
		m := c.genVal(rt, "m", c.maxLen)
		f := bGenFn1(rt, "f")
		rec.Case(c.nt(bVals(m)), fmt.Sprintf("%s|%s", m, f))
		ref := func() any { return bRefMap(bCurM, c.lift(m, 0), f.ref()) }
		c.expect(rt, rec, "C01|iterator.method.Map|def", fmt.Sprintf("%s.Map(%s)", m, f), ref,
			func(fuel *kit.Fuel) M { return c.build(m, 0).Map(f.lib(fuel)) })
		c.expect(rt, rec, "C01|iterator.method.Map|def", fmt.Sprintf("%s.FlatMap(Of∘%s)", m, f), ref,
			func(fuel *kit.Fuel) M {
				return c.build(m, 0).FlatMap(func(x int) M { return iterator.Of(f.lib(fuel)(x)) })
			})
	})

	// Flap family. tf is an iterator of curried functions.
	bCheckFlapN(t, c, "Flap", 1, genOuter,
		func(o int, fs []bLinFn, fuel *kit.Fuel) fp.Iterator[bC1] {
			xs := []bC1{}
			for _, f := range fs {
				xs = append(xs, bMkC1(f.C[1:], f.C[0], fuel))
			}
			return bMkIter(o, xs)
		},
		func(tf fp.Iterator[bC1], a []int) M { return iterator.Flap(tf)(a[0]) })
	bCheckFlapN(t, c, "Flap2", 2, genOuter,
		func(o int, fs []bLinFn, fuel *kit.Fuel) fp.Iterator[bC2] {
			xs := []bC2{}
			for _, f := range fs {
				xs = append(xs, bMkC2(f.C[1:], f.C[0], fuel))
			}
			return bMkIter(o, xs)
		},
		func(tf fp.Iterator[bC2], a []int) M { return iterator.Flap2(tf)(a[0])(a[1]) })
	bCheckFlapN(t, c, "Flap3", 3, genOuter,
		func(o int, fs []bLinFn, fuel *kit.Fuel) fp.Iterator[bC3] {
			xs := []bC3{}
			for _, f := range fs {
				xs = append(xs, bMkC3(f.C[1:], f.C[0], fuel))
			}
			return bMkIter(o, xs)
		},
		func(tf fp.Iterator[bC3], a []int) M { return iterator.Flap3(tf)(a[0])(a[1])(a[2]) })
	bCheckFlapN(t, c, "Flap4", 4, genOuter,
		func(o int, fs []bLinFn, fuel *kit.Fuel) fp.Iterator[bC4] {
			xs := []bC4{}
			for _, f := range fs {
				xs = append(xs, bMkC4(f.C[1:], f.C[0], fuel))
			}
			return bMkIter(o, xs)
		},
		func(tf fp.Iterator[bC4], a []int) M { return iterator.Flap4(tf)(a[0])(a[1])(a[2])(a[3]) })
	bCheckFlapN(t, c, "Flap5", 5, genOuter,
		func(o int, fs []bLinFn, fuel *kit.Fuel) fp.Iterator[bC5] {
			xs := []bC5{}
			for _, f := range fs {
				xs = append(xs, bMkC5(f.C[1:], f.C[0], fuel))
			}
			return bMkIter(o, xs)
		},
		func(tf fp.Iterator[bC5], a []int) M { return iterator.Flap5(tf)(a[0])(a[1])(a[2])(a[3])(a[4]) })
	bCheckFlapN(t, c, "Flap6", 6, genOuter,
		func(o int, fs []bLinFn, fuel *kit.Fuel) fp.Iterator[bC6] {
			xs := []bC6{}
			for _, f := range fs {
				xs = append(xs, bMkC6(f.C[1:], f.C[0], fuel))
			}
			return bMkIter(o, xs)
		},
		func(tf fp.Iterator[bC6], a []int) M {
			return iterator.Flap6(tf)(a[0])(a[1])(a[2])(a[3])(a[4])(a[5])
		})
	bCheckFlapN(t, c, "Flap7", 7, genOuter,
		func(o int, fs []bLinFn, fuel *kit.Fuel) fp.Iterator[bC7] {
			xs := []bC7{}
			for _, f := range fs {
				xs = append(xs, bMkC7(f.C[1:], f.C[0], fuel))
			}
			return bMkIter(o, xs)
		},
		func(tf fp.Iterator[bC7], a []int) M {
			return iterator.Flap7(tf)(a[0])(a[1])(a[2])(a[3])(a[4])(a[5])(a[6])
		})
	bCheckFlapN(t, c, "Flap8", 8, genOuter,
		func(o int, fs []bLinFn, fuel *kit.Fuel) fp.Iterator[bC8] {
			xs := []bC8{}
			for _, f := range fs {
				xs = append(xs, bMkC8(f.C[1:], f.C[0], fuel))
			}
			return bMkIter(o, xs)
		},
		func(tf fp.Iterator[bC8], a []int) M {
			return iterator.Flap8(tf)(a[0])(a[1])(a[2])(a[3])(a[4])(a[5])(a[6])(a[7])
		})
	bCheckFlapN(t, c, "Flap9", 9, genOuter,
		func(o int, fs []bLinFn, fuel *kit.Fuel) fp.Iterator[bC9] {
			xs := []bC9{}
			for _, f := range fs {
				xs = append(xs, bMkC9(f.C[1:], f.C[0], fuel))
			}
			return bMkIter(o, xs)
		},
		func(tf fp.Iterator[bC9], a []int) M {
			return iterator.Flap9(tf)(a[0])(a[1])(a[2])(a[3])(a[4])(a[5])(a[6])(a[7])(a[8])
		})

	bCheckMethodN(t, c, "FlapMap", 2, func(m M, f bLinFn, fuel *kit.Fuel, r []int) M {
		return iterator.FlapMap(func(a, b int) int { fuel.Use(); return bLin(f.C, a, b) }, m)(r[0])
	})
	bCheckMethodN(t, c, "Method1", 2, func(m M, f bLinFn, fuel *kit.Fuel, r []int) M {
		return iterator.Method1(m, func(a, b int) int { fuel.Use(); return bLin(f.C, a, b) })(r[0])
	})
	bCheckMethodN(t, c, "Method2", 3, func(m M, f bLinFn, fuel *kit.Fuel, r []int) M {
		return iterator.Method2(m, func(a1, a2, a3 int) int { fuel.Use(); return bLin(f.C, a1, a2, a3) })(r[0], r[1])
	})
	bCheckMethodN(t, c, "Method3", 3, func(m M, f bLinFn, fuel *kit.Fuel, r []int) M {
		return iterator.Method3(m, func(a1, a2, a3 int) int { fuel.Use(); return bLin(f.C, a1, a2, a3) })(r[0], r[1])
	})
	bCheckMethodN(t, c, "Method4", 4, func(m M, f bLinFn, fuel *kit.Fuel, r []int) M {
		return iterator.Method4(m, func(a1, a2, a3, a4 int) int { fuel.Use(); return bLin(f.C, a1, a2, a3, a4) })(r[0], r[1], r[2])
	})
	bCheckMethodN(t, c, "Method5", 5, func(m M, f bLinFn, fuel *kit.Fuel, r []int) M {
		return iterator.Method5(m, func(a1, a2, a3, a4, a5 int) int { fuel.Use(); return bLin(f.C, a1, a2, a3, a4, a5) })(r[0], r[1], r[2], r[3])
	})
	bCheckMethodN(t, c, "Method6", 6, func(m M, f bLinFn, fuel *kit.Fuel, r []int) M {
		return iterator.Method6(m, func(a1, a2, a3, a4, a5, a6 int) int {
			fuel.Use()
			return bLin(f.C, a1, a2, a3, a4, a5, a6)
		})(r[0], r[1], r[2], r[3], r[4])
	})
	bCheckMethodN(t, c, "Method7", 7, func(m M, f bLinFn, fuel *kit.Fuel, r []int) M {
		return iterator.Method7(m, func(a1, a2, a3, a4, a5, a6, a7 int) int {
			fuel.Use()
			return bLin(f.C, a1, a2, a3, a4, a5, a6, a7)
		})(r[0], r[1], r[2], r[3], r[4], r[5])
	})
	bCheckMethodN(t, c, "Method8", 8, func(m M, f bLinFn, fuel *kit.Fuel, r []int) M {
		return iterator.Method8(m, func(a1, a2, a3, a4, a5, a6, a7, a8 int) int {
			fuel.Use()
			return bLin(f.C, a1, a2, a3, a4, a5, a6, a7, a8)
		})(r[0], r[1], r[2], r[3], r[4], r[5], r[6])
	})
	bCheckMethodN(t, c, "Method9", 9, func(m M, f bLinFn, fuel *kit.Fuel, r []int) M {
		return iterator.Method9(m, func(a1, a2, a3, a4, a5, a6, a7, a8, a9 int) int {
			fuel.Use()
			return bLin(f.C, a1, a2, a3, a4, a5, a6, a7, a8, a9)
		})(r[0], r[1], r[2], r[3], r[4], r[5], r[6], r[7])
	})

	// Zip family: positional semantics, not monadic
	kit.Check(t, "iterator.Zip/positional", "two fresh Iterators of every construction kind and independent lengths 0..5; Zip(a,b) against the positional zip (shortest wins); non-trivial iff the lengths differ or both >= 2; distinct by printed inputs", bOpt, func(rt *rapid.T, rec *kit.Rec) {
		a := c.genVal(rt, "a", 5)
		b := c.genVal(rt, "b", 5)
		rec.Case(len(a.Xs) != len(b.Xs) || len(a.Xs) >= 2, fmt.Sprintf("%s|%s", a, b))
		want := bFlat(bRefZip(a.Xs, b.Xs))
		var got []int
		ok := true
		rec.Guard(rt, "C01|iterator.Zip|positional", func() {
			var tps []fp.Tuple2[int, int]
			tps, ok = bDrainIter(iterator.Zip(c.build(a, 0), c.build(b, 0)), len(want)+8)
			for _, tp := range tps {
				got = append(got, tp.I1, tp.I2)
			}
		})
		if !ok || !bEqInts(got, want) {
			rec.Failf(rt, "C01|iterator.Zip|positional", "iterator.Zip(%s, %s) flattened = %v (complete=%v), want %v", a, b, got, ok, want)
		}
	})
	kit.Check(t, "iterator.Zip3/positional", "three fresh Iterators of every construction kind and independent lengths 0..5; Zip3 against the positional zip; non-trivial iff the lengths differ or all >= 2; distinct by printed inputs", bOpt, func(rt *rapid.T, rec *kit.Rec) {
		a := c.genVal(rt, "a", 5)
		b := c.genVal(rt, "b", 5)
		d := c.genVal(rt, "c", 5)
		rec.Case(len(a.Xs) != len(b.Xs) || len(b.Xs) != len(d.Xs) || len(a.Xs) >= 2, fmt.Sprintf("%s|%s|%s", a, b, d))
		want := bFlat(bRefZip(a.Xs, b.Xs, d.Xs))
		var got []int
		ok := true
		rec.Guard(rt, "C01|iterator.Zip3|positional", func() {
			var tps []fp.Tuple3[int, int, int]
			tps, ok = bDrainIter(iterator.Zip3(c.build(a, 0), c.build(b, 0), c.build(d, 0)), len(want)+8)
			for _, tp := range tps {
				got = append(got, tp.I1, tp.I2, tp.I3)
			}
		})
		if !ok || !bEqInts(got, want) {
			rec.Failf(rt, "C01|iterator.Zip3|positional", "iterator.Zip3(%s, %s, %s) flattened = %v (complete=%v), want %v", a, b, d, got, ok, want)
		}
	})
	kit.Check(t, "iterator.ZipWithIndex/positional", "a fresh Iterator of every construction kind, length 0..5; ZipWithIndex(a) against [(0,a0),(1,a1),..]; non-trivial iff length >= 2; distinct by printed input", bOpt, func(rt *rapid.T, rec *kit.Rec) {
		a := c.genVal(rt, "a", 5)
		rec.Case(len(a.Xs) >= 2, a.String())
		idx := []int{}
		for i := range a.Xs {
			idx = append(idx, i)
		}
		want := bFlat(bRefZip(idx, a.Xs))
		var got []int
		ok := true
		rec.Guard(rt, "C01|iterator.ZipWithIndex|positional", func() {
			var tps []fp.Tuple2[int, int]
			tps, ok = bDrainIter(iterator.ZipWithIndex(c.build(a, 0)), len(want)+8)
			for _, tp := range tps {
				got = append(got, tp.I1, tp.I2)
			}
		})
		if !ok || !bEqInts(got, want) {
			rec.Failf(rt, "C01|iterator.ZipWithIndex|positional", "iterator.ZipWithIndex(%s) flattened = %v (complete=%v), want %v", a, got, ok, want)
		}
	})
}
