// Command gen_a emits c01/a_family_gen_test.go: the sub-checks of property C01 for the
// generated monad family (option, try, either, statet — one text template, the package
// name and the effect type expression substituted), the arity-indexed sub-checks of the
// option/try Applicative/Chain builders and of try/func_gen.go, try/curried_gen.go.
//
// Run from /verif/harness:   go run ./c01/gen_a
package main

import (
	"bytes"
	"fmt"
	"go/format"
	"os"
	"path/filepath"
	"strings"
	"text/template"
)

type unit struct{ Name, Expr string }

type pkg struct {
	Pkg      string // package name
	P        string // adapter suffix
	XI       string // explicit leading type argument where it cannot be inferred
	MFmt     string
	Units    []unit
	Builders bool
	ApM      string   // primitive builder step
	AMeth    []string // methods of ApplicativeFunctorN
	CMeth    []string // methods of MonadChainN
}

func (p pkg) M(t string) string { return fmt.Sprintf(p.MFmt, t) }

var pkgs = []pkg{
	{Pkg: "option", P: "Option", MFmt: "fp.Option[%s]",
		Units: []unit{{"Pure", "option.Pure[int]"}, {"Some", "option.Some[int]"}}, Builders: true, ApM: "ApOption",
		AMeth: []string{"Ap", "ApOption", "ApOptionFunc", "ApFunc"},
		CMeth: []string{"Ap", "ApOption", "ApOptionFunc", "ApFunc", "FlatMap", "Map", "HListMap", "HListFlatMap"}},
	{Pkg: "try", P: "Try", MFmt: "fp.Try[%s]",
		Units: []unit{{"Pure", "try.Pure[int]"}, {"Success", "try.Success[int]"}}, Builders: true, ApM: "ApTry",
		AMeth: []string{"Ap", "ApTry", "ApOption", "ApTryFunc", "ApOptionFunc", "ApFunc"},
		CMeth: []string{"Ap", "ApTry", "ApOption", "ApTryFunc", "ApOptionFunc", "ApFunc", "FlatMap", "Map", "HListMap", "HListFlatMap"}},
	{Pkg: "either", P: "Either", XI: "[aL]", MFmt: "fp.Either[aL, %s]",
		Units: []unit{{"Pure", "either.Pure[aL, int]"}, {"Right", "either.Right[aL, int]"}}},
	{Pkg: "statet", P: "StateT", XI: "[int]", MFmt: "fp.StateT[int, %s]",
		Units: []unit{{"Pure", "statet.Pure[int, int]"}}},
}

func seq(a, b int) []int {
	r := []int{}
	for i := a; i <= b; i++ {
		r = append(r, i)
	}
	return r
}

// list joins format instantiated for i = from..to
func list(from, to int, format, sep string) string {
	parts := []string{}
	for i := from; i <= to; i++ {
		f := format
		n := strings.Count(f, "%")
		args := make([]any, n)
		for j := range args {
			args[j] = i
		}
		parts = append(parts, fmt.Sprintf(f, args...))
	}
	return strings.Join(parts, sep)
}

// cur: curried type of n int arguments ending in res
func cur(n int, res string) string {
	if n == 0 {
		return res
	}
	return "fp.Func1[int, " + cur(n-1, res) + "]"
}

// curLam: nested typed lambda a1 => a2 => ... => body (body may mention a1..an)
func curLam(n int, res, body string) string {
	var build func(i int) string
	build = func(i int) string {
		if i > n {
			return body
		}
		inner := build(i + 1)
		if i == n {
			return fmt.Sprintf("func(a%d int) %s { %s }", i, cur(n-i, res), inner)
		}
		return fmt.Sprintf("func(a%d int) %s { return %s }", i, cur(n-i, res), inner)
	}
	return build(1)
}

func add(a, b int) int { return a + b }
func sub(a, b int) int { return a - b }
func min(a, b int) int {
	if a < b {
		return a
	}
	return b
}

// hl: type of an HList of k ints
func hl(k int) string {
	if k == 0 {
		return "hlist.Nil"
	}
	return "hlist.Cons[int, " + hl(k-1) + "]"
}

// hlVals: expressions of the k values of HList variable h, head first
func hlVals(k int) string {
	parts := []string{}
	e := "h"
	for i := 0; i < k; i++ {
		parts = append(parts, e+".Head()")
		e = "hlist.Tail(" + e + ")"
	}
	return strings.Join(parts, ", ")
}

// methodArity: number of parameters of the callback of Method<n>/FlatMethod<n>
func methodArity(n int) int {
	if n <= 2 {
		return n + 1
	}
	return n
}

// xarg: the argument expression of builder method meth for a prefix of k values
func xarg(p pkg, meth string, k int) string {
	m := p.M("int")
	prevT, prevE := "hlist.Nil", "0"
	if k > 0 {
		prevT, prevE = "int", "p"
	}
	hv := hlVals(k)
	switch meth {
	case "Ap":
		return "x.v"
	case "ApOption":
		return "aOptionMk(x.d, aIdInt)"
	case "ApTry":
		return "aTryMk(x.d, aIdInt)"
	case "ApOptionFunc":
		return "func() fp.Option[int] { c.fu.Use(); return aOptionMk(x.d, aIdInt) }"
	case "ApTryFunc":
		return "func() fp.Try[int] { c.fu.Use(); return aTryMk(x.d, aIdInt) }"
	case "ApFunc":
		return "func() int { c.fu.Use(); return x.v }"
	case "FlatMap":
		return fmt.Sprintf("func(p %s) %s { c.fu.Use(); return mk(x.k.at(%s)) }", prevT, m, prevE)
	case "Map":
		return fmt.Sprintf("func(p %s) int { c.fu.Use(); return x.f.Call(%s) }", prevT, prevE)
	case "HListMap":
		return fmt.Sprintf("func(h %s) int { c.fu.Use(); return x.f.Call(aH(%s)) }", hl(k), hv)
	case "HListFlatMap":
		return fmt.Sprintf("func(h %s) %s { c.fu.Use(); return mk(x.k.at(aH(%s))) }", hl(k), m, hv)
	}
	panic("unknown method " + meth)
}

// chainExpr: <pkg>.<B><n>(hN).ApM(mk(ds[0]))...X(arg).ApM(...)  with the method under test at position k+1
func chainExpr(p pkg, builder string, m, k int, meth string) string {
	n := m + k
	var sb strings.Builder
	fmt.Fprintf(&sb, "%s.%s%d(func(%s int) int { c.fu.Use(); return aH(%s) })", p.Pkg, builder, n, list(1, n, "a%d", ", "), list(1, n, "a%d", ", "))
	for i := 0; i < k; i++ {
		fmt.Fprintf(&sb, ".\n\t\t\t\t\t%s(mk(ds[%d]))", p.ApM, i)
	}
	fmt.Fprintf(&sb, ".\n\t\t\t\t\t%s(%s)", meth, xarg(p, meth, k))
	for j := 0; j < m-1; j++ {
		fmt.Fprintf(&sb, ".\n\t\t\t\t\t%s(mk(ds[%d]))", p.ApM, k+j)
	}
	return sb.String()
}

func apply(n int, format string) string { // (x1)(x2)...(xn)
	return list(1, n, format, "")
}

var funcs = template.FuncMap{
	"seq": seq, "list": list, "cur": cur, "curLam": curLam, "add": add, "sub": sub, "min": min,
	"methodArity": methodArity, "chainExpr": chainExpr, "apply": apply,
}

func main() {
	t := template.Must(template.New("fam").Delims("«", "»").Funcs(funcs).Parse(tmpl))
	var buf bytes.Buffer
	data := map[string]any{
		"Pkgs":         pkgs,
		"ComposeNames": []string{"Compose", "Compose2"},
		"TraverseVariants": []map[string]string{
			{"Name": "Traverse", "Call": "Traverse(iterator.FromSeq(xs), %s)", "Conv": "aIterAny"},
			{"Name": "TraverseSeq", "Call": "TraverseSeq(fp.Seq[int](xs), %s)", "Conv": "aSeqAny"},
			{"Name": "TraverseSlice", "Call": "TraverseSlice(xs, %s)", "Conv": "aSliceAny"},
			{"Name": "TraverseFunc", "Call": "TraverseFunc(%s)(iterator.FromSeq(xs))", "Conv": "aIterAny"},
			{"Name": "TraverseSeqFunc", "Call": "TraverseSeqFunc(%s)(fp.Seq[int](xs))", "Conv": "aSeqAny"},
			{"Name": "TraverseSliceFunc", "Call": "TraverseSliceFunc(%s)(xs)", "Conv": "aSliceAny"},
		},
	}
	if err := t.Execute(&buf, data); err != nil {
		fmt.Fprintln(os.Stderr, err)
		os.Exit(1)
	}
	split := splitSubChecks(buf.String())
	src, err := format.Source([]byte(split))
	if err != nil {
		_ = os.WriteFile("/tmp/a_family_gen_bad.go", []byte(split), 0o644)
		fmt.Fprintln(os.Stderr, "gofmt:", err, "(unformatted output in /tmp/a_family_gen_bad.go)")
		os.Exit(1)
	}
	out := filepath.Join("c01", "a_family_gen_test.go")
	if _, err := os.Stat("c01"); err != nil {
		out = "a_family_gen_test.go" // run from inside c01
	}
	if err := os.WriteFile(out, src, 0o644); err != nil {
		fmt.Fprintln(os.Stderr, err)
		os.Exit(1)
	}
	fmt.Println("wrote", out, len(src), "bytes")
}

// splitSubChecks turns every kit.Check block of the big per-package functions into a
// top-level function of its own (prelude repeated), which the Go compiler handles far
// faster than one function with hundreds of closures.
func splitSubChecks(src string) string {
	lines := strings.Split(src, "\n")
	var out, subs []string
	i := 0
	for i < len(lines) {
		ln := lines[i]
		if !(strings.HasPrefix(ln, "func a") && strings.HasSuffix(ln, "(t *testing.T) {")) {
			out = append(out, ln)
			i++
			continue
		}
		header := ln
		i++
		var prelude, calls []string
		for i < len(lines) && !strings.HasPrefix(lines[i], "\tkit.Check(t, \"") && lines[i] != "}" {
			prelude = append(prelude, lines[i])
			i++
		}
		for i < len(lines) && lines[i] != "}" {
			if !strings.HasPrefix(lines[i], "\tkit.Check(t, \"") {
				i++ // blank lines / comments between blocks
				continue
			}
			name := lines[i][len("\tkit.Check(t, \""):]
			name = name[:strings.Index(name, "\"")]
			fn := "aSub_" + strings.NewReplacer(".", "_", "/", "_", "-", "_").Replace(name)
			block := []string{}
			for lines[i] != "\t})" {
				block = append(block, lines[i])
				i++
			}
			block = append(block, lines[i])
			i++
			subs = append(subs, "func "+fn+"(t *testing.T) {")
			subs = append(subs, prelude...)
			subs = append(subs, block...)
			subs = append(subs, "}", "")
			calls = append(calls, "\t"+fn+"(t)")
		}
		i++ // closing brace
		out = append(out, header)
		out = append(out, calls...)
		out = append(out, "}", "")
		out = append(out, subs...)
		subs = nil
	}
	return strings.Join(out, "\n")
}

const tmpl = `// Code generated by c01/gen_a; DO NOT EDIT.
// Regenerate:  cd /verif/harness && go run ./c01/gen_a
//
// Property C01, part A: generated monad family (option, try, either, statet) from one
// template; option/try Applicative/Chain builders; try Func/Curried families.

package c01

import (
	"testing"

	"github.com/csgura/fp"
	"github.com/csgura/fp/either"
	"github.com/csgura/fp/hlist"
	"github.com/csgura/fp/iterator"
	"github.com/csgura/fp/option"
	"github.com/csgura/fp/statet"
	"github.com/csgura/fp/try"
	"pgregory.net/rapid"

	"verifharness/kit"
)

var _ = hlist.Empty
var _ = either.Pure[aL, int]
var _ = statet.Pure[int, int]
«range $p := .Pkgs»
// ======================================================================================
// «$p.Pkg»: monad laws, Map coherence, every member of «$p.Pkg»'s generated monad / traverse files
// ======================================================================================

// aEval«$p.P» evaluates an expression tree with the library.
func aEval«$p.P»(c *aCase, e *aExpr) «$p.M "int"» {
	type M = «$p.M "int"»
	mk := func(d aVal) M { return a«$p.P»Mk(d, aIdInt) }
	kf := func(k aKFn) func(int) M {
		return func(x int) M { c.fu.Use(); return mk(k.at(x)) }
	}
	kid := func(i int) M { return aEval«$p.P»(c, e.Kids[i]) }
	h2 := func(x, y int) int { c.fu.Use(); return aH(x, y) }
	k2 := func(x, y int) M { c.fu.Use(); return mk(e.K.at(aH(x, y))) }
	curryH := func(v int) fp.Func1[int, int] { return func(x int) int { c.fu.Use(); return aH(v, x) } }
	switch e.Op {
	case aOpLeaf:
		return mk(e.D)
	case aOpCompose:
		return «$p.Pkg».Compose(kf(e.K), kf(e.K2))(e.B)
	case aOpFoldM:
		return «$p.Pkg».FoldM(iterator.FromSeq(aShift(e.Xs, 0)), e.B, k2)
	case aOpMap:
		return «$p.Pkg».Map(kid(0), aPF(c, e.F))
	case aOpFlatMap:
		return «$p.Pkg».FlatMap(kid(0), kf(e.K))
	case aOpFlatten:
		return «$p.Pkg».Flatten(«$p.Pkg».Map(kid(0), func(x int) M { c.fu.Use(); return mk(e.D.plusV(x)) }))
	case aOpReplace:
		return «$p.Pkg».Replace(kid(0), e.B)
	case aOpLiftM:
		return «$p.Pkg».LiftM(kf(e.K))(kid(0))
	case aOpMethod1:
		return «$p.Pkg».Method1(kid(0), h2)(e.B)
	case aOpFlatMethod1:
		return «$p.Pkg».FlatMethod1(kid(0), k2)(e.B)
	case aOpFlap:
		return «$p.Pkg».Flap(«$p.Pkg».Map(kid(0), curryH))(e.B)
	case aOpTraverse:
		return «$p.Pkg».FlatMap(kid(0), func(v int) M {
			return «$p.Pkg».Map(«$p.Pkg».TraverseSlice(aShift(e.Xs, v), kf(e.K)), func(xs []int) int { return aH(xs...) })
		})
	case aOpMap2:
		return «$p.Pkg».Map2(kid(0), kid(1), h2)
	case aOpAp:
		return «$p.Pkg».Ap(«$p.Pkg».Map(kid(0), curryH), kid(1))
	case aOpZip:
		return «$p.Pkg».Map(«$p.Pkg».Zip(kid(0), kid(1)), func(t fp.Tuple2[int, int]) int { return aH(t.I1, t.I2) })
	case aOpFlatMap2:
		return «$p.Pkg».FlatMap2(kid(0), kid(1), k2)
	case aOpLiftA3:
		return «$p.Pkg».LiftA3«$p.XI»(func(x, y, z int) int { c.fu.Use(); return aH(x, y, z) })(kid(0), kid(1), kid(2))
	case aOpSequence:
		return «$p.Pkg».Map(«$p.Pkg».Sequence([]M{kid(0), kid(1), kid(2)}), func(xs []int) int { return aH(xs...) })
	}
	panic("unknown op")
}

func aFamily«$p.P»(t *testing.T) {
	ad := aAd«$p.P»
	type M = «$p.M "int"»
	mk := func(d aVal) M { return a«$p.P»Mk(d, aIdInt) }
	to := func(m M) aM { return a«$p.P»To(m, aInt) }
	kf := func(c *aCase, k aKFn) func(int) M {
		return func(x int) M { c.fu.Use(); return mk(k.at(x)) }
	}
	pf := func(c *aCase, f kit.IntFn) func(int) int {
		return func(x int) int { c.fu.Use(); return f.Call(x) }
	}
	_, _, _, _, _ = ad, mk, to, kf, pf
«range $u := $p.Units»
	kit.Check(t, "«$p.Pkg».«$u.Name»/left-identity", aRuleOperands+"; here: FlatMap(unit(a), f) = f(a) on the real FlatMap/unit, and unit(a) against the model unit", aOpt(3), func(rt *rapid.T, rec *kit.Rec) {
		c := aBegin(rt, rec, ad, "C01|«$p.Pkg».«$u.Name»|left-identity")
		a, k := c.int("a"), c.kfn("f")
		c.start()
		var u, l, r aRes
		c.guard(func() {
			u = c.run(to(«$u.Expr»(a)))
			l = c.run(to(«$p.Pkg».FlatMap(«$u.Expr»(a), kf(c, k))))
			r = c.run(to(kf(c, k)(a)))
		})
		c.same("unit(a) against the model unit", u, c.run(aUnit(a)))
		c.same("FlatMap(unit(a), f) [got] = f(a) [want]", l, r)
		c.same("FlatMap(unit(a), f) against the reference bind", l, c.run(aBind(aUnit(a), c.km(k))))
	})
«end»
	kit.Check(t, "«$p.Pkg».FlatMap/right-identity", aRuleOperands+"; here: FlatMap(m, unit) = m", aOpt(3), func(rt *rapid.T, rec *kit.Rec) {
		c := aBegin(rt, rec, ad, "C01|«$p.Pkg».FlatMap|right-identity")
		d := c.val("m")
		c.start()
		var l, r aRes
		c.guard(func() {
			l = c.run(to(«$p.Pkg».FlatMap(mk(d), a«$p.P»Pure[int])))
			r = c.run(to(mk(d)))
		})
		c.same("FlatMap(m, unit) [got] = m [want]", l, r)
		c.same("FlatMap(m, unit) against the reference bind", l, c.run(aBind(c.m(d), aUnit)))
	})

	kit.Check(t, "«$p.Pkg».FlatMap/associativity", aRuleOperands+"; here: FlatMap(FlatMap(m,f),g) = FlatMap(m, x => FlatMap(f(x),g))", aOpt(3), func(rt *rapid.T, rec *kit.Rec) {
		c := aBegin(rt, rec, ad, "C01|«$p.Pkg».FlatMap|associativity")
		d, f, g := c.val("m"), c.kfn("f"), c.kfn("g")
		c.start()
		var l, r aRes
		c.guard(func() {
			l = c.run(to(«$p.Pkg».FlatMap(«$p.Pkg».FlatMap(mk(d), kf(c, f)), kf(c, g))))
			r = c.run(to(«$p.Pkg».FlatMap(mk(d), func(x int) M { return «$p.Pkg».FlatMap(kf(c, f)(x), kf(c, g)) })))
		})
		c.same("FlatMap(FlatMap(m,f),g) [got] = FlatMap(m, x => FlatMap(f(x),g)) [want]", l, r)
		c.same("FlatMap(FlatMap(m,f),g) against the reference bind", l, c.run(aBind(aBind(c.m(d), c.km(f)), c.km(g))))
	})

	kit.Check(t, "«$p.Pkg».Map/flatmap-unit", aRuleOperands+"; here: Map(m,f) = FlatMap(m, unit∘f) on the real functions", aOpt(3), func(rt *rapid.T, rec *kit.Rec) {
		c := aBegin(rt, rec, ad, "C01|«$p.Pkg».Map|flatmap-unit")
		d, f := c.val("m"), c.ifn("f")
		c.start()
		var l, r aRes
		c.guard(func() {
			l = c.run(to(«$p.Pkg».Map(mk(d), pf(c, f))))
			r = c.run(to(«$p.Pkg».FlatMap(mk(d), func(x int) M { return a«$p.P»Pure(pf(c, f)(x)) })))
		})
		c.same("Map(m,f) [got] = FlatMap(m, unit∘f) [want]", l, r)
	})

	kit.Check(t, "«$p.Pkg».Map/ref", aRuleOperands, aOpt(3), func(rt *rapid.T, rec *kit.Rec) {
		c := aBegin(rt, rec, ad, "C01|«$p.Pkg».Map|ref")
		d, f := c.val("m"), c.ifn("f")
		c.start()
		var got aRes
		c.guard(func() { got = c.run(to(«$p.Pkg».Map(mk(d), pf(c, f)))) })
		c.same("Map(m,f)", got, c.run(aRefMap(c.m(d), aPM(f))))
	})

	kit.Check(t, "«$p.Pkg».Flatten/ref", aRuleOperands, aOpt(3), func(rt *rapid.T, rec *kit.Rec) {
		c := aBegin(rt, rec, ad, "C01|«$p.Pkg».Flatten|ref")
		do, di := c.val("outer"), c.val("inner")
		c.start()
		var got aRes
		c.guard(func() {
			got = c.run(to(«$p.Pkg».Flatten(a«$p.P»Mk(do, func(v int) M { return mk(di.plusV(v)) }))))
		})
		c.same("Flatten(mm)", got, c.run(aRefFlatten(ad.model(do, func(v int) any { return c.m(di.plusV(v)) }))))
	})

	kit.Check(t, "«$p.Pkg».Replace/ref", aRuleOperands, aOpt(3), func(rt *rapid.T, rec *kit.Rec) {
		c := aBegin(rt, rec, ad, "C01|«$p.Pkg».Replace|ref")
		d, b := c.val("m"), c.int("b")
		c.start()
		var got aRes
		c.guard(func() { got = c.run(to(«$p.Pkg».Replace(mk(d), b))) })
		c.same("Replace(m,b)", got, c.run(aRefReplace(c.m(d), b)))
	})

	kit.Check(t, "«$p.Pkg».Zip/ref", aRuleOperands, aOpt(3), func(rt *rapid.T, rec *kit.Rec) {
		c := aBegin(rt, rec, ad, "C01|«$p.Pkg».Zip|ref")
		ds := c.vals("m", 2)
		c.start()
		var got aRes
		c.guard(func() { got = c.run(a«$p.P»To(«$p.Pkg».Zip(mk(ds[0]), mk(ds[1])), aT2Any)) })
		c.same("Zip(a,b)", got, c.run(aRefZip(c.ms(ds))))
	})

	kit.Check(t, "«$p.Pkg».Zip3/ref", aRuleOperands, aOpt(3), func(rt *rapid.T, rec *kit.Rec) {
		c := aBegin(rt, rec, ad, "C01|«$p.Pkg».Zip3|ref")
		ds := c.vals("m", 3)
		c.start()
		var got aRes
		c.guard(func() { got = c.run(a«$p.P»To(«$p.Pkg».Zip3(mk(ds[0]), mk(ds[1]), mk(ds[2])), aT3Any)) })
		c.same("Zip3(a,b,c)", got, c.run(aRefZip(c.ms(ds))))
	})

	kit.Check(t, "«$p.Pkg».UnZip/ref", aRuleOperands, aOpt(3), func(rt *rapid.T, rec *kit.Rec) {
		c := aBegin(rt, rec, ad, "C01|«$p.Pkg».UnZip|ref")
		d, w := c.val("m"), c.int("w")
		c.start()
		var g1, g2 aRes
		c.guard(func() {
			r1, r2 := «$p.Pkg».UnZip(a«$p.P»Mk(d, func(v int) fp.Tuple2[int, int] { return fp.Tuple2[int, int]{I1: v, I2: aH(v, w)} }))
			g1, g2 = c.run(to(r1)), c.run(to(r2))
		})
		w1, w2 := aRefUnZip(ad.model(d, func(v int) any { return []any{v, aH(v, w)} }))
		c.same("UnZip(t) first", g1, c.run(w1))
		c.same("UnZip(t) second", g2, c.run(w2))
	})

	kit.Check(t, "«$p.Pkg».Ap/ref", aRuleOperands, aOpt(3), func(rt *rapid.T, rec *kit.Rec) {
		c := aBegin(rt, rec, ad, "C01|«$p.Pkg».Ap|ref")
		ds := c.vals("m", 2)
		c.start()
		var got aRes
		c.guard(func() {
			tf := a«$p.P»Mk(ds[0], func(v int) fp.Func1[int, int] { return func(x int) int { c.fu.Use(); return aH(v, x) } })
			got = c.run(to(«$p.Pkg».Ap(tf, mk(ds[1]))))
		})
		mf := ad.model(ds[0], func(v int) any { return func(x any) any { return aH(v, x.(int)) } })
		c.same("Ap(tf,ta)", got, c.run(aRefAp(mf, c.m(ds[1]))))
	})

	kit.Check(t, "«$p.Pkg».ApFunc/ref", aRuleOperands, aOpt(3), func(rt *rapid.T, rec *kit.Rec) {
		c := aBegin(rt, rec, ad, "C01|«$p.Pkg».ApFunc|ref")
		ds := c.vals("m", 2)
		c.start()
		var got aRes
		c.guard(func() {
			tf := a«$p.P»Mk(ds[0], func(v int) fp.Func1[int, int] { return func(x int) int { c.fu.Use(); return aH(v, x) } })
			got = c.run(to(«$p.Pkg».ApFunc(tf, func() M { c.fu.Use(); return mk(ds[1]) })))
		})
		mf := ad.model(ds[0], func(v int) any { return func(x any) any { return aH(v, x.(int)) } })
		c.same("ApFunc(tf,supplier)", got, c.run(aRefApFunc(mf, func() aM { return c.m(ds[1]) })))
	})
«range $name := $.ComposeNames»
	kit.Check(t, "«$p.Pkg».«$name»/ref", aRuleOperands, aOpt(3), func(rt *rapid.T, rec *kit.Rec) {
		c := aBegin(rt, rec, ad, "C01|«$p.Pkg».«$name»|ref")
		a, f, g := c.int("a"), c.kfn("f"), c.kfn("g")
		c.start()
		var got aRes
		c.guard(func() { got = c.run(to(«$p.Pkg».«$name»(kf(c, f), kf(c, g))(a))) })
		c.same("«$name»(f,g)(a)", got, c.run(aRefCompose(c.km(f), c.km(g))(a)))
	})
«end»
«range $n := seq 3 5»
	kit.Check(t, "«$p.Pkg».Compose«$n»/ref", aRuleOperands, aOpt(1.5), func(rt *rapid.T, rec *kit.Rec) {
		c := aBegin(rt, rec, ad, "C01|«$p.Pkg».Compose«$n»|ref")
		a := c.int("a")
		«list 1 $n "f%d" ", "» := «list 1 $n "c.kfn(\"f%d\")" ", "»
		c.start()
		var got aRes
		c.guard(func() { got = c.run(to(«$p.Pkg».Compose«$n»(«list 1 $n "kf(c, f%d)" ", "»)(a))) })
		c.same("Compose«$n»(f1..f«$n»)(a)", got, c.run(aRefCompose(«list 1 $n "c.km(f%d)" ", "»)(a)))
	})
«end»
	kit.Check(t, "«$p.Pkg».MapSeqLift/ref", aRuleOperands, aOpt(3), func(rt *rapid.T, rec *kit.Rec) {
		c := aBegin(rt, rec, ad, "C01|«$p.Pkg».MapSeqLift|ref")
		d, xs, f := c.val("m"), c.slice("xs", 4), c.ifn("f")
		c.start()
		var got aRes
		c.guard(func() {
			got = c.run(a«$p.P»To(«$p.Pkg».MapSeqLift(a«$p.P»Mk(d, func(v int) fp.Seq[int] { return aShift(xs, v) }), pf(c, f)), aSeqAny))
		})
		c.same("MapSeqLift(m,f)", got, c.run(aRefMapSeqLift(ad.model(d, func(v int) any { return aSeqAny(aShift(xs, v)) }), aPM(f))))
	})

	kit.Check(t, "«$p.Pkg».MapSliceLift/ref", aRuleOperands, aOpt(3), func(rt *rapid.T, rec *kit.Rec) {
		c := aBegin(rt, rec, ad, "C01|«$p.Pkg».MapSliceLift|ref")
		d, xs, f := c.val("m"), c.slice("xs", 4), c.ifn("f")
		c.start()
		var got aRes
		c.guard(func() {
			got = c.run(a«$p.P»To(«$p.Pkg».MapSliceLift(a«$p.P»Mk(d, func(v int) []int { return aShift(xs, v) }), pf(c, f)), aSliceAny))
		})
		c.same("MapSliceLift(m,f)", got, c.run(aRefMapSeqLift(ad.model(d, func(v int) any { return aSeqAny(aShift(xs, v)) }), aPM(f))))
	})

	kit.Check(t, "«$p.Pkg».Lift/ref", aRuleOperands, aOpt(3), func(rt *rapid.T, rec *kit.Rec) {
		c := aBegin(rt, rec, ad, "C01|«$p.Pkg».Lift|ref")
		d, f := c.val("m"), c.ifn("f")
		c.start()
		var got aRes
		c.guard(func() { got = c.run(to(«$p.Pkg».Lift«$p.XI»(pf(c, f))(mk(d)))) })
		c.same("Lift(f)(m)", got, c.run(aRefLift(aPM(f))(c.m(d))))
	})

	kit.Check(t, "«$p.Pkg».LiftM/ref", aRuleOperands, aOpt(3), func(rt *rapid.T, rec *kit.Rec) {
		c := aBegin(rt, rec, ad, "C01|«$p.Pkg».LiftM|ref")
		d, k := c.val("m"), c.kfn("f")
		c.start()
		var got aRes
		c.guard(func() { got = c.run(to(«$p.Pkg».LiftM(kf(c, k))(mk(d)))) })
		c.same("LiftM(f)(m)", got, c.run(aRefLiftM1(c.km(k))(c.m(d))))
	})

	kit.Check(t, "«$p.Pkg».FlapMap/ref", aRuleOperands, aOpt(3), func(rt *rapid.T, rec *kit.Rec) {
		c := aBegin(rt, rec, ad, "C01|«$p.Pkg».FlapMap|ref")
		d, b := c.val("m"), c.int("b")
		c.start()
		var got aRes
		c.guard(func() {
			got = c.run(to(«$p.Pkg».FlapMap(func(x, y int) int { c.fu.Use(); return aH(x, y) }, mk(d))(b)))
		})
		c.same("FlapMap(f,m)(b)", got, c.run(aRefFlapMap(func(x, y any) any { return aH(x.(int), y.(int)) }, c.m(d))(b)))
	})

	kit.Check(t, "«$p.Pkg».FlatFlapMap/ref", aRuleOperands, aOpt(3), func(rt *rapid.T, rec *kit.Rec) {
		c := aBegin(rt, rec, ad, "C01|«$p.Pkg».FlatFlapMap|ref")
		d, b, k := c.val("m"), c.int("b"), c.kfn("f")
		c.start()
		var got aRes
		c.guard(func() {
			got = c.run(to(«$p.Pkg».FlatFlapMap(func(x, y int) M { c.fu.Use(); return mk(k.at(aH(x, y))) }, mk(d))(b)))
		})
		c.same("FlatFlapMap(f,m)(b)", got, c.run(aRefFlatFlapMap(func(x, y any) any { return c.m(k.at(aH(x.(int), y.(int)))) }, c.m(d))(b)))
	})

	kit.Check(t, "«$p.Pkg».With/ref", aRuleOperands, aOpt(3), func(rt *rapid.T, rec *kit.Rec) {
		c := aBegin(rt, rec, ad, "C01|«$p.Pkg».With|ref")
		d, a := c.val("v"), c.int("a")
		c.start()
		var got aRes
		c.guard(func() {
			got = c.run(to(«$p.Pkg».With(func(x, y int) int { c.fu.Use(); return aH(x, y) }, mk(d))(a)))
		})
		c.same("With(withf,v)(a)", got, c.run(aRefWith(func(x, y any) any { return aH(x.(int), y.(int)) }, c.m(d))(a)))
	})

	kit.Check(t, "«$p.Pkg».Flap/ref", aRuleOperands, aOpt(3), func(rt *rapid.T, rec *kit.Rec) {
		c := aBegin(rt, rec, ad, "C01|«$p.Pkg».Flap|ref")
		d, a := c.val("tf"), c.int("a")
		c.start()
		var got aRes
		c.guard(func() {
			tf := a«$p.P»Mk(d, func(v int) fp.Func1[int, int] { return func(x int) int { c.fu.Use(); return aH(v, x) } })
			got = c.run(to(«$p.Pkg».Flap(tf)(a)))
		})
		mf := ad.model(d, func(v int) any { return func(x any) any { return aH(v, x.(int)) } })
		c.same("Flap(tf)(a)", got, c.run(aRefFlap(mf, a)))
	})
«range $n := seq 2 9»
	// ---- arity «$n» ----
	kit.Check(t, "«$p.Pkg».Map«$n»/ref", aRuleOperands, aOpt(1.5), func(rt *rapid.T, rec *kit.Rec) {
		c := aBegin(rt, rec, ad, "C01|«$p.Pkg».Map«$n»|ref")
		ds := c.vals("m", «$n»)
		c.start()
		var got aRes
		c.guard(func() {
			got = c.run(to(«$p.Pkg».Map«$n»(«list 0 (sub $n 1) "mk(ds[%d])" ", "», func(«list 1 $n "a%d" ", "» int) int { c.fu.Use(); return aH(«list 1 $n "a%d" ", "») })))
		})
		c.same("Map«$n»", got, c.run(aRefLiftA(c.ms(ds), aHAny)))
	})

	kit.Check(t, "«$p.Pkg».LiftA«$n»/ref", aRuleOperands, aOpt(1.5), func(rt *rapid.T, rec *kit.Rec) {
		c := aBegin(rt, rec, ad, "C01|«$p.Pkg».LiftA«$n»|ref")
		ds := c.vals("m", «$n»)
		c.start()
		var got aRes
		c.guard(func() {
			got = c.run(to(«$p.Pkg».LiftA«$n»«$p.XI»(func(«list 1 $n "a%d" ", "» int) int { c.fu.Use(); return aH(«list 1 $n "a%d" ", "») })(«list 0 (sub $n 1) "mk(ds[%d])" ", "»)))
		})
		c.same("LiftA«$n»", got, c.run(aRefLiftA(c.ms(ds), aHAny)))
	})

	kit.Check(t, "«$p.Pkg».LiftM«$n»/ref", aRuleOperands, aOpt(1.5), func(rt *rapid.T, rec *kit.Rec) {
		c := aBegin(rt, rec, ad, "C01|«$p.Pkg».LiftM«$n»|ref")
		ds, k := c.vals("m", «$n»), c.kfn("f")
		c.start()
		var got aRes
		c.guard(func() {
			got = c.run(to(«$p.Pkg».LiftM«$n»(func(«list 1 $n "a%d" ", "» int) M { c.fu.Use(); return mk(k.at(aH(«list 1 $n "a%d" ", "»))) })(«list 0 (sub $n 1) "mk(ds[%d])" ", "»)))
		})
		c.same("LiftM«$n»", got, c.run(aRefLiftM(c.ms(ds), c.kmN(k))))
	})

	kit.Check(t, "«$p.Pkg».FlatMap«$n»/ref", aRuleOperands, aOpt(1.5), func(rt *rapid.T, rec *kit.Rec) {
		c := aBegin(rt, rec, ad, "C01|«$p.Pkg».FlatMap«$n»|ref")
		ds, k := c.vals("m", «$n»), c.kfn("f")
		c.start()
		var got aRes
		c.guard(func() {
			got = c.run(to(«$p.Pkg».FlatMap«$n»(«list 0 (sub $n 1) "mk(ds[%d])" ", "», func(«list 1 $n "a%d" ", "» int) M { c.fu.Use(); return mk(k.at(aH(«list 1 $n "a%d" ", "»))) })))
		})
		c.same("FlatMap«$n»", got, c.run(aRefLiftM(c.ms(ds), c.kmN(k))))
	})

	kit.Check(t, "«$p.Pkg».Flap«$n»/ref", aRuleOperands, aOpt(1.5), func(rt *rapid.T, rec *kit.Rec) {
		c := aBegin(rt, rec, ad, "C01|«$p.Pkg».Flap«$n»|ref")
		d, xs := c.val("tf"), c.ints("x", «$n»)
		c.start()
		var got aRes
		c.guard(func() {
			tf := a«$p.P»Mk(d, func(v int) «cur $n "int"» {
				return «curLam $n "int" (printf "c.fu.Use(); return aH(v, %s)" (list 1 $n "a%d" ", "))»
			})
			got = c.run(to(«$p.Pkg».Flap«$n»(tf)«list 0 (sub $n 1) "(xs[%d])" ""»))
		})
		mf := ad.model(d, func(v int) any {
			return aCurry(«$n», func(as []any) any { return aHAny(append([]any{v}, as...)) })
		})
		c.same("Flap«$n»(tf)(x1)..(x«$n»)", got, c.run(aRefFlapN(mf, aAnys(xs))))
	})
«end»
«range $n := seq 1 9»«$fa := methodArity $n»
	kit.Check(t, "«$p.Pkg».Method«$n»/ref", aRuleOperands, aOpt(1.5), func(rt *rapid.T, rec *kit.Rec) {
		c := aBegin(rt, rec, ad, "C01|«$p.Pkg».Method«$n»|ref")
		d, xs := c.val("m"), c.ints("x", «sub $fa 1»)
		c.start()
		var got aRes
		c.guard(func() {
			got = c.run(to(«$p.Pkg».Method«$n»(mk(d), func(«list 1 $fa "a%d" ", "» int) int { c.fu.Use(); return aH(«list 1 $fa "a%d" ", "») })(«list 0 (sub $fa 2) "xs[%d]" ", "»)))
		})
		c.same("Method«$n»(m,f)(x..)", got, c.run(aRefMethod(c.m(d), aHAny, aAnys(xs))))
	})

	kit.Check(t, "«$p.Pkg».FlatMethod«$n»/ref", aRuleOperands, aOpt(1.5), func(rt *rapid.T, rec *kit.Rec) {
		c := aBegin(rt, rec, ad, "C01|«$p.Pkg».FlatMethod«$n»|ref")
		d, xs, k := c.val("m"), c.ints("x", «sub $fa 1»), c.kfn("f")
		c.start()
		var got aRes
		c.guard(func() {
			got = c.run(to(«$p.Pkg».FlatMethod«$n»(mk(d), func(«list 1 $fa "a%d" ", "» int) M { c.fu.Use(); return mk(k.at(aH(«list 1 $fa "a%d" ", "»))) })(«list 0 (sub $fa 2) "xs[%d]" ", "»)))
		})
		c.same("FlatMethod«$n»(m,f)(x..)", got, c.run(aRefFlatMethod(c.m(d), c.kmN(k), aAnys(xs))))
	})
«end»
	kit.Check(t, "«$p.Pkg».compositions/ref", aRuleExpr, aOpt(3), func(rt *rapid.T, rec *kit.Rec) {
		c := aBegin(rt, rec, ad, "C01|«$p.Pkg».compositions|ref")
		e := c.expr("e")
		c.start()
		var got aRes
		c.guard(func() { got = c.run(to(aEval«$p.P»(c, e))) })
		c.same("composition", got, c.run(c.exprM(e)))
	})

	// ---- FoldM and the traverse file ----
	kit.Check(t, "«$p.Pkg».FoldM/ref", aRuleOperands+"; input sequence of 0..5 ints", aOpt(3), func(rt *rapid.T, rec *kit.Rec) {
		c := aBegin(rt, rec, ad, "C01|«$p.Pkg».FoldM|ref")
		xs, z, k := c.slice("xs", 5), c.int("zero"), c.kfn("f")
		c.start()
		var got aRes
		c.guard(func() {
			got = c.run(to(«$p.Pkg».FoldM(iterator.FromSeq(xs), z, func(b, a int) M { c.fu.Use(); return mk(k.at(aH(b, a))) })))
		})
		c.same("FoldM(xs,zero,f)", got, c.run(aRefFoldM(aAnys(xs), z, func(b, a any) aM { return c.m(k.at(aH(b.(int), a.(int)))) })))
	})
«range $tv := $.TraverseVariants»
	kit.Check(t, "«$p.Pkg».«$tv.Name»/ref", aRuleOperands+"; input sequence of 0..5 ints", aOpt(3), func(rt *rapid.T, rec *kit.Rec) {
		c := aBegin(rt, rec, ad, "C01|«$p.Pkg».«$tv.Name»|ref")
		xs, k := c.slice("xs", 5), c.kfn("f")
		c.start()
		var got aRes
		c.guard(func() { got = c.run(a«$p.P»To(«$p.Pkg».«printf $tv.Call "kf(c, k)"», «$tv.Conv»)) })
		c.same("«$tv.Name»", got, c.run(aRefTraverse(aAnys(xs), c.km(k))))
	})
«end»
	kit.Check(t, "«$p.Pkg».FlatMapTraverseSeq/ref", aRuleOperands+"; input sequence of 0..4 ints inside the effect", aOpt(3), func(rt *rapid.T, rec *kit.Rec) {
		c := aBegin(rt, rec, ad, "C01|«$p.Pkg».FlatMapTraverseSeq|ref")
		d, xs, k := c.val("m"), c.slice("xs", 4), c.kfn("f")
		c.start()
		var got aRes
		c.guard(func() {
			got = c.run(a«$p.P»To(«$p.Pkg».FlatMapTraverseSeq(a«$p.P»Mk(d, func(v int) fp.Seq[int] { return aShift(xs, v) }), kf(c, k)), aSeqAny))
		})
		mm := ad.model(d, func(v int) any { return aSeqAny(aShift(xs, v)) })
		c.same("FlatMapTraverseSeq(m,f)", got, c.run(aBind(mm, func(l any) aM { return aRefTraverse(l.([]any), c.km(k)) })))
	})

	kit.Check(t, "«$p.Pkg».FlatMapTraverseSlice/ref", aRuleOperands+"; input sequence of 0..4 ints inside the effect", aOpt(3), func(rt *rapid.T, rec *kit.Rec) {
		c := aBegin(rt, rec, ad, "C01|«$p.Pkg».FlatMapTraverseSlice|ref")
		d, xs, k := c.val("m"), c.slice("xs", 4), c.kfn("f")
		c.start()
		var got aRes
		c.guard(func() {
			got = c.run(a«$p.P»To(«$p.Pkg».FlatMapTraverseSlice(a«$p.P»Mk(d, func(v int) []int { return aShift(xs, v) }), kf(c, k)), aSliceAny))
		})
		mm := ad.model(d, func(v int) any { return aSeqAny(aShift(xs, v)) })
		c.same("FlatMapTraverseSlice(m,f)", got, c.run(aBind(mm, func(l any) aM { return aRefTraverse(l.([]any), c.km(k)) })))
	})

	kit.Check(t, "«$p.Pkg».Sequence/ref", aRuleOperands+"; 0..5 operands", aOpt(3), func(rt *rapid.T, rec *kit.Rec) {
		c := aBegin(rt, rec, ad, "C01|«$p.Pkg».Sequence|ref")
		ds := c.vals("m", c.pick("n", 6))
		c.start()
		var got aRes
		c.guard(func() {
			ms := make([]M, len(ds))
			for i, d := range ds {
				ms[i] = mk(d)
			}
			got = c.run(a«$p.P»To(«$p.Pkg».Sequence(ms), aSliceAny))
		})
		c.same("Sequence(ms)", got, c.run(aRefSequence(c.ms(ds))))
	})

	kit.Check(t, "«$p.Pkg».SequenceIterator/ref", aRuleOperands+"; 0..5 operands", aOpt(3), func(rt *rapid.T, rec *kit.Rec) {
		c := aBegin(rt, rec, ad, "C01|«$p.Pkg».SequenceIterator|ref")
		ds := c.vals("m", c.pick("n", 6))
		c.start()
		var got aRes
		c.guard(func() {
			ms := make([]M, len(ds))
			for i, d := range ds {
				ms[i] = mk(d)
			}
			got = c.run(a«$p.P»To(«$p.Pkg».SequenceIterator(iterator.FromSeq(ms)), aIterAny))
		})
		c.same("SequenceIterator(ms)", got, c.run(aRefSequence(c.ms(ds))))
	})
}
«if $p.Builders»
// --------------------------------------------------------------------------------------
// «$p.Pkg»: Applicative1..9 / Chain1..9 builders
// --------------------------------------------------------------------------------------

func aBuilders«$p.P»(t *testing.T) {
	ad := aAd«$p.P»
	type M = «$p.M "int"»
	mk := func(d aVal) M { return a«$p.P»Mk(d, aIdInt) }
	to := func(m M) aM { return a«$p.P»To(m, aInt) }
	_, _, _ = ad, mk, to
«range $m := seq 1 9»«range $meth := $p.AMeth»
	kit.Check(t, "«$p.Pkg».ApplicativeFunctor«$m».«$meth»/ref", aRuleBuilder, aOpt(1), func(rt *rapid.T, rec *kit.Rec) {
		c := aBegin(rt, rec, ad, "C01|«$p.Pkg».ApplicativeFunctor«$m».«$meth»|ref")
		x := c.drawX("«$meth»")
		ds := c.vals("a", «sub $m 1»)
		c.noFallible("«$meth»", ds)
		c.start()
		var got aRes
		c.guard(func() {
			got = c.run(to(«chainExpr $p "Applicative" $m 0 $meth»))
		})
		c.same("Applicative«$m»(h).«$meth»(x).«$p.ApM»(..)", got, c.run(aBuilderRef(c, "«$meth»", 0, ds, x)))
	})
«end»«end»
«range $m := seq 1 9»«range $meth := $p.CMeth»
	kit.Check(t, "«$p.Pkg».MonadChain«$m».«$meth»/ref", aRuleBuilder, aOpt(1), func(rt *rapid.T, rec *kit.Rec) {
		c := aBegin(rt, rec, ad, "C01|«$p.Pkg».MonadChain«$m».«$meth»|ref")
		x := c.drawX("«$meth»")
		k := c.pick("prefix", «add (min 2 (sub 9 $m)) 1»)
		ds := c.vals("a", k+«sub $m 1»)
		c.noFallible("«$meth»", ds)
		c.start()
		var got aRes
		c.guard(func() {
			switch k {
«range $k := seq 0 (min 2 (sub 9 $m))»			case «$k»:
				got = c.run(to(«chainExpr $p "Chain" $m $k $meth»))
«end»			}
		})
		c.same("Chain«$m»+prefix(h).«$p.ApM»*prefix.«$meth»(x).«$p.ApM»(..)", got, c.run(aBuilderRef(c, "«$meth»", k, ds, x)))
	})
«end»«end»
}
«end»«end»
// --------------------------------------------------------------------------------------
// try: Func / Pure / Unit / Ptr and their curried forms (func_gen.go, curried_gen.go)
// --------------------------------------------------------------------------------------

func aTryFuncFamilies(t *testing.T) {
	ad := aAdTry
	toU := func(m fp.Try[fp.Unit]) aM { return aTryTo(m, aUnitAny) }
	to := func(m fp.Try[int]) aM { return aTryTo(m, aInt) }
	_, _, _ = ad, to, toU
«range $n := seq 1 9»«range $cur := seq 0 1»«if or (eq $cur 0) (ge $n 2)»«$pre := "" »«if eq $cur 1»«$pre = "Curried"»«end»«$app := printf "(%s)" (list 0 (sub $n 1) "xs[%d]" ", ")»«if eq $cur 1»«$app = list 0 (sub $n 1) "(xs[%d])" ""»«end»«$fn := "Func"»«if eq $cur 1»«$fn = ""»«end»
	kit.Check(t, "try.«$pre»«$fn»«$n»/ref", aRuleFunc, aOpt(1), func(rt *rapid.T, rec *kit.Rec) {
		c := aBegin(rt, rec, ad, "C01|try.«$pre»«$fn»«$n»|ref")
		xs, k := c.ints("x", «$n»), c.kfn("f")
		c.start()
		var got aRes
		c.guard(func() {
			got = c.run(to(try.«$pre»«$fn»«$n»(func(«list 1 $n "a%d" ", "» int) (int, error) {
				c.fu.Use()
				return aRetErr(k.at(aH(«list 1 $n "a%d" ", "»)))
			})«$app»))
		})
		c.same("try.«$pre»«$fn»«$n»(f)(xs)", got, c.run(c.m(k.at(aH(xs...)))))
	})

	kit.Check(t, "try.«$pre»Pure«$n»/ref", aRuleFuncPure, aOpt(1), func(rt *rapid.T, rec *kit.Rec) {
		c := aBegin(rt, rec, ad, "C01|try.«$pre»Pure«$n»|ref")
		xs := c.ints("x", «$n»)
		c.nt = true
		c.start()
		var got aRes
		c.guard(func() {
			got = c.run(to(try.«$pre»Pure«$n»(func(«list 1 $n "a%d" ", "» int) int {
				c.fu.Use()
				return aH(«list 1 $n "a%d" ", "»)
			})«$app»))
		})
		c.same("try.«$pre»Pure«$n»(f)(xs)", got, c.run(aUnit(aH(xs...))))
	})

	kit.Check(t, "try.«$pre»Unit«$n»/ref", aRuleFunc, aOpt(1), func(rt *rapid.T, rec *kit.Rec) {
		c := aBegin(rt, rec, ad, "C01|try.«$pre»Unit«$n»|ref")
		xs, k := c.ints("x", «$n»), c.kfn("f")
		c.start()
		var got aRes
		c.guard(func() {
			got = c.run(toU(try.«$pre»Unit«$n»«if eq $cur 1»[«list 0 $n "int" ", "»]«end»(func(«list 1 $n "a%d" ", "» int) error {
				c.fu.Use()
				_, err := aRetErr(k.at(aH(«list 1 $n "a%d" ", "»)))
				return err
			})«$app»))
		})
		c.same("try.«$pre»Unit«$n»(f)(xs)", got, c.run(aRefReplace(c.m(k.at(aH(xs...))), "unit")))
	})

	kit.Check(t, "try.«$pre»Ptr«$n»/ref", aRuleFunc+"; a success row with value divisible by 3 returns (nil, nil), which must become Failure(fp.ErrOptionEmpty)", aOpt(1), func(rt *rapid.T, rec *kit.Rec) {
		c := aBegin(rt, rec, ad, "C01|try.«$pre»Ptr«$n»|ref")
		xs, k := c.ints("x", «$n»), c.kfn("f")
		c.start()
		var got aRes
		c.guard(func() {
			got = c.run(to(try.«$pre»Ptr«$n»(func(«list 1 $n "a%d" ", "» int) (*int, error) {
				c.fu.Use()
				return aRetPtr(k.at(aH(«list 1 $n "a%d" ", "»)))
			})«$app»))
		})
		c.same("try.«$pre»Ptr«$n»(f)(xs)", got, c.run(aPtrModel(c, k.at(aH(xs...)))))
	})
«end»«end»«end»
}
`
