package c01

// Part A of C01: helpers used by the generated sub-checks (a_family_gen_test.go) and the
// test entry points of the generated monad family.

import (
	"testing"

	"github.com/csgura/fp"

	"verifharness/kit"
)

func TestAOption(t *testing.T)         { aFamilyOption(t) }
func TestATry(t *testing.T)            { aFamilyTry(t) }
func TestAEither(t *testing.T)         { aFamilyEither(t) }
func TestAStateT(t *testing.T)         { aFamilyStateT(t) }
func TestAOptionBuilders(t *testing.T) { aBuildersOption(t) }
func TestATryBuilders(t *testing.T)    { aBuildersTry(t) }
func TestATryFunc(t *testing.T)        { aTryFuncFamilies(t) }

// aPM: model side of a pure table function
func aPM(f kit.IntFn) func(any) any {
	return func(x any) any { return f.Call(x.(int)) }
}

// aShift: the sequence payload xs shifted by v (always a fresh slice)
func aShift(xs []int, v int) []int {
	r := make([]int, 0, len(xs))
	for _, x := range xs {
		r = append(r, x+v)
	}
	return r
}

func aUnitAny(fp.Unit) any { return "unit" }

// ---- builders ----------------------------------------------------------------------------

const aRuleBuilder = "builder of arity N = prefix+M: the first `prefix` (0..2) operands are fed with the primitive ApOption/ApTry, the method under test supplies operand prefix+1 of type MonadChainM / ApplicativeFunctorM (constant, M value, supplier, or a function of the previous value / of the HList of previous values), the remaining M-1 operands are fed with the primitive again; operands drawn per constructor with failure patterns none/one/two/iid, table functions with failing rows; the final M[R] is compared with do-notation over the harness' own unit/bind ending in unit(h(x1..xN)), h the position-sensitive hash; non-trivial iff an operand (or the method's operand/table) is not a success, or when the expression has no fallible operand at all (arity 1 fed with a constant: every case counts); distinct by printed (method, prefix, operands, tables)"

// aX: the draws specific to the method under test
type aX struct {
	v int
	d aVal
	k aKFn
	f kit.IntFn
}

func (c *aCase) drawX(meth string) aX {
	var x aX
	switch meth {
	case "Ap", "ApFunc":
		x.v = c.int("x")
	case "ApOption", "ApTry", "ApOptionFunc", "ApTryFunc":
		x.d = c.val("x")
	case "FlatMap", "HListFlatMap":
		x.k = c.kfn("x")
	case "Map", "HListMap":
		x.f = c.ifn("x")
	default:
		panic("unknown builder method " + meth)
	}
	return x
}

// noFallible marks a builder case without any fallible operand (arity 1 fed with a
// constant) as counting, as stated in aRuleBuilder.
func (c *aCase) noFallible(meth string, ds []aVal) {
	if len(ds) == 0 && (meth == "Ap" || meth == "ApFunc") {
		c.nt = true
	}
}

// aBuilderRef: x1..xk <- ds[0..k) ; x(k+1) <- the method's operand ; rest <- ds[k..) ; unit(h(xs))
func aBuilderRef(c *aCase, meth string, k int, ds []aVal, x aX) aM {
	var steps []func(prev []any) aM
	for i := 0; i < k; i++ {
		m := c.m(ds[i])
		steps = append(steps, func([]any) aM { return m })
	}
	last := func(prev []any) int { // the previous value, 0 if there is none (HT = hlist.Nil)
		if len(prev) == 0 {
			return 0
		}
		return prev[0].(int)
	}
	optionAsThis := func(d aVal) aM {
		if c.ad == aAdTry {
			// try's ApOption / ApOptionFunc: None becomes Failure(fp.ErrOptionEmpty)
			if d.Fail {
				return aFail(fp.ErrOptionEmpty)
			}
			return aUnit(d.V)
		}
		return c.m(d)
	}
	var xs func(prev []any) aM
	switch meth {
	case "Ap", "ApFunc":
		xs = func([]any) aM { return aUnit(x.v) }
	case "ApTry", "ApTryFunc":
		xs = func([]any) aM { return c.m(x.d) }
	case "ApOption", "ApOptionFunc":
		xs = func([]any) aM { return optionAsThis(x.d) }
	case "FlatMap":
		xs = func(prev []any) aM { return c.m(x.k.at(last(prev))) }
	case "Map":
		xs = func(prev []any) aM { return aUnit(x.f.Call(last(prev))) }
	case "HListMap":
		xs = func(prev []any) aM { return aUnit(x.f.Call(aHAny(prev).(int))) }
	case "HListFlatMap":
		xs = func(prev []any) aM { return c.m(x.k.at(aHAny(prev).(int))) }
	default:
		panic("unknown builder method " + meth)
	}
	steps = append(steps, xs)
	for i := k; i < len(ds); i++ {
		m := c.m(ds[i])
		steps = append(steps, func([]any) aM { return m })
	}
	return aRefDo(steps, func(all []any) aM { return aUnit(aHAny(all)) })
}

// ---- try.FuncN / PureN / UnitN / PtrN ------------------------------------------------------

const aRuleFunc = "N ints and a table function; the Go-style callback (value, error) is derived from the table row selected by the position-sensitive hash of its arguments; try.<Family>N(f)(args) is compared with: failure(err) if the row fails, else unit(value); non-trivial iff the table has a failing row; distinct by printed (family, arity, args, table)"

const aRuleFuncPure = "N ints; try.[Curried]PureN(h)(args) with h the position-sensitive hash is compared with unit(h(args)); the combinator cannot fail, every case counts as non-trivial; distinct by printed (arity, args)"

func aRetErr(d aVal) (int, error) {
	if d.Fail {
		return 0, kit.Errs[d.E]
	}
	return d.V, nil
}

func aRetPtr(d aVal) (*int, error) {
	if d.Fail {
		if d.E%2 == 1 {
			z := 0
			return &z, kit.Errs[d.E] // a non-nil pointer together with an error: the error wins
		}
		return nil, kit.Errs[d.E]
	}
	if d.V%3 == 0 {
		return nil, nil
	}
	v := d.V
	return &v, nil
}

func aPtrModel(c *aCase, d aVal) aM {
	if d.Fail {
		return c.m(d)
	}
	if d.V%3 == 0 {
		return aFail(fp.ErrOptionEmpty)
	}
	return aUnit(d.V)
}
