package c01

import (
	"fmt"
	"testing"

	"github.com/csgura/fp/lazy"
	"pgregory.net/rapid"

	"verifharness/kit"
)

// lazy.Eval[int] against the strict "box" model. Construction kinds:
// 0 zero value Eval[int]{} (documented to yield the zero of T), 1 Done, 2 Call,
// 3 TailCall -> Done, 4 TailCall -> TailCall -> Call, 5 TailCall1(f, a), 6 TailCall2(f, a, b).
const bEvalKinds = 7

func bMkEval(kind int, v int) lazy.Eval[int] {
	switch kind {
	case 0:
		if v == 0 {
			return lazy.Eval[int]{}
		}
		return lazy.Done(v)
	case 1:
		return lazy.Done(v)
	case 2:
		return lazy.Call(func() int { return v })
	case 3:
		return lazy.TailCall(func() lazy.Eval[int] { return lazy.Done(v) })
	case 4:
		return lazy.TailCall(func() lazy.Eval[int] {
			return lazy.TailCall(func() lazy.Eval[int] { return lazy.Call(func() int { return v }) })
		})
	case 5:
		return lazy.TailCall1(func(a int) lazy.Eval[int] { return lazy.Done(a) }, v)
	default:
		return lazy.TailCall2(func(a, b int) lazy.Eval[int] { return lazy.Call(func() int { return a + b }) }, v-7, 7)
	}
}

func bEvalCore() *bCore[lazy.Eval[int]] {
	return &bCore[lazy.Eval[int]]{
		name: "lazy", model: bBoxM, maxLen: 1,
		genVal: func(rt *rapid.T, label string, maxLen int) bVal {
			k := rapid.IntRange(0, bEvalKinds-1).Draw(rt, label+".kind")
			if k == 0 {
				return bVal{K: 0, Xs: []int{0}}
			}
			return bVal{K: k, Xs: []int{kit.TinyInt().Draw(rt, label)}}
		},
		build:   func(v bVal, s int) lazy.Eval[int] { return bMkEval(v.K, v.Xs[0]+s) },
		lift:    func(v bVal, s int) any { return bBox{v.Xs[0] + s} },
		observe: func(m lazy.Eval[int], limit int) ([]int, bool) { return []int{m.Get()}, true },
		ntVal:   func(v bVal) bool { return v.K != 1 },
		ntRule:  "non-trivial iff at least one operand / table row is deferred (zero value, Call, TailCall*) rather than a plain Done",
	}
}

func TestBLazy(t *testing.T) {
	c := bEvalCore()
	type M = lazy.Eval[int]
	p := &bPkg[M, struct{}, struct{}]{
		bCore:           c,
		units:           []bUnit[M]{{"Done", lazy.Done[int]}},
		flatMapName:     "FlatMap",
		flatMap:         func(m M, f func(int) M) M { return lazy.FlatMap(m, f) },
		mapI:            func(m M, f func(int) int) M { return lazy.Map(m, f) },
		map2:            func(a, b M, f func(int, int) int) M { return lazy.Map2(a, b, f) },
		composePure:     func(f func(int) int) func(int) M { return lazy.Func1(f) },
		composePureName: "Func1",
	}
	bRunPkg(t, p)

	tail := "; " + c.ntRule + "; distinct by printed inputs"

	kit.Check(t, "lazy.method.FlatMap/ref", "Eval.FlatMap method against the harness' bind (strict application), result read with Get and with lazy.Run"+tail, bOpt, func(rt *rapid.T, rec *kit.Rec) {
		m := c.genVal(rt, "m", 1)
		f := c.genTab(rt, "f", 1)
		rec.Case(c.nt(bVals(m), f), fmt.Sprintf("%s|%s", m, f))
		ref := func() any { return bBoxM.bind(c.lift(m, 0), c.tabRef(f)) }
		c.expect(rt, rec, "C01|lazy.method.FlatMap|ref", fmt.Sprintf("%s.FlatMap(%s).Get()", m, f), ref,
			func(fuel *kit.Fuel) M { return c.build(m, 0).FlatMap(c.tabLib(f, fuel)) })
		c.expect(rt, rec, "C01|lazy.method.FlatMap|ref", fmt.Sprintf("Run(%s.FlatMap(%s))", m, f), ref,
			func(fuel *kit.Fuel) M { return lazy.Done(lazy.Run(c.build(m, 0).FlatMap(c.tabLib(f, fuel)))) })
	})
	kit.Check(t, "lazy.method.Map/def", "Eval.Map method against bind(m, x => unit(f x)) and against m.FlatMap(Done∘f)"+tail, bOpt, func(rt *rapid.T, rec *kit.Rec) {
		m := c.genVal(rt, "m", 1)
		f := bGenFn1(rt, "f")
		rec.Case(c.nt(bVals(m)), fmt.Sprintf("%s|%s", m, f))
		ref := func() any { return bRefMap(bBoxM, c.lift(m, 0), f.ref()) }
		c.expect(rt, rec, "C01|lazy.method.Map|def", fmt.Sprintf("%s.Map(%s)", m, f), ref,
			func(fuel *kit.Fuel) M { return c.build(m, 0).Map(f.lib(fuel)) })
		c.expect(rt, rec, "C01|lazy.method.Map|def", fmt.Sprintf("%s.FlatMap(Done∘%s)", m, f), ref,
			func(fuel *kit.Fuel) M {
				return c.build(m, 0).FlatMap(func(x int) M { return lazy.Done(f.lib(fuel)(x)) })
			})
	})

	kit.Check(t, "lazy.Func2/ref", "position-sensitive binary function and two ints; Func2(f)(a,b) against unit(f a b); every case non-trivial (the value is deferred by Call); distinct by printed inputs", bOpt, func(rt *rapid.T, rec *kit.Rec) {
		f := bGenLin(rt, "f", 2)
		a := rapid.SliceOfN(kit.TinyInt(), 2, 2).Draw(rt, "args")
		rec.Case(true, fmt.Sprintf("%s|%v", f, a))
		c.expect(rt, rec, "C01|lazy.Func2|ref", fmt.Sprintf("lazy.Func2(%s)(%v)", f, a),
			func() any { return bBoxM.unit(f.call(a)) },
			func(fuel *kit.Fuel) M {
				return lazy.Func2(func(x, y int) int { fuel.Use(); return bLin(f.C, x, y) })(a[0], a[1])
			})
	})
	kit.Check(t, "lazy.Func3/ref", "position-sensitive ternary function and three ints; Func3(f)(a,b,c) against unit(f a b c); every case non-trivial; distinct by printed inputs", bOpt, func(rt *rapid.T, rec *kit.Rec) {
		f := bGenLin(rt, "f", 3)
		a := rapid.SliceOfN(kit.TinyInt(), 3, 3).Draw(rt, "args")
		rec.Case(true, fmt.Sprintf("%s|%v", f, a))
		c.expect(rt, rec, "C01|lazy.Func3|ref", fmt.Sprintf("lazy.Func3(%s)(%v)", f, a),
			func() any { return bBoxM.unit(f.call(a)) },
			func(fuel *kit.Fuel) M {
				return lazy.Func3(func(x, y, z int) int { fuel.Use(); return bLin(f.C, x, y, z) })(a[0], a[1], a[2])
			})
	})

	kit.Check(t, "lazy.TailCallN/ref", "TailCall1..3(f, args..) with f a table function into Eval values of every kind, against the strict f(args..); "+c.ntRule+"; distinct by printed inputs", bOpt, func(rt *rapid.T, rec *kit.Rec) {
		n := rapid.IntRange(1, 3).Draw(rt, "arity")
		f := c.genTab(rt, "f", 1)
		l := bGenLin(rt, "l", n)
		a := rapid.SliceOfN(kit.TinyInt(), n, n).Draw(rt, "args")
		rec.Case(c.nt(nil, f), fmt.Sprintf("%d|%s|%s|%v", n, f, l, a))
		c.expect(rt, rec, "C01|lazy.TailCallN|ref", fmt.Sprintf("lazy.TailCall%d(%s∘%s, %v)", n, f, l, a),
			func() any { return c.tabRef(f)(l.call(a)) },
			func(fuel *kit.Fuel) M {
				g := c.tabLib(f, fuel)
				switch n {
				case 1:
					return lazy.TailCall1(func(x int) M { return g(bLin(l.C, x)) }, a[0])
				case 2:
					return lazy.TailCall2(func(x, y int) M { return g(bLin(l.C, x, y)) }, a[0], a[1])
				default:
					return lazy.TailCall3(func(x, y, z int) M { return g(bLin(l.C, x, y, z)) }, a[0], a[1], a[2])
				}
			})
	})

	// long chains: termination / stack safety of the trampoline
	maxN := kit.Pick(300, 1200)
	kit.Check(t, "lazy/deep-chain", fmt.Sprintf("a chain of n (1..%d; tail-call loop up to 20x longer) steps x -> x + tab[i mod k] built as (0) left-nested FlatMap, (1) right-nested FlatMap, (2) TailCall loop, (3) non-tail recursion TailCall(rec).FlatMap(..) as in FoldRight, start value of every kind; result against the strict fold; non-trivial iff n >= 2; distinct by printed (shape, n, start, table)", maxN), bOptW(0.25), func(rt *rapid.T, rec *kit.Rec) {
		shape := rapid.IntRange(0, 3).Draw(rt, "shape")
		n := rapid.IntRange(1, maxN).Draw(rt, "n")
		if shape == 2 {
			n *= rapid.IntRange(1, 20).Draw(rt, "times")
		}
		start := c.genVal(rt, "start", 1)
		tab := rapid.SliceOfN(kit.TinyInt(), 1, 3).Draw(rt, "tab")
		step := func(i int) int { return tab[bMod(i, len(tab))] }
		rec.Case(n >= 2, fmt.Sprintf("s%d|n%d|%s|%v", shape, n, start, tab))
		rec.Label(fmt.Sprintf("shape=%d", shape))
		want := start.Xs[0]
		for i := 0; i < n; i++ {
			want += step(i)
		}
		sig := "C01|lazy|deep-chain"
		fuel := kit.NewFuel(40*n+1000, sig)
		var got int
		rec.Guard(rt, sig, func() {
			var m M
			switch shape {
			case 0:
				m = c.build(start, 0)
				for i := 0; i < n; i++ {
					d := step(i)
					m = m.FlatMap(func(x int) M { fuel.Use(); return lazy.Done(x + d) })
				}
			case 1:
				var from func(i int, x int) M
				from = func(i int, x int) M {
					fuel.Use()
					if i == n {
						return lazy.Done(x)
					}
					return lazy.Done(x + step(i)).FlatMap(func(y int) M { return from(i+1, y) })
				}
				m = c.build(start, 0).FlatMap(func(x int) M { return from(0, x) })
			case 2:
				var loop func(i int, acc int) M
				loop = func(i int, acc int) M {
					fuel.Use()
					if i == n {
						return lazy.Done(acc)
					}
					return lazy.TailCall(func() M { return loop(i+1, acc+step(i)) })
				}
				m = c.build(start, 0).FlatMap(func(x int) M { return loop(0, x) })
			default:
				var sum func(i int) M
				sum = func(i int) M {
					fuel.Use()
					if i == n {
						return c.build(start, 0)
					}
					return lazy.TailCall(func() M { return sum(i + 1) }).FlatMap(func(v int) M { return lazy.Done(v + step(i)) })
				}
				m = sum(0)
			}
			got = m.Get()
		})
		if got != want {
			rec.Failf(rt, sig, "shape %d, n=%d, start %s, steps %v: Get() = %d, strict fold = %d", shape, n, start, tab, got, want)
		}
	})
}
