package c01

import (
	"fmt"
	"testing"

	"github.com/csgura/fp"
	"github.com/csgura/fp/fn0"
	"github.com/csgura/fp/fn1"
	"pgregory.net/rapid"

	"verifharness/kit"
)

// ---- fn0: fp.Func0[int] observed by calling it -------------------------------------------------
// kinds: 0 fn0.Pure(v), 1 a plain closure, 2 fp.Memoize(closure)

func bMkFn0(kind int, v int) fp.Func0[int] {
	switch kind {
	case 0:
		return fn0.Pure(v)
	case 1:
		return func(fp.Unit) int { return v }
	default:
		return fp.Memoize(func() int { return v })
	}
}

func bFn0Core() *bCore[fp.Func0[int]] {
	return &bCore[fp.Func0[int]]{
		name: "fn0", model: bThunkM, maxLen: 1,
		genVal: func(rt *rapid.T, label string, maxLen int) bVal {
			return bVal{K: rapid.IntRange(0, 2).Draw(rt, label+".kind"), Xs: []int{kit.TinyInt().Draw(rt, label)}}
		},
		build: func(v bVal, s int) fp.Func0[int] { return bMkFn0(v.K, v.Xs[0]+s) },
		lift:  func(v bVal, s int) any { x := v.Xs[0] + s; return func() any { return x } },
		observe: func(m fp.Func0[int], limit int) ([]int, bool) {
			a := m(fp.Unit{})
			if b := m.Apply(); a != b {
				panic(fmt.Sprintf("Func0 called twice gave %d then %d", a, b))
			}
			return []int{a}, true
		},
		ntVal:  func(v bVal) bool { return v.K != 0 },
		ntRule: "non-trivial iff at least one operand / table row is a closure or memoized thunk rather than fn0.Pure",
	}
}

func TestBFn0(t *testing.T) {
	c := bFn0Core()
	type M = fp.Func0[int]
	type MM = fp.Func0[fp.Func0[int]]
	p := &bPkg[M, MM, struct{}]{
		bCore:       c,
		units:       []bUnit[M]{{"Pure", fn0.Pure[int]}},
		flatMapName: "FlatMap",
		flatMap: func(m M, f func(int) M) M {
			return fn0.FlatMap[int, int](m, f)
		},
		mapI:     func(m M, f func(int) int) M { return fn0.Map[int, int](m, f) },
		mapM:     func(m M, f func(int) M) MM { return fn0.Map[int, fp.Func0[int]](m, f) },
		flatten:  func(mm MM) M { return fn0.Flatten(mm) },
		genOuter: func(rt *rapid.T, label string) int { return rapid.IntRange(0, 2).Draw(rt, label) },
		outerMin: 1, outerMax: 1,
		buildMM: func(o int, inner []M) MM {
			switch o {
			case 0:
				return fn0.Pure(inner[0])
			case 1:
				return func(fp.Unit) fp.Func0[int] { return inner[0] }
			default:
				return fp.Memoize(func() fp.Func0[int] { return inner[0] })
			}
		},
	}
	bRunPkg(t, p)
}

// ---- fn1: fp.Func1[int,int] (reader) observed extensionally on bDomain -----------------------------
// kinds: 0 fn1.Pure (constant Xs[0]), 1 table closure e -> Xs[e mod k], 2 linear closure
// e -> e*Xs[0] + Xs[last], 3 fn1.Get (identity). `shift` is added to the result.

func bFn1Base(v bVal, e int) int {
	switch v.K {
	case 0:
		return v.Xs[0]
	case 1:
		return v.Xs[bMod(e, len(v.Xs))]
	case 2:
		return e*v.Xs[0] + v.Xs[len(v.Xs)-1]
	default:
		return e
	}
}

func bMkFn1(v bVal, s int) fp.Func1[int, int] {
	switch v.K {
	case 0:
		return fn1.Pure[int](v.Xs[0] + s)
	case 3:
		if s == 0 {
			return fn1.Get[int]()
		}
	}
	return func(e int) int { return bFn1Base(v, e) + s }
}

func bFn1Core() *bCore[fp.Func1[int, int]] {
	return &bCore[fp.Func1[int, int]]{
		name: "fn1", model: bReaderM, maxLen: 3,
		genVal: func(rt *rapid.T, label string, maxLen int) bVal {
			return bVal{K: rapid.IntRange(0, 3).Draw(rt, label+".kind"), Xs: rapid.SliceOfN(kit.TinyInt(), 1, 3).Draw(rt, label)}
		},
		build: bMkFn1,
		lift:  func(v bVal, s int) any { return func(e int) any { return bFn1Base(v, e) + s } },
		observe: func(m fp.Func1[int, int], limit int) ([]int, bool) {
			out := []int{}
			for _, e := range bDomain {
				out = append(out, m(e))
			}
			return out, true
		},
		ntVal:  func(v bVal) bool { return v.K != 0 },
		ntRule: "non-trivial iff at least one operand / table row depends on the argument (is not fn1.Pure); functions are compared on a 13-point test domain",
	}
}

func TestBFn1(t *testing.T) {
	c := bFn1Core()
	type M = fp.Func1[int, int]
	type MM = fp.Func1[int, fp.Func1[int, int]]
	p := &bPkg[M, MM, struct{}]{
		bCore:       c,
		units:       []bUnit[M]{{"Pure", fn1.Pure[int, int]}},
		flatMapName: "FlatMap",
		flatMap:     func(m M, f func(int) M) M { return fn1.FlatMap[int, int, int](m, f) },
		mapI:        func(m M, f func(int) int) M { return fn1.Map[int, int, int](m, f) },
		mapM:        func(m M, f func(int) M) MM { return fn1.Map[int, int, fp.Func1[int, int]](m, f) },
		flatten:     func(mm MM) M { return fn1.Flatten(mm) },
		genOuter:    func(rt *rapid.T, label string) int { return rapid.IntRange(0, 1).Draw(rt, label) },
		outerMin:    1, outerMax: 3,
		buildMM: func(o int, inner []M) MM {
			if o == 0 && len(inner) == 1 {
				return fn1.Pure[int](inner[0])
			}
			return func(e int) fp.Func1[int, int] { return inner[bMod(e, len(inner))] }
		},
	}
	bRunPkg(t, p)

	tail := "; " + c.ntRule + "; distinct by printed inputs"

	kit.Check(t, "fn1.WithArg/ref", "a table function int -> reader; WithArg(fn) against bind(ask, fn) with ask = the identity reader, and fn1.Get against ask"+tail, bOpt, func(rt *rapid.T, rec *kit.Rec) {
		f := c.genTab(rt, "f", 3)
		rec.Case(c.nt(nil, f), f.String())
		ask := func(e int) any { return e }
		c.expect(rt, rec, "C01|fn1.Get|ref", "fn1.Get()", func() any { return ask }, func(fuel *kit.Fuel) M { return fn1.Get[int]() })
		c.expect(rt, rec, "C01|fn1.WithArg|ref", fmt.Sprintf("fn1.WithArg(%s)", f),
			func() any { return bReaderM.bind(ask, c.tabRef(f)) },
			func(fuel *kit.Fuel) M { return fn1.WithArg[int, int](c.tabLib(f, fuel)) })
	})

	// Merge*: the applicative product of the reader monad (f &&& g)
	kit.Check(t, "fn1.Merge/ref", "2..5 readers of every kind; Merge (2, pair result), Merge2 (Tuple2) and Merge3..5 (TupleN) against the monadic product bind(f1, x1 => .. bind(fn, xn => unit(x1..xn))), compared on the test domain"+tail, bOpt, func(rt *rapid.T, rec *kit.Rec) {
		n := rapid.IntRange(2, 5).Draw(rt, "n")
		fs := []bVal{}
		for i := 0; i < n; i++ {
			fs = append(fs, c.genVal(rt, "f", 3))
		}
		rec.Case(c.nt(fs), fmt.Sprintf("%v", fs))
		rec.Label(fmt.Sprintf("n=%d", n))
		ms := []any{}
		for _, f := range fs {
			ms = append(ms, c.lift(f, 0))
		}
		prod := bRefProduct(bReaderM, ms).(func(int) any)
		sig := fmt.Sprintf("C01|fn1.Merge%d|ref", n)
		l := func(i int) M { return c.build(fs[i], 0) }
		for _, e := range bDomain {
			want := prod(e).([]int)
			var got []int
			var got2 []int
			rec.Guard(rt, sig, func() {
				switch n {
				case 2:
					a, b := fn1.Merge(l(0), l(1))(e)
					got2 = []int{a, b}
					tp := fn1.Merge2(l(0), l(1))(e)
					got = []int{tp.I1, tp.I2}
				case 3:
					tp := fn1.Merge3(l(0), l(1), l(2))(e)
					got = []int{tp.I1, tp.I2, tp.I3}
				case 4:
					tp := fn1.Merge4(l(0), l(1), l(2), l(3))(e)
					got = []int{tp.I1, tp.I2, tp.I3, tp.I4}
				default:
					tp := fn1.Merge5(l(0), l(1), l(2), l(3), l(4))(e)
					got = []int{tp.I1, tp.I2, tp.I3, tp.I4, tp.I5}
				}
			})
			if !bEqInts(got, want) {
				rec.Failf(rt, sig, "fn1.Merge%d(%v)(%d) = %v, monadic product gives %v", n, fs, e, got, want)
			}
			if n == 2 && !bEqInts(got2, want) {
				rec.Failf(rt, "C01|fn1.Merge|ref", "fn1.Merge(%v)(%d) = %v, monadic product gives %v", fs, e, got2, want)
			}
		}
	})
}
