package c01

import (
	"testing"

	"verifharness/kit"
)

func TestMain(m *testing.M) { kit.Main(m) }
