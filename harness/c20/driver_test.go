// Package c20: iterator protocol soundness (property C20).
//
// Every iterator the library hands out is driven by a generated script of
// HasNext (also repeated) and Next calls and compared, call by call, with a
// reference element sequence computed on plain slices.
package c20

import (
	"fmt"
	"sort"
	"strings"
	"testing"

	"github.com/csgura/fp"
	"pgregory.net/rapid"

	"verifharness/kit"
)

func TestMain(m *testing.M) { kit.Main(m) }

// ---- script engine ---------------------------------------------------------------

// side is one iterator under test together with its reference.
type side[T comparable] struct {
	name    string
	it      fp.Iterator[T]
	ref     []T
	ordered bool
	i       int       // number of elements delivered so far
	checked bool      // HasNext was called since the last Next
	remain  map[T]int // unordered: multiset still to be delivered
	dead    bool      // a bare Next panicked although elements remained: nothing more is demanded
	got     []T
}

func newSide[T comparable](name string, ref []T, ordered bool) *side[T] {
	s := &side[T]{name: name, ref: ref, ordered: ordered}
	if !ordered {
		s.remain = map[T]int{}
		for _, v := range ref {
			s.remain[v]++
		}
	}
	return s
}

type engine[T comparable] struct {
	rt    *rapid.T
	rec   *kit.Rec
	sig   string
	trace []string
	after func() // invariant hook, run after every library call
}

func (e *engine[T]) tr() string { return strings.Join(e.trace, " ") }

func (e *engine[T]) failf(clause string, format string, args ...any) {
	e.rec.Failf(e.rt, e.sig+"|"+clause, "%s\n  calls so far: %s", fmt.Sprintf(format, args...), e.tr())
}

// hasNext calls HasNext k times in a row; every answer must be "reference not exhausted".
func (e *engine[T]) hasNext(s *side[T], k int) {
	if s.dead {
		return
	}
	want := s.i < len(s.ref)
	for j := 0; j < k; j++ {
		var got bool
		e.trace = append(e.trace, s.name+"HasNext")
		e.rec.Guard(e.rt, e.sig+"|hasnext", func() { got = s.it.HasNext() })
		if got != want {
			clause := "hasnext"
			if j > 0 {
				clause = "hasnext-idempotent"
			}
			e.failf(clause, "%sHasNext() call %d of %d in a row = %v, want %v: %d of %d reference elements delivered (ref=%v, delivered=%v)", s.name, j+1, k, got, want, s.i, len(s.ref), s.ref, s.got)
		}
		if e.after != nil {
			e.after()
		}
	}
	if k > 1 {
		e.rec.Label("op:HasNext-repeated")
	} else {
		e.rec.Label("op:HasNext")
	}
	s.checked = true
}

func (e *engine[T]) accept(s *side[T], v T, clause string) {
	if s.ordered {
		if v != s.ref[s.i] {
			e.failf(clause, "%sNext() = %v, want element #%d = %v (ref=%v, delivered=%v)", s.name, v, s.i, s.ref[s.i], s.ref, s.got)
		}
	} else {
		if s.remain[v] <= 0 {
			e.failf(clause, "%sNext() = %v which is not among the elements still to be delivered (duplicate or fabricated); ref multiset=%v delivered=%v", s.name, v, s.ref, s.got)
		}
		s.remain[v]--
	}
	s.got = append(s.got, v)
	s.i++
}

// next calls Next once.
//   - elements remain and HasNext was called since the last Next: must return the next element;
//   - elements remain, bare Next: must not fabricate (next element, or a panic after which nothing more is asked);
//   - exhausted: must panic; HasNext stays false afterwards (checked by the following hasNext ops).
func (e *engine[T]) next(s *side[T]) {
	if s.dead {
		return
	}
	e.trace = append(e.trace, s.name+"Next")
	var v T
	if s.i < len(s.ref) {
		if s.checked {
			e.rec.Label("op:Next-after-HasNext")
			e.rec.Guard(e.rt, e.sig+"|next", func() { v = s.it.Next() })
			e.accept(s, v, "next-elem")
		} else {
			pv, panicked := kit.Catch(func() { v = s.it.Next() })
			if panicked {
				if fe, ok := pv.(kit.FuelExhausted); ok {
					e.failf("nonterm", "%sNext(): %v", s.name, fe)
				}
				e.rec.Label("op:Next-bare-panicked")
				s.dead = true
				return
			}
			e.rec.Label("op:Next-bare-returned")
			e.accept(s, v, "bare-next-fabricated")
		}
	} else {
		pv, panicked := kit.Catch(func() { v = s.it.Next() })
		if !panicked {
			e.failf("next-exhausted", "%sNext() on the exhausted iterator returned %v instead of panicking: fabricated a value (ref=%v, all %d delivered)", s.name, v, s.ref, len(s.ref))
		}
		if fe, ok := pv.(kit.FuelExhausted); ok {
			e.failf("nonterm", "%sNext() on the exhausted iterator: %v", s.name, fe)
		}
		e.rec.Label("op:Next-exhausted-panicked")
	}
	s.checked = false
	if e.after != nil {
		e.after()
	}
}

// finish drains the side canonically and then goes past the end twice.
func (e *engine[T]) finish(s *side[T]) {
	for !s.dead && s.i < len(s.ref) {
		e.hasNext(s, 1)
		e.next(s)
	}
	e.next(s)
	e.hasNext(s, 2)
	e.next(s)
	e.hasNext(s, 1)
}

// ---- single iterator scripts -------------------------------------------------------

// script alphabet: h = HasNext, H = HasNext twice, T = HasNext three times, n = Next.
var opGen = rapid.SampledFrom([]byte{'h', 'h', 'H', 'T', 'n', 'n', 'n', 'n'})

// uniform draws lo..hi (inclusive) without rapid's bias towards small values.
func uniform(rt *rapid.T, label string, lo, hi int) int {
	if hi <= lo {
		return lo
	}
	x := rapid.Uint64().Draw(rt, label) * 0x9E3779B97F4A7C15 // mix: rapid favours small raw values; 0 still maps to lo for shrinking
	return lo + int((x>>24)%uint64(hi-lo+1))
}

var segGen = rapid.SampledFrom([]string{"n", "n", "hn", "hn", "Hn", "Tn", "hHn", "HTn", "h", "H"})

// drawScript: free-form (any order, Next bursts without HasNext) or segment-wise
// (every Next preceded by 0..5 HasNext calls), long enough to reach the end in most cases.
func drawScript(rt *rapid.T, n int) string {
	if rapid.IntRange(0, 2).Draw(rt, "scriptmode") == 0 {
		return string(rapid.SliceOfN(opGen, n, 3*n+6).Draw(rt, "script"))
	}
	m := uniform(rt, "segments", 0, n+3)
	return strings.Join(rapid.SliceOfN(segGen, m, m).Draw(rt, "segs"), "")
}

// scriptNontrivial: a repeated HasNext occurs between two Next calls that both deliver
// an element (the canonical tail always supplies the second Next).
func scriptNontrivial(script string, n int) bool {
	i := 0
	for _, c := range script {
		switch c {
		case 'n':
			if i < n {
				i++
			}
		case 'H', 'T':
			if i >= 1 && i < n {
				return true
			}
		}
	}
	return false
}

const scriptRule = "script over {HasNext, HasNext x2, HasNext x3, Next} of length 0..3n+6 (free-form or one segment of 0..5 HasNext calls per Next) followed by a canonical drain and two Next calls past the end; " +
	"oracle: reference sequence computed on plain slices (multiset for Go-map/HAMT backed sources); " +
	"non-trivial iff a repeated HasNext occurs after the first and before the last delivered element; distinct by printed input and script"

// runScript drives one freshly made iterator with a drawn script against ref.
func runScript[T comparable](rt *rapid.T, rec *kit.Rec, sig string, desc string, mk func() fp.Iterator[T], ref []T, ordered bool) {
	script := drawScript(rt, len(ref))
	nt := scriptNontrivial(script, len(ref))
	rec.Case(nt, desc+" | "+script)
	if nt {
		rec.Label("script:repeated-HasNext-between-elements")
	}
	rec.Label(lenClass(len(ref)))
	s := newSide("", ref, ordered)
	rec.Guard(rt, sig+"|construct", func() { s.it = mk() })
	e := &engine[T]{rt: rt, rec: rec, sig: sig}
	for _, c := range script {
		switch c {
		case 'h':
			e.hasNext(s, 1)
		case 'H':
			e.hasNext(s, 2)
		case 'T':
			e.hasNext(s, 3)
		case 'n':
			e.next(s)
		}
	}
	e.finish(s)
}

func lenClass(n int) string {
	switch {
	case n == 0:
		return "ref-len:0"
	case n == 1:
		return "ref-len:1"
	case n <= 4:
		return "ref-len:2-4"
	case n <= 16:
		return "ref-len:5-16"
	default:
		return "ref-len:17+"
	}
}

// scriptCheck registers one sub-check "<name>/script" whose body draws the input, and
// returns description, factory, reference.
func scriptCheck[T comparable](t *testing.T, name string, input string, ordered bool, opt kit.Opt, draw func(rt *rapid.T) (desc string, mk func() fp.Iterator[T], ref []T)) {
	t.Helper()
	kit.Check(t, name+"/script", input+"; "+scriptRule, opt, func(rt *rapid.T, rec *kit.Rec) {
		desc, mk, ref := draw(rt)
		runScript(rt, rec, "C20|"+name, desc, mk, ref, ordered)
	})
}

// ---- shared generators ---------------------------------------------------------------

func genXs(max int) *rapid.Generator[[]int] {
	return rapid.Custom(func(t *rapid.T) []int {
		n := uniform(t, "len", 0, max)
		return rapid.SliceOfN(kit.TinyInt(), n, n).Draw(t, "elems")
	})
}

// source kinds: the same elements behind differently implemented library iterators.
const nSrcKinds = 5

func mkSrc(kind int, xs []int) fp.Iterator[int] {
	return mkSrcOf(kind, xs)
}

func srcKindName(kind int) string {
	return [...]string{"FromSeq", "FromList", "Pull", "Concat", "Reverse"}[kind]
}

func sortedKeys[V any](m map[int]V) []int {
	ks := make([]int, 0, len(m))
	for k := range m {
		ks = append(ks, k)
	}
	sort.Ints(ks)
	return ks
}

func showMap[V any](m map[int]V) string {
	var sb strings.Builder
	sb.WriteString("{")
	for _, k := range sortedKeys(m) {
		fmt.Fprintf(&sb, "%d:%v,", k, m[k])
	}
	sb.WriteString("}")
	return sb.String()
}

// predGen: table predicates (period 2..5) and threshold predicates.
type pred struct {
	Tab []bool
	Le  *int
}

func (p pred) Call(x int) bool {
	if p.Le != nil {
		return x <= *p.Le
	}
	k := len(p.Tab)
	return p.Tab[((x%k)+k)%k]
}

func (p pred) String() string {
	if p.Le != nil {
		return fmt.Sprintf("λx.x<=%d", *p.Le)
	}
	return fmt.Sprintf("λx.%v[x mod %d]", p.Tab, len(p.Tab))
}

func predGen() *rapid.Generator[pred] { return predGenC(10) }

func predGenC(maxC int) *rapid.Generator[pred] {
	return rapid.Custom(func(t *rapid.T) pred {
		if rapid.IntRange(0, 3).Draw(t, "pkind") == 0 {
			c := uniform(t, "le", -4, maxC)
			return pred{Le: &c}
		}
		return pred{Tab: rapid.SliceOfN(rapid.Bool(), 2, 5).Draw(t, "ptab")}
	})
}
