package c20

import (
	"fmt"
	"strings"
	"testing"

	"github.com/csgura/fp"
	"github.com/csgura/fp/iterator"
	"pgregory.net/rapid"

	"verifharness/kit"
)

// isrc is an instrumented, protocol-abiding source: it counts how often every index is
// delivered and how often Next is called although nothing is left.
type isrc struct {
	xs       []int
	idx      int
	pulls    []int
	overNext int // Next calls on the exhausted source (each one panics, as the protocol demands)
	fuel     *kit.Fuel
}

func newIsrc(xs []int) *isrc {
	return &isrc{xs: xs, pulls: make([]int, len(xs)), fuel: kit.NewFuel(64*(len(xs)+8), "instrumented source")}
}

func (s *isrc) iter() fp.Iterator[int] {
	return fp.MakeIterator(
		func() bool {
			s.fuel.Use()
			return s.idx < len(s.xs)
		},
		func() int {
			s.fuel.Use()
			if s.idx >= len(s.xs) {
				s.overNext++
				panic("instrumented source: next on empty iterator")
			}
			v := s.xs[s.idx]
			s.pulls[s.idx]++
			s.idx++
			return v
		},
	)
}

// distinct source elements: xs[i] = 8*i + r_i, so a value identifies its index while
// v mod k (table predicates) still varies.
func distinctXs(rt *rapid.T, max int) []int {
	n := uniform(rt, "len", 0, max)
	rs := rapid.SliceOfN(rapid.IntRange(0, 7), n, n).Draw(rt, "xs")
	xs := make([]int, len(rs))
	for i, r := range rs {
		xs[i] = 8*i + r
	}
	return xs
}

// two-sided scripts: tokens Lh LH Ln Rh RH Rn
var dualOps = []string{"Lh", "LH", "Ln", "Ln", "Ln", "Rh", "RH", "Rn", "Rn", "Rn"}

// drawDualScript: either free interleaving or bursts (one side runs ahead by the burst
// length, then the roles flip).
func drawDualScript(rt *rapid.T, nl, nr int) []string {
	total := nl + nr
	if rapid.Bool().Draw(rt, "bursts") {
		out := []string{}
		phases := uniform(rt, "phases", 1, total+3)
		sd := rapid.SampledFrom([]string{"L", "R"}).Draw(rt, "first")
		for p := 0; p < phases; p++ {
			b := rapid.IntRange(1, 4).Draw(rt, "burst")
			for j := 0; j < b; j++ {
				switch rapid.IntRange(0, 3).Draw(rt, "hn") {
				case 0:
					out = append(out, sd+"h")
				case 1:
					out = append(out, sd+"H")
				}
				out = append(out, sd+"n")
			}
			if rapid.IntRange(0, 4).Draw(rt, "stay") != 0 {
				if sd == "L" {
					sd = "R"
				} else {
					sd = "L"
				}
			}
		}
		return out
	}
	return rapid.SliceOfN(rapid.SampledFrom(dualOps), total, 3*total+8).Draw(rt, "script")
}

// dualNontrivial: the script switches sides at a moment when one side has delivered at
// least two more elements than the other (the canonical tail counts: it drains L, then R).
func dualNontrivial(script []string, nl, nr int, tailFirst string) bool {
	dl, dr := 0, 0
	prev := byte(0)
	step := func(tok string) bool {
		sd := tok[0]
		sw := prev != 0 && prev != sd
		prev = sd
		diff := dl - dr
		if diff < 0 {
			diff = -diff
		}
		hit := sw && diff >= 2
		if tok[1] == 'n' {
			if sd == 'L' && dl < nl {
				dl++
			} else if sd == 'R' && dr < nr {
				dr++
			}
		}
		return hit
	}
	for _, tok := range script {
		if step(tok) {
			return true
		}
	}
	// tail: drain tailFirst side, then the other
	order := []string{"L", "R"}
	if tailFirst == "R" {
		order = []string{"R", "L"}
	}
	for _, sd := range order {
		if step(sd + "h") {
			return true
		}
	}
	return false
}

const dualRule = "distinct source elements xs[i]=8i+r (len 0..8, a value identifies its source index) behind an instrumented, protocol-abiding source (delivery counter per index, fuel); script over {L.HasNext, L.HasNext x2, L.Next, R.HasNext, R.HasNext x2, R.Next}, " +
	"drawn either freely or as bursts (one side runs 1..4 elements ahead, then the roles flip), followed by a canonical drain of both sides (order drawn) and Next past the end on both; " +
	"oracle: each side delivers its reference (computed on slices) in order, HasNext = reference not exhausted on every call, Next on an exhausted side panics, the source never delivers an index twice and has delivered every index exactly once when both sides are drained; " +
	"non-trivial iff the script switches sides while one side has delivered >= 2 more elements than the other; distinct by printed input and script"

func runDual(rt *rapid.T, rec *kit.Rec, sig string, desc string, xs []int, mk func(src fp.Iterator[int]) (fp.Iterator[int], fp.Iterator[int]), refL, refR []int) {
	script := drawDualScript(rt, len(refL), len(refR))
	tailFirst := rapid.SampledFrom([]string{"L", "R"}).Draw(rt, "tailFirst")
	nt := dualNontrivial(script, len(refL), len(refR), tailFirst)
	rec.Case(nt, desc+" | "+strings.Join(script, " ")+" | drain "+tailFirst+" first")
	if nt {
		rec.Label("ahead>=2-then-switch")
	}
	src := newIsrc(xs)
	l := newSide("L.", refL, true)
	r := newSide("R.", refR, true)
	rec.Guard(rt, sig+"|construct", func() { l.it, r.it = mk(src.iter()) })
	e := &engine[int]{rt: rt, rec: rec, sig: sig}
	e.after = func() {
		for i, c := range src.pulls {
			if c > 1 {
				e.failf("pulled-twice", "source index %d (value %d) was pulled %d times", i, xs[i], c)
			}
		}
	}
	for _, tok := range script {
		s := l
		if tok[0] == 'R' {
			s = r
		}
		switch tok[1] {
		case 'h':
			e.hasNext(s, 1)
		case 'H':
			e.hasNext(s, 2)
		case 'n':
			e.next(s)
		}
	}
	if tailFirst == "L" {
		e.finish(l)
		e.finish(r)
	} else {
		e.finish(r)
		e.finish(l)
	}
	if l.dead || r.dead {
		return
	}
	// both sides drained: every source element pulled exactly once
	for i, c := range src.pulls {
		if c != 1 {
			e.failf("pulled-exactly-once", "both sides are drained but source index %d (value %d) was pulled %d times (pull counts %v)", i, xs[i], c, src.pulls)
		}
	}
}

func TestDual(t *testing.T) {
	kit.Check(t, "iterator.Duplicate/interleave", dualRule, kit.Opt{Weight: 2}, func(rt *rapid.T, rec *kit.Rec) {
		xs := distinctXs(rt, 8)
		runDual(rt, rec, "C20|iterator.Duplicate|interleave", fmt.Sprintf("Duplicate(%v)", xs), xs,
			func(s fp.Iterator[int]) (fp.Iterator[int], fp.Iterator[int]) { return iterator.Duplicate(s) }, xs, xs)
	})
	kit.Check(t, "iterator.Span/interleave", dualRule+"; table predicate; left = takeWhile, right = dropWhile", kit.Opt{Weight: 2}, func(rt *rapid.T, rec *kit.Rec) {
		xs := distinctXs(rt, 8)
		p := predGenC(70).Draw(rt, "p")
		runDual(rt, rec, "C20|iterator.Span|interleave", fmt.Sprintf("Span(%v,%v)", xs, p), xs,
			func(s fp.Iterator[int]) (fp.Iterator[int], fp.Iterator[int]) { return iterator.Span(s, p.Call) },
			refTakeWhile(xs, p.Call), refDropWhile(xs, p.Call))
	})
	kit.Check(t, "iterator.Partition/interleave", dualRule+"; table predicate; left = filter p, right = filter !p", kit.Opt{Weight: 2}, func(rt *rapid.T, rec *kit.Rec) {
		xs := distinctXs(rt, 8)
		p := predGenC(70).Draw(rt, "p")
		runDual(rt, rec, "C20|iterator.Partition|interleave", fmt.Sprintf("Partition(%v,%v)", xs, p), xs,
			func(s fp.Iterator[int]) (fp.Iterator[int], fp.Iterator[int]) { return iterator.Partition(s, p.Call) },
			refFilter(xs, p.Call), refFilter(xs, func(x int) bool { return !p.Call(x) }))
	})
	// Duplicate of Duplicate: three consumers of one source, two of them scripted
	kit.Check(t, "iterator.Duplicate-nested/interleave", dualRule+"; a, b := Duplicate(src); L, R := Duplicate(a) while b is drained first, last or not at all", kit.Opt{}, func(rt *rapid.T, rec *kit.Rec) {
		xs := distinctXs(rt, 6)
		mode := rapid.IntRange(0, 1).Draw(rt, "bmode")
		runDual(rt, rec, "C20|iterator.Duplicate-nested|interleave", fmt.Sprintf("Duplicate(Duplicate(%v).a) bmode=%d", xs, mode), xs,
			func(s fp.Iterator[int]) (fp.Iterator[int], fp.Iterator[int]) {
				a, b := iterator.Duplicate(s)
				if mode == 0 {
					b.ToSeq()
				}
				return iterator.Duplicate(a)
			}, xs, xs)
	})
}
