package c20

import (
	"fmt"
	"slices"
	"testing"

	"github.com/csgura/fp"
	"github.com/csgura/fp/iterator"
	"github.com/csgura/fp/list"
	"github.com/csgura/fp/option"
	"github.com/csgura/fp/seq"
	"github.com/csgura/fp/try"
	"pgregory.net/rapid"

	"verifharness/kit"
)

// list kinds: slice-backed, cons cells, lazily generated, collected from an iterator.
func mkList[T any](kind int, xs []T) fp.List[T] {
	switch kind {
	case 0:
		return list.Of(xs...)
	case 1:
		var l fp.List[T] = list.Empty[T]()
		for i := len(xs) - 1; i >= 0; i-- {
			l = list.Apply(xs[i], l)
		}
		return l
	case 2:
		return list.Generate(func(i int) fp.Option[T] {
			if i < len(xs) {
				return option.Some(xs[i])
			}
			return option.None[T]()
		})
	default:
		return list.Collect(iterator.FromSeq(xs))
	}
}

func mkSrcOf[T any](kind int, xs []T) fp.Iterator[T] {
	switch kind {
	case 0:
		return iterator.FromSeq(xs)
	case 1:
		return iterator.FromList(mkList(1, xs))
	case 2:
		return iterator.Pull(slices.Values(xs))
	case 3:
		k := len(xs) / 2
		return iterator.FromSeq(xs[:k]).Concat(iterator.FromSeq(xs[k:]))
	default:
		r := make([]T, len(xs))
		for i, x := range xs {
			r[len(xs)-1-i] = x
		}
		return iterator.ReverseSeq(r)
	}
}

func reversed[T any](xs []T) []T {
	r := make([]T, len(xs))
	for i, x := range xs {
		r[len(xs)-1-i] = x
	}
	return r
}

func rangeRef(from, excl int) []int {
	r := []int{}
	for i := from; i < excl; i++ {
		r = append(r, i)
	}
	return r
}

func goMapGen(max int) *rapid.Generator[map[int]int] {
	return rapid.MapOfN(rapid.IntRange(-3, 40), rapid.IntRange(0, 3), 0, max)
}

func tuplesOf(m map[int]int) []fp.Tuple2[int, int] {
	r := []fp.Tuple2[int, int]{}
	for _, k := range sortedKeys(m) {
		r = append(r, fp.Tuple2[int, int]{I1: k, I2: m[k]})
	}
	return r
}

func valuesOf(m map[int]int) []int {
	r := []int{}
	for _, k := range sortedKeys(m) {
		r = append(r, m[k])
	}
	return r
}

func TestConstructors(t *testing.T) {
	sliceCtor := func(name string, f func(xs []int) fp.Iterator[int]) {
		scriptCheck(t, name, "xs []int len 0..8", true, kit.Opt{}, func(rt *rapid.T) (string, func() fp.Iterator[int], []int) {
			xs := genXs(8).Draw(rt, "xs")
			return fmt.Sprint(xs), func() fp.Iterator[int] { return f(xs) }, xs
		})
	}
	sliceCtor("iterator.Of", func(xs []int) fp.Iterator[int] { return iterator.Of(xs...) })
	sliceCtor("iterator.FromSeq", func(xs []int) fp.Iterator[int] { return iterator.FromSeq(xs) })
	sliceCtor("iterator.FromSlice", func(xs []int) fp.Iterator[int] { return iterator.FromSlice(xs) })
	sliceCtor("fp.IteratorOfSeq", func(xs []int) fp.Iterator[int] { return fp.IteratorOfSeq(xs) })
	sliceCtor("seq.Iterator", func(xs []int) fp.Iterator[int] { return seq.Iterator(xs) })
	sliceCtor("iterator.Pull", func(xs []int) fp.Iterator[int] { return iterator.Pull(slices.Values(xs)) })
	sliceCtor("fp.MakePullIterator", func(xs []int) fp.Iterator[int] { return fp.MakePullIterator(slices.Values(xs)) })

	revCtor := func(name string, f func(xs []int) fp.Iterator[int]) {
		scriptCheck(t, name, "xs []int len 0..8, reference = xs reversed", true, kit.Opt{}, func(rt *rapid.T) (string, func() fp.Iterator[int], []int) {
			xs := genXs(8).Draw(rt, "xs")
			return fmt.Sprint(xs), func() fp.Iterator[int] { return f(xs) }, reversed(xs)
		})
	}
	revCtor("iterator.ReverseSeq", func(xs []int) fp.Iterator[int] { return iterator.ReverseSeq(xs) })
	revCtor("iterator.ReverseSlice", func(xs []int) fp.Iterator[int] { return iterator.ReverseSlice(xs) })

	scriptCheck(t, "iterator.Range", "from in -3..6, exclusive = from + (-2..8) (also from >= exclusive)", true, kit.Opt{}, func(rt *rapid.T) (string, func() fp.Iterator[int], []int) {
		from := uniform(rt, "from", -3, 6)
		excl := from + uniform(rt, "span", -2, 8)
		return fmt.Sprintf("Range(%d,%d)", from, excl), func() fp.Iterator[int] { return iterator.Range(from, excl) }, rangeRef(from, excl)
	})
	scriptCheck(t, "iterator.RangeClosed", "from in -3..6, inclusive = from + (-3..7) (also from > inclusive)", true, kit.Opt{}, func(rt *rapid.T) (string, func() fp.Iterator[int], []int) {
		from := uniform(rt, "from", -3, 6)
		incl := from + uniform(rt, "span", -3, 7)
		return fmt.Sprintf("RangeClosed(%d,%d)", from, incl), func() fp.Iterator[int] { return iterator.RangeClosed(from, incl) }, rangeRef(from, incl+1)
	})

	optCtor := func(name string, f func(o fp.Option[int]) fp.Iterator[int]) {
		scriptCheck(t, name, "Option[int]: None or Some(v)", true, kit.Opt{Weight: 0.3}, func(rt *rapid.T) (string, func() fp.Iterator[int], []int) {
			if rapid.Bool().Draw(rt, "none") {
				return "None", func() fp.Iterator[int] { return f(option.None[int]()) }, []int{}
			}
			v := kit.TinyInt().Draw(rt, "v")
			return fmt.Sprintf("Some(%d)", v), func() fp.Iterator[int] { return f(option.Some(v)) }, []int{v}
		})
	}
	optCtor("iterator.FromOption", iterator.FromOption[int])
	optCtor("fp.IteratorOfOption", fp.IteratorOfOption[int])
	optCtor("option.Iterator", option.Iterator[int])

	scriptCheck(t, "try.Iterator", "Try[int]: Failure(err) or Success(v)", true, kit.Opt{Weight: 0.3}, func(rt *rapid.T) (string, func() fp.Iterator[int], []int) {
		if rapid.Bool().Draw(rt, "fail") {
			err := kit.ErrGen().Draw(rt, "err")
			return "Failure(" + err.Error() + ")", func() fp.Iterator[int] { return try.Iterator(try.Failure[int](err)) }, []int{}
		}
		v := kit.TinyInt().Draw(rt, "v")
		return fmt.Sprintf("Success(%d)", v), func() fp.Iterator[int] { return try.Iterator(try.Success(v)) }, []int{v}
	})

	scriptCheck(t, "iterator.FromPtr", "*int: nil or &v", true, kit.Opt{Weight: 0.3}, func(rt *rapid.T) (string, func() fp.Iterator[int], []int) {
		if rapid.Bool().Draw(rt, "nil") {
			return "nil", func() fp.Iterator[int] { return iterator.FromPtr[int](nil) }, []int{}
		}
		v := kit.TinyInt().Draw(rt, "v")
		return fmt.Sprintf("&%d", v), func() fp.Iterator[int] { return iterator.FromPtr(&v) }, []int{v}
	})

	listCtor := func(name string, f func(l fp.List[int]) fp.Iterator[int]) {
		scriptCheck(t, name, "xs []int len 0..8 as a list of drawn kind (slice-backed, cons, lazily generated, collected)", true, kit.Opt{}, func(rt *rapid.T) (string, func() fp.Iterator[int], []int) {
			xs := genXs(8).Draw(rt, "xs")
			kind := rapid.IntRange(0, 3).Draw(rt, "kind")
			return fmt.Sprintf("list-kind%d%v", kind, xs), func() fp.Iterator[int] { return f(mkList(kind, xs)) }, xs
		})
	}
	listCtor("iterator.FromList", iterator.FromList[int])
	listCtor("iterator.List", iterator.List[int])

	scriptCheck(t, "iterator.Empty", "no input", true, kit.Opt{Weight: 0.1}, func(rt *rapid.T) (string, func() fp.Iterator[int], []int) {
		return "Empty", iterator.Empty[int], []int{}
	})

	scriptCheck(t, "iterator.Generate", "unbounded Generate(counter-based generator) checked on the prefix Take(n), n in 0..8; generator has fuel n+64", true, kit.Opt{}, func(rt *rapid.T) (string, func() fp.Iterator[int], []int) {
		n := uniform(rt, "n", 0, 8)
		f := kit.IntFnGen().Draw(rt, "g")
		ref := []int{}
		for i := 0; i < n; i++ {
			ref = append(ref, f.Call(i))
		}
		return fmt.Sprintf("Generate(%v).Take(%d)", f, n), func() fp.Iterator[int] {
			fuel := kit.NewFuel(n+64, "Generate generator")
			c := 0
			return iterator.Generate(func() int {
				fuel.Use()
				v := f.Call(c)
				c++
				return v
			}).Take(n)
		}, ref
	})

	// Go map / Go set backed constructors: order is not demanded.
	scriptCheck(t, "iterator.FromMap", "Go map[int]int with 0..12 entries; multiset of tuples", false, kit.Opt{}, func(rt *rapid.T) (string, func() fp.Iterator[fp.Tuple2[int, int]], []fp.Tuple2[int, int]) {
		m := goMapGen(12).Draw(rt, "m")
		return showMap(m), func() fp.Iterator[fp.Tuple2[int, int]] { return iterator.FromMap(m) }, tuplesOf(m)
	})
	scriptCheck(t, "fp.IteratorOfGoMap", "Go map[int]int with 0..12 entries; multiset of tuples", false, kit.Opt{}, func(rt *rapid.T) (string, func() fp.Iterator[fp.Tuple2[int, int]], []fp.Tuple2[int, int]) {
		m := goMapGen(12).Draw(rt, "m")
		return showMap(m), func() fp.Iterator[fp.Tuple2[int, int]] { return fp.IteratorOfGoMap(m) }, tuplesOf(m)
	})
	scriptCheck(t, "iterator.FromMapKey", "Go map[int]int with 0..12 entries; multiset of keys", false, kit.Opt{}, func(rt *rapid.T) (string, func() fp.Iterator[int], []int) {
		m := goMapGen(12).Draw(rt, "m")
		return showMap(m), func() fp.Iterator[int] { return iterator.FromMapKey(m) }, sortedKeys(m)
	})
	scriptCheck(t, "iterator.FromMapValue", "Go map[int]int with 0..12 entries; multiset of values", false, kit.Opt{}, func(rt *rapid.T) (string, func() fp.Iterator[int], []int) {
		m := goMapGen(12).Draw(rt, "m")
		return showMap(m), func() fp.Iterator[int] { return iterator.FromMapValue(m) }, valuesOf(m)
	})
	scriptCheck(t, "fp.IteratorOfGoSet", "Go map[int]bool with 0..12 keys, all mapped to true; multiset of keys", false, kit.Opt{}, func(rt *rapid.T) (string, func() fp.Iterator[int], []int) {
		ks := rapid.SliceOfNDistinct(rapid.IntRange(-3, 40), 0, 12, rapid.ID[int]).Draw(rt, "keys")
		m := map[int]bool{}
		for _, k := range ks {
			m[k] = true
		}
		return showMap(m), func() fp.Iterator[int] { return fp.IteratorOfGoSet(m) }, sortedKeys(m)
	})
}
