package c20

import (
	"fmt"
	"testing"

	"github.com/csgura/fp"
	"github.com/csgura/fp/iterator"
	"pgregory.net/rapid"

	"verifharness/kit"
)

func clampTake(xs []int, n int) []int {
	if n < 0 {
		n = 0
	}
	if n > len(xs) {
		n = len(xs)
	}
	return xs[:n]
}

func refFilter(xs []int, p func(int) bool) []int {
	r := []int{}
	for _, x := range xs {
		if p(x) {
			r = append(r, x)
		}
	}
	return r
}

func refTakeWhile(xs []int, p func(int) bool) []int {
	r := []int{}
	for _, x := range xs {
		if !p(x) {
			break
		}
		r = append(r, x)
	}
	return r
}

func refDropWhile(xs []int, p func(int) bool) []int {
	i := 0
	for i < len(xs) && p(xs[i]) {
		i++
	}
	return append([]int{}, xs[i:]...)
}

func refMap(xs []int, f func(int) int) []int {
	r := []int{}
	for _, x := range xs {
		r = append(r, f(x))
	}
	return r
}

// srcDraw draws elements and the library iterator kind that serves them.
func srcDraw(rt *rapid.T, max int) (xs []int, kind int, desc string) {
	xs = genXs(max).Draw(rt, "xs")
	kind = rapid.IntRange(0, nSrcKinds-1).Draw(rt, "srckind")
	return xs, kind, fmt.Sprintf("%s%v", srcKindName(kind), xs)
}

// expansion table for FlatMap: x -> slice (with empties)
type expand struct{ Tab [][]int }

func (e expand) call(x int) []int {
	k := len(e.Tab)
	return e.Tab[((x%k)+k)%k]
}

func expandGen() *rapid.Generator[expand] {
	return rapid.Custom(func(t *rapid.T) expand {
		return expand{Tab: rapid.SliceOfN(rapid.SliceOfN(kit.TinyInt(), 0, 3), 1, 4).Draw(t, "exp")}
	})
}

func refFlat(xs []int, e expand) []int {
	r := []int{}
	for _, x := range xs {
		r = append(r, e.call(x)...)
	}
	return r
}

// concat shapes --------------------------------------------------------------------

// concatTree is a binary tree of Concat calls over leaves (slices).
type concatTree struct {
	leaf        []int
	left, right *concatTree
	zeroLeaf    bool // the leaf is served by the zero-value Iterator (only when empty)
	kind        int
}

func (c *concatTree) String() string {
	if c.left == nil {
		if c.zeroLeaf {
			return "Z"
		}
		return fmt.Sprintf("%s%v", srcKindName(c.kind), c.leaf)
	}
	return "(" + c.left.String() + " ++ " + c.right.String() + ")"
}

func (c *concatTree) ref() []int {
	if c.left == nil {
		return c.leaf
	}
	return append(append([]int{}, c.left.ref()...), c.right.ref()...)
}

func (c *concatTree) build() fp.Iterator[int] {
	if c.left == nil {
		if c.zeroLeaf {
			var z fp.Iterator[int]
			return z
		}
		return mkSrc(c.kind, c.leaf)
	}
	return c.left.build().Concat(c.right.build())
}

func drawConcatTree(rt *rapid.T, depth int, allowZero bool) *concatTree {
	if depth == 0 || rapid.IntRange(0, 3).Draw(rt, "leaf") == 0 {
		c := &concatTree{leaf: rapid.SliceOfN(kit.TinyInt(), 0, 3).Draw(rt, "part"), kind: rapid.IntRange(0, nSrcKinds-1).Draw(rt, "srckind")}
		if allowZero && len(c.leaf) == 0 && rapid.Bool().Draw(rt, "zero") {
			c.zeroLeaf = true
		}
		return c
	}
	return &concatTree{left: drawConcatTree(rt, depth-1, allowZero), right: drawConcatTree(rt, depth-1, allowZero)}
}

func (c *concatTree) leaves() (n int, empties int) {
	if c.left == nil {
		if len(c.leaf) == 0 {
			return 1, 1
		}
		return 1, 0
	}
	a, b := c.left.leaves()
	x, y := c.right.leaves()
	return a + x, b + y
}

func TestMethods(t *testing.T) {
	in := "xs []int len 0..8 served by a drawn library iterator kind (FromSeq, FromList, Pull, Concat, ReverseSeq)"

	scriptCheck(t, "Iterator.Take", in+", n in -1..len+2", true, kit.Opt{}, func(rt *rapid.T) (string, func() fp.Iterator[int], []int) {
		xs, kind, d := srcDraw(rt, 8)
		n := uniform(rt, "n", -1, len(xs)+2)
		return fmt.Sprintf("%s.Take(%d)", d, n), func() fp.Iterator[int] { return mkSrc(kind, xs).Take(n) }, clampTake(xs, n)
	})
	scriptCheck(t, "Iterator.Drop", in+", n in -1..len+2", true, kit.Opt{}, func(rt *rapid.T) (string, func() fp.Iterator[int], []int) {
		xs, kind, d := srcDraw(rt, 8)
		n := uniform(rt, "n", -1, len(xs)+2)
		return fmt.Sprintf("%s.Drop(%d)", d, n), func() fp.Iterator[int] { return mkSrc(kind, xs).Drop(n) }, xs[len(clampTake(xs, n)):]
	})
	scriptCheck(t, "Iterator.TakeWhile", in+", table predicate", true, kit.Opt{}, func(rt *rapid.T) (string, func() fp.Iterator[int], []int) {
		xs, kind, d := srcDraw(rt, 8)
		p := predGen().Draw(rt, "p")
		return fmt.Sprintf("%s.TakeWhile(%v)", d, p), func() fp.Iterator[int] { return mkSrc(kind, xs).TakeWhile(p.Call) }, refTakeWhile(xs, p.Call)
	})
	scriptCheck(t, "Iterator.DropWhile", in+", table predicate", true, kit.Opt{}, func(rt *rapid.T) (string, func() fp.Iterator[int], []int) {
		xs, kind, d := srcDraw(rt, 8)
		p := predGen().Draw(rt, "p")
		return fmt.Sprintf("%s.DropWhile(%v)", d, p), func() fp.Iterator[int] { return mkSrc(kind, xs).DropWhile(p.Call) }, refDropWhile(xs, p.Call)
	})
	scriptCheck(t, "Iterator.Filter", in+", table predicate", true, kit.Opt{}, func(rt *rapid.T) (string, func() fp.Iterator[int], []int) {
		xs, kind, d := srcDraw(rt, 8)
		p := predGen().Draw(rt, "p")
		return fmt.Sprintf("%s.Filter(%v)", d, p), func() fp.Iterator[int] { return mkSrc(kind, xs).Filter(p.Call) }, refFilter(xs, p.Call)
	})
	scriptCheck(t, "Iterator.FilterNot", in+", table predicate", true, kit.Opt{}, func(rt *rapid.T) (string, func() fp.Iterator[int], []int) {
		xs, kind, d := srcDraw(rt, 8)
		p := predGen().Draw(rt, "p")
		return fmt.Sprintf("%s.FilterNot(%v)", d, p), func() fp.Iterator[int] { return mkSrc(kind, xs).FilterNot(p.Call) }, refFilter(xs, func(x int) bool { return !p.Call(x) })
	})
	scriptCheck(t, "Iterator.TapEach", in, true, kit.Opt{}, func(rt *rapid.T) (string, func() fp.Iterator[int], []int) {
		xs, kind, d := srcDraw(rt, 8)
		return d + ".TapEach", func() fp.Iterator[int] { return mkSrc(kind, xs).TapEach(func(int) {}) }, xs
	})
	scriptCheck(t, "Iterator.Appended", in+", element e", true, kit.Opt{}, func(rt *rapid.T) (string, func() fp.Iterator[int], []int) {
		xs, kind, d := srcDraw(rt, 6)
		e := kit.TinyInt().Draw(rt, "e")
		return fmt.Sprintf("%s.Appended(%d)", d, e), func() fp.Iterator[int] { return mkSrc(kind, xs).Appended(e) }, append(append([]int{}, xs...), e)
	})
	scriptCheck(t, "Iterator.Appended-chain", in+", elements es appended one by one (concat list grows)", true, kit.Opt{}, func(rt *rapid.T) (string, func() fp.Iterator[int], []int) {
		xs, kind, d := srcDraw(rt, 3)
		es := rapid.SliceOfN(kit.TinyInt(), 2, 6).Draw(rt, "es")
		return fmt.Sprintf("%s.Appended%v", d, es), func() fp.Iterator[int] {
			it := mkSrc(kind, xs)
			for _, e := range es {
				it = it.Appended(e)
			}
			return it
		}, append(append([]int{}, xs...), es...)
	})
	scriptCheck(t, "Iterator.Concat", "two parts (len 0..4 each, empties included) served by drawn iterator kinds", true, kit.Opt{}, func(rt *rapid.T) (string, func() fp.Iterator[int], []int) {
		a, ka, da := srcDraw(rt, 4)
		b := genXs(4).Draw(rt, "ys")
		kb := rapid.IntRange(0, nSrcKinds-1).Draw(rt, "srckind2")
		return fmt.Sprintf("%s ++ %s%v", da, srcKindName(kb), b), func() fp.Iterator[int] { return mkSrc(ka, a).Concat(mkSrc(kb, b)) }, append(append([]int{}, a...), b...)
	})
	scriptCheck(t, "Iterator.Concat-nested", "binary tree (depth <= 3) of Concat calls over leaves of len 0..3 (empty leaves first/middle/last, left- and right-nested)", true, kit.Opt{}, func(rt *rapid.T) (string, func() fp.Iterator[int], []int) {
		c := drawConcatTree(rt, 3, false)
		return c.String(), c.build, c.ref()
	})
	scriptCheck(t, "Iterator.Concat-of-combinators", "a.Take(n) ++ b.Filter(p) ++ c.Map(f): Concat over look-ahead iterators", true, kit.Opt{}, func(rt *rapid.T) (string, func() fp.Iterator[int], []int) {
		a, b, c := genXs(4).Draw(rt, "a"), genXs(4).Draw(rt, "b"), genXs(4).Draw(rt, "c")
		n := uniform(rt, "n", 0, 5)
		p := predGen().Draw(rt, "p")
		f := kit.IntFnGen().Draw(rt, "f")
		ref := append(append(append([]int{}, clampTake(a, n)...), refFilter(b, p.Call)...), refMap(c, f.Call)...)
		return fmt.Sprintf("%v.Take(%d) ++ %v.Filter(%v) ++ %v.Map(%v)", a, n, b, p, c, f), func() fp.Iterator[int] {
			return iterator.FromSeq(a).Take(n).Concat(iterator.FromSeq(b).Filter(p.Call)).Concat(iterator.FromSeq(c).Map(f.Call))
		}, ref
	})
	scriptCheck(t, "Iterator.Map", in+", table function", true, kit.Opt{}, func(rt *rapid.T) (string, func() fp.Iterator[int], []int) {
		xs, kind, d := srcDraw(rt, 8)
		f := kit.IntFnGen().Draw(rt, "f")
		return fmt.Sprintf("%s.Map(%v)", d, f), func() fp.Iterator[int] { return mkSrc(kind, xs).Map(f.Call) }, refMap(xs, f.Call)
	})
	scriptCheck(t, "Iterator.FlatMap", "xs len 0..6, expansion table x -> slice of len 0..3 (inner empties first/middle/last)", true, kit.Opt{}, func(rt *rapid.T) (string, func() fp.Iterator[int], []int) {
		xs, kind, d := srcDraw(rt, 6)
		e := expandGen().Draw(rt, "e")
		ik := rapid.IntRange(0, nSrcKinds-1).Draw(rt, "innerkind")
		return fmt.Sprintf("%s.FlatMap(%v as %s)", d, e.Tab, srcKindName(ik)), func() fp.Iterator[int] {
			return mkSrc(kind, xs).FlatMap(func(x int) fp.Iterator[int] { return mkSrc(ik, e.call(x)) })
		}, refFlat(xs, e)
	})
	// chains of look-ahead combinators
	scriptCheck(t, "Iterator.chain-A", "xs.Drop(a).Filter(p).Take(n).Appended(e): stacked look-ahead caches", true, kit.Opt{}, func(rt *rapid.T) (string, func() fp.Iterator[int], []int) {
		xs, kind, d := srcDraw(rt, 12)
		p := predGen().Draw(rt, "p")
		a := uniform(rt, "a", 0, 3)
		n := uniform(rt, "n", 0, 8)
		e := kit.TinyInt().Draw(rt, "e")
		ref := append(append([]int{}, clampTake(refFilter(xs[len(clampTake(xs, a)):], p.Call), n)...), e)
		return fmt.Sprintf("%s.Drop(%d).Filter(%v).Take(%d).Appended(%d)", d, a, p, n, e), func() fp.Iterator[int] {
			return mkSrc(kind, xs).Drop(a).Filter(p.Call).Take(n).Appended(e)
		}, ref
	})
	scriptCheck(t, "Iterator.chain-B", "xs.DropWhile(r).Map(f).TakeWhile(q) ++ xs.FilterNot(r): stacked look-ahead caches", true, kit.Opt{}, func(rt *rapid.T) (string, func() fp.Iterator[int], []int) {
		xs, kind, d := srcDraw(rt, 10)
		q, r := predGen().Draw(rt, "q"), predGen().Draw(rt, "r")
		f := kit.IntFnGen().Draw(rt, "f")
		ref := append(refTakeWhile(refMap(refDropWhile(xs, r.Call), f.Call), q.Call), refFilter(xs, func(x int) bool { return !r.Call(x) })...)
		return fmt.Sprintf("%s.DropWhile(%v).Map(%v).TakeWhile(%v) ++ .FilterNot(%v)", d, r, f, q, r), func() fp.Iterator[int] {
			return mkSrc(kind, xs).DropWhile(r.Call).Map(f.Call).TakeWhile(q.Call).Concat(mkSrc(kind, xs).FilterNot(r.Call))
		}, ref
	})
}
