package c20

import (
	"fmt"
	"testing"

	"github.com/csgura/fp"
	"pgregory.net/rapid"

	"verifharness/kit"
)

const zeroRule = "receiver is the zero-value fp.Iterator[int]; arguments drawn where the method has any; oracle: what the method yields for an empty iterator; every case is non-trivial; distinct by printed arguments"

// zeroScalar registers a sub-check for a zero-value method that returns a plain value.
func zeroScalar(t *testing.T, method string, body func(rt *rapid.T) (desc string, call func() string, want string)) {
	t.Helper()
	kit.Check(t, "zero/"+method, zeroRule, kit.Opt{Weight: 0.1, MinChecks: 5}, func(rt *rapid.T, rec *kit.Rec) {
		desc, call, want := body(rt)
		rec.Case(true, method+" "+desc)
		var got string
		rec.Guard(rt, "C20|zero|"+method, func() { got = call() })
		if got != want {
			rec.Failf(rt, "C20|zero|"+method, "zero-value Iterator: %s(%s) = %s, an empty iterator gives %s", method, desc, got, want)
		}
	})
}

// zeroIter registers a sub-check for a zero-value method that returns an iterator.
func zeroIter(t *testing.T, method string, body func(rt *rapid.T) (desc string, mk func() fp.Iterator[int], ref []int)) {
	t.Helper()
	kit.Check(t, "zero/"+method, zeroRule+"; the returned iterator is driven by a script: "+scriptRule, kit.Opt{Weight: 0.2, MinChecks: 10}, func(rt *rapid.T, rec *kit.Rec) {
		desc, mk, ref := body(rt)
		runScript(rt, rec, "C20|zero|"+method, method+" "+desc, mk, ref, true)
	})
}

func TestZero(t *testing.T) {
	var z fp.Iterator[int]

	zeroScalar(t, "HasNext", func(rt *rapid.T) (string, func() string, string) {
		return "", func() string { return fmt.Sprint(z.HasNext(), z.HasNext()) }, "false false"
	})
	kit.Check(t, "zero/Next", zeroRule+"; Next must panic", kit.Opt{Weight: 0.1, MinChecks: 5}, func(rt *rapid.T, rec *kit.Rec) {
		rec.Case(true, "Next")
		var v int
		if _, panicked := kit.Catch(func() { v = z.Next() }); !panicked {
			rec.Failf(rt, "C20|zero|Next", "zero-value Iterator: Next() returned %v instead of panicking", v)
		}
		var h bool
		rec.Guard(rt, "C20|zero|Next", func() { h = z.HasNext() })
		if h {
			rec.Failf(rt, "C20|zero|Next", "zero-value Iterator: HasNext() = true after Next() panicked")
		}
	})
	zeroScalar(t, "NextOption", func(rt *rapid.T) (string, func() string, string) {
		return "", func() string { return fmt.Sprint(z.NextOption().IsDefined()) }, "false"
	})
	zeroScalar(t, "ToSeq", func(rt *rapid.T) (string, func() string, string) {
		return "", func() string { return fmt.Sprint(len(z.ToSeq())) }, "0"
	})
	zeroScalar(t, "Count", func(rt *rapid.T) (string, func() string, string) {
		return "", func() string { return fmt.Sprint(z.Count()) }, "0"
	})
	zeroScalar(t, "MakeString", func(rt *rapid.T) (string, func() string, string) {
		sep := kit.SmallString().Draw(rt, "sep")
		return fmt.Sprintf("%q", sep), func() string { return fmt.Sprintf("%q", z.MakeString(sep)) }, `""`
	})
	zeroScalar(t, "Find", func(rt *rapid.T) (string, func() string, string) {
		p := kit.PredGen().Draw(rt, "p")
		return p.String(), func() string { return fmt.Sprint(z.Find(p.Call).IsDefined()) }, "false"
	})
	zeroScalar(t, "Foreach", func(rt *rapid.T) (string, func() string, string) {
		return "", func() string {
			n := 0
			z.Foreach(func(int) { n++ })
			return fmt.Sprint("callback calls=", n)
		}, "callback calls=0"
	})
	zeroScalar(t, "Exists", func(rt *rapid.T) (string, func() string, string) {
		p := kit.PredGen().Draw(rt, "p")
		return p.String(), func() string { return fmt.Sprint(z.Exists(p.Call)) }, "false"
	})
	zeroScalar(t, "ForAll", func(rt *rapid.T) (string, func() string, string) {
		p := kit.PredGen().Draw(rt, "p")
		return p.String(), func() string { return fmt.Sprint(z.ForAll(p.Call)) }, "true"
	})
	zeroScalar(t, "IsEmpty", func(rt *rapid.T) (string, func() string, string) {
		return "", func() string { return fmt.Sprint(z.IsEmpty()) }, "true"
	})
	zeroScalar(t, "NonEmpty", func(rt *rapid.T) (string, func() string, string) {
		return "", func() string { return fmt.Sprint(z.NonEmpty()) }, "false"
	})
	zeroScalar(t, "All", func(rt *rapid.T) (string, func() string, string) {
		brk := rapid.Bool().Draw(rt, "break")
		return fmt.Sprintf("range-over-func, body breaks=%v", brk), func() string {
			n := 0
			for range z.All() {
				n++
				if brk {
					break
				}
			}
			return fmt.Sprint("body runs=", n)
		}, "body runs=0"
	})

	zeroIter(t, "Take", func(rt *rapid.T) (string, func() fp.Iterator[int], []int) {
		n := rapid.IntRange(-1, 3).Draw(rt, "n")
		return fmt.Sprint(n), func() fp.Iterator[int] { return z.Take(n) }, []int{}
	})
	zeroIter(t, "Drop", func(rt *rapid.T) (string, func() fp.Iterator[int], []int) {
		n := rapid.IntRange(-1, 3).Draw(rt, "n")
		return fmt.Sprint(n), func() fp.Iterator[int] { return z.Drop(n) }, []int{}
	})
	zeroIter(t, "TakeWhile", func(rt *rapid.T) (string, func() fp.Iterator[int], []int) {
		p := kit.PredGen().Draw(rt, "p")
		return p.String(), func() fp.Iterator[int] { return z.TakeWhile(p.Call) }, []int{}
	})
	zeroIter(t, "DropWhile", func(rt *rapid.T) (string, func() fp.Iterator[int], []int) {
		p := kit.PredGen().Draw(rt, "p")
		return p.String(), func() fp.Iterator[int] { return z.DropWhile(p.Call) }, []int{}
	})
	zeroIter(t, "Filter", func(rt *rapid.T) (string, func() fp.Iterator[int], []int) {
		p := kit.PredGen().Draw(rt, "p")
		return p.String(), func() fp.Iterator[int] { return z.Filter(p.Call) }, []int{}
	})
	zeroIter(t, "FilterNot", func(rt *rapid.T) (string, func() fp.Iterator[int], []int) {
		p := kit.PredGen().Draw(rt, "p")
		return p.String(), func() fp.Iterator[int] { return z.FilterNot(p.Call) }, []int{}
	})
	zeroIter(t, "TapEach", func(rt *rapid.T) (string, func() fp.Iterator[int], []int) {
		return "", func() fp.Iterator[int] { return z.TapEach(func(int) {}) }, []int{}
	})
	zeroIter(t, "Appended", func(rt *rapid.T) (string, func() fp.Iterator[int], []int) {
		e := kit.TinyInt().Draw(rt, "e")
		return fmt.Sprint(e), func() fp.Iterator[int] { return z.Appended(e) }, []int{e}
	})
	zeroIter(t, "Concat-receiver", func(rt *rapid.T) (string, func() fp.Iterator[int], []int) {
		xs, kind, d := srcDraw(rt, 4)
		return "z ++ " + d, func() fp.Iterator[int] { return z.Concat(mkSrc(kind, xs)) }, xs
	})
	zeroIter(t, "Concat-argument", func(rt *rapid.T) (string, func() fp.Iterator[int], []int) {
		xs, kind, d := srcDraw(rt, 4)
		return d + " ++ z", func() fp.Iterator[int] { return mkSrc(kind, xs).Concat(z) }, xs
	})
	zeroIter(t, "Concat-both", func(rt *rapid.T) (string, func() fp.Iterator[int], []int) {
		return "z ++ z", func() fp.Iterator[int] { return z.Concat(z) }, []int{}
	})
	zeroIter(t, "Concat-nested", func(rt *rapid.T) (string, func() fp.Iterator[int], []int) {
		c := drawConcatTree(rt, 3, true)
		return c.String(), c.build, c.ref()
	})
	zeroIter(t, "Map", func(rt *rapid.T) (string, func() fp.Iterator[int], []int) {
		f := kit.IntFnGen().Draw(rt, "f")
		return f.String(), func() fp.Iterator[int] { return z.Map(f.Call) }, []int{}
	})
	zeroIter(t, "FlatMap", func(rt *rapid.T) (string, func() fp.Iterator[int], []int) {
		e := expandGen().Draw(rt, "e")
		return fmt.Sprint(e.Tab), func() fp.Iterator[int] {
			return z.FlatMap(func(x int) fp.Iterator[int] { return fp.IteratorOfSeq(e.call(x)) })
		}, []int{}
	})
}
