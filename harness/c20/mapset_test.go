package c20

import (
	"fmt"
	"testing"

	"github.com/csgura/fp"
	"github.com/csgura/fp/eq"
	"github.com/csgura/fp/hash"
	"github.com/csgura/fp/immutable"
	"github.com/csgura/fp/iterator"
	"github.com/csgura/fp/mutable"
	"pgregory.net/rapid"

	"verifharness/kit"
)

type hasherT struct {
	name string
	h    fp.Hashable[int]
}

func posmod(k, m int) uint32 { return uint32(((k % m) + m) % m) }

var hashers = []hasherT{
	{"identity", hash.Number[int]()},
	{"const", hash.New(eq.Given[int](), func(int) uint32 { return 7 })},
	{"mod4", hash.New(eq.Given[int](), func(k int) uint32 { return posmod(k, 4) })},
	{"shl5", hash.New(eq.Given[int](), func(k int) uint32 { return uint32(k) << 5 })},           // all keys share the first level slot
	{"shl27", hash.New(eq.Given[int](), func(k int) uint32 { return uint32(k) << 27 })},         // differ only in the deepest levels; k = k' mod 32 collide
	{"mod40", hash.New(eq.Given[int](), func(k int) uint32 { return posmod(k, 40) })},           // > 32 buckets with collisions
	{"spread", hash.New(eq.Given[int](), func(k int) uint32 { return uint32(k) * 2654435761 })}, // well mixed
}

// mapOp is one step of a build history.
type mapOp struct {
	del bool
	k   int
	v   int
}

type history struct {
	hasher int
	ops    []mapOp
}

func (h history) String() string {
	s := hashers[h.hasher].name + ":"
	for _, o := range h.ops {
		if o.del {
			s += fmt.Sprintf("-%d ", o.k)
		} else {
			s += fmt.Sprintf("+%d=%d ", o.k, o.v)
		}
	}
	return s
}

func (h history) content() map[int]int {
	m := map[int]int{}
	for _, o := range h.ops {
		if o.del {
			delete(m, o.k)
		} else {
			m[o.k] = o.v
		}
	}
	return m
}

// keyGen: clusters that produce every HAMT node kind (array node <= 8 entries, bitmap
// node, hash-array node > 16 children, value and collision leaves, deep chains).
func keyGen() *rapid.Generator[int] {
	return rapid.OneOf(
		rapid.IntRange(0, 47),
		rapid.IntRange(0, 47),
		rapid.Map(rapid.IntRange(0, 40), func(i int) int { return i * 32 }),
		rapid.Map(rapid.IntRange(0, 40), func(i int) int { return i*1024 + 5 }),
		rapid.IntRange(-8, 200),
		rapid.Int(),
	)
}

// historyGen: insert phase of `size` target (crossing 8/16/32), optional delete phase, optional re-insert.
func historyGen(withRemovals bool) *rapid.Generator[history] {
	return rapid.Custom(func(t *rapid.T) history {
		h := history{hasher: rapid.IntRange(0, len(hashers)-1).Draw(t, "hasher")}
		maxN := kit.Pick(40, 80)
		var n int
		cls := rapid.IntRange(0, 3).Draw(t, "sizeclass")
		if withRemovals && cls == 0 && rapid.Bool().Draw(t, "bigger") {
			cls = 2
		}
		switch cls {
		case 0:
			n = uniform(t, "n", 0, 10)
		case 1:
			n = uniform(t, "n", 7, 19)
		case 2:
			n = uniform(t, "n", 15, 36)
		default:
			n = uniform(t, "n", 30, maxN)
		}
		dense := rapid.Bool().Draw(t, "dense")
		base := 0
		if dense {
			base = rapid.IntRange(-2, 3).Draw(t, "base")
		}
		for i := 0; i < n; i++ {
			k := base + i
			if !dense {
				k = keyGen().Draw(t, "k")
			}
			h.ops = append(h.ops, mapOp{k: k, v: rapid.IntRange(0, 3).Draw(t, "v")})
		}
		if withRemovals && n > 0 {
			mode := rapid.SampledFrom([]int{0, 0, 0, 1, 2, 2, 2, 3}).Draw(t, "delmode")
			present := sortedKeys(h.content())
			switch mode {
			case 0: // remove a random subset
				for _, k := range present {
					if rapid.IntRange(0, 2).Draw(t, "del") == 0 {
						h.ops = append(h.ops, mapOp{del: true, k: k})
					}
				}
			case 1: // remove all but a few (shrinks hash-array nodes back, leaves bitmap nodes with one child)
				keep := rapid.IntRange(0, 3).Draw(t, "keep")
				for i, k := range present {
					if i >= keep {
						h.ops = append(h.ops, mapOp{del: true, k: k})
					}
				}
			case 2: // remove a prefix in key order, then insert a few again
				cut := uniform(t, "cut", 0, len(present))
				for _, k := range present[:cut] {
					h.ops = append(h.ops, mapOp{del: true, k: k})
				}
				m := rapid.IntRange(0, 4).Draw(t, "again")
				for i := 0; i < m; i++ {
					h.ops = append(h.ops, mapOp{k: keyGen().Draw(t, "k2"), v: rapid.IntRange(0, 3).Draw(t, "v2")})
				}
			default: // remove everything, sometimes absent keys too
				for _, k := range present {
					h.ops = append(h.ops, mapOp{del: true, k: k})
				}
				h.ops = append(h.ops, mapOp{del: true, k: 12345})
			}
		}
		return h
	})
}

func sizeClass(n int) string {
	switch {
	case n == 0:
		return "size:0"
	case n <= 8:
		return "size:1-8"
	case n <= 16:
		return "size:9-16"
	case n <= 32:
		return "size:17-32"
	default:
		return "size:33+"
	}
}

// builders of the map under test
func buildImmutable(h history) fp.Map[int, int] {
	m := immutable.Map[int, int](hashers[h.hasher].h)
	for _, o := range h.ops {
		if o.del {
			m = m.Removed(o.k)
		} else {
			m = m.Updated(o.k, o.v)
		}
	}
	return m
}

func buildImmutableSet(h history) fp.Set[int] {
	s := immutable.Set[int](hashers[h.hasher].h)
	for _, o := range h.ops {
		if o.del {
			s = s.Excl(o.k)
		} else {
			s = s.Incl(o.k)
		}
	}
	return s
}

func buildZeroMap(h history) fp.Map[int, int] {
	var m fp.Map[int, int]
	for _, o := range h.ops {
		if o.del {
			m = m.Removed(o.k)
		} else {
			m = m.Updated(o.k, o.v)
		}
	}
	return m
}

func buildZeroSet(h history) fp.Set[int] {
	var s fp.Set[int]
	for _, o := range h.ops {
		if o.del {
			s = s.Excl(o.k)
		} else {
			s = s.Incl(o.k)
		}
	}
	return s
}

func mapChecks(t *testing.T, name string, input string, withRemovals bool, build func(h history) fp.Map[int, int]) {
	drawH := func(rt *rapid.T, rec *kit.Rec) (history, map[int]int) {
		h := historyGen(withRemovals).Draw(rt, "history")
		c := h.content()
		rec.Label(sizeClass(len(c)))
		rec.Label("hasher:" + hashers[h.hasher].name)
		return h, c
	}
	kit.Check(t, name+".Iterator/script", input+"; "+scriptRule, kit.Opt{}, func(rt *rapid.T, rec *kit.Rec) {
		h, c := drawH(rt, rec)
		runScript(rt, rec, "C20|"+name+".Iterator", h.String(), func() fp.Iterator[t2] { return build(h).Iterator() }, tuplesOf(c), false)
	})
	kit.Check(t, name+".Keys/script", input+"; "+scriptRule, kit.Opt{}, func(rt *rapid.T, rec *kit.Rec) {
		h, c := drawH(rt, rec)
		runScript(rt, rec, "C20|"+name+".Keys", h.String(), func() fp.Iterator[int] { return build(h).Keys() }, sortedKeys(c), false)
	})
	kit.Check(t, name+".Values/script", input+"; "+scriptRule, kit.Opt{}, func(rt *rapid.T, rec *kit.Rec) {
		h, c := drawH(rt, rec)
		runScript(rt, rec, "C20|"+name+".Values", h.String(), func() fp.Iterator[int] { return build(h).Values() }, valuesOf(c), false)
	})
}

func setCheck(t *testing.T, name string, input string, withRemovals bool, build func(h history) fp.Set[int]) {
	kit.Check(t, name+".Iterator/script", input+"; "+scriptRule, kit.Opt{}, func(rt *rapid.T, rec *kit.Rec) {
		h := historyGen(withRemovals).Draw(rt, "history")
		c := h.content()
		rec.Label(sizeClass(len(c)))
		rec.Label("hasher:" + hashers[h.hasher].name)
		runScript(rt, rec, "C20|"+name+".Iterator", h.String(), func() fp.Iterator[int] { return build(h).Iterator() }, sortedKeys(c), false)
	})
}

func insertsOnly(h history) ([]t2, []int) {
	ts := []t2{}
	ks := []int{}
	for _, o := range h.ops {
		if !o.del {
			ts = append(ts, t2{I1: o.k, I2: o.v})
			ks = append(ks, o.k)
		}
	}
	return ts, ks
}

func TestMapSet(t *testing.T) {
	hin := "history of Updated/Removed over keys clustered to cross the 8/16/32 node thresholds, 7 hashers (identity, constant, k mod 4, k<<5, k<<27, k mod 40, multiplicative)"
	mapChecks(t, "immutable.Map", "insert-only "+hin, false, buildImmutable)
	mapChecks(t, "immutable.Map-removals", "insert-then-remove "+hin, true, buildImmutable)
	mapChecks(t, "immutable.Map-builder", "immutable.Map(hasher, tuples...) (in-place builder path); "+hin, false, func(h history) fp.Map[int, int] {
		ts, _ := insertsOnly(h)
		return immutable.Map(hashers[h.hasher].h, ts...)
	})
	mapChecks(t, "iterator.ToMap", "iterator.ToMap(tuples, hasher) (MapBuilder path); "+hin, false, func(h history) fp.Map[int, int] {
		ts, _ := insertsOnly(h)
		return iterator.ToMap(iterator.FromSeq(ts), hashers[h.hasher].h)
	})
	mapChecks(t, "zero-fp.Map", "zero-value fp.Map after Updated/Removed (UnsafeGoMap backed); "+hin, true, buildZeroMap)
	mapChecks(t, "mutable.MapOf", "mutable.MapOf(Go map) (pull iterator over maps.All); "+hin, true, func(h history) fp.Map[int, int] {
		return mutable.MapOf(h.content())
	})
	mapChecks(t, "mutable.EmptyMap-updated", "mutable.EmptyMap after in-place Updated/Removed; "+hin, true, func(h history) fp.Map[int, int] {
		m := mutable.EmptyMap[int, int]()
		for _, o := range h.ops {
			if o.del {
				m = m.Removed(o.k)
			} else {
				m = m.Updated(o.k, o.v)
			}
		}
		return m
	})
	mapChecks(t, "mutable.CopyOnWriteMap", "CopyOnWriteMap after Updated/Removed; "+hin, true, func(h history) fp.Map[int, int] {
		m := &mutable.CopyOnWriteMap[int, int]{}
		for _, o := range h.ops {
			if o.del {
				m.Removed(o.k)
			} else {
				m.Updated(o.k, o.v)
			}
		}
		return fp.MakeMap[int, int](m)
	})

	setCheck(t, "immutable.Set", "insert-only "+hin, false, buildImmutableSet)
	setCheck(t, "immutable.Set-removals", "Incl-then-Excl "+hin, true, buildImmutableSet)
	setCheck(t, "immutable.Set-of", "immutable.Set(hasher, elems...) (builder path); "+hin, false, func(h history) fp.Set[int] {
		_, ks := insertsOnly(h)
		return immutable.Set(hashers[h.hasher].h, ks...)
	})
	setCheck(t, "iterator.ToSet", "iterator.ToSet(elems, hasher) (SetBuilder path); "+hin, false, func(h history) fp.Set[int] {
		_, ks := insertsOnly(h)
		return iterator.ToSet(iterator.FromSeq(ks), hashers[h.hasher].h)
	})
	setCheck(t, "zero-fp.Set", "zero-value fp.Set after Incl/Excl (UnsafeGoSet backed); "+hin, true, buildZeroSet)
	setCheck(t, "mutable.SetOf", "mutable.SetOf(elems...) (pull iterator over maps.Keys); "+hin, false, func(h history) fp.Set[int] {
		_, ks := insertsOnly(h)
		return mutable.SetOf(ks...)
	})
	setCheck(t, "mutable.EmptySet-incl", "mutable.EmptySet after in-place Incl/Excl; "+hin, true, func(h history) fp.Set[int] {
		s := mutable.EmptySet[int]()
		for _, o := range h.ops {
			if o.del {
				s = s.Excl(o.k)
			} else {
				s = s.Incl(o.k)
			}
		}
		return s
	})
	setCheck(t, "iterator.ToGoSet", "iterator.ToGoSet(elems).Iterator(); "+hin, false, func(h history) fp.Set[int] {
		_, ks := insertsOnly(h)
		return mutable.AsFpSet(iterator.ToGoSet(iterator.FromSeq(ks)))
	})

	// receivers that hold nothing at all
	scriptCheck(t, "fp.Map{}.Iterator", "zero-value fp.Map (Base == nil)", false, kit.Opt{Weight: 0.1}, func(rt *rapid.T) (string, func() fp.Iterator[t2], []t2) {
		return "fp.Map{}", func() fp.Iterator[t2] { var m fp.Map[int, int]; return m.Iterator() }, []t2{}
	})
	scriptCheck(t, "fp.Map{}.Keys", "zero-value fp.Map (Base == nil)", false, kit.Opt{Weight: 0.1}, func(rt *rapid.T) (string, func() fp.Iterator[int], []int) {
		return "fp.Map{}", func() fp.Iterator[int] { var m fp.Map[int, int]; return m.Keys() }, []int{}
	})
	scriptCheck(t, "fp.Map{}.Values", "zero-value fp.Map (Base == nil)", false, kit.Opt{Weight: 0.1}, func(rt *rapid.T) (string, func() fp.Iterator[int], []int) {
		return "fp.Map{}", func() fp.Iterator[int] { var m fp.Map[int, int]; return m.Values() }, []int{}
	})
	scriptCheck(t, "fp.Set{}.Iterator", "zero-value fp.Set (set == nil)", false, kit.Opt{Weight: 0.1}, func(rt *rapid.T) (string, func() fp.Iterator[int], []int) {
		return "fp.Set{}", func() fp.Iterator[int] { var s fp.Set[int]; return s.Iterator() }, []int{}
	})
}
