package c20

import (
	"fmt"
	"testing"

	"github.com/csgura/fp"
	"github.com/csgura/fp/iterator"
	"github.com/csgura/fp/option"
	"pgregory.net/rapid"

	"verifharness/kit"
)

type t2 = fp.Tuple2[int, int]
type t3 = fp.Tuple3[int, int, int]

func TestCombinators(t *testing.T) {
	in := "xs []int len 0..8 served by a drawn library iterator kind"

	scriptCheck(t, "iterator.Map", in+", table function", true, kit.Opt{}, func(rt *rapid.T) (string, func() fp.Iterator[int], []int) {
		xs, kind, d := srcDraw(rt, 8)
		f := kit.IntFnGen().Draw(rt, "f")
		return fmt.Sprintf("Map(%s,%v)", d, f), func() fp.Iterator[int] { return iterator.Map(mkSrc(kind, xs), f.Call) }, refMap(xs, f.Call)
	})
	scriptCheck(t, "iterator.Lift", in+", table function", true, kit.Opt{Weight: 0.5}, func(rt *rapid.T) (string, func() fp.Iterator[int], []int) {
		xs, kind, d := srcDraw(rt, 8)
		f := kit.IntFnGen().Draw(rt, "f")
		return fmt.Sprintf("Lift(%v)(%s)", f, d), func() fp.Iterator[int] { return iterator.Lift(f.Call)(mkSrc(kind, xs)) }, refMap(xs, f.Call)
	})
	scriptCheck(t, "iterator.FilterMap", in+", x -> Some(f x) if p x else None", true, kit.Opt{}, func(rt *rapid.T) (string, func() fp.Iterator[int], []int) {
		xs, kind, d := srcDraw(rt, 8)
		f := kit.IntFnGen().Draw(rt, "f")
		p := predGen().Draw(rt, "p")
		return fmt.Sprintf("FilterMap(%s,%v if %v)", d, f, p), func() fp.Iterator[int] {
			return iterator.FilterMap(mkSrc(kind, xs), func(x int) fp.Option[int] {
				if p.Call(x) {
					return option.Some(f.Call(x))
				}
				return option.None[int]()
			})
		}, refMap(refFilter(xs, p.Call), f.Call)
	})
	scriptCheck(t, "iterator.FlatMap", "xs len 0..6, expansion table x -> slice len 0..3 (inner empties)", true, kit.Opt{}, func(rt *rapid.T) (string, func() fp.Iterator[int], []int) {
		xs, kind, d := srcDraw(rt, 6)
		e := expandGen().Draw(rt, "e")
		ik := rapid.IntRange(0, nSrcKinds-1).Draw(rt, "innerkind")
		return fmt.Sprintf("FlatMap(%s,%v as %s)", d, e.Tab, srcKindName(ik)), func() fp.Iterator[int] {
			return iterator.FlatMap(mkSrc(kind, xs), func(x int) fp.Iterator[int] { return mkSrc(ik, e.call(x)) })
		}, refFlat(xs, e)
	})
	scriptCheck(t, "iterator.Flatten", "0..5 inner iterators of len 0..3 (empties anywhere, zero-value inner iterators for some empty ones)", true, kit.Opt{}, func(rt *rapid.T) (string, func() fp.Iterator[int], []int) {
		parts := rapid.SliceOfN(rapid.SliceOfN(kit.TinyInt(), 0, 3), 0, 5).Draw(rt, "parts")
		ik := rapid.IntRange(0, nSrcKinds-1).Draw(rt, "innerkind")
		zero := rapid.Bool().Draw(rt, "zeroInner")
		ref := []int{}
		for _, p := range parts {
			ref = append(ref, p...)
		}
		return fmt.Sprintf("Flatten(%v as %s zero=%v)", parts, srcKindName(ik), zero), func() fp.Iterator[int] {
			inner := make([]fp.Iterator[int], len(parts))
			for i, p := range parts {
				if zero && len(p) == 0 {
					continue // zero-value Iterator: must behave as empty
				}
				inner[i] = mkSrc(ik, p)
			}
			return iterator.Flatten(iterator.FromSeq(inner))
		}, ref
	})
	scriptCheck(t, "iterator.Concat", "head element and tail iterator", true, kit.Opt{}, func(rt *rapid.T) (string, func() fp.Iterator[int], []int) {
		xs, kind, d := srcDraw(rt, 6)
		h := kit.TinyInt().Draw(rt, "h")
		return fmt.Sprintf("Concat(%d,%s)", h, d), func() fp.Iterator[int] { return iterator.Concat(h, mkSrc(kind, xs)) }, append([]int{h}, xs...)
	})
	// an iterator that has been read part of the way is still an iterator: what a combinator applied to it then
	// delivers is the rest, followed by whatever the combinator adds
	scriptCheck(t, "Iterator.Concat/after-partial-read", "2-4 parts of len 0..3 chained with Concat/Appended; j elements read (HasNext probed 0-2 times before each Next and once more after the last); then one of Concat(tail), Appended(x), tail.Concat(it), Map(+100), Filter(odd), Take(n) is applied to the partly read iterator; reference = the unread rest, combined accordingly", true, kit.Opt{}, func(rt *rapid.T) (string, func() fp.Iterator[int], []int) {
		parts := rapid.SliceOfN(rapid.SliceOfN(kit.TinyInt(), 0, 3), 2, 4).Draw(rt, "parts")
		kind := rapid.IntRange(0, nSrcKinds-1).Draw(rt, "srckind")
		appendLast := rapid.Bool().Draw(rt, "lastViaAppended")
		all := []int{}
		for _, p := range parts {
			all = append(all, p...)
		}
		j := rapid.IntRange(0, len(all)).Draw(rt, "read")
		probes := rapid.SliceOfN(rapid.IntRange(0, 2), j+1, j+1).Draw(rt, "probes")
		op := rapid.IntRange(0, 5).Draw(rt, "then")
		tail := rapid.SliceOfN(kit.TinyInt(), 0, 3).Draw(rt, "tail")
		x := kit.TinyInt().Draw(rt, "x")
		n := rapid.IntRange(0, 4).Draw(rt, "n")
		rest := append([]int{}, all[j:]...)
		var ref []int
		switch op {
		case 0:
			ref = append(rest, tail...)
		case 1:
			ref = append(rest, x)
		case 2:
			ref = append(append([]int{}, tail...), rest...)
		case 3:
			ref = refMap(rest, func(v int) int { return v + 100 })
		case 4:
			ref = refFilter(rest, func(v int) bool { return v%2 != 0 })
		default:
			ref = rest
			if n < len(ref) {
				ref = ref[:n]
			}
		}
		desc := fmt.Sprintf("concat(%v as %s, lastViaAppended=%v) read %d probes %v then op%d tail=%v x=%d n=%d", parts, srcKindName(kind), appendLast, j, probes, op, tail, x, n)
		return desc, func() fp.Iterator[int] {
			it := mkSrc(kind, parts[0])
			for i, p := range parts[1:] {
				if appendLast && i == len(parts)-2 && len(p) == 1 {
					it = it.Appended(p[0])
				} else {
					it = it.Concat(mkSrc(kind, p))
				}
			}
			for i := 0; i < j; i++ {
				for k := 0; k < probes[i]; k++ {
					it.HasNext()
				}
				it.Next()
			}
			for k := 0; k < probes[j]; k++ {
				it.HasNext()
			}
			switch op {
			case 0:
				return it.Concat(mkSrc(kind, tail))
			case 1:
				return it.Appended(x)
			case 2:
				return mkSrc(kind, tail).Concat(it)
			case 3:
				return it.Map(func(v int) int { return v + 100 })
			case 4:
				return it.Filter(func(v int) bool { return v%2 != 0 })
			default:
				return it.Take(n)
			}
		}, ref
	})
	scriptCheck(t, "iterator.Zip", "two sequences of independent length 0..6", true, kit.Opt{}, func(rt *rapid.T) (string, func() fp.Iterator[t2], []t2) {
		a, ka, da := srcDraw(rt, 6)
		b := genXs(6).Draw(rt, "ys")
		kb := rapid.IntRange(0, nSrcKinds-1).Draw(rt, "srckind2")
		ref := []t2{}
		for i := 0; i < len(a) && i < len(b); i++ {
			ref = append(ref, t2{I1: a[i], I2: b[i]})
		}
		return fmt.Sprintf("Zip(%s,%s%v)", da, srcKindName(kb), b), func() fp.Iterator[t2] { return iterator.Zip(mkSrc(ka, a), mkSrc(kb, b)) }, ref
	})
	scriptCheck(t, "iterator.Zip3", "three sequences of independent length 0..5", true, kit.Opt{}, func(rt *rapid.T) (string, func() fp.Iterator[t3], []t3) {
		a, b, c := genXs(5).Draw(rt, "a"), genXs(5).Draw(rt, "b"), genXs(5).Draw(rt, "c")
		k := rapid.IntRange(0, nSrcKinds-1).Draw(rt, "srckind")
		ref := []t3{}
		for i := 0; i < len(a) && i < len(b) && i < len(c); i++ {
			ref = append(ref, t3{I1: a[i], I2: b[i], I3: c[i]})
		}
		return fmt.Sprintf("Zip3(%s %v,%v,%v)", srcKindName(k), a, b, c), func() fp.Iterator[t3] { return iterator.Zip3(mkSrc(k, a), mkSrc(k, b), mkSrc(k, c)) }, ref
	})
	scriptCheck(t, "iterator.ZipWithIndex", in, true, kit.Opt{}, func(rt *rapid.T) (string, func() fp.Iterator[t2], []t2) {
		xs, kind, d := srcDraw(rt, 8)
		ref := []t2{}
		for i, x := range xs {
			ref = append(ref, t2{I1: i, I2: x})
		}
		return "ZipWithIndex(" + d + ")", func() fp.Iterator[t2] { return iterator.ZipWithIndex(mkSrc(kind, xs)) }, ref
	})
	scriptCheck(t, "iterator.Scan", in+", zero z, step acc*3+x (non-commutative); reference = z followed by the running folds", true, kit.Opt{}, func(rt *rapid.T) (string, func() fp.Iterator[int], []int) {
		xs, kind, d := srcDraw(rt, 8)
		z := kit.TinyInt().Draw(rt, "z")
		step := func(acc, x int) int { return acc*3 + x }
		ref := []int{z}
		acc := z
		for _, x := range xs {
			acc = step(acc, x)
			ref = append(ref, acc)
		}
		return fmt.Sprintf("Scan(%s,%d)", d, z), func() fp.Iterator[int] { return iterator.Scan(mkSrc(kind, xs), z, step) }, ref
	})
	// Ap / Flap / Map2 re-use the one-shot argument iterator for every outer element; what the
	// second and later outer elements see is not specified, so the outer side has at most one element.
	scriptCheck(t, "iterator.Ap", "0..1 functions applied to xs (the argument iterator is one-shot, so more functions are not generated)", true, kit.Opt{}, func(rt *rapid.T) (string, func() fp.Iterator[int], []int) {
		xs, kind, d := srcDraw(rt, 8)
		fs := rapid.SliceOfN(kit.IntFnGen(), 0, 1).Draw(rt, "fs")
		if len(fs) == 0 && rapid.Bool().Draw(rt, "one") {
			fs = append(fs, kit.IntFnGen().Draw(rt, "f0"))
		}
		ref := []int{}
		for _, f := range fs {
			ref = append(ref, refMap(xs, f.Call)...)
		}
		return fmt.Sprintf("Ap(%v,%s)", fs, d), func() fp.Iterator[int] {
			ff := []fp.Func1[int, int]{}
			for _, f := range fs {
				ff = append(ff, f.Call)
			}
			return iterator.Ap(iterator.FromSeq(ff), mkSrc(kind, xs))
		}, ref
	})
	scriptCheck(t, "iterator.Flap", "0..1 functions applied to one argument", true, kit.Opt{Weight: 0.5}, func(rt *rapid.T) (string, func() fp.Iterator[int], []int) {
		a := kit.TinyInt().Draw(rt, "a")
		fs := rapid.SliceOfN(kit.IntFnGen(), 0, 1).Draw(rt, "fs")
		if len(fs) == 0 && rapid.Bool().Draw(rt, "one") {
			fs = append(fs, kit.IntFnGen().Draw(rt, "f0"))
		}
		ref := []int{}
		for _, f := range fs {
			ref = append(ref, f.Call(a))
		}
		return fmt.Sprintf("Flap(%v)(%d)", fs, a), func() fp.Iterator[int] {
			ff := []fp.Func1[int, int]{}
			for _, f := range fs {
				ff = append(ff, f.Call)
			}
			return iterator.Flap(iterator.FromSeq(ff))(a)
		}, ref
	})
	scriptCheck(t, "iterator.Map2", "outer sequence of len 0..1, inner xs len 0..6, f(a,b)=10a+b", true, kit.Opt{}, func(rt *rapid.T) (string, func() fp.Iterator[int], []int) {
		xs, kind, d := srcDraw(rt, 6)
		as := rapid.SliceOfN(kit.TinyInt(), 0, 1).Draw(rt, "as")
		if len(as) == 0 && rapid.Bool().Draw(rt, "one") {
			as = append(as, kit.TinyInt().Draw(rt, "a0"))
		}
		ref := []int{}
		for _, a := range as {
			for _, x := range xs {
				ref = append(ref, 10*a+x)
			}
		}
		return fmt.Sprintf("Map2(%v,%s)", as, d), func() fp.Iterator[int] {
			return iterator.Map2(iterator.FromSeq(as), mkSrc(kind, xs), func(a, b int) int { return 10*a + b })
		}, ref
	})
	scriptCheck(t, "iterator.Compose+ComposePure", in+"; Compose(_ => xs, ComposePure(f))(0) = map", true, kit.Opt{Weight: 0.5}, func(rt *rapid.T) (string, func() fp.Iterator[int], []int) {
		xs, kind, d := srcDraw(rt, 8)
		f := kit.IntFnGen().Draw(rt, "f")
		return fmt.Sprintf("Compose(_=>%s, ComposePure(%v))(0)", d, f), func() fp.Iterator[int] {
			return iterator.Compose(func(int) fp.Iterator[int] { return mkSrc(kind, xs) }, iterator.ComposePure(f.Call))(0)
		}, refMap(xs, f.Call)
	})
	scriptCheck(t, "iterator.Flap2", in+"; Flap2(xs mapped to curried functions)(b)(c) = map", true, kit.Opt{Weight: 0.5}, func(rt *rapid.T) (string, func() fp.Iterator[int], []int) {
		xs, kind, d := srcDraw(rt, 8)
		b, c := kit.TinyInt().Draw(rt, "b"), kit.TinyInt().Draw(rt, "c")
		return fmt.Sprintf("Flap2(%s)(%d)(%d)", d, b, c), func() fp.Iterator[int] {
			fs := iterator.Map(mkSrc(kind, xs), func(a int) fp.Func1[int, fp.Func1[int, int]] {
				return func(b int) fp.Func1[int, int] { return func(c int) int { return 100*a + 10*b + c } }
			})
			return iterator.Flap2(fs)(b)(c)
		}, refMap(xs, func(a int) int { return 100*a + 10*b + c })
	})
	scriptCheck(t, "iterator.Method2", in+"; Method2(xs, f)(b, c) = map", true, kit.Opt{Weight: 0.5}, func(rt *rapid.T) (string, func() fp.Iterator[int], []int) {
		xs, kind, d := srcDraw(rt, 8)
		b, c := kit.TinyInt().Draw(rt, "b"), kit.TinyInt().Draw(rt, "c")
		return fmt.Sprintf("Method2(%s)(%d,%d)", d, b, c), func() fp.Iterator[int] {
			return iterator.Method2(mkSrc(kind, xs), func(a, b, c int) int { return 100*a + 10*b + c })(b, c)
		}, refMap(xs, func(a int) int { return 100*a + 10*b + c })
	})
	scriptCheck(t, "iterator.Method1", in+"; Method1(xs, f)(b) = map", true, kit.Opt{Weight: 0.5}, func(rt *rapid.T) (string, func() fp.Iterator[int], []int) {
		xs := genXs(1).Draw(rt, "xs") // Flap-based: argument iterator Of(b) is one-shot
		b := kit.TinyInt().Draw(rt, "b")
		return fmt.Sprintf("Method1(%v)(%d)", xs, b), func() fp.Iterator[int] {
			return iterator.Method1(iterator.FromSeq(xs), func(a, b int) int { return 10*a + b })(b)
		}, refMap(xs, func(a int) int { return 10*a + b })
	})
	scriptCheck(t, "iterator.Method3", in+"; Method3(xs, f)(b,c) = map", true, kit.Opt{Weight: 0.5}, func(rt *rapid.T) (string, func() fp.Iterator[int], []int) {
		xs, kind, d := srcDraw(rt, 8)
		b := kit.TinyInt().Draw(rt, "b")
		return fmt.Sprintf("Method3(%s)(%d,1)", d, b), func() fp.Iterator[int] {
			return iterator.Method3(mkSrc(kind, xs), func(a, b, c int) int { return 10*a + b + c })(b, 1)
		}, refMap(xs, func(a int) int { return 10*a + b + 1 })
	})

	// the two sides of Duplicate / Span / Partition, each driven alone (the other side untouched)
	for _, sd := range []string{"left", "right"} {
		left := sd == "left"
		pick := func(l, r fp.Iterator[int]) fp.Iterator[int] {
			if left {
				return l
			}
			return r
		}
		scriptCheck(t, "iterator.Duplicate-"+sd, in+"; only this side is pulled", true, kit.Opt{}, func(rt *rapid.T) (string, func() fp.Iterator[int], []int) {
			xs, kind, d := srcDraw(rt, 8)
			return "Duplicate(" + d + ")." + sd, func() fp.Iterator[int] { return pick(iterator.Duplicate(mkSrc(kind, xs))) }, xs
		})
		scriptCheck(t, "iterator.Span-"+sd, in+", table predicate; only this side is pulled", true, kit.Opt{}, func(rt *rapid.T) (string, func() fp.Iterator[int], []int) {
			xs, kind, d := srcDraw(rt, 8)
			p := predGen().Draw(rt, "p")
			ref := refTakeWhile(xs, p.Call)
			if !left {
				ref = refDropWhile(xs, p.Call)
			}
			return fmt.Sprintf("Span(%s,%v).%s", d, p, sd), func() fp.Iterator[int] { return pick(iterator.Span(mkSrc(kind, xs), p.Call)) }, ref
		})
		scriptCheck(t, "iterator.Partition-"+sd, in+", table predicate; only this side is pulled", true, kit.Opt{}, func(rt *rapid.T) (string, func() fp.Iterator[int], []int) {
			xs, kind, d := srcDraw(rt, 8)
			p := predGen().Draw(rt, "p")
			ref := refFilter(xs, p.Call)
			if !left {
				ref = refFilter(xs, func(x int) bool { return !p.Call(x) })
			}
			return fmt.Sprintf("Partition(%s,%v).%s", d, p, sd), func() fp.Iterator[int] { return pick(iterator.Partition(mkSrc(kind, xs), p.Call)) }, ref
		})
	}
}
