package main

import (
	"fmt"
	"strings"
)

func ff(i int) string { return fmt.Sprintf("f%d", i) }

func init() {
	// both schemes, one clause each: build(s) returns (statements, result expression, want)
	dual := func(g *generator, m *member, k, draws int, clauseName string, schemes []scheme, build func(s scheme) (pre, stmts, res, want string)) {
		var b strings.Builder
		for _, s := range schemes {
			g.schemeUse(s, k)
			pre, stmts, res, want := build(s)
			b.WriteString("\t\t{\n" + s.vals(k) + pre)
			b.WriteString(clause(m, clauseName+s.tag, stmts, res, want))
			b.WriteString("\t\t}\n")
		}
		g.sub(m, draws, k, b.String())
	}
	both := []scheme{sInt, sT}

	// ---- curried --------------------------------------------------------------------
	// RevertN(c)(a1..aN) = c(a1)..(aN)
	reg("curried.func.Revert", func(g *generator, m *member) {
		k := m.TP - 1
		if k != m.N || k < 1 {
			g.skip(m, "unexpected number of type parameters")
			return
		}
		if !g.shape(m, nil, []string{sP(0).curriedTy(1, k, pN(k+1))}, []string{fnTy(ptys(0, 1, k), pN(k+1))}) {
			return
		}
		dual(g, m, k, k, "uncurried", both, func(s scheme) (string, string, string, string) {
			return s.defCurried("c", k, "[]int", s.ints(1, k, s.arg)),
				fmt.Sprintf("var u func(%s) []int = curried.%s(c)", s.tys(1, k), m.Name), fmt.Sprintf("u(%s)", s.args(1, k)), "v"
		})
	})
	// Flip(N)(c)(a2)..(aK)(a1) = c(a1)..(aK), K = N+1 (curried.go: Func{K}(func(a2..aK, a1) R { f(a1)..(aK) }))
	reg("curried.func.Flip", func(g *generator, m *member) {
		k := m.TP - 1
		if k != m.N+1 || k < 2 {
			g.skip(m, "unexpected number of type parameters")
			return
		}
		if !g.shape(m, nil, []string{sP(0).curriedTy(1, k, pN(k+1))}, []string{sP(0).curriedTyOrder(append(seq(2, k), 1), pN(k+1))}) {
			return
		}
		order := append(seq(2, k), 1)
		dual(g, m, k, k, "first-argument-last", both, func(s scheme) (string, string, string, string) {
			return s.defCurried("c", k, "[]int", s.ints(1, k, s.arg)),
				fmt.Sprintf("var fl %s = curried.%s(c)", s.curriedTyOrder(order, "[]int"), m.Name), curriedApply("fl", s, order), "v"
		})
	})
	// FlipApply(N)(c, a2..aK)(a1) = c(a1)..(aK), K = N+1
	reg("curried.func.FlipApply", func(g *generator, m *member) {
		k := m.TP - 1
		if k != m.N+1 || k < 2 {
			g.skip(m, "unexpected number of type parameters")
			return
		}
		if !g.shape(m, nil, append([]string{sP(0).curriedTy(1, k, pN(k+1))}, ptys(0, 2, k)...), []string{fnTy(ptys(0, 1, 1), pN(k+1))}) {
			return
		}
		dual(g, m, k, k, "first-argument-last", both, func(s scheme) (string, string, string, string) {
			return s.defCurried("c", k, "[]int", s.ints(1, k, s.arg)),
				"", fmt.Sprintf("curried.%s(c, %s)(%s)", m.Name, s.args(2, k), s.arg(1)), "v"
		})
	})
	// SlipLN(c)(aN)(a1)..(a(N-1)) = c(a1)..(aN)
	reg("curried.func.SlipL", func(g *generator, m *member) {
		k := m.TP - 1
		if k != m.N || k < 2 {
			g.skip(m, "unexpected number of type parameters")
			return
		}
		if !g.shape(m, nil, []string{sP(0).curriedTy(1, k, pN(k+1))}, []string{sP(0).curriedTyOrder(append([]int{k}, seq(1, k-1)...), pN(k+1))}) {
			return
		}
		order := append([]int{k}, seq(1, k-1)...)
		dual(g, m, k, k, "last-argument-first", both, func(s scheme) (string, string, string, string) {
			return s.defCurried("c", k, "[]int", s.ints(1, k, s.arg)),
				fmt.Sprintf("var sl %s = curried.%s(c)", s.curriedTyOrder(order, "[]int"), m.Name), curriedApply("sl", s, order), "v"
		})
	})
	// ComposeN(c, g)(a1)..(aN) = g(c(a1)..(aN))
	reg("curried.func.Compose", func(g *generator, m *member) {
		k := m.TP - 2
		if k != m.N || k < 1 {
			g.skip(m, "unexpected number of type parameters")
			return
		}
		if !g.shape(m, nil, []string{sP(0).curriedTy(1, k, pN(k+1)), fnTy(ptys(0, k+1, k+1), pN(k+2))}, []string{sP(0).curriedTy(1, k, pN(k+2))}) {
			return
		}
		dual(g, m, k, k, "post-composition", both, func(s scheme) (string, string, string, string) {
			return s.defCurried("c", k, "[]int", s.ints(1, k, s.arg)) + "\t\tpost := func(xs []int) [1][]int { return [1][]int{cat([]int{-7}, xs)} }\n",
				fmt.Sprintf("var cc %s = curried.%s(c, post)", s.curriedTy(1, k, "[1][]int"), m.Name), curriedApply("cc", s, seq(1, k)) + "[0]", "cat([]int{-7}, v)"
		})
	})

	// ---- hlist ----------------------------------------------------------------------
	// OfN(a1..aN) = a1 :: ... :: aN :: Nil
	reg("hlist.func.Of", func(g *generator, m *member) {
		k := m.TP
		if k != m.N || k < 1 {
			g.skip(m, "unexpected number of type parameters")
			return
		}
		if !g.shape(m, nil, ptys(0, 1, k), []string{sP(0).consTy(seq(1, k), "hlist.Nil")}) {
			return
		}
		dual(g, m, k, k, "heads-in-order", both, func(s scheme) (string, string, string, string) {
			return "", fmt.Sprintf("var h %s = hlist.%s(%s); %s", s.consTy(seq(1, k), "hlist.Nil"), m.Name, s.args(1, k), s.readH("h", seq(1, k), "r")), "r", "v"
		})
	})
	// CaseN(a1 :: ... :: aN :: T, f) = f(a1..aN), for any tail T
	reg("hlist.func.Case", func(g *generator, m *member) {
		k := m.TP - 2
		if k != m.N || k < 1 {
			g.skip(m, "unexpected number of type parameters")
			return
		}
		if !g.shape(m, func(i int) string {
			if i == k+1 {
				return "hlist.HList"
			}
			return "any"
		}, []string{sP(0).consTy(seq(1, k), pN(k+1)), fnTy(ptys(0, 1, k), pN(k+2))}, []string{pN(k + 2)}) {
			return
		}
		var b strings.Builder
		for _, s := range both {
			g.schemeUse(s, k)
			b.WriteString("\t\t{\n" + s.vals(k) + s.defF(k))
			b.WriteString(clause(m, "f(heads)"+s.tag, "", fmt.Sprintf("hlist.%s(%s, %s)", m.Name, s.consLit(seq(1, k), "hlist.Empty()"), s.fn), "v"))
			b.WriteString(clause(m, "f(heads)/longer-list"+s.tag, "", fmt.Sprintf("hlist.%s(%s, %s)", m.Name, s.consLit(seq(1, k), `hlist.Concat("rest", hlist.Empty())`), s.fn), "v"))
			b.WriteString("\t\t}\n")
		}
		g.sub(m, k, k, b.String())
	})
	// LiftN(f)(a1 :: ... :: aN :: Nil) = f(a1..aN); RiftN(f)(aN :: ... :: a1 :: Nil) = f(a1..aN)
	lift := func(reverse bool) emitter {
		return func(g *generator, m *member) {
			k := m.TP - 1
			if k != m.N || k < 1 {
				g.skip(m, "unexpected number of type parameters")
				return
			}
			if ord := map[bool][]int{false: seq(1, k), true: rseq(1, k)}[reverse]; !g.shape(m, nil, []string{fnTy(ptys(0, 1, k), pN(k+1))}, []string{fnTy([]string{sP(0).consTy(ord, "hlist.Nil")}, pN(k+1))}) {
				return
			}
			order, name := seq(1, k), "f(heads)"
			if reverse {
				order, name = rseq(1, k), "f(heads-reversed)"
			}
			dual(g, m, k, k, name, both, func(s scheme) (string, string, string, string) {
				return s.defF(k), fmt.Sprintf("var lf func(%s) []int = hlist.%s(%s)", s.consTy(order, "hlist.Nil"), m.Name, s.fn),
					fmt.Sprintf("lf(%s)", s.consLit(order, "hlist.Empty()")), "v"
			})
		}
	}
	reg("hlist.func.Lift", lift(false))
	reg("hlist.func.Rift", lift(true))
	// ReverseN(a1 :: ... :: aN :: Nil) = aN :: ... :: a1 :: Nil
	reg("hlist.func.Reverse", func(g *generator, m *member) {
		k := m.TP
		if k != m.N || k < 1 {
			g.skip(m, "unexpected number of type parameters")
			return
		}
		if !g.shape(m, nil, []string{sP(0).consTy(seq(1, k), "hlist.Nil")}, []string{sP(0).consTy(rseq(1, k), "hlist.Nil")}) {
			return
		}
		dual(g, m, k, k, "heads-reversed", both, func(s scheme) (string, string, string, string) {
			return "", fmt.Sprintf("var h %s = hlist.%s(%s); %s", s.consTy(rseq(1, k), "hlist.Nil"), m.Name, s.consLit(seq(1, k), "hlist.Empty()"), s.readH("h", rseq(1, k), "r")), "r", "rev(v)"
		})
	})

	// ---- product --------------------------------------------------------------------
	// TupleFromHListN(a1 :: ... :: aN :: Nil) = TupleN{a1..aN}
	fromH := func(tname string, schemes []scheme) emitter {
		return func(g *generator, m *member) {
			k := m.TP
			if k != m.N || k < 1 {
				g.skip(m, "unexpected number of type parameters")
				return
			}
			con := "any"
			if tname == "Labelled" {
				con = "fp.Named"
			}
			if !g.shape(m, allOf(con), []string{sP(0).consTy(seq(1, k), "hlist.Nil")}, []string{sP(0).tupleTy(tname, k)}) {
				return
			}
			dual(g, m, k, k, "fields-in-order", schemes, func(s scheme) (string, string, string, string) {
				return "", fmt.Sprintf("var t %s = product.%s(%s)", s.tupleTy(tname, k), m.Name, s.consLit(seq(1, k), "hlist.Empty()")), s.fields("t", k), "v"
			})
		}
	}
	reg("product.func.TupleFromHList", fromH("Tuple", both))
	reg("product.func.LabelledFromHList", fromH("Labelled", []scheme{sN, sL}))
	// FlattenN((a1,(a2,(...,(a(N-1),aN))))) = TupleN{a1..aN}
	reg("product.func.Flatten", func(g *generator, m *member) {
		k := m.TP
		if k != m.N || k < 3 {
			g.skip(m, "unexpected number of type parameters")
			return
		}
		{
			nest := fmt.Sprintf("fp.Tuple2[%s, %s]", pN(k-1), pN(k))
			for i := k - 2; i >= 1; i-- {
				nest = fmt.Sprintf("fp.Tuple2[%s, %s]", pN(i), nest)
			}
			if !g.shape(m, nil, []string{nest}, []string{sP(0).tupleTy("Tuple", k)}) {
				return
			}
		}
		nestTy := func(s scheme) []string { // nestTy[i] = type of the nest starting at position i (1-based), i <= k-1
			t := make([]string, k+1)
			t[k-1] = fmt.Sprintf("fp.Tuple2[%s, %s]", s.ty(k-1), s.ty(k))
			for i := k - 2; i >= 1; i-- {
				t[i] = fmt.Sprintf("fp.Tuple2[%s, %s]", s.ty(i), t[i+1])
			}
			return t
		}
		dual(g, m, k, k, "fields-in-order", both, func(s scheme) (string, string, string, string) {
			t := nestTy(s)
			lit := fmt.Sprintf("%s{I1: %s, I2: %s}", t[k-1], s.arg(k-1), s.arg(k))
			for i := k - 2; i >= 1; i-- {
				lit = fmt.Sprintf("%s{I1: %s, I2: %s}", t[i], s.arg(i), lit)
			}
			return "", fmt.Sprintf("var t %s = product.%s(%s)", s.tupleTy("Tuple", k), m.Name, lit), s.fields("t", k), "v"
		})
	})
	// LiftN(f)(TupleN{a1..aN}) = f(a1..aN)
	reg("product.func.Lift", func(g *generator, m *member) {
		k := m.TP - 1
		if k != m.N || k < 1 {
			g.skip(m, "unexpected number of type parameters")
			return
		}
		if !g.shape(m, nil, []string{fnTy(ptys(0, 1, k), pN(k+1))}, []string{fnTy([]string{sP(0).tupleTy("Tuple", k)}, pN(k+1))}) {
			return
		}
		dual(g, m, k, k, "f(fields)", both, func(s scheme) (string, string, string, string) {
			return s.defF(k), "", fmt.Sprintf("product.%s(%s)(%s)", m.Name, s.fn, s.tupleLit("Tuple", k)), "v"
		})
	})

	// ---- fn1 ------------------------------------------------------------------------
	// MergeN(f1..fN)(x) = TupleN{f1(x), ..., fN(x)}
	reg("fn1.func.Merge", func(g *generator, m *member) {
		k := m.TP - 1
		if k != m.N || k < 1 {
			g.skip(m, "unexpected number of type parameters")
			return
		}
		{
			var ps []string
			for i := 1; i <= k; i++ {
				ps = append(ps, fnTy([]string{"P1"}, pN(i+1)))
			}
			if !g.shape(m, nil, ps, []string{fnTy([]string{"P1"}, sP(1).tupleTy("Tuple", k))}) {
				return
			}
		}
		x := fmt.Sprintf("a%d", k+1)
		var b strings.Builder
		for _, s := range both {
			g.schemeUse(s, k)
			b.WriteString("\t\t{\n")
			for i := 1; i <= k; i++ {
				fmt.Fprintf(&b, "\t\tf%d := func(x int) %s { return %s(x*31 + a%d) }\n", i, s.ty(i), s.ty(i), i)
			}
			b.WriteString(clause(m, "component-i=f_i(x)"+s.tag, fmt.Sprintf("var t %s = fn1.%s(%s)(%s)", s.tupleTy("Tuple", k), m.Name, list(1, k, ff), x), s.fields("t", k),
				"[]int{"+list(1, k, func(i int) string { return fmt.Sprintf("%s*31 + a%d", x, i) })+"}"))
			b.WriteString("\t\t}\n")
		}
		g.sub(m, k+1, k, b.String())
	})

	// ---- unit -----------------------------------------------------------------------
	// FuncN(f)(a1..aN) = (f(a1..aN); Unit{})
	reg("unit.func.Func", func(g *generator, m *member) {
		k := m.TP
		if k != m.N {
			g.skip(m, "unexpected number of type parameters")
			return
		}
		if k == 0 && !g.shape(m, nil, []string{"func()"}, []string{"func(fp.Unit) fp.Unit"}) {
			return
		}
		if k > 0 && !g.shape(m, nil, []string{fnTy(ptys(0, 1, k), "")}, []string{fnTy(ptys(0, 1, k), "fp.Unit")}) {
			return
		}
		if k == 0 {
			g.sub(m, 1, 0, "\t\tvar seen []int\n"+clause(m, "callback-called", "var u fp.Unit = unit.Func0(func() { seen = append(seen, a1) })(fp.Unit{}); _ = u", "seen", "v"))
			return
		}
		var b strings.Builder
		for _, s := range both {
			g.schemeUse(s, k)
			b.WriteString("\t\t{\n" + s.vals(k) + "\t\tvar seen []int\n")
			b.WriteString(clause(m, "callback-arguments"+s.tag, fmt.Sprintf("var uf fp.Func%d[%s, fp.Unit] = unit.%s(func(%s) { seen = %s }); var u fp.Unit = uf(%s); _ = u",
				k, s.tys(1, k), m.Name, s.decl(1, k), s.ints(1, k, s.arg), s.args(1, k)), "seen", "v"))
			b.WriteString("\t\t}\n")
		}
		g.sub(m, k, k, b.String())
	})
}
