package main

// Signature shapes. Before an emitter writes code that calls a member it
// compares the member's declared signature (type parameters renamed
// positionally to P1, P2, ...; parameter names dropped; fp.FuncK[...] spelled as
// the func type it is) with the shape the family's defining equation needs. A
// member whose signature deviates gets a failing sub-check
// (C14|<member>|signature-shape) instead of value clauses that would not
// compile - so a family member whose *type* already permutes/drops a position is
// reported as a violation and not as a harness build failure.

import (
	"bytes"
	"fmt"
	"go/ast"
	"go/parser"
	"regexp"
	"strings"
)

var funcKRe = regexp.MustCompile(`^Func([0-9]+)$`)

// typeStr prints a type expression in normal form.
func typeStr(e ast.Expr, ren map[string]string) string {
	switch x := e.(type) {
	case nil:
		return ""
	case *ast.Ident:
		if r, ok := ren[x.Name]; ok {
			return r
		}
		return x.Name
	case *ast.SelectorExpr:
		return typeStr(x.X, ren) + "." + x.Sel.Name
	case *ast.StarExpr:
		return "*" + typeStr(x.X, ren)
	case *ast.ParenExpr:
		return typeStr(x.X, ren)
	case *ast.ArrayType:
		if x.Len == nil {
			return "[]" + typeStr(x.Elt, ren)
		}
		return "[...]" + typeStr(x.Elt, ren)
	case *ast.Ellipsis:
		return "..." + typeStr(x.Elt, ren)
	case *ast.IndexExpr:
		return indexStr(x.X, []ast.Expr{x.Index}, ren)
	case *ast.IndexListExpr:
		return indexStr(x.X, x.Indices, ren)
	case *ast.FuncType:
		return "func" + fieldsStr(x.Params, ren) + resultsStr(x.Results, ren)
	case *ast.InterfaceType:
		if x.Methods == nil || len(x.Methods.List) == 0 {
			return "any"
		}
		return "interface{...}"
	case *ast.StructType:
		var fs []string
		if x.Fields != nil {
			for _, f := range x.Fields.List {
				t := typeStr(f.Type, ren)
				if len(f.Names) == 0 {
					fs = append(fs, t)
				}
				for _, n := range f.Names {
					fs = append(fs, n.Name+" "+t)
				}
			}
		}
		return "struct{" + strings.Join(fs, "; ") + "}"
	case *ast.MapType:
		return "map[" + typeStr(x.Key, ren) + "]" + typeStr(x.Value, ren)
	}
	return fmt.Sprintf("<%T>", e)
}

func indexStr(base ast.Expr, idx []ast.Expr, ren map[string]string) string {
	name := ""
	switch b := base.(type) {
	case *ast.Ident:
		name = b.Name
	case *ast.SelectorExpr:
		if id, ok := b.X.(*ast.Ident); ok && id.Name == "fp" {
			name = b.Sel.Name
		}
	}
	if m := funcKRe.FindStringSubmatch(name); m != nil && m[1] != "0" && fmt.Sprint(len(idx)-1) == m[1] {
		// fp.FuncK[A1..AK, R] is func(A1..AK) R
		var ps []string
		for _, a := range idx[:len(idx)-1] {
			ps = append(ps, typeStr(a, ren))
		}
		return "func(" + strings.Join(ps, ", ") + ") " + typeStr(idx[len(idx)-1], ren)
	}
	var as []string
	for _, a := range idx {
		as = append(as, typeStr(a, ren))
	}
	return typeStr(base, ren) + "[" + strings.Join(as, ", ") + "]"
}

func fieldTypes(fl *ast.FieldList, ren map[string]string) []string {
	var r []string
	if fl == nil {
		return r
	}
	for _, f := range fl.List {
		t := typeStr(f.Type, ren)
		n := len(f.Names)
		if n == 0 {
			n = 1
		}
		for i := 0; i < n; i++ {
			r = append(r, t)
		}
	}
	return r
}

func fieldsStr(fl *ast.FieldList, ren map[string]string) string {
	return "(" + strings.Join(fieldTypes(fl, ren), ", ") + ")"
}

func resultsStr(fl *ast.FieldList, ren map[string]string) string {
	ts := fieldTypes(fl, ren)
	switch len(ts) {
	case 0:
		return ""
	case 1:
		return " " + ts[0]
	}
	return " (" + strings.Join(ts, ", ") + ")"
}

// norm parses a type written by an emitter and prints it in normal form, with
// the member's own package qualifier removed (inside package hlist, Cons is
// written unqualified).
func norm(pkg, src string) string {
	e, err := parser.ParseExpr(src)
	if err != nil {
		panic(fmt.Sprintf("gen: bad expected type %q: %v", src, err))
	}
	return unqual(pkg, typeStr(e, nil))
}

func unqual(pkg, s string) string { return strings.ReplaceAll(s, pkg+".", "") }

// ptys: the types P<from+off>..P<to+off> as a slice.
func ptys(off, from, to int) []string {
	var r []string
	for i := from; i <= to; i++ {
		r = append(r, pN(i+off))
	}
	return r
}

func wrapAll(w string, xs []string) []string {
	r := make([]string, len(xs))
	for i, x := range xs {
		r[i] = w + "[" + x + "]"
	}
	return r
}

func fnTy(params []string, res string) string {
	if res != "" {
		res = " " + res
	}
	return "func(" + strings.Join(params, ", ") + ")" + res
}

// declared returns the normal form of a func/method declaration:
// "[P1 any, P2 any](param types) results". For methods the receiver's type
// arguments are the Pi and no constraint list is printed.
func declared(fd *ast.FuncDecl) string { return declaredOpt(fd, false) }

// optExecPkgs: packages whose members take, after the parameters of the family's
// defining equation, one optional trailing variadic `...fp.Executor` (the executor the
// callbacks are to run on). For members of these packages - and only for them - that one
// trailing parameter is left out of the comparison; the harness never passes it.
var optExecPkgs = map[string]bool{"future": true}

// dropTrailingExec returns the parameter list without a final `name ...fp.Executor`
// parameter (exactly that type, exactly one parameter, last position); anything else is
// returned unchanged.
func dropTrailingExec(fl *ast.FieldList) *ast.FieldList {
	if fl == nil || len(fl.List) == 0 {
		return fl
	}
	last := fl.List[len(fl.List)-1]
	el, ok := last.Type.(*ast.Ellipsis)
	if !ok || len(last.Names) > 1 || typeStr(el.Elt, nil) != "fp.Executor" {
		return fl
	}
	return &ast.FieldList{List: fl.List[:len(fl.List)-1]}
}

// declaredOpt: declared, optionally with the trailing variadic executor parameter dropped.
func declaredOpt(fd *ast.FuncDecl, dropExec bool) string {
	ren := map[string]string{}
	var tps []string
	if fd.Recv != nil && len(fd.Recv.List) == 1 {
		t := fd.Recv.List[0].Type
		if st, ok := t.(*ast.StarExpr); ok {
			t = st.X
		}
		var idx []ast.Expr
		switch x := t.(type) {
		case *ast.IndexExpr:
			idx = []ast.Expr{x.Index}
		case *ast.IndexListExpr:
			idx = x.Indices
		}
		for i, a := range idx {
			if id, ok := a.(*ast.Ident); ok {
				ren[id.Name] = fmt.Sprintf("P%d", i+1)
			}
		}
	} else if fd.Type.TypeParams != nil {
		i := 0
		for _, f := range fd.Type.TypeParams.List {
			for _, n := range f.Names {
				i++
				ren[n.Name] = fmt.Sprintf("P%d", i)
			}
		}
		for _, f := range fd.Type.TypeParams.List {
			c := typeStr(f.Type, ren)
			for _, n := range f.Names {
				tps = append(tps, ren[n.Name]+" "+c)
			}
		}
	}
	s := ""
	if len(tps) > 0 {
		s = "[" + strings.Join(tps, ", ") + "]"
	}
	params := fd.Type.Params
	if dropExec {
		params = dropTrailingExec(params)
	}
	return s + fieldsStr(params, ren) + resultsStr(fd.Type.Results, ren)
}

// declaredType: "[P1 any, ...] <underlying type>"
func declaredType(ts *ast.TypeSpec) string {
	ren := map[string]string{}
	var tps []string
	if ts.TypeParams != nil {
		i := 0
		for _, f := range ts.TypeParams.List {
			for _, n := range f.Names {
				i++
				ren[n.Name] = fmt.Sprintf("P%d", i)
			}
		}
		for _, f := range ts.TypeParams.List {
			c := typeStr(f.Type, ren)
			for _, n := range f.Names {
				tps = append(tps, ren[n.Name]+" "+c)
			}
		}
	}
	return "[" + strings.Join(tps, ", ") + "] " + typeStr(ts.Type, ren)
}

// P-scheme: positions typed P<i+off>
func sP(off int) scheme {
	return scheme{pre: "p", ty: func(i int) string { return fmt.Sprintf("P%d", i+off) }}
}

func pN(i int) string { return fmt.Sprintf("P%d", i) }

// wantSig builds the expected normal form. constraint(i) gives the constraint of
// type parameter i (1-based); tp = 0 for methods.
func wantSig(pkg string, tp int, constraint func(i int) string, params []string, results []string) string {
	var sb strings.Builder
	if tp > 0 {
		var tps []string
		for i := 1; i <= tp; i++ {
			c := "any"
			if constraint != nil {
				c = constraint(i)
			}
			tps = append(tps, pN(i)+" "+norm(pkg, c))
		}
		sb.WriteString("[" + strings.Join(tps, ", ") + "]")
	}
	var ps []string
	for _, p := range params {
		ps = append(ps, norm(pkg, p))
	}
	sb.WriteString("(" + strings.Join(ps, ", ") + ")")
	var rs []string
	for _, r := range results {
		rs = append(rs, norm(pkg, r))
	}
	switch len(rs) {
	case 0:
	case 1:
		sb.WriteString(" " + rs[0])
	default:
		sb.WriteString(" (" + strings.Join(rs, ", ") + ")")
	}
	return sb.String()
}

func allOf(c string) func(int) string { return func(int) string { return c } }

// shape checks a func / numbered method member; on deviation it emits the
// failing sub-check and returns false.
func (g *generator) shape(m *member, constraint func(i int) string, params []string, results []string) bool {
	tp := m.TP
	if m.Kind == "method" {
		tp = 0
	}
	want := wantSig(m.Pkg, tp, constraint, params, results)
	got := declaredOpt(m.Decl, optExecPkgs[m.Pkg])
	if got == want {
		g.shapeOK++
		return true
	}
	g.shapeFail(m, m.Name, got, want)
	return false
}

// methodShape checks an unnumbered method of an arity-indexed type; a deviating
// method is reported and removed from the type's method list (so no clause uses it).
func (g *generator) methodShape(m *member, method string, params []string, results []string) bool {
	fd := m.MethodDecls[method]
	if fd == nil {
		return false
	}
	want := wantSig(m.Pkg, 0, nil, params, results)
	got := declaredOpt(fd, optExecPkgs[m.Pkg])
	if got == want {
		g.shapeOK++
		return true
	}
	g.shapeFailNamed(m, fmt.Sprintf("%s.%s.%s/%d", m.Pkg, m.Fam, method, m.N), m.Name+"."+method, got, want)
	var keep []string
	for _, x := range m.Methods {
		if x != method {
			keep = append(keep, x)
		}
	}
	m.Methods = keep
	return false
}

func (g *generator) typeShape(m *member, constraint func(i int) string, underlying string) bool {
	var tps []string
	for i := 1; i <= m.TP; i++ {
		c := "any"
		if constraint != nil {
			c = constraint(i)
		}
		tps = append(tps, pN(i)+" "+norm(m.Pkg, c))
	}
	want := "[" + strings.Join(tps, ", ") + "] " + norm(m.Pkg, underlying)
	got := declaredType(m.Spec)
	if got == want {
		g.shapeOK++
		return true
	}
	g.shapeFail(m, m.Name, got, want)
	return false
}

func (g *generator) shapeFail(m *member, name, got, want string) {
	g.shapeFailNamed(m, fmt.Sprintf("%s.%s/%d", m.Pkg, m.Fam, m.N), name, got, want)
	g.record(m)
}

func (g *generator) shapeFailNamed(m *member, sub, name, got, want string) {
	b := g.tests[m.Pkg]
	if b == nil {
		b = &bytes.Buffer{}
		g.tests[m.Pkg] = b
		g.order = append(g.order, m.Pkg)
	}
	fmt.Fprintf(b, "\t// %s.%s (%s): SIGNATURE DEVIATES from the family's shape\n", m.Pkg, name, m.Pos)
	fmt.Fprintf(b, "\tkit.Plain(t, %q, ruleShape, func(t *testing.T, rec *kit.Rec) {\n\t\trec.Case(true, %q)\n\t\trec.PlainFail(t, %q, \"declared %%s; the family's defining equation needs %%s\", %q, %q)\n\t})\n",
		sub, name, fmt.Sprintf("C14|%s.%s|signature-shape", m.Pkg, name), got, want)
	g.shapeFails++
}
