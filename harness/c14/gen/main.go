// Command gen writes c14/arity_gen_test.go.
//
//	cd /verif/harness && go run ./c14/gen
//
// It parses the library's source tree ($VERIF_REPO, default /repo) with
// go/parser, collects every exported top-level func / type / method whose name
// has the shape <Family><N>[<Suffix>] in the packages that hold the
// arity-indexed families, and emits one kit.Check per (family, arity) whose
// defining equation it knows (see emit_*.go; the equations were taken from the
// templates in the library, not from the names). Members it finds but has no
// equation for are listed in the generated `uncovered` variable.
//
// Package future is covered like option and try (emit_monad_tc.go, futureM): its
// members are called over already completed futures, without the optional trailing
// executor argument, under a run-to-completion task queue (chkFut in c14_test.go).
//
// The arity a member really has is derived from its number of type parameters
// (e.g. curried.Flip2 takes a 3-argument function, option.Method2 and
// option.Method3 both take a 3-argument function), never from the name.
package main

import (
	"bytes"
	"flag"
	"fmt"
	"go/ast"
	"go/format"
	"go/parser"
	"go/token"
	"os"
	"path/filepath"
	"regexp"
	"sort"
	"strconv"
	"strings"
)

// member is one discovered arity-indexed declaration.
type member struct {
	Pkg     string // package name as used in the harness ("fp", "as", ...)
	Fam     string // family = name without the digits ("Curried", "HListLabelled", "ApplyFirst")
	Name    string // declared name ("Curried5"); for methods "Func8.ApplyFirst7"
	N       int    // the number in the name
	TP      int    // number of type parameters (funcs and types); receiver's for methods
	Kind    string // "func", "type", "method"
	Recv    string // methods: receiver type name
	RecvN   int
	Methods []string // types: sorted names of exported methods
	Pos     string

	Decl        *ast.FuncDecl            // funcs and methods
	Spec        *ast.TypeSpec            // types
	MethodDecls map[string]*ast.FuncDecl // types: unnumbered exported methods
}

var nameRe = regexp.MustCompile(`^([A-Z][A-Za-z]*?)([0-9]+)([A-Z][A-Za-z]*)?$`)

func splitName(s string) (fam string, n int, ok bool) {
	m := nameRe.FindStringSubmatch(s)
	if m == nil {
		return "", 0, false
	}
	n, _ = strconv.Atoi(m[2])
	return m[1] + m[3], n, true
}

func countFields(fl *ast.FieldList) int {
	if fl == nil {
		return 0
	}
	n := 0
	for _, f := range fl.List {
		if len(f.Names) == 0 {
			n++
		} else {
			n += len(f.Names)
		}
	}
	return n
}

func recvName(e ast.Expr) (string, int) {
	switch x := e.(type) {
	case *ast.StarExpr:
		return recvName(x.X)
	case *ast.IndexExpr:
		s, _ := recvName(x.X)
		return s, 1
	case *ast.IndexListExpr:
		s, _ := recvName(x.X)
		return s, len(x.Indices)
	case *ast.Ident:
		return x.Name, 0
	}
	return "", 0
}

// unnumbered members that are the base case of a numbered family
var aliases = map[string]struct {
	fam string
	n   int
}{
	"curried.Flip":        {"Flip", 1},
	"curried.FlipApply":   {"FlipApply", 1},
	"fp.Func2.ApplyFirst": {"ApplyFirst", 1},
	"fp.Func2.ApplyLast":  {"ApplyLast", 1},
	"future.Flap":         {"Flap", 1}, // Flap2..9 are defined by recursion down to it
	"future.Zip":          {"Zip", 2},  // Zip3's two-operand sibling
}

func discover(root, dir, pkg string) []*member {
	fset := token.NewFileSet()
	pkgs, err := parser.ParseDir(fset, filepath.Join(root, dir), func(fi os.FileInfo) bool {
		return !strings.HasSuffix(fi.Name(), "_test.go")
	}, 0)
	if err != nil {
		fmt.Fprintln(os.Stderr, "gen: parse", dir, err)
		os.Exit(1)
	}
	var out []*member
	types := map[string]*member{}
	seen := map[string]bool{}
	type meth struct {
		recv string
		rtp  int
		name string
		pos  string
		decl *ast.FuncDecl
	}
	var meths []meth
	var names []string
	for n := range pkgs {
		names = append(names, n)
	}
	sort.Strings(names)
	for _, pn := range names {
		if strings.HasSuffix(pn, "_test") {
			continue
		}
		var files []string
		for f := range pkgs[pn].Files {
			files = append(files, f)
		}
		sort.Strings(files)
		for _, fn := range files {
			for _, d := range pkgs[pn].Files[fn].Decls {
				switch x := d.(type) {
				case *ast.FuncDecl:
					if !x.Name.IsExported() {
						continue
					}
					pos := fset.Position(x.Pos())
					ps := fmt.Sprintf("%s:%d", strings.TrimPrefix(pos.Filename, root+"/"), pos.Line)
					if x.Recv != nil && len(x.Recv.List) == 1 {
						rn, rtp := recvName(x.Recv.List[0].Type)
						meths = append(meths, meth{rn, rtp, x.Name.Name, ps, x})
						continue
					}
					fam, n, ok := splitName(x.Name.Name)
					if !ok {
						if a, isAlias := aliases[pkg+"."+x.Name.Name]; isAlias {
							fam, n, ok = a.fam, a.n, true
						}
					}
					if !ok || seen["f:"+x.Name.Name] {
						continue
					}
					seen["f:"+x.Name.Name] = true
					out = append(out, &member{Pkg: pkg, Fam: fam, Name: x.Name.Name, N: n, TP: countFields(x.Type.TypeParams), Kind: "func", Pos: ps, Decl: x})
				case *ast.GenDecl:
					for _, s := range x.Specs {
						ts, ok := s.(*ast.TypeSpec)
						if !ok || !ts.Name.IsExported() {
							continue
						}
						fam, n, ok := splitName(ts.Name.Name)
						if !ok || seen["t:"+ts.Name.Name] {
							continue
						}
						seen["t:"+ts.Name.Name] = true
						pos := fset.Position(ts.Pos())
						m := &member{Pkg: pkg, Fam: fam, Name: ts.Name.Name, N: n, TP: countFields(ts.TypeParams), Kind: "type", Spec: ts, MethodDecls: map[string]*ast.FuncDecl{},
							Pos: fmt.Sprintf("%s:%d", strings.TrimPrefix(pos.Filename, root+"/"), pos.Line)}
						types[ts.Name.Name] = m
						out = append(out, m)
					}
				}
			}
		}
	}
	for _, me := range meths {
		tm, ok := types[me.recv]
		if !ok {
			continue
		}
		fam, n, numbered := splitName(me.name)
		if !numbered {
			if a, isAlias := aliases[pkg+"."+me.recv+"."+me.name]; isAlias {
				fam, n, numbered = a.fam, a.n, true
			}
		}
		if numbered {
			key := "m:" + me.recv + "." + me.name
			if seen[key] {
				continue
			}
			seen[key] = true
			out = append(out, &member{Pkg: pkg, Fam: fam, Name: me.recv + "." + me.name, N: n, TP: me.rtp, Kind: "method", Recv: me.recv, RecvN: tm.N, Pos: me.pos, Decl: me.decl})
			continue
		}
		dup := false
		for _, x := range tm.Methods {
			dup = dup || x == me.name
		}
		if !dup {
			tm.Methods = append(tm.Methods, me.name)
			tm.MethodDecls[me.name] = me.decl
		}
	}
	for _, m := range out {
		sort.Strings(m.Methods)
	}
	return out
}

func (m *member) has(method string) bool {
	for _, x := range m.Methods {
		if x == method {
			return true
		}
	}
	return false
}

// readMax parses internal/max/max.go of the tree.
func readMax(root string) map[string]int {
	fset := token.NewFileSet()
	f, err := parser.ParseFile(fset, filepath.Join(root, "internal/max/max.go"), nil, 0)
	if err != nil {
		fmt.Fprintln(os.Stderr, "gen:", err)
		os.Exit(1)
	}
	r := map[string]int{}
	for _, d := range f.Decls {
		g, ok := d.(*ast.GenDecl)
		if !ok || g.Tok != token.CONST {
			continue
		}
		for _, s := range g.Specs {
			vs := s.(*ast.ValueSpec)
			for i, n := range vs.Names {
				if i < len(vs.Values) {
					if bl, ok := vs.Values[i].(*ast.BasicLit); ok {
						v, _ := strconv.Atoi(bl.Value)
						r[n.Name] = v
					}
				}
			}
		}
	}
	return r
}

// ---- output -------------------------------------------------------------------

type generator struct {
	tests      map[string]*bytes.Buffer // per package test function body
	order      []string
	emitted    map[string][]int
	uncovered  []string
	subs       int
	shapeFails int
	shapeOK    int
	byName     map[string]*member
	maxT       int // highest Ti / Li needed
}

// sub emits one kit.Check. draws = number of values to draw (a1..a<draws>);
// arity = the member's arity (non-trivial rule).
func (g *generator) sub(m *member, draws, arity int, body string) {
	b := g.tests[m.Pkg]
	if b == nil {
		b = &bytes.Buffer{}
		g.tests[m.Pkg] = b
		g.order = append(g.order, m.Pkg)
	}
	fmt.Fprintf(b, "\t// %s.%s (%s)\n", m.Pkg, m.Name, m.Pos)
	fmt.Fprintf(b, "\tkit.Check(t, %q, ruleVals, opt(%d), func(rt *rapid.T, rec *kit.Rec) {\n", fmt.Sprintf("%s.%s/%d", m.Pkg, m.Fam, m.N), arity)
	fmt.Fprintf(b, "\t\tv := drawN(rt, rec, %d, %d)\n\t\t_ = v\n", draws, arity)
	if draws > 0 {
		fmt.Fprintf(b, "\t\t%s := %s\n", list(1, draws, func(i int) string { return fmt.Sprintf("a%d", i) }), list(1, draws, func(i int) string { return fmt.Sprintf("v[%d]", i-1) }))
		fmt.Fprintf(b, "\t\t%s = %s\n", list(1, draws, func(i int) string { return "_" }), list(1, draws, func(i int) string { return fmt.Sprintf("a%d", i) }))
	}
	b.WriteString(body)
	fmt.Fprintf(b, "\t})\n")
	g.record(m)
}

// raw emits a statement block that registers its own kit.Check (type class families).
func (g *generator) raw(m *member, code string) {
	b := g.tests[m.Pkg]
	if b == nil {
		b = &bytes.Buffer{}
		g.tests[m.Pkg] = b
		g.order = append(g.order, m.Pkg)
	}
	fmt.Fprintf(b, "\t// %s.%s (%s)\n", m.Pkg, m.Name, m.Pos)
	b.WriteString(code)
	g.record(m)
}

func (g *generator) record(m *member) {
	k := m.Pkg + "." + m.Fam
	g.emitted[k] = append(g.emitted[k], m.N)
	g.subs++
}

func (g *generator) skip(m *member, why string) {
	g.uncovered = append(g.uncovered, fmt.Sprintf("%s.%s (%s): %s", m.Pkg, m.Name, m.Pos, why))
}

func (g *generator) needT(n int) {
	if n > g.maxT {
		g.maxT = n
	}
}

func sig(m *member, clause string) string {
	return fmt.Sprintf("%q", fmt.Sprintf("C14|%s.%s|%s", m.Pkg, m.Name, clause))
}

type pkgSpec struct{ dir, name, imp string }

var packages = []pkgSpec{
	{".", "fp", "github.com/csgura/fp"},
	{"as", "as", "github.com/csgura/fp/as"},
	{"curried", "curried", "github.com/csgura/fp/curried"},
	{"hlist", "hlist", "github.com/csgura/fp/hlist"},
	{"product", "product", "github.com/csgura/fp/product"},
	{"fn1", "fn1", "github.com/csgura/fp/fn1"},
	{"unit", "unit", "github.com/csgura/fp/unit"},
	{"option", "option", "github.com/csgura/fp/option"},
	{"try", "try", "github.com/csgura/fp/try"},
	{"eq", "eq", "github.com/csgura/fp/eq"},
	{"ord", "ord", "github.com/csgura/fp/ord"},
	{"hash", "hash", "github.com/csgura/fp/hash"},
	{"monoid", "monoid", "github.com/csgura/fp/monoid"},
	{"clone", "clone", "github.com/csgura/fp/clone"},
	{"future", "future", "github.com/csgura/fp/future"},
}

func main() {
	out := flag.String("o", "c14/arity_gen_test.go", "output file")
	listOnly := flag.Bool("list", false, "print the discovered members and exit")
	flag.Parse()
	root := os.Getenv("VERIF_REPO")
	if root == "" {
		root = "/repo"
	}
	root, _ = filepath.Abs(root)
	mx := readMax(root)

	g := &generator{tests: map[string]*bytes.Buffer{}, emitted: map[string][]int{}, byName: map[string]*member{}}
	for _, p := range packages {
		ms := discover(root, p.dir, p.name)
		sort.SliceStable(ms, func(i, j int) bool {
			if (ms[i].Kind == "type") != (ms[j].Kind == "type") {
				return ms[i].Kind == "type" // types first: their method shapes decide which builder clauses are emitted
			}
			if ms[i].Fam != ms[j].Fam {
				return ms[i].Fam < ms[j].Fam
			}
			if ms[i].N != ms[j].N {
				return ms[i].N < ms[j].N
			}
			return ms[i].Name < ms[j].Name
		})
		for _, m := range ms {
			if m.Kind != "method" {
				g.byName[m.Pkg+"."+m.Name] = m
			}
		}
		for _, m := range ms {
			if *listOnly {
				fmt.Printf("%-8s %-7s %-28s N=%-2d TP=%-2d %v %s\n", m.Pkg, m.Kind, m.Name, m.N, m.TP, m.Methods, m.Pos)
				continue
			}
			e := emitters[m.Pkg+"."+m.Kind+"."+m.Fam]
			if e == nil {
				g.skip(m, "no defining equation known to the generator")
				continue
			}
			e(g, m)
		}
	}
	if *listOnly {
		return
	}

	var b bytes.Buffer
	fmt.Fprintf(&b, "// Code generated by c14/gen from the source tree of github.com/csgura/fp; DO NOT EDIT.\n")
	fmt.Fprintf(&b, "// Regenerate: cd /verif/harness && go run ./c14/gen      (reads $VERIF_REPO, default /repo)\n")
	fmt.Fprintf(&b, "// Limits at generation time: max.Func=%d max.Product=%d max.Compose=%d; %d sub-checks.\n\n", mx["Func"], mx["Product"], mx["Compose"], g.subs)
	fmt.Fprintf(&b, "package c14\n\nimport (\n\t\"testing\"\n\n")
	for _, p := range packages {
		fmt.Fprintf(&b, "\t%q\n", p.imp)
	}
	fmt.Fprintf(&b, "\t\"pgregory.net/rapid\"\n\n\t\"verifharness/kit\"\n)\n\n")
	fmt.Fprintf(&b, "var (\n\t_ = fp.Unit{}\n\t_ = as.Tuple2[int, int]\n\t_ = curried.Func2[int, int, int]\n\t_ = hlist.Empty\n\t_ = product.Tuple2[int, int]\n\t_ = fn1.Merge2[int, int, int]\n\t_ = unit.Func0\n\t_ = option.Some[int]\n\t_ = try.Success[int]\n\t_ = eq.Given[int]\n\t_ = ord.Given[int]\n\t_ = hash.Number[int]\n\t_ = monoid.String\n\t_ = clone.Given[int]\n\t_ = future.Successful[int]\n)\n\n")
	fmt.Fprintf(&b, "const (\n\tgenMaxFunc = %d\n\tgenMaxProduct = %d\n\tgenMaxCompose = %d\n)\n\n", mx["Func"], mx["Product"], mx["Compose"])
	for i := 1; i <= g.maxT; i++ {
		fmt.Fprintf(&b, "type T%d int\n", i)
	}
	for i := 1; i <= g.maxT; i++ {
		fmt.Fprintf(&b, "type L%d int\n\nfunc (L%d) Name() string { return \"L%d\" }\n\n", i, i, i)
	}
	fams := make([]string, 0, len(g.emitted))
	for k := range g.emitted {
		fams = append(fams, k)
	}
	sort.Strings(fams)
	fmt.Fprintf(&b, "// emittedArity: family -> arities (the number in the member's name) with a sub-check below.\nvar emittedArity = map[string][]int{\n")
	for _, k := range fams {
		as := g.emitted[k]
		sort.Ints(as)
		fmt.Fprintf(&b, "\t%q: {%s},\n", k, list(0, len(as)-1, func(i int) string { return strconv.Itoa(as[i]) }))
	}
	fmt.Fprintf(&b, "}\n\n// uncovered: discovered arity-indexed members without a sub-check.\nvar uncovered = []string{\n")
	sort.Strings(g.uncovered)
	for _, u := range g.uncovered {
		fmt.Fprintf(&b, "\t%q,\n", u)
	}
	fmt.Fprintf(&b, "}\n\n")
	for _, p := range g.order {
		fmt.Fprintf(&b, "func TestArity_%s(t *testing.T) {\n%s}\n\n", p, g.tests[p].String())
	}
	src, err := format.Source(b.Bytes())
	if err != nil {
		_ = os.WriteFile(*out+".broken", b.Bytes(), 0o644)
		fmt.Fprintln(os.Stderr, "gen: generated source does not parse (see "+*out+".broken):", err)
		os.Exit(1)
	}
	if old, err := os.ReadFile(*out); err == nil && bytes.Equal(old, src) {
		fmt.Printf("%s up to date (%d sub-checks, %d families, %d uncovered members, %d signatures match their family's shape, %d deviate)\n", *out, g.subs, len(fams), len(g.uncovered), g.shapeOK, g.shapeFails)
		return
	}
	if err := os.WriteFile(*out, src, 0o644); err != nil {
		fmt.Fprintln(os.Stderr, "gen:", err)
		os.Exit(1)
	}
	fmt.Printf("wrote %s from %s (%d sub-checks, %d families, %d uncovered members, %d signatures match their family's shape, %d deviate)\n", *out, root, g.subs, len(fams), len(g.uncovered), g.shapeOK, g.shapeFails)
}
