package main

import (
	"fmt"
	"strings"
)

// list joins f(from..to) with ", ".
func list(from, to int, f func(i int) string) string {
	var xs []string
	for i := from; i <= to; i++ {
		xs = append(xs, f(i))
	}
	return strings.Join(xs, ", ")
}

func concat(from, to int, f func(i int) string) string {
	var sb strings.Builder
	for i := from; i <= to; i++ {
		sb.WriteString(f(i))
	}
	return sb.String()
}

// scheme: how the positions are typed in one instantiation of a member.
//
//	sInt : int everywhere, values a1..aN          (permutations compile and are visible)
//	sT   : T1..TN, values b1..bN = Ti(ai)         (the quantifier's "pairwise distinct types")
//	sN   : nint everywhere (fp.Named), values n1..nN
//	sL   : L1..LN (fp.Named), values l1..lN
type scheme struct {
	tag  string // clause suffix
	pre  string // variable prefix
	ty   func(i int) string
	fn   string // name of the position reporting function variable
	conv bool   // values need int(...) to be read
}

var (
	sInt = scheme{tag: "", pre: "a", ty: func(int) string { return "int" }, fn: "f"}
	sT   = scheme{tag: "/distinct-types", pre: "b", ty: func(i int) string { return fmt.Sprintf("T%d", i) }, fn: "g", conv: true}
	sN   = scheme{tag: "", pre: "n", ty: func(int) string { return "nint" }, fn: "fn", conv: true}
	sL   = scheme{tag: "/distinct-types", pre: "l", ty: func(i int) string { return fmt.Sprintf("L%d", i) }, fn: "fl", conv: true}
)

func (s scheme) arg(i int) string { return fmt.Sprintf("%s%d", s.pre, i) }
func (s scheme) args(from, to int) string {
	return list(from, to, s.arg)
}
func (s scheme) tys(from, to int) string { return list(from, to, s.ty) }
func (s scheme) decl(from, to int) string {
	return list(from, to, func(i int) string { return s.arg(i) + " " + s.ty(i) })
}
func (s scheme) toInt(expr string) string {
	if s.conv {
		return "int(" + expr + ")"
	}
	return expr
}

// ints: []int{toInt(f(1)), ...}
func (s scheme) ints(from, to int, f func(i int) string) string {
	return "[]int{" + list(from, to, func(i int) string { return s.toInt(f(i)) }) + "}"
}

// vals declares the scheme's values from a1..aK (nothing for sInt).
func (s scheme) vals(k int) string {
	if s.pre == "a" || k == 0 {
		return ""
	}
	return fmt.Sprintf("\t\t%s := %s\n\t\t%s = %s\n", s.args(1, k), list(1, k, func(i int) string { return s.ty(i) + "(a" + fmt.Sprint(i) + ")" }),
		list(1, k, func(int) string { return "_" }), s.args(1, k))
}

// defF declares the position reporting function of arity k: returns the
// arguments it received, in the order it received them.
func (s scheme) defF(k int) string {
	return fmt.Sprintf("\t\t%s := func(%s) []int { return %s }\n", s.fn, s.decl(1, k), s.ints(1, k, s.arg))
}

// defFM: same, result wrapped by wrap (e.g. option.Some).
func (s scheme) defFM(name string, k int, retTy, wrap string) string {
	return fmt.Sprintf("\t\t%s := func(%s) %s { return %s(%s) }\n", name, s.decl(1, k), retTy, wrap, s.ints(1, k, s.arg))
}

// curriedTy: fp.Func1[ty(from), fp.Func1[..., ret]]
func (s scheme) curriedTy(from, to int, ret string) string {
	r := ret
	for i := to; i >= from; i-- {
		r = fmt.Sprintf("fp.Func1[%s, %s]", s.ty(i), r)
	}
	return r
}

// curriedTyOrder: curried type over an explicit order of positions
func (s scheme) curriedTyOrder(order []int, ret string) string {
	r := ret
	for j := len(order) - 1; j >= 0; j-- {
		r = fmt.Sprintf("fp.Func1[%s, %s]", s.ty(order[j]), r)
	}
	return r
}

// defCurried declares name as the directly written curried function of arity k
// (nested closures, no library code) returning ret(body).
func (s scheme) defCurried(name string, k int, retTy string, body string) string {
	var sb strings.Builder
	fmt.Fprintf(&sb, "\t\tvar %s %s = ", name, s.curriedTy(1, k, retTy))
	for i := 1; i <= k; i++ {
		fmt.Fprintf(&sb, "func(%s %s) %s { return ", s.arg(i), s.ty(i), s.curriedTy(i+1, k, retTy))
	}
	sb.WriteString(body)
	for i := 1; i <= k; i++ {
		sb.WriteString(" }")
	}
	sb.WriteString("\n")
	return sb.String()
}

// consTy: hlist.Cons[ty(order[0]), hlist.Cons[..., last]]
func (s scheme) consTy(order []int, last string) string {
	r := last
	for j := len(order) - 1; j >= 0; j-- {
		r = fmt.Sprintf("hlist.Cons[%s, %s]", s.ty(order[j]), r)
	}
	return r
}

// consLit: hlist.Concat(arg(order[0]), hlist.Concat(..., last)) - only the hand-written primitive Concat.
func (s scheme) consLit(order []int, last string) string {
	r := last
	for j := len(order) - 1; j >= 0; j-- {
		r = fmt.Sprintf("hlist.Concat(%s, %s)", s.arg(order[j]), r)
	}
	return r
}

// nth element of an hlist expression through the primitives Tail and Head (0-based).
func hnth(h string, j int) string {
	for i := 0; i < j; i++ {
		h = "hlist.Tail(" + h + ")"
	}
	return h + ".Head()"
}

// readH: statements reading the first k heads of hlist expression h into typed
// variables (order gives the expected position at each depth) and the []int of them.
func (s scheme) readH(h string, order []int, res string) string {
	var sb strings.Builder
	for j, p := range order {
		fmt.Fprintf(&sb, "var x%d %s = %s; ", j, s.ty(p), hnth(h, j))
	}
	fmt.Fprintf(&sb, "%s := []int{%s}", res, list(0, len(order)-1, func(j int) string { return s.toInt(fmt.Sprintf("x%d", j)) }))
	return sb.String()
}

func seq(from, to int) []int {
	var r []int
	for i := from; i <= to; i++ {
		r = append(r, i)
	}
	return r
}

func rseq(from, to int) []int {
	var r []int
	for i := to; i >= from; i-- {
		r = append(r, i)
	}
	return r
}

// tupleLit: fp.Tuple<k>[tys]{I1: arg1, ...}
func (s scheme) tupleLit(tname string, k int) string {
	return fmt.Sprintf("fp.%s%d[%s]{%s}", tname, k, s.tys(1, k), list(1, k, func(i int) string { return fmt.Sprintf("I%d: %s", i, s.arg(i)) }))
}

func (s scheme) tupleTy(tname string, k int) string {
	return fmt.Sprintf("fp.%s%d[%s]", tname, k, s.tys(1, k))
}

// fields: []int of t.I1..t.Ik with a static type assertion per field
func (s scheme) fields(t string, k int) string {
	return s.ints(1, k, func(i int) string { return fmt.Sprintf("%s.I%d", t, i) })
}

// block wraps statements into a clause: chk(rt, rec, sig, func() []int { stmts; return res }, want)
func clause(m *member, name string, stmts string, res string, want string) string {
	if stmts != "" {
		stmts += "; "
	}
	return fmt.Sprintf("\t\tchk(rt, rec, %s, func() []int { %sreturn %s }, %s)\n", sig(m, name), stmts, res, want)
}

// curriedApply applies a curried function expression to the arguments in the given order. Every partial
// application except the last goes through fork1 (c14_test.go): the same function value is also applied to
// two other arguments, once before and once after, and those partial applications are dropped. A curried
// function is a function: what an earlier or later application of the same value received must not reach
// this chain.
func curriedApply(expr string, s scheme, order []int) string {
	for j, p := range order {
		a := s.arg(p)
		if j == len(order)-1 {
			expr = expr + "(" + a + ")"
		} else {
			expr = fmt.Sprintf("fork1(%s, %s, %s+1000, %s+2000)", expr, a, a, a)
		}
	}
	return expr
}
