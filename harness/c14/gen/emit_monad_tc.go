package main

import (
	"fmt"
	"strings"
)

type monad struct {
	pkg     string
	ty      func(x string) string
	some    string
	chk     string
	conv    string // harness helper turning M[T] into M[[]int] without library code
	chkUnit string // harness helper for members returning M[fp.Unit] whose callback records what it received
	// builder methods taking an already wrapped operand / a thunk, besides Ap and ApFunc
	apWrapped map[string]string    // method -> wrapper function of the operand
	apThunk   map[string][2]string // method -> (thunk result type ctor, wrapper)
	// builder methods whose operand can be a failure carrying an error of its own: method -> constructor
	apFailed map[string]string
	chkFail  string // harness helper: the result is the failure with the given error
}

var (
	optionM = monad{pkg: "option", ty: func(x string) string { return "fp.Option[" + x + "]" }, some: "option.Some", chk: "chkOpt", conv: "optInts",
		apWrapped: map[string]string{"ApOption": "option.Some"},
		apThunk:   map[string][2]string{"ApOptionFunc": {"fp.Option", "option.Some"}}}
	tryM = monad{pkg: "try", ty: func(x string) string { return "fp.Try[" + x + "]" }, some: "try.Success", chk: "chkTry", conv: "tryInts", chkUnit: "chkTryUnit",
		apWrapped: map[string]string{"ApOption": "option.Some", "ApTry": "try.Success"},
		apThunk:   map[string][2]string{"ApOptionFunc": {"fp.Option", "option.Some"}, "ApTryFunc": {"fp.Try", "try.Success"}},
		apFailed:  map[string]string{"ApTry": "try.Failure[int]"}, chkFail: "chkTryFail"}
	// futureM: every operand is an already completed future; chkFut (c14_test.go) installs a run-to-completion
	// task queue as the default executor through the verif spawn hook, drains it after the call and reads the
	// result. Members are called without their optional trailing `exec ...fp.Executor` argument.
	futureM = monad{pkg: "future", ty: func(x string) string { return "fp.Future[" + x + "]" }, some: "future.Successful", chk: "chkFut", conv: "futInts", chkUnit: "chkFutUnit",
		apWrapped: map[string]string{"ApOption": "option.Some", "ApTry": "try.Success", "ApFuture": "future.Successful"},
		apThunk:   map[string][2]string{"ApOptionFunc": {"fp.Option", "option.Some"}, "ApTryFunc": {"fp.Try", "try.Success"}, "ApFutureFunc": {"fp.Future", "future.Successful"}},
		apFailed:  map[string]string{"ApTry": "try.Failure[int]", "ApFuture": "future.Failed[int]"}, chkFail: "chkFutFail"}
)

func (mo monad) clause(m *member, name, stmts, res, want string) string {
	if stmts != "" {
		stmts += "; "
	}
	return fmt.Sprintf("\t\t%s(rt, rec, %s, func() %s { %sreturn %s }, %s)\n", mo.chk, sig(m, name), mo.ty("[]int"), stmts, res, want)
}

func (mo monad) somes(s scheme, from, to int) string {
	return list(from, to, func(i int) string { return mo.some + "(" + s.arg(i) + ")" })
}

func regMonad(mo monad) {
	p := mo.pkg
	both := []scheme{sInt, sT}
	M := mo.ty
	simple := func(offset int, minK int, schemes []scheme, name string, shp func(k int) (params, results []string), build func(s scheme, k int, m *member) (pre, stmts, res string)) emitter {
		return func(g *generator, m *member) {
			k := m.TP - offset
			if k != m.N || k < minK {
				g.skip(m, "unexpected number of type parameters")
				return
			}
			if ps, rs := shp(k); !g.shape(m, nil, ps, rs) {
				return
			}
			var b strings.Builder
			for _, s := range schemes {
				g.schemeUse(s, k)
				pre, stmts, res := build(s, k, m)
				b.WriteString("\t\t{\n" + s.vals(k) + pre + mo.clause(m, name+s.tag, stmts, res, "v") + "\t\t}\n")
			}
			g.sub(m, k, k, b.String())
		}
	}
	mty := mo.ty("[]int")
	// LiftAN(f)(M a1..M aN) = M f(a1..aN); MapN(M a1..M aN, f) likewise
	reg(p+".func.LiftA", simple(1, 1, both, "all-success", func(k int) ([]string, []string) {
		return []string{fnTy(ptys(0, 1, k), pN(k+1))}, []string{fnTy(wrapAll(strings.TrimSuffix(M(""), "[]"), ptys(0, 1, k)), M(pN(k+1)))}
	}, func(s scheme, k int, m *member) (string, string, string) {
		return s.defF(k), "", fmt.Sprintf("%s.%s(%s)(%s)", p, m.Name, s.fn, mo.somes(s, 1, k))
	}))
	reg(p+".func.Map", simple(1, 1, both, "all-success", func(k int) ([]string, []string) {
		return append(wrapAll(strings.TrimSuffix(M(""), "[]"), ptys(0, 1, k)), fnTy(ptys(0, 1, k), pN(k+1))), []string{M(pN(k + 1))}
	}, func(s scheme, k int, m *member) (string, string, string) {
		return s.defF(k), "", fmt.Sprintf("%s.%s(%s, %s)", p, m.Name, mo.somes(s, 1, k), s.fn)
	}))
	// LiftMN / FlatMapN: f returns M r
	reg(p+".func.LiftM", simple(1, 1, both, "all-success", func(k int) ([]string, []string) {
		return []string{fnTy(ptys(0, 1, k), M(pN(k+1)))}, []string{fnTy(wrapAll(strings.TrimSuffix(M(""), "[]"), ptys(0, 1, k)), M(pN(k+1)))}
	}, func(s scheme, k int, m *member) (string, string, string) {
		return s.defFM("fm", k, mty, mo.some), "", fmt.Sprintf("%s.%s(fm)(%s)", p, m.Name, mo.somes(s, 1, k))
	}))
	reg(p+".func.FlatMap", simple(1, 1, both, "all-success", func(k int) ([]string, []string) {
		return append(wrapAll(strings.TrimSuffix(M(""), "[]"), ptys(0, 1, k)), fnTy(ptys(0, 1, k), M(pN(k+1)))), []string{M(pN(k + 1))}
	}, func(s scheme, k int, m *member) (string, string, string) {
		return s.defFM("fm", k, mty, mo.some), "", fmt.Sprintf("%s.%s(%s, fm)", p, m.Name, mo.somes(s, 1, k))
	}))
	// FlapN(M c)(a1)..(aN) = M c(a1)..(aN)
	reg(p+".func.Flap", simple(1, 1, both, "all-success", func(k int) ([]string, []string) {
		return []string{M(sP(0).curriedTy(1, k, pN(k+1)))}, []string{sP(0).curriedTy(1, k, M(pN(k+1)))}
	}, func(s scheme, k int, m *member) (string, string, string) {
		return s.defCurried("c", k, "[]int", s.ints(1, k, s.arg)), fmt.Sprintf("var fl %s = %s.%s(%s(c))", s.curriedTy(1, k, mty), p, m.Name, mo.some), curriedApply("fl", s, seq(1, k))
	}))
	// Method*(M a1, f)(a2..aK) = M f(a1..aK); K is the arity of f (Method1: 2, Method2: 3, MethodN: N for N >= 3)
	method := func(flat bool) emitter {
		return func(g *generator, m *member) {
			k := m.TP - 1
			if k < 2 || (k != m.N && k != m.N+1) {
				g.skip(m, "unexpected number of type parameters")
				return
			}
			fr := pN(k + 1)
			if flat {
				fr = M(fr)
			}
			if !g.shape(m, nil, []string{M("P1"), fnTy(ptys(0, 1, k), fr)}, []string{fnTy(ptys(0, 2, k), M(pN(k+1)))}) {
				return
			}
			var b strings.Builder
			for _, s := range both {
				g.schemeUse(s, k)
				b.WriteString("\t\t{\n" + s.vals(k))
				fn := s.fn
				if flat {
					b.WriteString(s.defFM("fm", k, mty, mo.some))
					fn = "fm"
				} else {
					b.WriteString(s.defF(k))
				}
				b.WriteString(mo.clause(m, "receiver-first"+s.tag, fmt.Sprintf("var bound func(%s) %s = %s.%s(%s(%s), %s)", s.tys(2, k), mty, p, m.Name, mo.some, s.arg(1), fn), fmt.Sprintf("bound(%s)", s.args(2, k)), "v"))
				b.WriteString("\t\t}\n")
			}
			g.sub(m, k, k, b.String())
		}
	}
	reg(p+".func.Method", method(false))
	reg(p+".func.FlatMethod", method(true))
	// ComposeN(f1..fN)(x) = f1(x) >>= f2 >>= ... >>= fN
	reg(p+".func.Compose", func(g *generator, m *member) {
		k := m.TP - 1
		if k != m.N || k < 2 {
			g.skip(m, "unexpected number of type parameters")
			return
		}
		{
			var ps []string
			for i := 1; i <= k; i++ {
				ps = append(ps, fnTy(ptys(0, i, i), M(pN(i+1))))
			}
			if !g.shape(m, nil, ps, []string{fnTy(ptys(0, 1, 1), M(pN(k+1)))}) {
				return
			}
		}
		var b strings.Builder
		for i := 1; i <= k; i++ {
			if i < k {
				fmt.Fprintf(&b, "\t\tf%d := func(x int) %s { return %s(x*3 + a%d) }\n", i, mo.ty("int"), mo.some, i)
			} else {
				fmt.Fprintf(&b, "\t\tf%d := func(x int) %s { return %s([]int{x*3 + a%d}) }\n", i, mty, mo.some, i)
			}
		}
		b.WriteString(mo.clause(m, "left-to-right", "", fmt.Sprintf("%s.%s(%s)(a%d)", p, m.Name, list(1, k, ff), k+1), fmt.Sprintf("[]int{chain(a%d, v[:%d])}", k+1, k)))
		g.sub(m, k+1, k, b.String())
	})
	// Zip3(M a, M b, M c) = M Tuple3{a,b,c}; Zip(M a, M b) = M Tuple2{a,b} (where the package's Zip is listed in aliases)
	reg(p+".func.Zip", func(g *generator, m *member) {
		k := m.TP
		if k != m.N || (k != 3 && k != 2) {
			g.skip(m, "no defining equation known for this arity")
			return
		}
		if !g.shape(m, nil, wrapAll(strings.TrimSuffix(M(""), "[]"), ptys(0, 1, k)), []string{M(sP(0).tupleTy("Tuple", k))}) {
			return
		}
		var b strings.Builder
		for _, s := range both {
			g.schemeUse(s, k)
			b.WriteString("\t\t{\n" + s.vals(k))
			b.WriteString(mo.clause(m, "fields-in-order"+s.tag, fmt.Sprintf("var z %s = %s.%s(%s)", mo.ty(s.tupleTy("Tuple", k)), p, m.Name, mo.somes(s, 1, k)),
				fmt.Sprintf("%s(z, func(t %s) []int { return %s })", mo.conv, s.tupleTy("Tuple", k), s.fields("t", k)), "v"))
			b.WriteString("\t\t}\n")
		}
		g.sub(m, k, k, b.String())
	})
	// PureN(f)(a1..aN) = M f(a1..aN)
	reg(p+".func.Pure", func(g *generator, m *member) {
		k := m.TP - 1
		if k != m.N {
			g.skip(m, "unexpected number of type parameters")
			return
		}
		if k == 0 {
			if !g.shape(m, nil, []string{"func() P1"}, []string{fnTy([]string{"fp.Unit"}, M("P1"))}) {
				return
			}
			g.sub(m, 1, 0, "\t\tf0 := func() []int { return []int{a1} }\n"+mo.clause(m, "all-success", "", fmt.Sprintf("%s.%s(f0)(fp.Unit{})", p, m.Name), "v"))
			return
		}
		simple(1, 1, both, "all-success", func(k int) ([]string, []string) {
			return []string{fnTy(ptys(0, 1, k), pN(k+1))}, []string{fnTy(ptys(0, 1, k), M(pN(k+1)))}
		}, func(s scheme, k int, m *member) (string, string, string) {
			return s.defF(k), "", fmt.Sprintf("%s.%s(%s)(%s)", p, m.Name, s.fn, s.args(1, k))
		})(g, m)
	})

	// ---- builders ---------------------------------------------------------------------
	MW := strings.TrimSuffix(M(""), "[]")
	// operand shapes of the builder methods, by method name, for element type A
	operand := func(method, A, H, HT string) (string, bool) {
		switch method {
		case "Ap":
			return A, true
		case "ApFunc":
			return "func() " + A, true
		case "ApOption":
			return "fp.Option[" + A + "]", true
		case "ApTry":
			return "fp.Try[" + A + "]", true
		case "ApFuture":
			return "fp.Future[" + A + "]", true
		case "ApFutureFunc":
			return "func() fp.Future[" + A + "]", true
		case "ApOptionFunc":
			return "func() fp.Option[" + A + "]", true
		case "ApTryFunc":
			return "func() fp.Try[" + A + "]", true
		case "Map":
			return fnTy([]string{HT}, A), HT != ""
		case "FlatMap":
			return fnTy([]string{HT}, MW+"["+A+"]"), HT != ""
		case "HListMap":
			return fnTy([]string{H}, A), H != ""
		case "HListFlatMap":
			return fnTy([]string{H}, MW+"["+A+"]"), H != ""
		}
		return "", false
	}
	note := func(chain bool, known ...string) emitter {
		return func(g *generator, m *member) {
			g.methodsKnown(m, known...)
			n := m.N
			var next, A, H, HT string
			if chain { // MonadChainN[H, HT, A1..AN, R]
				if m.TP != n+3 {
					g.skip(m, "unexpected number of type parameters")
					return
				}
				H, HT, A = "P1", "P2", "P3"
				next = M(pN(n + 3))
				if n > 1 {
					next = fmt.Sprintf("%s.MonadChain%d[hlist.Cons[P3, P1], P3, %s]", p, n-1, strings.Join(ptys(0, 4, n+3), ", "))
				}
			} else { // ApplicativeFunctorN[A1..AN, R]
				if m.TP != n+1 {
					g.skip(m, "unexpected number of type parameters")
					return
				}
				A = "P1"
				next = M(pN(n + 1))
				if n > 1 {
					next = fmt.Sprintf("%s.ApplicativeFunctor%d[%s]", p, n-1, strings.Join(ptys(0, 2, n+1), ", "))
				}
			}
			for _, meth := range append([]string{}, m.Methods...) {
				if op, ok := operand(meth, A, H, HT); ok {
					g.methodShape(m, meth, []string{op}, []string{next})
				}
			}
			k := m.Pkg + "." + m.Fam
			g.emitted[k] = append(g.emitted[k], m.N) // exercised by the Applicative/Chain sub-check of the same arity
		}
	}
	apKnown := []string{"Ap", "ApFunc"}
	for k := range mo.apWrapped {
		apKnown = append(apKnown, k)
	}
	for k := range mo.apThunk {
		apKnown = append(apKnown, k)
	}
	reg(p+".type.ApplicativeFunctor", note(false, apKnown...))
	reg(p+".type.MonadChain", note(true, append([]string{"Map", "FlatMap", "HListMap", "HListFlatMap"}, apKnown...)...))

	// step: the call applied at position i of a builder chain, per variant
	step := func(variant string, i, k int, seenInit bool) (string, bool) {
		a := fmt.Sprintf("a%d", i)
		switch variant {
		case "Ap":
			return fmt.Sprintf(".Ap(%s)", a), true
		case "ApFunc":
			// stateful supplier: a the first time it runs, something else afterwards
			return fmt.Sprintf(".ApFunc(nth(%s))", a), true
		}
		if w, ok := mo.apWrapped[variant]; ok {
			return fmt.Sprintf(".%s(%s(%s))", variant, w, a), true
		}
		if w, ok := mo.apThunk[variant]; ok {
			return fmt.Sprintf(".%s(thunkOf(nth(%s), %s[int]))", variant, a, w[1]), true
		}
		// chain callbacks: Map/FlatMap see the previously applied value (hlist.Nil at the first step),
		// HListMap/HListFlatMap see all previously applied values, most recent first.
		ret, rty := a, "int"
		if variant == "FlatMap" || variant == "HListFlatMap" {
			ret, rty = mo.some+"("+a+")", mo.ty("int")
		}
		switch variant {
		case "Map", "FlatMap":
			if i == 1 {
				return fmt.Sprintf(".%s(func(hlist.Nil) %s { return %s })", variant, rty, ret), true
			}
			return fmt.Sprintf(".%s(func(p int) %s { seen = append(seen, p); return %s })", variant, rty, ret), true
		case "HListMap", "HListFlatMap":
			if i == 1 {
				return fmt.Sprintf(".%s(func(hlist.Nil) %s { return %s })", variant, rty, ret), true
			}
			order := rseq(1, i-1)
			return fmt.Sprintf(".%s(func(h %s) %s { seen = append(seen, %s); return %s })", variant, sInt.consTy(order, "hlist.Nil"), rty,
				list(0, i-2, func(j int) string { return hnth("h", j) }), ret), true
		}
		return "", false
	}
	builder := func(typeFam string, variants []string) emitter {
		return func(g *generator, m *member) {
			k := m.TP - 1
			if k != m.N || k < 1 {
				g.skip(m, "unexpected number of type parameters")
				return
			}
			res := fmt.Sprintf("%s.%s%d[%s]", p, typeFam, k, strings.Join(ptys(0, 1, k+1), ", "))
			if typeFam == "MonadChain" {
				res = fmt.Sprintf("%s.%s%d[hlist.Nil, hlist.Nil, %s]", p, typeFam, k, strings.Join(ptys(0, 1, k+1), ", "))
			}
			if !g.shape(m, nil, []string{fnTy(ptys(0, 1, k), pN(k+1))}, []string{res}) {
				return
			}
			var b strings.Builder
			b.WriteString(sInt.defF(k))
			n := 0
			for _, v := range variants {
				// the variant needs the method on every intermediate builder type K..1
				ok := true
				for j := k; j >= 1; j-- {
					tm := g.byName[fmt.Sprintf("%s.%s%d", p, typeFam, j)]
					ok = ok && tm != nil && tm.has(v)
				}
				if !ok {
					continue
				}
				var ch strings.Builder
				fmt.Fprintf(&ch, "%s.%s(f)", p, m.Name)
				for i := 1; i <= k; i++ {
					s, _ := step(v, i, k, false)
					ch.WriteString(s)
				}
				want := "v"
				res := ch.String()
				stmts := ""
				switch v {
				case "Map", "FlatMap":
					stmts = "var seen []int; r := " + res
					res = mo.conv + "(r, func(x []int) []int { return cat(x, seen) })"
					want = fmt.Sprintf("cat(v, v[:%d])", k-1)
				case "HListMap", "HListFlatMap":
					stmts = "var seen []int; r := " + res
					res = mo.conv + "(r, func(x []int) []int { return cat(x, seen) })"
					want = "cat(v" + concat(1, k-1, func(i int) string { return fmt.Sprintf(", rev(v[:%d])", i) }) + ")"
				}
				b.WriteString(mo.clause(m, v, stmts, res, want))
				n++
				if fw, ok := mo.apFailed[v]; ok && k >= 2 {
					// failed operands are arguments too: with the operands at positions p < q failed, each with an
					// error of its own, the defining equation (LiftAk / nested FlatMap over the operands in order)
					// gives the failure of position p
					pairs := [][2]int{{1, 2}}
					if k >= 4 {
						pairs = append(pairs, [2]int{k - 2, k - 1})
					}
					if k >= 3 {
						pairs = append(pairs, [2]int{1, k})
					}
					for _, pq := range pairs {
						var ch strings.Builder
						fmt.Fprintf(&ch, "%s.%s(f)", p, m.Name)
						for i := 1; i <= k; i++ {
							if i == pq[0] || i == pq[1] {
								fmt.Fprintf(&ch, ".%s(%s(posErr(%d)))", v, fw, i)
							} else {
								st, _ := step(v, i, k, false)
								ch.WriteString(st)
							}
						}
						b.WriteString(fmt.Sprintf("\t\t%s(rt, rec, %s, func() %s { return %s }, posErr(%d))\n", mo.chkFail, sig(m, fmt.Sprintf("%s/failed-%d-and-%d", v, pq[0], pq[1])), mo.ty("[]int"), ch.String(), pq[0]))
					}
				}
				_, isThunk := mo.apThunk[v]
				if typeFam == "MonadChain" && k >= 2 && (isThunk || v == "ApFunc") {
					// the lazy variant at every position but the last, HListMap at the last: the values the chain
					// recorded are the values the function receives (each supplier contributes one value)
					var ch strings.Builder
					fmt.Fprintf(&ch, "%s.%s(f)", p, m.Name)
					for i := 1; i < k; i++ {
						st, _ := step(v, i, k, false)
						ch.WriteString(st)
					}
					st, _ := step("HListMap", k, k, false)
					ch.WriteString(st)
					b.WriteString(mo.clause(m, v+"/then-HListMap", "var seen []int; r := "+ch.String(),
						mo.conv+"(r, func(x []int) []int { return cat(x, seen) })", fmt.Sprintf("cat(v, rev(v[:%d]))", k-1)))
				}
				if v == "Ap" && k >= 2 {
					// the same chain with every intermediate builder also applied to two other values
					// (before and after) whose results are dropped: builders are values
					var fs strings.Builder
					fmt.Fprintf(&fs, "q0 := %s.%s(f)", p, m.Name)
					for i := 1; i <= k; i++ {
						if i < k {
							fmt.Fprintf(&fs, "; _ = q%d.Ap(a%d + 1000); q%d := q%d.Ap(a%d); _ = q%d.Ap(a%d + 2000)", i-1, i, i, i-1, i, i-1, i)
						} else {
							fmt.Fprintf(&fs, "; q%d := q%d.Ap(a%d)", i, i-1, i)
						}
					}
					b.WriteString(mo.clause(m, "Ap/forked", fs.String(), fmt.Sprintf("q%d", k), "v"))
				}
			}
			if n == 0 {
				g.skip(m, "no builder method with a known equation on "+typeFam)
				return
			}
			g.sub(m, k, k, b.String())
		}
	}
	apVariants := []string{"Ap", "ApOption", "ApTry", "ApFuture", "ApFunc", "ApOptionFunc", "ApTryFunc", "ApFutureFunc"}
	reg(p+".func.Applicative", builder("ApplicativeFunctor", apVariants))
	reg(p+".func.Chain", builder("MonadChain", append(append([]string{}, apVariants...), "Map", "FlatMap", "HListMap", "HListFlatMap")))
}

func init() {
	regMonad(optionM)
	regMonad(tryM)
	regMonad(futureM)

	both := []scheme{sInt, sT}
	// ---- try and future ---------------------------------------------------------------
	// FuncN(f)(a..) = Apply(f(a..)); PtrN: f returns (*R, error), result Success(*ptr)
	// future.FuncN(f)(a..) = the future of f(a..), computed by a task of the default executor
	tryFunc := func(mo monad, curried bool, kind string) emitter {
		MW := strings.TrimSuffix(mo.ty(""), "[]")
		mty := mo.ty("[]int")
		return func(g *generator, m *member) {
			k := m.TP - 1
			if k != m.N {
				g.skip(m, "unexpected number of type parameters")
				return
			}
			ret := func(s scheme, vals string) (string, string) {
				switch kind {
				case "ptr":
					return "(*[]int, error)", "r := " + vals + "; return &r, nil"
				case "pure":
					return "[]int", "return " + vals
				}
				return "([]int, error)", "return " + vals + ", nil"
			}
			{
				fr := map[string]string{"ptr": "(*" + pN(k+1) + ", error)", "pure": pN(k + 1), "err": "(" + pN(k+1) + ", error)"}[kind]
				out := fnTy(ptys(0, 1, k), MW+"["+pN(k+1)+"]")
				if curried {
					out = sP(0).curriedTy(1, k, MW+"["+pN(k+1)+"]")
				}
				if k == 0 {
					out = "func(fp.Unit) " + MW + "[P1]"
				}
				if !g.shape(m, nil, []string{fnTy(ptys(0, 1, k), fr)}, []string{out}) {
					return
				}
			}
			if k == 0 {
				rt, body := ret(sInt, "[]int{a1}")
				g.sub(m, 1, 0, fmt.Sprintf("\t\tf0 := func() %s { %s }\n", rt, body)+mo.clause(m, "success", "", fmt.Sprintf("%s.%s(f0)(fp.Unit{})", mo.pkg, m.Name), "v"))
				return
			}
			var b strings.Builder
			for _, s := range both {
				g.schemeUse(s, k)
				rt, body := ret(s, s.ints(1, k, s.arg))
				b.WriteString("\t\t{\n" + s.vals(k))
				fmt.Fprintf(&b, "\t\tfe := func(%s) %s { %s }\n", s.decl(1, k), rt, body)
				if curried {
					b.WriteString(mo.clause(m, "success"+s.tag, fmt.Sprintf("var c %s = %s.%s(fe)", s.curriedTy(1, k, mty), mo.pkg, m.Name), curriedApply("c", s, seq(1, k)), "v"))
				} else {
					b.WriteString(mo.clause(m, "success"+s.tag, fmt.Sprintf("var tf fp.Func%d[%s, %s] = %s.%s(fe)", k, s.tys(1, k), mty, mo.pkg, m.Name), fmt.Sprintf("tf(%s)", s.args(1, k)), "v"))
				}
				b.WriteString("\t\t}\n")
			}
			g.sub(m, k, k, b.String())
		}
	}
	reg("try.func.Func", tryFunc(tryM, false, "err"))
	reg("try.func.Ptr", tryFunc(tryM, false, "ptr"))
	reg("try.func.Curried", tryFunc(tryM, true, "err"))
	reg("try.func.CurriedPure", tryFunc(tryM, true, "pure"))
	reg("try.func.CurriedPtr", tryFunc(tryM, true, "ptr"))
	reg("future.func.Func", tryFunc(futureM, false, "err"))
	// try.Pure is registered by regMonad (same shape as option.Pure)

	// UnitN(f)(a..) = Apply(Unit{}, f(a..)); CurriedUnitN has an extra, unused type parameter R
	// future.UnitN(f)(a..) = the future of (Unit{}, f(a..)), computed by a task of the default executor
	tryUnit := func(mo monad, curried bool) emitter {
		uty := mo.ty("fp.Unit")
		return func(g *generator, m *member) {
			k := m.N
			explicit := ""
			switch {
			case !curried && m.TP == k:
			case curried && m.TP == k:
			case curried && m.TP == k+1:
				explicit = "[" + sInt.tys(1, k) + ", struct{}]" // R occurs nowhere in the signature: cannot be inferred
			default:
				g.skip(m, "unexpected number of type parameters")
				return
			}
			{
				out := fnTy(ptys(0, 1, k), uty)
				if curried {
					out = sP(0).curriedTy(1, k, uty)
				}
				if k == 0 {
					out = "func(fp.Unit) " + uty
				}
				if !g.shape(m, nil, []string{fnTy(ptys(0, 1, k), "error")}, []string{out}) {
					return
				}
			}
			if k == 0 {
				g.sub(m, 1, 0, "\t\tvar seen []int\n"+fmt.Sprintf("\t\t%s(rt, rec, %s, func() %s { return %s.%s(func() error { seen = []int{a1}; return nil })(fp.Unit{}) }, &seen, v)\n", mo.chkUnit, sig(m, "success"), uty, mo.pkg, m.Name))
				return
			}
			var b strings.Builder
			b.WriteString("\t\tvar seen []int\n")
			fmt.Fprintf(&b, "\t\tfu := func(%s) error { seen = %s; return nil }\n", sInt.decl(1, k), sInt.ints(1, k, sInt.arg))
			call := fmt.Sprintf("%s.%s%s(fu)(%s)", mo.pkg, m.Name, explicit, sInt.args(1, k))
			if curried {
				call = curriedApply(fmt.Sprintf("%s.%s%s(fu)", mo.pkg, m.Name, explicit), sInt, seq(1, k))
			}
			fmt.Fprintf(&b, "\t\t%s(rt, rec, %s, func() %s { return %s }, &seen, v)\n", mo.chkUnit, sig(m, "success"), uty, call)
			g.sub(m, k, k, b.String())
		}
	}
	reg("try.func.Unit", tryUnit(tryM, false))
	reg("try.func.CurriedUnit", tryUnit(tryM, true))
	reg("future.func.Unit", tryUnit(futureM, false))

	// ---- type class instances of tuples ----------------------------------------------
	tc := func(build func(m *member, k int, mk, ty string) string) emitter {
		return func(g *generator, m *member) {
			k := m.TP
			if k != m.N || k < 1 {
				g.skip(m, "unexpected number of type parameters")
				return
			}
			cls := map[string]string{"eq": "fp.Eq", "ord": "fp.Ord", "hash": "fp.Hashable", "monoid": "fp.Monoid"}[m.Pkg]
			if !g.shape(m, nil, wrapAll(cls, ptys(0, 1, k)), []string{cls + "[" + sP(0).tupleTy("Tuple", k) + "]"}) {
				return
			}
			ty := sInt.tupleTy("Tuple", k)
			mk := fmt.Sprintf("\t\tmk := func(x []int) %s { return %s{%s} }\n", ty, ty, list(1, k, func(i int) string { return fmt.Sprintf("I%d: x[%d]", i, i-1) }))
			g.raw(m, "\t{\n"+build(m, k, mk, ty)+"\t}\n")
		}
	}
	inst := func(f string, k int) string {
		return list(1, k, func(i int) string { return fmt.Sprintf("%s(%d)", f, i) })
	}
	// eq.TupleN(e1..eN).Eqv(s,t) = AND_i e_i.Eqv(s.Ii, t.Ii)
	reg("eq.func.Tuple", tc(func(m *member, k int, mk, ty string) string {
		return mk + fmt.Sprintf("\t\tsubEqTuple(t, \"eq.Tuple/%d\", \"eq.%s\", %d, func(x, y []int) bool { return eq.%s(%s).Eqv(mk(x), mk(y)) })\n", m.N, m.Name, k, m.Name, inst("modEq", k))
	}))
	// ord.TupleN: lexicographic by position
	reg("ord.func.Tuple", tc(func(m *member, k int, mk, ty string) string {
		return mk + fmt.Sprintf("\t\tsubOrdTuple(t, \"ord.Tuple/%d\", \"ord.%s\", %d, func(x, y []int) (int, bool, bool) { o := ord.%s(%s); return o.Compare(mk(x), mk(y)), o.Less(mk(x), mk(y)), o.Eqv(mk(x), mk(y)) })\n",
			m.N, m.Name, k, m.Name, inst("modOrd", k))
	}))
	// hash.TupleN: Eqv component-wise, equal tuples hash equal
	reg("hash.func.Tuple", tc(func(m *member, k int, mk, ty string) string {
		return mk + fmt.Sprintf("\t\tsubHashTuple(t, \"hash.Tuple/%d\", \"hash.%s\", %d, func(x, y []int) (bool, uint32, uint32) { h := hash.%s(%s); return h.Eqv(mk(x), mk(y)), h.Hash(mk(x)), h.Hash(mk(y)) })\n",
			m.N, m.Name, k, m.Name, inst("modHash", k))
	}))
	// monoid.TupleN: Empty and Combine component-wise
	reg("monoid.func.Tuple", tc(func(m *member, k int, mk, ty string) string {
		return mk + fmt.Sprintf("\t\tun := func(t %s) []int { return %s }\n", ty, sInt.fields("t", k)) +
			fmt.Sprintf("\t\tsubMonoidTuple(t, \"monoid.Tuple/%d\", \"monoid.%s\", %d, func() []int { return un(monoid.%s(%s).Empty()) }, func(x, y []int) []int { return un(monoid.%s(%s).Combine(mk(x), mk(y))) })\n",
				m.N, m.Name, k, m.Name, inst("posOp", k), m.Name, inst("posOp", k))
	}))
	// clone.TupleN: component i cloned by instance i
	reg("clone.func.Tuple", func(g *generator, m *member) {
		k := m.TP
		if k != m.N || k < 1 {
			g.skip(m, "unexpected number of type parameters")
			return
		}
		if !g.shape(m, nil, wrapAll("fp.Clone", ptys(0, 1, k)), []string{"fp.Clone[" + sP(0).tupleTy("Tuple", k) + "]"}) {
			return
		}
		ty := fmt.Sprintf("fp.Tuple%d[%s]", k, list(1, k, func(int) string { return "[]int" }))
		g.raw(m, fmt.Sprintf("\tsubCloneTuple(t, \"clone.Tuple/%d\", \"clone.%s\", %d, func(x [][]int) [][]int { c := clone.%s(%s).Clone(%s{%s}); return [][]int{%s} })\n",
			m.N, m.Name, k, m.Name, inst("tagClone", k), ty, list(1, k, func(i int) string { return fmt.Sprintf("I%d: x[%d]", i, i-1) }),
			list(1, k, func(i int) string { return fmt.Sprintf("c.I%d", i) })))
	})
}
