package main

import (
	"fmt"
	"strings"
)

type emitter func(g *generator, m *member)

var emitters = map[string]emitter{}

func reg(key string, e emitter) { emitters[key] = e }

func (g *generator) schemeUse(s scheme, k int) {
	if s.pre == "b" || s.pre == "l" {
		g.needT(k)
	}
}

// methodsKnown reports exported unnumbered methods of an arity-indexed type the
// emitter has no equation for.
func (g *generator) methodsKnown(m *member, known ...string) {
	for _, x := range m.Methods {
		ok := false
		for _, k := range known {
			ok = ok || k == x
		}
		if !ok {
			g.uncovered = append(g.uncovered, fmt.Sprintf("%s.%s.%s (%s): method without a defining equation known to the generator", m.Pkg, m.Name, x, m.Pos))
		}
	}
}

func init() {
	// ---- root package ---------------------------------------------------------------
	// tuple_gen.go / labelled_gen.go: struct {I1..IN}; Head=I1, Last=IN, Init=I1..I(N-1),
	// Tail=I2..IN, Unapply=I1..IN, String="(%v,...,%v)"; Tuple1/Labelled1: Head, Tail()=Unit.
	tupleType := func(tname string, schemes ...scheme) emitter {
		return func(g *generator, m *member) {
			n := m.N
			if m.TP != n || n < 1 {
				g.skip(m, "unexpected number of type parameters")
				return
			}
			g.methodsKnown(m, "Head", "Last", "Init", "Tail", "String", "Unapply")
			con := "any"
			if tname == "Labelled" {
				con = "fp.Named"
			}
			if !g.typeShape(m, allOf(con), "struct{"+strings.Join(func() []string {
				var fs []string
				for i := 1; i <= n; i++ {
					fs = append(fs, fmt.Sprintf("I%d P%d", i, i))
				}
				return fs
			}(), "; ")+"}") {
				return
			}
			if m.has("Head") {
				g.methodShape(m, "Head", nil, []string{"P1"})
			}
			if m.has("Last") {
				g.methodShape(m, "Last", nil, []string{pN(n)})
			}
			if m.has("Init") && n >= 2 {
				g.methodShape(m, "Init", nil, ptys(0, 1, n-1))
			}
			if m.has("Tail") {
				if n >= 2 {
					g.methodShape(m, "Tail", nil, ptys(0, 2, n))
				} else {
					g.methodShape(m, "Tail", nil, []string{"fp.Unit"})
				}
			}
			if m.has("Unapply") && n >= 2 {
				g.methodShape(m, "Unapply", nil, ptys(0, 1, n))
			}
			if m.has("String") {
				g.methodShape(m, "String", nil, []string{"string"})
			}
			var b strings.Builder
			for _, s := range schemes {
				g.schemeUse(s, n)
				b.WriteString("\t\t{\n" + s.vals(n))
				fmt.Fprintf(&b, "\t\tt := %s\n", s.tupleLit(tname, n))
				b.WriteString(clause(m, "fields"+s.tag, "", s.fields("t", n), "v"))
				if m.has("Head") {
					b.WriteString(clause(m, "Head"+s.tag, fmt.Sprintf("var x %s = t.Head()", s.ty(1)), "[]int{"+s.toInt("x")+"}", "v[:1]"))
				}
				if m.has("Last") {
					b.WriteString(clause(m, "Last"+s.tag, fmt.Sprintf("var x %s = t.Last()", s.ty(n)), "[]int{"+s.toInt("x")+"}", fmt.Sprintf("v[%d:]", n-1)))
				}
				multi := func(method string, from, to int) string {
					decl := concat(from, to, func(i int) string { return fmt.Sprintf("var x%d %s; ", i, s.ty(i)) })
					return clause(m, method+s.tag, decl+list(from, to, func(i int) string { return fmt.Sprintf("x%d", i) })+" = t."+method+"()",
						s.ints(from, to, func(i int) string { return fmt.Sprintf("x%d", i) }), fmt.Sprintf("v[%d:%d]", from-1, to))
				}
				if m.has("Init") && n >= 2 {
					b.WriteString(multi("Init", 1, n-1))
				}
				if m.has("Tail") {
					if n >= 2 {
						b.WriteString(multi("Tail", 2, n))
					} else {
						b.WriteString(clause(m, "Tail"+s.tag, "var u fp.Unit = t.Tail(); _ = u", "[]int{}", "v[:0]"))
					}
				}
				if m.has("Unapply") && n >= 2 {
					b.WriteString(multi("Unapply", 1, n))
				}
				if m.has("String") && s.tag == "" {
					fmt.Fprintf(&b, "\t\tchkStr(rt, rec, %s, func() string { return t.String() }, wantString(v))\n", sig(m, "String"))
				}
				b.WriteString("\t\t}\n")
			}
			g.sub(m, n, n, b.String())
		}
	}
	reg("fp.type.Tuple", tupleType("Tuple", sInt, sT))
	reg("fp.type.Labelled", tupleType("Labelled", sN, sL))

	// func_gen.go: type FuncN func(A1..AN) R; Widen() = r; Func0[R] = Func1[Unit,R], Apply() = r(Unit{}).
	reg("fp.type.Func", func(g *generator, m *member) {
		k := m.TP - 1
		if k != m.N {
			g.skip(m, "unexpected number of type parameters")
			return
		}
		var b strings.Builder
		if k == 0 {
			g.methodsKnown(m, "Apply")
			if !g.typeShape(m, nil, "fp.Func1[fp.Unit, P1]") {
				return
			}
			if m.has("Apply") {
				g.methodShape(m, "Apply", nil, []string{"P1"})
			}
			b.WriteString("\t\tf0 := fp.Func0[[]int](func(fp.Unit) []int { return []int{a1} })\n")
			b.WriteString(clause(m, "call", "", "f0(fp.Unit{})", "v"))
			if m.has("Apply") {
				b.WriteString(clause(m, "Apply", "", "f0.Apply()", "v"))
			}
			g.sub(m, 1, 0, b.String())
			return
		}
		g.methodsKnown(m, "Widen")
		if !g.typeShape(m, nil, fnTy(ptys(0, 1, k), pN(k+1))) {
			return
		}
		if m.has("Widen") {
			g.methodShape(m, "Widen", nil, []string{fnTy(ptys(0, 1, k), pN(k+1))})
		}
		b.WriteString(sInt.defF(k))
		ty := fmt.Sprintf("fp.Func%d[%s, []int]", k, sInt.tys(1, k))
		b.WriteString(clause(m, "call", "", fmt.Sprintf("%s(f)(%s)", ty, sInt.args(1, k)), "v"))
		if m.has("Widen") {
			b.WriteString(clause(m, "Widen", fmt.Sprintf("var w func(%s) []int = %s(f).Widen()", sInt.tys(1, k), ty), fmt.Sprintf("w(%s)", sInt.args(1, k)), "v"))
		}
		g.sub(m, k, k, b.String())
	})
	// Func(K).ApplyFirst(K-1)(a1..a(K-1)) = func(aK) r(a1..aK); ApplyLast(K-1)(a2..aK) = func(a1) r(a1..aK)
	partial := func(first bool) emitter {
		return func(g *generator, m *member) {
			k := m.RecvN
			if m.TP != k+1 || m.N != k-1 || k < 2 {
				g.skip(m, "unexpected receiver shape")
				return
			}
			meth := m.Name[strings.Index(m.Name, ".")+1:]
			if first && !g.shape(m, nil, ptys(0, 1, k-1), []string{fnTy(ptys(0, k, k), pN(k+1))}) {
				return
			}
			if !first && !g.shape(m, nil, ptys(0, 2, k), []string{fnTy(ptys(0, 1, 1), pN(k+1))}) {
				return
			}
			var b strings.Builder
			for _, s := range []scheme{sInt, sT} {
				g.schemeUse(s, k)
				b.WriteString("\t\t{\n" + s.vals(k) + s.defF(k))
				recv := fmt.Sprintf("fp.Func%d[%s, []int](%s)", k, s.tys(1, k), s.fn)
				if first {
					b.WriteString(clause(m, "partial-application"+s.tag, "", fmt.Sprintf("%s.%s(%s)(%s)", recv, meth, s.args(1, k-1), s.arg(k)), "v"))
				} else {
					b.WriteString(clause(m, "partial-application"+s.tag, "", fmt.Sprintf("%s.%s(%s)(%s)", recv, meth, s.args(2, k), s.arg(1)), "v"))
				}
				b.WriteString("\t\t}\n")
			}
			g.sub(m, k, k, b.String())
		}
	}
	reg("fp.method.ApplyFirst", partial(true))
	reg("fp.method.ApplyLast", partial(false))

	// ComposeN(f1..fN)(x) = fN(...f2(f1(x))) (fp.go: "Compose f g == f AndThen g")
	reg("fp.func.Compose", func(g *generator, m *member) {
		k := m.TP - 1
		if k != m.N || k < 2 {
			g.skip(m, "unexpected number of type parameters")
			return
		}
		{
			var ps []string
			for i := 1; i <= k; i++ {
				ps = append(ps, fnTy(ptys(0, i, i), pN(i+1)))
			}
			if !g.shape(m, nil, ps, []string{fnTy(ptys(0, 1, 1), pN(k+1))}) {
				return
			}
		}
		g.needT(k)
		var b strings.Builder
		x := fmt.Sprintf("a%d", k+1)
		for i := 1; i <= k; i++ {
			fmt.Fprintf(&b, "\t\tf%d := func(x int) int { return x*3 + a%d }\n", i, i)
			if i < k {
				fmt.Fprintf(&b, "\t\tg%d := func(x T%d) T%d { return T%d(int(x)*3 + a%d) }\n", i, i, i+1, i+1, i)
			} else {
				fmt.Fprintf(&b, "\t\tg%d := func(x T%d) int { return int(x)*3 + a%d }\n", i, i, i)
			}
		}
		want := fmt.Sprintf("[]int{chain(%s, v[:%d])}", x, k)
		b.WriteString(clause(m, "left-to-right", "", fmt.Sprintf("[]int{fp.Compose%d(%s)(%s)}", m.N, list(1, k, func(i int) string { return fmt.Sprintf("f%d", i) }), x), want))
		b.WriteString(clause(m, "left-to-right/distinct-types", "", fmt.Sprintf("[]int{fp.Compose%d(%s)(T1(%s))}", m.N, list(1, k, func(i int) string { return fmt.Sprintf("g%d", i) }), x), want))
		g.sub(m, k+1, k, b.String())
	})
	// Flip2(f)(b)(a) = f(a,b)
	reg("fp.func.Flip", func(g *generator, m *member) {
		if m.TP != 3 || m.N != 2 {
			g.skip(m, "no defining equation known for this arity")
			return
		}
		if !g.shape(m, nil, []string{"func(P1, P2) P3"}, []string{"func(P2) func(P1) P3"}) {
			return
		}
		g.needT(2)
		body := sInt.defF(2) + clause(m, "flipped", "", "fp.Flip2(f)(a2)(a1)", "v") +
			sT.vals(2) + sT.defF(2) + clause(m, "flipped/distinct-types", "", "fp.Flip2(g)(b2)(b1)", "v")
		g.sub(m, 2, 2, body)
	})
	// IdN(a1..a(N-1), r) = r
	reg("fp.func.Id", func(g *generator, m *member) {
		k := m.TP
		if k != m.N || k < 1 {
			g.skip(m, "unexpected number of type parameters")
			return
		}
		if !g.shape(m, nil, ptys(0, 1, k), []string{pN(k)}) {
			return
		}
		g.needT(k)
		body := clause(m, "last-argument", "", fmt.Sprintf("[]int{fp.Id%d(%s)}", m.N, sInt.args(1, k)), fmt.Sprintf("v[%d:]", k-1)) +
			sT.vals(k) + clause(m, "last-argument/distinct-types", fmt.Sprintf("var r T%d = fp.Id%d(%s)", k, m.N, sT.args(1, k)), "[]int{int(r)}", fmt.Sprintf("v[%d:]", k-1))
		g.sub(m, k, k, body)
	})

	// ---- package as -----------------------------------------------------------------
	// CurriedN(f)(a1)..(aN) = f(a1..aN)
	curriedOf := func(pkg string) emitter {
		return func(g *generator, m *member) {
			k := m.TP - 1
			if k != m.N || k < 1 {
				g.skip(m, "unexpected number of type parameters")
				return
			}
			if !g.shape(m, nil, []string{fnTy(ptys(0, 1, k), pN(k+1))}, []string{sP(0).curriedTy(1, k, pN(k+1))}) {
				return
			}
			var b strings.Builder
			for _, s := range []scheme{sInt, sT} {
				g.schemeUse(s, k)
				b.WriteString("\t\t{\n" + s.vals(k) + s.defF(k))
				b.WriteString(clause(m, "curried"+s.tag, fmt.Sprintf("var c %s = %s.%s(%s)", s.curriedTy(1, k, "[]int"), pkg, m.Name, s.fn), curriedApply("c", s, seq(1, k)), "v"))
				b.WriteString("\t\t}\n")
			}
			g.sub(m, k, k, b.String())
		}
	}
	reg("as.func.Curried", curriedOf("as"))
	reg("curried.func.Func", curriedOf("curried"))

	// as.FuncN(f) = fp.FuncN(f); as.Func0(f)(Unit) = f()
	reg("as.func.Func", func(g *generator, m *member) {
		k := m.TP - 1
		if k != m.N {
			g.skip(m, "unexpected number of type parameters")
			return
		}
		if k == 0 && !g.shape(m, nil, []string{"func() P1"}, []string{"func(fp.Unit) P1"}) {
			return
		}
		if k > 0 && !g.shape(m, nil, []string{fnTy(ptys(0, 1, k), pN(k+1))}, []string{fnTy(ptys(0, 1, k), pN(k+1))}) {
			return
		}
		if k == 0 {
			g.sub(m, 1, 0, "\t\tf0 := func() []int { return []int{a1} }\n"+clause(m, "call", "var ff fp.Func1[fp.Unit, []int] = as.Func0(f0)", "ff(fp.Unit{})", "v"))
			return
		}
		var b strings.Builder
		for _, s := range []scheme{sInt, sT} {
			g.schemeUse(s, k)
			b.WriteString("\t\t{\n" + s.vals(k) + s.defF(k))
			b.WriteString(clause(m, "call"+s.tag, fmt.Sprintf("var ff fp.Func%d[%s, []int] = as.%s(%s)", k, s.tys(1, k), m.Name, s.fn), fmt.Sprintf("ff(%s)", s.args(1, k)), "v"))
			b.WriteString("\t\t}\n")
		}
		g.sub(m, k, k, b.String())
	})
	// SupplierN(f, a1..aN)() = f(a1..aN)
	reg("as.func.Supplier", func(g *generator, m *member) {
		k := m.TP - 1
		if k != m.N || k < 1 {
			g.skip(m, "unexpected number of type parameters")
			return
		}
		if !g.shape(m, nil, append([]string{fnTy(ptys(0, 1, k), pN(k+1))}, ptys(0, 1, k)...), []string{"func() " + pN(k+1)}) {
			return
		}
		var b strings.Builder
		for _, s := range []scheme{sInt, sT} {
			g.schemeUse(s, k)
			b.WriteString("\t\t{\n" + s.vals(k) + s.defF(k))
			b.WriteString(clause(m, "deferred-call"+s.tag, "", fmt.Sprintf("as.%s(%s, %s)()", m.Name, s.fn, s.args(1, k)), "v"))
			b.WriteString("\t\t}\n")
		}
		g.sub(m, k, k, b.String())
	})
	// Tupled2(f)(Tuple2{a1,a2}) = f(a1,a2)
	reg("as.func.Tupled", func(g *generator, m *member) {
		k := m.TP - 1
		if k != m.N || k < 2 {
			g.skip(m, "unexpected number of type parameters")
			return
		}
		if !g.shape(m, nil, []string{fnTy(ptys(0, 1, k), pN(k+1))}, []string{fnTy([]string{sP(0).tupleTy("Tuple", k)}, pN(k+1))}) {
			return
		}
		var b strings.Builder
		for _, s := range []scheme{sInt, sT} {
			g.schemeUse(s, k)
			b.WriteString("\t\t{\n" + s.vals(k) + s.defF(k))
			b.WriteString(clause(m, "tupled"+s.tag, "", fmt.Sprintf("as.%s(%s)(%s)", m.Name, s.fn, s.tupleLit("Tuple", k)), "v"))
			b.WriteString("\t\t}\n")
		}
		g.sub(m, k, k, b.String())
	})
	// UnTupledN(h)(a1..aN) = h(TupleN{a1..aN})
	reg("as.func.UnTupled", func(g *generator, m *member) {
		k := m.TP - 1
		if k != m.N || k < 1 {
			g.skip(m, "unexpected number of type parameters")
			return
		}
		if !g.shape(m, nil, []string{fnTy([]string{sP(0).tupleTy("Tuple", k)}, pN(k+1))}, []string{fnTy(ptys(0, 1, k), pN(k+1))}) {
			return
		}
		var b strings.Builder
		for _, s := range []scheme{sInt, sT} {
			g.schemeUse(s, k)
			b.WriteString("\t\t{\n" + s.vals(k))
			fmt.Fprintf(&b, "\t\th := func(t %s) []int { return %s }\n", s.tupleTy("Tuple", k), s.fields("t", k))
			b.WriteString(clause(m, "untupled"+s.tag, "", fmt.Sprintf("as.%s(h)(%s)", m.Name, s.args(1, k)), "v"))
			b.WriteString("\t\t}\n")
		}
		g.sub(m, k, k, b.String())
	})
	// TupleN(a1..aN) = {I1: a1, ..., IN: aN}
	mkTuple := func(pkg, tname string, schemes ...scheme) emitter {
		return func(g *generator, m *member) {
			k := m.TP
			if k != m.N || k < 1 {
				g.skip(m, "unexpected number of type parameters")
				return
			}
			con := "any"
			if tname == "Labelled" {
				con = "fp.Named"
			}
			if !g.shape(m, allOf(con), ptys(0, 1, k), []string{sP(0).tupleTy(tname, k)}) {
				return
			}
			var b strings.Builder
			for _, s := range schemes {
				g.schemeUse(s, k)
				b.WriteString("\t\t{\n" + s.vals(k))
				b.WriteString(clause(m, "fields"+s.tag, fmt.Sprintf("var t %s = %s.%s(%s)", s.tupleTy(tname, k), pkg, m.Name, s.args(1, k)), s.fields("t", k), "v"))
				b.WriteString("\t\t}\n")
			}
			g.sub(m, k, k, b.String())
		}
	}
	reg("as.func.Tuple", mkTuple("as", "Tuple", sInt, sT))
	reg("as.func.Labelled", mkTuple("as", "Labelled", sN, sL))
	reg("product.func.Tuple", mkTuple("product", "Tuple", sInt, sT))
	// HListN(tuple) = a1 :: a2 :: ... :: aN :: Nil
	toHList := func(tname string, schemes ...scheme) emitter {
		return func(g *generator, m *member) {
			k := m.TP
			if k != m.N || k < 1 {
				g.skip(m, "unexpected number of type parameters")
				return
			}
			con := "any"
			if tname == "Labelled" {
				con = "fp.Named"
			}
			if !g.shape(m, allOf(con), []string{sP(0).tupleTy(tname, k)}, []string{sP(0).consTy(seq(1, k), "hlist.Nil")}) {
				return
			}
			var b strings.Builder
			for _, s := range schemes {
				g.schemeUse(s, k)
				b.WriteString("\t\t{\n" + s.vals(k))
				b.WriteString(clause(m, "heads-in-order"+s.tag, fmt.Sprintf("var h %s = as.%s(%s); %s", s.consTy(seq(1, k), "hlist.Nil"), m.Name, s.tupleLit(tname, k), s.readH("h", seq(1, k), "r")), "r", "v"))
				b.WriteString("\t\t}\n")
			}
			g.sub(m, k, k, b.String())
		}
	}
	reg("as.func.HList", toHList("Tuple", sInt, sT))
	reg("as.func.HListLabelled", toHList("Labelled", sN, sL))
}
