// Package c14 checks property C14: every member of the library's arity-indexed
// families computes its defining equation at every arity the tree supports.
//
// The per-(family, arity) sub-checks live in arity_gen_test.go, which is written
// by the generator in ./gen from the library's *source tree* (go/parser): it
// discovers which `<Family><N>` members exist and emits one kit.Check for each.
// This file holds what is arity independent: the drawing of position
// distinguishable values, comparison helpers, the reference models of the
// eq/ord/hash/monoid/clone tuple instances, and the "limits" guard that fails
// when the generated file is older than the tree's arity limits.
//
//	regenerate: cd /verif/harness && go run ./c14/gen
package c14

import (
	"errors"
	"fmt"
	"sort"
	"strconv"
	"strings"
	"testing"

	"github.com/csgura/fp"
	"github.com/csgura/fp/genfp"
	"github.com/csgura/fp/promise"
	"pgregory.net/rapid"

	"verifharness/kit"
)

func TestMain(m *testing.M) { kit.Main(m) }

const ruleVals = "pairwise distinct ints (1..9999), one per argument position, drawn by rapid; the member is instantiated with int at every position (clauses suffixed /distinct-types: with the pairwise distinct named types T1..TN resp. L1..LN) and compared with the directly written defining expression; non-trivial iff the member's arity >= 2; distinct by printed values"

const ruleShape = "the member's declared signature (type parameters renamed positionally, parameter names dropped, fp.FuncK spelled as a func type) compared with the shape the family's defining equation needs; emitted by the generator only when they differ"

// drawN draws n pairwise distinct position tags and records the case.
// arity is the arity of the member under test (n may include extra operands).
func drawN(rt *rapid.T, rec *kit.Rec, n int, arity int) []int {
	if n == 0 {
		rec.Case(false, "[]")
		return nil
	}
	v := rapid.SliceOfNDistinct(rapid.IntRange(1, 9999), n, n, rapid.ID[int]).Draw(rt, "v")
	rec.Case(arity >= 2, fmt.Sprint(v))
	return v
}

// optTC: type class tuples; one specific position out of N has to be hit, so
// wide tuples get more cases.
func optTC(arity int) kit.Opt {
	if arity > 10 {
		return kit.Opt{Weight: 2, MinChecks: 10}
	}
	return opt(arity)
}

func opt(arity int) kit.Opt {
	if arity <= 1 {
		return kit.Opt{Weight: 0.25, MinChecks: 3}
	}
	return kit.Opt{MinChecks: 5}
}

func eqInts(a, b []int) bool {
	if len(a) != len(b) {
		return false
	}
	for i := range a {
		if a[i] != b[i] {
			return false
		}
	}
	return true
}

// nth is a supplier with a memory: a the first time it runs, a different number every time after that. A lazy
// builder step that evaluates its supplier more than once feeds two different values into the computation.
func nth(a int) func() int {
	n := 0
	return func() int {
		n++
		if n > 1 {
			return a + 7001*n
		}
		return a
	}
}

// thunkOf wraps the supplier's value: func() M[int]
func thunkOf[M any](s func() int, wrap func(int) M) func() M {
	return func() M { return wrap(s()) }
}

func rev(v []int) []int {
	r := make([]int, len(v))
	for i, x := range v {
		r[len(v)-1-i] = x
	}
	return r
}

// cat concatenates (always a fresh slice).
func cat(xs ...[]int) []int {
	r := []int{}
	for _, x := range xs {
		r = append(r, x...)
	}
	return r
}

// chk runs a library expression under Guard and compares the position tags it
// delivers with the expected ones.
func chk(rt *rapid.T, rec *kit.Rec, sig string, call func() []int, want []int) {
	var got []int
	rec.Guard(rt, sig, func() { got = call() })
	if !eqInts(got, want) {
		rec.Failf(rt, sig, "positions delivered %v, the defining equation gives %v", got, want)
	}
}

// fork1 applies the curried function f to a, and to two other arguments before and after; the two other
// partial applications are dropped. Used for every non-final application of the curried families.
func fork1[F ~func(A) R, A, R any](f F, a, before, after A) R {
	_ = f(before)
	r := f(a)
	_ = f(after)
	return r
}

func chkStr(rt *rapid.T, rec *kit.Rec, sig string, call func() string, want string) {
	var got string
	rec.Guard(rt, sig, func() { got = call() })
	if got != want {
		rec.Failf(rt, sig, "got %q, the defining equation gives %q", got, want)
	}
}

func chkOpt(rt *rapid.T, rec *kit.Rec, sig string, call func() fp.Option[[]int], want []int) {
	var got fp.Option[[]int]
	rec.Guard(rt, sig, func() { got = call() })
	if !got.IsDefined() {
		rec.Failf(rt, sig, "None for all-Some operands, want Some(%v)", want)
	}
	if !eqInts(got.Get(), want) {
		rec.Failf(rt, sig, "Some(%v), the defining equation gives Some(%v)", got.Get(), want)
	}
}

func chkTry(rt *rapid.T, rec *kit.Rec, sig string, call func() fp.Try[[]int], want []int) {
	var got fp.Try[[]int]
	rec.Guard(rt, sig, func() { got = call() })
	if !got.IsSuccess() {
		rec.Failf(rt, sig, "%v for all-Success operands, want Success(%v)", got, want)
	}
	if !eqInts(got.Get(), want) {
		rec.Failf(rt, sig, "Success(%v), the defining equation gives Success(%v)", got.Get(), want)
	}
}

// posErr is the error the failed operand at position i carries.
func posErr(i int) error { return kit.Errs[i%len(kit.Errs)] }

// chkTryFail: operands at two positions failed; the result must be the failure of the earlier position.
func chkTryFail(rt *rapid.T, rec *kit.Rec, sig string, call func() fp.Try[[]int], want error) {
	var got fp.Try[[]int]
	rec.Guard(rt, sig, func() { got = call() })
	if got.IsSuccess() {
		rec.Failf(rt, sig, "Success(%v) although two operands failed", got.Get())
	}
	if e := got.Failed().Get(); !errors.Is(e, want) {
		rec.Failf(rt, sig, "Failure(%s), the defining equation (operands in order) gives Failure(%s)", kit.ErrName(e), kit.ErrName(want))
	}
}

// chkFutFail is chkTryFail for futures (all operands already completed).
func chkFutFail(rt *rapid.T, rec *kit.Rec, sig string, call func() fp.Future[[]int], want error) {
	var got fp.Future[[]int]
	tasks := runFut(rt, rec, sig, func() { got = call() })
	if !got.IsCompleted() {
		rec.Failf(rt, sig, "the future never completes: operands all completed (two of them failed), %d executor tasks run, no task left", tasks)
	}
	r := got.Value()
	if r.IsSuccess() {
		rec.Failf(rt, sig, "future completed with Success(%v) although two operands failed", r.Get())
	}
	if e := r.Failed().Get(); !errors.Is(e, want) {
		rec.Failf(rt, sig, "future completed with Failure(%s), the defining equation (operands in order) gives Failure(%s)", kit.ErrName(e), kit.ErrName(want))
	}
}

// chkTryUnit: the function under test returns Try[Unit]; the arguments it
// passed on were recorded into *seen by the callback.
func chkTryUnit(rt *rapid.T, rec *kit.Rec, sig string, call func() fp.Try[fp.Unit], seen *[]int, want []int) {
	var got fp.Try[fp.Unit]
	*seen = nil
	rec.Guard(rt, sig, func() { got = call() })
	if !got.IsSuccess() {
		rec.Failf(rt, sig, "%v for a callback returning nil, want Success(Unit)", got)
	}
	if !eqInts(*seen, want) {
		rec.Failf(rt, sig, "callback received %v, the defining equation gives %v", *seen, want)
	}
}

// optInts / tryInts turn M[T] into M[[]int] with the primitives IsDefined/Get
// resp. IsSuccess/Get only (no library combinator).
func optInts[T any](o fp.Option[T], f func(T) []int) fp.Option[[]int] {
	if !o.IsDefined() {
		return fp.None[[]int]()
	}
	return fp.Some(f(o.Get()))
}

func tryInts[T any](o fp.Try[T], f func(T) []int) fp.Try[[]int] {
	if !o.IsSuccess() {
		return fp.Failure[[]int](o.Failed().Get())
	}
	return fp.Success(f(o.Get()))
}

// ---- futures -------------------------------------------------------------------------
//
// The future members are exercised over already completed futures and without their optional trailing
// executor argument, i.e. on the default executor. Under build tag verif the default executor offers every
// task to the hook installed with fp.VerifSetSpawn; runFut installs a hook that appends the task to a queue,
// runs the call, and then runs the queue in FIFO order until it is empty (tasks may enqueue more tasks). No
// goroutine is started and nothing waits on the clock: a combinator over completed futures that is not
// complete once no task is left never completes.

// futTaskBudget bounds the number of tasks one call may spawn (a combinator that keeps re-spawning itself).
const futTaskBudget = 100000

func runFut(rt *rapid.T, rec *kit.Rec, sig string, call func()) (tasks int) {
	var q []func()
	fp.VerifSetSpawn(func(run func()) bool { q = append(q, run); return true })
	defer fp.VerifSetSpawn(nil)
	rec.Guard(rt, sig, func() {
		call()
		for len(q) > 0 {
			r := q[0]
			q[0] = nil
			q = q[1:]
			tasks++
			if tasks > futTaskBudget {
				panic(kit.FuelExhausted{What: fmt.Sprintf("more than %d executor tasks spawned by one call", futTaskBudget)})
			}
			r()
		}
	})
	return tasks
}

// chkFut: the call's future must be completed, successfully, with the expected positions, once the task
// queue has run empty.
func chkFut(rt *rapid.T, rec *kit.Rec, sig string, call func() fp.Future[[]int], want []int) {
	var got fp.Future[[]int]
	tasks := runFut(rt, rec, sig, func() { got = call() })
	if !got.IsCompleted() {
		rec.Failf(rt, sig, "the future never completes: operands all completed successfully, %d executor tasks run, no task left; want Success(%v)", tasks, want)
	}
	r := got.Value()
	if !r.IsSuccess() {
		rec.Failf(rt, sig, "future completed with %v for all-successful operands, want Success(%v)", r, want)
	}
	if !eqInts(r.Get(), want) {
		rec.Failf(rt, sig, "future completed with Success(%v), the defining equation gives Success(%v)", r.Get(), want)
	}
}

// chkFutUnit: the function under test returns Future[Unit]; the arguments it passed on were recorded into
// *seen by the callback (which runs as a task of the queue).
func chkFutUnit(rt *rapid.T, rec *kit.Rec, sig string, call func() fp.Future[fp.Unit], seen *[]int, want []int) {
	var got fp.Future[fp.Unit]
	*seen = nil
	tasks := runFut(rt, rec, sig, func() { got = call() })
	if !got.IsCompleted() {
		rec.Failf(rt, sig, "the future never completes: %d executor tasks run, no task left; callback received %v", tasks, *seen)
	}
	if r := got.Value(); !r.IsSuccess() {
		rec.Failf(rt, sig, "future completed with %v for a callback returning nil, want Success(Unit)", r)
	}
	if !eqInts(*seen, want) {
		rec.Failf(rt, sig, "callback received %v, the defining equation gives %v", *seen, want)
	}
}

// futInts turns Future[T] into Future[[]int] with the primitives promise.New / OnComplete / Success /
// Failure only (no combinator of package future). conv runs when f is complete.
func futInts[T any](f fp.Future[T], conv func(T) []int) fp.Future[[]int] {
	p := promise.New[[]int]()
	f.OnComplete(func(t fp.Try[T]) {
		if t.IsSuccess() {
			p.Success(conv(t.Get()))
		} else {
			p.Failure(t.Failed().Get())
		}
	})
	return p.Future()
}

func wantString(v []int) string {
	s := make([]string, len(v))
	for i, x := range v {
		s[i] = strconv.Itoa(x)
	}
	return "(" + strings.Join(s, ",") + ")"
}

// affine: the i-th stage of a composition chain, x -> x*3 + tag (stages do not commute).
func chain(x int, tags []int) int {
	for _, a := range tags {
		x = x*3 + a
	}
	return x
}

// ---- named types for the single-type Labelled instantiation -------------------

type nint int

func (nint) Name() string { return "n" }

// ---- position specific type class instances --------------------------------------
//
// Position i (1-based) gets an instance that differs from every other
// position's, so that an instance wired to the wrong component is visible.

func modulus(i int) int { return i + 1 }

// modEq: a ~ b iff a = b (mod i+1).
func modEq(i int) fp.Eq[int] {
	m := modulus(i)
	return fp.EqFunc[int](func(a, b int) bool { return a%m == b%m })
}

// modOrd orders by the residue mod i+1.
func modOrd(i int) fp.Ord[int] {
	m := modulus(i)
	return fp.CompareFunc[int](func(a, b int) int {
		ka, kb := a%m, b%m
		if i%2 == 0 {
			// every other position answers with a magnitude: fp.CompareFunc / ord.FromCompare hand the
			// comparator's result through and only its sign is meaningful (see C10)
			return (i + 2) * (ka - kb)
		}
		switch {
		case ka < kb:
			return -1
		case ka > kb:
			return 1
		}
		return 0
	})
}

type modHashT struct{ m int }

func (h modHashT) Eqv(a, b int) bool { return a%h.m == b%h.m }
func (h modHashT) Hash(a int) uint32 { return uint32(a%h.m)*2654435761 + uint32(h.m)*97 }

func modHash(i int) fp.Hashable[int] { return modHashT{modulus(i)} }

// posOp: a position tagged, deliberately non-commutative binary operation
// (3a + 5b + i, "empty" i). It is not a lawful monoid and need not be:
// TupleN only has to hand component i of both operands, in order, to
// instance i; a lawful commutative instance would hide swapped operands.
type posOpT struct{ i int }

func (s posOpT) Empty() int           { return s.i }
func (s posOpT) Combine(a, b int) int { return 3*a + 5*b + s.i }

func posOp(i int) fp.Monoid[int] { return posOpT{i} }

// tagClone copies the slice and appends the position.
func tagClone(i int) fp.Clone[[]int] {
	return fp.CloneFunc[[]int](func(s []int) []int {
		r := make([]int, 0, len(s)+1)
		r = append(r, s...)
		return append(r, i)
	})
}

// drawPair draws x (pairwise distinct, 1..9999) and y = x + d where the way d
// is drawn makes "equal under the position's modulus" frequent:
//
//	mode 0: every d_i is a multiple of position i's modulus  (tuples equivalent)
//	mode 1: as mode 0 but one position gets an arbitrary delta
//	mode 2: a prefix is equivalent, the rest arbitrary           (for ord)
//	mode 3: every d_i arbitrary small
func drawPair(rt *rapid.T, n int) (x, y []int, mode int) {
	x = rapid.SliceOfNDistinct(rapid.IntRange(1, 9999), n, n, rapid.ID[int]).Draw(rt, "x")
	// weights: one-arbitrary-position (the case that exposes a single mis-wired component) 50 %
	mode = rapid.SampledFrom([]int{0, 0, 1, 1, 1, 1, 1, 2, 2, 3}).Draw(rt, "mode")
	y = make([]int, n)
	mult := func(i int) int { return rapid.IntRange(0, 3).Draw(rt, "k") * modulus(i) }
	arb := func() int { return rapid.IntRange(0, 2*(n+2)).Draw(rt, "d") }
	p := -1
	switch mode {
	case 1:
		p = rapid.IntRange(0, n-1).Draw(rt, "p")
	case 2:
		p = rapid.IntRange(0, n).Draw(rt, "prefix")
	}
	for i := 0; i < n; i++ {
		var d int
		switch {
		case mode == 0, mode == 1 && i != p, mode == 2 && i < p:
			d = mult(i + 1)
		default:
			d = arb()
		}
		y[i] = x[i] + d
	}
	return
}

func modelEq(x, y []int) bool {
	for i := range x {
		m := modulus(i + 1)
		if x[i]%m != y[i]%m {
			return false
		}
	}
	return true
}

func modelCmp(x, y []int) int {
	for i := range x {
		m := modulus(i + 1)
		kx, ky := x[i]%m, y[i]%m
		if kx < ky {
			return -1
		}
		if kx > ky {
			return 1
		}
	}
	return 0
}

func sign(c int) int {
	switch {
	case c < 0:
		return -1
	case c > 0:
		return 1
	}
	return 0
}

const rulePair = "x: pairwise distinct ints, y = x + d with d drawn so that 'every component equivalent under its own position's instance' is frequent (multiples of the position's modulus / one arbitrary position / equivalent prefix / all arbitrary); component instance i differs from every other position's (mod i+1); oracle: component-wise model written in the harness; non-trivial iff arity >= 2; distinct by printed (x,y)"

func subEqTuple(t *testing.T, name, member string, n int, eqv func(x, y []int) bool) {
	sig := "C14|" + member + "|componentwise-Eqv"
	kit.Check(t, name, rulePair, optTC(n), func(rt *rapid.T, rec *kit.Rec) {
		x, y, mode := drawPair(rt, n)
		rec.Case(n >= 2, fmt.Sprintf("%v|%v", x, y))
		rec.Label(fmt.Sprintf("mode%d", mode))
		want := modelEq(x, y)
		rec.Label(fmt.Sprintf("equiv=%v", want))
		var g1, g2, g3 bool
		rec.Guard(rt, sig, func() { g1, g2, g3 = eqv(x, y), eqv(y, x), eqv(x, x) })
		if g1 != want || g2 != want {
			rec.Failf(rt, sig, "Eqv(%v,%v)=%v, Eqv(y,x)=%v; component i compared modulo i+1 gives %v", x, y, g1, g2, want)
		}
		if !g3 {
			rec.Failf(rt, sig, "Eqv(%v,itself)=false", x)
		}
	})
}

func subOrdTuple(t *testing.T, name, member string, n int, cmp func(x, y []int) (c int, less bool, eqv bool)) {
	sig := "C14|" + member + "|lexicographic-by-position"
	kit.Check(t, name, rulePair, optTC(n), func(rt *rapid.T, rec *kit.Rec) {
		x, y, mode := drawPair(rt, n)
		rec.Case(n >= 2, fmt.Sprintf("%v|%v", x, y))
		rec.Label(fmt.Sprintf("mode%d", mode))
		want := modelCmp(x, y)
		rec.Label(fmt.Sprintf("cmp=%d", want))
		var c, rc int
		var l, e bool
		rec.Guard(rt, sig, func() {
			c, l, e = cmp(x, y)
			rc, _, _ = cmp(y, x)
		})
		if sign(c) != want || sign(rc) != -want {
			rec.Failf(rt, sig, "Compare(%v,%v)=%d, Compare(y,x)=%d; lexicographic comparison of the residues gives %d", x, y, c, rc, want)
		}
		if l != (want < 0) || e != (want == 0) {
			rec.Failf(rt, sig, "Less(%v,%v)=%v Eqv=%v; lexicographic comparison of the residues gives %d", x, y, l, e, want)
		}
	})
}

func subHashTuple(t *testing.T, name, member string, n int, h func(x, y []int) (eqv bool, hx, hy uint32)) {
	sig := "C14|" + member + "|equal-tuples-hash-equal"
	kit.Check(t, name, rulePair, optTC(n), func(rt *rapid.T, rec *kit.Rec) {
		x, y, mode := drawPair(rt, n)
		rec.Case(n >= 2, fmt.Sprintf("%v|%v", x, y))
		rec.Label(fmt.Sprintf("mode%d", mode))
		want := modelEq(x, y)
		rec.Label(fmt.Sprintf("equiv=%v", want))
		var e bool
		var hx, hy uint32
		rec.Guard(rt, sig, func() { e, hx, hy = h(x, y) })
		if e != want {
			rec.Failf(rt, "C14|"+member+"|componentwise-Eqv", "Eqv(%v,%v)=%v; component i compared modulo i+1 gives %v", x, y, e, want)
		}
		if want && hx != hy {
			rec.Failf(rt, sig, "%v and %v are equal component by component under the given instances but hash to %d and %d", x, y, hx, hy)
		}
	})
}

const ruleMonoid = "x, y: two independently drawn vectors of pairwise distinct ints; component instance i is the position tagged non-commutative operation 3a+5b+i with Empty()=i; oracle: Empty = (1..N), Combine component-wise; non-trivial iff arity >= 2; distinct by printed (x,y)"

func subMonoidTuple(t *testing.T, name, member string, n int, empty func() []int, combine func(x, y []int) []int) {
	kit.Check(t, name, ruleMonoid, opt(n), func(rt *rapid.T, rec *kit.Rec) {
		x := rapid.SliceOfNDistinct(rapid.IntRange(1, 9999), n, n, rapid.ID[int]).Draw(rt, "x")
		y := rapid.SliceOfNDistinct(rapid.IntRange(1, 9999), n, n, rapid.ID[int]).Draw(rt, "y")
		rec.Case(n >= 2, fmt.Sprintf("%v|%v", x, y))
		we := make([]int, n)
		wc := make([]int, n)
		for i := 0; i < n; i++ {
			we[i] = i + 1
			wc[i] = 3*x[i] + 5*y[i] + (i + 1)
		}
		chk(rt, rec, "C14|"+member+"|componentwise-Empty", empty, we)
		chk(rt, rec, "C14|"+member+"|componentwise-Combine", func() []int { return combine(x, y) }, wc)
	})
}

const ruleClone = "x: pairwise distinct ints, component i of the tuple is the slice [x_i, x_i+1][:1+i%2]; component instance i copies and appends i; oracle: component i of the clone = component i of the original ++ [i], original untouched; non-trivial iff arity >= 2; distinct by printed x"

func subCloneTuple(t *testing.T, name, member string, n int, cl func(x [][]int) [][]int) {
	sig := "C14|" + member + "|componentwise-Clone"
	kit.Check(t, name, ruleClone, opt(n), func(rt *rapid.T, rec *kit.Rec) {
		x := rapid.SliceOfNDistinct(rapid.IntRange(1, 9999), n, n, rapid.ID[int]).Draw(rt, "x")
		rec.Case(n >= 2, fmt.Sprint(x))
		in := make([][]int, n)
		want := make([][]int, n)
		for i := range x {
			in[i] = []int{x[i], x[i] + 1}[:1+i%2]
			want[i] = append(append([]int{}, in[i]...), i+1)
		}
		var got [][]int
		rec.Guard(rt, sig, func() { got = cl(in) })
		if len(got) != n {
			rec.Failf(rt, sig, "adapter returned %d components", len(got))
		}
		for i := range got {
			if !eqInts(got[i], want[i]) {
				rec.Failf(rt, sig, "component %d of the clone is %v, want %v (= original component %d ++ [%d]); all: %v", i+1, got[i], want[i], i+1, i+1, got)
			}
			if !eqInts(in[i], []int{x[i], x[i] + 1}[:1+i%2]) {
				rec.Failf(rt, sig, "original component %d changed to %v", i+1, in[i])
			}
		}
	})
}

// ---- staleness guard ----------------------------------------------------------------

// TestLimits compares the arity limits of the tree this binary was built
// against with the limits the generator saw. The driver regenerates before
// every build ("pregen" in check.json), so a difference means the generated file
// was not refreshed and coverage may silently be smaller than the tree's.
func TestLimits(t *testing.T) {
	kit.Plain(t, "limits", "genfp.MaxFunc/MaxProduct/MaxCompose of the tree under test against the maxima recorded by the generator; every family emitted for at least one arity", func(t *testing.T, rec *kit.Rec) {
		rec.Case(true, fmt.Sprintf("MaxFunc=%d MaxProduct=%d MaxCompose=%d", genfp.MaxFunc, genfp.MaxProduct, genfp.MaxCompose))
		if genfp.MaxFunc != genMaxFunc || genfp.MaxProduct != genMaxProduct || genfp.MaxCompose != genMaxCompose {
			rec.PlainFail(t, "C14|limits|stale-generated-harness",
				"tree has MaxFunc=%d MaxProduct=%d MaxCompose=%d but arity_gen_test.go was generated for MaxFunc=%d MaxProduct=%d MaxCompose=%d; regenerate: go run ./c14/gen (in /verif/harness)",
				genfp.MaxFunc, genfp.MaxProduct, genfp.MaxCompose, genMaxFunc, genMaxProduct, genMaxCompose)
		}
		if len(emittedArity) == 0 {
			rec.PlainFail(t, "C14|limits|stale-generated-harness", "the generated table is empty; regenerate: go run ./c14/gen")
		}
		fams := make([]string, 0, len(emittedArity))
		n := 0
		for f, as := range emittedArity {
			fams = append(fams, f)
			n += len(as)
		}
		sort.Strings(fams)
		holes := []string{}
		for _, f := range fams {
			as := emittedArity[f]
			for i := 1; i < len(as); i++ {
				if as[i] != as[i-1]+1 {
					holes = append(holes, fmt.Sprintf("%s: %d..%d missing", f, as[i-1]+1, as[i]-1))
				}
			}
		}
		rec.Extra("families", len(fams))
		rec.Extra("family_arity_pairs", n)
		rec.Extra("uncovered_members", len(uncovered))
		rec.Extra("uncovered", strings.Join(uncovered, "; "))
		rec.Extra("arity_holes", strings.Join(holes, "; "))
	})
}
