package c09

// Independent reference model of the value domains used by the C09 checks.
//
// A dom[T] knows, for one Go type T, how to draw a value, how to rebuild the
// same value in fresh storage (clone), how to build an equal value in a
// possibly different representation (alt: nil vs empty, other pointer, other
// time zone, other insertion order ...), how to change exactly one component
// (mut) and what "equal" means component-wise (ref). Nothing in this file
// calls an Eq or Hashable of the library.

import (
	"cmp"
	"fmt"
	"sort"
	"strconv"
	"strings"
	"time"

	"github.com/csgura/fp"
	"github.com/csgura/fp/hlist"
	"github.com/csgura/fp/immutable"
	"github.com/csgura/fp/mutable"
	"github.com/csgura/fp/option"
	"pgregory.net/rapid"

	"verifharness/kit"
)

type dom[T any] struct {
	gen   func(rt *rapid.T) T
	clone func(a T) T                      // same representation, fresh storage
	alt   func(rt *rapid.T, a T) T         // ref-equal, representation drawn, fresh storage
	mut   func(rt *rapid.T, a T) (T, bool) // differs from a in exactly one component; false if T has a single value
	ref   func(a, b T) bool                // reference equality
	show  func(a T) string                 // canonical printable form (no addresses, no map order)
}

// ---- leaves --------------------------------------------------------------------

func valDom[T comparable](gen func(rt *rapid.T) T, mut func(rt *rapid.T, a T) T, show func(T) string) dom[T] {
	return dom[T]{
		gen:   gen,
		clone: func(a T) T { return a },
		alt:   func(_ *rapid.T, a T) T { return a },
		mut:   func(rt *rapid.T, a T) (T, bool) { b := mut(rt, a); return b, b != a },
		ref:   func(a, b T) bool { return a == b },
		show:  show,
	}
}

func domInt() dom[int] {
	return valDom(
		func(rt *rapid.T) int { return kit.SmallInt().Draw(rt, "int") },
		func(rt *rapid.T, a int) int {
			return a + rapid.SampledFrom([]int{1, -1, 2, 5, 1 << 31, 1 << 32}).Draw(rt, "delta")
		},
		strconv.Itoa)
}

func domTinyInt() dom[int] {
	return valDom(
		func(rt *rapid.T) int { return kit.TinyInt().Draw(rt, "int") },
		func(rt *rapid.T, a int) int { return a + rapid.SampledFrom([]int{1, -1, 2}).Draw(rt, "delta") },
		strconv.Itoa)
}

func domBool() dom[bool] {
	return valDom(
		func(rt *rapid.T) bool { return rapid.Bool().Draw(rt, "bool") },
		func(_ *rapid.T, a bool) bool { return !a },
		strconv.FormatBool)
}

func domString() dom[string] {
	return valDom(
		func(rt *rapid.T) string { return kit.SmallString().Draw(rt, "str") },
		func(rt *rapid.T, a string) string {
			if a != "" && rapid.Bool().Draw(rt, "drop") {
				return a[:len(a)-1]
			}
			return a + rapid.SampledFrom([]string{"a", "b", "é", "\x00"}).Draw(rt, "suffix")
		},
		strconv.Quote)
}

// numDom: any numeric kind. g should be heavy on edge values. alt (may be nil)
// maps a value to an ==-equal value with another bit pattern (0.0 / -0.0).
func numDom[T fp.ImplicitNum](g *rapid.Generator[T], alt func(T) T) dom[T] {
	d := valDom(
		func(rt *rapid.T) T { return g.Draw(rt, "num") },
		func(rt *rapid.T, a T) T {
			if rapid.Bool().Draw(rt, "succ") && a+1 != a {
				return a + 1
			}
			for i := 0; i < 8; i++ {
				if b := g.Draw(rt, "other"); b != a {
					return b
				}
			}
			if a+1 != a {
				return a + 1
			}
			if a != 0 {
				return 0
			}
			return 1
		},
		func(a T) string { return fmt.Sprintf("%T(%v)", a, a) })
	if alt != nil {
		d.alt = func(_ *rapid.T, a T) T { return alt(a) }
	}
	return d
}

func domBytes() dom[[]byte] {
	bg := rapid.SampledFrom([]byte{0, 1, 'a', 'b', 0xff})
	cp := func(a []byte, extra int) []byte {
		big := make([]byte, 1, len(a)+1+extra)
		big[0] = 0x5a
		big = append(big, a...)
		return big[1:]
	}
	return dom[[]byte]{
		gen: func(rt *rapid.T) []byte {
			switch rapid.IntRange(0, 7).Draw(rt, "bytesKind") {
			case 0:
				return nil
			case 1:
				return []byte{}
			}
			return rapid.SliceOfN(bg, 1, 4).Draw(rt, "bytes")
		},
		clone: func(a []byte) []byte {
			if a == nil {
				return nil
			}
			b := make([]byte, len(a))
			copy(b, a)
			return b
		},
		alt: func(rt *rapid.T, a []byte) []byte {
			if len(a) == 0 {
				switch rapid.IntRange(0, 2).Draw(rt, "emptyRep") {
				case 0:
					return nil
				case 1:
					return []byte{}
				}
				return make([]byte, 0, 4)
			}
			return cp(a, rapid.IntRange(0, 3).Draw(rt, "extraCap"))
		},
		mut: func(rt *rapid.T, a []byte) ([]byte, bool) {
			n := len(a)
			if n == 0 {
				return []byte{bg.Draw(rt, "b")}, true
			}
			b := cp(a, 2)
			switch rapid.IntRange(0, 3).Draw(rt, "op") {
			case 0, 1:
				p := rapid.IntRange(0, n-1).Draw(rt, "pos")
				b[p] ^= byte(1) << uint(rapid.IntRange(0, 7).Draw(rt, "bit"))
			case 2:
				b = append(b, bg.Draw(rt, "b"))
			default:
				p := rapid.IntRange(0, n-1).Draw(rt, "pos")
				b = append(b[:p:p], b[p+1:]...)
			}
			return b, true
		},
		ref: func(a, b []byte) bool {
			if len(a) != len(b) {
				return false
			}
			for i := range a {
				if a[i] != b[i] {
					return false
				}
			}
			return true
		},
		show: func(a []byte) string {
			if a == nil {
				return "nil"
			}
			return fmt.Sprintf("b[%x]", a)
		},
	}
}

// ---- time ------------------------------------------------------------------------

// timeBase carries a monotonic clock reading; it is the only way to obtain one.
// Values derived from it are printed as offsets, and every verdict depends on
// offsets only, so a run stays a function of (tree, seed).
var timeBase = time.Now()

var timeZones = []*time.Location{time.UTC, time.FixedZone("P0100", 3600), time.FixedZone("M0530", -(5*3600 + 1800))}

func hasMono(t time.Time) bool { return t.Round(0) != t }

func domTime() dom[time.Time] {
	secs := []int64{0, 1, -1, 1000000000, 1700000000, -62135596800, 253402300799, 86400 * 365}
	nsecs := []int64{0, 1, 500, 999999999}
	offs := []time.Duration{0, 1, -1, 1000, time.Second, -time.Hour / 2}
	zone := func(rt *rapid.T) *time.Location { return rapid.SampledFrom(timeZones).Draw(rt, "zone") }
	return dom[time.Time]{
		gen: func(rt *rapid.T) time.Time {
			switch rapid.IntRange(0, 9).Draw(rt, "timeKind") {
			case 0:
				return time.Time{}
			case 1, 2:
				return timeBase.Add(rapid.SampledFrom(offs).Draw(rt, "off")) // keeps the monotonic reading
			case 3:
				return timeBase.Add(rapid.SampledFrom(offs).Draw(rt, "off")).Round(0).In(zone(rt))
			}
			return time.Unix(rapid.SampledFrom(secs).Draw(rt, "sec"), rapid.SampledFrom(nsecs).Draw(rt, "nsec")).In(zone(rt))
		},
		clone: func(a time.Time) time.Time { return a },
		alt: func(rt *rapid.T, a time.Time) time.Time {
			switch rapid.IntRange(0, 3).Draw(rt, "timeRep") {
			case 0:
				return a
			case 1:
				return a.Round(0) // strips a monotonic reading, same instant
			case 2:
				return time.Unix(a.Unix(), int64(a.Nanosecond())).In(zone(rt))
			}
			return a.In(zone(rt))
		},
		mut: func(rt *rapid.T, a time.Time) (time.Time, bool) {
			d := rapid.SampledFrom([]time.Duration{1, -1, time.Second, -time.Second, time.Hour, 24 * time.Hour}).Draw(rt, "dt")
			b := a.Add(d)
			if rapid.Bool().Draw(rt, "rezone") {
				b = b.In(zone(rt))
			}
			return b, true
		},
		ref: func(a, b time.Time) bool { return a.Unix() == b.Unix() && a.Nanosecond() == b.Nanosecond() },
		show: func(a time.Time) string {
			m := ""
			if hasMono(a) {
				m = "+mono"
			}
			if d := a.Sub(timeBase); d > -30*24*time.Hour && d < 30*24*time.Hour {
				return fmt.Sprintf("now%+dns@%s%s", int64(d), a.Location(), m)
			}
			return fmt.Sprintf("%d.%09d@%s%s", a.Unix(), a.Nanosecond(), a.Location(), m)
		},
	}
}

// ---- combinators -----------------------------------------------------------------

func domOpt[T any](d dom[T]) dom[fp.Option[T]] {
	none := func(rt *rapid.T) fp.Option[T] {
		switch rapid.IntRange(0, 2).Draw(rt, "noneRep") {
		case 0:
			return option.None[T]()
		case 1:
			var z fp.Option[T]
			return z
		}
		return option.Some(d.gen(rt)).Filter(func(T) bool { return false })
	}
	return dom[fp.Option[T]]{
		gen: func(rt *rapid.T) fp.Option[T] {
			if rapid.IntRange(0, 3).Draw(rt, "none") == 0 {
				return option.None[T]()
			}
			return option.Some(d.gen(rt))
		},
		clone: func(a fp.Option[T]) fp.Option[T] {
			if a.IsEmpty() {
				return option.None[T]()
			}
			return option.Some(d.clone(a.Get()))
		},
		alt: func(rt *rapid.T, a fp.Option[T]) fp.Option[T] {
			if a.IsEmpty() {
				return none(rt)
			}
			return option.Some(d.alt(rt, a.Get()))
		},
		mut: func(rt *rapid.T, a fp.Option[T]) (fp.Option[T], bool) {
			if a.IsEmpty() {
				return option.Some(d.gen(rt)), true
			}
			if rapid.IntRange(0, 2).Draw(rt, "toNone") == 0 {
				return none(rt), true
			}
			if v, ok := d.mut(rt, a.Get()); ok {
				return option.Some(v), true
			}
			return none(rt), true
		},
		ref: func(a, b fp.Option[T]) bool {
			if a.IsDefined() != b.IsDefined() {
				return false
			}
			return !a.IsDefined() || d.ref(a.Get(), b.Get())
		},
		show: func(a fp.Option[T]) string {
			if a.IsEmpty() {
				return "None"
			}
			return "Some(" + d.show(a.Get()) + ")"
		},
	}
}

// domSliceOf models []T and fp.Seq[T]: equal iff same length and element-wise
// equal, so nil and the empty slice are the same value in two representations.
func domSliceOf[S ~[]T, T any](d dom[T]) dom[S] {
	rebuild := func(a S, extra int, f func(T) T) S {
		b := make(S, 0, len(a)+extra)
		for _, x := range a {
			b = append(b, f(x))
		}
		return b
	}
	return dom[S]{
		gen: func(rt *rapid.T) S {
			switch rapid.IntRange(0, 9).Draw(rt, "sliceKind") {
			case 0:
				return nil
			case 1:
				return S{}
			}
			n := rapid.IntRange(1, kit.Pick(4, 6)).Draw(rt, "len")
			s := make(S, n)
			for i := range s {
				s[i] = d.gen(rt)
			}
			return s
		},
		clone: func(a S) S {
			if a == nil {
				return nil
			}
			return rebuild(a, 0, d.clone)
		},
		alt: func(rt *rapid.T, a S) S {
			if len(a) == 0 {
				switch rapid.IntRange(0, 2).Draw(rt, "emptyRep") {
				case 0:
					return nil
				case 1:
					return S{}
				}
				return make(S, 0, 3)
			}
			if rapid.IntRange(0, 5).Draw(rt, "sameArray") == 0 {
				return a[:len(a):len(a)] // the very same storage, capacity clipped
			}
			return rebuild(a, rapid.IntRange(0, 2).Draw(rt, "extraCap"), func(x T) T { return d.alt(rt, x) })
		},
		mut: func(rt *rapid.T, a S) (S, bool) {
			n := len(a)
			if n == 0 {
				return S{d.gen(rt)}, true
			}
			b := rebuild(a, 1, d.clone)
			op := rapid.IntRange(0, 6).Draw(rt, "op")
			// 5, 6: a shorter VIEW of a itself (same backing array): a prefix a[:p] starts at the same element,
			// a suffix a[p:] ends at the same element; equal storage must not be taken for equal values
			if op == 5 || (op == 6 && n < 2) {
				return a[:rapid.IntRange(0, n-1).Draw(rt, "prefixLen")], true
			}
			if op == 6 {
				return a[rapid.IntRange(1, n-1).Draw(rt, "suffixFrom"):], true
			}
			if op <= 2 {
				p := rapid.IntRange(0, n-1).Draw(rt, "pos")
				if e, ok := d.mut(rt, a[p]); ok {
					b[p] = e
					return b, true
				}
				op = 3
			}
			if op == 3 {
				return append(b, d.gen(rt)), true
			}
			p := rapid.IntRange(0, n-1).Draw(rt, "pos")
			return append(b[:p:p], b[p+1:]...), true
		},
		ref: func(a, b S) bool {
			if len(a) != len(b) {
				return false
			}
			for i := range a {
				if !d.ref(a[i], b[i]) {
					return false
				}
			}
			return true
		},
		show: func(a S) string {
			if a == nil {
				return "nil"
			}
			xs := make([]string, len(a))
			for i, x := range a {
				xs[i] = d.show(x)
			}
			return "[" + strings.Join(xs, ",") + "]"
		},
	}
}

func domPtr[T any](d dom[T]) dom[*T] {
	return dom[*T]{
		gen: func(rt *rapid.T) *T {
			if rapid.IntRange(0, 3).Draw(rt, "nil") == 0 {
				return nil
			}
			v := d.gen(rt)
			return &v
		},
		clone: func(a *T) *T {
			if a == nil {
				return nil
			}
			v := d.clone(*a)
			return &v
		},
		alt: func(rt *rapid.T, a *T) *T {
			if a == nil {
				return nil
			}
			v := d.alt(rt, *a)
			return &v
		},
		mut: func(rt *rapid.T, a *T) (*T, bool) {
			if a == nil {
				v := d.gen(rt)
				return &v, true
			}
			if rapid.IntRange(0, 2).Draw(rt, "toNil") == 0 {
				return nil, true
			}
			if v, ok := d.mut(rt, *a); ok {
				return &v, true
			}
			return nil, true
		},
		ref: func(a, b *T) bool {
			if a == nil || b == nil {
				return a == nil && b == nil
			}
			return d.ref(*a, *b)
		},
		show: func(a *T) string {
			if a == nil {
				return "nil"
			}
			return "&" + d.show(*a)
		},
	}
}

func domTuple2[A, B any](da dom[A], db dom[B]) dom[fp.Tuple2[A, B]] {
	type tt = fp.Tuple2[A, B]
	return dom[tt]{
		gen:   func(rt *rapid.T) tt { return tt{I1: da.gen(rt), I2: db.gen(rt)} },
		clone: func(a tt) tt { return tt{I1: da.clone(a.I1), I2: db.clone(a.I2)} },
		alt:   func(rt *rapid.T, a tt) tt { return tt{I1: da.alt(rt, a.I1), I2: db.alt(rt, a.I2)} },
		mut: func(rt *rapid.T, a tt) (tt, bool) {
			b := tt{I1: da.clone(a.I1), I2: db.clone(a.I2)}
			first := rapid.Bool().Draw(rt, "first")
			for i := 0; i < 2; i++ {
				if first {
					if v, ok := da.mut(rt, a.I1); ok {
						b.I1 = v
						return b, true
					}
				} else if v, ok := db.mut(rt, a.I2); ok {
					b.I2 = v
					return b, true
				}
				first = !first
			}
			return b, false
		},
		ref:  func(a, b tt) bool { return da.ref(a.I1, b.I1) && db.ref(a.I2, b.I2) },
		show: func(a tt) string { return "(" + da.show(a.I1) + "," + db.show(a.I2) + ")" },
	}
}

func domTuple3[A, B, C any](da dom[A], db dom[B], dc dom[C]) dom[fp.Tuple3[A, B, C]] {
	type tt = fp.Tuple3[A, B, C]
	cl := func(a tt) tt { return tt{I1: da.clone(a.I1), I2: db.clone(a.I2), I3: dc.clone(a.I3)} }
	return dom[tt]{
		gen:   func(rt *rapid.T) tt { return tt{I1: da.gen(rt), I2: db.gen(rt), I3: dc.gen(rt)} },
		clone: cl,
		alt: func(rt *rapid.T, a tt) tt {
			return tt{I1: da.alt(rt, a.I1), I2: db.alt(rt, a.I2), I3: dc.alt(rt, a.I3)}
		},
		mut: func(rt *rapid.T, a tt) (tt, bool) {
			b := cl(a)
			p := rapid.IntRange(0, 2).Draw(rt, "pos")
			for i := 0; i < 3; i++ {
				switch (p + i) % 3 {
				case 0:
					if v, ok := da.mut(rt, a.I1); ok {
						b.I1 = v
						return b, true
					}
				case 1:
					if v, ok := db.mut(rt, a.I2); ok {
						b.I2 = v
						return b, true
					}
				default:
					if v, ok := dc.mut(rt, a.I3); ok {
						b.I3 = v
						return b, true
					}
				}
			}
			return b, false
		},
		ref: func(a, b tt) bool { return da.ref(a.I1, b.I1) && db.ref(a.I2, b.I2) && dc.ref(a.I3, b.I3) },
		show: func(a tt) string {
			return "(" + da.show(a.I1) + "," + db.show(a.I2) + "," + dc.show(a.I3) + ")"
		},
	}
}

func domHNil() dom[hlist.Nil] {
	return dom[hlist.Nil]{
		gen: func(rt *rapid.T) hlist.Nil {
			if rapid.Bool().Draw(rt, "nilRep") {
				return hlist.Empty()
			}
			return hlist.Nil{}
		},
		clone: func(a hlist.Nil) hlist.Nil { return hlist.Nil{} },
		alt:   func(_ *rapid.T, a hlist.Nil) hlist.Nil { return hlist.Empty() },
		mut:   func(_ *rapid.T, a hlist.Nil) (hlist.Nil, bool) { return a, false },
		ref:   func(a, b hlist.Nil) bool { return true },
		show:  func(hlist.Nil) string { return "HNil" },
	}
}

func domHCons[H any, T hlist.HList](dh dom[H], dt dom[T]) dom[hlist.Cons[H, T]] {
	type tt = hlist.Cons[H, T]
	return dom[tt]{
		gen:   func(rt *rapid.T) tt { return hlist.Concat(dh.gen(rt), dt.gen(rt)) },
		clone: func(a tt) tt { return hlist.Concat(dh.clone(hlist.Head(a)), dt.clone(hlist.Tail(a))) },
		alt: func(rt *rapid.T, a tt) tt {
			return hlist.Concat(dh.alt(rt, hlist.Head(a)), dt.alt(rt, hlist.Tail(a)))
		},
		mut: func(rt *rapid.T, a tt) (tt, bool) {
			h, t := dh.clone(hlist.Head(a)), dt.clone(hlist.Tail(a))
			// the tail is chosen more often so that every position of a chain is reached
			if rapid.IntRange(0, 2).Draw(rt, "inTail") > 0 {
				if v, ok := dt.mut(rt, hlist.Tail(a)); ok {
					return hlist.Concat(h, v), true
				}
			}
			if v, ok := dh.mut(rt, hlist.Head(a)); ok {
				return hlist.Concat(v, t), true
			}
			if v, ok := dt.mut(rt, hlist.Tail(a)); ok {
				return hlist.Concat(h, v), true
			}
			return a, false
		},
		ref: func(a, b tt) bool {
			return dh.ref(hlist.Head(a), hlist.Head(b)) && dt.ref(hlist.Tail(a), hlist.Tail(b))
		},
		show: func(a tt) string { return dh.show(hlist.Head(a)) + "::" + dt.show(hlist.Tail(a)) },
	}
}

func sortedKeys[K cmp.Ordered, V any](m map[K]V) []K {
	ks := make([]K, 0, len(m))
	for k := range m {
		ks = append(ks, k)
	}
	sort.Slice(ks, func(i, j int) bool { return ks[i] < ks[j] })
	return ks
}

// domGoMap models map[K]V: equal iff same key set and equal values; nil and
// the empty map are the same value. All iteration is over sorted keys.
func domGoMap[K cmp.Ordered, V any](kg *rapid.Generator[K], dv dom[V]) dom[map[K]V] {
	type mm = map[K]V
	return dom[mm]{
		gen: func(rt *rapid.T) mm {
			switch rapid.IntRange(0, 9).Draw(rt, "mapKind") {
			case 0:
				return nil
			case 1:
				return mm{}
			}
			n := rapid.IntRange(1, kit.Pick(4, 7)).Draw(rt, "n")
			m := mm{}
			for i := 0; i < n; i++ {
				m[kg.Draw(rt, "key")] = dv.gen(rt)
			}
			return m
		},
		clone: func(a mm) mm {
			if a == nil {
				return nil
			}
			m := mm{}
			for _, k := range sortedKeys(a) {
				m[k] = dv.clone(a[k])
			}
			return m
		},
		alt: func(rt *rapid.T, a mm) mm {
			if len(a) == 0 {
				switch rapid.IntRange(0, 2).Draw(rt, "emptyRep") {
				case 0:
					return nil
				case 1:
					return mm{}
				}
				return make(mm, 8)
			}
			ks := sortedKeys(a)
			m := make(mm, rapid.IntRange(0, 16).Draw(rt, "hint"))
			for i := len(ks) - 1; i >= 0; i-- { // other insertion order
				m[ks[i]] = dv.alt(rt, a[ks[i]])
			}
			return m
		},
		mut: func(rt *rapid.T, a mm) (mm, bool) {
			m := mm{}
			ks := sortedKeys(a)
			for _, k := range ks {
				m[k] = dv.clone(a[k])
			}
			op := rapid.IntRange(0, 5).Draw(rt, "op")
			if len(ks) == 0 {
				op = 3
			}
			if op == 5 { // same size, same values, one key replaced by an absent one
				k := ks[rapid.IntRange(0, len(ks)-1).Draw(rt, "keyIdx")]
				for i := 0; i < 20; i++ {
					nk := kg.Draw(rt, "newKey")
					if _, dup := m[nk]; !dup {
						m[nk] = m[k]
						delete(m, k)
						return m, true
					}
				}
				op = 0
			}
			if op <= 2 {
				k := ks[rapid.IntRange(0, len(ks)-1).Draw(rt, "keyIdx")]
				if v, ok := dv.mut(rt, a[k]); ok {
					m[k] = v
					return m, true
				}
				op = 4
			}
			if op == 3 {
				for i := 0; i < 20; i++ {
					k := kg.Draw(rt, "newKey")
					if _, dup := m[k]; !dup {
						m[k] = dv.gen(rt)
						return m, true
					}
				}
				if len(ks) == 0 {
					return m, false
				}
			}
			delete(m, ks[rapid.IntRange(0, len(ks)-1).Draw(rt, "delIdx")])
			return m, true
		},
		ref: func(a, b mm) bool {
			if len(a) != len(b) {
				return false
			}
			for k, av := range a {
				bv, ok := b[k]
				if !ok || !dv.ref(av, bv) {
					return false
				}
			}
			return true
		},
		show: func(a mm) string {
			if a == nil {
				return "nil"
			}
			var sb strings.Builder
			sb.WriteString("{")
			for _, k := range sortedKeys(a) {
				fmt.Fprintf(&sb, "%v:%s,", k, dv.show(a[k]))
			}
			return sb.String() + "}"
		},
	}
}

// ---- fp.Map ------------------------------------------------------------------------

// fmapM carries the content model next to the library map, so that the oracle
// never reads the map through the library.
type fmapM[V any] struct {
	m    fp.Map[int, V]
	kind int
	keys []int // insertion order, unique
	vals []V
}

// collideHash is a Hashable[int] with only two hash values: every bucket of an
// immutable map built with it is a collision node.
type collideHash struct{}

func (collideHash) Eqv(a, b int) bool { return a == b }
func (collideHash) Hash(a int) uint32 { return uint32(a & 1) }

// spreadHash distributes small ints over high bits.
type spreadHash struct{}

func (spreadHash) Eqv(a, b int) bool { return a == b }
func (spreadHash) Hash(a int) uint32 { return uint32(a) * 2654435761 }

const fmapKinds = 7

var fmapKindName = []string{"zero+Updated", "hamt(spread)+Updated", "hamt(spread)builder", "hamt(collide)+Updated", "mutable.MapOf", "hamt(spread)+Updated+Removed", "hamt(collide)builder"}

func buildFpMap[V any](kind int, keys []int, vals []V) fp.Map[int, V] {
	tuples := func() []fp.Tuple2[int, V] {
		ts := make([]fp.Tuple2[int, V], len(keys))
		for i := range keys {
			ts[i] = fp.Tuple2[int, V]{I1: keys[i], I2: vals[i]}
		}
		return ts
	}
	upd := func(m fp.Map[int, V]) fp.Map[int, V] {
		for i := range keys {
			m = m.Updated(keys[i], vals[i])
		}
		return m
	}
	switch kind {
	case 0:
		var m fp.Map[int, V]
		return upd(m)
	case 1:
		return upd(immutable.Map[int, V](spreadHash{}))
	case 2:
		return immutable.Map[int, V](spreadHash{}, tuples()...)
	case 3:
		return upd(immutable.Map[int, V](collideHash{}))
	case 4:
		g := map[int]V{}
		for i := range keys {
			g[keys[i]] = vals[i]
		}
		return mutable.MapOf(g)
	case 5:
		m := immutable.Map[int, V](spreadHash{})
		var z V
		m = m.Updated(1000, z).Updated(1001, z)
		return upd(m).Removed(1000, 1001)
	default:
		return immutable.Map[int, V](collideHash{}, tuples()...)
	}
}

func domFpMap[V any](dv dom[V]) dom[fmapM[V]] {
	type mm = fmapM[V]
	mk := func(kind int, keys []int, vals []V) mm {
		return mm{m: buildFpMap(kind, keys, vals), kind: kind, keys: keys, vals: vals}
	}
	find := func(a mm, k int) int {
		for i, x := range a.keys {
			if x == k {
				return i
			}
		}
		return -1
	}
	cloneVals := func(a mm) []V {
		vs := make([]V, len(a.vals))
		for i, v := range a.vals {
			vs[i] = dv.clone(v)
		}
		return vs
	}
	return dom[mm]{
		gen: func(rt *rapid.T) mm {
			kind := rapid.IntRange(0, fmapKinds-1).Draw(rt, "fmapKind")
			n, hi := 0, 9
			switch s := rapid.IntRange(0, 9).Draw(rt, "sizeClass"); {
			case s == 0:
				n = 0
			case s == 9:
				n, hi = rapid.IntRange(9, kit.Pick(20, 40)).Draw(rt, "n"), 60
			default:
				n = rapid.IntRange(1, 5).Draw(rt, "n")
			}
			var keys []int
			var vals []V
			seen := map[int]bool{}
			for i := 0; i < n; i++ {
				k := rapid.IntRange(0, hi).Draw(rt, "key")
				if seen[k] {
					continue
				}
				seen[k] = true
				keys = append(keys, k)
				vals = append(vals, dv.gen(rt))
			}
			return mk(kind, keys, vals)
		},
		clone: func(a mm) mm { return mk(a.kind, append([]int(nil), a.keys...), cloneVals(a)) },
		alt: func(rt *rapid.T, a mm) mm {
			kind := rapid.IntRange(0, fmapKinds-1).Draw(rt, "fmapKind")
			n := len(a.keys)
			keys := make([]int, n)
			vals := make([]V, n)
			rot, rev := 0, rapid.Bool().Draw(rt, "reverse")
			if n > 0 {
				rot = rapid.IntRange(0, n-1).Draw(rt, "rotate")
			}
			for i := 0; i < n; i++ {
				j := (i + rot) % n
				if rev {
					j = n - 1 - j
				}
				keys[i] = a.keys[j]
				vals[i] = dv.alt(rt, a.vals[j])
			}
			return mk(kind, keys, vals)
		},
		mut: func(rt *rapid.T, a mm) (mm, bool) {
			keys := append([]int(nil), a.keys...)
			vals := cloneVals(a)
			kind := a.kind
			if rapid.Bool().Draw(rt, "otherKind") {
				kind = rapid.IntRange(0, fmapKinds-1).Draw(rt, "fmapKind")
			}
			op := rapid.IntRange(0, 5).Draw(rt, "op")
			if len(keys) == 0 {
				op = 3
			}
			if op == 5 { // same size, same values, one key replaced by an absent one
				p := rapid.IntRange(0, len(keys)-1).Draw(rt, "pos")
				for i := 0; i < 30; i++ {
					if k := rapid.IntRange(0, 70).Draw(rt, "newKey"); find(a, k) < 0 {
						keys[p] = k
						return mk(kind, keys, vals), true
					}
				}
				op = 0
			}
			if op <= 2 {
				p := rapid.IntRange(0, len(keys)-1).Draw(rt, "pos")
				if v, ok := dv.mut(rt, a.vals[p]); ok {
					vals[p] = v
					return mk(kind, keys, vals), true
				}
				op = 4
			}
			if op == 3 {
				for i := 0; i < 30; i++ {
					k := rapid.IntRange(0, 70).Draw(rt, "newKey")
					if find(a, k) < 0 {
						return mk(kind, append(keys, k), append(vals, dv.gen(rt))), true
					}
				}
			}
			if len(keys) == 0 {
				return a, false
			}
			p := rapid.IntRange(0, len(keys)-1).Draw(rt, "delPos")
			return mk(kind, append(keys[:p:p], keys[p+1:]...), append(vals[:p:p], vals[p+1:]...)), true
		},
		ref: func(a, b mm) bool {
			if len(a.keys) != len(b.keys) {
				return false
			}
			for i, k := range a.keys {
				j := find(b, k)
				if j < 0 || !dv.ref(a.vals[i], b.vals[j]) {
					return false
				}
			}
			return true
		},
		show: func(a mm) string {
			var sb strings.Builder
			fmt.Fprintf(&sb, "%s{", fmapKindName[a.kind])
			for i, k := range a.keys {
				fmt.Fprintf(&sb, "%d:%s,", k, dv.show(a.vals[i]))
			}
			return sb.String() + "}"
		},
	}
}

// ---- pointer identity (eq.Given[*int]) -------------------------------------------------

// ptrPool: fixed, never written. pool[2i] and pool[2i+1] point to equal targets.
var ptrPool = func() []*int {
	ps := make([]*int, 6)
	for i := range ps {
		v := i / 2
		ps[i] = &v
	}
	return ps
}()

func poolIndex(p *int) int {
	for i, q := range ptrPool {
		if p == q {
			return i
		}
	}
	return -1
}

func domPtrIdentity() dom[*int] {
	return dom[*int]{
		gen: func(rt *rapid.T) *int {
			i := rapid.IntRange(-1, len(ptrPool)-1).Draw(rt, "poolIdx")
			if i < 0 {
				return nil
			}
			return ptrPool[i]
		},
		clone: func(a *int) *int { return a },
		alt:   func(_ *rapid.T, a *int) *int { return a },
		mut: func(rt *rapid.T, a *int) (*int, bool) {
			i := poolIndex(a)
			if i < 0 {
				return ptrPool[rapid.IntRange(0, len(ptrPool)-1).Draw(rt, "poolIdx")], true
			}
			if rapid.IntRange(0, 3).Draw(rt, "twin") > 0 {
				return ptrPool[i^1], true // another pointer to an equal target
			}
			return nil, true
		},
		ref: func(a, b *int) bool { return poolIndex(a) == poolIndex(b) },
		show: func(a *int) string {
			if a == nil {
				return "nil"
			}
			return fmt.Sprintf("pool[%d]->%d", poolIndex(a), *a)
		},
	}
}

// ---- structs ----------------------------------------------------------------------------

// point is a comparable value struct for eq.Given.
type point struct {
	X int
	S string
}

func domPoint() dom[point] {
	di, ds := domTinyInt(), domString()
	return valDom(
		func(rt *rapid.T) point { return point{di.gen(rt), ds.gen(rt)} },
		func(rt *rapid.T, a point) point {
			if rapid.Bool().Draw(rt, "x") {
				a.X, _ = di.mut(rt, a.X)
			} else {
				a.S, _ = ds.mut(rt, a.S)
			}
			return a
		},
		func(a point) string { return fmt.Sprintf("{%d %q}", a.X, a.S) })
}

// person is compared through ContraMap on (id, name, tags); note is not part of the key.
type person struct {
	id   int
	name *string
	tags []int
	note string
}

type personKey = fp.Tuple3[int, *string, []int]

func personToKey(p person) personKey { return personKey{I1: p.id, I2: p.name, I3: p.tags} }

func domPerson() dom[person] {
	dk := domTuple3(domTinyInt(), domPtr(domString()), domSliceOf[[]int](domTinyInt()))
	from := func(k personKey, note string) person { return person{id: k.I1, name: k.I2, tags: k.I3, note: note} }
	notes := rapid.SampledFrom([]string{"", "n1", "n2"})
	return dom[person]{
		gen:   func(rt *rapid.T) person { return from(dk.gen(rt), notes.Draw(rt, "note")) },
		clone: func(a person) person { return from(dk.clone(personToKey(a)), a.note) },
		alt:   func(rt *rapid.T, a person) person { return from(dk.alt(rt, personToKey(a)), notes.Draw(rt, "note")) },
		mut: func(rt *rapid.T, a person) (person, bool) {
			k, ok := dk.mut(rt, personToKey(a))
			return from(k, a.note), ok
		},
		ref:  func(a, b person) bool { return dk.ref(personToKey(a), personToKey(b)) },
		show: func(a person) string { return dk.show(personToKey(a)) + "#" + a.note },
	}
}

// node: recursive type whose instances are tied with lazy.Call.
type node struct {
	v    int
	next *node
}

func nodeFromList(xs []int) node {
	var next *node
	for i := len(xs) - 1; i >= 1; i-- {
		next = &node{v: xs[i], next: next}
	}
	return node{v: xs[0], next: next}
}

func nodeToList(n node) []int {
	xs := []int{n.v}
	for p := n.next; p != nil; p = p.next {
		xs = append(xs, p.v)
	}
	return xs
}

func domNode() dom[node] {
	ds := domSliceOf[[]int](domTinyInt())
	nonEmpty := func(rt *rapid.T, xs []int) []int {
		if len(xs) == 0 {
			return []int{kit.TinyInt().Draw(rt, "v")}
		}
		return xs
	}
	return dom[node]{
		gen:   func(rt *rapid.T) node { return nodeFromList(nonEmpty(rt, ds.gen(rt))) },
		clone: func(a node) node { return nodeFromList(nodeToList(a)) },
		alt:   func(_ *rapid.T, a node) node { return nodeFromList(nodeToList(a)) },
		mut: func(rt *rapid.T, a node) (node, bool) {
			xs := nodeToList(a)
			for i := 0; i < 10; i++ {
				if ys, _ := ds.mut(rt, xs); len(ys) > 0 {
					return nodeFromList(ys), true
				}
			}
			return nodeFromList(append(xs, 0)), true
		},
		ref:  func(a, b node) bool { return ds.ref(nodeToList(a), nodeToList(b)) },
		show: func(a node) string { return "list" + ds.show(nodeToList(a)) },
	}
}

// ---- quotient domain: ints compared by absolute value ------------------------------------

func absInt(x int) int {
	if x < 0 {
		return -x
	}
	return x
}

// domAbs: ints where x and -x are two representations of one value.
func domAbs() dom[int] {
	return dom[int]{
		gen:   func(rt *rapid.T) int { return rapid.IntRange(-6, 6).Draw(rt, "int") },
		clone: func(a int) int { return a },
		alt: func(rt *rapid.T, a int) int {
			if rapid.Bool().Draw(rt, "neg") {
				return -a
			}
			return a
		},
		mut: func(rt *rapid.T, a int) (int, bool) {
			b := absInt(a) + rapid.IntRange(1, 3).Draw(rt, "delta")
			if rapid.Bool().Draw(rt, "neg") {
				b = -b
			}
			return b, true
		},
		ref:  func(a, b int) bool { return absInt(a) == absInt(b) },
		show: strconv.Itoa,
	}
}

// ---- tuples of ints at every arity (used by the generated file) ---------------------------

// modInst is a position-specific instance: ints are equal iff congruent modulo m.
type modInst struct{ m int }

func pmod(x, m int) int { return ((x % m) + m) % m }

func (i modInst) Eqv(a, b int) bool { return pmod(a, i.m) == pmod(b, i.m) }
func (i modInst) Hash(a int) uint32 { return uint32(pmod(a, i.m)*7 + i.m) }

// wireMod is the modulus of the instance passed at (0-based) position p.
func wireMod(p int) int { return p + 2 }

// tupleDom: an arity-n tuple of ints seen through mk/un. With wiring=false the
// components are compared with ==; with wiring=true position p is compared modulo
// wireMod(p), so that an instance handed to the wrong position changes the verdict.
func tupleDom[T any](n int, mk func([]int) T, un func(T) []int, wiring bool) dom[T] {
	same := func(p, x, y int) bool {
		if wiring {
			return pmod(x, wireMod(p)) == pmod(y, wireMod(p))
		}
		return x == y
	}
	return dom[T]{
		gen: func(rt *rapid.T) T {
			v := make([]int, n)
			for i := range v {
				v[i] = kit.TinyInt().Draw(rt, "c")
			}
			return mk(v)
		},
		clone: func(a T) T { return mk(append([]int(nil), un(a)...)) },
		alt: func(rt *rapid.T, a T) T {
			v := append([]int(nil), un(a)...)
			if wiring {
				for i := 0; i < 2; i++ { // congruent, not identical, at up to two positions
					p := rapid.IntRange(0, n-1).Draw(rt, "pos")
					v[p] += wireMod(p) * rapid.IntRange(-2, 2).Draw(rt, "k")
				}
			}
			return mk(v)
		},
		mut: func(rt *rapid.T, a T) (T, bool) {
			v := append([]int(nil), un(a)...)
			p := rapid.IntRange(0, n-1).Draw(rt, "pos") // uniform over positions
			d := rapid.SampledFrom([]int{1, -1}).Draw(rt, "delta")
			if !wiring && rapid.IntRange(0, 3).Draw(rt, "swapIn") == 0 {
				// take the value of a neighbouring position: catches components compared crosswise
				if q := (p + 1) % n; v[q] != v[p] {
					d = v[q] - v[p]
				}
			}
			v[p] += d
			return mk(v), true
		},
		ref: func(a, b T) bool {
			x, y := un(a), un(b)
			for p := range x {
				if !same(p, x[p], y[p]) {
					return false
				}
			}
			return true
		},
		show: func(a T) string { return fmt.Sprint(un(a)) },
	}
}
