package c09

// C09: Eq instances are equivalences and hold exactly when the components are
// pairwise equal; Hashables are such equivalences with a deterministic Hash that
// gives equal hashes to equal values.
//
// Layout: model_test.go   reference model of the value domains (no library Eq/Hash)
//         c09_test.go     laws + catalogue of instances (this file)
//         tuples_gen_test.go  generated: eq.TupleN / hash.TupleN at every arity
//                             (regenerate: cd /verif/harness && go run ./c09/gen)

import (
	"sync"
	"fmt"
	"math"
	"testing"
	"time"

	"github.com/csgura/fp"
	"github.com/csgura/fp/eq"
	"github.com/csgura/fp/hash"
	"github.com/csgura/fp/hlist"
	"github.com/csgura/fp/lazy"
	"pgregory.net/rapid"

	"verifharness/kit"
)

func TestMain(m *testing.M) { kit.Main(m) }

// inst is one instance under test. eqv/hash are the library's functions seen
// through the model type T (identity except for fp.Map, whose model carries its
// content).
type inst[T any] struct {
	name string
	eqv  func(a, b T) bool
	hash func(a T) uint32 // nil: Eq only
	d    dom[T]
}

func eqInst[T any](name string, e fp.Eq[T], d dom[T]) inst[T] {
	return inst[T]{name: name, eqv: e.Eqv, d: d}
}

func hashInst[T any](name string, h fp.Hashable[T], d dom[T]) inst[T] {
	return inst[T]{name: name, eqv: h.Eqv, hash: h.Hash, d: d}
}

// derive draws a value related to a: an independent copy, an equal value in
// another representation, a near-copy differing in exactly one component, or a
// fresh draw. eqHeavy shifts the weights towards equal values.
func derive[T any](rt *rapid.T, d dom[T], a T, eqHeavy bool) (T, string) {
	k := rapid.IntRange(0, 9).Draw(rt, "derive")
	cuts := [3]int{2, 5, 8} // copy <2, alt <5, near <8, fresh
	if eqHeavy {
		cuts = [3]int{3, 8, 9}
	}
	switch {
	case k < cuts[0]:
		b := d.clone(a)
		if !d.ref(a, b) {
			rt.Fatalf("harness self-check: clone of %s is %s, not ref-equal", d.show(a), d.show(b))
		}
		return b, "copy"
	case k < cuts[1]:
		b := d.alt(rt, a)
		if !d.ref(a, b) {
			rt.Fatalf("harness self-check: alt of %s is %s, not ref-equal", d.show(a), d.show(b))
		}
		return b, "alt"
	case k < cuts[2]:
		if b, ok := d.mut(rt, a); ok {
			if d.ref(a, b) {
				rt.Fatalf("harness self-check: near-copy of %s is %s, still ref-equal", d.show(a), d.show(b))
			}
			return b, "near"
		}
	}
	return d.gen(rt), "fresh"
}

func zeroShow[T any](d dom[T]) string {
	var z T
	s := ""
	func() {
		defer func() { _ = recover() }()
		s = d.show(z)
	}()
	return s
}

const ruleDerive = "b (and c) derived from a as independent copy / equal value in another representation (nil vs empty, other pointer, -0.0, other zone, other insertion order) / near-copy differing in exactly one component / fresh draw"

func runLaws[T any](t *testing.T, in inst[T]) {
	t.Helper()
	d := in.d
	zs := zeroShow(d)
	pfx := "C09|" + in.name + "|"

	kit.Check(t, in.name+"/refl", "value a from the instance's generator; Eqv(a,a) must hold; non-trivial iff a is not the zero value of its type; distinct by printed value", kit.Opt{}, func(rt *rapid.T, rec *kit.Rec) {
		a := d.gen(rt)
		sa := d.show(a)
		rec.Case(sa != zs, sa)
		var got bool
		rec.Guard(rt, pfx+"refl", func() { got = in.eqv(a, a) })
		if !got {
			rec.Failf(rt, pfx+"refl", "Eqv(a,a) = false for a = %s", sa)
		}
	})

	kit.Check(t, in.name+"/sym", "pair (a,b), "+ruleDerive+"; Eqv(a,b) == Eqv(b,a); non-trivial iff b was derived from a or is ref-equal to it; distinct by printed pair", kit.Opt{}, func(rt *rapid.T, rec *kit.Rec) {
		a := d.gen(rt)
		b, kind := derive(rt, d, a, false)
		rec.Label(kind)
		rec.Case(kind != "fresh" || d.ref(a, b), d.show(a)+"|"+d.show(b))
		var ab, ba bool
		rec.Guard(rt, pfx+"sym", func() { ab, ba = in.eqv(a, b), in.eqv(b, a) })
		if ab != ba {
			rec.Failf(rt, pfx+"sym", "Eqv(a,b) = %v but Eqv(b,a) = %v for a = %s, b = %s (%s)", ab, ba, d.show(a), d.show(b), kind)
		}
	})

	kit.Check(t, in.name+"/trans", "triple (a,b,c), b derived from a, c from a or b, "+ruleDerive+"; for every ordering (x,y,z) of the triple Eqv(x,y) && Eqv(y,z) => Eqv(x,z); non-trivial iff at least one pair is ref-equal and the three printed forms are not all identical; distinct by printed triple", kit.Opt{}, func(rt *rapid.T, rec *kit.Rec) {
		a := d.gen(rt)
		b, kb := derive(rt, d, a, true)
		from := a
		if rapid.Bool().Draw(rt, "cFromB") {
			from = b
		}
		c, kc := derive(rt, d, from, false)
		rec.Label(kb + "," + kc)
		v := [3]T{a, b, c}
		s := [3]string{d.show(a), d.show(b), d.show(c)}
		anyEq := d.ref(a, b) || d.ref(b, c) || d.ref(a, c)
		rec.Case(anyEq && !(s[0] == s[1] && s[1] == s[2]), s[0]+"|"+s[1]+"|"+s[2])
		var e [3][3]bool
		rec.Guard(rt, pfx+"trans", func() {
			for i := 0; i < 3; i++ {
				for j := 0; j < 3; j++ {
					if i != j {
						e[i][j] = in.eqv(v[i], v[j])
					}
				}
			}
		})
		for _, p := range [][3]int{{0, 1, 2}, {0, 2, 1}, {1, 0, 2}, {1, 2, 0}, {2, 0, 1}, {2, 1, 0}} {
			x, y, z := p[0], p[1], p[2]
			if e[x][y] && e[y][z] && !e[x][z] {
				rec.Failf(rt, pfx+"trans", "Eqv(x,y) and Eqv(y,z) but not Eqv(x,z) for x = %s, y = %s, z = %s", s[x], s[y], s[z])
			}
		}
	})

	kit.Check(t, in.name+"/ref", "pair (a,b), "+ruleDerive+"; Eqv(a,b) must equal the independently written component-wise equality; non-trivial iff b was derived from a or is ref-equal to it; distinct by printed pair", kit.Opt{}, func(rt *rapid.T, rec *kit.Rec) {
		a := d.gen(rt)
		b, kind := derive(rt, d, a, false)
		want := d.ref(a, b)
		rec.Label(fmt.Sprintf("%s,equal=%v", kind, want))
		rec.Case(kind != "fresh" || want, d.show(a)+"|"+d.show(b))
		var got bool
		rec.Guard(rt, pfx+"ref", func() { got = in.eqv(a, b) })
		if got != want {
			rec.Failf(rt, pfx+"ref", "Eqv(a,b) = %v, components pairwise equal = %v, for a = %s, b = %s (%s)", got, want, d.show(a), d.show(b), kind)
		}
	})

	if in.hash == nil {
		return
	}

	kit.Check(t, in.name+"/hash-agree", "pair (a,b), "+ruleDerive+" (weights shifted to equal values); whenever Eqv(a,b) holds, or the components are pairwise equal, Hash(a) == Hash(b); non-trivial iff the components are pairwise equal; distinct by printed pair", kit.Opt{}, func(rt *rapid.T, rec *kit.Rec) {
		a := d.gen(rt)
		b, kind := derive(rt, d, a, true)
		want := d.ref(a, b)
		sa, sb := d.show(a), d.show(b)
		if want && sa != sb {
			rec.Label(kind + ",equal,other-representation")
		} else {
			rec.Label(fmt.Sprintf("%s,equal=%v", kind, want))
		}
		rec.Case(want, sa+"|"+sb)
		var e bool
		var ha, hb uint32
		rec.Guard(rt, pfx+"hash-agree", func() { e, ha, hb = in.eqv(a, b), in.hash(a), in.hash(b) })
		if (e || want) && ha != hb {
			rec.Failf(rt, pfx+"hash-agree", "Hash(a) = %d, Hash(b) = %d although Eqv(a,b) = %v and components pairwise equal = %v, for a = %s, b = %s (%s)", ha, hb, e, want, sa, sb, kind)
		}
	})

	kit.Check(t, in.name+"/hash-det", "value a; Hash(a) twice and Hash of an independently built structurally identical copy must coincide; non-trivial iff a is not the zero value of its type; distinct by printed value", kit.Opt{}, func(rt *rapid.T, rec *kit.Rec) {
		a := d.gen(rt)
		sa := d.show(a)
		rec.Case(sa != zs, sa)
		cp := d.clone(a)
		var h1, h2, h3 uint32
		rec.Guard(rt, pfx+"hash-det", func() { h1, h3, h2 = in.hash(a), in.hash(cp), in.hash(a) })
		if h1 != h2 || h1 != h3 {
			rec.Failf(rt, pfx+"hash-det", "Hash(a) = %d, again = %d, Hash(copy of a) = %d for a = %s", h1, h2, h3, sa)
		}
	})

	// An instance is a value shared by everything that uses it (the immutable map hashes from whatever
	// goroutine reads it): Hash must be the same function when several goroutines call it at once.
	// Real goroutines, so a miss proves nothing; a mismatch is a violation (the expected hashes are computed
	// sequentially beforehand from the same instance).
	kit.Check(t, in.name+"/hash-concurrent", "3..6 values; their hashes computed sequentially, then G in 2..8 goroutines released together hash the same values 300 times each in rotating order; every result must equal the sequential one; non-trivial iff G >= 4 and some value is not the zero value; distinct by (G, printed values)", kit.Opt{Weight: 0.15}, func(rt *rapid.T, rec *kit.Rec) {
		n := rapid.IntRange(3, 6).Draw(rt, "n")
		G := rapid.IntRange(2, 8).Draw(rt, "G")
		vals := make([]T, n)
		shown := make([]string, n)
		nonZero := false
		for i := range vals {
			vals[i] = d.gen(rt)
			shown[i] = d.show(vals[i])
			nonZero = nonZero || shown[i] != zs
		}
		rec.Case(G >= 4 && nonZero, fmt.Sprintf("G=%d %v", G, shown))
		want := make([]uint32, n)
		rec.Guard(rt, pfx+"hash-concurrent", func() {
			for i := range vals {
				want[i] = in.hash(vals[i])
			}
		})
		type miss struct {
			g, i int
			got  uint32
			pv   any
		}
		misses := make([]*miss, G)
		start := make(chan struct{})
		var wg sync.WaitGroup
		for g := 0; g < G; g++ {
			wg.Add(1)
			go func(g int) {
				defer wg.Done()
				defer func() {
					if r := recover(); r != nil && misses[g] == nil {
						misses[g] = &miss{g: g, i: -1, pv: r}
					}
				}()
				<-start
				for k := 0; k < 300; k++ {
					i := (g + k) % n
					if h := in.hash(vals[i]); h != want[i] && misses[g] == nil {
						misses[g] = &miss{g: g, i: i, got: h}
					}
				}
			}(g)
		}
		close(start)
		wg.Wait()
		for _, m := range misses {
			if m == nil {
				continue
			}
			if m.i < 0 {
				rec.Failf(rt, pfx+"hash-concurrent", "goroutine %d of %d panicked while hashing concurrently: %v", m.g, G, m.pv)
			}
			rec.Failf(rt, pfx+"hash-concurrent", "goroutine %d of %d got Hash(%s) = %d while other goroutines were hashing; sequentially it is %d", m.g, G, shown[m.i], m.got, want[m.i])
		}
	})
}

// runTuple is called from the generated file once per arity with instances built by
// eq.TupleN / hash.TupleN: e,h from == / hash.Number[int] at every position, ew,hw
// from the position-specific instances modInst{wireMod(p)}.
func runTuple[T any](t *testing.T, n int, e, ew fp.Eq[T], h, hw fp.Hashable[T], mk func([]int) T, un func(T) []int) {
	t.Helper()
	plain, wired := tupleDom(n, mk, un, false), tupleDom(n, mk, un, true)
	en, hn := fmt.Sprintf("eq.Tuple%d", n), fmt.Sprintf("hash.Tuple%d", n)
	runLaws(t, eqInst(en, e, plain))
	runLaws(t, hashInst(hn, h, plain))

	rule := "pair (a,b) of int tuples, b a copy / congruent at up to two positions / off by one at one uniformly drawn position; position p carries the instance 'equal modulo p+2', so the verdict changes when an instance is wired to another position; non-trivial iff b derived from a; distinct by printed pair"
	kit.Check(t, en+"/wiring", rule, kit.Opt{}, func(rt *rapid.T, rec *kit.Rec) {
		a := wired.gen(rt)
		b, kind := derive(rt, wired, a, false)
		want := wired.ref(a, b)
		rec.Label(fmt.Sprintf("%s,equal=%v", kind, want))
		rec.Case(kind != "fresh" || want, wired.show(a)+"|"+wired.show(b))
		var got bool
		rec.Guard(rt, "C09|"+en+"|wiring", func() { got = ew.Eqv(a, b) })
		if got != want {
			rec.Failf(rt, "C09|"+en+"|wiring", "Eqv(a,b) = %v, want %v (position p compared modulo p+2) for a = %s, b = %s", got, want, wired.show(a), wired.show(b))
		}
	})
	kit.Check(t, hn+"/wiring", rule+"; additionally equal tuples must have equal hashes", kit.Opt{}, func(rt *rapid.T, rec *kit.Rec) {
		a := wired.gen(rt)
		b, kind := derive(rt, wired, a, true)
		want := wired.ref(a, b)
		rec.Label(fmt.Sprintf("%s,equal=%v", kind, want))
		rec.Case(kind != "fresh" || want, wired.show(a)+"|"+wired.show(b))
		var got bool
		var ha, hb uint32
		rec.Guard(rt, "C09|"+hn+"|wiring", func() { got, ha, hb = hw.Eqv(a, b), hw.Hash(a), hw.Hash(b) })
		if got != want {
			rec.Failf(rt, "C09|"+hn+"|wiring", "Eqv(a,b) = %v, want %v (position p compared modulo p+2) for a = %s, b = %s", got, want, wired.show(a), wired.show(b))
		}
		if want && ha != hb {
			rec.Failf(rt, "C09|"+hn+"|wiring", "Hash(a) = %d, Hash(b) = %d for tuples equal position-wise modulo p+2: a = %s, b = %s", ha, hb, wired.show(a), wired.show(b))
		}
	})
}

// ---- numeric generators -------------------------------------------------------------

func edgy[T fp.ImplicitNum](full *rapid.Generator[T], edges ...T) *rapid.Generator[T] {
	e := rapid.SampledFrom(edges)
	return rapid.OneOf(e, e, full)
}

func negZero[T fp.ImplicitFloat](a T) T {
	if a == 0 {
		return -a // 0.0 <-> -0.0
	}
	return a
}

func float64Gen() *rapid.Generator[float64] {
	return edgy(rapid.Float64().Filter(func(f float64) bool { return f == f }),
		0, math.Copysign(0, -1), 1, -1, 0.5, -0.5, 2.5, 1e300, -1e300, math.Inf(1), math.Inf(-1),
		math.SmallestNonzeroFloat64, math.MaxFloat64, 4294967295, 4294967296, 9223372036854775808, 18446744073709551615, -4294967296)
}

func float32Gen() *rapid.Generator[float32] {
	return edgy(rapid.Float32().Filter(func(f float32) bool { return f == f }),
		0, float32(math.Copysign(0, -1)), 1, -1, 0.5, 2.5, float32(math.Inf(1)), float32(math.Inf(-1)),
		math.SmallestNonzeroFloat32, math.MaxFloat32, 4294967296, -4294967296)
}

// ---- catalogue ------------------------------------------------------------------------

type myInt int

var (
	intEq   = eq.Given[int]()
	intHash = hash.Number[int]()
)

type hl1 = hlist.Cons[int, hlist.Nil]
type hl3 = hlist.Cons[int, hlist.Cons[string, hlist.Cons[*int, hlist.Nil]]]

func domHL1() dom[hl1] { return domHCons(domInt(), domHNil()) }
func domHL3() dom[hl3] {
	return domHCons(domInt(), domHCons(domString(), domHCons(domPtr(domInt()), domHNil())))
}

func TestEq(t *testing.T) {
	runLaws(t, eqInst("eq.Given[int]", eq.Given[int](), domInt()))
	runLaws(t, eqInst("eq.Given[string]", eq.Given[string](), domString()))
	runLaws(t, eqInst("eq.Given[bool]", eq.Given[bool](), domBool()))
	runLaws(t, eqInst("eq.Given[float64]", eq.Given[float64](), numDom(float64Gen(), negZero[float64])))
	runLaws(t, eqInst("eq.Given[struct]", eq.Given[point](), domPoint()))
	runLaws(t, eqInst("eq.Given[*int]", eq.Given[*int](), domPtrIdentity()))
	runLaws(t, eqInst("eq.String", eq.String, domString()))
	runLaws(t, eqInst("eq.Bytes", eq.Bytes, domBytes()))
	runLaws(t, eqInst("eq.Time", eq.Time, domTime()))
	runLaws(t, eqInst("eq.New", eq.New(func(a, b int) bool { return absInt(a) == absInt(b) }), domAbs()))
	runLaws(t, eqInst("eq.Option", eq.Option(intEq), domOpt(domInt())))
	runLaws(t, eqInst("eq.Seq", eq.Seq(intEq), domSliceOf[fp.Seq[int]](domTinyInt())))
	runLaws(t, eqInst("eq.Slice", eq.Slice(eq.String), domSliceOf[[]string](domString())))
	runLaws(t, eqInst("eq.Ptr(Done)", eq.Ptr(lazy.Done(eq.String)), domPtr(domString())))
	runLaws(t, eqInst("eq.Ptr(Call)", eq.Ptr(lazy.Call(func() fp.Eq[int] { return intEq })), domPtr(domInt())))
	runLaws(t, eqInst("eq.PtrGiven", eq.PtrGiven[int](), domPtr(domInt())))
	runLaws(t, eqInst("eq.GoMap", eq.GoMap[int](eq.String), domGoMap(rapid.IntRange(0, 7), domString())))
	runLaws(t, eqInst("eq.GoMap[string]", eq.GoMap[string](intEq), domGoMap(kit.SmallString(), domTinyInt())))
	{
		e := eq.FpMap[int](eq.String)
		runLaws(t, inst[fmapM[string]]{name: "eq.FpMap", eqv: func(a, b fmapM[string]) bool { return e.Eqv(a.m, b.m) }, d: domFpMap(domString())})
	}
	runLaws(t, eqInst("eq.Tuple1(String)", eq.Tuple1(eq.String), dom1(domString())))
	runLaws(t, eqInst("eq.HNil", eq.HNil, domHNil()))
	runLaws(t, eqInst("eq.HCons(1)", eq.HCons(intEq, eq.HNil), domHL1()))
	runLaws(t, eqInst("eq.HCons(3)", eq.HCons(intEq, eq.HCons(eq.String, eq.HCons(eq.PtrGiven[int](), eq.HNil))), domHL3()))
	runLaws(t, eqInst("eq.ContraMap(abs)", eq.ContraMap(intEq, absInt), domAbs()))
	runLaws(t, eqInst("eq.ContraMap(struct)", eq.ContraMap(eq.Tuple3(intEq, eq.PtrGiven[string](), eq.Slice(intEq)), personToKey), domPerson()))

	// curried forms of Given / PtrGiven
	runLaws(t, inst[int]{name: "eq.GivenValue", eqv: func(a, b int) bool { return eq.GivenValue(a)(b) }, d: domInt()})
	runLaws(t, inst[*int]{name: "eq.GivenPtr", eqv: func(a, b *int) bool { return eq.GivenPtr(a)(b) }, d: domPtr(domInt())})
	getX := func(p point) int { return p.X }
	runLaws(t, inst[point]{name: "eq.GivenFieldValue", eqv: func(a, b point) bool { return eq.GivenFieldValue(getX, a.X)(b) },
		d: projDom(domPoint(), func(p point) int { return p.X }, domTinyInt(), func(p point, x int) point { p.X = x; return p })})
	type holder struct {
		p    *int
		note string
	}
	getP := func(h holder) *int { return h.p }
	dp := domPtr(domInt())
	hd := dom[holder]{
		gen:   func(rt *rapid.T) holder { return holder{dp.gen(rt), kit.SmallString().Draw(rt, "note")} },
		clone: func(a holder) holder { return holder{dp.clone(a.p), a.note} },
		alt:   func(rt *rapid.T, a holder) holder { return holder{dp.alt(rt, a.p), kit.SmallString().Draw(rt, "note")} },
		mut: func(rt *rapid.T, a holder) (holder, bool) {
			p, ok := dp.mut(rt, a.p)
			return holder{p, a.note}, ok
		},
		ref:  func(a, b holder) bool { return dp.ref(a.p, b.p) },
		show: func(a holder) string { return dp.show(a.p) + "#" + a.note },
	}
	runLaws(t, inst[holder]{name: "eq.GivenFieldPtr", eqv: func(a, b holder) bool { return eq.GivenFieldPtr(getP, a.p)(b) }, d: hd})
}

// dom1 lifts a domain to fp.Tuple1.
func dom1[A any](d dom[A]) dom[fp.Tuple1[A]] {
	type tt = fp.Tuple1[A]
	return dom[tt]{
		gen:   func(rt *rapid.T) tt { return tt{I1: d.gen(rt)} },
		clone: func(a tt) tt { return tt{I1: d.clone(a.I1)} },
		alt:   func(rt *rapid.T, a tt) tt { return tt{I1: d.alt(rt, a.I1)} },
		mut: func(rt *rapid.T, a tt) (tt, bool) {
			v, ok := d.mut(rt, a.I1)
			return tt{I1: v}, ok
		},
		ref:  func(a, b tt) bool { return d.ref(a.I1, b.I1) },
		show: func(a tt) string { return "(" + d.show(a.I1) + ")" },
	}
}

// projDom: structs S compared through one field F only; the other fields are
// representation.
func projDom[S, F any](ds dom[S], get func(S) F, df dom[F], set func(S, F) S) dom[S] {
	return dom[S]{
		gen:   ds.gen,
		clone: ds.clone,
		alt:   func(rt *rapid.T, a S) S { return set(ds.gen(rt), df.alt(rt, get(a))) },
		mut: func(rt *rapid.T, a S) (S, bool) {
			f, ok := df.mut(rt, get(a))
			return set(ds.clone(a), f), ok
		},
		ref:  func(a, b S) bool { return df.ref(get(a), get(b)) },
		show: ds.show,
	}
}

func TestHash(t *testing.T) {
	runLaws(t, hashInst("hash.Number[int]", hash.Number[int](), numDom(edgy(rapid.Int(), 0, 1, -1, 2, math.MaxInt, math.MinInt, 1<<32, 1<<32-1, 1<<32+1, -(1<<32), 1<<33), nil)))
	runLaws(t, hashInst("hash.Number[int8]", hash.Number[int8](), numDom(edgy(rapid.Int8(), 0, 1, -1, math.MaxInt8, math.MinInt8), nil)))
	runLaws(t, hashInst("hash.Number[int16]", hash.Number[int16](), numDom(edgy(rapid.Int16(), 0, 1, -1, math.MaxInt16, math.MinInt16), nil)))
	runLaws(t, hashInst("hash.Number[int32]", hash.Number[int32](), numDom(edgy(rapid.Int32(), 0, 1, -1, math.MaxInt32, math.MinInt32), nil)))
	runLaws(t, hashInst("hash.Number[int64]", hash.Number[int64](), numDom(edgy(rapid.Int64(), 0, 1, -1, math.MaxInt64, math.MinInt64, 1<<32, 1<<32-1), nil)))
	runLaws(t, hashInst("hash.Number[uint]", hash.Number[uint](), numDom(edgy(rapid.Uint(), 0, 1, 2, math.MaxUint, 1<<32, 1<<32-1), nil)))
	runLaws(t, hashInst("hash.Number[uint8]", hash.Number[uint8](), numDom(edgy(rapid.Uint8(), 0, 1, math.MaxUint8), nil)))
	runLaws(t, hashInst("hash.Number[uint16]", hash.Number[uint16](), numDom(edgy(rapid.Uint16(), 0, 1, math.MaxUint16), nil)))
	runLaws(t, hashInst("hash.Number[uint32]", hash.Number[uint32](), numDom(edgy(rapid.Uint32(), 0, 1, math.MaxUint32), nil)))
	runLaws(t, hashInst("hash.Number[uint64]", hash.Number[uint64](), numDom(edgy(rapid.Uint64(), 0, 1, math.MaxUint64, 1<<32, 1<<32-1, 1<<63), nil)))
	runLaws(t, hashInst("hash.Number[uintptr]", hash.Number[uintptr](), numDom(edgy(rapid.Uintptr(), 0, 1, math.MaxUint64, 1<<32), nil)))
	runLaws(t, hashInst("hash.Number[float32]", hash.Number[float32](), numDom(float32Gen(), negZero[float32])))
	runLaws(t, hashInst("hash.Number[float64]", hash.Number[float64](), numDom(float64Gen(), negZero[float64])))
	runLaws(t, hashInst("hash.Number[named]", hash.Number[myInt](), numDom(edgy(rapid.Map(rapid.Int(), func(i int) myInt { return myInt(i) }), 0, 1, -1, math.MaxInt, math.MinInt), nil)))
	runLaws(t, hashInst("hash.String", hash.String, domString()))
	runLaws(t, hashInst("hash.Bytes", hash.Bytes, domBytes()))
	runLaws(t, hashInst("hash.New", hash.New(eq.New(func(a, b int) bool { return absInt(a) == absInt(b) }), func(a int) uint32 { return uint32(absInt(a)) * 31 }), domAbs()))
	runLaws(t, hashInst("hash.Option", hash.Option(intHash), domOpt(domInt())))
	runLaws(t, hashInst("hash.Option(float)", hash.Option(hash.Number[float64]()), domOpt(numDom(float64Gen(), negZero[float64]))))
	runLaws(t, hashInst("hash.Seq", hash.Seq(intHash), domSliceOf[fp.Seq[int]](domTinyInt())))
	runLaws(t, hashInst("hash.Slice", hash.Slice(hash.String), domSliceOf[[]string](domString())))
	runLaws(t, hashInst("hash.Ptr(Done)", hash.Ptr(lazy.Done(hash.String)), domPtr(domString())))
	runLaws(t, hashInst("hash.Ptr(Call)", hash.Ptr(lazy.Call(func() fp.Hashable[int] { return intHash })), domPtr(domInt())))
	runLaws(t, hashInst("hash.Tuple1(String)", hash.Tuple1(hash.String), dom1(domString())))
	runLaws(t, hashInst("hash.HNil", hash.HNil, domHNil()))
	runLaws(t, hashInst("hash.HCons(1)", hash.HCons(intHash, hash.HNil), domHL1()))
	runLaws(t, hashInst("hash.HCons(3)", hash.HCons(intHash, hash.HCons(hash.String, hash.HCons(hash.Ptr(lazy.Done(intHash)), hash.HNil))), domHL3()))
	runLaws(t, hashInst("hash.ContraMap(abs)", hash.ContraMap(intHash, absInt), domAbs()))
	runLaws(t, hashInst("hash.ContraMap(struct)", hash.ContraMap(hash.Tuple3(intHash, hash.Ptr(lazy.Done(hash.String)), hash.Slice(intHash)), personToKey), domPerson()))
}

// ---- nested combinators (depth 3 and more) ------------------------------------------------

func TestNested(t *testing.T) {
	// Option[Seq[Tuple2[int,*string]]]
	type t2 = fp.Tuple2[int, *string]
	dOST := domOpt(domSliceOf[fp.Seq[t2]](domTuple2(domTinyInt(), domPtr(domString()))))
	runLaws(t, eqInst("eq.Option(Seq(Tuple2(int.PtrString)))", eq.Option(eq.Seq(eq.Tuple2(intEq, eq.PtrGiven[string]()))), dOST))
	runLaws(t, hashInst("hash.Option(Seq(Tuple2(int.PtrString)))", hash.Option(hash.Seq(hash.Tuple2(intHash, hash.Ptr(lazy.Done(hash.String))))), dOST))

	// []Option[[]byte]
	dSOB := domSliceOf[[]fp.Option[[]byte]](domOpt(domBytes()))
	runLaws(t, eqInst("eq.Slice(Option(Bytes))", eq.Slice(eq.Option(eq.Bytes)), dSOB))
	runLaws(t, hashInst("hash.Slice(Option(Bytes))", hash.Slice(hash.Option(hash.Bytes)), dSOB))

	// ***int
	dPPP := domPtr(domPtr(domPtr(domTinyInt())))
	runLaws(t, eqInst("eq.Ptr(Ptr(Ptr(int)))", eq.Ptr(lazy.Done(eq.Ptr(lazy.Done(eq.PtrGiven[int]())))), dPPP))
	runLaws(t, hashInst("hash.Ptr(Ptr(Ptr(int)))", hash.Ptr(lazy.Done(hash.Ptr(lazy.Done(hash.Ptr(lazy.Done(intHash)))))), dPPP))

	// map[string]Seq[Option[int]] and fp.Map[int, Option[Seq[int]]]
	dSO := domSliceOf[fp.Seq[fp.Option[int]]](domOpt(domTinyInt()))
	runLaws(t, eqInst("eq.GoMap(Seq(Option(int)))", eq.GoMap[string](eq.Seq(eq.Option(intEq))), domGoMap(kit.SmallString(), dSO)))
	{
		dOS := domOpt(domSliceOf[fp.Seq[int]](domTinyInt()))
		e := eq.FpMap[int](eq.Option(eq.Seq(intEq)))
		type mm = fmapM[fp.Option[fp.Seq[int]]]
		runLaws(t, inst[mm]{name: "eq.FpMap(Option(Seq(int)))", eqv: func(a, b mm) bool { return e.Eqv(a.m, b.m) }, d: domFpMap(dOS)})
	}
	// Seq[time.Time], Option[map[int]time.Time]
	runLaws(t, eqInst("eq.Seq(Time)", eq.Seq(eq.Time), domSliceOf[fp.Seq[time.Time]](domTime())))
	runLaws(t, eqInst("eq.Option(GoMap(Time))", eq.Option(eq.GoMap[int](eq.Time)), domOpt(domGoMap(rapid.IntRange(0, 4), domTime()))))

	// HCons chain with nested heads
	type hn = hlist.Cons[fp.Option[fp.Seq[int]], hlist.Cons[*t2, hlist.Cons[[]byte, hlist.Nil]]]
	dHN := domHCons(domOpt(domSliceOf[fp.Seq[int]](domTinyInt())), domHCons(domPtr(domTuple2(domTinyInt(), domPtr(domString()))), domHCons(domBytes(), domHNil())))
	var _ dom[hn] = dHN
	runLaws(t, eqInst("eq.HCons(Option(Seq).Ptr(Tuple2).Bytes)",
		eq.HCons(eq.Option(eq.Seq(intEq)), eq.HCons(eq.Ptr(lazy.Done(eq.Tuple2(intEq, eq.PtrGiven[string]()))), eq.HCons(eq.Bytes, eq.HNil))), dHN))
	runLaws(t, hashInst("hash.HCons(Option(Seq).Ptr(Tuple2).Bytes)",
		hash.HCons(hash.Option(hash.Seq(intHash)), hash.HCons(hash.Ptr(lazy.Done(hash.Tuple2(intHash, hash.Ptr(lazy.Done(hash.String))))), hash.HCons(hash.Bytes, hash.HNil))), dHN))

	// Tuple3 of containers
	dT3 := domTuple3(domOpt(domString()), domSliceOf[[]*int](domPtr(domTinyInt())), domHL1())
	runLaws(t, eqInst("eq.Tuple3(Option.Slice(Ptr).HCons)", eq.Tuple3(eq.Option(eq.String), eq.Slice(eq.PtrGiven[int]()), eq.HCons(intEq, eq.HNil)), dT3))
	runLaws(t, hashInst("hash.Tuple3(Option.Slice(Ptr).HCons)", hash.Tuple3(hash.Option(hash.String), hash.Slice(hash.Ptr(lazy.Done(intHash))), hash.HCons(intHash, hash.HNil)), dT3))

	// recursive type: instance refers to itself through Ptr(lazy.Call)
	nodeKey := func(n node) fp.Tuple2[int, *node] { return fp.Tuple2[int, *node]{I1: n.v, I2: n.next} }
	var nodeEq fp.Eq[node]
	nodeEq = eq.ContraMap(eq.Tuple2(intEq, eq.Ptr(lazy.Call(func() fp.Eq[node] { return nodeEq }))), nodeKey)
	runLaws(t, eqInst("eq.ContraMap(Tuple2(int.Ptr(rec)))", nodeEq, domNode()))
	var nodeHash fp.Hashable[node]
	nodeHash = hash.ContraMap(hash.Tuple2(intHash, hash.Ptr(lazy.Call(func() fp.Hashable[node] { return nodeHash }))), nodeKey)
	runLaws(t, hashInst("hash.ContraMap(Tuple2(int.Ptr(rec)))", nodeHash, domNode()))

	// Seq of float options: -0.0 inside containers
	dSF := domSliceOf[fp.Seq[fp.Option[float64]]](domOpt(numDom(float64Gen(), negZero[float64])))
	runLaws(t, hashInst("hash.Seq(Option(float64))", hash.Seq(hash.Option(hash.Number[float64]())), dSF))
}

// wireEq / wireHash: the position-specific instances handed to TupleN by the generated file.
func wireEq(p int) fp.Eq[int]         { return modInst{wireMod(p)} }
func wireHash(p int) fp.Hashable[int] { return modInst{wireMod(p)} }
