package c17

import (
	"errors"
	"fmt"
	"testing"

	"github.com/csgura/fp"
	"github.com/csgura/fp/try"
	"pgregory.net/rapid"

	"verifharness/kit"
)

// One scenario is pushed through every Recover* method of fp.StateT:
//
//	inner   a raw one-step program: value fv(s) or failure Errs[e], state fs(s) (a failing step has written the state)
//	pred    table predicate over the error's index (only the *Case* variants use it)
//	hv/hf   the plain handlers return errIdx*10+hv (+7*state when they are given the state); the T variants fail with Errs[5+hf] when hf >= 0
//	h2      the StateT-returning handlers return this second raw step (value + errIdx*10), run from the state they are given
type recScen struct {
	s0    int
	inner base
	pred  kit.Pred
	hv    int
	hf    int
	h2    base
}

func (sc recScen) String() string {
	return fmt.Sprintf("s0=%d inner=%v pred=%v hv=%d hf=%d h2=%v", sc.s0, sc.inner, sc.pred, sc.hv, sc.hf, sc.h2)
}

// recObs is what the handlers observed.
type recObs struct {
	calls      int
	errs       []error
	states     []int // states handed to the handler (state-exposing variants only)
	predCalls  int
	predErrs   []error
	h2calls    int
	innerCalls int
}

type recVariant struct {
	name    string
	exposes bool // handler observes a state
	hasPred bool
	apply   func(inner fp.StateT[int, int], sc recScen, o *recObs) fp.StateT[int, int]
	// handled: expected outcome once the handler is invoked for error index e in post-failure state ns
	handled func(sc recScen, e, ns int) res[int, int]
}

func (sc recScen) hval(e int) int { return e*10 + sc.hv }

func (sc recScen) plainT(v int, ns int) res[int, int] {
	if sc.hf >= 0 {
		return failRes[int, int](kit.Errs[5+sc.hf], ns)
	}
	return okRes(v, ns)
}

func (sc recScen) withH2(e, ns int) res[int, int] {
	r := sc.h2.ref(ns)
	if r.ok {
		r.v += e * 10
	}
	return r
}

func recVariants() []recVariant {
	predF := func(sc recScen, o *recObs) func(error) bool {
		return func(err error) bool {
			o.predCalls++
			o.predErrs = append(o.predErrs, err)
			return sc.pred.Call(errIdx(err))
		}
	}
	plain := func(sc recScen, o *recObs) func(error) int {
		return func(err error) int {
			o.calls++
			o.errs = append(o.errs, err)
			return sc.hval(errIdx(err))
		}
	}
	plainT := func(sc recScen, o *recObs) func(error) fp.Try[int] {
		return func(err error) fp.Try[int] {
			o.calls++
			o.errs = append(o.errs, err)
			if sc.hf >= 0 {
				return try.Failure[int](kit.Errs[5+sc.hf])
			}
			return try.Success(sc.hval(errIdx(err)))
		}
	}
	withSt := func(sc recScen, o *recObs) func(error) fp.StateT[int, int] {
		return func(err error) fp.StateT[int, int] {
			o.calls++
			o.errs = append(o.errs, err)
			e := errIdx(err)
			return func(s int) (fp.Try[int], int) {
				o.states = append(o.states, s)
				return rawMap(sc.h2.st(&o.h2calls), func(v int) int { return v + e*10 })(s)
			}
		}
	}
	return []recVariant{
		{name: "Recover",
			apply: func(in fp.StateT[int, int], sc recScen, o *recObs) fp.StateT[int, int] {
				return in.Recover(plain(sc, o))
			},
			handled: func(sc recScen, e, ns int) res[int, int] { return okRes(sc.hval(e), ns) }},
		{name: "RecoverT",
			apply: func(in fp.StateT[int, int], sc recScen, o *recObs) fp.StateT[int, int] {
				return in.RecoverT(plainT(sc, o))
			},
			handled: func(sc recScen, e, ns int) res[int, int] { return sc.plainT(sc.hval(e), ns) }},
		{name: "RecoverWithState", exposes: true,
			apply: func(in fp.StateT[int, int], sc recScen, o *recObs) fp.StateT[int, int] {
				return in.RecoverWithState(func(s int, err error) int {
					o.calls++
					o.errs = append(o.errs, err)
					o.states = append(o.states, s)
					return s*7 + sc.hval(errIdx(err))
				})
			},
			handled: func(sc recScen, e, ns int) res[int, int] { return okRes(ns*7+sc.hval(e), ns) }},
		{name: "RecoverWithStateT", exposes: true,
			apply: func(in fp.StateT[int, int], sc recScen, o *recObs) fp.StateT[int, int] {
				return in.RecoverWithStateT(func(s int, err error) fp.Try[int] {
					o.calls++
					o.errs = append(o.errs, err)
					o.states = append(o.states, s)
					if sc.hf >= 0 {
						return try.Failure[int](kit.Errs[5+sc.hf])
					}
					return try.Success(s*7 + sc.hval(errIdx(err)))
				})
			},
			handled: func(sc recScen, e, ns int) res[int, int] { return sc.plainT(ns*7+sc.hval(e), ns) }},
		{name: "RecoverWith", exposes: true,
			apply: func(in fp.StateT[int, int], sc recScen, o *recObs) fp.StateT[int, int] {
				return in.RecoverWith(withSt(sc, o))
			},
			handled: func(sc recScen, e, ns int) res[int, int] { return sc.withH2(e, ns) }},
		{name: "RecoverCase", hasPred: true,
			apply: func(in fp.StateT[int, int], sc recScen, o *recObs) fp.StateT[int, int] {
				return in.RecoverCase(predF(sc, o), plain(sc, o))
			},
			handled: func(sc recScen, e, ns int) res[int, int] { return okRes(sc.hval(e), ns) }},
		{name: "RecoverCaseT", hasPred: true,
			apply: func(in fp.StateT[int, int], sc recScen, o *recObs) fp.StateT[int, int] {
				return in.RecoverCaseT(predF(sc, o), plainT(sc, o))
			},
			handled: func(sc recScen, e, ns int) res[int, int] { return sc.plainT(sc.hval(e), ns) }},
		{name: "RecoverCaseWith", exposes: true, hasPred: true,
			apply: func(in fp.StateT[int, int], sc recScen, o *recObs) fp.StateT[int, int] {
				return in.RecoverCaseWith(predF(sc, o), withSt(sc, o))
			},
			handled: func(sc recScen, e, ns int) res[int, int] { return sc.withH2(e, ns) }},
	}
}

func genRecScen(rt *rapid.T, innerFails bool) recScen {
	sc := recScen{s0: genState().Draw(rt, "s0")}
	sc.inner = genBase(rt, "inner", false)
	if innerFails {
		sc.inner.fail = rapid.IntRange(0, 4).Draw(rt, "err")
	}
	sc.pred = kit.PredGen().Draw(rt, "pred")
	sc.hv = rapid.IntRange(0, 9).Draw(rt, "hv")
	sc.hf = rapid.IntRange(-3, 2).Draw(rt, "hf")
	sc.h2 = genBase(rt, "h2", true)
	if sc.h2.fail >= 0 {
		sc.h2.fail += 5 // never the injected error
	}
	return sc
}

func TestRecover(t *testing.T) {
	for _, v := range recVariants() {
		v := v
		fn := "StateT." + v.name
		kit.Check(t, fn+"/success", ruleState+"a succeeding inner step (reads and writes the state), generated handlers; demanded: handler never invoked, value and state exactly the inner step's, inner step runs once; every case non-trivial; distinct by scenario", kit.Opt{},
			func(rt *rapid.T, rec *kit.Rec) {
				sc := genRecScen(rt, false)
				rec.Case(true, sc.String())
				o := &recObs{}
				var got res[int, int]
				rec.Guard(rt, "C17|"+fn+"|success-untouched", func() { got = runST(v.apply(sc.inner.st(&o.innerCalls), sc, o), sc.s0) })
				want := sc.inner.ref(sc.s0)
				if o.calls != 0 || o.h2calls != 0 {
					rec.Failf(rt, "C17|"+fn+"|handler-called-on-success", "%s: handler invoked %d times (handler program ran %d times) although the inner step succeeded", sc, o.calls, o.h2calls)
				}
				if d := diff(got, want); d != "" || o.innerCalls != 1 {
					rec.Failf(rt, "C17|"+fn+"|success-untouched", "%s: got %v, the inner step alone gives %v (%s differs; inner ran %d times)", sc, got, want, d, o.innerCalls)
				}
			})
		kit.Check(t, fn+"/failure", ruleState+"an inner step that writes the state (fs(s0)) and then fails with a sentinel, generated handlers (plain value / Try that may fail / handler program that reads and writes the state / case predicate over the error); "+
			"demanded: the handler is invoked exactly once (never when the case predicate rejects) with the injected error and - when it can see a state - the post-failure state fs(s0); the returned state is fs(s0), or what the handler program makes of it; "+
			"non-trivial iff fs(s0) != s0; distinct by scenario", kit.Opt{},
			func(rt *rapid.T, rec *kit.Rec) {
				sc := genRecScen(rt, true)
				ri := sc.inner.ref(sc.s0)
				ns, e := ri.s, sc.inner.fail
				rec.Case(ns != sc.s0, sc.String())
				defined := !v.hasPred || sc.pred.Call(e)
				if defined {
					rec.Label("handled")
				} else {
					rec.Label("not-defined-at")
				}
				o := &recObs{}
				var got res[int, int]
				rec.Guard(rt, "C17|"+fn+"|failure", func() { got = runST(v.apply(sc.inner.st(&o.innerCalls), sc, o), sc.s0) })

				if o.innerCalls != 1 {
					rec.Failf(rt, "C17|"+fn+"|reruns-inner", "%s: the inner step ran %d times, want 1", sc, o.innerCalls)
				}
				if v.hasPred {
					if o.predCalls < 1 {
						rec.Failf(rt, "C17|"+fn+"|case-predicate", "%s: isDefinedAt was never consulted for a failure", sc)
					}
					for _, pe := range o.predErrs {
						if !errors.Is(pe, kit.Errs[e]) {
							rec.Failf(rt, "C17|"+fn+"|handler-error", "%s: isDefinedAt received %v, injected %v", sc, pe, kit.Errs[e])
						}
					}
				}
				if !defined {
					if o.calls != 0 || o.h2calls != 0 {
						rec.Failf(rt, "C17|"+fn+"|case-predicate", "%s: handler invoked %d times although isDefinedAt(%v) is false", sc, o.calls, kit.Errs[e])
					}
					if d := diff(got, ri); d != "" {
						rec.Failf(rt, "C17|"+fn+"|undefined-case-passthrough", "%s: got %v, want the inner failure unchanged %v", sc, got, ri)
					}
					return
				}
				if o.calls != 1 {
					rec.Failf(rt, "C17|"+fn+"|handler-calls", "%s: handler invoked %d times, want 1; got %v", sc, o.calls, got)
				}
				if !errors.Is(o.errs[0], kit.Errs[e]) {
					rec.Failf(rt, "C17|"+fn+"|handler-error", "%s: handler received %v, injected %v", sc, o.errs[0], kit.Errs[e])
				}
				if v.exposes {
					if len(o.states) != 1 {
						rec.Failf(rt, "C17|"+fn+"|handler-calls", "%s: handler observed a state %d times, want 1", sc, len(o.states))
					}
					if o.states[0] != ns {
						rec.Failf(rt, "C17|"+fn+"|handler-state", "%s: handler was given state %d; the state at the point of failure is %d (initial state %d); result %v", sc, o.states[0], ns, sc.s0, got)
					}
				}
				want := v.handled(sc, e, ns)
				switch d := diff(got, want); d {
				case "":
				case "state":
					rec.Failf(rt, "C17|"+fn+"|result-state", "%s: returned state %d, want %d (post-failure state %d); got %v want %v", sc, got.s, want.s, ns, got, want)
				default:
					rec.Failf(rt, "C17|"+fn+"|result-value", "%s: %s differs: got %v, want %v", sc, d, got, want)
				}
			})
	}

	kit.Check(t, "StateT.Recover*/consistent", ruleState+"one failing-after-write scenario pushed through all four state-exposing variants (RecoverWithState, RecoverWithStateT, RecoverWith, RecoverCaseWith with an always-true predicate); "+
		"demanded: every handler sees the same state, namely the post-failure state, and every variant returns a state derived from it; the signature names the deviating variant; non-trivial iff fs(s0) != s0", kit.Opt{},
		func(rt *rapid.T, rec *kit.Rec) {
			sc := genRecScen(rt, true)
			sc.pred = kit.Pred{Tab: []bool{true}}
			ri := sc.inner.ref(sc.s0)
			ns, e := ri.s, sc.inner.fail
			rec.Case(ns != sc.s0, sc.String())
			type seenT struct {
				name  string
				state int
				got   res[int, int]
				want  res[int, int]
			}
			var seen []seenT
			for _, v := range recVariants() {
				if !v.exposes {
					continue
				}
				o := &recObs{}
				var got res[int, int]
				rec.Guard(rt, "C17|StateT."+v.name+"|consistent", func() { got = runST(v.apply(sc.inner.st(&o.innerCalls), sc, o), sc.s0) })
				if len(o.states) != 1 {
					rec.Failf(rt, "C17|StateT."+v.name+"|consistent", "%s: handler observed a state %d times, want 1", sc, len(o.states))
				}
				seen = append(seen, seenT{v.name, o.states[0], got, v.handled(sc, e, ns)})
			}
			summary := ""
			for _, x := range seen {
				summary += fmt.Sprintf(" %s:handler-saw=%d,returned=%d;", x.name, x.state, x.got.s)
			}
			for _, x := range seen {
				if x.state != ns {
					rec.Failf(rt, "C17|StateT."+x.name+"|consistent", "%s: variants disagree on the state handed to the handler (post-failure state %d, initial %d):%s", sc, ns, sc.s0, summary)
				}
				if x.got.s != x.want.s {
					rec.Failf(rt, "C17|StateT."+x.name+"|consistent", "%s: variants disagree on the returned state (post-failure state %d):%s", sc, ns, summary)
				}
			}
		})
}
