// Package c17 checks property C17: StateT threads state lawfully, also across
// failure and recovery.
//
// Layout:
//
//	c17_test.go      shared helpers + LAW sub-checks (one per primitive / law), state type int
//	thread_test.go   left-to-right threading and failure sub-checks for every multi-step combinator, state type string (a trace)
//	recover_test.go  one success and one failure sub-check per Recover* method + cross-variant consistency
//	program_test.go  model-based sub-check: generated StateT program ASTs, library vs reference interpreter
package c17

import (
	"errors"
	"fmt"
	"testing"

	"github.com/csgura/fp"
	"github.com/csgura/fp/option"
	"github.com/csgura/fp/statet"
	"github.com/csgura/fp/try"
	"pgregory.net/rapid"

	"verifharness/kit"
)

func TestMain(m *testing.M) { kit.Main(m) }

// ---- outcome of one run -------------------------------------------------------------

// res is what running a StateT from one initial state exposes: the Try and the state.
type res[S, A any] struct {
	ok  bool
	v   A
	err error
	s   S
}

func runST[S, A any](st fp.StateT[S, A], s S) res[S, A] {
	t, ns := st(s)
	if t.IsSuccess() {
		return res[S, A]{ok: true, v: t.Get(), s: ns}
	}
	return res[S, A]{err: t.Failed().Get(), s: ns}
}

func okRes[S, A any](v A, s S) res[S, A]       { return res[S, A]{ok: true, v: v, s: s} }
func failRes[S, A any](e error, s S) res[S, A] { return res[S, A]{err: e, s: s} }

func (r res[S, A]) String() string {
	if r.ok {
		return fmt.Sprintf("(Success(%v), state=%#v)", r.v, r.s)
	}
	return fmt.Sprintf("(Failure(%s), state=%#v)", kit.ErrName(r.err), r.s)
}

// sameVal: values used in this package are ints, fp.Unit, slices/tuples of ints; %v is injective
// on each of these types and prints nil and empty slices alike.
func sameVal[A any](a, b A) bool { return fmt.Sprintf("%v", a) == fmt.Sprintf("%v", b) }

// sameState: every state type used here is comparable (int, string, struct of those).
func sameState[S any](a, b S) bool { return any(a) == any(b) }

// diff returns "" when got agrees with want, else the clause that differs:
// "kind" (success vs failure), "value", "error" (not the injected error), "state".
func diff[S, A any](got, want res[S, A]) string {
	if got.ok != want.ok {
		return "kind"
	}
	if got.ok {
		if !sameVal(got.v, want.v) {
			return "value"
		}
	} else if !errors.Is(got.err, want.err) {
		return "error"
	}
	if !sameState(got.s, want.s) {
		return "state"
	}
	return ""
}

func errIdx(e error) int {
	for i, x := range kit.Errs {
		if e == x {
			return i
		}
	}
	return -1
}

func mod(x, k int) int { return ((x % k) + k) % k }

// rawMap is the harness' own functor map over a StateT (used to prepare inputs without
// going through the library's Map).
func rawMap[S, A, B any](st fp.StateT[S, A], f func(A) B) fp.StateT[S, B] {
	return func(s S) (fp.Try[B], S) {
		t, ns := st(s)
		if t.IsSuccess() {
			return try.Success(f(t.Get())), ns
		}
		return try.Failure[B](t.Failed().Get()), ns
	}
}

// ---- base step over int state ----------------------------------------------------------

// base is a generated one-step program over state int: it reads the state (value fv(s)),
// writes it (fs(s)) and optionally fails with a sentinel after writing.
type base struct {
	fv, fs kit.IntFn
	fail   int // -1: succeeds, else index into kit.Errs
}

func (b base) String() string {
	f := "ok"
	if b.fail >= 0 {
		f = kit.Errs[b.fail].Error()
	}
	return fmt.Sprintf("step{v=%v s=%v %s}", b.fv, b.fs, f)
}

func genBase(rt *rapid.T, label string, mayFail bool) base {
	b := base{fv: kit.IntFnGen().Draw(rt, label+".fv"), fs: kit.IntFnGen().Draw(rt, label+".fs"), fail: -1}
	if mayFail && rapid.IntRange(0, 2).Draw(rt, label+".fails") == 0 {
		b.fail = rapid.IntRange(0, 4).Draw(rt, label+".err")
	}
	return b
}

func (b base) ref(s int) res[int, int] {
	if b.fail >= 0 {
		return failRes[int, int](kit.Errs[b.fail], b.fs.Call(s))
	}
	return okRes(b.fv.Call(s), b.fs.Call(s))
}

// st is the step as a raw StateT; calls counts executions.
func (b base) st(calls *int) fp.StateT[int, int] {
	return func(s int) (fp.Try[int], int) {
		*calls++
		if b.fail >= 0 {
			return try.Failure[int](kit.Errs[b.fail]), b.fs.Call(s)
		}
		return try.Success(b.fv.Call(s)), b.fs.Call(s)
	}
}

func genState() *rapid.Generator[int] { return kit.SmallInt() }

// ---- law sub-check wrapper -----------------------------------------------------------------

type lawCase[A any] struct {
	desc  string
	nt    bool
	label string
	run   func() res[int, A] // library side; executed under Guard
	want  res[int, A]
	after func() (clause, msg string) // optional call-count assertions, evaluated after the run
}

func law[A any](t *testing.T, fn, clause, rule string, mk func(rt *rapid.T) lawCase[A]) {
	t.Helper()
	sig := "C17|" + fn + "|" + clause
	kit.Check(t, fn+"/"+clause, rule, kit.Opt{}, func(rt *rapid.T, rec *kit.Rec) {
		c := mk(rt)
		rec.Case(c.nt, c.desc)
		if c.label != "" {
			rec.Label(c.label)
		}
		var got res[int, A]
		rec.Guard(rt, sig, func() { got = c.run() })
		if d := diff(got, c.want); d != "" {
			rec.Failf(rt, sig, "%s: %s differs: got %v, want %v", c.desc, d, got, c.want)
		}
		if c.after != nil {
			if cl, m := c.after(); m != "" {
				rec.Failf(rt, "C17|"+fn+"|"+cl, "%s: %s", c.desc, m)
			}
		}
	})
}

func okFail(b base) string {
	if b.fail >= 0 {
		return "inner-fails"
	}
	return "inner-succeeds"
}

const ruleState = "initial state s from SmallInt (-3..8, sometimes full range); "

func TestLaws(t *testing.T) {
	u := fp.Unit{}

	// ---- Put / Get / Modify: the state-monad laws ------------------------------------------
	law(t, "statet.Put", "ref", ruleState+"x drawn likewise; Put(x).Run(s) must be (Success(unit), x); non-trivial iff x != s",
		func(rt *rapid.T) lawCase[fp.Unit] {
			s, x := genState().Draw(rt, "s"), genState().Draw(rt, "x")
			return lawCase[fp.Unit]{desc: fmt.Sprintf("Put(%d).Run(%d)", x, s), nt: x != s,
				run: func() res[int, fp.Unit] { return runST(statet.Put(x), s) }, want: okRes(u, x)}
		})
	law(t, "statet.Put", "put-get", ruleState+"x drawn likewise; Put(x) then Get (sequenced with FlatMapConst) must yield x and leave state x; non-trivial iff x != s",
		func(rt *rapid.T) lawCase[int] {
			s, x := genState().Draw(rt, "s"), genState().Draw(rt, "x")
			return lawCase[int]{desc: fmt.Sprintf("FlatMapConst(Put(%d),Get).Run(%d)", x, s), nt: x != s,
				run:  func() res[int, int] { return runST(statet.FlatMapConst(statet.Put(x), statet.Get[int]()), s) },
				want: okRes(x, x)}
		})
	law(t, "statet.Put", "put-put", ruleState+"a,b drawn likewise; Put(a) then Put(b) must leave state b; non-trivial iff b != s",
		func(rt *rapid.T) lawCase[fp.Unit] {
			s, a, b := genState().Draw(rt, "s"), genState().Draw(rt, "a"), genState().Draw(rt, "b")
			return lawCase[fp.Unit]{desc: fmt.Sprintf("FlatMapConst(Put(%d),Put(%d)).Run(%d)", a, b, s), nt: b != s,
				run:  func() res[int, fp.Unit] { return runST(statet.FlatMapConst(statet.Put(a), statet.Put(b)), s) },
				want: okRes(u, b)}
		})
	law(t, "statet.Get", "ref", ruleState+"Get().Run(s) must be (Success(s), s); every case non-trivial",
		func(rt *rapid.T) lawCase[int] {
			s := genState().Draw(rt, "s")
			return lawCase[int]{desc: fmt.Sprintf("Get.Run(%d)", s), nt: true,
				run: func() res[int, int] { return runST(statet.Get[int](), s) }, want: okRes(s, s)}
		})
	law(t, "statet.Get", "get-put", ruleState+"a generated writing step w, then FlatMap(Get, Put): must equal w with the value replaced by unit (Get then Put is a no-op); non-trivial iff w changes the state",
		func(rt *rapid.T) lawCase[fp.Unit] {
			s := genState().Draw(rt, "s")
			w := genBase(rt, "w", false)
			var calls int
			return lawCase[fp.Unit]{desc: fmt.Sprintf("FlatMapConst(%v, FlatMap(Get,Put)).Run(%d)", w, s), nt: w.fs.Call(s) != s,
				run: func() res[int, fp.Unit] {
					return runST(statet.FlatMapConst(w.st(&calls), statet.FlatMap(statet.Get[int](), statet.Put[int])), s)
				},
				want: okRes(u, w.fs.Call(s))}
		})
	law(t, "statet.Modify", "ref", ruleState+"table function f; Modify(f).Run(s) must be (unit, f(s)); non-trivial iff f(s) != s",
		func(rt *rapid.T) lawCase[fp.Unit] {
			s, f := genState().Draw(rt, "s"), kit.IntFnGen().Draw(rt, "f")
			return lawCase[fp.Unit]{desc: fmt.Sprintf("Modify(%v).Run(%d)", f, s), nt: f.Call(s) != s,
				run: func() res[int, fp.Unit] { return runST(statet.Modify(f.Call), s) }, want: okRes(u, f.Call(s))}
		})
	// Modify(f) = Get >>= Put . f ; both sides also compared with the reference so that the
	// signature names the side that is wrong.
	kit.Check(t, "statet.Modify/eq-get-put", ruleState+"table function f; Modify(f) and FlatMap(Get, x -> Put(f(x))) must both be (unit, f(s)); non-trivial iff f(s) != s", kit.Opt{},
		func(rt *rapid.T, rec *kit.Rec) {
			s, f := genState().Draw(rt, "s"), kit.IntFnGen().Draw(rt, "f")
			desc := fmt.Sprintf("f=%v s=%d", f, s)
			rec.Case(f.Call(s) != s, desc)
			want := okRes(u, f.Call(s))
			var l, r res[int, fp.Unit]
			rec.Guard(rt, "C17|statet.Modify|eq-get-put", func() { l = runST(statet.Modify(f.Call), s) })
			rec.Guard(rt, "C17|statet.Put|modify-eq-get-put", func() {
				r = runST(statet.FlatMap(statet.Get[int](), func(x int) fp.StateT[int, fp.Unit] { return statet.Put(f.Call(x)) }), s)
			})
			if d := diff(l, want); d != "" {
				rec.Failf(rt, "C17|statet.Modify|eq-get-put", "%s: Modify(f).Run(s) = %v, want %v", desc, l, want)
			}
			if d := diff(r, want); d != "" {
				rec.Failf(rt, "C17|statet.Put|modify-eq-get-put", "%s: FlatMap(Get, x->Put(f(x))).Run(s) = %v but Modify(f).Run(s) = %v (want %v)", desc, r, l, want)
			}
		})

	// ---- the other primitives against a hand-written s -> (value|error, s') ------------------
	law(t, "statet.PutWith", "ref", ruleState+"table function g, value v; withf(s,v)=g(s)*3+v; PutWith(withf)(v).Run(s) must be (unit, withf(s,v)) with withf called once; non-trivial iff the state changes",
		func(rt *rapid.T) lawCase[fp.Unit] {
			s, g, v := genState().Draw(rt, "s"), kit.IntFnGen().Draw(rt, "g"), kit.TinyInt().Draw(rt, "v")
			calls := 0
			withf := func(s, v int) int { calls++; return g.Call(s)*3 + v }
			return lawCase[fp.Unit]{desc: fmt.Sprintf("PutWith(g=%v)(%d).Run(%d)", g, v, s), nt: g.Call(s)*3+v != s,
				run:  func() res[int, fp.Unit] { return runST(statet.PutWith(withf)(v), s) },
				want: okRes(u, g.Call(s)*3+v)}
		})
	law(t, "statet.ModifyS", "ref", ruleState+"table functions fss, fsa; ModifyS(fss,fsa).Run(s) must be (fsa(s), fss(s)) - both applied to the incoming state, like the pop of the repository's own stack test; non-trivial iff fss(s) != s",
		func(rt *rapid.T) lawCase[int] {
			s, fss, fsa := genState().Draw(rt, "s"), kit.IntFnGen().Draw(rt, "fss"), kit.IntFnGen().Draw(rt, "fsa")
			return lawCase[int]{desc: fmt.Sprintf("ModifyS(%v,%v).Run(%d)", fss, fsa, s), nt: fss.Call(s) != s,
				run: func() res[int, int] {
					return runST(statet.ModifyS(fss.Call, func(x int) int { return fsa.Call(x)*10 + x }), s)
				},
				want: okRes(fsa.Call(s)*10+s, fss.Call(s))}
		})
	law(t, "statet.Merge", "ref", ruleState+"table functions fss, fsa; Merge(fss,fsa).Run(s) must be (fsa(s), fss(s)); non-trivial iff fss(s) != s",
		func(rt *rapid.T) lawCase[int] {
			s, fss, fsa := genState().Draw(rt, "s"), kit.IntFnGen().Draw(rt, "fss"), kit.IntFnGen().Draw(rt, "fsa")
			return lawCase[int]{desc: fmt.Sprintf("Merge(%v,%v).Run(%d)", fss, fsa, s), nt: fss.Call(s) != s,
				run: func() res[int, int] {
					return runST(statet.Merge(fss.Call, func(x int) int { return fsa.Call(x)*10 + x }), s)
				},
				want: okRes(fsa.Call(s)*10+s, fss.Call(s))}
		})
	law(t, "statet.Run", "ref", ruleState+"table functions fv, fs; Run(s -> (fv(s), fs(s))).Run(s) must be (fv(s), fs(s)); non-trivial iff fs(s) != s",
		func(rt *rapid.T) lawCase[int] {
			s, fv, fs := genState().Draw(rt, "s"), kit.IntFnGen().Draw(rt, "fv"), kit.IntFnGen().Draw(rt, "fs")
			return lawCase[int]{desc: fmt.Sprintf("Run(%v,%v).Run(%d)", fv, fs, s), nt: fs.Call(s) != s,
				run: func() res[int, int] {
					return runST(statet.Run(func(x int) (int, int) { return fv.Call(x), fs.Call(x) }), s)
				},
				want: okRes(fv.Call(s), fs.Call(s))}
		})
	law(t, "statet.ModifyT", "ref", ruleState+"table function f, optional injected failure; ModifyT must be (unit, f(s)) on success and (Failure(e), s) - the state at the point of failure - otherwise; non-trivial iff it fails or f(s) != s",
		func(rt *rapid.T) lawCase[fp.Unit] {
			s, f := genState().Draw(rt, "s"), kit.IntFnGen().Draw(rt, "f")
			e := rapid.IntRange(-2, 4).Draw(rt, "err")
			c := lawCase[fp.Unit]{desc: fmt.Sprintf("ModifyT(%v,err=%d).Run(%d)", f, e, s), nt: e >= 0 || f.Call(s) != s, label: "ok"}
			c.run = func() res[int, fp.Unit] {
				return runST(statet.ModifyT(func(x int) fp.Try[int] {
					if e >= 0 {
						return try.Failure[int](kit.Errs[e])
					}
					return try.Success(f.Call(x))
				}), s)
			}
			if e >= 0 {
				c.want, c.label = failRes[int, fp.Unit](kit.Errs[e], s), "fail"
			} else {
				c.want = okRes(u, f.Call(s))
			}
			return c
		})
	law(t, "statet.GetS", "ref", ruleState+"table function f; GetS(f).Run(s) must be (f(s), s); every case non-trivial",
		func(rt *rapid.T) lawCase[int] {
			s, f := genState().Draw(rt, "s"), kit.IntFnGen().Draw(rt, "f")
			return lawCase[int]{desc: fmt.Sprintf("GetS(%v).Run(%d)", f, s), nt: true,
				run: func() res[int, int] { return runST(statet.GetS(f.Call), s) }, want: okRes(f.Call(s), s)}
		})
	law(t, "statet.GetST", "ref", ruleState+"table function f, optional injected failure; GetST(f).Run(s) must be (f(s) as Try, s); every case non-trivial",
		func(rt *rapid.T) lawCase[int] {
			s, f := genState().Draw(rt, "s"), kit.IntFnGen().Draw(rt, "f")
			e := rapid.IntRange(-2, 4).Draw(rt, "err")
			c := lawCase[int]{desc: fmt.Sprintf("GetST(%v,err=%d).Run(%d)", f, e, s), nt: true, label: "ok"}
			c.run = func() res[int, int] {
				return runST(statet.GetST(func(x int) fp.Try[int] {
					if e >= 0 {
						return try.Failure[int](kit.Errs[e])
					}
					return try.Success(f.Call(x))
				}), s)
			}
			if e >= 0 {
				c.want, c.label = failRes[int, int](kit.Errs[e], s), "fail"
			} else {
				c.want = okRes(f.Call(s), s)
			}
			return c
		})
	law(t, "statet.Pure", "ref", ruleState+"value v; Pure(v).Run(s) must be (v, s); every case non-trivial",
		func(rt *rapid.T) lawCase[int] {
			s, v := genState().Draw(rt, "s"), kit.TinyInt().Draw(rt, "v")
			return lawCase[int]{desc: fmt.Sprintf("Pure(%d).Run(%d)", v, s), nt: true,
				run: func() res[int, int] { return runST(statet.Pure[int](v), s) }, want: okRes(v, s)}
		})
	law(t, "statet.FromTry", "ref", ruleState+"a Try (success v or sentinel failure); FromTry(t).Run(s) must be (t, s); every case non-trivial",
		func(rt *rapid.T) lawCase[int] {
			s, v := genState().Draw(rt, "s"), kit.TinyInt().Draw(rt, "v")
			e := rapid.IntRange(-2, 4).Draw(rt, "err")
			c := lawCase[int]{desc: fmt.Sprintf("FromTry(v=%d,err=%d).Run(%d)", v, e, s), nt: true, label: "ok"}
			tr := try.Success(v)
			c.want = okRes(v, s)
			if e >= 0 {
				tr = try.Failure[int](kit.Errs[e])
				c.want, c.label = failRes[int, int](kit.Errs[e], s), "fail"
			}
			c.run = func() res[int, int] { return runST(statet.FromTry[int](tr), s) }
			return c
		})
	law(t, "statet.WithState", "ref", ruleState+"generated step b (may fail after writing); f(x) = step whose value is x*10+b.value; WithState(f).Run(s) must equal f(s) run from s; non-trivial iff b writes the state",
		func(rt *rapid.T) lawCase[int] {
			s, b := genState().Draw(rt, "s"), genBase(rt, "b", true)
			calls := 0
			c := lawCase[int]{desc: fmt.Sprintf("WithState(x->%v).Run(%d)", b, s), nt: b.fs.Call(s) != s, label: okFail(b)}
			c.run = func() res[int, int] {
				return runST(statet.WithState(func(x int) fp.StateT[int, int] {
					return rawMap(b.st(&calls), func(v int) int { return x*10 + v })
				}), s)
			}
			c.want = b.ref(s)
			if c.want.ok {
				c.want.v = s*10 + c.want.v
			}
			c.after = func() (string, string) {
				if calls != 1 {
					return "ref", fmt.Sprintf("the step returned by f ran %d times, want 1", calls)
				}
				return "", ""
			}
			return c
		})
	law(t, "statet.FlatMapConst", "ref", ruleState+"two generated steps a, b (each may fail after writing); must equal a then b from a's state, or a's failure with a's state and b not run; non-trivial iff a writes the state",
		func(rt *rapid.T) lawCase[int] {
			s, a, b := genState().Draw(rt, "s"), genBase(rt, "a", true), genBase(rt, "b", true)
			ca, cb := 0, 0
			c := lawCase[int]{desc: fmt.Sprintf("FlatMapConst(%v,%v).Run(%d)", a, b, s), nt: a.fs.Call(s) != s, label: okFail(a)}
			c.run = func() res[int, int] { return runST(statet.FlatMapConst(a.st(&ca), b.st(&cb)), s) }
			ra := a.ref(s)
			wantB := 0
			if ra.ok {
				c.want, wantB = b.ref(ra.s), 1
			} else {
				c.want = ra
			}
			c.after = func() (string, string) {
				if ca != 1 || cb != wantB {
					return "later-step-runs", fmt.Sprintf("a ran %d times (want 1), b ran %d times (want %d)", ca, cb, wantB)
				}
				return "", ""
			}
			return c
		})

	// ---- wrappers around one inner step -----------------------------------------------------
	law(t, "statet.ApTry", "ref", ruleState+"inner step yielding a function (may fail after writing, error e1), argument Try (success or e2 != e1); result must be inner's failure, else the argument's failure, else f(a); state = inner's state; non-trivial iff inner writes",
		func(rt *rapid.T) lawCase[int] {
			s, b, av := genState().Draw(rt, "s"), genBase(rt, "b", true), kit.TinyInt().Draw(rt, "a")
			ae := rapid.IntRange(-2, 1).Draw(rt, "aerr")
			calls := 0
			stf := rawMap(b.st(&calls), func(v int) fp.Func1[int, int] { return func(a int) int { return v*31 + a } })
			a := try.Success(av)
			if ae >= 0 {
				a = try.Failure[int](kit.Errs[5+ae])
			}
			c := lawCase[int]{desc: fmt.Sprintf("ApTry(%v, a=%d aerr=%d).Run(%d)", b, av, ae, s), nt: b.fs.Call(s) != s, label: okFail(b)}
			c.run = func() res[int, int] { return runST(statet.ApTry(stf, a), s) }
			rb := b.ref(s)
			switch {
			case !rb.ok:
				c.want = rb
			case ae >= 0:
				c.want = failRes[int, int](kit.Errs[5+ae], rb.s)
			default:
				c.want = okRes(rb.v*31+av, rb.s)
			}
			return c
		})
	kit.Check(t, "statet.ApOption/ref", ruleState+"inner step yielding a function (may fail after writing), argument Option; result must be inner's failure, else some failure for None, else f(a); state = inner's state; non-trivial iff inner writes", kit.Opt{},
		func(rt *rapid.T, rec *kit.Rec) {
			sig := "C17|statet.ApOption|ref"
			s, b, av := genState().Draw(rt, "s"), genBase(rt, "b", true), kit.TinyInt().Draw(rt, "a")
			none := rapid.IntRange(0, 2).Draw(rt, "none") == 0
			calls := 0
			stf := rawMap(b.st(&calls), func(v int) fp.Func1[int, int] { return func(a int) int { return v*31 + a } })
			a := option.Some(av)
			if none {
				a = option.None[int]()
			}
			desc := fmt.Sprintf("ApOption(%v, a=%d none=%v).Run(%d)", b, av, none, s)
			rec.Case(b.fs.Call(s) != s, desc)
			rec.Label(okFail(b))
			var got res[int, int]
			rec.Guard(rt, sig, func() { got = runST(statet.ApOption(stf, a), s) })
			rb := b.ref(s)
			if none && rb.ok {
				// which error stands for None is not part of the property: demand a failure and the state
				if got.ok || got.s != rb.s || got.err == nil {
					rec.Failf(rt, sig, "%s: got %v, want a failure with state %d", desc, got, rb.s)
				}
				return
			}
			want := rb
			if rb.ok {
				want = okRes(rb.v*31+av, rb.s)
			}
			if d := diff(got, want); d != "" {
				rec.Failf(rt, sig, "%s: %s differs: got %v, want %v", desc, d, got, want)
			}
		})
	law(t, "statet.Transform", "ref", ruleState+"inner step (may fail after writing), f(ns, ta) = (g(ns), tb) where tb maps a success, and either keeps or recovers a failure (drawn); f must be called exactly once with the inner's state and result; non-trivial iff inner writes",
		func(rt *rapid.T) lawCase[int] {
			s, b, g := genState().Draw(rt, "s"), genBase(rt, "b", true), kit.IntFnGen().Draw(rt, "g")
			recov := rapid.Bool().Draw(rt, "recover")
			calls, fcalls := 0, 0
			var seenS int
			var seenT fp.Try[int]
			f := func(ns int, ta fp.Try[int]) (int, fp.Try[int]) {
				fcalls++
				seenS, seenT = ns, ta
				if ta.IsSuccess() {
					return g.Call(ns), try.Success(ta.Get()*3 + 1)
				}
				if recov {
					return g.Call(ns), try.Success(100 + errIdx(ta.Failed().Get()))
				}
				return g.Call(ns), ta
			}
			c := lawCase[int]{desc: fmt.Sprintf("Transform(%v, g=%v recover=%v).Run(%d)", b, g, recov, s), nt: b.fs.Call(s) != s, label: okFail(b)}
			c.run = func() res[int, int] { return runST(statet.Transform(b.st(&calls), f), s) }
			rb := b.ref(s)
			switch {
			case rb.ok:
				c.want = okRes(rb.v*3+1, g.Call(rb.s))
			case recov:
				c.want = okRes(100+b.fail, g.Call(rb.s))
			default:
				c.want = failRes[int, int](rb.err, g.Call(rb.s))
			}
			c.after = func() (string, string) {
				if fcalls != 1 || calls != 1 {
					return "ref", fmt.Sprintf("f called %d times, inner ran %d times, want 1 and 1", fcalls, calls)
				}
				if seenS != rb.s {
					return "handler-state", fmt.Sprintf("f received state %d, the inner step left %d", seenS, rb.s)
				}
				if seenT.IsSuccess() != rb.ok || (!rb.ok && !errors.Is(seenT.Failed().Get(), rb.err)) || (rb.ok && seenT.Get() != rb.v) {
					return "ref", fmt.Sprintf("f received %v, the inner step produced %v", seenT, rb)
				}
				return "", ""
			}
			return c
		})
	law(t, "statet.TransformWith", "ref", ruleState+"inner step b (may fail after writing), f(ta) = a second generated step h whose value also encodes ta; h must run once from b's state; non-trivial iff b writes",
		func(rt *rapid.T) lawCase[int] {
			s, b, h := genState().Draw(rt, "s"), genBase(rt, "b", true), genBase(rt, "h", true)
			calls, hcalls, fcalls := 0, 0, 0
			enc := func(ta fp.Try[int]) int {
				if ta.IsSuccess() {
					return ta.Get() * 3
				}
				return 1000 + errIdx(ta.Failed().Get())
			}
			f := func(ta fp.Try[int]) fp.StateT[int, int] {
				fcalls++
				k := enc(ta)
				return rawMap(h.st(&hcalls), func(v int) int { return k*17 + v })
			}
			c := lawCase[int]{desc: fmt.Sprintf("TransformWith(%v, _->%v).Run(%d)", b, h, s), nt: b.fs.Call(s) != s, label: okFail(b)}
			c.run = func() res[int, int] { return runST(statet.TransformWith(b.st(&calls), f), s) }
			rb := b.ref(s)
			k := 1000 + b.fail
			if rb.ok {
				k = rb.v * 3
			}
			c.want = h.ref(rb.s)
			if c.want.ok {
				c.want.v = k*17 + c.want.v
			}
			c.after = func() (string, string) {
				if fcalls != 1 || calls != 1 || hcalls != 1 {
					return "ref", fmt.Sprintf("f called %d, inner ran %d, handler step ran %d times; want 1,1,1", fcalls, calls, hcalls)
				}
				return "", ""
			}
			return c
		})
	law(t, "statet.MapWithState", "ref", ruleState+"inner step b (may fail after writing), f(ns,a)=ns*7+a; result (f(b.state,b.value), b.state) or b's failure with b's state and f not called; non-trivial iff b writes",
		func(rt *rapid.T) lawCase[int] {
			s, b := genState().Draw(rt, "s"), genBase(rt, "b", true)
			calls, fcalls := 0, 0
			c := lawCase[int]{desc: fmt.Sprintf("MapWithState(%v).Run(%d)", b, s), nt: b.fs.Call(s) != s, label: okFail(b)}
			c.run = func() res[int, int] {
				return runST(statet.MapWithState(b.st(&calls), func(ns, a int) int { fcalls++; return ns*7 + a }), s)
			}
			rb := b.ref(s)
			c.want = rb
			if rb.ok {
				c.want.v = rb.s*7 + rb.v
			}
			c.after = afterCallback(&calls, &fcalls, rb.ok)
			return c
		})
	law(t, "statet.MapWithStateT", "ref", ruleState+"inner step b (may fail after writing), f(ns,a)=Success(ns*7+a) or a sentinel failure (drawn); state always b's state; f not called after b's failure; non-trivial iff b writes",
		func(rt *rapid.T) lawCase[int] {
			s, b := genState().Draw(rt, "s"), genBase(rt, "b", true)
			fe := rapid.IntRange(-2, 1).Draw(rt, "ferr")
			calls, fcalls := 0, 0
			c := lawCase[int]{desc: fmt.Sprintf("MapWithStateT(%v, ferr=%d).Run(%d)", b, fe, s), nt: b.fs.Call(s) != s, label: okFail(b)}
			c.run = func() res[int, int] {
				return runST(statet.MapWithStateT(b.st(&calls), func(ns, a int) fp.Try[int] {
					fcalls++
					if fe >= 0 {
						return try.Failure[int](kit.Errs[5+fe])
					}
					return try.Success(ns*7 + a)
				}), s)
			}
			rb := b.ref(s)
			c.want = rb
			if rb.ok {
				if fe >= 0 {
					c.want = failRes[int, int](kit.Errs[5+fe], rb.s)
				} else {
					c.want.v = rb.s*7 + rb.v
				}
			}
			c.after = afterCallback(&calls, &fcalls, rb.ok)
			return c
		})
	law(t, "statet.MapT", "ref", ruleState+"inner step b (may fail after writing), f(a)=Success(a*3+1) or a sentinel failure (drawn); state always b's state; f not called after b's failure; non-trivial iff b writes",
		func(rt *rapid.T) lawCase[int] {
			s, b := genState().Draw(rt, "s"), genBase(rt, "b", true)
			fe := rapid.IntRange(-2, 1).Draw(rt, "ferr")
			calls, fcalls := 0, 0
			c := lawCase[int]{desc: fmt.Sprintf("MapT(%v, ferr=%d).Run(%d)", b, fe, s), nt: b.fs.Call(s) != s, label: okFail(b)}
			c.run = func() res[int, int] {
				return runST(statet.MapT(b.st(&calls), func(a int) fp.Try[int] {
					fcalls++
					if fe >= 0 {
						return try.Failure[int](kit.Errs[5+fe])
					}
					return try.Success(a*3 + 1)
				}), s)
			}
			rb := b.ref(s)
			c.want = rb
			if rb.ok {
				if fe >= 0 {
					c.want = failRes[int, int](kit.Errs[5+fe], rb.s)
				} else {
					c.want.v = rb.v*3 + 1
				}
			}
			c.after = afterCallback(&calls, &fcalls, rb.ok)
			return c
		})
	law(t, "statet.PeekState", "ref", ruleState+"inner step b (may fail after writing); result must be b's unchanged; the peek callback sees b's resulting state (exactly once on success; on failure it may or may not be called, but only with that state); non-trivial iff b writes",
		func(rt *rapid.T) lawCase[int] {
			s, b := genState().Draw(rt, "s"), genBase(rt, "b", true)
			calls := 0
			var seen []int
			c := lawCase[int]{desc: fmt.Sprintf("PeekState(%v).Run(%d)", b, s), nt: b.fs.Call(s) != s, label: okFail(b)}
			c.run = func() res[int, int] {
				return runST(statet.PeekState(b.st(&calls), func(ctx int) { seen = append(seen, ctx) }), s)
			}
			rb := b.ref(s)
			c.want = rb
			c.after = func() (string, string) {
				if calls != 1 {
					return "ref", fmt.Sprintf("inner ran %d times, want 1", calls)
				}
				if (rb.ok && len(seen) != 1) || len(seen) > 1 {
					return "ref", fmt.Sprintf("peek callback called %d times", len(seen))
				}
				if len(seen) == 1 && seen[0] != rb.s {
					return "handler-state", fmt.Sprintf("peek callback saw state %d, the inner step left %d", seen[0], rb.s)
				}
				return "", ""
			}
			return c
		})

	// ---- methods of fp.StateT -----------------------------------------------------------------
	law(t, "StateT.Run", "ref", ruleState+"generated step b (may fail after writing); Run(s) must return b's (Try, state); non-trivial iff b writes",
		func(rt *rapid.T) lawCase[int] {
			s, b := genState().Draw(rt, "s"), genBase(rt, "b", true)
			calls := 0
			return lawCase[int]{desc: fmt.Sprintf("%v.Run(%d)", b, s), nt: b.fs.Call(s) != s, label: okFail(b),
				run: func() res[int, int] {
					tr, ns := b.st(&calls).Run(s)
					if tr.IsSuccess() {
						return okRes(tr.Get(), ns)
					}
					return failRes[int, int](tr.Failed().Get(), ns)
				}, want: b.ref(s)}
		})
	kit.Check(t, "StateT.Exec/ref", ruleState+"generated step b (may fail after writing); Exec(s) must be Success(b's state) or Failure(b's error); non-trivial iff b writes", kit.Opt{},
		func(rt *rapid.T, rec *kit.Rec) {
			sig := "C17|StateT.Exec|ref"
			s, b := genState().Draw(rt, "s"), genBase(rt, "b", true)
			desc := fmt.Sprintf("%v.Exec(%d)", b, s)
			rec.Case(b.fs.Call(s) != s, desc)
			rec.Label(okFail(b))
			calls := 0
			var got fp.Try[int]
			rec.Guard(rt, sig, func() { got = b.st(&calls).Exec(s) })
			rb := b.ref(s)
			if got.IsSuccess() != rb.ok || (rb.ok && got.Get() != rb.s) || (!rb.ok && !errors.Is(got.Failed().Get(), rb.err)) || calls != 1 {
				rec.Failf(rt, sig, "%s = %v (ran %d times), the step gives %v", desc, got, calls, rb)
			}
		})
	kit.Check(t, "StateT.Eval/ref", ruleState+"generated step b (may fail after writing); Eval(s) must be b's Try; every case non-trivial", kit.Opt{},
		func(rt *rapid.T, rec *kit.Rec) {
			sig := "C17|StateT.Eval|ref"
			s, b := genState().Draw(rt, "s"), genBase(rt, "b", true)
			desc := fmt.Sprintf("%v.Eval(%d)", b, s)
			rec.Case(true, desc)
			rec.Label(okFail(b))
			calls := 0
			var got fp.Try[int]
			rec.Guard(rt, sig, func() { got = b.st(&calls).Eval(s) })
			rb := b.ref(s)
			if got.IsSuccess() != rb.ok || (rb.ok && got.Get() != rb.v) || (!rb.ok && !errors.Is(got.Failed().Get(), rb.err)) || calls != 1 {
				rec.Failf(rt, sig, "%s = %v (ran %d times), the step gives %v", desc, got, calls, rb)
			}
		})
}

// afterCallback: the inner step ran once; the mapping callback ran once iff the inner step succeeded.
func afterCallback(calls, fcalls *int, innerOK bool) func() (string, string) {
	return func() (string, string) {
		if *calls != 1 {
			return "ref", fmt.Sprintf("inner step ran %d times, want 1", *calls)
		}
		if innerOK && *fcalls != 1 {
			return "ref", fmt.Sprintf("callback ran %d times after a successful inner step, want 1", *fcalls)
		}
		if !innerOK && *fcalls != 0 {
			return "later-step-runs", fmt.Sprintf("callback ran %d times although the inner step failed", *fcalls)
		}
		return "", ""
	}
}
