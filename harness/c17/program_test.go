package c17

import (
	"fmt"
	"os"
	"sort"
	"strings"
	"testing"

	"github.com/csgura/fp"
	"github.com/csgura/fp/iterator"
	"github.com/csgura/fp/option"
	"github.com/csgura/fp/statet"
	"github.com/csgura/fp/try"
	"pgregory.net/rapid"

	"verifharness/kit"
)

// Model-based sub-check: rapid draws a StateT program as an AST; the AST is turned into a
// library StateT (build) and interpreted by an independently written reference interpreter
// (refI.eval) with the semantics of the property statement:
//
//	a program is a function s -> (value | error, s');
//	sequencing threads s' left to right; the first failure stops everything after it and its s' is reported;
//	Recover* leave successes alone and give the handler (error, s' of the failure); s' (or what a handler program makes of it) is returned.

// ExcludedKinds lists AST node kinds the program generator must skip (known findings that would
// otherwise fail this sub-check on every run). Default: empty. Every skipped draw is counted
// with rec.Excluded(). Can also be filled through the environment variable VERIF_C17_EXCLUDE
// (comma separated kinds, e.g. "Put,RecoverWithStateT").
var ExcludedKinds = map[string]bool{}

func init() {
	for _, k := range strings.Split(os.Getenv("VERIF_C17_EXCLUDE"), ",") {
		if k = strings.TrimSpace(k); k != "" {
			ExcludedKinds[k] = true
		}
	}
}

// ---- state algebras --------------------------------------------------------------------------

type alg[S comparable] struct {
	name    string
	gen     func(rt *rapid.T) S
	fromInt func(int) S
	upd     func(S, int) S   // family of state transformers
	read    func(S, int) int // family of observations
}

var algInt = alg[int]{
	name:    "int",
	gen:     func(rt *rapid.T) int { return rapid.IntRange(-5, 20).Draw(rt, "s0") },
	fromInt: func(x int) int { return x },
	upd:     func(s, k int) int { return mod(s*3+k+1, 101) },
	read:    func(s, k int) int { return mod(s+k*5, 53) },
}

type rec2 struct {
	n   int
	log string
}

func clipLog(s string) string {
	if len(s) > 10 {
		return s[len(s)-10:]
	}
	return s
}

var algRec = alg[rec2]{
	name: "struct",
	gen: func(rt *rapid.T) rec2 {
		return rec2{n: rapid.IntRange(-5, 20).Draw(rt, "s0.n"), log: rapid.SampledFrom([]string{"", "x", "yz"}).Draw(rt, "s0.log")}
	},
	fromInt: func(x int) rec2 { return rec2{n: x, log: "P"} },
	upd: func(s rec2, k int) rec2 {
		return rec2{n: mod(s.n*3+k+1, 101), log: clipLog(s.log + string(rune('a'+mod(k, 26))))}
	},
	read: func(s rec2, k int) int { return mod(s.n+k*5+len(s.log), 53) },
}

// ---- AST ---------------------------------------------------------------------------------------------

type node struct {
	id       int
	kind     string
	k, k2, v int
	fail     int // -1 or index into kit.Errs
	flag     int
	xs       []int
	pred     []bool // indexed by errIdx+1 (11 entries)
	subs     []*node
	size     int
}

func (n *node) String() string {
	var sb strings.Builder
	n.write(&sb)
	return sb.String()
}

func (n *node) write(sb *strings.Builder) {
	ki := kindTab[n.kind]
	sb.WriteString(n.kind)
	sb.WriteString("(")
	fmt.Fprintf(sb, "k=%d,%d v=%d", n.k, n.k2, n.v)
	if ki.fail {
		fmt.Fprintf(sb, " fail=%d", n.fail)
	}
	if ki.flag > 0 {
		fmt.Fprintf(sb, " flag=%d", n.flag)
	}
	if ki.xs {
		fmt.Fprintf(sb, " xs=%v", n.xs)
	}
	if ki.pred {
		sb.WriteString(" pred=")
		for _, b := range n.pred {
			if b {
				sb.WriteByte('1')
			} else {
				sb.WriteByte('0')
			}
		}
	}
	sb.WriteString(")")
	if len(n.subs) > 0 {
		sb.WriteString("[")
		for i, c := range n.subs {
			if i > 0 {
				sb.WriteString(", ")
			}
			c.write(sb)
		}
		sb.WriteString("]")
	}
}

type kindInfo struct {
	name     string
	min, max int  // number of sub-programs
	fail     bool // has an injected-failure parameter
	flag     int  // number of API variants selected by flag (0: none)
	xs       bool
	pred     bool
}

var kinds = []kindInfo{
	{name: "Pure"}, {name: "Get"}, {name: "Put"}, {name: "PutWith"}, {name: "Modify"}, {name: "ModifyS"},
	{name: "ModifyT", fail: true}, {name: "GetS"}, {name: "GetST", fail: true}, {name: "FromTry", fail: true},
	{name: "Run"}, {name: "Merge"}, {name: "Raw", fail: true},
	{name: "Map", min: 1, max: 1}, {name: "Lift", min: 1, max: 1}, {name: "Replace", min: 1, max: 1},
	{name: "MapT", min: 1, max: 1, fail: true}, {name: "MapWithState", min: 1, max: 1}, {name: "MapWithStateT", min: 1, max: 1, fail: true},
	{name: "PeekState", min: 1, max: 1}, {name: "Transform", min: 1, max: 1, flag: 2},
	{name: "ApTry", min: 1, max: 1, fail: true}, {name: "ApOption", min: 1, max: 1, fail: true},
	{name: "Recover", min: 1, max: 1}, {name: "RecoverT", min: 1, max: 1, fail: true},
	{name: "RecoverWithState", min: 1, max: 1}, {name: "RecoverWithStateT", min: 1, max: 1, fail: true},
	{name: "RecoverCase", min: 1, max: 1, pred: true}, {name: "RecoverCaseT", min: 1, max: 1, fail: true, pred: true},
	{name: "RecoverWith", min: 2, max: 4}, {name: "RecoverCaseWith", min: 2, max: 4, pred: true},
	{name: "FlatMapConst", min: 2, max: 2}, {name: "Map2", min: 2, max: 2}, {name: "Zip", min: 2, max: 2}, {name: "Ap", min: 2, max: 2}, {name: "LiftA2", min: 2, max: 2},
	{name: "Map3", min: 3, max: 3}, {name: "TransformWith", min: 3, max: 3},
	{name: "FlatMap", min: 2, max: 4}, {name: "Flatten", min: 2, max: 4}, {name: "WithState", min: 1, max: 3}, {name: "LiftM2", min: 3, max: 5},
	{name: "Sequence", min: 0, max: 4, flag: 2}, {name: "Concat", min: 1, max: 4},
	{name: "Traverse", min: 1, max: 3, flag: 3, xs: true}, {name: "FoldM", min: 1, max: 3, xs: true},
}

var kindTab = func() map[string]kindInfo {
	m := map[string]kindInfo{}
	for _, k := range kinds {
		m[k.name] = k
	}
	return m
}()

var recoverKinds = map[string]bool{"Recover": true, "RecoverT": true, "RecoverWithState": true, "RecoverWithStateT": true,
	"RecoverCase": true, "RecoverCaseT": true, "RecoverWith": true, "RecoverCaseWith": true}

// sigName maps a node kind to the library function it exercises.
func sigName(kind string) string {
	switch {
	case recoverKinds[kind]:
		return "StateT." + kind
	case kind == "Raw":
		return "raw-step"
	}
	return "statet." + kind
}

type pgen struct {
	rt     *rapid.T
	rec    *kit.Rec
	nextID int
}

func (g *pgen) gen(budget int) *node {
	// weighted choice: raw steps (the only leaves that write and fail at once) and the Recover*
	// methods are drawn more often so that "recovery around a failure after a write" is common.
	var cands []kindInfo
	for _, k := range kinds {
		if k.min <= budget-1 {
			w := 2
			switch {
			case k.name == "Raw":
				w = 12
			case recoverKinds[k.name]:
				w = 5
			case k.name == "Pure" || k.name == "Get" || k.name == "GetS":
				w = 1
			}
			for i := 0; i < w; i++ {
				cands = append(cands, k)
			}
		}
	}
	var ki kindInfo
	found := false
	for attempt := 0; attempt < 40 && !found; attempt++ {
		ki = cands[uniform(g.rt, len(cands), "kind")]
		if ExcludedKinds[ki.name] {
			g.rec.Excluded()
			continue
		}
		found = true
	}
	if !found {
		ki = kindTab["Pure"]
	}
	n := &node{id: g.nextID, kind: ki.name, fail: -1, size: 1}
	g.nextID++
	n.k = rapid.IntRange(0, 5).Draw(g.rt, "k")
	n.k2 = rapid.IntRange(0, 5).Draw(g.rt, "k2")
	n.v = rapid.IntRange(0, 9).Draw(g.rt, "v")
	if ki.fail && rapid.IntRange(0, 4).Draw(g.rt, "fails") < 2 {
		n.fail = rapid.IntRange(0, 9).Draw(g.rt, "err")
	}
	if ki.flag > 0 {
		n.flag = rapid.IntRange(0, ki.flag-1).Draw(g.rt, "flag")
	}
	if ki.xs {
		n.xs = rapid.SliceOfN(rapid.IntRange(0, 5), 0, 4).Draw(g.rt, "xs")
	}
	if ki.pred {
		n.pred = rapid.SliceOfN(rapid.Bool(), 11, 11).Draw(g.rt, "pred")
	}
	if ki.max > 0 {
		hi := ki.max
		if hi > budget-1 {
			hi = budget - 1
		}
		cnt := rapid.IntRange(ki.min, hi).Draw(g.rt, "nsub")
		rest := budget - 1
		for i := 0; i < cnt; i++ {
			// an even share of what is left, sometimes everything that can be spared
			// (rapid's integer draws lean towards small values, which would starve the programs)
			b := rest / (cnt - i)
			if b < 1 || rapid.IntRange(0, 3).Draw(g.rt, "greedy") == 3 {
				b = rest - (cnt - i - 1)
			}
			c := g.gen(b)
			rest -= c.size
			n.size += c.size
			n.subs = append(n.subs, c)
		}
	}
	return n
}

// uniform draws an (almost) uniformly distributed index in [0,n): rapid's integer generators
// lean heavily towards small values, which would make nearly every node one of the first kinds.
func uniform(rt *rapid.T, n int, label string) int {
	v := 0
	for span := 1; span < n*8; span *= 2 {
		v *= 2
		if rapid.Bool().Draw(rt, label) {
			v++
		}
	}
	return v % n
}

func mixp(a, b int) int { return mod(a*7+b, 101) }
func foldp(vs []int) int {
	acc := 0
	for _, v := range vs {
		acc = mixp(acc, v)
	}
	return acc
}
func fmapK(k int) func(int) int      { return func(v int) int { return mod(v*3+k, 101) } }
func hvalOf(n *node, err error) int  { return mod(errIdx(err)*10+n.v, 101) }
func predOf(n *node, err error) bool { return n.pred[errIdx(err)+1] }

// ---- library side --------------------------------------------------------------------------------

type pworld[S comparable] struct {
	a    alg[S]
	hits map[int]int
}

func unit0(fp.Unit) int { return 0 }

func (w *pworld[S]) build(n *node) fp.StateT[S, int] {
	a := w.a
	sub := func(i int) fp.StateT[S, int] { return w.build(n.subs[i]) }
	failTry := func(v int) fp.Try[int] {
		if n.fail >= 0 {
			return try.Failure[int](kit.Errs[n.fail])
		}
		return try.Success(v)
	}
	switch n.kind {
	case "Pure":
		return statet.Pure[S](n.v)
	case "Get":
		return rawMap(statet.Get[S](), func(s S) int { return a.read(s, 0) })
	case "Put":
		return rawMap(statet.Put(a.fromInt(n.v)), unit0)
	case "PutWith":
		return rawMap(statet.PutWith(func(s S, v int) S { return a.upd(s, n.k*11+v) })(n.v), unit0)
	case "Modify":
		return rawMap(statet.Modify(func(s S) S { return a.upd(s, n.k) }), unit0)
	case "ModifyS":
		return statet.ModifyS(func(s S) S { return a.upd(s, n.k) }, func(s S) int { return a.read(s, n.k2) })
	case "ModifyT":
		return rawMap(statet.ModifyT(func(s S) fp.Try[S] {
			if n.fail >= 0 {
				return try.Failure[S](kit.Errs[n.fail])
			}
			return try.Success(a.upd(s, n.k))
		}), unit0)
	case "GetS":
		return statet.GetS(func(s S) int { return a.read(s, n.k) })
	case "GetST":
		return statet.GetST(func(s S) fp.Try[int] { return failTry(a.read(s, n.k)) })
	case "FromTry":
		return statet.FromTry[S](failTry(n.v))
	case "Run":
		return statet.Run(func(s S) (int, S) { return a.read(s, n.k2) + 1, a.upd(s, n.k) })
	case "Merge":
		return statet.Merge(func(s S) S { return a.upd(s, n.k) }, func(s S) int { return a.read(s, n.k2) })
	case "Raw":
		return func(s S) (fp.Try[int], S) {
			w.hits[n.id]++
			return failTry(n.v + a.read(s, 0)), a.upd(s, n.k)
		}
	case "Map":
		return statet.Map(sub(0), fmapK(n.k))
	case "Lift":
		return statet.Lift[S](fmapK(n.k))(sub(0))
	case "Replace":
		return statet.Replace(sub(0), n.v)
	case "MapT":
		return statet.MapT(sub(0), func(v int) fp.Try[int] {
			if n.fail >= 0 && mod(v, 2) == 0 {
				return try.Failure[int](kit.Errs[n.fail])
			}
			return try.Success(fmapK(n.k)(v))
		})
	case "MapWithState":
		return statet.MapWithState(sub(0), func(s S, v int) int { return mod(a.read(s, n.k)+v*2, 101) })
	case "MapWithStateT":
		return statet.MapWithStateT(sub(0), func(s S, v int) fp.Try[int] {
			if n.fail >= 0 && mod(v+a.read(s, n.k), 2) == 0 {
				return try.Failure[int](kit.Errs[n.fail])
			}
			return try.Success(mod(a.read(s, n.k)+v*2, 101))
		})
	case "PeekState":
		return statet.PeekState(sub(0), func(S) {})
	case "Transform":
		return statet.Transform(sub(0), func(s S, ta fp.Try[int]) (S, fp.Try[int]) {
			ns := a.upd(s, n.k)
			if ta.IsSuccess() {
				return ns, try.Success(mod(ta.Get()+1, 101))
			}
			if n.flag == 1 {
				return ns, try.Success(hvalOf(n, ta.Failed().Get()))
			}
			return ns, ta
		})
	case "ApTry":
		return statet.ApTry(rawMap(sub(0), func(v int) fp.Func1[int, int] { return func(x int) int { return mixp(v, x) } }), failTry(n.v))
	case "ApOption":
		arg := option.Some(n.v)
		if n.fail >= 0 {
			arg = option.None[int]()
		}
		return statet.ApOption(rawMap(sub(0), func(v int) fp.Func1[int, int] { return func(x int) int { return mixp(v, x) } }), arg)
	case "Recover":
		return sub(0).Recover(func(err error) int { return hvalOf(n, err) })
	case "RecoverT":
		return sub(0).RecoverT(func(err error) fp.Try[int] { return failTry(hvalOf(n, err)) })
	case "RecoverWithState":
		return sub(0).RecoverWithState(func(s S, err error) int { return mod(a.read(s, n.k)+hvalOf(n, err), 101) })
	case "RecoverWithStateT":
		return sub(0).RecoverWithStateT(func(s S, err error) fp.Try[int] { return failTry(mod(a.read(s, n.k)+hvalOf(n, err), 101)) })
	case "RecoverCase":
		return sub(0).RecoverCase(func(err error) bool { return predOf(n, err) }, func(err error) int { return hvalOf(n, err) })
	case "RecoverCaseT":
		return sub(0).RecoverCaseT(func(err error) bool { return predOf(n, err) }, func(err error) fp.Try[int] { return failTry(hvalOf(n, err)) })
	case "RecoverWith":
		return sub(0).RecoverWith(func(err error) fp.StateT[S, int] { return sub(1 + mod(errIdx(err)+1, len(n.subs)-1)) })
	case "RecoverCaseWith":
		return sub(0).RecoverCaseWith(func(err error) bool { return predOf(n, err) }, func(err error) fp.StateT[S, int] { return sub(1 + mod(errIdx(err)+1, len(n.subs)-1)) })
	case "FlatMapConst":
		return statet.FlatMapConst(sub(0), sub(1))
	case "Map2":
		return statet.Map2(sub(0), sub(1), mixp)
	case "Zip":
		return rawMap(statet.Zip(sub(0), sub(1)), func(t fp.Tuple2[int, int]) int { return mixp(t.I1, t.I2) })
	case "Ap":
		return statet.Ap(rawMap(sub(0), func(v int) fp.Func1[int, int] { return func(x int) int { return mixp(v, x) } }), sub(1))
	case "LiftA2":
		return statet.LiftA2[S](mixp)(sub(0), sub(1))
	case "Map3":
		return statet.Map3(sub(0), sub(1), sub(2), func(x, y, z int) int { return mixp(mixp(x, y), z) })
	case "TransformWith":
		return statet.TransformWith(sub(0), func(ta fp.Try[int]) fp.StateT[S, int] {
			if ta.IsSuccess() {
				return sub(1)
			}
			return sub(2)
		})
	case "FlatMap":
		return statet.FlatMap(sub(0), func(v int) fp.StateT[S, int] { return sub(1 + mod(v, len(n.subs)-1)) })
	case "Flatten":
		return statet.Flatten(rawMap(sub(0), func(v int) fp.StateT[S, int] { return sub(1 + mod(v, len(n.subs)-1)) }))
	case "WithState":
		return statet.WithState(func(s S) fp.StateT[S, int] { return sub(mod(a.read(s, 0), len(n.subs))) })
	case "LiftM2":
		return statet.LiftM2(func(x, y int) fp.StateT[S, int] { return sub(2 + mod(mixp(x, y), len(n.subs)-2)) })(sub(0), sub(1))
	case "Sequence":
		ps := make([]fp.StateT[S, int], len(n.subs))
		for i := range ps {
			ps[i] = sub(i)
		}
		if n.flag == 1 {
			return rawMap(statet.SequenceIterator(iterator.FromSeq(ps)), func(it fp.Iterator[int]) int { return foldp(it.ToSeq()) })
		}
		return rawMap(statet.Sequence(ps), foldp)
	case "Concat":
		ps := make([]fp.StateT[S, int], len(n.subs))
		for i := range ps {
			ps[i] = sub(i)
		}
		return statet.Concat(ps[0], ps[1:]...)
	case "Traverse":
		fn := func(x int) fp.StateT[S, int] { return sub(mod(x, len(n.subs))) }
		xs := append([]int{}, n.xs...)
		switch n.flag {
		case 1:
			return rawMap(statet.TraverseSeq(fp.Seq[int](xs), fn), func(r fp.Seq[int]) int { return foldp(r) })
		case 2:
			return rawMap(statet.TraverseSlice(xs, fn), foldp)
		}
		return rawMap(statet.Traverse(iterator.FromSeq(xs), fn), func(it fp.Iterator[int]) int { return foldp(it.ToSeq()) })
	case "FoldM":
		xs := append([]int{}, n.xs...)
		return statet.FoldM(iterator.FromSeq(xs), n.v, func(b int, x int) fp.StateT[S, int] {
			return rawMap(sub(mod(b+x, len(n.subs))), func(v int) int { return mixp(b, v) })
		})
	}
	panic("c17: unknown node kind " + n.kind)
}

// ---- reference interpreter -----------------------------------------------------------------------

type refI[S comparable] struct {
	a      alg[S]
	hits   map[int]int
	inputs map[int][]S // states each node was entered with (first few)
	nt     bool        // some Recover* handled a failure whose state differs from the state the recovered program started in
	failed bool        // some step failed
}

func (r *refI[S]) eval(n *node, s S) (int, error, S) {
	a := r.a
	if len(r.inputs[n.id]) < 4 {
		r.inputs[n.id] = append(r.inputs[n.id], s)
	}
	injected := func() error {
		if n.fail >= 0 {
			r.failed = true
			return kit.Errs[n.fail]
		}
		return nil
	}
	seq := func(from S, idx ...int) ([]int, error, S) { // run the listed sub-programs one after the other
		cur := from
		var vals []int
		for _, i := range idx {
			v, err, ns := r.eval(n.subs[i], cur)
			cur = ns
			if err != nil {
				return nil, err, cur
			}
			vals = append(vals, v)
		}
		return vals, nil, cur
	}
	switch n.kind {
	case "Pure":
		return n.v, nil, s
	case "Get":
		return a.read(s, 0), nil, s
	case "Put":
		return 0, nil, a.fromInt(n.v)
	case "PutWith":
		return 0, nil, a.upd(s, n.k*11+n.v)
	case "Modify":
		return 0, nil, a.upd(s, n.k)
	case "ModifyS", "Merge":
		return a.read(s, n.k2), nil, a.upd(s, n.k)
	case "Run":
		return a.read(s, n.k2) + 1, nil, a.upd(s, n.k)
	case "ModifyT":
		if e := injected(); e != nil {
			return 0, e, s
		}
		return 0, nil, a.upd(s, n.k)
	case "GetS":
		return a.read(s, n.k), nil, s
	case "GetST":
		if e := injected(); e != nil {
			return 0, e, s
		}
		return a.read(s, n.k), nil, s
	case "FromTry":
		if e := injected(); e != nil {
			return 0, e, s
		}
		return n.v, nil, s
	case "Raw":
		r.hits[n.id]++
		if e := injected(); e != nil {
			return 0, e, a.upd(s, n.k) // the failing step has written the state
		}
		return n.v + a.read(s, 0), nil, a.upd(s, n.k)
	}
	// everything below starts by running sub-program 0 from s, except WithState / Sequence / Concat / Traverse / FoldM
	switch n.kind {
	case "WithState":
		return r.eval(n.subs[mod(a.read(s, 0), len(n.subs))], s)
	case "Sequence":
		vals, err, ns := seq(s, idxs(len(n.subs))...)
		if err != nil {
			return 0, err, ns
		}
		return foldp(vals), nil, ns
	case "Concat":
		vals, err, ns := seq(s, idxs(len(n.subs))...)
		if err != nil {
			return 0, err, ns
		}
		return vals[len(vals)-1], nil, ns
	case "Traverse":
		cur := s
		var vals []int
		for _, x := range n.xs {
			v, err, ns := r.eval(n.subs[mod(x, len(n.subs))], cur)
			cur = ns
			if err != nil {
				return 0, err, cur
			}
			vals = append(vals, v)
		}
		return foldp(vals), nil, cur
	case "FoldM":
		cur, acc := s, n.v
		for _, x := range n.xs {
			v, err, ns := r.eval(n.subs[mod(acc+x, len(n.subs))], cur)
			cur = ns
			if err != nil {
				return 0, err, cur
			}
			acc = mixp(acc, v)
		}
		return acc, nil, cur
	}
	v, err, ns := r.eval(n.subs[0], s)
	if recoverKinds[n.kind] {
		if err == nil {
			return v, nil, ns // successes are left untouched
		}
		if n.pred != nil && !predOf(n, err) {
			return 0, err, ns
		}
		if ns != s {
			r.nt = true
		}
		switch n.kind {
		case "Recover", "RecoverCase":
			return hvalOf(n, err), nil, ns
		case "RecoverT", "RecoverCaseT":
			if e := injected(); e != nil {
				return 0, e, ns
			}
			return hvalOf(n, err), nil, ns
		case "RecoverWithState":
			return mod(a.read(ns, n.k)+hvalOf(n, err), 101), nil, ns
		case "RecoverWithStateT":
			if e := injected(); e != nil {
				return 0, e, ns
			}
			return mod(a.read(ns, n.k)+hvalOf(n, err), 101), nil, ns
		default: // RecoverWith, RecoverCaseWith: the handler program runs from the post-failure state
			return r.eval(n.subs[1+mod(errIdx(err)+1, len(n.subs)-1)], ns)
		}
	}
	switch n.kind {
	case "Transform": // sees successes and failures; always rewrites the state
		nss := a.upd(ns, n.k)
		if err == nil {
			return mod(v+1, 101), nil, nss
		}
		if n.flag == 1 {
			return hvalOf(n, err), nil, nss
		}
		return 0, err, nss
	case "TransformWith":
		if err == nil {
			return r.eval(n.subs[1], ns)
		}
		return r.eval(n.subs[2], ns)
	case "PeekState":
		return v, err, ns
	}
	if err != nil { // all remaining combinators stop at the first failure and report its state
		return 0, err, ns
	}
	switch n.kind {
	case "Map", "Lift":
		return fmapK(n.k)(v), nil, ns
	case "Replace":
		return n.v, nil, ns
	case "MapT":
		if n.fail >= 0 && mod(v, 2) == 0 {
			return 0, injected(), ns
		}
		return fmapK(n.k)(v), nil, ns
	case "MapWithState":
		return mod(a.read(ns, n.k)+v*2, 101), nil, ns
	case "MapWithStateT":
		if n.fail >= 0 && mod(v+a.read(ns, n.k), 2) == 0 {
			return 0, injected(), ns
		}
		return mod(a.read(ns, n.k)+v*2, 101), nil, ns
	case "ApTry":
		if e := injected(); e != nil {
			return 0, e, ns
		}
		return mixp(v, n.v), nil, ns
	case "ApOption":
		if n.fail >= 0 {
			r.failed = true
			return 0, fp.ErrOptionEmpty, ns
		}
		return mixp(v, n.v), nil, ns
	case "FlatMapConst":
		return r.eval(n.subs[1], ns)
	case "Map2", "Zip", "Ap", "LiftA2":
		v2, err2, ns2 := r.eval(n.subs[1], ns)
		if err2 != nil {
			return 0, err2, ns2
		}
		return mixp(v, v2), nil, ns2
	case "Map3":
		rest, err2, ns2 := seq(ns, 1, 2)
		if err2 != nil {
			return 0, err2, ns2
		}
		return mixp(mixp(v, rest[0]), rest[1]), nil, ns2
	case "FlatMap", "Flatten":
		return r.eval(n.subs[1+mod(v, len(n.subs)-1)], ns)
	case "LiftM2":
		v2, err2, ns2 := r.eval(n.subs[1], ns)
		if err2 != nil {
			return 0, err2, ns2
		}
		return r.eval(n.subs[2+mod(mixp(v, v2), len(n.subs)-2)], ns2)
	}
	panic("c17: reference: unknown node kind " + n.kind)
}

func newRef[S comparable](a alg[S]) *refI[S] {
	return &refI[S]{a: a, hits: map[int]int{}, inputs: map[int][]S{}}
}

func hitsDiff(got, want map[int]int) string {
	keys := map[int]bool{}
	for k := range got {
		keys[k] = true
	}
	for k := range want {
		keys[k] = true
	}
	ks := []int{}
	for k := range keys {
		ks = append(ks, k)
	}
	sort.Ints(ks)
	for _, k := range ks {
		if got[k] != want[k] {
			return fmt.Sprintf("raw step #%d executed %d times, reference %d", k, got[k], want[k])
		}
	}
	return ""
}

func postOrder(n *node, f func(*node)) {
	for _, c := range n.subs {
		postOrder(c, f)
	}
	f(n)
}

// compareOn runs one (sub-)program through library and reference from state s.
func compareOn[S comparable](a alg[S], n *node, s S) (msg string, got, want res[S, int]) {
	ref := newRef(a)
	v, err, ns := ref.eval(n, s)
	if err != nil {
		want = failRes[S, int](err, ns)
	} else {
		want = okRes(v, ns)
	}
	w := &pworld[S]{a: a, hits: map[int]int{}}
	if pv, panicked := kit.Catch(func() { got = runST(w.build(n), s) }); panicked {
		return fmt.Sprintf("panic: %v", pv), got, want
	}
	if d := diff(got, want); d != "" {
		return d + " differs", got, want
	}
	return hitsDiff(w.hits, ref.hits), got, want
}

func programCheck[S comparable](t *testing.T, a alg[S]) {
	rule := "program AST (size <= 12 quick / 60 thorough) over state " + a.name + " drawn from 46 node kinds (primitives, raw steps that write and optionally fail, map-like wrappers, " +
		"FlatMap/Flatten/WithState/LiftM2 with value-indexed continuation tables, Map2/Zip/Ap/LiftA2/Map3, Sequence/Concat/Traverse*/FoldM, Transform(With), all eight Recover* methods) with failures injected at leaves and callbacks; " +
		"oracle: reference interpreter s -> (value|error, s'); value / error identity / final state / executions of every raw step compared; " +
		"the same program value is then run three more times (from s0, another drawn state, s0 again) and every run must agree with the reference; " +
		"non-trivial iff some Recover* handles a failure whose state differs from the state the recovered program started with; distinct by (program, s0)"
	kit.Check(t, "program/"+a.name, rule, kit.Opt{Weight: 2}, func(rt *rapid.T, rec *kit.Rec) {
		g := &pgen{rt: rt, rec: rec}
		maxSize := kit.Pick(12, 60)
		size := 1 + uniform(rt, maxSize, "size")
		if s2 := 1 + uniform(rt, maxSize, "size"); s2 > size { // the larger of two uniform draws: a budget, not the exact size
			size = s2
		}
		root := g.gen(size)
		s0 := a.gen(rt)
		ref := newRef(a)
		v, err, ns := ref.eval(root, s0)
		want := okRes(v, ns)
		if err != nil {
			want = failRes[S, int](err, ns)
		}
		desc := fmt.Sprintf("%v | s0=%v", root, s0)
		rec.Case(ref.nt, desc)
		rec.Label(fmt.Sprintf("size<=%d", (root.size+9)/10*10))
		switch {
		case ref.nt:
			rec.Label("recovered-after-write")
		case ref.failed:
			rec.Label("some-failure")
		default:
			rec.Label("no-failure")
		}
		w := &pworld[S]{a: a, hits: map[int]int{}}
		var got res[S, int]
		rec.Guard(rt, "C17|program/"+a.name+"|run", func() { got = runST(w.build(root), s0) })
		msg := ""
		if d := diff(got, want); d != "" {
			msg = d + " differs"
		} else {
			msg = hitsDiff(w.hits, ref.hits)
		}
		if msg == "" {
			// A StateT is a value: the same program value run again - from another initial state first,
			// then from s0 once more - must behave exactly as a freshly built one (nothing learnt in one
			// run may leak into the next).
			st := w.build(root)
			s1 := a.gen(rt)
			for pass, s := range []S{s0, s1, s0} {
				ref2 := newRef(a)
				v2, err2, ns2 := ref2.eval(root, s)
				want2 := okRes(v2, ns2)
				if err2 != nil {
					want2 = failRes[S, int](err2, ns2)
				}
				w.hits = map[int]int{}
				var got2 res[S, int]
				rec.Guard(rt, "C17|program/"+a.name+"|rerun", func() { got2 = runST(st, s) })
				m2 := ""
				if d := diff(got2, want2); d != "" {
					m2 = d + " differs"
				} else {
					m2 = hitsDiff(w.hits, ref2.hits)
				}
				if m2 != "" {
					rec.Failf(rt, "C17|program/"+a.name+"|rerun", "program %s: run %d of the SAME StateT value (initial states s0, %v, s0), from %v: %s: library %v, reference %v (a freshly built value agreed with the reference)", desc, pass+1, s1, s, m2, got2, want2)
				}
			}
			return
		}
		// localise: the first node in post-order (all its sub-programs agree) on which library and
		// reference disagree for one of the states the reference entered it with.
		sig := "C17|program/" + a.name + "|model-mismatch"
		where := ""
		done := false
		postOrder(root, func(n *node) {
			if done {
				return
			}
			for _, s := range ref.inputs[n.id] {
				if m, g2, w2 := compareOn(a, n, s); m != "" {
					sig = "C17|" + sigName(n.kind) + "|program"
					where = fmt.Sprintf("\nsmallest disagreeing sub-program: %v from state %v: %s: library %v, reference %v", n, s, m, g2, w2)
					done = true
					return
				}
			}
		})
		rec.Failf(rt, sig, "program %s: %s: library %v, reference %v%s", desc, msg, got, want, where)
	})
}

func TestProgram(t *testing.T) {
	programCheck(t, algInt)
	programCheck(t, algRec)
}
