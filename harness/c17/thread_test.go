package c17

import (
	"errors"
	"fmt"
	"strings"
	"testing"

	"github.com/csgura/fp"
	"github.com/csgura/fp/iterator"
	"github.com/csgura/fp/statet"
	"github.com/csgura/fp/try"
	"pgregory.net/rapid"

	"verifharness/kit"
)

// The state is a trace string. Step i, run on state s, appends its tag to the trace (so the
// order of execution is visible in the final state), returns a value that depends on the state
// it read (val*100+len(s)), and - when it is the failing step - appends "!" as well and fails
// with its sentinel: a failing step may write the state, and that state must be reported.

type stepSpec struct{ val, fail int }

type world struct {
	hits  []int
	order []int
}

func tag(i int) string { return string(rune('a' + i)) }

func stepFn(w *world, i int, sp stepSpec) fp.StateT[string, int] {
	return func(s string) (fp.Try[int], string) {
		w.hits[i]++
		w.order = append(w.order, i)
		ns := s + tag(i)
		if sp.fail >= 0 {
			return try.Failure[int](kit.Errs[sp.fail]), ns + "!"
		}
		return try.Success(sp.val*100 + len(s)), ns
	}
}

func mix2(a, b int) int       { return a*31 + b }
func mix3(a, b, c int) int    { return mix2(mix2(a, b), c) }
func mix4(a, b, c, d int) int { return mix2(mix3(a, b, c), d) }
func mixAll(vs []int) int {
	r := 7
	for _, v := range vs {
		r = mix2(r, v)
	}
	return r
}

type ST = fp.StateT[string, int]

var errPoison = errors.New("step written into the caller's slice after the program was built")

// poison overwrites every element of a slice that was handed to a combinator with a failing step.
func poison(steps []ST) {
	for i := range steps {
		steps[i] = func(s string) (fp.Try[int], string) { return try.Failure[int](errPoison), s + "?" }
	}
}
type kont = func(vals ...int) ST

// comb describes one multi-step combinator: how many steps it takes, whether it takes a
// continuation that receives the steps' values and returns a further step, how to run the
// library on them, and what the value must be (given the values the steps produced).
type comb struct {
	name       string
	nmin, nmax int
	cont       bool
	kx         []int // constant extra arguments the continuation receives after the steps' values
	run        func(st []ST, k kont, s0 string) res[string, string]
	want       func(v []int, kv int) string
}

func rs[A any](st fp.StateT[string, A], s0 string, show func(A) string) res[string, string] {
	r := runST(st, s0)
	if r.ok {
		return okRes(show(r.v), r.s)
	}
	return failRes[string, string](r.err, r.s)
}

func showInt(v int) string         { return fmt.Sprint(v) }
func showInts(v []int) string      { return fmt.Sprint(append([]int{}, v...)) }
func showSeq(v fp.Seq[int]) string { return fmt.Sprint(append([]int{}, v...)) }
func showIter(v fp.Iterator[int]) string {
	return fmt.Sprint(append([]int{}, v.ToSeq()...))
}
func idxs(n int) []int {
	r := make([]int, n)
	for i := range r {
		r[i] = i
	}
	return r
}

func fnStep(st ST) fp.StateT[string, fp.Func1[int, int]] {
	return rawMap(st, func(a int) fp.Func1[int, int] { return func(b int) int { return mix2(a, b) } })
}

var wantK = func(v []int, kv int) string { return fmt.Sprint(kv) }

func combs() []comb {
	m2 := func(v []int, _ int) string { return fmt.Sprint(mix2(v[0], v[1])) }
	m3 := func(v []int, _ int) string { return fmt.Sprint(mix3(v[0], v[1], v[2])) }
	m4 := func(v []int, _ int) string { return fmt.Sprint(mix4(v[0], v[1], v[2], v[3])) }
	all := func(v []int, _ int) string { return fmt.Sprint(append([]int{}, v...)) }
	return []comb{
		{name: "statet.FlatMap", nmin: 1, nmax: 1, cont: true, want: wantK,
			run: func(st []ST, k kont, s0 string) res[string, string] {
				return rs(statet.FlatMap(st[0], func(a int) ST { return k(a) }), s0, showInt)
			}},
		{name: "statet.FlatMapConst", nmin: 2, nmax: 2, want: func(v []int, _ int) string { return fmt.Sprint(v[1]) },
			run: func(st []ST, k kont, s0 string) res[string, string] {
				return rs(statet.FlatMapConst(st[0], st[1]), s0, showInt)
			}},
		{name: "statet.Map", nmin: 1, nmax: 1, want: func(v []int, _ int) string { return fmt.Sprint(v[0]*3 + 1) },
			run: func(st []ST, k kont, s0 string) res[string, string] {
				return rs(statet.Map(st[0], func(a int) int { return a*3 + 1 }), s0, showInt)
			}},
		{name: "statet.Replace", nmin: 1, nmax: 1, want: func(v []int, _ int) string { return "42" },
			run: func(st []ST, k kont, s0 string) res[string, string] {
				return rs(statet.Replace(st[0], 42), s0, showInt)
			}},
		{name: "statet.Flatten", nmin: 1, nmax: 1, cont: true, want: wantK,
			run: func(st []ST, k kont, s0 string) res[string, string] {
				return rs(statet.Flatten(rawMap(st[0], func(a int) ST { return k(a) })), s0, showInt)
			}},
		{name: "statet.Map2", nmin: 2, nmax: 2, want: m2,
			run: func(st []ST, k kont, s0 string) res[string, string] {
				return rs(statet.Map2(st[0], st[1], mix2), s0, showInt)
			}},
		{name: "statet.Zip", nmin: 2, nmax: 2, want: func(v []int, _ int) string { return fmt.Sprintf("(%d,%d)", v[0], v[1]) },
			run: func(st []ST, k kont, s0 string) res[string, string] {
				return rs(statet.Zip(st[0], st[1]), s0, func(t fp.Tuple2[int, int]) string { return fmt.Sprintf("(%d,%d)", t.I1, t.I2) })
			}},
		{name: "statet.Zip3", nmin: 3, nmax: 3, want: func(v []int, _ int) string { return fmt.Sprintf("(%d,%d,%d)", v[0], v[1], v[2]) },
			run: func(st []ST, k kont, s0 string) res[string, string] {
				return rs(statet.Zip3(st[0], st[1], st[2]), s0, func(t fp.Tuple3[int, int, int]) string { return fmt.Sprintf("(%d,%d,%d)", t.I1, t.I2, t.I3) })
			}},
		{name: "statet.Ap", nmin: 2, nmax: 2, want: m2,
			run: func(st []ST, k kont, s0 string) res[string, string] {
				return rs(statet.Ap(fnStep(st[0]), st[1]), s0, showInt)
			}},
		{name: "statet.ApFunc", nmin: 2, nmax: 2, want: m2,
			run: func(st []ST, k kont, s0 string) res[string, string] {
				return rs(statet.ApFunc(fnStep(st[0]), func() ST { return st[1] }), s0, showInt)
			}},
		{name: "statet.Compose", nmin: 1, nmax: 1, cont: true, want: wantK,
			run: func(st []ST, k kont, s0 string) res[string, string] {
				return rs(statet.Compose(func(int) ST { return st[0] }, func(b int) ST { return k(b) })(0), s0, showInt)
			}},
		{name: "statet.Compose2", nmin: 1, nmax: 1, cont: true, want: wantK,
			run: func(st []ST, k kont, s0 string) res[string, string] {
				return rs(statet.Compose2(func(int) ST { return st[0] }, func(b int) ST { return k(b) })(0), s0, showInt)
			}},
		{name: "statet.Compose3", nmin: 2, nmax: 2, cont: true, want: func(v []int, kv int) string { return fmt.Sprint(kv) },
			run: func(st []ST, k kont, s0 string) res[string, string] {
				var first int
				f1 := fp.Func1[int, ST](func(int) ST { return st[0] })
				f2 := fp.Func1[int, ST](func(a int) ST { first = a; return st[1] })
				f3 := fp.Func1[int, ST](func(b int) ST { return k(first, b) })
				return rs(statet.Compose3(f1, f2, f3)(0), s0, showInt)
			}},
		{name: "statet.Lift", nmin: 1, nmax: 1, want: func(v []int, _ int) string { return fmt.Sprint(v[0]*3 + 1) },
			run: func(st []ST, k kont, s0 string) res[string, string] {
				return rs(statet.Lift[string](func(a int) int { return a*3 + 1 })(st[0]), s0, showInt)
			}},
		{name: "statet.LiftA2", nmin: 2, nmax: 2, want: m2,
			run: func(st []ST, k kont, s0 string) res[string, string] {
				return rs(statet.LiftA2[string](mix2)(st[0], st[1]), s0, showInt)
			}},
		{name: "statet.LiftA3", nmin: 3, nmax: 3, want: m3,
			run: func(st []ST, k kont, s0 string) res[string, string] {
				return rs(statet.LiftA3[string](mix3)(st[0], st[1], st[2]), s0, showInt)
			}},
		{name: "statet.Map3", nmin: 3, nmax: 3, want: m3,
			run: func(st []ST, k kont, s0 string) res[string, string] {
				return rs(statet.Map3(st[0], st[1], st[2], mix3), s0, showInt)
			}},
		{name: "statet.LiftA4", nmin: 4, nmax: 4, want: m4,
			run: func(st []ST, k kont, s0 string) res[string, string] {
				return rs(statet.LiftA4[string](mix4)(st[0], st[1], st[2], st[3]), s0, showInt)
			}},
		{name: "statet.Map4", nmin: 4, nmax: 4, want: m4,
			run: func(st []ST, k kont, s0 string) res[string, string] {
				return rs(statet.Map4(st[0], st[1], st[2], st[3], mix4), s0, showInt)
			}},
		{name: "statet.LiftA9", nmin: 9, nmax: 9, want: func(v []int, _ int) string { return fmt.Sprint(mixAll(v)) },
			run: func(st []ST, k kont, s0 string) res[string, string] {
				f := func(a, b, c, d, e, f, g, h, i int) int { return mixAll([]int{a, b, c, d, e, f, g, h, i}) }
				return rs(statet.LiftA9[string](f)(st[0], st[1], st[2], st[3], st[4], st[5], st[6], st[7], st[8]), s0, showInt)
			}},
		{name: "statet.LiftM", nmin: 1, nmax: 1, cont: true, want: wantK,
			run: func(st []ST, k kont, s0 string) res[string, string] {
				return rs(statet.LiftM(func(a int) ST { return k(a) })(st[0]), s0, showInt)
			}},
		{name: "statet.LiftM2", nmin: 2, nmax: 2, cont: true, want: wantK,
			run: func(st []ST, k kont, s0 string) res[string, string] {
				return rs(statet.LiftM2(func(a, b int) ST { return k(a, b) })(st[0], st[1]), s0, showInt)
			}},
		{name: "statet.FlatMap2", nmin: 2, nmax: 2, cont: true, want: wantK,
			run: func(st []ST, k kont, s0 string) res[string, string] {
				return rs(statet.FlatMap2(st[0], st[1], func(a, b int) ST { return k(a, b) }), s0, showInt)
			}},
		{name: "statet.LiftM3", nmin: 3, nmax: 3, cont: true, want: wantK,
			run: func(st []ST, k kont, s0 string) res[string, string] {
				return rs(statet.LiftM3(func(a, b, c int) ST { return k(a, b, c) })(st[0], st[1], st[2]), s0, showInt)
			}},
		{name: "statet.FlatMap3", nmin: 3, nmax: 3, cont: true, want: wantK,
			run: func(st []ST, k kont, s0 string) res[string, string] {
				return rs(statet.FlatMap3(st[0], st[1], st[2], func(a, b, c int) ST { return k(a, b, c) }), s0, showInt)
			}},
		{name: "statet.LiftM4", nmin: 4, nmax: 4, cont: true, want: wantK,
			run: func(st []ST, k kont, s0 string) res[string, string] {
				return rs(statet.LiftM4(func(a, b, c, d int) ST { return k(a, b, c, d) })(st[0], st[1], st[2], st[3]), s0, showInt)
			}},
		{name: "statet.LiftM9", nmin: 9, nmax: 9, cont: true, want: wantK,
			run: func(st []ST, k kont, s0 string) res[string, string] {
				f := func(a, b, c, d, e, f, g, h, i int) ST { return k(a, b, c, d, e, f, g, h, i) }
				return rs(statet.LiftM9(f)(st[0], st[1], st[2], st[3], st[4], st[5], st[6], st[7], st[8]), s0, showInt)
			}},
		{name: "statet.Flap", nmin: 1, nmax: 1, want: func(v []int, _ int) string { return fmt.Sprint(mix2(v[0], 5)) },
			run: func(st []ST, k kont, s0 string) res[string, string] {
				return rs(statet.Flap(fnStep(st[0]))(5), s0, showInt)
			}},
		{name: "statet.Flap2", nmin: 1, nmax: 1, want: func(v []int, _ int) string { return fmt.Sprint(mix3(v[0], 5, 6)) },
			run: func(st []ST, k kont, s0 string) res[string, string] {
				tf := rawMap(st[0], func(a int) fp.Func1[int, fp.Func1[int, int]] {
					return func(b int) fp.Func1[int, int] { return func(c int) int { return mix3(a, b, c) } }
				})
				return rs(statet.Flap2(tf)(5)(6), s0, showInt)
			}},
		{name: "statet.FlapMap", nmin: 1, nmax: 1, want: func(v []int, _ int) string { return fmt.Sprint(mix2(v[0], 5)) },
			run: func(st []ST, k kont, s0 string) res[string, string] {
				return rs(statet.FlapMap(mix2, st[0])(5), s0, showInt)
			}},
		{name: "statet.FlatFlapMap", nmin: 1, nmax: 1, cont: true, kx: []int{5}, want: wantK,
			run: func(st []ST, k kont, s0 string) res[string, string] {
				return rs(statet.FlatFlapMap(func(a, b int) ST { return k(a, b) }, st[0])(5), s0, showInt)
			}},
		{name: "statet.Method1", nmin: 1, nmax: 1, want: func(v []int, _ int) string { return fmt.Sprint(mix2(v[0], 5)) },
			run: func(st []ST, k kont, s0 string) res[string, string] {
				return rs(statet.Method1(st[0], mix2)(5), s0, showInt)
			}},
		{name: "statet.FlatMethod1", nmin: 1, nmax: 1, cont: true, kx: []int{5}, want: wantK,
			run: func(st []ST, k kont, s0 string) res[string, string] {
				return rs(statet.FlatMethod1(st[0], func(a, b int) ST { return k(a, b) })(5), s0, showInt)
			}},
		{name: "statet.Method2", nmin: 1, nmax: 1, want: func(v []int, _ int) string { return fmt.Sprint(mix3(v[0], 5, 6)) },
			run: func(st []ST, k kont, s0 string) res[string, string] {
				return rs(statet.Method2(st[0], mix3)(5, 6), s0, showInt)
			}},
		{name: "statet.FlatMethod2", nmin: 1, nmax: 1, cont: true, kx: []int{5, 6}, want: wantK,
			run: func(st []ST, k kont, s0 string) res[string, string] {
				return rs(statet.FlatMethod2(st[0], func(a, b, c int) ST { return k(a, b, c) })(5, 6), s0, showInt)
			}},
		{name: "statet.Method3", nmin: 1, nmax: 1, want: func(v []int, _ int) string { return fmt.Sprint(mix3(v[0], 5, 6)) },
			run: func(st []ST, k kont, s0 string) res[string, string] {
				return rs(statet.Method3(st[0], mix3)(5, 6), s0, showInt)
			}},
		{name: "statet.FlatMethod3", nmin: 1, nmax: 1, cont: true, kx: []int{5, 6}, want: wantK,
			run: func(st []ST, k kont, s0 string) res[string, string] {
				return rs(statet.FlatMethod3(st[0], func(a, b, c int) ST { return k(a, b, c) })(5, 6), s0, showInt)
			}},
		{name: "statet.With", nmin: 1, nmax: 1, want: func(v []int, _ int) string { return fmt.Sprint(mix2(5, v[0])) },
			run: func(st []ST, k kont, s0 string) res[string, string] {
				return rs(statet.With(mix2, st[0])(5), s0, showInt)
			}},
		{name: "statet.MapSeqLift", nmin: 1, nmax: 1, want: func(v []int, _ int) string { return fmt.Sprint([]int{v[0] * 2, v[0]*2 + 2}) },
			run: func(st []ST, k kont, s0 string) res[string, string] {
				ta := rawMap(st[0], func(a int) fp.Seq[int] { return fp.Seq[int]{a, a + 1} })
				return rs(statet.MapSeqLift(ta, func(x int) int { return x * 2 }), s0, showSeq)
			}},
		{name: "statet.MapSliceLift", nmin: 1, nmax: 1, want: func(v []int, _ int) string { return fmt.Sprint([]int{v[0] * 2, v[0]*2 + 2}) },
			run: func(st []ST, k kont, s0 string) res[string, string] {
				ta := rawMap(st[0], func(a int) []int { return []int{a, a + 1} })
				return rs(statet.MapSliceLift(ta, func(x int) int { return x * 2 }), s0, showInts)
			}},
		{name: "statet.Sequence", nmin: 0, nmax: 6, want: all,
			run: func(st []ST, k kont, s0 string) res[string, string] {
				// the caller's slice is overwritten after the program is built: the program is what it was built from
				cp := append([]ST(nil), st...)
				p := statet.Sequence(cp)
				poison(cp)
				return rs(p, s0, showInts)
			}},
		{name: "statet.SequenceIterator", nmin: 0, nmax: 6, want: all,
			run: func(st []ST, k kont, s0 string) res[string, string] {
				return rs(statet.SequenceIterator(iterator.FromSeq(st)), s0, showIter)
			}},
		{name: "statet.Traverse", nmin: 0, nmax: 6, want: all,
			run: func(st []ST, k kont, s0 string) res[string, string] {
				return rs(statet.Traverse(iterator.FromSeq(idxs(len(st))), func(i int) ST { return st[i] }), s0, showIter)
			}},
		{name: "statet.TraverseSeq", nmin: 0, nmax: 6, want: all,
			run: func(st []ST, k kont, s0 string) res[string, string] {
				return rs(statet.TraverseSeq(fp.Seq[int](idxs(len(st))), func(i int) ST { return st[i] }), s0, showSeq)
			}},
		{name: "statet.TraverseSlice", nmin: 0, nmax: 6, want: all,
			run: func(st []ST, k kont, s0 string) res[string, string] {
				return rs(statet.TraverseSlice(idxs(len(st)), func(i int) ST { return st[i] }), s0, showInts)
			}},
		{name: "statet.TraverseFunc", nmin: 0, nmax: 6, want: all,
			run: func(st []ST, k kont, s0 string) res[string, string] {
				return rs(statet.TraverseFunc(func(i int) ST { return st[i] })(iterator.FromSeq(idxs(len(st)))), s0, showIter)
			}},
		{name: "statet.TraverseSeqFunc", nmin: 0, nmax: 6, want: all,
			run: func(st []ST, k kont, s0 string) res[string, string] {
				return rs(statet.TraverseSeqFunc(func(i int) ST { return st[i] })(fp.Seq[int](idxs(len(st)))), s0, showSeq)
			}},
		{name: "statet.TraverseSliceFunc", nmin: 0, nmax: 6, want: all,
			run: func(st []ST, k kont, s0 string) res[string, string] {
				return rs(statet.TraverseSliceFunc(func(i int) ST { return st[i] })(idxs(len(st))), s0, showInts)
			}},
		{name: "statet.FlatMapTraverseSeq", nmin: 1, nmax: 6, want: func(v []int, _ int) string { return fmt.Sprint(append([]int{}, v[1:]...)) },
			run: func(st []ST, k kont, s0 string) res[string, string] {
				ta := rawMap(st[0], func(int) fp.Seq[int] { return fp.Seq[int](idxs(len(st))[1:]) })
				return rs(statet.FlatMapTraverseSeq(ta, func(i int) ST { return st[i] }), s0, showSeq)
			}},
		{name: "statet.FlatMapTraverseSlice", nmin: 1, nmax: 6, want: func(v []int, _ int) string { return fmt.Sprint(append([]int{}, v[1:]...)) },
			run: func(st []ST, k kont, s0 string) res[string, string] {
				ta := rawMap(st[0], func(int) []int { return idxs(len(st))[1:] })
				return rs(statet.FlatMapTraverseSlice(ta, func(i int) ST { return st[i] }), s0, showInts)
			}},
		{name: "statet.FoldM", nmin: 0, nmax: 6, want: func(v []int, _ int) string {
			acc := 1
			for _, x := range v {
				acc = mix2(acc, x)
			}
			return fmt.Sprint(acc)
		},
			run: func(st []ST, k kont, s0 string) res[string, string] {
				return rs(statet.FoldM(iterator.FromSeq(idxs(len(st))), 1, func(acc int, i int) ST {
					return rawMap(st[i], func(v int) int { return mix2(acc, v) })
				}), s0, showInt)
			}},
		{name: "statet.Concat", nmin: 1, nmax: 6, want: func(v []int, _ int) string { return fmt.Sprint(v[len(v)-1]) },
			run: func(st []ST, k kont, s0 string) res[string, string] {
				// Concat(start, tail...) receives the caller's slice itself: overwriting it afterwards (a scratch
				// slice reused for the next pipeline) must not change the program already built
				cp := append([]ST(nil), st...)
				p := statet.Concat(cp[0], cp[1:]...)
				poison(cp)
				return rs(p, s0, showInt)
			}},
	}
}

type scenario struct {
	s0    string
	steps []stepSpec
	cont  stepSpec
	p     int // failing position, -1 none
}

func (sc scenario) String() string {
	var sb strings.Builder
	fmt.Fprintf(&sb, "s0=%q steps=[", sc.s0)
	for _, st := range sc.steps {
		fmt.Fprintf(&sb, "%d/%d ", st.val, st.fail)
	}
	fmt.Fprintf(&sb, "] cont=%d/%d", sc.cont.val, sc.cont.fail)
	return sb.String()
}

func genScenario(rt *rapid.T, c comb, withFail bool) scenario {
	sc := scenario{p: -1}
	sc.s0 = rapid.SampledFrom([]string{"", "x", "xy", "zzz", "!", "ab"}).Draw(rt, "s0")
	n := rapid.IntRange(c.nmin, c.nmax).Draw(rt, "n")
	for i := 0; i < n; i++ {
		sc.steps = append(sc.steps, stepSpec{val: rapid.IntRange(0, 9).Draw(rt, "val"), fail: -1})
	}
	sc.cont = stepSpec{val: rapid.IntRange(0, 9).Draw(rt, "kval"), fail: -1}
	total := n
	if c.cont {
		total++
	}
	if withFail && total > 0 {
		sc.p = rapid.IntRange(0, total-1).Draw(rt, "p")
		e := rapid.IntRange(0, 4).Draw(rt, "err")
		for j := sc.p; j < total; j++ {
			f := -1
			if j == sc.p {
				f = e
			} else if rapid.IntRange(0, 2).Draw(rt, "later-fails") == 0 {
				f = 5 + rapid.IntRange(0, 4).Draw(rt, "later-err") // never the injected error
			}
			if j < n {
				sc.steps[j].fail = f
			} else {
				sc.cont.fail = f
			}
		}
	}
	return sc
}

// reference: run the steps one after the other, stop at the first failure.
func (sc scenario) ref(c comb) (want res[string, string], hits []int) {
	n := len(sc.steps)
	w := &world{hits: make([]int, n+1)}
	s := sc.s0
	vals := []int{}
	for i, sp := range sc.steps {
		t, ns := stepFn(w, i, sp)(s)
		s = ns
		if !t.IsSuccess() {
			return failRes[string, string](t.Failed().Get(), s), w.hits
		}
		vals = append(vals, t.Get())
	}
	kv := 0
	if c.cont {
		kargs := append(append([]int{}, vals...), c.kx...)
		t, ns := stepFn(w, n, stepSpec{val: mod(mixAll(kargs), 97) + sc.cont.val, fail: sc.cont.fail})(s)
		s = ns
		if !t.IsSuccess() {
			return failRes[string, string](t.Failed().Get(), s), w.hits
		}
		kv = t.Get()
	}
	return okRes(c.want(vals, kv), s), w.hits
}

func runComb(t *testing.T, c comb, withFail bool) {
	clause := "thread"
	rule := "initial trace state s0, n steps (n in the combinator's arity range) that each append their tag to the trace and return val*100+len(state read)" +
		"; continuation-taking combinators get a continuation whose step depends on all values; oracle: the steps run one after the other by a plain loop; " +
		"value, final trace and per-step execution counts compared; non-trivial iff at least one step is involved (Sequence/Traverse/FoldM of nothing is trivial); distinct by (s0, steps)"
	if withFail {
		clause = "fail"
		rule = "as the thread sub-check, but the step at a drawn position p fails with a sentinel after writing its tag and '!' to the trace, and later steps randomly fail with other sentinels; " +
			"demanded: failure with exactly the injected error, steps after p never execute, steps up to p execute once, reported state = trace at the point of failure; " +
			"non-trivial iff at least one step is involved (so a failure position exists); distinct by (s0, steps, p)"
	}
	kit.Check(t, c.name+"/"+clause, rule, kit.Opt{}, func(rt *rapid.T, rec *kit.Rec) {
		sc := genScenario(rt, c, withFail)
		n := len(sc.steps)
		total := n
		if c.cont {
			total++
		}
		rec.Case(total >= 1, sc.String())
		rec.Label(fmt.Sprintf("p=%d/%d", sc.p, total))
		want, wantHits := sc.ref(c)

		w := &world{hits: make([]int, n+1)}
		steps := make([]ST, n)
		for i, sp := range sc.steps {
			steps[i] = stepFn(w, i, sp)
		}
		k := func(vals ...int) ST {
			return stepFn(w, n, stepSpec{val: mod(mixAll(vals), 97) + sc.cont.val, fail: sc.cont.fail})
		}
		sig := "C17|" + c.name + "|" + clause
		var got res[string, string]
		rec.Guard(rt, sig, func() { got = c.run(steps, k, sc.s0) })

		for i := range w.hits {
			if w.hits[i] != wantHits[i] {
				if wantHits[i] == 0 {
					rec.Failf(rt, "C17|"+c.name+"|later-step-runs", "%s: step %d ran %d times although step %d failed before it (executions %v, want %v); got %v", sc, i, w.hits[i], sc.p, w.hits, wantHits, got)
				}
				rec.Failf(rt, sig+"-executions", "%s: step %d ran %d times, want %d (executions %v, want %v); got %v", sc, i, w.hits[i], wantHits[i], w.hits, wantHits, got)
			}
		}
		switch diff(got, want) {
		case "":
		case "state":
			rec.Failf(rt, sig+"-state", "%s: reported state %q, want %q (got %v, want %v; execution order %v)", sc, got.s, want.s, got, want, w.order)
		case "error":
			rec.Failf(rt, sig+"-error", "%s: failed with %v, want the injected %v", sc, got.err, want.err)
		default:
			rec.Failf(rt, sig, "%s: got %v, want %v (execution order %v)", sc, got, want, w.order)
		}
		if !want.ok && !errors.Is(got.err, want.err) {
			rec.Failf(rt, sig+"-error", "%s: failed with %v, want the injected %v", sc, got.err, want.err)
		}
	})
}

func TestThread(t *testing.T) {
	for _, c := range append(combs(), arityCombs()...) {
		runComb(t, c, false)
	}
}

func TestFailure(t *testing.T) {
	for _, c := range append(combs(), arityCombs()...) {
		runComb(t, c, true)
	}
}

// UnZip yields two independent programs, each of which runs the source once.
func TestUnZip(t *testing.T) {
	kit.Check(t, "statet.UnZip/thread", "one step (drawn value, may fail after writing) yielding the pair (v, v+1); each half of UnZip, run separately from s0, must give its component, the step's trace and run the step once; every case non-trivial", kit.Opt{},
		func(rt *rapid.T, rec *kit.Rec) {
			sig := "C17|statet.UnZip|thread"
			s0 := rapid.SampledFrom([]string{"", "x", "xy"}).Draw(rt, "s0")
			sp := stepSpec{val: rapid.IntRange(0, 9).Draw(rt, "val"), fail: rapid.IntRange(-3, 2).Draw(rt, "fail")}
			rec.Case(true, fmt.Sprintf("s0=%q step=%v", s0, sp))
			w := &world{hits: make([]int, 1)}
			src := rawMap(stepFn(w, 0, sp), func(v int) fp.Tuple2[int, int] { return fp.Tuple2[int, int]{I1: v, I2: v + 1} })
			var ra, rb res[string, int]
			rec.Guard(rt, sig, func() {
				a, b := statet.UnZip(src)
				ra = runST(a, s0)
				rb = runST(b, s0)
			})
			wr := &world{hits: make([]int, 1)}
			want := runST(stepFn(wr, 0, sp), s0)
			wb := want
			wb.v++
			if diff(ra, want) != "" || diff(rb, wb) != "" || w.hits[0] != 2 {
				rec.Failf(rt, sig, "s0=%q step=%v: halves gave %v and %v, want %v and %v; the source ran %d times, want 2", s0, sp, ra, rb, want, wb, w.hits[0])
			}
		})
}
