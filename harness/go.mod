module verifharness

go 1.23

require (
	github.com/anishathalye/porcupine v1.3.0
	github.com/csgura/fp v0.0.0
	pgregory.net/rapid v1.3.0
)

replace github.com/csgura/fp => /repo
