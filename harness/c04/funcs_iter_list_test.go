package c04

// Part A, packages iterator and list: functions fed from a slice / Go map source.

import (
	"testing"

	"github.com/csgura/fp"
	"github.com/csgura/fp/iterator"
	"github.com/csgura/fp/lazy"
	"github.com/csgura/fp/list"
	"github.com/csgura/fp/monoid"
	"github.com/csgura/fp/option"
	"github.com/csgura/fp/try"
	"pgregory.net/rapid"
)

// iterSrc draws how the input slice is turned into an iterator.
func iterSrc(e *env, label string) func(s fp.Seq[int]) fp.Iterator[int] {
	k := rapid.IntRange(0, 3).Draw(e.rt, label)
	e.note("%s=%d", label, k)
	return func(s fp.Seq[int]) fp.Iterator[int] {
		switch k {
		case 0:
			return iterator.FromSeq(s)
		case 1:
			return iterator.FromSlice(s)
		case 2:
			return iterator.Of(s...)
		default:
			return iterator.FromList(list.FromSeq(s))
		}
	}
}

func iterSlice(t *testing.T, name string, op func(it fp.Iterator[int]) []int) {
	t.Helper()
	fnCheckF(t, name, func(e *env) func() {
		s := e.ints("s", maxLen)
		src := iterSrc(e, "src")
		return func() { sliceResult(e, true, scribbleInt, func() []int { return op(src(s)) }) }
	})
}

func iterValue(t *testing.T, name string, op func(it fp.Iterator[int])) {
	t.Helper()
	fnCheck(t, name, func(e *env) func() {
		s := e.ints("s", maxLen)
		src := iterSrc(e, "src")
		return func() { valueResult(e, func() { op(src(s)) }) }
	})
}

func TestIterator(t *testing.T) {
	// sources
	for _, c := range []struct {
		name string
		mk   func(s []int) fp.Iterator[int]
	}{
		{"iterator.FromSeq", func(s []int) fp.Iterator[int] { return iterator.FromSeq(s) }},
		{"iterator.FromSlice", func(s []int) fp.Iterator[int] { return iterator.FromSlice(s) }},
		{"iterator.Of", func(s []int) fp.Iterator[int] { return iterator.Of(s...) }},
		{"iterator.ReverseSeq", func(s []int) fp.Iterator[int] { return iterator.ReverseSeq(s) }},
		{"iterator.ReverseSlice", func(s []int) fp.Iterator[int] { return iterator.ReverseSlice(s) }},
	} {
		c := c
		unarySlice(t, c.name, true, func(s fp.Seq[int]) []int { return c.mk(s).ToSeq() })
	}
	fnCheckF(t, "iterator.FromMap", func(e *env) func() {
		m := e.goMap("m")
		return func() { sliceResult(e, true, scribTup, func() []tup { return iterator.FromMap(m).ToSeq() }) }
	})
	fnCheckF(t, "iterator.FromMapKey", func(e *env) func() {
		m := e.goMap("m")
		return func() { sliceResult(e, true, scribbleInt, func() []int { return iterator.FromMapKey(m).ToSeq() }) }
	})
	fnCheckF(t, "iterator.FromMapValue", func(e *env) func() {
		m := e.goMap("m")
		return func() { sliceResult(e, true, scribbleInt, func() []int { return iterator.FromMapValue(m).ToSeq() }) }
	})
	fnCheckF(t, "fp.IteratorOfGoMap", func(e *env) func() {
		m := e.goMap("m")
		return func() { sliceResult(e, true, scribTup, func() []tup { return fp.IteratorOfGoMap(m).ToSeq() }) }
	})
	fnCheckF(t, "fp.IteratorOfGoSet", func(e *env) func() {
		m := e.goMap("m")
		bs := map[int]bool{}
		for k := range m {
			bs[k] = true
		}
		e.watch("input Go set", "input-unchanged", func() string { return deep(bs) })
		return func() { sliceResult(e, true, scribbleInt, func() []int { return fp.IteratorOfGoSet(bs).ToSeq() }) }
	})

	// consumers
	iterSlice(t, "iterator.ToSeq", func(it fp.Iterator[int]) []int { return iterator.ToSeq(it) })
	iterSlice(t, "iterator.ToSlice", func(it fp.Iterator[int]) []int { return iterator.ToSlice(it) })
	iterSlice(t, "iterator.Sort", func(it fp.Iterator[int]) []int { return iterator.Sort(it, intOrd) })
	iterValue(t, "iterator.Min", func(it fp.Iterator[int]) { _ = iterator.Min(it, intOrd) })
	iterValue(t, "iterator.Max", func(it fp.Iterator[int]) { _ = iterator.Max(it, intOrd) })
	iterValue(t, "iterator.Fold", func(it fp.Iterator[int]) { _ = iterator.Fold(it, 0, func(a, b int) int { return a + b }) })
	iterValue(t, "iterator.FoldTry", func(it fp.Iterator[int]) {
		_ = iterator.FoldTry(it, 0, func(a, b int) fp.Try[int] { return try.Success(a + b) })
	})
	iterValue(t, "iterator.FoldOption", func(it fp.Iterator[int]) {
		_ = iterator.FoldOption(it, 0, func(a, b int) fp.Option[int] { return option.Some(a + b) })
	})
	iterValue(t, "iterator.FoldError", func(it fp.Iterator[int]) { _ = iterator.FoldError(it, func(int) error { return nil }) })
	iterValue(t, "iterator.FoldRight", func(it fp.Iterator[int]) {
		_ = iterator.FoldRight(it, 0, func(a int, b lazy.Eval[int]) lazy.Eval[int] {
			return b.Map(func(v int) int { return a + v })
		}).Get()
	})
	iterValue(t, "iterator.Reduce(Sum)", func(it fp.Iterator[int]) { _ = iterator.Reduce(it, monoid.Sum[int]()) })
	fnCheck(t, "iterator.Reduce(MergeSeq)", func(e *env) func() {
		ss, _ := drawSeqOfSeq(e, "ss")
		return func() {
			sliceResult(e, false, scribbleInt, func() []int { return iterator.Reduce(iterator.FromSeq(ss), monoid.MergeSeq[int]()) })
		}
	})
	iterSlice(t, "iterator.Map", func(it fp.Iterator[int]) []int {
		return iterator.Map(it, func(x int) int { return x + 1 }).ToSeq()
	})
	iterSlice(t, "iterator.FlatMap", func(it fp.Iterator[int]) []int {
		return iterator.FlatMap(it, func(x int) fp.Iterator[int] { return iterator.Of(x, x) }).ToSeq()
	})
	iterSlice(t, "iterator.FilterMap", func(it fp.Iterator[int]) []int {
		return iterator.FilterMap(it, func(x int) fp.Option[int] {
			if x%2 == 0 {
				return option.Some(x)
			}
			return option.None[int]()
		}).ToSeq()
	})
	iterSlice(t, "iterator.Concat", func(it fp.Iterator[int]) []int { return iterator.Concat(5, it).ToSeq() })
	iterSlice(t, "iterator.Scan", func(it fp.Iterator[int]) []int {
		return iterator.Scan(it, 0, func(a, b int) int { return a + b }).ToSeq()
	})
	iterSlice(t, "iterator.Span", func(it fp.Iterator[int]) []int {
		l, r := iterator.Span(it, func(x int) bool { return x < 5 })
		return append(l.ToSeq(), r.ToSeq()...)
	})
	iterSlice(t, "iterator.Partition", func(it fp.Iterator[int]) []int {
		l, r := iterator.Partition(it, func(x int) bool { return x < 5 })
		return append(l.ToSeq(), r.ToSeq()...)
	})
	iterSlice(t, "iterator.Duplicate", func(it fp.Iterator[int]) []int {
		l, r := iterator.Duplicate(it)
		return append(r.ToSeq(), l.ToSeq()...)
	})
	iterSlice(t, "fp.Iterator.methods", func(it fp.Iterator[int]) []int {
		return it.Filter(func(x int) bool { return x != 3 }).Map(func(x int) int { return x }).Appended(4).Concat(iterator.Of(1)).Drop(1).Take(20).ToSeq()
	})
	fnCheckF(t, "iterator.Zip", func(e *env) func() {
		a := e.ints("a", maxLen)
		b := e.ints("b", maxLen)
		return func() {
			sliceResult(e, true, scribTup, func() []tup { return iterator.Zip(iterator.FromSeq(a), iterator.FromSeq(b)).ToSeq() })
		}
	})
	fnCheckF(t, "iterator.ZipWithIndex", func(e *env) func() {
		a := e.ints("a", maxLen)
		return func() {
			sliceResult(e, true, scribTup, func() []tup { return iterator.ZipWithIndex(iterator.FromSeq(a)).ToSeq() })
		}
	})
	fnCheckF(t, "iterator.GroupBy", func(e *env) func() {
		s := e.ints("s", 8)
		f := e.fn1("key")
		return func() {
			goMapResult(e, func() map[int]fp.Seq[int] { return iterator.GroupBy(iterator.FromSeq(s), f) }, func(m map[int]fp.Seq[int]) {
				for _, k := range sortedGoKeys(m) {
					scribble(m[k], scribbleInt)
					delete(m, k)
				}
			})
		}
	})
	fnCheckF(t, "iterator.ToGoMap", func(e *env) func() {
		kv := drawTuples(e, "kv")
		return func() {
			goMapResult(e, func() map[int]int { return iterator.ToGoMap(iterator.FromSeq(kv)) }, spoilIntMap)
		}
	})
	fnCheckF(t, "iterator.ToGoSet", func(e *env) func() {
		s := e.ints("s", maxLen)
		return func() {
			goMapResult(e, func() map[int]bool { return iterator.ToGoSet(iterator.FromSeq(s)) }, func(m map[int]bool) { m[99] = true })
		}
	})
	fnCheck(t, "iterator.ToMap", func(e *env) func() {
		kv := drawTuples(e, "kv")
		h := hashers[rapid.IntRange(0, 4).Draw(e.rt, "hasher")]
		e.note("hasher=%s", h.name)
		return func() {
			fpMapResult(e, func() fp.Map[int, int] { return iterator.ToMap(iterator.FromSeq(kv), h.h) })
		}
	})
	fnCheck(t, "iterator.ToSet", func(e *env) func() {
		s := e.ints("s", 10)
		h := hashers[rapid.IntRange(0, 4).Draw(e.rt, "hasher")]
		e.note("hasher=%s", h.name)
		return func() { fpSetResult(e, func() fp.Set[int] { return iterator.ToSet(iterator.FromSeq(s), h.h) }) }
	})
	fnCheckF(t, "iterator.ToList", func(e *env) func() {
		s := e.ints("s", maxLen)
		return func() { listResult(e, func() fp.List[int] { return iterator.ToList(iterator.FromSeq(s)) }) }
	})
}

// listSrc draws how the input slice becomes a list.
func listSrc(e *env, label string) func(s fp.Seq[int]) fp.List[int] {
	k := rapid.IntRange(0, 4).Draw(e.rt, label)
	e.note("%s=%d", label, k)
	return func(s fp.Seq[int]) fp.List[int] {
		switch k {
		case 0:
			return list.Of(s...)
		case 1:
			return list.FromSeq(s)
		case 2:
			return list.FromSlice(s)
		case 3:
			return list.Collect(iterator.FromSeq(s))
		default:
			// cons cells in front of a slice-backed tail
			var l fp.List[int] = list.FromSeq(s.Drop(len(s) / 2))
			for i := len(s)/2 - 1; i >= 0; i-- {
				l = list.Apply(s[i], l)
			}
			return l
		}
	}
}

func listSlice(t *testing.T, name string, op func(l fp.List[int]) []int) {
	t.Helper()
	fnCheckF(t, name, func(e *env) func() {
		s := e.ints("s", maxLen)
		src := listSrc(e, "src")
		return func() { sliceResult(e, true, scribbleInt, func() []int { return op(src(s)) }) }
	})
}

func listValue(t *testing.T, name string, op func(l fp.List[int])) {
	t.Helper()
	fnCheck(t, name, func(e *env) func() {
		s := e.ints("s", maxLen)
		src := listSrc(e, "src")
		return func() { valueResult(e, func() { op(src(s)) }) }
	})
}

func listList(t *testing.T, name string, op func(l fp.List[int]) fp.List[int]) {
	t.Helper()
	fnCheckF(t, name, func(e *env) func() {
		s := e.ints("s", maxLen)
		src := listSrc(e, "src")
		return func() { listResult(e, func() fp.List[int] { return op(src(s)) }) }
	})
}

func TestList(t *testing.T) {
	for _, c := range []struct {
		name string
		mk   func(s []int) fp.List[int]
	}{
		{"list.Of", func(s []int) fp.List[int] { return list.Of(s...) }},
		{"list.FromSeq", func(s []int) fp.List[int] { return list.FromSeq(s) }},
		{"list.FromSlice", func(s []int) fp.List[int] { return list.FromSlice(s) }},
		{"list.ReverseSeq", func(s []int) fp.List[int] { return list.ReverseSeq(s) }},
		{"list.ReverseSlice", func(s []int) fp.List[int] { return list.ReverseSlice(s) }},
		{"list.Collect", func(s []int) fp.List[int] { return list.Collect(iterator.FromSeq(s)) }},
	} {
		c := c
		fnCheckF(t, c.name, func(e *env) func() {
			s := e.ints("s", maxLen)
			return func() { listResult(e, func() fp.List[int] { return c.mk(s) }) }
		})
	}
	fnCheckF(t, "list.FromMap", func(e *env) func() {
		m := e.goMap("m")
		return func() { listResult(e, func() fp.List[tup] { return list.FromMap(m) }) }
	})
	fnCheckF(t, "list.FromMapKey", func(e *env) func() {
		m := e.goMap("m")
		return func() {
			// iteration order of a Go map is not fixed: observe the sorted content
			sliceResult(e, true, scribbleInt, func() []int { return sortedInts(list.FromMapKey(m).ToSeq()) })
		}
	})
	fnCheckF(t, "list.FromMapValue", func(e *env) func() {
		m := e.goMap("m")
		return func() {
			sliceResult(e, true, scribbleInt, func() []int { return sortedInts(list.FromMapValue(m).ToSeq()) })
		}
	})

	listSlice(t, "fp.List.ToSeq", func(l fp.List[int]) []int { return l.ToSeq() })
	listSlice(t, "list.Sort", func(l fp.List[int]) []int { return list.Sort(l, intOrd) })
	listValue(t, "list.Min", func(l fp.List[int]) { _ = list.Min(l, intOrd) })
	listValue(t, "list.Max", func(l fp.List[int]) { _ = list.Max(l, intOrd) })
	listValue(t, "list.Head", func(l fp.List[int]) { _ = list.Head(l) })
	listValue(t, "fp.List.Foreach+Unapply", func(l fp.List[int]) {
		l.Foreach(func(int) {})
		if l.NonEmpty() {
			_, _ = l.Unapply()
		}
	})
	listValue(t, "list.Fold", func(l fp.List[int]) { _ = list.Fold(l, 0, func(a, b int) int { return a + b }) })
	listValue(t, "list.FoldLeft", func(l fp.List[int]) { _ = list.FoldLeft(l, 0, func(a, b int) int { return a + b }) })
	listValue(t, "list.FoldRight", func(l fp.List[int]) {
		_ = list.FoldRight(l, 0, func(a int, b lazy.Eval[int]) lazy.Eval[int] {
			return b.Map(func(v int) int { return a + v })
		}).Get()
	})
	listValue(t, "list.FoldLeftUsingMap+FoldRightUsingMap", func(l fp.List[int]) {
		_ = list.FoldLeftUsingMap(l, 0, func(a, b int) int { return a + b })
		_ = list.FoldRightUsingMap(l, 0, func(a, b int) int { return a + b })
	})
	listValue(t, "list.FoldTry", func(l fp.List[int]) {
		_ = list.FoldTry(l, 0, func(a, b int) fp.Try[int] { return try.Success(a + b) })
	})
	listValue(t, "list.FoldOption", func(l fp.List[int]) {
		_ = list.FoldOption(l, 0, func(a, b int) fp.Option[int] { return option.Some(a + b) })
	})
	listValue(t, "list.FoldError", func(l fp.List[int]) { _ = list.FoldError(l, func(int) error { return nil }) })
	listValue(t, "list.FoldMap", func(l fp.List[int]) { _ = list.FoldMap(l, monoid.Sum[int](), fp.Id[int]) })
	listValue(t, "list.Reduce(Sum)", func(l fp.List[int]) { _ = list.Reduce(l, monoid.Sum[int]()) })
	fnCheck(t, "list.Reduce(MergeSeq)", func(e *env) func() {
		ss, _ := drawSeqOfSeq(e, "ss")
		return func() {
			sliceResult(e, false, scribbleInt, func() []int { return list.Reduce(list.FromSeq(ss), monoid.MergeSeq[int]()) })
		}
	})
	listList(t, "fp.List.Tail", func(l fp.List[int]) fp.List[int] { return l.Tail() })
	listList(t, "list.Map", func(l fp.List[int]) fp.List[int] { return list.Map(l, func(x int) int { return x + 1 }) })
	listList(t, "list.FlatMap", func(l fp.List[int]) fp.List[int] {
		return list.FlatMap(l, func(x int) fp.List[int] { return list.Of(x, x) })
	})
	listList(t, "list.FilterMap", func(l fp.List[int]) fp.List[int] {
		return list.FilterMap(l, func(x int) fp.Option[int] {
			if x%2 == 0 {
				return option.Some(x)
			}
			return option.None[int]()
		})
	})
	listList(t, "list.Apply+Concat", func(l fp.List[int]) fp.List[int] { return list.Concat(1, list.Apply(2, l)) })
	listList(t, "list.Combine", func(l fp.List[int]) fp.List[int] { return list.Combine(l, l) })
	listList(t, "list.Scan", func(l fp.List[int]) fp.List[int] {
		return list.Scan(l, 0, func(a, b int) int { return a + b })
	})
	listList(t, "list.Map2", func(l fp.List[int]) fp.List[int] {
		return list.Map2(l, l, func(a, b int) int { return a*10 + b })
	})
	listList(t, "list.Flatten", func(l fp.List[int]) fp.List[int] {
		return list.Flatten(list.Of[fp.List[int]](l, list.Empty[int](), l))
	})
	// the remaining list-to-list functions (found uncovered by a coverage run of the quick tier)
	listList(t, "list.Ap", func(l fp.List[int]) fp.List[int] {
		fs := list.Map(l, func(x int) fp.Func1[int, int] { return func(y int) int { return x*10 + y } })
		return list.Ap(fs, l)
	})
	listList(t, "list.Lift", func(l fp.List[int]) fp.List[int] { return list.Lift(func(x int) int { return x + 1 })(l) })
	listList(t, "list.Compose+ComposePure", func(l fp.List[int]) fp.List[int] {
		return list.Compose(func(int) fp.List[int] { return l }, list.ComposePure(func(x int) int { return x * 2 }))(0)
	})
	listList(t, "list.Flap+Flap2", func(l fp.List[int]) fp.List[int] {
		f1 := list.Map(l, func(x int) fp.Func1[int, int] { return func(y int) int { return x + y } })
		f2 := list.Map(l, func(x int) fp.Func1[int, fp.Func1[int, int]] {
			return func(y int) fp.Func1[int, int] { return func(z int) int { return x + y + z } }
		})
		return list.Combine(list.Flap(f1)(3), list.Flap2(f2)(1)(2))
	})
	listList(t, "list.FlapMap+Method1+Method2", func(l fp.List[int]) fp.List[int] {
		a := list.FlapMap(func(x, y int) int { return x - y }, l)(1)
		b := list.Method1(l, func(x, y int) int { return x * y })(2)
		c := list.Method2(l, func(x, y, z int) int { return x + y*z })(2, 3)
		return list.Combine(a, list.Combine(b, c))
	})
	listList(t, "list.Zip3", func(l fp.List[int]) fp.List[int] {
		return list.Map(list.Zip3(l, l.Tail(), l), func(t fp.Tuple3[int, int, int]) int { return t.I1 + t.I2 + t.I3 })
	})
	fnCheckF(t, "list.Zip", func(e *env) func() {
		a := e.ints("a", maxLen)
		b := e.ints("b", maxLen)
		return func() { listResult(e, func() fp.List[tup] { return list.Zip(list.FromSeq(a), list.FromSeq(b)) }) }
	})
	fnCheckF(t, "list.ZipWithIndex", func(e *env) func() {
		a := e.ints("a", maxLen)
		src := listSrc(e, "src")
		return func() { listResult(e, func() fp.List[tup] { return list.ZipWithIndex(src(a)) }) }
	})
	fnCheckF(t, "list.GroupBy", func(e *env) func() {
		s := e.ints("s", 8)
		f := e.fn1("key")
		src := listSrc(e, "src")
		return func() {
			goMapResult(e, func() map[int]fp.Seq[int] { return list.GroupBy(src(s), f) }, func(m map[int]fp.Seq[int]) {
				for _, k := range sortedGoKeys(m) {
					scribble(m[k], scribbleInt)
					delete(m, k)
				}
			})
		}
	})
	fnCheckF(t, "list.ToGoMap", func(e *env) func() {
		kv := drawTuples(e, "kv")
		return func() { goMapResult(e, func() map[int]int { return list.ToGoMap(list.FromSeq(kv)) }, spoilIntMap) }
	})
	fnCheckF(t, "list.ToGoSet", func(e *env) func() {
		s := e.ints("s", maxLen)
		return func() {
			goMapResult(e, func() map[int]bool { return list.ToGoSet(list.FromSeq(s)) }, func(m map[int]bool) { m[99] = true })
		}
	})
	fnCheck(t, "list.ToMap", func(e *env) func() {
		kv := drawTuples(e, "kv")
		h := hashers[rapid.IntRange(0, 4).Draw(e.rt, "hasher")]
		e.note("hasher=%s", h.name)
		return func() { fpMapResult(e, func() fp.Map[int, int] { return list.ToMap(list.FromSeq(kv), h.h) }) }
	})
	fnCheck(t, "list.ToSet", func(e *env) func() {
		s := e.ints("s", 10)
		h := hashers[rapid.IntRange(0, 4).Draw(e.rt, "hasher")]
		e.note("hasher=%s", h.name)
		return func() { fpSetResult(e, func() fp.Set[int] { return list.ToSet(list.FromSeq(s), h.h) }) }
	})
	fnCheckF(t, "iterator.FromList", func(e *env) func() {
		s := e.ints("s", maxLen)
		src := listSrc(e, "src")
		return func() { sliceResult(e, true, scribbleInt, func() []int { return iterator.FromList(src(s)).ToSeq() }) }
	})
}

func sortedInts(s []int) []int {
	r := append([]int{}, s...)
	for i := 1; i < len(r); i++ {
		for j := i; j > 0 && r[j] < r[j-1]; j-- {
			r[j], r[j-1] = r[j-1], r[j]
		}
	}
	return r
}
