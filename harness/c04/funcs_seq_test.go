package c04

// Part A, package seq and the methods of fp.Seq: one sub-check per function.

import (
	"errors"
	"testing"

	"github.com/csgura/fp"
	"github.com/csgura/fp/as"
	"github.com/csgura/fp/iterator"
	"github.com/csgura/fp/lazy"
	"github.com/csgura/fp/monoid"
	"github.com/csgura/fp/option"
	"github.com/csgura/fp/ord"
	"github.com/csgura/fp/seq"
	"github.com/csgura/fp/try"
	"pgregory.net/rapid"
)

var intOrd = ord.Given[int]()

type tup = fp.Tuple2[int, int]

var scribTup = tup{I1: scribbleInt, I2: scribbleInt}

var errStop = errors.New("stop")

const maxLen = 6

// unarySlice: function of one int slice returning an int slice.
func unarySlice(t *testing.T, name string, fresh bool, op func(s fp.Seq[int]) []int) {
	t.Helper()
	pickCheck(fresh)(t, name, func(e *env) func() {
		s := e.ints("s", maxLen)
		return func() { sliceResult(e, fresh, scribbleInt, func() []int { return op(s) }) }
	})
}

// unaryValue: function of one int slice whose result is not a collection.
func unaryValue(t *testing.T, name string, op func(s fp.Seq[int])) {
	t.Helper()
	fnCheck(t, name, func(e *env) func() {
		s := e.ints("s", maxLen)
		return func() { valueResult(e, func() { op(s) }) }
	})
}

func withFn(t *testing.T, name string, fresh bool, op func(s fp.Seq[int], f func(int) int) []int) {
	t.Helper()
	pickCheck(fresh)(t, name, func(e *env) func() {
		s := e.ints("s", maxLen)
		f := e.fn1("f")
		return func() { sliceResult(e, fresh, scribbleInt, func() []int { return op(s, f) }) }
	})
}

func withPred(t *testing.T, name string, fresh bool, op func(s fp.Seq[int], p func(int) bool) []int) {
	t.Helper()
	pickCheck(fresh)(t, name, func(e *env) func() {
		s := e.ints("s", maxLen)
		p := e.pred("p")
		return func() { sliceResult(e, fresh, scribbleInt, func() []int { return op(s, p) }) }
	})
}

func withNum(t *testing.T, name string, fresh bool, op func(s fp.Seq[int], n int) []int) {
	t.Helper()
	pickCheck(fresh)(t, name, func(e *env) func() {
		s := e.ints("s", maxLen)
		n := e.num("n", 0, maxLen+2)
		return func() { sliceResult(e, fresh, scribbleInt, func() []int { return op(s, n) }) }
	})
}

func drawTuples(e *env, label string) fp.Seq[tup] {
	sl := drawSlot(e.rt, label, maxLen, func(rt *rapid.T, l string) tup {
		return tup{I1: rapid.IntRange(0, 9).Draw(rt, l+"k"), I2: rapid.IntRange(0, 9).Draw(rt, l+"v")}
	}, func(i int) tup { return tup{I1: hidden(i), I2: hidden(i)} })
	return addSlot(e, label, sl)
}

func TestSeqMethods(t *testing.T) {
	// views / accessors (results may alias the receiver by design: never written through)
	unarySlice(t, "fp.Seq.Widen", false, func(s fp.Seq[int]) []int { return s.Widen() })
	unarySlice(t, "fp.Seq.Init", false, func(s fp.Seq[int]) []int { return s.Init() })
	unarySlice(t, "fp.Seq.Tail", false, func(s fp.Seq[int]) []int { return s.Tail() })
	unarySlice(t, "fp.Seq.UnSeq", false, func(s fp.Seq[int]) []int { _, tl := s.UnSeq(); return tl })
	withNum(t, "fp.Seq.Take", false, func(s fp.Seq[int], n int) []int { return s.Take(n) })
	withNum(t, "fp.Seq.Drop", false, func(s fp.Seq[int], n int) []int { return s.Drop(n) })
	unaryValue(t, "fp.Seq.Size+IsEmpty+NonEmpty", func(s fp.Seq[int]) { _, _, _ = s.Size(), s.IsEmpty(), s.NonEmpty() })
	unaryValue(t, "fp.Seq.Head+Last", func(s fp.Seq[int]) { _, _ = s.Head(), s.Last() })
	fnCheck(t, "fp.Seq.Get", func(e *env) func() {
		s := e.ints("s", maxLen)
		n := e.num("n", 0, maxLen+1)
		return func() { valueResult(e, func() { _ = s.Get(n) }) }
	})
	unaryValue(t, "fp.Seq.Foreach", func(s fp.Seq[int]) { n := 0; s.Foreach(func(v int) { n += v }) })
	unaryValue(t, "fp.Seq.MakeString", func(s fp.Seq[int]) { _ = s.MakeString(",") })
	fnCheck(t, "fp.Seq.Exists+ForAll+Find", func(e *env) func() {
		s := e.ints("s", maxLen)
		p := e.pred("p")
		return func() { valueResult(e, func() { _, _, _ = s.Exists(p), s.ForAll(p), s.Find(p) }) }
	})

	// constructors of new slices
	withPred(t, "fp.Seq.Filter", true, func(s fp.Seq[int], p func(int) bool) []int { return s.Filter(p) })
	withPred(t, "fp.Seq.FilterNot", true, func(s fp.Seq[int], p func(int) bool) []int { return s.FilterNot(p) })
	withFn(t, "fp.Seq.Map", true, func(s fp.Seq[int], f func(int) int) []int { return s.Map(f) })
	unarySlice(t, "fp.Seq.Reverse", true, func(s fp.Seq[int]) []int { return s.Reverse() })
	fnCheckF(t, "fp.Seq.FlatMap", func(e *env) func() {
		s := e.ints("s", maxLen)
		u := e.ints("u", 3)
		f := e.fn1("f")
		return func() {
			sliceResult(e, true, scribbleInt, func() []int {
				return s.FlatMap(func(x int) fp.Seq[int] {
					if f(x)%2 == 0 {
						return u // the callback hands out an aliased slice: it must only be read
					}
					return fp.Seq[int]{x, f(x)}
				})
			})
		}
	})
	fnCheckF(t, "fp.Seq.Add", func(e *env) func() {
		s := e.ints("s", maxLen)
		x := e.num("x", 0, 9)
		return func() { sliceResult(e, true, scribbleInt, func() []int { return s.Add(x) }) }
	})
	fnCheckF(t, "fp.Seq.Append", func(e *env) func() {
		s := e.ints("s", maxLen)
		items := e.ints("items", 3)
		return func() {
			// Append() without items returns the receiver (a view): only non-empty appends are fresh
			sliceResult(e, len(items) > 0, scribbleInt, func() []int { return s.Append(items...) })
		}
	})
	fnCheckF(t, "fp.Seq.Concat", func(e *env) func() {
		s := e.ints("s", maxLen)
		tail := e.ints("tail", 4)
		return func() {
			sliceResult(e, len(tail) > 0, scribbleInt, func() []int { return s.Concat(tail) })
		}
	})
	fnCheckF(t, "fp.Seq.Concat(self)", func(e *env) func() {
		s := e.ints("s", maxLen)
		return func() {
			sliceResult(e, len(s) > 0, scribbleInt, func() []int { return s.Concat(s) })
		}
	})
	fnCheckF(t, "fp.Seq.Append(overlapping-views)", func(e *env) func() {
		// receiver and items are two windows of the same backing array
		sl := drawInts(e.rt, "s", maxLen)
		s := e.addInts("s", sl)
		a := e.num("from", 0, maxLen)
		b := e.num("to", 0, maxLen)
		if a > len(s) {
			a = len(s)
		}
		if b > len(s) {
			b = len(s)
		}
		if a > b {
			a, b = b, a
		}
		items := s[a:b]
		recv := s[:a]
		return func() {
			sliceResult(e, len(items) > 0, scribbleInt, func() []int { return recv.Append(items...) })
		}
	})
	fnCheckF(t, "fp.IteratorOfSeq", func(e *env) func() {
		s := e.ints("s", maxLen)
		return func() {
			sliceResult(e, true, scribbleInt, func() []int { return fp.IteratorOfSeq(s).ToSeq() })
		}
	})
	fnCheck(t, "fp.SliceCasting", func(e *env) func() {
		s := e.ints("s", maxLen)
		return func() {
			sliceResult(e, false, scribbleInt, func() []int { return fp.SliceCasting[[]int](s) })
		}
	})
}

func TestSeqPackage(t *testing.T) {
	unaryValue(t, "seq.Size+Head+Last", func(s fp.Seq[int]) { _, _, _ = seq.Size(s), seq.Head(s), seq.Last(s) })
	unarySlice(t, "seq.Init", false, func(s fp.Seq[int]) []int { return seq.Init(s) })
	unarySlice(t, "seq.Tail", false, func(s fp.Seq[int]) []int { return seq.Tail(s) })
	unarySlice(t, "seq.Of", false, func(s fp.Seq[int]) []int { return seq.Of(s...) })
	unarySlice(t, "as.Seq", false, func(s fp.Seq[int]) []int { return as.Seq(s) })
	unarySlice(t, "seq.Iterator", true, func(s fp.Seq[int]) []int { return seq.Iterator(s).ToSeq() })
	unarySlice(t, "seq.Collect", true, func(s fp.Seq[int]) []int { return seq.Collect(iterator.FromSeq(s)) })

	unarySlice(t, "seq.Sort", true, func(s fp.Seq[int]) []int { return seq.Sort(s, intOrd) })
	unaryValue(t, "seq.Min", func(s fp.Seq[int]) { _ = seq.Min(s, intOrd) })
	unaryValue(t, "seq.Max", func(s fp.Seq[int]) { _ = seq.Max(s, intOrd) })
	unarySlice(t, "seq.Distinct", true, func(s fp.Seq[int]) []int { return seq.Distinct(s) })
	withFn(t, "seq.Map", true, func(s fp.Seq[int], f func(int) int) []int { return seq.Map(s, f) })
	withFn(t, "seq.Lift", true, func(s fp.Seq[int], f func(int) int) []int { return seq.Lift(f)(s) })
	withFn(t, "seq.FilterMap", true, func(s fp.Seq[int], f func(int) int) []int {
		return seq.FilterMap(s, func(x int) fp.Option[int] {
			if f(x)%3 == 0 {
				return option.None[int]()
			}
			return option.Some(f(x))
		})
	})
	fnCheckF(t, "seq.FlatMap", func(e *env) func() {
		s := e.ints("s", maxLen)
		u := e.ints("u", 3)
		f := e.fn1("f")
		g := func(x int) fp.Seq[int] {
			if f(x)%2 == 0 {
				return u
			}
			return fp.Seq[int]{x, f(x)}
		}
		return func() {
			sliceResult(e, true, scribbleInt, func() []int { return seq.FlatMap(s, g) })
		}
	})
	fnCheckF(t, "seq.LiftM", func(e *env) func() {
		s := e.ints("s", maxLen)
		u := e.ints("u", 3)
		return func() {
			sliceResult(e, true, scribbleInt, func() []int {
				return seq.LiftM(func(x int) fp.Seq[int] { return u })(s)
			})
		}
	})
	fnCheckF(t, "seq.Compose+ComposePure", func(e *env) func() {
		s := e.ints("s", maxLen)
		f := e.fn1("f")
		return func() {
			sliceResult(e, true, scribbleInt, func() []int {
				return seq.Compose(func(int) fp.Seq[int] { return s }, seq.ComposePure(f))(0)
			})
		}
	})
	fnCheckF(t, "seq.Flatten", func(e *env) func() {
		// outer slice and inner slices all have their own shapes / backing arrays
		ss, _ := drawSeqOfSeq(e, "ss")
		return func() {
			sliceResult(e, true, scribbleInt, func() []int { return seq.Flatten(ss) })
		}
	})
	fnCheckF(t, "seq.Ap", func(e *env) func() {
		s := e.ints("s", maxLen)
		f1, f2 := e.fn1("f1"), e.fn1("f2")
		fs := drawSlot(e.rt, "fs", 3, func(rt *rapid.T, l string) fp.Func1[int, int] {
			if rapid.Bool().Draw(rt, l) {
				return f1
			}
			return f2
		}, func(i int) fp.Func1[int, int] { return nil })
		e.slices++
		e.note("fs=%s@%d+%d", fs.shape, fs.off, len(fs.view))
		if fs.spare() {
			e.spare = true
		}
		parent := fs.parent
		e.watch("backing array of input slice fs", "input-unchanged", func() string { return funcIDs(parent) })
		return func() {
			sliceResult(e, true, scribbleInt, func() []int { return seq.Ap(fp.Seq[fp.Func1[int, int]](fs.view), s) })
		}
	})
	fnCheckF(t, "seq.Map2", func(e *env) func() {
		a := e.ints("a", 4)
		b := e.ints("b", 4)
		return func() {
			sliceResult(e, true, scribbleInt, func() []int { return seq.Map2(a, b, func(x, y int) int { return x*10 + y }) })
		}
	})
	fnCheckF(t, "seq.FilterNil", func(e *env) func() {
		vals := []int{0, 1, 2, 3, 4, 5, 6, 7, 8, 9}
		sl := drawSlot(e.rt, "ps", maxLen, func(rt *rapid.T, l string) *int {
			i := rapid.IntRange(-1, 9).Draw(rt, l)
			if i < 0 {
				return nil
			}
			return &vals[i]
		}, func(i int) *int { x := hidden(i); return &x })
		ps := addSlot(e, "ps", sl)
		return func() {
			sliceResult(e, true, scribbleInt, func() []int { return seq.FilterNil(fp.Seq[*int](ps)) })
		}
	})
	fnCheckF(t, "as.SeqNonNil", func(e *env) func() {
		vals := []int{0, 1, 2, 3}
		sl := drawSlot(e.rt, "ps", maxLen, func(rt *rapid.T, l string) *int {
			i := rapid.IntRange(-1, 3).Draw(rt, l)
			if i < 0 {
				return nil
			}
			return &vals[i]
		}, func(i int) *int { x := hidden(i); return &x })
		ps := addSlot(e, "ps", sl)
		return func() {
			sliceResult(e, true, scribbleInt, func() []int { return as.SeqNonNil(ps) })
		}
	})
	fnCheckF(t, "seq.Concat", func(e *env) func() {
		tail := e.ints("tail", maxLen)
		x := e.num("head", 0, 9)
		return func() {
			// seq.Concat(head, tail) = Of(head).Concat(tail): the one-element slice Of(head) is fresh either way
			sliceResult(e, true, scribbleInt, func() []int { return seq.Concat(x, tail) })
		}
	})
	fnCheckF(t, "seq.Zip", func(e *env) func() {
		a := e.ints("a", maxLen)
		b := e.ints("b", maxLen)
		return func() { sliceResult(e, true, scribTup, func() []tup { return seq.Zip(a, b) }) }
	})
	fnCheckF(t, "seq.ZipWithIndex", func(e *env) func() {
		a := e.ints("a", maxLen)
		return func() { sliceResult(e, true, scribTup, func() []tup { return seq.ZipWithIndex(a) }) }
	})
	fnCheckF(t, "seq.Scan", func(e *env) func() {
		s := e.ints("s", maxLen)
		z := e.num("zero", 0, 9)
		return func() {
			sliceResult(e, true, scribbleInt, func() []int { return seq.Scan(s, z, func(a, b int) int { return mod(a+b, 10) }) })
		}
	})
	fnCheckF(t, "seq.Span", func(e *env) func() {
		s := e.ints("s", maxLen)
		p := e.pred("p")
		return func() {
			sliceResult(e, true, scribbleInt, func() []int { l, _ := seq.Span(s, p); return l })
			sliceResult(e, true, scribbleInt, func() []int { _, r := seq.Span(s, p); return r })
		}
	})
	fnCheckF(t, "seq.Partition", func(e *env) func() {
		s := e.ints("s", maxLen)
		p := e.pred("p")
		return func() {
			sliceResult(e, true, scribbleInt, func() []int { l, _ := seq.Partition(s, p); return l })
			sliceResult(e, true, scribbleInt, func() []int { _, r := seq.Partition(s, p); return r })
		}
	})

	// folds
	unaryValue(t, "seq.Fold", func(s fp.Seq[int]) { _ = seq.Fold(s, 0, func(a, b int) int { return a + b }) })
	fnCheckF(t, "seq.Fold(accumulating-Seq)", func(e *env) func() {
		// the accumulator starts as an input slice with spare capacity and is extended with Add
		s := e.ints("s", maxLen)
		z := e.ints("zero", 3)
		return func() {
			sliceResult(e, len(s) > 0, scribbleInt, func() []int {
				return seq.Fold(s, z, func(acc fp.Seq[int], x int) fp.Seq[int] { return acc.Add(x) })
			})
		}
	})
	unaryValue(t, "seq.FoldTry", func(s fp.Seq[int]) {
		_ = seq.FoldTry(s, 0, func(a, b int) fp.Try[int] {
			if b == 9 {
				return try.Failure[int](errStop)
			}
			return try.Success(a + b)
		})
	})
	unaryValue(t, "seq.FoldOption", func(s fp.Seq[int]) {
		_ = seq.FoldOption(s, 0, func(a, b int) fp.Option[int] {
			if b == 9 {
				return option.None[int]()
			}
			return option.Some(a + b)
		})
	})
	unaryValue(t, "seq.FoldError", func(s fp.Seq[int]) {
		_ = seq.FoldError(s, func(a int) error {
			if a == 9 {
				return errStop
			}
			return nil
		})
	})
	unaryValue(t, "seq.FoldMap(Sum)", func(s fp.Seq[int]) { _ = seq.FoldMap(s, monoid.Sum[int](), fp.Id[int]) })
	fnCheck(t, "seq.FoldMap(MergeSeq)", func(e *env) func() {
		s := e.ints("s", maxLen)
		u := e.ints("u", 3)
		return func() {
			sliceResult(e, false, scribbleInt, func() []int {
				return seq.FoldMap(s, monoid.MergeSeq[int](), func(x int) fp.Seq[int] {
					if x%2 == 0 {
						return u
					}
					return fp.Seq[int]{x}
				})
			})
		}
	})
	unaryValue(t, "seq.FoldRight", func(s fp.Seq[int]) {
		_ = seq.FoldRight(s, 0, func(a int, b lazy.Eval[int]) lazy.Eval[int] {
			return b.Map(func(v int) int { return a + v })
		}).Get()
	})
	fnCheckF(t, "seq.FoldRight(accumulating-Seq)", func(e *env) func() {
		s := e.ints("s", maxLen)
		z := e.ints("zero", 3)
		return func() {
			sliceResult(e, len(s) > 0, scribbleInt, func() []int {
				return seq.FoldRight(s, z, func(a int, b lazy.Eval[fp.Seq[int]]) lazy.Eval[fp.Seq[int]] {
					return b.Map(func(acc fp.Seq[int]) fp.Seq[int] { return acc.Add(a) })
				}).Get()
			})
		}
	})
	unaryValue(t, "seq.Reduce(Sum)", func(s fp.Seq[int]) { _ = seq.Reduce(s, monoid.Sum[int]()) })
	fnCheck(t, "seq.Reduce(MergeSeq)", func(e *env) func() {
		ss, _ := drawSeqOfSeq(e, "ss")
		return func() {
			// the result may be one of the operands (Concat with an empty tail returns its receiver)
			sliceResult(e, false, scribbleInt, func() []int { return seq.Reduce(ss, monoid.MergeSeq[int]()) })
		}
	})
	fnCheck(t, "seq.Reduce(MergeSlice)", func(e *env) func() {
		ss, _ := drawSeqOfSeq(e, "ss")
		plain := make([][]int, len(ss))
		for i := range ss {
			plain[i] = ss[i]
		}
		return func() {
			sliceResult(e, false, scribbleInt, func() []int { return seq.Reduce(plain, monoid.MergeSlice[int]()) })
		}
	})

	// conversions
	fnCheckF(t, "seq.GroupBy", func(e *env) func() {
		s := e.ints("s", 8)
		f := e.fn1("key")
		return func() {
			goMapResult(e, func() map[int]fp.Seq[int] { return seq.GroupBy(s, f) }, func(m map[int]fp.Seq[int]) {
				for _, k := range sortedGoKeys(m) {
					scribble(m[k], scribbleInt)
					delete(m, k)
				}
				m[99] = fp.Seq[int]{1}
			})
		}
	})
	fnCheckF(t, "seq.ToGoMap", func(e *env) func() {
		kv := drawTuples(e, "kv")
		return func() {
			goMapResult(e, func() map[int]int { return seq.ToGoMap(kv) }, spoilIntMap)
		}
	})
	fnCheckF(t, "seq.ToGoSet", func(e *env) func() {
		s := e.ints("s", maxLen)
		return func() {
			goMapResult(e, func() map[int]bool { return seq.ToGoSet(s) }, func(m map[int]bool) {
				for _, k := range sortedGoKeys(m) {
					delete(m, k)
				}
				m[99] = true
			})
		}
	})
	fnCheck(t, "seq.ToMap", func(e *env) func() {
		kv := drawTuples(e, "kv")
		h := drawHasher(e.rt, "hasher")
		if h.h == nil {
			h = hashers[0]
		}
		e.note("hasher=%s", h.name)
		return func() { fpMapResult(e, func() fp.Map[int, int] { return seq.ToMap(kv, h.h) }) }
	})
	fnCheck(t, "seq.ToSet", func(e *env) func() {
		s := e.ints("s", 10)
		h := drawHasher(e.rt, "hasher")
		if h.h == nil {
			h = hashers[1]
		}
		e.note("hasher=%s", h.name)
		return func() { fpSetResult(e, func() fp.Set[int] { return seq.ToSet(s, h.h) }) }
	})
	fnCheckF(t, "seq.FromMap", func(e *env) func() {
		m := e.goMap("m")
		return func() { sliceResult(e, true, scribTup, func() []tup { return seq.FromMap(m) }) }
	})
	fnCheckF(t, "seq.FromMapKeys", func(e *env) func() {
		m := e.goMap("m")
		return func() { sliceResult(e, true, scribbleInt, func() []int { return seq.FromMapKeys(m) }) }
	})
	fnCheckF(t, "seq.FromMapValues", func(e *env) func() {
		m := e.goMap("m")
		return func() { sliceResult(e, true, scribbleInt, func() []int { return seq.FromMapValues(m) }) }
	})
}

func spoilIntMap(m map[int]int) {
	for _, k := range sortedGoKeys(m) {
		m[k] = scribbleInt
		delete(m, k)
	}
	m[99] = scribbleInt
}

// drawSeqOfSeq draws an outer slice (with its own shape) of up to 4 inner int slices.
func drawSeqOfSeq(e *env, label string) (fp.Seq[fp.Seq[int]], []fp.Seq[int]) {
	n := rapid.IntRange(0, 4).Draw(e.rt, label+".inners")
	inner := make([]fp.Seq[int], 0, n)
	for i := 0; i < n; i++ {
		inner = append(inner, e.ints(label+".in"+string(rune('0'+i)), 4))
	}
	k := 0
	outer := drawSlot(e.rt, label, 4, func(rt *rapid.T, l string) fp.Seq[int] {
		if len(inner) == 0 {
			return nil
		}
		k++
		return inner[(k-1)%len(inner)]
	}, func(i int) fp.Seq[int] { return fp.Seq[int]{hidden(i)} })
	return addSlot(e, label, outer), inner
}

func pickCheck(fresh bool) func(t *testing.T, fn string, body func(e *env) func()) {
	if fresh {
		return fnCheckF
	}
	return fnCheck
}
