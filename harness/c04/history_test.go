package c04

// Part B: branching histories. A pool of live values (persistent maps and sets, builder
// outputs, fp.Seq views, lists, Options / Trys / tuples); every step picks ANY live value
// (any age, so histories branch), applies a rapid-chosen operation of the non-mutable API
// and adds the results to the pool. The observable content of every value (and, for
// maps / sets, the node structure; for slices the whole backing array) is snapshotted
// when the value is born and re-compared after every later step.

import (
	"fmt"
	"strings"
	"testing"

	"github.com/csgura/fp"
	"github.com/csgura/fp/immutable"
	"github.com/csgura/fp/iterator"
	"github.com/csgura/fp/list"
	"github.com/csgura/fp/monoid"
	"github.com/csgura/fp/option"
	"github.com/csgura/fp/product"
	"github.com/csgura/fp/seq"
	"github.com/csgura/fp/try"
	"pgregory.net/rapid"

	"verifharness/kit"
)

// ---- live values -----------------------------------------------------------------------------------

type snap struct {
	what   string // "content" | "node structure" | "backing array"
	clause string
	f      func() string
	before string
}

type value struct {
	name    string // e.g. seq#4
	origin  string // the operation that produced it
	born    int
	pending int // lazily produced lists: steps until the first observation
	snaps   []*snap
}

type mapV struct {
	v *value
	m fp.Map[int, int]
}
type setV struct {
	v *value
	s fp.Set[int]
}
type seqV struct {
	v *value
	s fp.Seq[int]
}
type listV struct {
	v  *value
	l  fp.List[int]
	ub int // upper bound of the length (growth control)
}
type mapB struct {
	name  string
	b     interface{ Build() fp.Map[int, int] }
	add   func(k, v int)
	built bool
}
type setB struct {
	name  string
	add   func(k int)
	build func() fp.Set[int]
	built bool
}

type world struct {
	rt  *rapid.T
	rec *kit.Rec
	fam string
	h   hspec

	values []*value
	maps   []*mapV
	sets   []*setV
	seqs   []*seqV
	lists  []*listV
	mbs    []*mapB
	sbs    []*setB
	nOpaq  int

	step       int
	log        []string
	branched   bool // some operation was applied to a non-newest version
	spareInput bool // some input slice with spare capacity / window joined the pool
	reuse      bool // builders may be used after Build
	labels     map[string]bool
}

func (w *world) sig(clause string) string { return "C04|history." + w.fam + "|" + clause }

func (w *world) add(kind, origin string, pending int, snaps ...*snap) *value {
	n := 0
	for _, v := range w.values {
		if strings.HasPrefix(v.name, kind+"#") {
			n++
		}
	}
	v := &value{name: fmt.Sprintf("%s#%d", kind, n), origin: origin, born: w.step, pending: pending, snaps: snaps}
	if pending == 0 {
		for _, s := range snaps {
			s.before = s.f()
		}
	}
	w.values = append(w.values, v)
	return v
}

func (w *world) newMap(m fp.Map[int, int], origin string) *mapV {
	v := w.add("map", origin, 0,
		&snap{what: "content (Get over the key space, Size, drained Iterator)", clause: "old-version-changed", f: func() string { return obsMap(m) }},
		&snap{what: "node structure", clause: "old-version-structure-changed", f: func() string { return deep(m) }})
	w.census(v.snaps[1].before)
	mv := &mapV{v, m}
	w.maps = append(w.maps, mv)
	return mv
}

func (w *world) newSet(s fp.Set[int], origin string) *setV {
	v := w.add("set", origin, 0,
		&snap{what: "content (Contains over the key space, Size, drained Iterator)", clause: "old-version-changed", f: func() string { return obsSet(s) }},
		&snap{what: "node structure", clause: "old-version-structure-changed", f: func() string { return deep(s) }})
	w.census(v.snaps[1].before)
	sv := &setV{v, s}
	w.sets = append(w.sets, sv)
	return sv
}

// newSeq registers a slice value. whole is its entire backing array as far as the
// harness knows it (the parent array for harness-made inputs, s[:cap(s)] for results).
func (w *world) newSeq(s fp.Seq[int], whole []int, origin string) *seqV {
	if whole == nil {
		whole = s[:cap(s)]
	}
	v := w.add("seq", origin, 0,
		&snap{what: "elements", clause: "old-version-changed", f: func() string { return deep(s) }},
		&snap{what: "whole backing array", clause: "old-version-changed", f: func() string { return fmt.Sprint(whole) }})
	sv := &seqV{v, s}
	w.seqs = append(w.seqs, sv)
	return sv
}

// census labels which HAMT node kinds occurred in the history (read off the structure snapshot).
func (w *world) census(structure string) {
	for _, k := range []string{"mapArrayNode", "mapBitmapIndexedNode", "mapHashArrayNode", "mapHashCollisionNode", "UnsafeGoMap", "UnsafeGoSet"} {
		if strings.Contains(structure, k) {
			w.labels["node:"+k] = true
		}
	}
}

func obsList(l fp.List[int]) string {
	a := fmt.Sprint(l.ToSeq())
	b := fmt.Sprint(l.ToSeq())
	var walk []int
	c := l
	for n := 0; c.NonEmpty() && n < 4096; n++ {
		walk = append(walk, c.Head())
		c = c.Tail()
	}
	if len(walk) == 0 {
		walk = nil
	}
	return a + "|" + b + "|" + fmt.Sprint(walk) + fmt.Sprintf("|empty=%v", l.IsEmpty())
}

func (w *world) newList(l fp.List[int], ub int, pending int, origin string) *listV {
	v := w.add("list", origin, pending,
		&snap{what: "content (ToSeq twice, Head/Tail walk)", clause: "old-version-changed", f: func() string { return obsList(l) }})
	lv := &listV{v, l, ub}
	w.lists = append(w.lists, lv)
	return lv
}

func (w *world) newOpaque(origin string, f func() string) {
	w.nOpaq++
	w.add("val", origin, 0, &snap{what: "content", clause: "old-version-changed", f: f})
}

// verifyAll re-inspects every live value.
func (w *world) verifyAll(lastOp string) {
	for _, v := range w.values {
		if v.pending > 0 {
			v.pending--
			if v.pending == 0 {
				for _, s := range v.snaps {
					w.rec.Guard(w.rt, w.sig("observe"), func() { s.before = s.f() })
				}
			}
			continue
		}
		for _, s := range v.snaps {
			var now string
			w.rec.Guard(w.rt, w.sig("observe"), func() { now = s.f() })
			if now != s.before {
				w.rec.Failf(w.rt, w.sig(s.clause), "%s (born in step %d by %q): %s changed in step %d by %q\n  before: %s\n  after:  %s\n  history: %s",
					v.name, v.born, v.origin, s.what, w.step, lastOp, s.before, now, strings.Join(w.log, " ; "))
			}
		}
	}
}

// ---- per-step arguments (state independent draws) -----------------------------------------------------

type args struct {
	i, j        int
	key, val    int
	n           int
	f           kit.IntFn
	p           kit.Pred
	sl          slot[int]
	pairs       []kvPair
	how, defer_ int
}

func (a *args) fn(x int) int { return mod(a.f.Call(x), 10) }

func drawArgs(rt *rapid.T) *args {
	a := &args{
		i:   rapid.IntRange(0, 999).Draw(rt, "i"),
		j:   rapid.IntRange(0, 999).Draw(rt, "j"),
		key: rapid.IntRange(0, keySpace-1).Draw(rt, "key"),
		val: rapid.IntRange(0, 9).Draw(rt, "val"),
		n:   rapid.IntRange(0, 7).Draw(rt, "n"),
	}
	a.f = kit.IntFn{Tab: []int{a.val, a.n, a.key % 10}[:1+a.j%3]}
	a.p = kit.Pred{Tab: []bool{a.i%2 == 0, a.j%2 == 0, a.n%2 == 0}[:1+a.i%3]}
	a.how = a.j % 3
	a.defer_ = 0
	if a.i%3 == 0 {
		a.defer_ = 1 + a.j%3
	}
	return a
}

func pick[T any](w *world, pool []T, sel int) (T, bool) {
	var zero T
	if len(pool) == 0 {
		return zero, false
	}
	// newest-biased half of the time, so that long chains appear as well
	idx := sel % len(pool)
	if sel%2 == 1 {
		idx = len(pool) - 1 - (sel/2)%minInt(len(pool), 3)
	}
	if idx < len(pool)-1 {
		w.branched = true
	}
	return pool[idx], true
}

func minInt(a, b int) int {
	if a < b {
		return a
	}
	return b
}

// ---- operations -----------------------------------------------------------------------------------------

type opDef struct {
	name  string
	fam   string // map | set | seq | list | misc
	slot  bool   // needs a drawn input slice
	pairs bool   // needs drawn key/value pairs
	sus   string // "" | "sort" | "setbuilder": suspected offenders, kept out of the base histories
	run   func(w *world, a *args) string
}

func presentKey(m fp.Map[int, int], sel int) int { return pickPresent(m, sel) }

func presentElem(s fp.Set[int], sel int) int {
	for i := 0; i < keySpace; i++ {
		if s.Contains((sel + i) % keySpace) {
			return (sel + i) % keySpace
		}
	}
	return sel % keySpace
}

func pairsToTuples(ps []kvPair) fp.Seq[tup] {
	r := make(fp.Seq[tup], len(ps))
	for i, p := range ps {
		r[i] = tup{I1: p.k, I2: p.v}
	}
	return r
}

func hOrIdentity(w *world) hspec {
	if w.h.h == nil {
		return hashers[0]
	}
	return w.h
}

var allOps []opDef

func init() {
	op := func(fam, name string, run func(w *world, a *args) string) {
		allOps = append(allOps, opDef{name: name, fam: fam, run: run})
	}
	opx := func(d opDef) { allOps = append(allOps, d) }

	// ---- maps ----
	opx(opDef{fam: "map", name: "map.new", pairs: true, run: func(w *world, a *args) string {
		h := w.h
		if a.i%5 == 0 {
			h = hashers[len(hashers)-1] // zero value (UnsafeGoMap)
		}
		m := w.newMap(buildMap(h, a.how, a.pairs), "")
		m.v.origin = fmt.Sprintf("new(%s,how%d){%s}", h.name, a.how, descPairs(a.pairs))
		return m.v.name + "=" + m.v.origin
	}})
	op("map", "Updated", func(w *world, a *args) string {
		m, ok := pick(w, w.maps, a.i)
		if !ok {
			return "-"
		}
		k := a.key
		if a.j%2 == 0 {
			k = presentKey(m.m, a.key)
		}
		d := fmt.Sprintf("%s.Updated(%d,%d)", m.v.name, k, a.val+10)
		return w.newMap(m.m.Updated(k, a.val+10), d).v.name + "=" + d
	})
	op("map", "Removed", func(w *world, a *args) string {
		m, ok := pick(w, w.maps, a.i)
		if !ok {
			return "-"
		}
		k := presentKey(m.m, a.key)
		if a.j%4 == 0 {
			k = a.key
		}
		d := fmt.Sprintf("%s.Removed(%d)", m.v.name, k)
		return w.newMap(m.m.Removed(k), d).v.name + "=" + d
	})
	op("map", "Removed3", func(w *world, a *args) string {
		m, ok := pick(w, w.maps, a.i)
		if !ok {
			return "-"
		}
		k1, k2 := presentKey(m.m, a.key), presentKey(m.m, a.key+a.n+1)
		d := fmt.Sprintf("%s.Removed(%d,%d,%d)", m.v.name, k1, a.key, k2)
		return w.newMap(m.m.Removed(k1, a.key, k2), d).v.name + "=" + d
	})
	op("map", "UpdatedWith", func(w *world, a *args) string {
		m, ok := pick(w, w.maps, a.i)
		if !ok {
			return "-"
		}
		k := presentKey(m.m, a.key)
		if a.j%3 == 0 {
			k = a.key
		}
		mode := a.n % 3
		d := fmt.Sprintf("%s.UpdatedWith(%d,mode%d)", m.v.name, k, mode)
		r := m.m.UpdatedWith(k, func(o fp.Option[int]) fp.Option[int] {
			switch mode {
			case 0:
				return option.Some(o.OrElse(0) + 20)
			case 1:
				return option.None[int]()
			}
			return o
		})
		return w.newMap(r, d).v.name + "=" + d
	})
	op("map", "Concat", func(w *world, a *args) string {
		m, ok := pick(w, w.maps, a.i)
		o, _ := pick(w, w.maps, a.j)
		if !ok {
			return "-"
		}
		d := fmt.Sprintf("%s.Concat(%s)", m.v.name, o.v.name)
		return w.newMap(m.m.Concat(o.m), d).v.name + "=" + d
	})
	op("map", "MergeMap", func(w *world, a *args) string {
		m, ok := pick(w, w.maps, a.i)
		o, _ := pick(w, w.maps, a.j)
		if !ok {
			return "-"
		}
		d := fmt.Sprintf("MergeMap.Combine(%s,%s)", m.v.name, o.v.name)
		return w.newMap(monoid.MergeMap[int, int]().Combine(m.m, o.m), d).v.name + "=" + d
	})
	op("map", "map.read", func(w *world, a *args) string {
		m, ok := pick(w, w.maps, a.i)
		if !ok {
			return "-"
		}
		_ = m.m.Keys().ToSeq()
		_ = m.m.Values().ToSeq()
		m.m.Foreach(func(fp.Tuple2[int, int]) {})
		_ = m.m.String()
		it := m.m.Iterator()
		d := m.m
		for n := 0; it.HasNext() && n < 4*keySpace; n++ {
			kv := it.Next()
			d = d.Updated(kv.I1, kv.I2+1).Removed(kv.I1 + 1)
		}
		return "read(" + m.v.name + ")"
	})
	op("map", "rebuild", func(w *world, a *args) string {
		m, ok := pick(w, w.maps, a.i)
		if !ok {
			return "-"
		}
		h := hOrIdentity(w)
		var r fp.Map[int, int]
		var d string
		switch a.how {
		case 0:
			r, d = seq.ToMap(fp.Seq[tup](m.m.Iterator().ToSeq()), h.h), "seq.ToMap"
		case 1:
			r, d = iterator.ToMap(m.m.Iterator(), h.h), "iterator.ToMap"
		default:
			r, d = list.ToMap(list.Collect(m.m.Iterator()), h.h), "list.ToMap"
		}
		d = fmt.Sprintf("%s(%s)", d, m.v.name)
		return w.newMap(r, d).v.name + "=" + d
	})
	opx(opDef{fam: "map", name: "mapBuilder.new", pairs: true, run: func(w *world, a *args) string {
		b := immutable.MapBuilder[int, int](hOrIdentity(w).h)
		for _, p := range a.pairs {
			b.Add(p.k, p.v)
		}
		mb := &mapB{name: fmt.Sprintf("mb#%d", len(w.mbs)), b: b, add: func(k, v int) { b.Add(k, v) }}
		w.mbs = append(w.mbs, mb)
		return fmt.Sprintf("%s=MapBuilder{%s}", mb.name, descPairs(a.pairs))
	}})
	op("map", "mapBuilder.Add", func(w *world, a *args) string {
		b, ok := pick(w, w.mbs, a.i)
		if !ok {
			return "-"
		}
		// a builder used after Build may refuse (mapBuilder panics): accepted
		_, p := kit.Catch(func() { b.add(a.key, a.val+30) })
		w.labels[fmt.Sprintf("mapBuilder.Add built=%v panicked=%v", b.built, p)] = true
		return fmt.Sprintf("%s.Add(%d,%d)[built=%v,panic=%v]", b.name, a.key, a.val+30, b.built, p)
	})
	op("map", "mapBuilder.Build", func(w *world, a *args) string {
		b, ok := pick(w, w.mbs, a.i)
		if !ok {
			return "-"
		}
		var m fp.Map[int, int]
		_, p := kit.Catch(func() { m = b.b.Build() })
		was := b.built
		b.built = true
		w.labels[fmt.Sprintf("mapBuilder.Build again=%v panicked=%v", was, p)] = true
		if p {
			return fmt.Sprintf("%s.Build()[again=%v,panic]", b.name, was)
		}
		d := fmt.Sprintf("%s.Build()[again=%v]", b.name, was)
		return w.newMap(m, d).v.name + "=" + d
	})

	// ---- sets ----
	opx(opDef{fam: "set", name: "set.new", pairs: true, run: func(w *world, a *args) string {
		h := w.h
		if a.i%5 == 0 {
			h = hashers[len(hashers)-1]
		}
		ks := make([]int, len(a.pairs))
		for i, p := range a.pairs {
			ks[i] = p.k
		}
		d := fmt.Sprintf("new(%s,how%d)%v", h.name, a.how, ks)
		return w.newSet(buildSet(h, a.how, ks), d).v.name + "=" + d
	}})
	op("set", "Incl", func(w *world, a *args) string {
		s, ok := pick(w, w.sets, a.i)
		if !ok {
			return "-"
		}
		d := fmt.Sprintf("%s.Incl(%d)", s.v.name, a.key)
		return w.newSet(s.s.Incl(a.key), d).v.name + "=" + d
	})
	op("set", "Excl", func(w *world, a *args) string {
		s, ok := pick(w, w.sets, a.i)
		if !ok {
			return "-"
		}
		k := presentElem(s.s, a.key)
		if a.j%4 == 0 {
			k = a.key
		}
		d := fmt.Sprintf("%s.Excl(%d)", s.v.name, k)
		return w.newSet(s.s.Excl(k), d).v.name + "=" + d
	})
	op("set", "set.Concat", func(w *world, a *args) string {
		s, ok := pick(w, w.sets, a.i)
		o, _ := pick(w, w.sets, a.j)
		if !ok {
			return "-"
		}
		d := fmt.Sprintf("%s.Concat(%s)", s.v.name, o.v.name)
		return w.newSet(s.s.Concat(o.s), d).v.name + "=" + d
	})
	op("set", "Diff", func(w *world, a *args) string {
		s, ok := pick(w, w.sets, a.i)
		o, _ := pick(w, w.sets, a.j)
		if !ok {
			return "-"
		}
		// a panicking zero-value receiver (nil getEmpty; a C03 matter) is made non-zero first
		d := fmt.Sprintf("%s.Diff(%s)", s.v.name, o.v.name)
		return w.newSet(safeDiff(s.s, o.s), d).v.name + "=" + d
	})
	op("set", "Intersect", func(w *world, a *args) string {
		s, ok := pick(w, w.sets, a.i)
		o, _ := pick(w, w.sets, a.j)
		if !ok {
			return "-"
		}
		d := fmt.Sprintf("%s.Intersect(%s)", s.v.name, o.v.name)
		return w.newSet(safeIntersect(s.s, o.s), d).v.name + "=" + d
	})
	op("set", "MergeSet", func(w *world, a *args) string {
		s, ok := pick(w, w.sets, a.i)
		o, _ := pick(w, w.sets, a.j)
		if !ok {
			return "-"
		}
		d := fmt.Sprintf("MergeSet.Combine(%s,%s)", s.v.name, o.v.name)
		return w.newSet(monoid.MergeSet[int]().Combine(s.s, o.s), d).v.name + "=" + d
	})
	op("set", "set.read", func(w *world, a *args) string {
		s, ok := pick(w, w.sets, a.i)
		o, _ := pick(w, w.sets, a.j)
		if !ok {
			return "-"
		}
		_ = s.s.SubsetOf(o.s)
		s.s.Foreach(func(int) {})
		_ = s.s.String()
		it := s.s.Iterator()
		d := s.s
		for n := 0; it.HasNext() && n < 4*keySpace; n++ {
			k := it.Next()
			d = d.Excl(k).Incl(k + 1)
		}
		return "read(" + s.v.name + ")"
	})
	op("set", "set.rebuild", func(w *world, a *args) string {
		s, ok := pick(w, w.sets, a.i)
		if !ok {
			return "-"
		}
		h := hOrIdentity(w)
		var r fp.Set[int]
		var d string
		switch a.how {
		case 0:
			r, d = seq.ToSet(fp.Seq[int](s.s.Iterator().ToSeq()), h.h), "seq.ToSet"
		case 1:
			r, d = iterator.ToSet(s.s.Iterator(), h.h), "iterator.ToSet"
		default:
			r, d = list.ToSet(list.Collect(s.s.Iterator()), h.h), "list.ToSet"
		}
		d = fmt.Sprintf("%s(%s)", d, s.v.name)
		return w.newSet(r, d).v.name + "=" + d
	})
	opx(opDef{fam: "set", name: "setBuilder.new", pairs: true, run: func(w *world, a *args) string {
		b := immutable.SetBuilder(hOrIdentity(w).h)
		for _, p := range a.pairs {
			b.Add(p.k)
		}
		sb := &setB{name: fmt.Sprintf("sb#%d", len(w.sbs)), add: func(k int) { b.Add(k) }, build: func() fp.Set[int] { return b.Build() }}
		w.sbs = append(w.sbs, sb)
		return fmt.Sprintf("%s=SetBuilder{%s}", sb.name, descPairs(a.pairs))
	}})
	op("set", "setBuilder.Add", func(w *world, a *args) string {
		b, ok := pick(w, w.sbs, a.i)
		if !ok || (b.built && !w.reuse) {
			return "-"
		}
		_, p := kit.Catch(func() { b.add(a.key) })
		w.labels[fmt.Sprintf("setBuilder.Add built=%v panicked=%v", b.built, p)] = true
		return fmt.Sprintf("%s.Add(%d)[built=%v,panic=%v]", b.name, a.key, b.built, p)
	})
	op("set", "setBuilder.Build", func(w *world, a *args) string {
		b, ok := pick(w, w.sbs, a.i)
		if !ok || (b.built && !w.reuse) {
			return "-"
		}
		var s fp.Set[int]
		_, p := kit.Catch(func() { s = b.build() })
		was := b.built
		b.built = true
		w.labels[fmt.Sprintf("setBuilder.Build again=%v panicked=%v", was, p)] = true
		if p {
			return fmt.Sprintf("%s.Build()[again=%v,panic]", b.name, was)
		}
		d := fmt.Sprintf("%s.Build()[again=%v]", b.name, was)
		return w.newSet(s, d).v.name + "=" + d
	})

	// ---- seqs ----
	opx(opDef{fam: "seq", name: "seq.input", slot: true, run: func(w *world, a *args) string {
		if a.sl.spare() {
			w.spareInput = true
		}
		d := "input " + descInts(a.sl)
		return w.newSeq(a.sl.view, a.sl.parent, d).v.name + "=" + d
	}})
	seqOp := func(name string, sus string, f func(w *world, a *args, s, o *seqV) (fp.Seq[int], string)) {
		opx(opDef{fam: "seq", name: name, sus: sus, run: func(w *world, a *args) string {
			s, ok := pick(w, w.seqs, a.i)
			o, _ := pick(w, w.seqs, a.j)
			if !ok {
				return "-"
			}
			r, d := f(w, a, s, o)
			return w.newSeq(r, nil, d).v.name + "=" + d
		}})
	}
	seqOp("Append", "", func(w *world, a *args, s, o *seqV) (fp.Seq[int], string) {
		items := []int{a.val, a.n, a.key % 10}[:a.n%4]
		return s.s.Append(items...), fmt.Sprintf("%s.Append(%v)", s.v.name, items)
	})
	seqOp("Append(view)", "", func(w *world, a *args, s, o *seqV) (fp.Seq[int], string) {
		return s.s.Append(o.s...), fmt.Sprintf("%s.Append(%s...)", s.v.name, o.v.name)
	})
	seqOp("Add", "", func(w *world, a *args, s, o *seqV) (fp.Seq[int], string) {
		return s.s.Add(a.val), fmt.Sprintf("%s.Add(%d)", s.v.name, a.val)
	})
	seqOp("Concat", "", func(w *world, a *args, s, o *seqV) (fp.Seq[int], string) {
		return s.s.Concat(o.s), fmt.Sprintf("%s.Concat(%s)", s.v.name, o.v.name)
	})
	seqOp("Reverse", "", func(w *world, a *args, s, o *seqV) (fp.Seq[int], string) {
		return s.s.Reverse(), s.v.name + ".Reverse()"
	})
	seqOp("Map", "", func(w *world, a *args, s, o *seqV) (fp.Seq[int], string) {
		if a.how == 0 {
			return seq.Map(s.s, a.fn), fmt.Sprintf("seq.Map(%s,%v)", s.v.name, a.f)
		}
		return s.s.Map(a.fn), fmt.Sprintf("%s.Map(%v)", s.v.name, a.f)
	})
	seqOp("Filter", "", func(w *world, a *args, s, o *seqV) (fp.Seq[int], string) {
		if a.how == 0 {
			return s.s.FilterNot(a.p.Call), fmt.Sprintf("%s.FilterNot(%v)", s.v.name, a.p)
		}
		return s.s.Filter(a.p.Call), fmt.Sprintf("%s.Filter(%v)", s.v.name, a.p)
	})
	seqOp("FlatMap", "", func(w *world, a *args, s, o *seqV) (fp.Seq[int], string) {
		if len(s.s) > 24 {
			return s.s.Take(3), s.v.name + ".Take(3)"
		}
		g := func(x int) fp.Seq[int] {
			if a.p.Call(x) {
				return o.s.Take(2)
			}
			return fp.Seq[int]{x, a.fn(x)}
		}
		if a.how == 0 {
			return seq.FlatMap(s.s, g), fmt.Sprintf("seq.FlatMap(%s, x->%v?%s.Take(2):[x,f x])", s.v.name, a.p, o.v.name)
		}
		return s.s.FlatMap(g), fmt.Sprintf("%s.FlatMap(x->%v?%s.Take(2):[x,f x])", s.v.name, a.p, o.v.name)
	})
	seqOp("Take", "", func(w *world, a *args, s, o *seqV) (fp.Seq[int], string) {
		return s.s.Take(a.n), fmt.Sprintf("%s.Take(%d)", s.v.name, a.n)
	})
	seqOp("Drop", "", func(w *world, a *args, s, o *seqV) (fp.Seq[int], string) {
		return s.s.Drop(a.n), fmt.Sprintf("%s.Drop(%d)", s.v.name, a.n)
	})
	seqOp("Init", "", func(w *world, a *args, s, o *seqV) (fp.Seq[int], string) { return s.s.Init(), s.v.name + ".Init()" })
	seqOp("Tail", "", func(w *world, a *args, s, o *seqV) (fp.Seq[int], string) { return s.s.Tail(), s.v.name + ".Tail()" })
	seqOp("UnSeq", "", func(w *world, a *args, s, o *seqV) (fp.Seq[int], string) {
		_, tl := s.s.UnSeq()
		return tl, s.v.name + ".UnSeq()"
	})
	seqOp("reslice", "", func(w *world, a *args, s, o *seqV) (fp.Seq[int], string) {
		// the user reslices (Go level): a new value sharing the backing array, possibly
		// exposing the spare capacity as live data
		full := s.s[:cap(s.s)]
		lo, hi := a.n%(len(full)+1), a.val%(len(full)+1)
		if lo > hi {
			lo, hi = hi, lo
		}
		return full[lo:hi], fmt.Sprintf("%s[:cap][%d:%d]", s.v.name, lo, hi)
	})
	seqOp("Distinct", "", func(w *world, a *args, s, o *seqV) (fp.Seq[int], string) {
		return seq.Distinct(s.s), "seq.Distinct(" + s.v.name + ")"
	})
	seqOp("Scan", "", func(w *world, a *args, s, o *seqV) (fp.Seq[int], string) {
		return seq.Scan(s.s, a.val, func(x, y int) int { return mod(x+y, 10) }), fmt.Sprintf("seq.Scan(%s,%d,+)", s.v.name, a.val)
	})
	seqOp("Flatten", "", func(w *world, a *args, s, o *seqV) (fp.Seq[int], string) {
		if len(s.s)+len(o.s) > 24 {
			return s.s.Take(3), s.v.name + ".Take(3)"
		}
		return seq.Flatten(fp.Seq[fp.Seq[int]]{s.s, o.s, s.s}), fmt.Sprintf("seq.Flatten([%s %s %s])", s.v.name, o.v.name, s.v.name)
	})
	seqOp("Reduce(MergeSeq)", "", func(w *world, a *args, s, o *seqV) (fp.Seq[int], string) {
		if len(s.s)+len(o.s) > 24 {
			return s.s.Take(3), s.v.name + ".Take(3)"
		}
		switch a.how {
		case 0:
			return seq.Reduce(fp.Seq[fp.Seq[int]]{s.s, o.s}, monoid.MergeSeq[int]()), fmt.Sprintf("seq.Reduce([%s %s],MergeSeq)", s.v.name, o.v.name)
		case 1:
			return monoid.MergeSeq[int]().Combine(s.s, o.s), fmt.Sprintf("MergeSeq.Combine(%s,%s)", s.v.name, o.v.name)
		}
		return seq.FoldMap(s.s, monoid.MergeSeq[int](), func(x int) fp.Seq[int] { return o.s.Take(1).Add(x) }), fmt.Sprintf("seq.FoldMap(%s,MergeSeq,x->%s.Take(1).Add(x))", s.v.name, o.v.name)
	})
	seqOp("Fold(Add)", "", func(w *world, a *args, s, o *seqV) (fp.Seq[int], string) {
		if len(s.s)+len(o.s) > 24 {
			return s.s.Take(3), s.v.name + ".Take(3)"
		}
		return seq.Fold(s.s, o.s, func(acc fp.Seq[int], x int) fp.Seq[int] { return acc.Add(x) }), fmt.Sprintf("seq.Fold(%s,%s,Add)", s.v.name, o.v.name)
	})
	seqOp("via-iterator", "", func(w *world, a *args, s, o *seqV) (fp.Seq[int], string) {
		switch a.how {
		case 0:
			return iterator.FromSeq(s.s).ToSeq(), "iterator.FromSeq(" + s.v.name + ").ToSeq()"
		case 1:
			return iterator.Sort(iterator.FromSeq(s.s), intOrd), "iterator.Sort(FromSeq(" + s.v.name + "))"
		}
		return iterator.FromSeq(s.s).Filter(a.p.Call).Concat(iterator.FromSeq(o.s)).ToSeq(), fmt.Sprintf("FromSeq(%s).Filter(%v).Concat(FromSeq(%s)).ToSeq()", s.v.name, a.p, o.v.name)
	})
	seqOp("via-list", "", func(w *world, a *args, s, o *seqV) (fp.Seq[int], string) {
		switch a.how {
		case 0:
			return list.FromSeq(s.s).ToSeq(), "list.FromSeq(" + s.v.name + ").ToSeq()"
		case 1:
			return list.Sort(list.Of(s.s...), intOrd), "list.Sort(list.Of(" + s.v.name + "...))"
		}
		return list.Apply(a.val, list.FromSeq(s.s)).Tail().ToSeq(), fmt.Sprintf("list.Apply(%d,FromSeq(%s)).Tail().ToSeq()", a.val, s.v.name)
	})
	seqOp("via-try-option", "", func(w *world, a *args, s, o *seqV) (fp.Seq[int], string) {
		switch a.how {
		case 0:
			return try.AppendSeqT(try.Success(s.s), a.val).OrZero(), fmt.Sprintf("try.AppendSeqT(%s,%d)", s.v.name, a.val)
		case 1:
			return try.ConcatSeqT(try.ReverseSeqT(try.Success(s.s)), o.s).OrZero(), fmt.Sprintf("try.ConcatSeqT(ReverseSeqT(%s),%s)", s.v.name, o.v.name)
		}
		return option.TraverseSeq(s.s, func(x int) fp.Option[int] { return option.Some(a.fn(x)) }).OrZero(), fmt.Sprintf("option.TraverseSeq(%s,%v)", s.v.name, a.f)
	})
	seqOp("Sort", "sort", func(w *world, a *args, s, o *seqV) (fp.Seq[int], string) {
		if a.how == 0 {
			return try.SortSeqT(try.Success(s.s), intOrd).OrZero(), "try.SortSeqT(" + s.v.name + ")"
		}
		return seq.Sort(s.s, intOrd), "seq.Sort(" + s.v.name + ")"
	})
	op("seq", "Span/Partition", func(w *world, a *args) string {
		s, ok := pick(w, w.seqs, a.i)
		if !ok {
			return "-"
		}
		var l, r fp.Seq[int]
		var d string
		if a.how == 0 {
			l, r = seq.Span(s.s, a.p.Call)
			d = fmt.Sprintf("seq.Span(%s,%v)", s.v.name, a.p)
		} else {
			l, r = seq.Partition(s.s, a.p.Call)
			d = fmt.Sprintf("seq.Partition(%s,%v)", s.v.name, a.p)
		}
		return w.newSeq(l, nil, d+".left").v.name + "," + w.newSeq(r, nil, d+".right").v.name + "=" + d
	})
	op("seq", "GroupBy", func(w *world, a *args) string {
		s, ok := pick(w, w.seqs, a.i)
		if !ok {
			return "-"
		}
		d := fmt.Sprintf("seq.GroupBy(%s,%v)", s.v.name, a.f)
		g := seq.GroupBy(s.s, a.fn)
		w.newOpaque(d, func() string { return deep(g) })
		out := ""
		for _, k := range sortedGoKeys(g) {
			out += w.newSeq(g[k], nil, fmt.Sprintf("%s[%d]", d, k)).v.name + ","
		}
		return out + "=" + d
	})
	op("seq", "Zip", func(w *world, a *args) string {
		s, ok := pick(w, w.seqs, a.i)
		o, _ := pick(w, w.seqs, a.j)
		if !ok {
			return "-"
		}
		d := fmt.Sprintf("seq.Zip(%s,%s)", s.v.name, o.v.name)
		z := seq.Zip(s.s, o.s)
		w.newOpaque(d, func() string { return deep(z[:cap(z)]) })
		zi := seq.ZipWithIndex(s.s)
		w.newOpaque("seq.ZipWithIndex("+s.v.name+")", func() string { return deep(zi[:cap(zi)]) })
		gm := seq.ToGoMap(z)
		w.newOpaque("seq.ToGoMap("+d+")", func() string { return deep(gm) })
		return d
	})
	op("seq", "seq.read", func(w *world, a *args) string {
		s, ok := pick(w, w.seqs, a.i)
		if !ok {
			return "-"
		}
		_, _ = seq.Min(s.s, intOrd), seq.Max(s.s, intOrd)
		_ = seq.Fold(s.s, 0, func(x, y int) int { return x + y })
		_ = seq.Reduce(s.s, monoid.Sum[int]())
		_, _, _ = s.s.Exists(a.p.Call), s.s.ForAll(a.p.Call), s.s.Find(a.p.Call)
		_ = s.s.MakeString(",")
		_ = seq.ToGoSet(s.s)
		return "read(" + s.v.name + ")"
	})

	// ---- lists ----
	opx(opDef{fam: "list", name: "list.input", slot: true, run: func(w *world, a *args) string {
		if a.sl.spare() {
			w.spareInput = true
		}
		sv := w.newSeq(a.sl.view, a.sl.parent, "input "+descInts(a.sl))
		var l fp.List[int]
		var d string
		xs := a.sl.view
		switch a.n % 5 {
		case 0:
			l, d = list.Of(xs...), "list.Of(%s...)"
		case 1:
			l, d = list.FromSeq(xs), "list.FromSeq(%s)"
		case 2:
			l = list.Empty[int]()
			for i := len(xs) - 1; i >= 0; i-- {
				l = list.Apply(xs[i], l)
			}
			d = "cons cells of %s"
		case 3:
			cp := append([]int{}, xs...)
			l, d = list.Generate(func(i int) fp.Option[int] {
				if i < len(cp) {
					return option.Some(cp[i])
				}
				return option.None[int]()
			}), "list.Generate(copy of %s)"
		default:
			l, d = list.ReverseSeq(xs), "list.ReverseSeq(%s)"
		}
		d = fmt.Sprintf(d, sv.v.name)
		return w.newList(l, len(xs), 0, d).v.name + "=" + d
	}})
	listOp := func(name string, f func(w *world, a *args, l, o *listV) (fp.List[int], int, string)) {
		opx(opDef{fam: "list", name: name, run: func(w *world, a *args) string {
			l, ok := pick(w, w.lists, a.i)
			o, _ := pick(w, w.lists, a.j)
			if !ok {
				return "-"
			}
			r, ub, d := f(w, a, l, o)
			return w.newList(r, ub, a.defer_, d).v.name + fmt.Sprintf("=%s[observed after %d]", d, a.defer_)
		}})
	}
	listOp("cons", func(w *world, a *args, l, o *listV) (fp.List[int], int, string) {
		if a.how == 0 {
			return list.Concat(a.val, l.l), l.ub + 1, fmt.Sprintf("list.Concat(%d,%s)", a.val, l.v.name)
		}
		return list.Apply(a.val, l.l), l.ub + 1, fmt.Sprintf("list.Apply(%d,%s)", a.val, l.v.name)
	})
	listOp("list.Tail", func(w *world, a *args, l, o *listV) (fp.List[int], int, string) {
		return l.l.Tail(), l.ub, l.v.name + ".Tail()"
	})
	listOp("list.Map", func(w *world, a *args, l, o *listV) (fp.List[int], int, string) {
		return list.Map(l.l, a.fn), l.ub, fmt.Sprintf("list.Map(%s,%v)", l.v.name, a.f)
	})
	listOp("list.FilterMap", func(w *world, a *args, l, o *listV) (fp.List[int], int, string) {
		return list.FilterMap(l.l, func(x int) fp.Option[int] {
			if a.p.Call(x) {
				return option.Some(a.fn(x))
			}
			return option.None[int]()
		}), l.ub, fmt.Sprintf("list.FilterMap(%s,%v,%v)", l.v.name, a.p, a.f)
	})
	listOp("list.FlatMap", func(w *world, a *args, l, o *listV) (fp.List[int], int, string) {
		if l.ub > 16 || o.ub > 16 {
			return l.l.Tail(), l.ub, l.v.name + ".Tail()"
		}
		return list.FlatMap(l.l, func(x int) fp.List[int] {
			if a.p.Call(x) {
				return o.l
			}
			return list.Of(x, a.fn(x))
		}), l.ub * (2 + o.ub), fmt.Sprintf("list.FlatMap(%s,x->%v?%s:[x,f x])", l.v.name, a.p, o.v.name)
	})
	listOp("list.Combine", func(w *world, a *args, l, o *listV) (fp.List[int], int, string) {
		if l.ub+o.ub > 64 {
			return l.l.Tail(), l.ub, l.v.name + ".Tail()"
		}
		return list.Combine(l.l, o.l), l.ub + o.ub, fmt.Sprintf("list.Combine(%s,%s)", l.v.name, o.v.name)
	})
	listOp("list.Scan", func(w *world, a *args, l, o *listV) (fp.List[int], int, string) {
		return list.Scan(l.l, a.val, func(x, y int) int { return mod(x+y, 10) }), l.ub + 1, fmt.Sprintf("list.Scan(%s,%d,+)", l.v.name, a.val)
	})
	listOp("list.Zip", func(w *world, a *args, l, o *listV) (fp.List[int], int, string) {
		if a.how == 0 {
			return list.Map(list.ZipWithIndex(l.l), func(t tup) int { return mod(t.I1+t.I2, 10) }), l.ub, "list.Map(list.ZipWithIndex(" + l.v.name + "),+)"
		}
		return list.Map(list.Zip(l.l, o.l), func(t tup) int { return mod(t.I1+t.I2, 10) }), minInt(l.ub, o.ub), fmt.Sprintf("list.Map(list.Zip(%s,%s),+)", l.v.name, o.v.name)
	})
	listOp("list.Flatten", func(w *world, a *args, l, o *listV) (fp.List[int], int, string) {
		if l.ub+o.ub > 32 {
			return l.l.Tail(), l.ub, l.v.name + ".Tail()"
		}
		return list.Flatten(list.Of(l.l, o.l, l.l)), 2*l.ub + o.ub, fmt.Sprintf("list.Flatten([%s %s %s])", l.v.name, o.v.name, l.v.name)
	})
	listOp("via-iterator", func(w *world, a *args, l, o *listV) (fp.List[int], int, string) {
		switch a.how {
		case 0:
			return iterator.ToList(iterator.FromList(l.l)), l.ub, "iterator.ToList(FromList(" + l.v.name + "))"
		case 1:
			return list.Collect(iterator.FromList(l.l)), l.ub, "list.Collect(FromList(" + l.v.name + "))"
		}
		return list.Collect(iterator.FromList(l.l).Filter(a.p.Call)), l.ub, fmt.Sprintf("list.Collect(FromList(%s).Filter(%v))", l.v.name, a.p)
	})
	listOp("via-seq", func(w *world, a *args, l, o *listV) (fp.List[int], int, string) {
		switch a.how {
		case 0:
			return list.FromSeq(list.Sort(l.l, intOrd)), l.ub, "list.FromSeq(list.Sort(" + l.v.name + "))"
		case 1:
			return list.Of(l.l.ToSeq()...), l.ub, "list.Of(" + l.v.name + ".ToSeq()...)"
		}
		return list.ReverseSeq(l.l.ToSeq()), l.ub, "list.ReverseSeq(" + l.v.name + ".ToSeq())"
	})
	op("list", "list.read", func(w *world, a *args) string {
		l, ok := pick(w, w.lists, a.i)
		if !ok {
			return "-"
		}
		add := func(x, y int) int { return x + y }
		_, _, _ = list.Fold(l.l, 0, add), list.FoldLeft(l.l, 0, add), list.Reduce(l.l, monoid.Sum[int]())
		_, _, _ = list.Min(l.l, intOrd), list.Max(l.l, intOrd), list.Head(l.l)
		_ = list.GroupBy(l.l, a.fn)
		_ = list.ToGoSet(l.l)
		_ = list.ToSet(l.l, hashers[1].h)
		l.l.Foreach(func(int) {})
		return "read(" + l.v.name + ")"
	})

	// ---- cross-family operations, Options / Trys / tuples (mixed history only) ----
	op("misc", "seq->map/set", func(w *world, a *args) string {
		s, ok := pick(w, w.seqs, a.i)
		if !ok {
			return "-"
		}
		h := hOrIdentity(w)
		d1 := fmt.Sprintf("seq.ToMap(seq.ZipWithIndex(%s),%s)", s.v.name, h.name)
		m := w.newMap(seq.ToMap(seq.ZipWithIndex(s.s), h.h), d1)
		d2 := fmt.Sprintf("seq.ToSet(%s,%s)", s.v.name, h.name)
		st := w.newSet(seq.ToSet(s.s, h.h), d2)
		return m.v.name + "=" + d1 + "," + st.v.name + "=" + d2
	})
	op("misc", "map/set->seq", func(w *world, a *args) string {
		out := ""
		// zero-value containers iterate in Go map order: their element lists are sorted
		// by the harness so that the history stays a function of the seed
		det := func(v *value, xs []int) []int {
			if strings.Contains(v.snaps[1].before, "UnsafeGo") {
				return sortedInts(xs)
			}
			return xs
		}
		if m, ok := pick(w, w.maps, a.i); ok {
			d := m.v.name + ".Keys().ToSeq()"
			out += w.newSeq(det(m.v, m.m.Keys().ToSeq()), nil, d).v.name + "=" + d + ","
			d = m.v.name + ".Values().ToSeq()"
			out += w.newSeq(det(m.v, m.m.Values().ToSeq()), nil, d).v.name + "=" + d + ","
		}
		if s, ok := pick(w, w.sets, a.j); ok {
			d := s.v.name + ".Iterator().ToSeq()"
			out += w.newSeq(det(s.v, s.s.Iterator().ToSeq()), nil, d).v.name + "=" + d
		}
		return out
	})
	op("misc", "seq<->list", func(w *world, a *args) string {
		out := ""
		if s, ok := pick(w, w.seqs, a.i); ok {
			d := "list.FromSeq(" + s.v.name + ")"
			out += w.newList(list.FromSeq(s.s), len(s.s), 0, d).v.name + "=" + d + ","
		}
		if l, ok := pick(w, w.lists, a.j); ok {
			d := l.v.name + ".ToSeq()"
			out += w.newSeq(l.l.ToSeq(), nil, d).v.name + "=" + d
		}
		return out
	})
	op("misc", "option/try/tuple", func(w *world, a *args) string {
		s, ok := pick(w, w.seqs, a.i)
		if !ok {
			return "-"
		}
		o := option.Some(s.s)
		w.newOpaque("option.Some("+s.v.name+")", func() string { return deep(o) })
		t := try.Success(s.s)
		w.newOpaque("try.Success("+s.v.name+")", func() string { return deep(t.IsSuccess()) + deep(t.OrElse(nil)) })
		o2 := o.Map(func(x fp.Seq[int]) fp.Seq[int] { return x.Reverse() }).Filter(func(x fp.Seq[int]) bool { return len(x) > 0 })
		w.newOpaque("option.Some("+s.v.name+").Map(Reverse).Filter(nonEmpty)", func() string { return deep(o2) })
		d := "option.Some(" + s.v.name + ").ToSeq()[0]"
		if xs := o.ToSeq(); len(xs) == 1 {
			w.newSeq(xs[0], nil, d)
		}
		t2 := t.Map(func(x fp.Seq[int]) fp.Seq[int] { return x.Add(a.val) })
		w.newSeq(t2.OrZero(), nil, fmt.Sprintf("try.Success(%s).Map(Add %d).OrZero()", s.v.name, a.val))
		out := "option/try(" + s.v.name + ")"
		if m, ok := pick(w, w.maps, a.j); ok {
			tp := product.Tuple2(s.s, m.m)
			w.newOpaque("Tuple2("+s.v.name+","+m.v.name+")", func() string { return deep(tp.I1) + obsMap(tp.I2) })
			h, tl := tp.Unapply()
			w.newSeq(h.Add(a.val), nil, fmt.Sprintf("Tuple2(%s,%s).Unapply().1.Add(%d)", s.v.name, m.v.name, a.val))
			w.newMap(tl.Updated(a.key, a.val), fmt.Sprintf("Tuple2(%s,%s).Unapply().2.Updated(%d,%d)", s.v.name, m.v.name, a.key, a.val))
			out += ",tuple(" + s.v.name + "," + m.v.name + ")"
		}
		return out
	})
}

// ---- the history sub-checks -------------------------------------------------------------------------------

func famOps(fams []string, sus []string) []opDef {
	var r []opDef
	for _, o := range allOps {
		okFam := false
		for _, f := range fams {
			if o.fam == f {
				okFam = true
			}
		}
		okSus := o.sus == ""
		for _, s := range sus {
			if o.sus == s {
				okSus = true
			}
		}
		if okFam && okSus {
			r = append(r, o)
		}
	}
	return r
}

const ruleB = "history of up to 40 (thorough: 150; the two +suspect variants: 12 / 40) steps over a pool of live values; each step draws an operation and picks its operands among ALL live values of the pool (uniformly or among the three newest), results join the pool; every value's observable content (maps / sets: Get / Contains over keys 0..63, Size, drained Iterator, plus the node structure; slices: elements AND whole backing array; lists: ToSeq twice + Head/Tail walk, lazily produced lists are first observed 0..3 steps after birth) is snapshotted at birth and re-compared after every later step. non-trivial iff >= 1 operation was applied to a non-newest version (histories with slices: and >= 1 input slice with spare capacity / window joined the pool); distinct by printed history"

func historyCheck(t *testing.T, name string, fams []string, sus []string, reuse bool, weight float64, maxQuick, maxThorough int) {
	t.Helper()
	ops := famOps(fams, sus)
	needSpare := false
	for _, f := range fams {
		if f == "seq" || f == "list" {
			needSpare = true
		}
	}
	kit.Check(t, name, ruleB+"; operations: "+opNames(ops), kit.Opt{Weight: weight}, func(rt *rapid.T, rec *kit.Rec) {
		w := &world{rt: rt, rec: rec, fam: strings.TrimPrefix(name, "history."), reuse: reuse, labels: map[string]bool{}}
		w.h = hashers[rapid.IntRange(0, len(hashers)-2).Draw(rt, "hasher")]
		steps := rapid.IntRange(1, kit.Pick(maxQuick, maxThorough)).Draw(rt, "steps")
		w.log = append(w.log, "hasher="+w.h.name)
		defer func() {
			nt := w.branched && (!needSpare || w.spareInput)
			rec.Case(nt, strings.Join(w.log, " ; "))
			for l := range w.labels {
				rec.Label(l)
			}
			rec.Label("hasher:" + w.h.name)
		}()
		// every family starts with one input of its kind
		for _, o := range ops {
			if strings.HasSuffix(o.name, ".new") && !strings.Contains(o.name, "Builder") || strings.HasSuffix(o.name, ".input") {
				w.runStep(o, rt, len(ops))
			}
		}
		if reuse {
			// a builder that has already handed out its collection is part of the start state
			for _, n := range []string{"mapBuilder.new", "mapBuilder.Build", "setBuilder.new", "setBuilder.Build"} {
				for _, o := range ops {
					if o.name == n {
						w.runStep(o, rt, len(ops))
					}
				}
			}
		}
		for i := 0; i < steps; i++ {
			a := rapid.IntRange(0, len(ops)-1).Draw(rt, "op")
			w.runStep(ops[a], rt, len(ops))
		}
	})
}

func opNames(ops []opDef) string {
	ns := make([]string, len(ops))
	for i, o := range ops {
		ns[i] = o.name
	}
	return strings.Join(ns, ", ")
}

func (w *world) runStep(o opDef, rt *rapid.T, nOps int) {
	w.step++
	a := drawArgs(rt)
	if o.slot {
		a.sl = drawInts(rt, "input", 6)
	}
	if o.pairs {
		a.pairs = drawPairs(rt, "pairs", 20)
	}
	var d string
	w.rec.Guard(rt, w.sig("op:"+o.name), func() { d = o.run(w, a) })
	w.log = append(w.log, fmt.Sprintf("%d:%s", w.step, d))
	w.verifyAll(d)
}

func TestHistory(t *testing.T) {
	historyCheck(t, "history.map", []string{"map"}, nil, true, 0.4, 40, 150)
	historyCheck(t, "history.set", []string{"set"}, nil, false, 0.4, 40, 150)
	historyCheck(t, "history.seq", []string{"seq"}, nil, false, 0.4, 40, 150)
	historyCheck(t, "history.list", []string{"list"}, nil, false, 0.4, 40, 150)
	historyCheck(t, "history.mixed", []string{"map", "set", "seq", "list", "misc"}, nil, false, 0.4, 40, 150)
	// The two suspected offenders (seq.Sort / try.SortSeqT sorting in place, setBuilder usable
	// after Build) are kept out of the histories above so that they cannot hide anything else;
	// here they take part (short histories: they only have to show the offender in context).
	historyCheck(t, "history.set+builder-reuse", []string{"set"}, nil, true, 0.2, 12, 40)
	historyCheck(t, "history.seq+sort", []string{"seq"}, []string{"sort"}, false, 0.2, 12, 40)
}
