package c04

// Builders: a collection handed out by Build must not be changed by later use of the
// builder. A builder used after Build may refuse (mapBuilder panics); that is accepted.

import (
	"fmt"
	"testing"

	"github.com/csgura/fp"
	"github.com/csgura/fp/immutable"
	"pgregory.net/rapid"

	"verifharness/kit"
)

const ruleBuilder = "a builder receives 0..20 entries (keys 0..63; hashers identity, k mod 4, constant, two-level, hash.Number, high bits), Build hands out a collection; afterwards the builder keeps being used (Add of 1..8 further keys, present and absent ones, Build again) and new versions are derived from the handed-out collection in between; panics of the used-up builder are accepted. Oracle: content (and node structure) of every collection handed out, snapshotted at Build, re-compared after every later builder call. non-trivial iff the builder was used at least once after Build (whether it refused by panicking or not is recorded as a label); distinct by printed case"

func TestBuilder(t *testing.T) {
	kit.Check(t, "setBuilder/reuse-after-Build", ruleBuilder, kit.Opt{}, func(rt *rapid.T, rec *kit.Rec) {
		h := hashers[rapid.IntRange(0, len(hashers)-2).Draw(rt, "hasher")]
		pre := drawPairs(rt, "pre", 20)
		post := drawPairs(rt, "post", 8)
		again := rapid.Bool().Draw(rt, "build-again")
		desc := fmt.Sprintf("%s pre{%s} post{%s} again=%v", h.name, descPairs(pre), descPairs(post), again)
		rec.Case(len(post) > 0 || again, desc)

		b := immutable.SetBuilder(h.h)
		for _, p := range pre {
			b.Add(p.k)
		}
		type handed struct {
			s       fp.Set[int]
			obs, st string
			when    string
		}
		var out []*handed
		hand := func(s fp.Set[int], when string) {
			out = append(out, &handed{s: s, obs: obsSet(s), st: deep(s), when: when})
		}
		verify := func(after string) {
			for _, o := range out {
				if now := obsSet(o.s); now != o.obs {
					rec.Failf(rt, "C04|setBuilder|built-set-unchanged", "the Set handed out by %s changed after %s\n  before: %s\n  after:  %s\n  case: %s", o.when, after, o.obs, now, desc)
				}
				if now := deep(o.s); now != o.st {
					rec.Failf(rt, "C04|setBuilder|built-set-structure-unchanged", "the node structure of the Set handed out by %s changed after %s\n  before: %s\n  after:  %s\n  case: %s", o.when, after, o.st, now, desc)
				}
			}
		}
		var s fp.Set[int]
		rec.Guard(rt, "C04|setBuilder|Build", func() { s = b.Build() })
		hand(s, "Build()")
		for i, p := range post {
			// derive new versions from the handed-out set in between (they join the watch list)
			var d fp.Set[int]
			rec.Guard(rt, "C04|setBuilder|derive", func() { d = s.Incl(p.v).Excl(p.k) })
			hand(d, fmt.Sprintf("Build().Incl(%d).Excl(%d)", p.v, p.k))
			_, panicked := kit.Catch(func() { b.Add(p.k) })
			rec.Label(fmt.Sprintf("Add-after-Build panicked=%v", panicked))
			verify(fmt.Sprintf("builder.Add(%d) (call %d after Build)", p.k, i+1))
		}
		if again {
			var s2 fp.Set[int]
			_, panicked := kit.Catch(func() { s2 = b.Build() })
			rec.Label(fmt.Sprintf("Build-again panicked=%v", panicked))
			verify("a second Build()")
			if !panicked {
				hand(s2, "second Build()")
				_, _ = kit.Catch(func() { b.Add(63); b.Add(0) })
				verify("Add(63), Add(0) after the second Build()")
			}
		}
	})

	kit.Check(t, "mapBuilder/reuse-after-Build", ruleBuilder, kit.Opt{}, func(rt *rapid.T, rec *kit.Rec) {
		h := hashers[rapid.IntRange(0, len(hashers)-2).Draw(rt, "hasher")]
		pre := drawPairs(rt, "pre", 20)
		post := drawPairs(rt, "post", 8)
		again := rapid.Bool().Draw(rt, "build-again")
		desc := fmt.Sprintf("%s pre{%s} post{%s} again=%v", h.name, descPairs(pre), descPairs(post), again)
		rec.Case(len(post) > 0 || again, desc)

		b := immutable.MapBuilder[int, int](h.h)
		for _, p := range pre {
			b.Add(p.k, p.v)
		}
		type handed struct {
			m       fp.Map[int, int]
			obs, st string
			when    string
		}
		var out []*handed
		hand := func(m fp.Map[int, int], when string) {
			out = append(out, &handed{m: m, obs: obsMap(m), st: deep(m), when: when})
		}
		verify := func(after string) {
			for _, o := range out {
				if now := obsMap(o.m); now != o.obs {
					rec.Failf(rt, "C04|mapBuilder|built-map-unchanged", "the Map handed out by %s changed after %s\n  before: %s\n  after:  %s\n  case: %s", o.when, after, o.obs, now, desc)
				}
				if now := deep(o.m); now != o.st {
					rec.Failf(rt, "C04|mapBuilder|built-map-structure-unchanged", "the node structure of the Map handed out by %s changed after %s\n  before: %s\n  after:  %s\n  case: %s", o.when, after, o.st, now, desc)
				}
			}
		}
		var m fp.Map[int, int]
		rec.Guard(rt, "C04|mapBuilder|Build", func() { m = b.Build() })
		hand(m, "Build()")
		for i, p := range post {
			var d fp.Map[int, int]
			rec.Guard(rt, "C04|mapBuilder|derive", func() { d = m.Updated(p.k, p.v+10).Removed(p.v) })
			hand(d, fmt.Sprintf("Build().Updated(%d,%d).Removed(%d)", p.k, p.v+10, p.v))
			_, panicked := kit.Catch(func() { b.Add(p.k, p.v+40) })
			rec.Label(fmt.Sprintf("Add-after-Build panicked=%v", panicked))
			verify(fmt.Sprintf("builder.Add(%d,%d) (call %d after Build)", p.k, p.v+40, i+1))
		}
		if again {
			var m2 fp.Map[int, int]
			_, panicked := kit.Catch(func() { m2 = b.Build() })
			rec.Label(fmt.Sprintf("Build-again panicked=%v", panicked))
			verify("a second Build()")
			if !panicked {
				hand(m2, "second Build()")
				_, _ = kit.Catch(func() { b.Add(63, 1); b.Add(0, 1) })
				verify("Add after the second Build()")
			}
		}
	})

	// immutable.Map(hasher, tuples...) / immutable.Set(hasher, elems...) take a variadic slice
	fnCheck(t, "immutable.Map(tuples...)", func(e *env) func() {
		kv := drawTuples(e, "kv")
		h := hashers[rapid.IntRange(0, 4).Draw(e.rt, "hasher")]
		e.note("hasher=%s", h.name)
		return func() { fpMapResult(e, func() fp.Map[int, int] { return immutable.Map(h.h, kv...) }) }
	})
	fnCheck(t, "immutable.Set(elems...)", func(e *env) func() {
		s := e.ints("s", 10)
		h := hashers[rapid.IntRange(0, 4).Draw(e.rt, "hasher")]
		e.note("hasher=%s", h.name)
		return func() { fpSetResult(e, func() fp.Set[int] { return immutable.Set(h.h, s...) }) }
	})
}
