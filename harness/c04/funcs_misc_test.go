package c04

// Part A: Merge* monoids, methods of fp.Map / fp.Set, Option / Try / Either functions
// that take or return slices, tuple accessors.

import (
	"testing"

	"github.com/csgura/fp"
	"github.com/csgura/fp/either"
	"github.com/csgura/fp/monoid"
	"github.com/csgura/fp/option"
	"github.com/csgura/fp/product"
	"github.com/csgura/fp/try"
	"pgregory.net/rapid"

	"verifharness/kit"
)

func TestMonoid(t *testing.T) {
	fnCheckF(t, "monoid.MergeSeq.Combine", func(e *env) func() {
		a := e.ints("a", maxLen)
		b := e.ints("b", maxLen)
		m := monoid.MergeSeq[int]()
		return func() {
			sliceResult(e, len(b) > 0, scribbleInt, func() []int { return m.Combine(a, b) })
			sliceResult(e, len(a) > 0, scribbleInt, func() []int { return m.Combine(m.Empty(), a) })
		}
	})
	fnCheckF(t, "monoid.MergeSlice.Combine", func(e *env) func() {
		a := e.ints("a", maxLen)
		b := e.ints("b", maxLen)
		m := monoid.MergeSlice[int]()
		return func() {
			sliceResult(e, len(b) > 0, scribbleInt, func() []int { return m.Combine(a, b) })
		}
	})
	fnCheckF(t, "monoid.MergeGoMap.Combine", func(e *env) func() {
		a := e.goMap("a")
		b := e.goMap("b")
		m := monoid.MergeGoMap[int, int]()
		return func() {
			goMapResult(e, func() map[int]int { return m.Combine(a, b) }, spoilIntMap)
			goMapResult(e, func() map[int]int { return m.Combine(m.Empty(), a) }, spoilIntMap)
			goMapResult(e, func() map[int]int { return m.Combine(b, m.Empty()) }, spoilIntMap)
		}
	})
	fnCheck(t, "monoid.MergeMap.Combine", func(e *env) func() {
		a := e.fpMap("a")
		b := e.fpMap("b")
		m := monoid.MergeMap[int, int]()
		return func() {
			fpMapResult(e, func() fp.Map[int, int] { return m.Combine(a, b) })
			fpMapResult(e, func() fp.Map[int, int] { return m.Combine(m.Empty(), a) })
		}
	})
	fnCheck(t, "monoid.MergeSet.Combine", func(e *env) func() {
		a := e.fpSet("a")
		b := e.fpSet("b")
		m := monoid.MergeSet[int]()
		return func() {
			fpSetResult(e, func() fp.Set[int] { return m.Combine(a, b) })
			fpSetResult(e, func() fp.Set[int] { return m.Combine(m.Empty(), a) })
		}
	})
}

func TestMapMethods(t *testing.T) {
	fnCheck(t, "fp.Map.Updated", func(e *env) func() {
		m := e.fpMap("m")
		k, v := e.num("k", 0, keySpace-1), e.num("v", 10, 19)
		return func() { fpMapResult(e, func() fp.Map[int, int] { return m.Updated(k, v) }) }
	})
	fnCheck(t, "fp.Map.Updated(present-key)", func(e *env) func() {
		m := e.fpMap("m")
		sel := e.num("sel", 0, 999)
		v := e.num("v", 10, 19)
		k := pickPresent(m, sel)
		return func() { fpMapResult(e, func() fp.Map[int, int] { return m.Updated(k, v) }) }
	})
	fnCheck(t, "fp.Map.Removed", func(e *env) func() {
		m := e.fpMap("m")
		k1, k2 := e.num("k1", 0, keySpace-1), e.num("sel", 0, 999)
		return func() { fpMapResult(e, func() fp.Map[int, int] { return m.Removed(k1, pickPresent(m, k2)) }) }
	})
	fnCheck(t, "fp.Map.UpdatedWith", func(e *env) func() {
		m := e.fpMap("m")
		sel := e.num("sel", 0, 999)
		mode := e.num("mode", 0, 2)
		k := pickPresent(m, sel)
		if sel%3 == 0 {
			k = sel % keySpace
		}
		return func() {
			fpMapResult(e, func() fp.Map[int, int] {
				return m.UpdatedWith(k, func(o fp.Option[int]) fp.Option[int] {
					switch mode {
					case 0:
						return option.Some(o.OrElse(0) + 10)
					case 1:
						return option.None[int]()
					default:
						return o
					}
				})
			})
		}
	})
	fnCheck(t, "fp.Map.Concat", func(e *env) func() {
		a := e.fpMap("a")
		b := e.fpMap("b")
		return func() { fpMapResult(e, func() fp.Map[int, int] { return a.Concat(b) }) }
	})
	fnCheck(t, "fp.Map.Concat(self)", func(e *env) func() {
		a := e.fpMap("a")
		return func() { fpMapResult(e, func() fp.Map[int, int] { return a.Concat(a) }) }
	})
	fnCheck(t, "fp.Map.readers", func(e *env) func() {
		m := e.fpMap("m")
		k := e.num("k", 0, keySpace-1)
		return func() {
			valueResult(e, func() {
				_, _, _, _, _ = m.Get(k), m.Contains(k), m.Size(), m.IsEmpty(), m.NonEmpty()
				_ = m.Iterator().ToSeq()
				_ = m.Keys().ToSeq()
				_ = m.Values().ToSeq()
				m.Foreach(func(fp.Tuple2[int, int]) {})
				_ = m.String()
			})
		}
	})
	fnCheck(t, "fp.Map.Iterator(interleaved-with-updates)", func(e *env) func() {
		m := e.fpMap("m")
		k, v := e.num("k", 0, keySpace-1), e.num("v", 10, 19)
		return func() {
			valueResult(e, func() {
				it := m.Iterator()
				d := m
				for n := 0; it.HasNext() && n < 4*keySpace; n++ {
					kv := it.Next()
					d = d.Updated(kv.I1, kv.I2+1).Updated(k, v).Removed(kv.I1 + 1)
				}
			})
		}
	})
}

func pickPresent(m fp.Map[int, int], sel int) int {
	var ks []int
	for k := 0; k < keySpace; k++ {
		if m.Contains(k) {
			ks = append(ks, k)
		}
	}
	if len(ks) == 0 {
		return sel % keySpace
	}
	return ks[sel%len(ks)]
}

func TestSetMethods(t *testing.T) {
	fnCheck(t, "fp.Set.Incl", func(e *env) func() {
		s := e.fpSet("s")
		k := e.num("k", 0, keySpace-1)
		return func() { fpSetResult(e, func() fp.Set[int] { return s.Incl(k) }) }
	})
	fnCheck(t, "fp.Set.Excl", func(e *env) func() {
		s := e.fpSet("s")
		sel := e.num("sel", 0, 999)
		return func() {
			fpSetResult(e, func() fp.Set[int] {
				k := sel % keySpace
				for i := 0; i < keySpace; i++ { // prefer a present element
					if s.Contains((sel + i) % keySpace) {
						k = (sel + i) % keySpace
						break
					}
				}
				return s.Excl(k)
			})
		}
	})
	fnCheck(t, "fp.Set.Concat", func(e *env) func() {
		a := e.fpSet("a")
		b := e.fpSet("b")
		return func() { fpSetResult(e, func() fp.Set[int] { return a.Concat(b) }) }
	})
	// Diff / Intersect on the zero-value receiver used to panic (nil getEmpty): that is not a
	// persistence matter (C03 reports it); if it panics the receiver is made non-zero.
	fnCheck(t, "fp.Set.Diff", func(e *env) func() {
		a := e.fpSet("a")
		b := e.fpSet("b")
		return func() {
			fpSetResult(e, func() fp.Set[int] { return safeDiff(a, b) })
		}
	})
	fnCheck(t, "fp.Set.Intersect", func(e *env) func() {
		a := e.fpSet("a")
		b := e.fpSet("b")
		return func() {
			fpSetResult(e, func() fp.Set[int] { return safeIntersect(a, b) })
		}
	})
	fnCheck(t, "fp.Set.readers", func(e *env) func() {
		a := e.fpSet("a")
		b := e.fpSet("b")
		k := e.num("k", 0, keySpace-1)
		return func() {
			valueResult(e, func() {
				_, _, _, _ = a.Contains(k), a.Size(), a.IsEmpty(), a.NonEmpty()
				_ = a.SubsetOf(b)
				_ = a.Iterator().ToSeq()
				a.Foreach(func(int) {})
				_ = a.String()
			})
		}
	})
}

func safeDiff(a, b fp.Set[int]) (r fp.Set[int]) {
	if _, p := kit.Catch(func() { r = a.Diff(b) }); p {
		return nonZero(a).Diff(b)
	}
	return r
}

func safeIntersect(a, b fp.Set[int]) (r fp.Set[int]) {
	if _, p := kit.Catch(func() { r = a.Intersect(b) }); p {
		return nonZero(a).Intersect(b)
	}
	return r
}

// nonZero turns the zero-value Set (nil getEmpty) into an equal empty set that has one.
func nonZero(s fp.Set[int]) fp.Set[int] {
	if s.Size() == 0 {
		return s.Incl(0).Excl(0)
	}
	return s
}

func TestOptionTryEither(t *testing.T) {
	// Option / Try holding a slice: every method is a value-receiver method
	fnCheck(t, "fp.Option.methods(Seq-payload)", func(e *env) func() {
		s := e.ints("s", maxLen)
		alt := e.ints("alt", 3)
		some := e.num("some", 0, 3) != 0
		o := option.None[fp.Seq[int]]()
		if some {
			o = option.Some(s)
		}
		e.watch("the Option value", "input-unchanged", func() string { return deep(o) })
		return func() {
			valueResult(e, func() {
				_ = o.Map(func(x fp.Seq[int]) fp.Seq[int] { return x.Reverse() })
				_ = o.Filter(func(x fp.Seq[int]) bool { return len(x) > 2 })
				_ = o.FilterNot(func(x fp.Seq[int]) bool { return len(x) > 2 })
				_ = o.FlatMap(func(x fp.Seq[int]) fp.Option[fp.Seq[int]] { return option.Some(x.Add(1)) })
				_, _, _ = o.OrElse(alt), o.OrZero(), o.OrElseGet(func() fp.Seq[int] { return alt })
				_ = o.Or(func() fp.Option[fp.Seq[int]] { return option.Some(alt) })
				_, _ = o.OrOption(option.Some(alt)), o.OrPtr(&alt)
				_ = o.Recover(func() fp.Seq[int] { return alt })
				_, _ = o.Exists(func(fp.Seq[int]) bool { return true }), o.ForAll(func(fp.Seq[int]) bool { return true })
				_ = o.String()
				_, _ = o.Unapply()
				o.Foreach(func(fp.Seq[int]) {})
				if p := o.Ptr(); p != nil {
					*p = nil // Ptr() points to a copy held by nobody else
				}
				_, _ = o.MarshalJSON()
			})
		}
	})
	fnCheckF(t, "fp.Option.ToSeq", func(e *env) func() {
		x := e.num("x", 0, 9)
		some := e.num("some", 0, 3) != 0
		o := option.None[int]()
		if some {
			o = option.Some(x)
		}
		e.watch("the Option value", "input-unchanged", func() string { return deep(o) })
		e.content = some
		return func() {
			sliceResult(e, true, scribbleInt, func() []int { return o.ToSeq() })
			sliceResult(e, true, scribbleInt, func() []int { return option.ToSeq(o) })
		}
	})
	fnCheckF(t, "fp.Try.ToSeq", func(e *env) func() {
		x := e.num("x", 0, 9)
		ok := e.num("ok", 0, 3) != 0
		o := try.Failure[int](errStop)
		if ok {
			o = try.Success(x)
		}
		e.watch("the Try value", "input-unchanged", func() string { return deep(o.IsSuccess()) + deep(o.ToSeq()) })
		e.content = ok
		return func() {
			sliceResult(e, true, scribbleInt, func() []int { return o.ToSeq() })
			sliceResult(e, true, scribbleInt, func() []int { return try.ToSeq(o) })
		}
	})
	fnCheck(t, "fp.Try.methods(Seq-payload)", func(e *env) func() {
		s := e.ints("s", maxLen)
		alt := e.ints("alt", 3)
		ok := e.num("ok", 0, 3) != 0
		o := try.Failure[fp.Seq[int]](errStop)
		if ok {
			o = try.Success(s)
		}
		e.watch("the Try value", "input-unchanged", func() string {
			return deep(o.IsSuccess()) + deep(o.OrElse(nil))
		})
		return func() {
			valueResult(e, func() {
				_ = o.Map(func(x fp.Seq[int]) fp.Seq[int] { return x.Reverse() })
				_ = o.FlatMap(func(x fp.Seq[int]) fp.Try[fp.Seq[int]] { return try.Success(x.Add(1)) })
				_ = o.MapError(func(err error) error { return err })
				_, _, _ = o.OrElse(alt), o.OrZero(), o.OrElseGet(func() fp.Seq[int] { return alt })
				_ = o.Or(func() fp.Try[fp.Seq[int]] { return try.Success(alt) })
				_ = o.OrTry(try.Success(alt))
				_ = o.Recover(func(error) fp.Seq[int] { return alt })
				_ = o.RecoverWith(func(error) fp.Try[fp.Seq[int]] { return try.Success(alt) })
				_ = o.Failed()
				_ = o.String()
				_, _ = o.Unapply()
				o.Foreach(func(fp.Seq[int]) {})
			})
		}
	})

	half := func(x int) bool { return x != 9 }
	fnCheckF(t, "option.TraverseSeq", func(e *env) func() {
		s := e.ints("s", maxLen)
		return func() {
			sliceResult(e, true, scribbleInt, func() []int {
				return option.TraverseSeq(s, func(x int) fp.Option[int] {
					if half(x) {
						return option.Some(x)
					}
					return option.None[int]()
				}).OrZero()
			})
		}
	})
	fnCheckF(t, "option.TraverseSlice", func(e *env) func() {
		s := e.ints("s", maxLen)
		return func() {
			sliceResult(e, true, scribbleInt, func() []int {
				return option.TraverseSlice(s, func(x int) fp.Option[int] { return option.Some(x) }).OrZero()
			})
		}
	})
	fnCheckF(t, "option.FlatMapTraverseSeq", func(e *env) func() {
		s := e.ints("s", maxLen)
		return func() {
			sliceResult(e, true, scribbleInt, func() []int {
				return option.FlatMapTraverseSeq(option.Some(s), func(x int) fp.Option[int] { return option.Some(x) }).OrZero()
			})
		}
	})
	fnCheckF(t, "option.Sequence", func(e *env) func() {
		sl := drawSlot(e.rt, "os", maxLen, func(rt *rapid.T, l string) fp.Option[int] {
			x := rapid.IntRange(0, 12).Draw(rt, l)
			if x > 9 {
				return option.None[int]()
			}
			return option.Some(x)
		}, func(i int) fp.Option[int] { return option.Some(hidden(i)) })
		os := addSlot(e, "os", sl)
		return func() {
			sliceResult(e, true, scribbleInt, func() []int { return option.Sequence(os).OrZero() })
		}
	})
	fnCheckF(t, "option.MapSeqLift", func(e *env) func() {
		s := e.ints("s", maxLen)
		f := e.fn1("f")
		return func() {
			sliceResult(e, true, scribbleInt, func() []int { return option.MapSeqLift(option.Some(s), f).OrZero() })
			sliceResult(e, true, scribbleInt, func() []int { return option.MapSliceLift(option.Some(s.Widen()), f).OrZero() })
		}
	})
	fnCheckF(t, "try.TraverseSeq", func(e *env) func() {
		s := e.ints("s", maxLen)
		return func() {
			sliceResult(e, true, scribbleInt, func() []int {
				return try.TraverseSeq(s, func(x int) fp.Try[int] {
					if half(x) {
						return try.Success(x)
					}
					return try.Failure[int](errStop)
				}).OrZero()
			})
			sliceResult(e, true, scribbleInt, func() []int {
				return try.TraverseSlice(s.Widen(), func(x int) fp.Try[int] { return try.Success(x) }).OrZero()
			})
		}
	})
	fnCheckF(t, "try.Sequence", func(e *env) func() {
		sl := drawSlot(e.rt, "ts", maxLen, func(rt *rapid.T, l string) fp.Try[int] {
			x := rapid.IntRange(0, 11).Draw(rt, l)
			if x > 9 {
				return try.Failure[int](errStop)
			}
			return try.Success(x)
		}, func(i int) fp.Try[int] { return try.Success(hidden(i)) })
		e.slices++
		if sl.spare() {
			e.spare = true
		}
		showTs := func(ts []fp.Try[int]) string {
			out := ""
			for _, x := range ts {
				out += x.String() + " "
			}
			return out
		}
		e.note("ts=%s@%d+%d[%s]", sl.shape, sl.off, len(sl.view), showTs(sl.parent))
		parent := sl.parent
		e.watch("backing array of input slice ts", "input-unchanged", func() string { return showTs(parent) })
		return func() {
			sliceResult(e, true, scribbleInt, func() []int { return try.Sequence(sl.view).OrZero() })
		}
	})
	fnCheckF(t, "try.MapSeqLift", func(e *env) func() {
		s := e.ints("s", maxLen)
		f := e.fn1("f")
		return func() {
			sliceResult(e, true, scribbleInt, func() []int { return try.MapSeqLift(try.Success(s), f).OrZero() })
		}
	})
	fnCheckF(t, "either.TraverseSeq", func(e *env) func() {
		s := e.ints("s", maxLen)
		return func() {
			sliceResult(e, true, scribbleInt, func() []int {
				r := either.TraverseSeq(s, func(x int) fp.Either[string, int] {
					if half(x) {
						return either.Right[string](x)
					}
					return either.Left[string, int]("no")
				})
				if r.IsRight() {
					return r.Get()
				}
				return nil
			})
		}
	})
	fnCheckF(t, "either.MapSeqLift", func(e *env) func() {
		s := e.ints("s", maxLen)
		f := e.fn1("f")
		return func() {
			sliceResult(e, true, scribbleInt, func() []int {
				return either.MapSeqLift(either.Right[string](s), f).Get()
			})
		}
	})

	// try.*SeqT: Try[Seq] transformers, thin wrappers of the Seq functions
	seqT := func(name string, fresh bool, op func(ts fp.Try[fp.Seq[int]], e *seqTArgs) fp.Try[fp.Seq[int]]) {
		pickCheck(fresh)(t, name, func(e *env) func() {
			s := e.ints("s", maxLen)
			a := &seqTArgs{tail: e.ints("tail", 3), f: e.fn1("f"), p: e.pred("p"), n: e.num("n", 0, maxLen)}
			return func() {
				sliceResult(e, fresh, scribbleInt, func() []int { return op(try.Success(s), a).OrZero() })
			}
		})
	}
	const always, never = true, false
	seqT("try.SortSeqT", always, func(ts fp.Try[fp.Seq[int]], a *seqTArgs) fp.Try[fp.Seq[int]] { return try.SortSeqT(ts, intOrd) })
	seqT("try.ReverseSeqT", always, func(ts fp.Try[fp.Seq[int]], a *seqTArgs) fp.Try[fp.Seq[int]] { return try.ReverseSeqT(ts) })
	seqT("try.AddSeqT", always, func(ts fp.Try[fp.Seq[int]], a *seqTArgs) fp.Try[fp.Seq[int]] { return try.AddSeqT(ts, a.n) })
	seqT("try.AppendSeqT", always, func(ts fp.Try[fp.Seq[int]], a *seqTArgs) fp.Try[fp.Seq[int]] { return try.AppendSeqT(ts, a.n) })
	seqT("try.ConcatSeqT", never, func(ts fp.Try[fp.Seq[int]], a *seqTArgs) fp.Try[fp.Seq[int]] { return try.ConcatSeqT(ts, a.tail) })
	seqT("try.FilterSeqT", always, func(ts fp.Try[fp.Seq[int]], a *seqTArgs) fp.Try[fp.Seq[int]] { return try.FilterSeqT(ts, a.p) })
	seqT("try.FilterNotSeqT", always, func(ts fp.Try[fp.Seq[int]], a *seqTArgs) fp.Try[fp.Seq[int]] { return try.FilterNotSeqT(ts, a.p) })
	seqT("try.MapSeqT", always, func(ts fp.Try[fp.Seq[int]], a *seqTArgs) fp.Try[fp.Seq[int]] { return try.MapSeqT(ts, a.f) })
	seqT("try.SubFlatMapSeqT", always, func(ts fp.Try[fp.Seq[int]], a *seqTArgs) fp.Try[fp.Seq[int]] {
		return try.SubFlatMapSeqT(ts, func(x int) fp.Seq[int] { return a.tail })
	})
	seqT("try.TraverseSeqT", always, func(ts fp.Try[fp.Seq[int]], a *seqTArgs) fp.Try[fp.Seq[int]] {
		return try.TraverseSeqT(ts, func(x int) fp.Try[int] { return try.Success(a.f(x)) })
	})
	seqT("try.FlatMapSeqT", always, func(ts fp.Try[fp.Seq[int]], a *seqTArgs) fp.Try[fp.Seq[int]] {
		return try.FlatMapSeqT(ts, func(x int) fp.Try[fp.Seq[int]] { return try.Success(a.tail) })
	})
	seqT("try.ScanSeqT", always, func(ts fp.Try[fp.Seq[int]], a *seqTArgs) fp.Try[fp.Seq[int]] {
		return try.ScanSeqT(ts, 0, func(x, y int) int { return x + y })
	})
	seqT("try.TakeSeqT", never, func(ts fp.Try[fp.Seq[int]], a *seqTArgs) fp.Try[fp.Seq[int]] { return try.TakeSeqT(ts, a.n) })
	seqT("try.DropSeqT", never, func(ts fp.Try[fp.Seq[int]], a *seqTArgs) fp.Try[fp.Seq[int]] { return try.DropSeqT(ts, a.n) })
	seqT("try.InitSeqT", never, func(ts fp.Try[fp.Seq[int]], a *seqTArgs) fp.Try[fp.Seq[int]] { return try.InitSeqT(ts) })
	seqT("try.TailSeqT", never, func(ts fp.Try[fp.Seq[int]], a *seqTArgs) fp.Try[fp.Seq[int]] { return try.TailSeqT(ts) })
	seqT("try.readersSeqT", never, func(ts fp.Try[fp.Seq[int]], a *seqTArgs) fp.Try[fp.Seq[int]] {
		_, _, _ = try.MinSeqT(ts, intOrd), try.MaxSeqT(ts, intOrd), try.FoldSeqT(ts, 0, func(x, y int) int { return x + y })
		_, _, _ = try.ExistsSeqT(ts, a.p), try.ForAllSeqT(ts, a.p), try.FindSeqT(ts, a.p)
		_, _, _, _ = try.GetSeqT(ts, a.n), try.HeadSeqT(ts), try.LastSeqT(ts), try.MakeStringSeqT(ts, ",")
		_, _, _ = try.SizeSeqT(ts), try.IsEmptySeqT(ts), try.NonEmptySeqT(ts)
		return ts
	})
}

type seqTArgs struct {
	tail fp.Seq[int]
	f    func(int) int
	p    func(int) bool
	n    int
}

func TestTuples(t *testing.T) {
	fnCheck(t, "fp.Tuple2.accessors", func(e *env) func() {
		s := e.ints("s", maxLen)
		m := e.goMap("m")
		tp := product.Tuple2(s, m)
		return func() {
			valueResult(e, func() {
				_, _, _, _ = tp.Head(), tp.Last(), tp.Init(), tp.Tail()
				_, _ = tp.Unapply()
				_ = tp.String()
				_ = product.MapKey(tp, func(x fp.Seq[int]) fp.Seq[int] { return x.Reverse() })
				_ = product.MapValue(tp, func(x map[int]int) int { return len(x) })
			})
			sliceResult(e, false, scribbleInt, func() []int { return tp.Head() })
		}
	})
	fnCheck(t, "fp.Tuple3.accessors", func(e *env) func() {
		s := e.ints("s", maxLen)
		u := e.ints("u", maxLen)
		m := e.fpMap("m")
		tp := product.Tuple3(s, m, u)
		return func() {
			valueResult(e, func() {
				_, _ = tp.Head(), tp.Last()
				_, _ = tp.Init()
				_, _ = tp.Tail()
				_, _, _ = tp.Unapply()
				_ = tp.String()
			})
			fpMapResult(e, func() fp.Map[int, int] { _, x, _ := tp.Unapply(); return x.Updated(1, 1) })
		}
	})
}
