package c04

// Library-independent deep snapshot printer (reflect + unsafe). deep(v) prints
// everything reachable from v through exported and unexported fields, pointers,
// interfaces, slices (up to len), arrays and Go maps (entries sorted by printed key).
// Function values print as "fn" (closures cannot be compared), addresses are
// never part of the output. It is used as "structural" snapshot of HAMT backed
// maps / sets and as snapshot of whole backing arrays and Go maps.

import (
	"reflect"
	"sort"
	"strconv"
	"strings"
	"unsafe"
)

func deep(v any) string {
	p := &dprinter{onPath: map[uintptr]bool{}}
	rv := reflect.ValueOf(v)
	if !rv.IsValid() {
		return "nil-iface"
	}
	p.print(addressable(rv))
	return p.sb.String()
}

type dprinter struct {
	sb     strings.Builder
	onPath map[uintptr]bool
}

// addressable returns an addressable shallow copy (references preserved).
func addressable(v reflect.Value) reflect.Value {
	if v.CanAddr() {
		return unlock(v)
	}
	c := reflect.New(v.Type()).Elem()
	c.Set(v)
	return c
}

// unlock strips the read-only flag of values reached through unexported fields.
func unlock(v reflect.Value) reflect.Value {
	if v.CanSet() || !v.CanAddr() {
		return v
	}
	return reflect.NewAt(v.Type(), unsafe.Pointer(v.UnsafeAddr())).Elem()
}

func (p *dprinter) print(v reflect.Value) {
	switch v.Kind() {
	case reflect.Bool:
		p.sb.WriteString(strconv.FormatBool(v.Bool()))
	case reflect.Int, reflect.Int8, reflect.Int16, reflect.Int32, reflect.Int64:
		p.sb.WriteString(strconv.FormatInt(v.Int(), 10))
	case reflect.Uint, reflect.Uint8, reflect.Uint16, reflect.Uint32, reflect.Uint64, reflect.Uintptr:
		p.sb.WriteString(strconv.FormatUint(v.Uint(), 10) + "u")
	case reflect.Float32, reflect.Float64:
		p.sb.WriteString(strconv.FormatFloat(v.Float(), 'g', -1, 64))
	case reflect.String:
		p.sb.WriteString(strconv.Quote(v.String()))
	case reflect.Pointer:
		if v.IsNil() {
			p.sb.WriteString("nil")
			return
		}
		a := v.Pointer()
		if v.Type().Elem().Size() > 0 {
			if p.onPath[a] {
				p.sb.WriteString("&cycle")
				return
			}
			p.onPath[a] = true
			defer delete(p.onPath, a)
		}
		p.sb.WriteString("&")
		p.print(unlock(v.Elem()))
	case reflect.Slice:
		if v.IsNil() {
			p.sb.WriteString("nil[]")
			return
		}
		p.sb.WriteString("[")
		for i := 0; i < v.Len(); i++ {
			if i > 0 {
				p.sb.WriteString(" ")
			}
			p.print(unlock(v.Index(i)))
		}
		p.sb.WriteString("]")
	case reflect.Array:
		// arrays of nil interfaces (HAMT hash-array nodes) are printed sparsely
		p.sb.WriteString("<")
		for i := 0; i < v.Len(); i++ {
			e := unlock(v.Index(i))
			if (e.Kind() == reflect.Interface || e.Kind() == reflect.Pointer) && e.IsNil() {
				continue
			}
			p.sb.WriteString(strconv.Itoa(i) + "=")
			p.print(e)
			p.sb.WriteString(" ")
		}
		p.sb.WriteString(">")
	case reflect.Map:
		if v.IsNil() {
			p.sb.WriteString("nilmap")
			return
		}
		type kv struct{ k, v string }
		var es []kv
		it := v.MapRange()
		for it.Next() {
			kp := &dprinter{onPath: p.onPath}
			kp.print(addressable(it.Key()))
			vp := &dprinter{onPath: p.onPath}
			vp.print(addressable(it.Value()))
			es = append(es, kv{kp.sb.String(), vp.sb.String()})
		}
		sort.Slice(es, func(i, j int) bool { return es[i].k < es[j].k })
		p.sb.WriteString("map{")
		for i, e := range es {
			if i > 0 {
				p.sb.WriteString(" ")
			}
			p.sb.WriteString(e.k + ":" + e.v)
		}
		p.sb.WriteString("}")
	case reflect.Struct:
		p.sb.WriteString("{")
		for i := 0; i < v.NumField(); i++ {
			if i > 0 {
				p.sb.WriteString(";")
			}
			p.print(unlock(v.Field(i)))
		}
		p.sb.WriteString("}")
	case reflect.Interface:
		if v.IsNil() {
			p.sb.WriteString("nil-iface")
			return
		}
		p.sb.WriteString(v.Elem().Type().String() + ":")
		p.print(addressable(v.Elem()))
	case reflect.Func:
		if v.IsNil() {
			p.sb.WriteString("nilfn")
		} else {
			p.sb.WriteString("fn")
		}
	default:
		p.sb.WriteString("?" + v.Kind().String())
	}
}

// funcIDs prints the identity (closure pointer word) of every function value in fs.
// Only used inside snapshots (never in case descriptors).
func funcIDs[F any](fs []F) string {
	var sb strings.Builder
	for i := range fs {
		sb.WriteString(strconv.FormatUint(uint64(*(*uintptr)(unsafe.Pointer(&fs[i]))), 16))
		sb.WriteString(" ")
	}
	return sb.String()
}
