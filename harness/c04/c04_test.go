package c04

// C04 - values are persistent: no library call alters an existing value or its inputs.
//
// Part A (funcs_*_test.go): one sub-check per library function that takes a slice /
// fp.Seq / Go map / fp.Map / fp.Set / fp.List. Every input is snapshotted in full
// (the WHOLE backing array of every slice, kept by the harness, from index 0 of the
// underlying array up to its end; the full content and the node structure of maps and
// sets) before the call and compared after it, after a second call and after the
// harness has overwritten a result the function constructs afresh by contract.
//
// Part B (history_test.go): stateful branching histories over a pool of live values.

import (
	"fmt"
	"sort"
	"strings"
	"testing"

	"github.com/csgura/fp"
	"github.com/csgura/fp/eq"
	"github.com/csgura/fp/hash"
	"github.com/csgura/fp/immutable"
	"pgregory.net/rapid"

	"verifharness/kit"
)

func TestMain(m *testing.M) { kit.Main(m) }

// ---- input slices with a known backing array ---------------------------------------------------

// hidden(i) is the sentinel stored at index i of a backing array outside the window
// handed to the library. Sentinels are distinct and far away from the data values 0..9.
func hidden(i int) int { return -1000 - i }

const scribbleInt = -7777

// slot is one input slice together with the whole backing array it lives in.
type slot[T any] struct {
	parent []T // whole backing array (len == cap); nil when view is nil
	view   []T // what the library gets
	shape  string
	off    int
}

func (s slot[T]) spare() bool { return s.off > 0 || len(s.view) < cap(s.view) }

var shapeNames = []string{"nil", "empty", "empty+spare", "exact", "exact", "spare", "spare", "window", "window", "window-clipped"}

// drawSlot draws the shape of an input slice: nil, empty non-nil, empty with spare
// capacity, exact, len<cap (spare part filled with sentinels), a window of a larger
// array with live data before and after it (the data after it is the window's spare
// capacity), and a window whose capacity is clipped (s[a:b:b]).
func drawSlot[T any](rt *rapid.T, label string, maxLen int, elem func(rt *rapid.T, label string) T, hid func(i int) T) slot[T] {
	shape := shapeNames[rapid.IntRange(0, len(shapeNames)-1).Draw(rt, label+".shape")]
	switch shape {
	case "nil":
		return slot[T]{shape: shape}
	case "empty":
		p := make([]T, 0)
		return slot[T]{parent: p, view: p, shape: shape}
	}
	minLen := 1
	if shape == "empty+spare" || shape == "window" || shape == "window-clipped" {
		minLen = 0
	}
	n := rapid.IntRange(minLen, maxLen).Draw(rt, label+".len")
	if shape == "empty+spare" {
		n = 0
	}
	before, after := 0, 0
	switch shape {
	case "empty+spare", "spare":
		after = rapid.IntRange(1, 3).Draw(rt, label+".spare")
	case "window", "window-clipped":
		before = rapid.IntRange(1, 2).Draw(rt, label+".before")
		after = rapid.IntRange(1, 3).Draw(rt, label+".after")
	}
	parent := make([]T, before+n+after)
	for i := range parent {
		parent[i] = hid(i)
	}
	for i := 0; i < n; i++ {
		parent[before+i] = elem(rt, label+".e")
	}
	view := parent[before : before+n]
	if shape == "window-clipped" {
		view = parent[before : before+n : before+n]
	}
	return slot[T]{parent: parent, view: view, shape: shape, off: before}
}

func intElem(rt *rapid.T, label string) int { return rapid.IntRange(0, 9).Draw(rt, label) }

func drawInts(rt *rapid.T, label string, maxLen int) slot[int] {
	return drawSlot(rt, label, maxLen, intElem, hidden)
}

// descInts prints an int slot: shape, whole backing array with the window marked.
func descInts(s slot[int]) string {
	if s.parent == nil {
		return "nil"
	}
	var sb strings.Builder
	sb.WriteString(s.shape + "[")
	for i, x := range s.parent {
		if i == s.off {
			sb.WriteString("<")
		}
		if i == s.off+len(s.view) {
			sb.WriteString(">")
		}
		if i > 0 {
			sb.WriteString(" ")
		}
		if i < s.off || i >= s.off+len(s.view) {
			sb.WriteString("_")
		} else {
			fmt.Fprint(&sb, x)
		}
	}
	if s.off+len(s.view) == len(s.parent) {
		sb.WriteString(">")
	}
	sb.WriteString("]")
	if s.shape == "window-clipped" {
		sb.WriteString("clip")
	}
	return sb.String()
}

func scribble[T any](s []T, v T) {
	s = s[:cap(s)]
	for i := range s {
		s[i] = v
	}
}

// ---- hashers, maps, sets -----------------------------------------------------------------------

const keySpace = 64 // keys 0..63

func mod(a, m int) int { return ((a % m) + m) % m }

type hspec struct {
	name string
	h    fp.Hashable[int] // nil: zero-value containers (UnsafeGoMap / UnsafeGoSet)
}

func newH(f func(int) uint32) fp.Hashable[int] { return hash.New(eq.Given[int](), f) }

var hashers = []hspec{
	{"identity", newH(func(k int) uint32 { return uint32(k) })},
	{"mod4", newH(func(k int) uint32 { return uint32(mod(k, 4)) })},
	{"const7", newH(func(k int) uint32 { return 7 })},
	{"twolevel", newH(func(k int) uint32 { return uint32(mod(k, 3)) | uint32(k/3)<<5 })},
	{"hash.Number", hash.Number[int]()},
	{"hibits", newH(func(k int) uint32 { return uint32(k) << 27 })},
	{"zero", nil},
}

func drawHasher(rt *rapid.T, label string) hspec {
	return hashers[rapid.IntRange(0, len(hashers)-1).Draw(rt, label)]
}

func emptyMap(h hspec) fp.Map[int, int] {
	if h.h == nil {
		return fp.Map[int, int]{}
	}
	return immutable.Map[int, int](h.h)
}

func emptySet(h hspec) fp.Set[int] {
	if h.h == nil {
		return fp.Set[int]{}
	}
	return immutable.Set[int](h.h)
}

type kvPair struct{ k, v int }

func drawPairs(rt *rapid.T, label string, max int) []kvPair {
	n := rapid.IntRange(0, max).Draw(rt, label+".n")
	ps := make([]kvPair, n)
	for i := range ps {
		ps[i] = kvPair{rapid.IntRange(0, keySpace-1).Draw(rt, label+".k"), rapid.IntRange(0, 9).Draw(rt, label+".v")}
	}
	return ps
}

// buildMap constructs a map by one of the public constructors (drawn by how).
func buildMap(h hspec, how int, ps []kvPair) fp.Map[int, int] {
	if h.h == nil {
		var m fp.Map[int, int]
		for _, p := range ps {
			m = m.Updated(p.k, p.v)
		}
		return m
	}
	switch how % 3 {
	case 0:
		m := immutable.Map[int, int](h.h)
		for _, p := range ps {
			m = m.Updated(p.k, p.v)
		}
		return m
	case 1:
		ts := make([]fp.Tuple2[int, int], len(ps))
		for i, p := range ps {
			ts[i] = fp.Tuple2[int, int]{I1: p.k, I2: p.v}
		}
		return immutable.Map(h.h, ts...)
	default:
		b := immutable.MapBuilder[int, int](h.h)
		for _, p := range ps {
			b.Add(p.k, p.v)
		}
		return b.Build()
	}
}

func buildSet(h hspec, how int, ks []int) fp.Set[int] {
	if h.h == nil {
		var s fp.Set[int]
		for _, k := range ks {
			s = s.Incl(k)
		}
		return s
	}
	switch how % 3 {
	case 0:
		s := immutable.Set[int](h.h)
		for _, k := range ks {
			s = s.Incl(k)
		}
		return s
	case 1:
		return immutable.Set(h.h, ks...)
	default:
		b := immutable.SetBuilder(h.h)
		for _, k := range ks {
			b.Add(k)
		}
		return b.Build()
	}
}

func descPairs(ps []kvPair) string {
	var sb strings.Builder
	for _, p := range ps {
		fmt.Fprintf(&sb, "%d:%d,", p.k, p.v)
	}
	return sb.String()
}

// obsMap is the observable content of a map: Get for the whole key space (plus two
// keys never inserted), Size, and the drained Iterator as a sorted multiset.
func obsMap(m fp.Map[int, int]) string {
	var sb strings.Builder
	sb.WriteString("get{")
	for k := -1; k <= keySpace; k++ {
		if o := m.Get(k); o.IsDefined() {
			fmt.Fprintf(&sb, "%d:%d ", k, o.Get())
		}
	}
	fmt.Fprintf(&sb, "} size=%d iter{", m.Size())
	var es []string
	it := m.Iterator()
	for n := 0; it.HasNext() && n < 4*keySpace; n++ {
		t := it.Next()
		es = append(es, fmt.Sprintf("%03d:%d", t.I1, t.I2))
	}
	sort.Strings(es)
	sb.WriteString(strings.Join(es, " "))
	sb.WriteString("}")
	return sb.String()
}

func obsSet(s fp.Set[int]) string {
	var sb strings.Builder
	sb.WriteString("has{")
	for k := -1; k <= keySpace; k++ {
		if s.Contains(k) {
			fmt.Fprintf(&sb, "%d ", k)
		}
	}
	fmt.Fprintf(&sb, "} size=%d iter{", s.Size())
	var es []int
	it := s.Iterator()
	for n := 0; it.HasNext() && n < 4*keySpace; n++ {
		es = append(es, it.Next())
	}
	sort.Ints(es)
	fmt.Fprint(&sb, es)
	sb.WriteString("}")
	return sb.String()
}

func sortedGoKeys[V any](m map[int]V) []int {
	ks := make([]int, 0, len(m))
	for k := range m {
		ks = append(ks, k)
	}
	sort.Ints(ks)
	return ks
}

// ---- env: one case of a per-function sub-check -------------------------------------------------

type watch struct {
	label  string
	clause string
	input  bool // an input of the call (as opposed to an earlier result)
	snap   func() string
	before string
}

type env struct {
	rt      *rapid.T
	rec     *kit.Rec
	fn      string
	watches []*watch
	desc    []string
	spare   bool // some input slice has spare capacity / is a window
	content bool // some input map / set / list is non-empty
	slices  int

	freshMode bool // the "<fn>/fresh-result" sub-check
	scribbled bool

	inMaps []fp.Map[int, int]
	inSets []fp.Set[int]
}

// perturb derives further, mutually different versions from every input map / set
// (two absent keys added, one present key removed / overwritten): results computed
// earlier must not notice.
func (e *env) perturb() {
	e.call(func() {
		for _, m := range e.inMaps {
			var absent, present []int
			for k := 0; k < keySpace; k++ {
				if m.Contains(k) {
					present = append(present, k)
				} else {
					absent = append(absent, k)
				}
			}
			for i, k := range absent {
				if i < 2 || i == len(absent)-1 {
					_ = m.Updated(k, 90+i)
				}
			}
			for i, k := range present {
				if i == 0 || i == len(present)-1 {
					_ = m.Updated(k, 95)
					_ = m.Removed(k)
				}
			}
		}
		for _, s := range e.inSets {
			var absent, present []int
			for k := 0; k < keySpace; k++ {
				if s.Contains(k) {
					present = append(present, k)
				} else {
					absent = append(absent, k)
				}
			}
			for i, k := range absent {
				if i < 2 || i == len(absent)-1 {
					_ = s.Incl(k)
				}
			}
			for i, k := range present {
				if i == 0 || i == len(present)-1 {
					_ = s.Excl(k)
				}
			}
		}
	})
}

func (e *env) sig(clause string) string { return "C04|" + e.fn + "|" + clause }

func (e *env) watch(label, clause string, snap func() string) {
	w := &watch{label: label, clause: clause, snap: snap, input: strings.HasPrefix(clause, "input-")}
	e.rec.Guard(e.rt, e.sig("observe"), func() { w.before = snap() })
	e.watches = append(e.watches, w)
}

func (e *env) note(format string, args ...any) { e.desc = append(e.desc, fmt.Sprintf(format, args...)) }

// verify re-reads every watched value. override (if not empty) replaces the clause
// of the input watches: it is used after the harness wrote through a fresh result.
func (e *env) verify(stage string, override string) {
	for _, w := range e.watches {
		var now string
		e.rec.Guard(e.rt, e.sig("observe"), func() { now = w.snap() })
		if now != w.before {
			clause := w.clause
			if override != "" && w.input {
				clause = override
			}
			e.rec.Failf(e.rt, e.sig(clause), "%s: %s changed %s\n  before: %s\n  after:  %s\n  case: %s", e.fn, w.label, stage, w.before, now, strings.Join(e.desc, " "))
		}
	}
}

func (e *env) call(f func()) { e.rec.Guard(e.rt, e.sig("call"), f) }

// ---- inputs drawn by the per-function sub-checks -------------------------------------------------

func (e *env) ints(label string, maxLen int) fp.Seq[int] {
	s := drawInts(e.rt, label, maxLen)
	return e.addInts(label, s)
}

func (e *env) addInts(label string, s slot[int]) fp.Seq[int] {
	e.slices++
	e.rec.Label("slice:" + s.shape)
	if s.spare() {
		e.spare = true
	}
	e.note("%s=%s", label, descInts(s))
	parent := s.parent
	e.watch("backing array of input slice "+label, "input-unchanged", func() string {
		return fmt.Sprintf("%v", parent)
	})
	return s.view
}

// slotOf registers a slice of arbitrary element type; the snapshot is deep.
func addSlot[T any](e *env, label string, s slot[T]) []T {
	e.slices++
	e.rec.Label("slice:" + s.shape)
	if s.spare() {
		e.spare = true
	}
	e.note("%s=%s@%d+%d%s", label, s.shape, s.off, len(s.view), deep(s.parent))
	parent := s.parent
	e.watch("backing array of input slice "+label, "input-unchanged", func() string { return deep(parent) })
	return s.view
}

func (e *env) goMap(label string) map[int]int {
	var m map[int]int
	switch rapid.IntRange(0, 5).Draw(e.rt, label+".kind") {
	case 0:
		m = nil
	case 1:
		m = map[int]int{}
	default:
		m = map[int]int{}
		for _, p := range drawPairs(e.rt, label, 6) {
			m[p.k%16] = p.v
		}
	}
	if len(m) > 0 {
		e.content = true
	}
	e.note("%s=%s", label, deep(m))
	e.watch("input Go map "+label, "input-unchanged", func() string { return deep(m) })
	return m
}

func (e *env) fpMap(label string) fp.Map[int, int] {
	h := drawHasher(e.rt, label+".hasher")
	how := rapid.IntRange(0, 2).Draw(e.rt, label+".how")
	ps := drawPairs(e.rt, label, 24)
	m := buildMap(h, how, ps)
	if len(ps) > 0 {
		e.content = true
	}
	e.rec.Label("map:" + h.name)
	e.note("%s=map(%s,how%d){%s}", label, h.name, how, descPairs(ps))
	e.watchMap("input fp.Map "+label, m)
	e.inMaps = append(e.inMaps, m)
	return m
}

func (e *env) watchMap(label string, m fp.Map[int, int]) {
	e.watch(label, "input-unchanged", func() string { return obsMap(m) })
	e.watch("node structure of "+label, "input-structure-unchanged", func() string { return deep(m) })
}

func (e *env) fpSet(label string) fp.Set[int] {
	h := drawHasher(e.rt, label+".hasher")
	how := rapid.IntRange(0, 2).Draw(e.rt, label+".how")
	n := rapid.IntRange(0, 24).Draw(e.rt, label+".n")
	ks := make([]int, n)
	for i := range ks {
		ks[i] = rapid.IntRange(0, keySpace-1).Draw(e.rt, label+".k")
	}
	s := buildSet(h, how, ks)
	if n > 0 {
		e.content = true
	}
	e.rec.Label("set:" + h.name)
	e.note("%s=set(%s,how%d)%v", label, h.name, how, ks)
	e.watchSet("input fp.Set "+label, s)
	e.inSets = append(e.inSets, s)
	return s
}

func (e *env) watchSet(label string, s fp.Set[int]) {
	e.watch(label, "input-unchanged", func() string { return obsSet(s) })
	e.watch("node structure of "+label, "input-structure-unchanged", func() string { return deep(s) })
}

func (e *env) fn1(label string) func(int) int {
	f := kit.IntFnGen().Draw(e.rt, label)
	e.note("%s=%v", label, f)
	return func(x int) int { return mod(f.Call(x), 10) }
}

func (e *env) pred(label string) func(int) bool {
	p := kit.PredGen().Draw(e.rt, label)
	e.note("%s=%v", label, p)
	return p.Call
}

func (e *env) num(label string, lo, hi int) int {
	n := rapid.IntRange(lo, hi).Draw(e.rt, label)
	e.note("%s=%d", label, n)
	return n
}

// ---- the sub-check wrapper -----------------------------------------------------------------------

const ruleA = "inputs of the function drawn by rapid: int slices as nil / empty / empty with spare capacity / exact / len<cap (spare part filled with sentinels) / window of a larger backing array with live data before and after / clipped window; Go maps nil, empty, <=6 entries; fp.Map / fp.Set with <=24 entries over keys 0..63, seven hashers incl. constant and k mod 4 and the zero value, three constructors; pure table callbacks. Oracle: the whole backing array of every input slice and the full content (and node structure) of every input map / set, snapshotted before the call, must be identical after the call, after a second call (the first result must not change either) and after the harness overwrote / mutated a result the function builds afresh by contract. non-trivial iff some input slice has spare capacity or is a window (functions without slice input: some input collection is non-empty); distinct by printed inputs"

// fnCheck registers the sub-check of one library function. body draws the inputs
// (through e) and returns the part that calls the library (no draws in there).
// Demanded: the calls themselves write neither to an input nor to an earlier result.
func fnCheck(t *testing.T, fn string, body func(e *env) func()) {
	t.Helper()
	kit.Check(t, fn, ruleA, kit.Opt{}, func(rt *rapid.T, rec *kit.Rec) {
		e := &env{rt: rt, rec: rec, fn: fn}
		run := body(e)
		nt := e.spare
		if e.slices == 0 {
			nt = e.content
		}
		rec.Case(nt, strings.Join(e.desc, " "))
		run()
		if len(e.inMaps)+len(e.inSets) > 0 {
			e.perturb()
			e.verify("while further versions were derived from the input maps / sets", "")
		}
		e.verify("at the end of the case", "")
	})
}

const ruleFresh = "same inputs as the sub-check of the function itself; only for functions that construct their result afresh by contract (not for the read-only views Take/Drop/Init/Tail/UnSeq/Widen, Append()/Concat(empty) returning the receiver). Here changes made by the call itself are NOT judged (the snapshots are taken after the calls); demanded: when the harness afterwards overwrites the whole result up to its capacity (Go maps: deletes / overwrites / adds entries) no input and no earlier result changes, i.e. the result shares no memory with them. non-trivial iff the result was fresh by contract for this input and (some input slice has spare capacity or is a window | functions without slice input: some input collection is non-empty); distinct by printed inputs"

// fnCheckF registers the sub-check of the function and a second sub-check
// "<fn>/fresh-result" for the contract that the result is newly constructed.
func fnCheckF(t *testing.T, fn string, body func(e *env) func()) {
	t.Helper()
	fnCheck(t, fn, body)
	kit.Check(t, fn+"/fresh-result", ruleFresh, kit.Opt{}, func(rt *rapid.T, rec *kit.Rec) {
		e := &env{rt: rt, rec: rec, fn: fn, freshMode: true}
		run := body(e)
		nt := e.spare
		if e.slices == 0 {
			nt = e.content
		}
		defer func() { rec.Case(nt && e.scribbled, strings.Join(e.desc, " ")) }()
		run()
	})
}

// check: in the sub-check of the function itself every watched value is compared with
// its snapshot; in the fresh-result sub-check the snapshots are re-taken instead.
func (e *env) check(stage string) {
	if !e.freshMode {
		e.verify(stage, "")
		return
	}
	for _, w := range e.watches {
		e.rec.Guard(e.rt, e.sig("observe"), func() { w.before = w.snap() })
	}
}

// spoiled is called after the harness wrote through a fresh result.
func (e *env) spoiled(stage string) {
	e.scribbled = true
	for _, w := range e.watches {
		if !w.input {
			w.clause = "results-alias-each-other"
		}
	}
	e.verify(stage, "result-aliases-input")
}

// ---- result handling -------------------------------------------------------------------------------

// sliceResult runs op twice. fresh: the function constructs a new slice by
// contract, so the harness may overwrite the whole result (up to cap) afterwards.
func sliceResult[R any](e *env, fresh bool, scrib R, op func() []R) {
	var r1, r2 []R
	e.call(func() { r1 = op() })
	e.check("during the call")
	keep := r1
	if fresh {
		e.watch("the result of the first call", "earlier-result-changed", func() string { return deep(keep[:cap(keep)]) })
	} else {
		e.watch("the result of the first call", "earlier-result-changed", func() string { return deep(keep) })
	}
	e.call(func() { r2 = op() })
	e.check("during the second call")
	if fresh && e.freshMode {
		scribble(r2, scrib)
		e.spoiled("when the harness overwrote the (fresh by contract) result of the call")
	}
}

// valueResult: the result is a scalar / is only read.
func valueResult(e *env, op func()) {
	e.call(op)
	e.check("during the call")
	e.call(op)
	e.check("during the second call")
}

// goMapResult: the function returns a fresh Go map; spoil mutates it.
func goMapResult[K comparable, V any](e *env, op func() map[K]V, spoil func(map[K]V)) {
	var r1, r2 map[K]V
	e.call(func() { r1 = op() })
	e.check("during the call")
	e.watch("the result of the first call", "earlier-result-changed", func() string { return deep(r1) })
	e.call(func() { r2 = op() })
	e.check("during the second call")
	if e.freshMode {
		spoil(r2)
		e.spoiled("when the harness mutated the (fresh by contract) Go map returned by the call")
	}
}

// fpMapResult: the function returns a persistent map; afterwards new versions are derived from it.
func fpMapResult(e *env, op func() fp.Map[int, int]) {
	var r1, r2 fp.Map[int, int]
	e.call(func() { r1 = op() })
	e.check("during the call")
	e.watch("the result of the first call", "earlier-result-changed", func() string { return obsMap(r1) })
	e.watch("node structure of the result of the first call", "earlier-result-structure-changed", func() string { return deep(r1) })
	e.call(func() { r2 = op() })
	e.check("during the second call")
	e.call(func() {
		d := r2
		for k := 0; k < keySpace; k += 3 {
			d = d.Updated(k, 77)
		}
		for k := 0; k < keySpace; k += 2 {
			d = d.Removed(k)
		}
		_ = r1.Updated(1, 78).Removed(2, 3)
	})
	e.check("while new versions were derived from the results")
}

func fpSetResult(e *env, op func() fp.Set[int]) {
	var r1, r2 fp.Set[int]
	e.call(func() { r1 = op() })
	e.check("during the call")
	e.watch("the result of the first call", "earlier-result-changed", func() string { return obsSet(r1) })
	e.watch("node structure of the result of the first call", "earlier-result-structure-changed", func() string { return deep(r1) })
	e.call(func() { r2 = op() })
	e.check("during the second call")
	e.call(func() {
		d := r2
		for k := 0; k < keySpace; k += 3 {
			d = d.Incl(k)
		}
		for k := 0; k < keySpace; k += 2 {
			d = d.Excl(k)
		}
		_ = r1.Incl(1).Excl(2)
	})
	e.check("while new versions were derived from the results")
}

// listResult: the function returns a (possibly lazy, memoised) list.
func listResult[T any](e *env, op func() fp.List[T]) {
	var r1, r2 fp.List[T]
	e.call(func() { r1 = op() })
	e.check("during the call")
	e.watch("the list returned by the first call", "earlier-result-changed", func() string { return deep(r1.ToSeq()) })
	e.check("while the resulting list was forced")
	var s []T
	e.call(func() {
		r2 = op()
		s = r2.ToSeq()
	})
	e.check("during the second call and while its result was forced")
	if e.freshMode {
		var zero T
		scribble(s, zero)
		e.spoiled("when the harness overwrote the slice returned by ToSeq() of the resulting list")
	}
}
