package c02

import (
	"errors"
	"fmt"
	"reflect"
	"runtime"
	"testing"

	"github.com/csgura/fp"
	"github.com/csgura/fp/future"
	"github.com/csgura/fp/try"
	"pgregory.net/rapid"

	"verifharness/kit"
)

// ---- bodies ---------------------------------------------------------------------------

type payload struct {
	A int
	B string
}

type customErr struct{ code int }

func (c customErr) Error() string { return fmt.Sprintf("custom%d", c.code) }

// body is what the supplied function does.
//
//	mode 0  returns (v, nil)
//	mode 1  returns (v, errs[e])           (only for functions with an error result)
//	mode 2  panics with the drawn value
type body struct {
	mode  int
	v     int
	e     int
	pk    int // panic kind
	pi    int // parameter of the panic value
	ps    string
	calls int
}

const (
	pkString = iota
	pkSentinel
	pkWrapped
	pkCustomErr
	pkInt
	pkStruct
	pkPtr
	pkNilDeref
	pkIndex
	pkNilMap
	pkDivZero
	pkTypeAssert
	// typed nil values: not panic(nil) — the interface handed to panic is non-nil, the value inside is
	pkNilPtr
	pkNilErrPtr
	pkNilMapVal
	pkNilSlice
	pkNilFunc
	// panic(nil): since Go 1.21 (the harness module says go 1.23, so GODEBUG panicnil=0) recover returns a
	// *runtime.PanicNilError, a runtime.Error like the rt-* kinds
	pkUntypedNil
	pkCount
)

var pkNames = []string{"string", "error-sentinel", "error-wrapped", "error-custom", "int", "struct", "pointer", "rt-nil-deref", "rt-index", "rt-nil-map", "rt-div-zero", "rt-type-assert", "typed-nil-pointer", "typed-nil-error-pointer", "typed-nil-map", "typed-nil-slice", "typed-nil-func", "untyped-nil"}

type ptrErr struct{ code int }

func (p *ptrErr) Error() string { return "ptrErr" }

var ptrPayload = &payload{A: 7, B: "p"}

// throw panics with the drawn value. The runtime kinds execute the faulting operation for real.
func (b *body) throw() {
	switch b.pk {
	case pkString:
		panic(b.ps)
	case pkSentinel:
		panic(errs[b.pi%len(errs)])
	case pkWrapped:
		panic(fmt.Errorf("wrapped: %w", errs[b.pi%len(errs)]))
	case pkCustomErr:
		panic(customErr{b.pi})
	case pkInt:
		panic(b.pi)
	case pkStruct:
		panic(payload{A: b.pi, B: b.ps})
	case pkPtr:
		panic(ptrPayload)
	case pkNilDeref:
		var p *payload
		_ = p.A
	case pkIndex:
		xs := make([]int, b.pi%4)
		_ = xs[b.pi%4+b.pi%3]
	case pkNilMap:
		var m map[string]int
		m[b.ps] = b.pi
	case pkDivZero:
		z := b.pi - b.pi
		_ = 1 / z
	case pkTypeAssert:
		var x any = b.ps
		_ = x.(int)
	case pkNilPtr:
		var p *payload
		panic(p)
	case pkNilErrPtr:
		var e *ptrErr
		panic(e)
	case pkNilMapVal:
		var m map[string]int
		panic(m)
	case pkNilSlice:
		var xs []int
		panic(xs)
	case pkNilFunc:
		var f func()
		panic(f)
	case pkUntypedNil:
		panic(nil)
	}
	panic("harness bug: panic kind did not panic")
}

// thrown is the reference: the value the very same operation panics with, observed by the harness' own recover.
func (b *body) thrown() any {
	c := *b
	pv, _ := kit.Catch(c.throw)
	return pv
}

func (b *body) String() string {
	switch b.mode {
	case 0:
		return fmt.Sprintf("return(%d,nil)", b.v)
	case 1:
		return fmt.Sprintf("return(%d,%v)", b.v, errs[b.e])
	}
	return fmt.Sprintf("panic[%s pi=%d ps=%q]", pkNames[b.pk], b.pi, b.ps)
}

func drawBody(rt *rapid.T, hasErr bool) *body {
	b := &body{v: rapid.IntRange(-3, 8).Draw(rt, "v"), e: rapid.IntRange(0, 9).Draw(rt, "e")}
	modes := []int{0, 2, 2}
	if hasErr {
		modes = []int{0, 1, 2, 2}
	}
	b.mode = rapid.SampledFrom(modes).Draw(rt, "mode")
	if b.mode == 2 {
		b.pk = rapid.IntRange(0, pkCount-1).Draw(rt, "panicKind")
		b.pi = rapid.IntRange(0, 12).Draw(rt, "pi")
		b.ps = kit.SmallString().Draw(rt, "ps")
	}
	return b
}

func (b *body) run() (int, error) {
	b.calls++
	switch b.mode {
	case 0:
		return b.v, nil
	case 1:
		return b.v, errs[b.e]
	}
	b.throw()
	return 0, nil
}

// samePanic: the Failure exposes the panic value.
func samePanic(got, want any) bool {
	if wre, ok := want.(runtime.Error); ok {
		gre, ok := got.(runtime.Error)
		return ok && gre.Error() == wre.Error()
	}
	if wp, ok := want.(*payload); ok {
		gp, ok := got.(*payload)
		return ok && gp == wp
	}
	return reflect.DeepEqual(got, want)
}

const rulePanic = "body drawn: returns (v,nil) / returns (v, sentinel error) where the signature has an error / panics with a drawn value (string, sentinel error, wrapped error, custom error struct, int, struct, pointer, and genuine runtime errors: nil dereference, index out of range, nil map write, integer divide by zero, failed type assertion; typed nil values: nil pointer, nil error pointer, nil map, nil slice, nil func; and panic(nil), which the runtime turns into a *runtime.PanicNilError under the harness module's go 1.23 semantics); oracle: normal return -> Success(v) resp. Failure with THAT very error (never a panic failure); panic -> Failure whose error exposes the thrown value through Panic() (runtime errors: a runtime.Error with the same message) or, for error values, errors.Is; the body runs exactly once and nothing propagates to the caller; non-trivial iff the body panics; distinct by printed body"

// panicCheck runs one PANIC CAPTURE sub-check. run executes the library function on the body and returns the resulting Try
// (the value is mapped to int: Unit -> the body's v).
func panicCheck(t *testing.T, name string, hasErr bool, run func(b *body) (res fp.Try[int], completed bool)) {
	t.Helper()
	base := "C02|" + name
	kit.Check(t, name+"/panic-capture", rulePanic, kit.Opt{}, func(rt *rapid.T, rec *kit.Rec) {
		b := drawBody(rt, hasErr)
		rec.Case(b.mode == 2, name+" "+b.String())
		if b.mode == 2 {
			rec.Label("panic-" + pkNames[b.pk])
		} else {
			rec.Label(fmt.Sprintf("return-mode%d", b.mode))
		}
		var res fp.Try[int]
		var completed bool
		pv, escaped := kit.Catch(func() { res, completed = run(b) })
		if escaped {
			if fe, ok := pv.(kit.FuelExhausted); ok {
				panic(fe)
			}
			rec.Failf(rt, base+"|panic-escaped", "%v: the panic was not captured, it propagated to the caller: %v", b, pv)
		}
		if !completed {
			rec.Failf(rt, base+"|not-completed", "%v: the future is not completed although its task has run synchronously", b)
		}
		if b.calls != 1 {
			rec.Failf(rt, base+"|body-count", "%v: the body must run exactly once, ran %d time(s)", b, b.calls)
		}
		switch b.mode {
		case 0:
			if !(res.IsSuccess() && res.Get() == b.v) {
				rec.Failf(rt, base+"|normal-return", "%v: a normal return must be Success(%d), got %v", b, b.v, res)
			}
		case 1:
			if res.IsSuccess() {
				rec.Failf(rt, base+"|normal-return", "%v: (v, err != nil) must be a Failure, got %v", b, res)
			}
			err := res.Failed().OrZero()
			if !errors.Is(err, errs[b.e]) {
				rec.Failf(rt, base+"|normal-return", "%v: the Failure must carry that very error, got %v", b, err)
			}
			var pe interface{ Panic() any }
			if errors.As(err, &pe) {
				rec.Failf(rt, base+"|normal-return", "%v: a returned error was turned into a panic failure: %T", b, err)
			}
		case 2:
			want := b.thrown()
			if res.IsSuccess() {
				rec.Failf(rt, base+"|panic-value", "%v: the body panicked with %v (%T) but the result is %v", b, want, want, res)
			}
			err := res.Failed().OrZero()
			if err == nil {
				rec.Failf(rt, base+"|panic-value", "%v: Failure without an error", b)
			}
			var pe interface{ Panic() any }
			exposed := false
			if errors.As(err, &pe) {
				exposed = samePanic(pe.Panic(), want)
			}
			if we, ok := want.(error); ok && !exposed {
				// returning (or wrapping) the error value itself also exposes it
				if _, isRT := want.(runtime.Error); !isRT {
					exposed = errors.Is(err, we)
				}
			}
			if !exposed {
				got := any("<no Panic() method>")
				if pe != nil {
					got = pe.Panic()
				}
				rec.Failf(rt, base+"|panic-value", "%v: the Failure does not expose the panic value: thrown %#v (%T), Failure error type %T, Panic() = %#v", b, want, want, err, got)
			}
		}
	})
}

type inlineExec struct{}

func (inlineExec) ExecuteUnsafe(r fp.Runnable) { r.Run() }

// inlineSpawn makes the DEFAULT executor run its tasks synchronously (build tag verif hook),
// for the functions that do not accept / do not forward an executor.
func inlineSpawn(f func()) {
	fp.VerifSetSpawn(func(run func()) bool { run(); return true })
	defer fp.VerifSetSpawn(nil)
	f()
}

func futRes[T any](f fp.Future[T], conv func(T) int) (fp.Try[int], bool) {
	if !f.IsCompleted() {
		return fp.Try[int]{}, false
	}
	v := f.Value()
	if v.IsSuccess() {
		return try.Success(conv(v.Get())), true
	}
	return try.Failure[int](v.Failed().OrZero()), true
}

func TestPanic(t *testing.T) {
	id := func(x int) int { return x }
	// ---- package try: every function of try_op.go with a deferred recover ----
	panicCheck(t, "try.Of", false, func(b *body) (fp.Try[int], bool) {
		return try.Of(func() int { v, _ := b.run(); return v }), true
	})
	panicCheck(t, "try.Call", true, func(b *body) (fp.Try[int], bool) {
		return try.Call(b.run), true
	})
	panicCheck(t, "try.CallUnit", true, func(b *body) (fp.Try[int], bool) {
		r := try.CallUnit(func() error { _, err := b.run(); return err })
		return try.Map(r, func(fp.Unit) int { return b.v }), true
	})
	// ---- package future, executor given explicitly (no goroutine is involved) ----
	panicCheck(t, "future.Apply", false, func(b *body) (fp.Try[int], bool) {
		return futRes(future.Apply(func() int { v, _ := b.run(); return v }, inlineExec{}), id)
	})
	panicCheck(t, "future.Apply2", true, func(b *body) (fp.Try[int], bool) {
		return futRes(future.Apply2(b.run, inlineExec{}), id)
	})
	panicCheck(t, "future.Func0", true, func(b *body) (fp.Try[int], bool) {
		return futRes(future.Func0(b.run, inlineExec{})(fp.Unit{}), id)
	})
	// ---- default executor made synchronous through the spawn hook ----
	panicCheck(t, "future.Apply@default", false, func(b *body) (r fp.Try[int], c bool) {
		inlineSpawn(func() { r, c = futRes(future.Apply(func() int { v, _ := b.run(); return v }), id) })
		return
	})
	panicCheck(t, "future.Apply2@default", true, func(b *body) (r fp.Try[int], c bool) {
		inlineSpawn(func() { r, c = futRes(future.Apply2(b.run), id) })
		return
	})
	futureFuncChecks(t)
}

// TestNormalReturn: the non-recovering converters of try_op.go never produce a failure from a normal return
// and return that very error for err != nil.
func TestNormalReturn(t *testing.T) {
	conv := func(name string, hasErr bool, run func(b *body) fp.Try[int]) {
		base := "C02|" + name
		kit.Check(t, name+"/normal-return", "body returns (v,nil) or (v, sentinel error) (drawn); oracle: Success(v) resp. Failure with that very error; non-trivial iff an error is returned (always, for the converters of functions without an error result); distinct by printed body", kit.Opt{}, func(rt *rapid.T, rec *kit.Rec) {
			b := &body{v: rapid.IntRange(-3, 8).Draw(rt, "v"), e: rapid.IntRange(0, 9).Draw(rt, "e")}
			if hasErr && rapid.Bool().Draw(rt, "err") {
				b.mode = 1
			}
			rec.Case(b.mode == 1 || !hasErr, name+" "+b.String())
			var res fp.Try[int]
			rec.Guard(rt, base, func() { res = run(b) })
			if b.calls != 1 {
				rec.Failf(rt, base+"|body-count", "%v: the body must run exactly once, ran %d time(s)", b, b.calls)
			}
			if b.mode == 0 && !(res.IsSuccess() && res.Get() == b.v) {
				rec.Failf(rt, base+"|normal-return", "%v: want Success(%d), got %v", b, b.v, res)
			}
			if b.mode == 1 && !(res.IsFailure() && errors.Is(res.Failed().OrZero(), errs[b.e])) {
				rec.Failf(rt, base+"|normal-return", "%v: want Failure with that very error, got %v", b, res)
			}
		})
	}
	conv("try.Apply", true, func(b *body) fp.Try[int] { return try.Apply(b.run()) })
	conv("try.Func0", true, func(b *body) fp.Try[int] { return try.Func0(b.run)(fp.Unit{}) })
	conv("try.Pure0", false, func(b *body) fp.Try[int] { return try.Pure0(func() int { v, _ := b.run(); return v })(fp.Unit{}) })
	conv("try.Unit0", true, func(b *body) fp.Try[int] {
		r := try.Unit0(func() error { _, err := b.run(); return err })(fp.Unit{})
		return try.Map(r, func(fp.Unit) int { return b.v })
	})
	conv("try.Func1", true, func(b *body) fp.Try[int] { return try.Func1(func(int) (int, error) { return b.run() })(1) })
	conv("try.Unit1", true, func(b *body) fp.Try[int] {
		r := try.Unit1(func(int) error { _, err := b.run(); return err })(1)
		return try.Map(r, func(fp.Unit) int { return b.v })
	})
}
