package c02

import (
	"fmt"
	"testing"

	"github.com/csgura/fp"
	"pgregory.net/rapid"
)

// stepKind is one method of the MonadChainN / ApplicativeFunctorN builders
// (enumerated from try/applicative_gen.go, option/applicative_gen.go and the
// arity-1 structs in try_op.go / option_op.go).
type stepKind int

const (
	sAp stepKind = iota
	sApTry
	sApOption
	sApFunc
	sApTryFunc
	sApOptionFunc
	sFlatMap
	sMap
	sHListMap
	sHListFlatMap
)

var stepNames = map[stepKind]string{sAp: "Ap", sApTry: "ApTry", sApOption: "ApOption", sApFunc: "ApFunc", sApTryFunc: "ApTryFunc",
	sApOptionFunc: "ApOptionFunc", sFlatMap: "FlatMap", sMap: "Map", sHListMap: "HListMap", sHListFlatMap: "HListFlatMap"}

// position kind of a builder step
func (k stepKind) lay() kind {
	switch k {
	case sAp:
		return kC
	case sApTry, sApOption:
		return kV
	case sApFunc, sMap, sHListMap:
		return kP
	}
	return kF
}

type builder struct {
	name  string // "try.Chain", "option.Applicative", ...
	strct string // "try.MonadChain", ...
	mode  pkgMode
	steps []stepKind
	base  stepKind // the plain monadic operand step every other step delegates to
	run   func(n int, sc *scen, ks []stepKind) outcome
}

const ruleChain = "builder of drawn/fixed arity N: every position gets a drawn step method (Ap / ApTry / ApOption / ApFunc / ApTryFunc / ApOptionFunc / FlatMap / Map / HListMap / HListFlatMap as available) and the user function is the last position; a SET of failing positions among the fallible steps is drawn (first failing position uniform); in package try an Option step fails with fp.ErrOptionEmpty; only the FINAL result and the callback counts/order are checked (the intermediate h chain is not observable); non-trivial iff >= 1 failing position that is not the last position; distinct by (builder, arity, step kinds, failing set)"

func (b builder) scen(rt *rapid.T, n int, pick func(pos int) stepKind) (*scen, []stepKind) {
	ks := make([]stepKind, n)
	lay := make([]kind, 0, n+1)
	desc := " steps=["
	for i := range ks {
		ks[i] = pick(i)
		lay = append(lay, ks[i].lay())
		desc += stepNames[ks[i]] + " "
	}
	lay = append(lay, kP) // the user function given to ChainN / ApplicativeN
	sc := newScen(lay, b.mode)
	sc.extra = desc + "]"
	if b.mode.name == "try" {
		for i, k := range ks {
			if k == sApOption || k == sApOptionFunc {
				sc.ident[i] = identOptEmpty
			}
		}
	}
	sc.drawFails(rt)
	return sc, ks
}

func (b builder) checks(t *testing.T) {
	// one pair of sub-checks per arity: step methods drawn freely per position
	for n := 1; n <= 9; n++ {
		n := n
		name := fmt.Sprintf("%s%d", b.name, n)
		runShort(t, name, ruleChain, 1, true, func(rt *rapid.T) (*scen, func() outcome) {
			sc, ks := b.scen(rt, n, func(pos int) stepKind {
				return rapid.SampledFrom(b.steps).Draw(rt, fmt.Sprintf("step%d", pos))
			})
			return sc, func() outcome { return b.run(n, sc, ks) }
		})
	}
	// one pair per step method: arity drawn 1..9, every position is that method (2/3) or the plain operand step (1/3)
	for _, k := range b.steps {
		k := k
		name := b.strct + "." + stepNames[k]
		runShort(t, name, ruleChain+"; here arity drawn 1..9 and every step is "+stepNames[k]+" or the plain operand step "+stepNames[b.base], 1, true, func(rt *rapid.T) (*scen, func() outcome) {
			n := rapid.IntRange(1, 9).Draw(rt, "arity")
			sc, ks := b.scen(rt, n, func(pos int) stepKind {
				if rapid.IntRange(0, 2).Draw(rt, fmt.Sprintf("plain%d", pos)) == 0 {
					return b.base
				}
				return k
			})
			sc.extra = fmt.Sprintf(" arity=%d", n) + sc.extra
			return sc, func() outcome { return b.run(n, sc, ks) }
		})
	}
}

func TestBuilders(t *testing.T) {
	trySteps := []stepKind{sAp, sApTry, sApOption, sApFunc, sApTryFunc, sApOptionFunc, sFlatMap, sMap, sHListMap, sHListFlatMap}
	optSteps := []stepKind{sAp, sApOption, sApFunc, sApOptionFunc, sFlatMap, sMap, sHListMap, sHListFlatMap}
	builder{name: "try.Chain", strct: "try.MonadChain", mode: modeTry, steps: trySteps, base: sApTry,
		run: func(n int, sc *scen, ks []stepKind) outcome { return tryOut(sc, tryChainRun[n](sc, ks)) }}.checks(t)
	builder{name: "try.Applicative", strct: "try.ApplicativeFunctor", mode: modeTry, steps: trySteps[:6], base: sApTry,
		run: func(n int, sc *scen, ks []stepKind) outcome { return tryOut(sc, tryApplRun[n](sc, ks)) }}.checks(t)
	builder{name: "option.Chain", strct: "option.MonadChain", mode: modeOption, steps: optSteps, base: sApOption,
		run: func(n int, sc *scen, ks []stepKind) outcome { return optionOut(sc, optionChainRun[n](sc, ks)) }}.checks(t)
	builder{name: "option.Applicative", strct: "option.ApplicativeFunctor", mode: modeOption, steps: optSteps[:4], base: sApOption,
		run: func(n int, sc *scen, ks []stepKind) outcome { return optionOut(sc, optionApplRun[n](sc, ks)) }}.checks(t)
}

var _ = fp.Unit{}
