package c02

import (
	"testing"

	"github.com/csgura/fp"
	"github.com/csgura/fp/either"
	"github.com/csgura/fp/lazy"
	"github.com/csgura/fp/option"
	"github.com/csgura/fp/statet"
	"github.com/csgura/fp/try"
	"pgregory.net/rapid"
)

// shortG: like short, but the scenario is built by mk (own layout tweaks / extra draws).
func shortG(t *testing.T, name string, rule string, mk func(rt *rapid.T) *scen, call func(sc *scen) outcome) {
	t.Helper()
	runShort(t, name, rule, 1, true, func(rt *rapid.T) (*scen, func() outcome) {
		sc := mk(rt)
		return sc, func() outcome { return call(sc) }
	})
}

// TestMethods: the methods of fp.Try / fp.Option that take a callback.
func TestMethods(t *testing.T) {
	// ---- fp.Try ----
	short(t, modeTry, "fp.Try.Map", "VP", 1, func(sc *scen) outcome {
		return tryOut(sc, tryV(sc, 0, 1).Map(func(a int) int { sc.hit(1); return a + 1 }))
	})
	short(t, modeTry, "fp.Try.FlatMap", "VF", 1, func(sc *scen) outcome {
		return tryOut(sc, tryV(sc, 0, 1).FlatMap(func(a int) fp.Try[int] { return tryR(sc, 1, a+1) }))
	})
	short(t, modeTry, "fp.Try.Foreach", "VP", 1, func(sc *scen) outcome {
		r := tryV(sc, 0, 1)
		r.Foreach(func(int) { sc.hit(1) })
		return tryOut(sc, r)
	})
	short(t, modeTry, "fp.Try.All", "VP", 1, func(sc *scen) outcome {
		r := tryV(sc, 0, 1)
		r.All()(func(int) bool { sc.hit(1); return true })
		return tryOut(sc, r)
	})
	// ---- fp.Option ----
	short(t, modeOption, "fp.Option.Map", "VP", 1, func(sc *scen) outcome {
		return optionOut(sc, optionV(sc, 0, 1).Map(func(a int) int { sc.hit(1); return a + 1 }))
	})
	short(t, modeOption, "fp.Option.FlatMap", "VF", 1, func(sc *scen) outcome {
		return optionOut(sc, optionV(sc, 0, 1).FlatMap(func(a int) fp.Option[int] { return optionR(sc, 1, a+1) }))
	})
	short(t, modeOption, "fp.Option.Foreach", "VP", 1, func(sc *scen) outcome {
		r := optionV(sc, 0, 1)
		r.Foreach(func(int) { sc.hit(1) })
		return optionOut(sc, r)
	})
	short(t, modeOption, "fp.Option.All", "VP", 1, func(sc *scen) outcome {
		r := optionV(sc, 0, 1)
		r.All()(func(int) bool { sc.hit(1); return true })
		return optionOut(sc, r)
	})
	// the predicate "fails" by rejecting the value
	short(t, modeOption, "fp.Option.Filter", "VF", 1, func(sc *scen) outcome {
		return optionOut(sc, optionV(sc, 0, 1).Filter(func(int) bool { sc.hit(1); return !sc.fail[1] }))
	})
	short(t, modeOption, "fp.Option.FilterNot", "VF", 1, func(sc *scen) outcome {
		return optionOut(sc, optionV(sc, 0, 1).FilterNot(func(int) bool { sc.hit(1); return sc.fail[1] }))
	})
	short(t, modeOption, "fp.Option.Exists", "VF", 1, func(sc *scen) outcome {
		got := optionV(sc, 0, 1).Exists(func(int) bool { sc.hit(1); return !sc.fail[1] })
		return sc.plainOut(got == (sc.first() < 0), "Exists = %v", got)
	})
	short(t, modeOption, "fp.Option.ForAll", "VF", 1, func(sc *scen) outcome {
		// vacuously true on None
		got := optionV(sc, 0, 1).ForAll(func(int) bool { sc.hit(1); return !sc.fail[1] })
		return sc.plainOut(got == (sc.fail[0] || !sc.fail[1]), "ForAll = %v", got)
	})
	// ---- either (hand written functions with a callback) ----
	short(t, modeEither, "either.Foreach", "VP", 1, func(sc *scen) outcome {
		r := eitherV(sc, 0, 1)
		either.Foreach(r, func(int) { sc.hit(1) })
		return eitherOut(sc, r)
	})
	short(t, modeEither, "either.Exists", "VF", 1, func(sc *scen) outcome {
		got := either.Exists(eitherV(sc, 0, 1), func(int) bool { sc.hit(1); return !sc.fail[1] })
		return sc.plainOut(got == (sc.first() < 0), "Exists = %v", got)
	})
	short(t, modeEither, "either.ForAll", "VF", 1, func(sc *scen) outcome {
		got := either.ForAll(eitherV(sc, 0, 1), func(int) bool { sc.hit(1); return !sc.fail[1] })
		return sc.plainOut(got == (sc.fail[0] || !sc.fail[1]), "ForAll = %v", got)
	})
}

// TestTryExtra: hand written functions of package try with a callback, and the generated transformers.
func TestTryExtra(t *testing.T) {
	m := modeTry
	shortSeq(t, m, "try.Traverse_", "", kF, 1, func(sc *scen, n int) outcome {
		err := try.Traverse_(iterOf(ints(n)), func(x int) fp.Try[int] { return tryR(sc, x, x) })
		if err == nil {
			return outcome{ok: true}
		}
		return outcome{id: errIdent(err)}
	})
	shortG(t, "try.ComposeOption", ruleShort+"; position 0 is an Option-returning function: it fails with fp.ErrOptionEmpty", func(rt *rapid.T) *scen {
		sc := newScen(layout("FF"), m)
		sc.ident[0] = identOptEmpty
		sc.drawFails(rt)
		return sc
	}, func(sc *scen) outcome {
		f1 := func(x int) fp.Option[int] { return optionR(sc, 0, x+1) }
		f2 := func(x int) fp.Try[int] { return tryR(sc, 1, x+1) }
		return tryOut(sc, try.ComposeOption(f1, f2)(0))
	})
	// operand is an Option: None is not a failure, the function simply has nothing to be applied to
	optInner := func(lay string, fnPos int) func(rt *rapid.T) *scen {
		return func(rt *rapid.T) *scen {
			sc := newScen(layout(lay), m)
			if rapid.IntRange(0, 2).Draw(rt, "innerNone") == 0 {
				sc.never[fnPos] = true
				sc.lay[fnPos] = kP // cannot fail when it is never reached
				sc.extra = " inner=None"
			}
			sc.drawFails(rt)
			return sc
		}
	}
	ruleInner := ruleShort + "; the inner Option is None in 1/3 of the cases: then the function must not be invoked and the result is a success"
	inner := func(sc *scen, pos int, v int) fp.Option[int] {
		if sc.never[pos] {
			return option.None[int]()
		}
		return option.Some(v)
	}
	shortG(t, "try.TraverseOption", ruleInner, optInner("F", 0), func(sc *scen) outcome {
		return tryOut(sc, try.TraverseOption(inner(sc, 0, 1), func(x int) fp.Try[int] { return tryR(sc, 0, x) }))
	})
	shortG(t, "try.MapOptionT", ruleInner, optInner("VP", 1), func(sc *scen) outcome {
		return tryOut(sc, try.MapOptionT(tryV(sc, 0, inner(sc, 1, 1)), func(x int) int { sc.hit(1); return x }))
	})
	shortG(t, "try.SubFlatMapOptionT", ruleInner, optInner("VP", 1), func(sc *scen) outcome {
		return tryOut(sc, try.SubFlatMapOptionT(tryV(sc, 0, inner(sc, 1, 1)), func(x int) fp.Option[int] { sc.hit(1); return option.Some(x) }))
	})
	shortG(t, "try.TraverseOptionT", ruleInner, optInner("VF", 1), func(sc *scen) outcome {
		return tryOut(sc, try.TraverseOptionT(tryV(sc, 0, inner(sc, 1, 1)), func(x int) fp.Try[int] { return tryR(sc, 1, x) }))
	})
	shortG(t, "try.FlatMapOptionT", ruleInner, optInner("VF", 1), func(sc *scen) outcome {
		return tryOut(sc, try.FlatMapOptionT(tryV(sc, 0, inner(sc, 1, 1)), func(x int) fp.Try[fp.Option[int]] { return tryR(sc, 1, option.Some(x)) }))
	})
	shortG(t, "try.FilterOptionT", ruleInner, optInner("VP", 1), func(sc *scen) outcome {
		return tryOut(sc, try.FilterOptionT(tryV(sc, 0, inner(sc, 1, 1)), func(x int) bool { sc.hit(1); return true }))
	})
	shortG(t, "try.FoldOptionT", ruleInner, optInner("VP", 1), func(sc *scen) outcome {
		return tryOut(sc, try.FoldOptionT(tryV(sc, 0, inner(sc, 1, 1)), 0, func(z, x int) int { sc.hit(1); return z + x }))
	})
	// Seq transformers
	shortSeq(t, m, "try.MapSeqT", "V", kP, 1, func(sc *scen, n int) outcome {
		return tryOut(sc, try.MapSeqT(tryV(sc, 0, fp.Seq[int](ints(n))), func(x int) int { sc.hit(1 + x); return x }))
	})
	shortSeq(t, m, "try.SubFlatMapSeqT", "V", kP, 1, func(sc *scen, n int) outcome {
		return tryOut(sc, try.SubFlatMapSeqT(tryV(sc, 0, fp.Seq[int](ints(n))), func(x int) fp.Seq[int] { sc.hit(1 + x); return fp.Seq[int]{x, x} }))
	})
	shortSeq(t, m, "try.FilterSeqT", "V", kP, 1, func(sc *scen, n int) outcome {
		return tryOut(sc, try.FilterSeqT(tryV(sc, 0, fp.Seq[int](ints(n))), func(x int) bool { sc.hit(1 + x); return x%2 == 0 }))
	})
	shortSeq(t, m, "try.FilterNotSeqT", "V", kP, 1, func(sc *scen, n int) outcome {
		return tryOut(sc, try.FilterNotSeqT(tryV(sc, 0, fp.Seq[int](ints(n))), func(x int) bool { sc.hit(1 + x); return x%2 == 0 }))
	})
	shortSeq(t, m, "try.FoldSeqT", "V", kP, 1, func(sc *scen, n int) outcome {
		return tryOut(sc, try.FoldSeqT(tryV(sc, 0, fp.Seq[int](ints(n))), 0, func(z, x int) int { sc.hit(1 + x); return z + x }))
	})
	shortSeq(t, m, "try.ScanSeqT", "V", kP, 1, func(sc *scen, n int) outcome {
		return tryOut(sc, try.ScanSeqT(tryV(sc, 0, fp.Seq[int](ints(n))), 0, func(z, x int) int { sc.hit(1 + x); return z + x }))
	})
	// generated as Sequence ∘ Map: the function is applied to every element before the
	// results are sequenced; only the identity of the first failure is demanded.
	shortSeqOpt(t, m, "try.TraverseSeqT", "V", kF, 1, true, func(sc *scen, n int) outcome {
		return tryOut(sc, try.TraverseSeqT(tryV(sc, 0, fp.Seq[int](ints(n))), func(x int) fp.Try[int] { return tryR(sc, 1+x, x) }))
	})
	shortSeqOpt(t, m, "try.FlatMapSeqT", "V", kF, 1, true, func(sc *scen, n int) outcome {
		return tryOut(sc, try.FlatMapSeqT(tryV(sc, 0, fp.Seq[int](ints(n))), func(x int) fp.Try[fp.Seq[int]] { return tryR(sc, 1+x, fp.Seq[int]{x}) }))
	})
	// Fold / FoldRight: the function runs only on a success
	short(t, m, "try.Fold", "VP", 1, func(sc *scen) outcome {
		got := try.Fold(tryV(sc, 0, 1), 10, func(z, a int) int { sc.hit(1); return z + a })
		return foldOut(sc, got, 10, 11)
	})
	short(t, m, "try.FoldRight", "VP", 1, func(sc *scen) outcome {
		got := try.FoldRight(tryV(sc, 0, 1), 10, func(a int, z lazy.Eval[int]) lazy.Eval[int] { sc.hit(1); return lazy.Done(z.Get() + a) }).Get()
		return foldOut(sc, got, 10, 11)
	})
	short(t, modeOption, "option.Fold", "VP", 1, func(sc *scen) outcome {
		got := option.Fold(optionV(sc, 0, 1), 10, func(z, a int) int { sc.hit(1); return z + a })
		return foldOut(sc, got, 10, 11)
	})
	short(t, modeOption, "option.FoldRight", "VP", 1, func(sc *scen) outcome {
		got := option.FoldRight(optionV(sc, 0, 1), 10, func(a int, z lazy.Eval[int]) lazy.Eval[int] { sc.hit(1); return lazy.Done(z.Get() + a) }).Get()
		return foldOut(sc, got, 10, 11)
	})
}

// foldOut: Fold returns the zero on a failed operand and f(zero, v) on a success.
func foldOut(sc *scen, got, zero, folded int) outcome {
	want := folded
	if sc.fail[0] {
		want = zero
	}
	return sc.plainOut(got == want, "Fold returned %d, want %d", got, want)
}

// TestStateTExtra: hand written multi-step functions of statet_op.go (the Recover family and the
// state threading are C17's subject; here only: later steps do not run after a failure).
func TestStateTExtra(t *testing.T) {
	m := modeStateT
	short(t, m, "statet.FlatMapConst", "VV", 1, func(sc *scen) outcome {
		return statetOut(sc, statet.FlatMapConst(statetV(sc, 0, 1), statetV(sc, 1, 2)))
	})
	short1L(t, m, "statet.WithState", "F", 1, func(sc *scen) outcome {
		return statetOut(sc, statet.WithState(func(s int) fp.StateT[int, int] { return statetR(sc, 0, s) }))
	})
	short(t, m, "statet.MapT", "VF", 1, func(sc *scen) outcome {
		return statetOut(sc, statet.MapT(statetV(sc, 0, 1), func(a int) fp.Try[int] { sc.runs[1]++; return tryR(sc, 1, a) }))
	})
	short(t, m, "statet.MapWithState", "VP", 1, func(sc *scen) outcome {
		return statetOut(sc, statet.MapWithState(statetV(sc, 0, 1), func(s, a int) int { sc.hit(1); return a }))
	})
	short(t, m, "statet.MapWithStateT", "VF", 1, func(sc *scen) outcome {
		return statetOut(sc, statet.MapWithStateT(statetV(sc, 0, 1), func(s, a int) fp.Try[int] { sc.runs[1]++; return tryR(sc, 1, a) }))
	})
	// ApTry / ApOption: position 0 is the step producing the function, position 1 an already evaluated
	// Try / Option (a value, not probed). The step comes first: it runs exactly once whatever the argument
	// is, and its failure wins when both fail. (Added after a seeded change that skipped the step when
	// the argument had failed; C17 caught it, this check did not exist.)
	for _, v := range []struct {
		name string
		call func(sc *scen, fn fp.StateT[int, fp.Func1[int, int]]) fp.StateT[int, int]
	}{
		{"statet.ApTry", func(sc *scen, fn fp.StateT[int, fp.Func1[int, int]]) fp.StateT[int, int] {
			return statet.ApTry(fn, tryV(sc, 1, 2))
		}},
		{"statet.ApOption", func(sc *scen, fn fp.StateT[int, fp.Func1[int, int]]) fp.StateT[int, int] {
			return statet.ApOption(fn, optionV(sc, 1, 2))
		}},
	} {
		v := v
		runShort(t, v.name, ruleShort+"; layout VV where position 1 is an evaluated Try/Option value (not probed; a None fails with fp.ErrOptionEmpty)", 1, false, func(rt *rapid.T) (*scen, func() outcome) {
			sc := newScen(layout("VV"), m)
			sc.pr[1] = nil
			sc.drawFails(rt)
			if v.name == "statet.ApOption" {
				sc.ident[1] = identOptEmpty
			}
			return sc, func() outcome {
				fn := statetV(sc, 0, fp.Func1[int, int](func(a int) int { return a + 1 }))
				return statetOut(sc, v.call(sc, fn))
			}
		})
	}
	runShort(t, "statet.Concat", ruleShort+"; 1..9 steps", 1, true, func(rt *rapid.T) (*scen, func() outcome) {
		n := rapid.IntRange(1, 9).Draw(rt, "len")
		sc := newScen(layout(rep(kV, n)), m)
		sc.drawFails(rt)
		return sc, func() outcome {
			steps := make([]fp.StateT[int, int], n)
			for i := range steps {
				steps[i] = statetV(sc, i, i)
			}
			return statetOut(sc, statet.Concat(steps[0], steps[1:]...))
		}
	})
}
