// Command gen emits c02/family_gen_test.go: the arity-indexed short-circuit
// sub-checks of property C02 for the four packages whose monad functions are
// generated from one template in the library (try, option, either, statet),
// plus the typed step functions for the Chain/Applicative builders (try, option).
//
// Run from /verif/harness:
//
//	go run ./c02/gen
package main

import (
	"bytes"
	"fmt"
	"go/format"
	"os"
	"strings"
	"text/template"
)

type pkg struct {
	P        string // package name and adapter prefix
	Test     string // Go test function name
	Mode     string // pkgMode variable
	TA       string // explicit leading type argument ("" or "[int]")
	Mopen    string // "fp.Try[" ; M T = Mopen + T + "]"
	ProbedV  bool
	Builders bool // has Chain/Applicative builders
	// builder step methods: name -> kind of argument
	ChainSteps []step
	ApplSteps  []step
	W          float64
}

type step struct {
	Kind string // stepKind constant
	Call string // method call text; %[1]s = pos expression, uses P adapters
}

func (p pkg) M(t string) string { return p.Mopen + t + "]" }

func seq(from, to int) []int {
	r := []int{}
	for i := from; i <= to; i++ {
		r = append(r, i)
	}
	return r
}

func join(xs []string) string { return strings.Join(xs, ", ") }

func params(n int) string {
	xs := []string{}
	for i := 1; i <= n; i++ {
		xs = append(xs, fmt.Sprintf("a%d", i))
	}
	return join(xs) + " int"
}

// vals: operands at positions from..to (value of position i is i+1)
func vals(p string, from, to int) string {
	xs := []string{}
	for i := from; i <= to; i++ {
		xs = append(xs, fmt.Sprintf("%sV(sc, %d, %d)", p, i, i+1))
	}
	return join(xs)
}

func nums(from, to int) string {
	xs := []string{}
	for i := from; i <= to; i++ {
		xs = append(xs, fmt.Sprint(i))
	}
	return join(xs)
}

func apps(from, to int) string {
	s := ""
	for i := from; i <= to; i++ {
		s += fmt.Sprintf("(%d)", i)
	}
	return s
}

func intTypes(n int) string {
	xs := []string{}
	for i := 0; i < n; i++ {
		xs = append(xs, "int")
	}
	return join(xs)
}

func names(prefix string, from, to int) string {
	xs := []string{}
	for i := from; i <= to; i++ {
		xs = append(xs, fmt.Sprintf("%s%d", prefix, i))
	}
	return join(xs)
}

func rep(s string, n int) string { return strings.Repeat(s, n) }

func sfx(base string, n int) string {
	if n == 1 {
		return base
	}
	return fmt.Sprintf("%s%d", base, n)
}

// methodArity: Method1/Method2 take a function of N+1 arguments, Method3.. one of N arguments.
func methodArity(n int) int {
	if n <= 2 {
		return n + 1
	}
	return n
}

func curriedOf(n int) string {
	if n == 1 {
		return "fp.Func1[int, int](f)"
	}
	return fmt.Sprintf("curried.Func%d(f)", n)
}

func add(a, b int) int { return a + b }

const tmplText = `
// ===================================================================================
// package {{.P}}
// ===================================================================================

func {{.Test}}(t *testing.T) {
	m := {{.Mode}}
	w := float64({{printf "%g" .W}})
	{{$p := .}}{{$P := .P}}{{$TA := .TA}}

	// ---- one operand + callback, two operands -------------------------------------
	short(t, m, "{{$P}}.FlatMap", "VF", w, func(sc *scen) outcome {
		return {{$P}}Out(sc, {{$P}}.FlatMap({{vals $P 0 0}}, func(a int) {{.M "int"}} { return {{$P}}R(sc, 1, a) }))
	})
	short(t, m, "{{$P}}.Map", "VP", w, func(sc *scen) outcome {
		return {{$P}}Out(sc, {{$P}}.Map({{vals $P 0 0}}, func(a int) int { sc.hit(1); return a }))
	})
	short(t, m, "{{$P}}.Lift", "VP", w, func(sc *scen) outcome {
		return {{$P}}Out(sc, {{$P}}.Lift{{$TA}}(func(a int) int { sc.hit(1); return a })({{vals $P 0 0}}))
	})
	short(t, m, "{{$P}}.LiftM", "VF", w, func(sc *scen) outcome {
		return {{$P}}Out(sc, {{$P}}.LiftM(func(a int) {{.M "int"}} { return {{$P}}R(sc, 1, a) })({{vals $P 0 0}}))
	})
	short(t, m, "{{$P}}.Flatten", "VV", w, func(sc *scen) outcome {
		return {{$P}}Out(sc, {{$P}}.Flatten({{$P}}V(sc, 0, {{$P}}V(sc, 1, 1))))
	})
	short(t, m, "{{$P}}.Zip", "VV", w, func(sc *scen) outcome {
		return {{$P}}Out(sc, {{$P}}.Zip({{vals $P 0 1}}))
	})
	short(t, m, "{{$P}}.Zip3", "VVV", w, func(sc *scen) outcome {
		return {{$P}}Out(sc, {{$P}}.Zip3({{vals $P 0 2}}))
	})
	short(t, m, "{{$P}}.Ap", "VVP", w, func(sc *scen) outcome {
		f := func(a int) int { sc.hit(2); return a }
		return {{$P}}Out(sc, {{$P}}.Ap({{$P}}V(sc, 0, fp.Func1[int, int](f)), {{$P}}V(sc, 1, 1)))
	})
	short(t, m, "{{$P}}.ApFunc", "VFP", w, func(sc *scen) outcome {
		f := func(a int) int { sc.hit(2); return a }
		return {{$P}}Out(sc, {{$P}}.ApFunc({{$P}}V(sc, 0, fp.Func1[int, int](f)), func() {{.M "int"}} { return {{$P}}R(sc, 1, 1) }))
	})
	short(t, m, "{{$P}}.Compose", "FF", w, func(sc *scen) outcome {
		f1 := func(x int) {{.M "int"}} { return {{$P}}R(sc, 0, x+1) }
		f2 := func(x int) {{.M "int"}} { return {{$P}}R(sc, 1, x+1) }
		return {{$P}}Out(sc, {{$P}}.Compose(f1, f2)(0))
	})
	short(t, m, "{{$P}}.FlapMap", "VP", w, func(sc *scen) outcome {
		f := func(a, b int) int { sc.hit(1); return a + b }
		return {{$P}}Out(sc, {{$P}}.FlapMap(f, {{vals $P 0 0}})(2))
	})
	short(t, m, "{{$P}}.FlatFlapMap", "VF", w, func(sc *scen) outcome {
		f := func(a, b int) {{.M "int"}} { return {{$P}}R(sc, 1, a+b) }
		return {{$P}}Out(sc, {{$P}}.FlatFlapMap(f, {{vals $P 0 0}})(2))
	})
	short(t, m, "{{$P}}.With", "VP", w, func(sc *scen) outcome {
		f := func(a, b int) int { sc.hit(1); return a + b }
		return {{$P}}Out(sc, {{$P}}.With(f, {{vals $P 0 0}})(5))
	})
	short1(t, m, "{{$P}}.Replace", w, func(sc *scen) outcome {
		return {{$P}}Out(sc, {{$P}}.Replace({{vals $P 0 0}}, "x"))
	})
{{- if not .ProbedV}}
	short1(t, m, "{{$P}}.UnZip", w, func(sc *scen) outcome {
		a, b := {{$P}}.UnZip({{$P}}V(sc, 0, fp.Tuple2[int, string]{I1: 1, I2: "x"}))
		oa, ob := {{$P}}Out(sc, a), {{$P}}Out(sc, b)
		if oa != ob {
			return outcome{id: "UnZip results differ: " + oa.String() + " / " + ob.String()}
		}
		return oa
	})
{{- end}}

	// ---- sequences -----------------------------------------------------------------
	shortSeq(t, m, "{{$P}}.MapSeqLift", "V", kP, w, func(sc *scen, n int) outcome {
		return {{$P}}Out(sc, {{$P}}.MapSeqLift({{$P}}V(sc, 0, fp.Seq[int](ints(n))), func(x int) int { sc.hit(1 + x); return x }))
	})
	shortSeq(t, m, "{{$P}}.MapSliceLift", "V", kP, w, func(sc *scen, n int) outcome {
		return {{$P}}Out(sc, {{$P}}.MapSliceLift({{$P}}V(sc, 0, ints(n)), func(x int) int { sc.hit(1 + x); return x }))
	})
	shortSeq(t, m, "{{$P}}.FoldM", "", kF, w, func(sc *scen, n int) outcome {
		return {{$P}}Out(sc, {{$P}}.FoldM{{$TA}}(iterOf(ints(n)), 0, func(acc, x int) {{.M "int"}} { return {{$P}}R(sc, x, acc+x) }))
	})
	shortSeq(t, m, "{{$P}}.Traverse", "", kF, w, func(sc *scen, n int) outcome {
		return {{$P}}Out(sc, {{$P}}.Traverse{{$TA}}(iterOf(ints(n)), func(x int) {{.M "int"}} { return {{$P}}R(sc, x, x) }))
	})
	shortSeq(t, m, "{{$P}}.TraverseSeq", "", kF, w, func(sc *scen, n int) outcome {
		return {{$P}}Out(sc, {{$P}}.TraverseSeq{{$TA}}(fp.Seq[int](ints(n)), func(x int) {{.M "int"}} { return {{$P}}R(sc, x, x) }))
	})
	shortSeq(t, m, "{{$P}}.TraverseSlice", "", kF, w, func(sc *scen, n int) outcome {
		return {{$P}}Out(sc, {{$P}}.TraverseSlice{{$TA}}(ints(n), func(x int) {{.M "int"}} { return {{$P}}R(sc, x, x) }))
	})
	shortSeq(t, m, "{{$P}}.TraverseFunc", "", kF, w, func(sc *scen, n int) outcome {
		return {{$P}}Out(sc, {{$P}}.TraverseFunc{{$TA}}(func(x int) {{.M "int"}} { return {{$P}}R(sc, x, x) })(iterOf(ints(n))))
	})
	shortSeq(t, m, "{{$P}}.TraverseSeqFunc", "", kF, w, func(sc *scen, n int) outcome {
		return {{$P}}Out(sc, {{$P}}.TraverseSeqFunc{{$TA}}(func(x int) {{.M "int"}} { return {{$P}}R(sc, x, x) })(fp.Seq[int](ints(n))))
	})
	shortSeq(t, m, "{{$P}}.TraverseSliceFunc", "", kF, w, func(sc *scen, n int) outcome {
		return {{$P}}Out(sc, {{$P}}.TraverseSliceFunc{{$TA}}(func(x int) {{.M "int"}} { return {{$P}}R(sc, x, x) })(ints(n)))
	})
	shortSeq(t, m, "{{$P}}.FlatMapTraverseSeq", "V", kF, w, func(sc *scen, n int) outcome {
		return {{$P}}Out(sc, {{$P}}.FlatMapTraverseSeq({{$P}}V(sc, 0, fp.Seq[int](ints(n))), func(x int) {{.M "int"}} { return {{$P}}R(sc, 1+x, x) }))
	})
	shortSeq(t, m, "{{$P}}.FlatMapTraverseSlice", "V", kF, w, func(sc *scen, n int) outcome {
		return {{$P}}Out(sc, {{$P}}.FlatMapTraverseSlice({{$P}}V(sc, 0, ints(n)), func(x int) {{.M "int"}} { return {{$P}}R(sc, 1+x, x) }))
	})
	shortSeq(t, m, "{{$P}}.Sequence", "", kV, w, func(sc *scen, n int) outcome {
		xs := make([]{{.M "int"}}, n)
		for i := range xs {
			xs[i] = {{$P}}V(sc, i, i)
		}
		return {{$P}}Out(sc, {{$P}}.Sequence(xs))
	})
	shortSeq(t, m, "{{$P}}.SequenceIterator", "", kV, w, func(sc *scen, n int) outcome {
		xs := make([]{{.M "int"}}, n)
		for i := range xs {
			xs[i] = {{$P}}V(sc, i, i)
		}
		return {{$P}}Out(sc, {{$P}}.SequenceIterator(iterOf(xs)))
	})

	// ---- arity-indexed -------------------------------------------------------------
{{- range $n := seq 2 9}}
	short(t, m, "{{$P}}.LiftA{{$n}}", "{{rep "V" $n}}P", w, func(sc *scen) outcome {
		f := func({{params $n}}) int { sc.hit({{$n}}); return a1 }
		return {{$P}}Out(sc, {{$P}}.LiftA{{$n}}{{$TA}}(f)({{vals $P 0 (add $n -1)}}))
	})
	short(t, m, "{{$P}}.Map{{$n}}", "{{rep "V" $n}}P", w, func(sc *scen) outcome {
		f := func({{params $n}}) int { sc.hit({{$n}}); return a1 }
		return {{$P}}Out(sc, {{$P}}.Map{{$n}}({{vals $P 0 (add $n -1)}}, f))
	})
	short(t, m, "{{$P}}.LiftM{{$n}}", "{{rep "V" $n}}F", w, func(sc *scen) outcome {
		f := func({{params $n}}) {{$p.M "int"}} { return {{$P}}R(sc, {{$n}}, a1) }
		return {{$P}}Out(sc, {{$P}}.LiftM{{$n}}(f)({{vals $P 0 (add $n -1)}}))
	})
	short(t, m, "{{$P}}.FlatMap{{$n}}", "{{rep "V" $n}}F", w, func(sc *scen) outcome {
		f := func({{params $n}}) {{$p.M "int"}} { return {{$P}}R(sc, {{$n}}, a1) }
		return {{$P}}Out(sc, {{$P}}.FlatMap{{$n}}({{vals $P 0 (add $n -1)}}, f))
	})
{{- end}}
{{- range $n := seq 1 9}}
	short(t, m, "{{$P}}.{{sfx "Flap" $n}}", "VP", w, func(sc *scen) outcome {
		f := func({{params $n}}) int { sc.hit(1); return a1 }
		return {{$P}}Out(sc, {{$P}}.{{sfx "Flap" $n}}({{$P}}V(sc, 0, {{curriedOf $n}})){{apps 1 $n}})
	})
	short(t, m, "{{$P}}.Method{{$n}}", "VP", w, func(sc *scen) outcome {
		f := func({{params (methodArity $n)}}) int { sc.hit(1); return a1 }
		return {{$P}}Out(sc, {{$P}}.Method{{$n}}({{vals $P 0 0}}, f)({{nums 2 (methodArity $n)}}))
	})
	short(t, m, "{{$P}}.FlatMethod{{$n}}", "VF", w, func(sc *scen) outcome {
		f := func({{params (methodArity $n)}}) {{$p.M "int"}} { return {{$P}}R(sc, 1, a1) }
		return {{$P}}Out(sc, {{$P}}.FlatMethod{{$n}}({{vals $P 0 0}}, f)({{nums 2 (methodArity $n)}}))
	})
{{- end}}
{{- range $n := seq 2 5}}
	short(t, m, "{{$P}}.Compose{{$n}}", "{{rep "F" $n}}", w, func(sc *scen) outcome {
	{{- range $i := seq 1 $n}}
		f{{$i}} := func(x int) {{$p.M "int"}} { return {{$P}}R(sc, {{add $i -1}}, x+1) }
	{{- end}}
		return {{$P}}Out(sc, {{$P}}.Compose{{$n}}({{names "f" 1 $n}})(0))
	})
{{- end}}
}
{{if .Builders}}
// ---- {{.P}}: typed step functions of the MonadChain / ApplicativeFunctor builders ----
{{range $n := seq 1 9}}
func {{$P}}ChainStep{{$n}}[H hlist.Header[HT], HT any](c {{$P}}.MonadChain{{$n}}[H, HT, {{intTypes $n}}, int], sc *scen, pos int, k stepKind) {{if eq $n 1}}{{$p.M "int"}}{{else}}{{$P}}.MonadChain{{add $n -1}}[hlist.Cons[int, H], int, {{intTypes (add $n -1)}}, int]{{end}} {
	switch k {
{{- range $s := $p.ChainSteps}}
	case {{$s.Kind}}:
		return c.{{$s.Call}}
{{- end}}
	}
	panic("harness bug: step kind not available in package {{$P}}")
}

func {{$P}}ApplStep{{$n}}(c {{$P}}.ApplicativeFunctor{{$n}}[{{intTypes $n}}, int], sc *scen, pos int, k stepKind) {{if eq $n 1}}{{$p.M "int"}}{{else}}{{$P}}.ApplicativeFunctor{{add $n -1}}[{{intTypes (add $n -1)}}, int]{{end}} {
	switch k {
{{- range $s := $p.ApplSteps}}
	case {{$s.Kind}}:
		return c.{{$s.Call}}
{{- end}}
	}
	panic("harness bug: step kind not available in package {{$P}}")
}

func {{$P}}Chain{{$n}}(sc *scen, ks []stepKind) {{$p.M "int"}} {
	f := func({{params $n}}) int { sc.hit({{$n}}); return a1 }
	c{{$n}} := {{$P}}.Chain{{$n}}(f)
{{- range $i := seq 1 (add $n -1)}}
	c{{sub $n $i}} := {{$P}}ChainStep{{sub (add $n 1) $i}}(c{{sub (add $n 1) $i}}, sc, {{add $i -1}}, ks[{{add $i -1}}])
{{- end}}
	return {{$P}}ChainStep1(c1, sc, {{add $n -1}}, ks[{{add $n -1}}])
}

func {{$P}}Appl{{$n}}(sc *scen, ks []stepKind) {{$p.M "int"}} {
	f := func({{params $n}}) int { sc.hit({{$n}}); return a1 }
	c{{$n}} := {{$P}}.Applicative{{$n}}(f)
{{- range $i := seq 1 (add $n -1)}}
	c{{sub $n $i}} := {{$P}}ApplStep{{sub (add $n 1) $i}}(c{{sub (add $n 1) $i}}, sc, {{add $i -1}}, ks[{{add $i -1}}])
{{- end}}
	return {{$P}}ApplStep1(c1, sc, {{add $n -1}}, ks[{{add $n -1}}])
}
{{end}}
var {{$P}}ChainRun = []func(sc *scen, ks []stepKind) {{$p.M "int"}}{nil, {{names (printf "%sChain" $P) 1 9}}}
var {{$P}}ApplRun = []func(sc *scen, ks []stepKind) {{$p.M "int"}}{nil, {{names (printf "%sAppl" $P) 1 9}}}
{{end}}
`

const futureTmpl = `
// ===================================================================================
// package future: FuncN / UnitN (they do not forward their executor argument to Apply2,
// so the default executor is made synchronous through the spawn hook)
// ===================================================================================

func futureFuncChecks(t *testing.T) {
	id := func(x int) int { return x }
{{- range $n := seq 1 9}}
	panicCheck(t, "future.Func{{$n}}", true, func(b *body) (r fp.Try[int], c bool) {
		inlineSpawn(func() {
			r, c = futRes(future.Func{{$n}}(func({{params $n}}) (int, error) { return b.run() }, inlineExec{})({{nums 1 $n}}), id)
		})
		return
	})
	panicCheck(t, "future.Unit{{$n}}", true, func(b *body) (r fp.Try[int], c bool) {
		inlineSpawn(func() {
			r, c = futRes(future.Unit{{$n}}(func({{params $n}}) error { _, err := b.run(); return err }, inlineExec{})({{nums 1 $n}}), func(fp.Unit) int { return b.v })
		})
		return
	})
{{- end}}
}
`

func main() {
	funcs := template.FuncMap{
		"seq": seq, "params": params, "vals": vals, "nums": nums, "apps": apps, "intTypes": intTypes,
		"names": names, "rep": rep, "sfx": sfx, "methodArity": methodArity, "curriedOf": curriedOf, "add": add,
		"sub": func(a, b int) int { return a - b },
	}
	t := template.Must(template.New("family").Funcs(funcs).Parse(tmplText))

	tryChain := []step{
		{"sAp", "Ap(pos + 1)"},
		{"sApTry", "ApTry(tryV(sc, pos, pos+1))"},
		{"sApOption", "ApOption(optionV(sc, pos, pos+1))"},
		{"sApFunc", "ApFunc(func() int { sc.hit(pos); return pos + 1 })"},
		{"sApTryFunc", "ApTryFunc(func() fp.Try[int] { return tryR(sc, pos, pos+1) })"},
		{"sApOptionFunc", "ApOptionFunc(func() fp.Option[int] { return optionR(sc, pos, pos+1) })"},
		{"sFlatMap", "FlatMap(func(HT) fp.Try[int] { return tryR(sc, pos, pos+1) })"},
		{"sMap", "Map(func(HT) int { sc.hit(pos); return pos + 1 })"},
		{"sHListMap", "HListMap(func(H) int { sc.hit(pos); return pos + 1 })"},
		{"sHListFlatMap", "HListFlatMap(func(H) fp.Try[int] { return tryR(sc, pos, pos+1) })"},
	}
	optChain := []step{
		{"sAp", "Ap(pos + 1)"},
		{"sApOption", "ApOption(optionV(sc, pos, pos+1))"},
		{"sApFunc", "ApFunc(func() int { sc.hit(pos); return pos + 1 })"},
		{"sApOptionFunc", "ApOptionFunc(func() fp.Option[int] { return optionR(sc, pos, pos+1) })"},
		{"sFlatMap", "FlatMap(func(HT) fp.Option[int] { return optionR(sc, pos, pos+1) })"},
		{"sMap", "Map(func(HT) int { sc.hit(pos); return pos + 1 })"},
		{"sHListMap", "HListMap(func(H) int { sc.hit(pos); return pos + 1 })"},
		{"sHListFlatMap", "HListFlatMap(func(H) fp.Option[int] { return optionR(sc, pos, pos+1) })"},
	}
	pkgs := []pkg{
		{P: "try", Test: "TestTry", Mode: "modeTry", Mopen: "fp.Try[", Builders: true, ChainSteps: tryChain, ApplSteps: tryChain[:6], W: 1},
		{P: "option", Test: "TestOption", Mode: "modeOption", Mopen: "fp.Option[", Builders: true, ChainSteps: optChain, ApplSteps: optChain[:4], W: 1},
		{P: "either", Test: "TestEither", Mode: "modeEither", TA: "[int]", Mopen: "fp.Either[int, ", W: 1},
		{P: "statet", Test: "TestStateT", Mode: "modeStateT", TA: "[int]", Mopen: "fp.StateT[int, ", ProbedV: true, W: 1},
	}

	var buf bytes.Buffer
	buf.WriteString(`// Code generated by c02/gen; DO NOT EDIT.
// Regenerate from /verif/harness with:  go run ./c02/gen

package c02

import (
	"testing"

	"github.com/csgura/fp"
	"github.com/csgura/fp/curried"
	"github.com/csgura/fp/either"
	"github.com/csgura/fp/future"
	"github.com/csgura/fp/hlist"
	"github.com/csgura/fp/option"
	"github.com/csgura/fp/statet"
	"github.com/csgura/fp/try"
)
`)
	for _, p := range pkgs {
		if err := t.Execute(&buf, p); err != nil {
			fmt.Fprintln(os.Stderr, err)
			os.Exit(1)
		}
	}
	ft := template.Must(template.New("future").Funcs(funcs).Parse(futureTmpl))
	if err := ft.Execute(&buf, nil); err != nil {
		fmt.Fprintln(os.Stderr, err)
		os.Exit(1)
	}
	src, err := format.Source(buf.Bytes())
	if err != nil {
		_ = os.WriteFile("c02/family_gen_test.go.broken", buf.Bytes(), 0o644)
		fmt.Fprintln(os.Stderr, "gofmt:", err, "(raw output in c02/family_gen_test.go.broken)")
		os.Exit(1)
	}
	if err := os.WriteFile("c02/family_gen_test.go", src, 0o644); err != nil {
		fmt.Fprintln(os.Stderr, err)
		os.Exit(1)
	}
}
