package c02

import (
	"errors"
	"fmt"
	"testing"

	"github.com/csgura/fp"
	"github.com/csgura/fp/either"
	"github.com/csgura/fp/option"
	"github.com/csgura/fp/try"
	"pgregory.net/rapid"

	"verifharness/kit"
)

// rscen is one recover scenario.
//
//	state 0  the receiver is a success: Success(v) / Some(v) / Right(v) / Success(Some(v))
//	state 1  the receiver is "failed" in the sense the method reacts to: Failure(errs[e]) / None / Left(e) / Success(None)
//	state 2  (Try[Option] transformers only) outer Failure(errs[e]): must pass through
type rscen struct {
	state   int
	e, v    int
	hv      int  // value the handler / alternative provides
	hfail   bool // monadic handler / alternative is itself a failure: errs[he] / None / nil pointer
	he      int
	defined bool // *Case variants: isDefinedAt's answer

	hCalls, pCalls int
	hErrs, pErrs   []error
}

func (s *rscen) String() string {
	return fmt.Sprintf("state=%d e=%d v=%d hv=%d hfail=%v he=%d defined=%v", s.state, s.e, s.v, s.hv, s.hfail, s.he, s.defined)
}

// rres is a normalized result.
type rres struct {
	kind string // "val", "fail", "none"
	v    int
	id   string
}

func (r rres) String() string {
	switch r.kind {
	case "val":
		return fmt.Sprintf("value(%d)", r.v)
	case "fail":
		return "failure(" + r.id + ")"
	}
	return r.kind
}

func rVal(v int) rres { return rres{kind: "val", v: v} }
func rFail(err error) rres {
	return rres{kind: "fail", id: errIdent(err)}
}

func rTry(t fp.Try[int]) rres {
	if t.IsSuccess() {
		return rVal(t.Get())
	}
	return rFail(t.Failed().OrZero())
}

func rOpt(o fp.Option[int]) rres {
	if o.IsDefined() {
		return rVal(o.Get())
	}
	return rres{kind: "none"}
}

func rTryOpt(t fp.Try[fp.Option[int]]) rres {
	if t.IsSuccess() {
		return rOpt(t.Get())
	}
	return rFail(t.Failed().OrZero())
}

func rEither(e fp.Either[int, int]) rres {
	if e.IsRight() {
		return rVal(e.Get())
	}
	return rres{kind: "fail", id: fmt.Sprintf("Left(%d)", e.Left())}
}

// receivers
func (s *rscen) tryRecv() fp.Try[int] {
	if s.state == 0 {
		return try.Success(s.v)
	}
	return try.Failure[int](errs[s.e])
}

func (s *rscen) optRecv() fp.Option[int] {
	if s.state == 0 {
		return option.Some(s.v)
	}
	return option.None[int]()
}

func (s *rscen) eitherRecv() fp.Either[int, int] {
	if s.state == 0 {
		return either.Right[int](s.v)
	}
	return either.Left[int, int](s.e)
}

func (s *rscen) tryOptRecv() fp.Try[fp.Option[int]] {
	switch s.state {
	case 0:
		return try.Success(option.Some(s.v))
	case 1:
		return try.Success(option.None[int]())
	}
	return try.Failure[fp.Option[int]](errs[s.e])
}

// handlers / alternatives
func (s *rscen) hErrVal(err error) int { s.hCalls++; s.hErrs = append(s.hErrs, err); return s.hv }
func (s *rscen) hErrTry(err error) fp.Try[int] {
	s.hCalls++
	s.hErrs = append(s.hErrs, err)
	return s.altTry()
}
func (s *rscen) hErrErr(err error) error {
	s.hCalls++
	s.hErrs = append(s.hErrs, err)
	return errs[s.he]
}
func (s *rscen) pred(err error) bool    { s.pCalls++; s.pErrs = append(s.pErrs, err); return s.defined }
func (s *rscen) supVal() int            { s.hCalls++; return s.hv }
func (s *rscen) supTry() fp.Try[int]    { s.hCalls++; return s.altTry() }
func (s *rscen) supOpt() fp.Option[int] { s.hCalls++; return s.altOpt() }
func (s *rscen) altTry() fp.Try[int] {
	if s.hfail {
		return try.Failure[int](errs[s.he])
	}
	return try.Success(s.hv)
}
func (s *rscen) altOpt() fp.Option[int] {
	if s.hfail {
		return option.None[int]()
	}
	return option.Some(s.hv)
}
func (s *rscen) altPtr() *int {
	if s.hfail {
		return nil
	}
	v := s.hv
	return &v
}

type rspec struct {
	name      string
	states    int    // 2 or 3 receiver states
	handler   bool   // the alternative is a function (counted)
	takesErr  bool   // ... which receives the error
	hasPred   bool   // *Case variant
	alt       string // "val": plain value; "try": fp.Try alternative; "opt": fp.Option alternative; "zero"; "err": MapError
	failID    func(s *rscen) string
	call      func(s *rscen) rres
	noFailIDs bool // receiver failure has no identity (Option)
}

const ruleRecover = "receiver drawn success / failed (for Try[Option] transformers also outer failure), error index, value, handler value, whether a monadic handler/alternative itself fails, isDefinedAt's answer; oracle: a success passes through untouched with 0 handler and 0 isDefinedAt calls; on failure isDefinedAt (if any) is called exactly once with that very error, if it answers false the failure passes through unchanged and the handler is not invoked, otherwise the handler is invoked exactly once with that very error and its result is returned; non-trivial iff the receiver is not a success; distinct by the printed scenario"

func recoverCheck(t *testing.T, sp rspec) {
	t.Helper()
	base := "C02|" + sp.name
	if sp.states == 0 {
		sp.states = 2
	}
	kit.Check(t, sp.name+"/recover", ruleRecover, kit.Opt{}, func(rt *rapid.T, rec *kit.Rec) {
		s := &rscen{
			state:   rapid.IntRange(0, sp.states-1).Draw(rt, "state"),
			e:       rapid.IntRange(0, 4).Draw(rt, "e"),
			v:       rapid.IntRange(-3, 8).Draw(rt, "v"),
			hv:      rapid.IntRange(20, 25).Draw(rt, "hv"),
			hfail:   rapid.Bool().Draw(rt, "hfail"),
			he:      rapid.IntRange(5, 9).Draw(rt, "he"),
			defined: rapid.IntRange(0, 2).Draw(rt, "defined") != 0,
		}
		if sp.alt == "err" {
			s.hfail = true
		}
		if sp.alt == "val" || sp.alt == "zero" {
			s.hfail = false
		}
		if !sp.hasPred {
			s.defined = true
		}
		rec.Case(s.state != 0, sp.name+" "+s.String())
		rec.Label(fmt.Sprintf("state=%d", s.state))
		var got rres
		rec.Guard(rt, base, func() { got = sp.call(s) })

		recvFail := rres{kind: "fail", id: errs[s.e].Error()}
		if sp.failID != nil {
			recvFail.id = sp.failID(s)
		}
		if sp.noFailIDs {
			recvFail = rres{kind: "none"}
		}
		switch {
		case s.state == 0:
			if got != rVal(s.v) {
				rec.Failf(rt, base+"|success-untouched", "%v: a success must pass through untouched: got %v, want value(%d)", s, got, s.v)
			}
			if s.hCalls != 0 || s.pCalls != 0 {
				rec.Failf(rt, base+"|handler-on-success", "%v: receiver is a success but handler was invoked %d and isDefinedAt %d time(s)", s, s.hCalls, s.pCalls)
			}
		case s.state == 2:
			if got != recvFail {
				rec.Failf(rt, base+"|failure-passthrough", "%v: the outer failure must pass through unchanged: got %v, want %v", s, got, recvFail)
			}
			if s.hCalls != 0 || s.pCalls != 0 {
				rec.Failf(rt, base+"|handler-on-success", "%v: outer failure: handler was invoked %d and isDefinedAt %d time(s)", s, s.hCalls, s.pCalls)
			}
		default:
			if sp.hasPred {
				if s.pCalls != 1 {
					rec.Failf(rt, base+"|handler-count", "%v: isDefinedAt must be invoked exactly once on failure, was invoked %d time(s)", s, s.pCalls)
				}
				if !errors.Is(s.pErrs[0], errs[s.e]) {
					rec.Failf(rt, base+"|handler-arg", "%v: isDefinedAt received %v, want the receiver's error %v", s, s.pErrs[0], errs[s.e])
				}
				if !s.defined {
					if got != recvFail {
						rec.Failf(rt, base+"|undefined-passthrough", "%v: isDefinedAt false: the failure must pass through unchanged: got %v, want %v", s, got, recvFail)
					}
					if s.hCalls != 0 {
						rec.Failf(rt, base+"|undefined-passthrough", "%v: isDefinedAt false but the handler was invoked %d time(s)", s, s.hCalls)
					}
					return
				}
			}
			if sp.handler {
				if s.hCalls != 1 {
					rec.Failf(rt, base+"|handler-count", "%v: the handler must be invoked exactly once on failure, was invoked %d time(s)", s, s.hCalls)
				}
				if sp.takesErr && !errors.Is(s.hErrs[0], errs[s.e]) {
					rec.Failf(rt, base+"|handler-arg", "%v: the handler received %v, want the receiver's error %v", s, s.hErrs[0], errs[s.e])
				}
			}
			want := rVal(s.hv)
			switch {
			case sp.alt == "zero":
				want = rVal(0)
			case (sp.alt == "try" || sp.alt == "err") && s.hfail:
				want = rres{kind: "fail", id: errs[s.he].Error()}
			case sp.alt == "opt" && s.hfail:
				want = rres{kind: "none"}
			}
			if got != want {
				rec.Failf(rt, base+"|handled-result", "%v: on failure the handler's / alternative's result must be returned: got %v, want %v", s, got, want)
			}
		}
	})
}

func TestRecover(t *testing.T) {
	leftID := func(s *rscen) string { return fmt.Sprintf("Left(%d)", s.e) }
	specs := []rspec{
		// ---- fp.Try methods ----
		{name: "fp.Try.OrElse", alt: "val", call: func(s *rscen) rres { return rVal(s.tryRecv().OrElse(s.hv)) }},
		{name: "fp.Try.OrZero", alt: "zero", call: func(s *rscen) rres { return rVal(s.tryRecv().OrZero()) }},
		{name: "fp.Try.OrElseGet", alt: "val", handler: true, call: func(s *rscen) rres { return rVal(s.tryRecv().OrElseGet(s.supVal)) }},
		{name: "fp.Try.Or", alt: "try", handler: true, call: func(s *rscen) rres { return rTry(s.tryRecv().Or(s.supTry)) }},
		{name: "fp.Try.OrTry", alt: "try", call: func(s *rscen) rres { return rTry(s.tryRecv().OrTry(s.altTry())) }},
		{name: "fp.Try.Recover", alt: "val", handler: true, takesErr: true, call: func(s *rscen) rres { return rTry(s.tryRecv().Recover(s.hErrVal)) }},
		{name: "fp.Try.RecoverWith", alt: "try", handler: true, takesErr: true, call: func(s *rscen) rres { return rTry(s.tryRecv().RecoverWith(s.hErrTry)) }},
		{name: "fp.Try.RecoverCase", alt: "val", handler: true, takesErr: true, hasPred: true, call: func(s *rscen) rres { return rTry(s.tryRecv().RecoverCase(s.pred, s.hErrVal)) }},
		{name: "fp.Try.RecoverCaseWith", alt: "try", handler: true, takesErr: true, hasPred: true, call: func(s *rscen) rres { return rTry(s.tryRecv().RecoverCaseWith(s.pred, s.hErrTry)) }},
		{name: "fp.Try.MapError", alt: "err", handler: true, takesErr: true, call: func(s *rscen) rres { return rTry(s.tryRecv().MapError(s.hErrErr)) }},
		// ---- fp.Option methods ----
		{name: "fp.Option.OrElse", alt: "val", noFailIDs: true, call: func(s *rscen) rres { return rVal(s.optRecv().OrElse(s.hv)) }},
		{name: "fp.Option.OrZero", alt: "zero", noFailIDs: true, call: func(s *rscen) rres { return rVal(s.optRecv().OrZero()) }},
		{name: "fp.Option.OrElseGet", alt: "val", handler: true, noFailIDs: true, call: func(s *rscen) rres { return rVal(s.optRecv().OrElseGet(s.supVal)) }},
		{name: "fp.Option.Or", alt: "opt", handler: true, noFailIDs: true, call: func(s *rscen) rres { return rOpt(s.optRecv().Or(s.supOpt)) }},
		{name: "fp.Option.OrOption", alt: "opt", noFailIDs: true, call: func(s *rscen) rres { return rOpt(s.optRecv().OrOption(s.altOpt())) }},
		{name: "fp.Option.OrPtr", alt: "opt", noFailIDs: true, call: func(s *rscen) rres { return rOpt(s.optRecv().OrPtr(s.altPtr())) }},
		{name: "fp.Option.Recover", alt: "val", handler: true, noFailIDs: true, call: func(s *rscen) rres { return rOpt(s.optRecv().Recover(s.supVal)) }},
		// ---- fp.Either method and package either ----
		{name: "fp.Either.Recover", alt: "val", handler: true, failID: leftID, call: func(s *rscen) rres { return rEither(s.eitherRecv().Recover(s.supVal)) }},
		{name: "either.OrElse", alt: "val", failID: leftID, call: func(s *rscen) rres { return rVal(either.OrElse(s.eitherRecv(), s.hv)) }},
		{name: "either.OrElseGet", alt: "val", handler: true, failID: leftID, call: func(s *rscen) rres { return rVal(either.OrElseGet(s.eitherRecv(), s.supVal)) }},
		// ---- package try: Try[Option] transformer twins of the Option methods ----
		{name: "try.OrElseOptionT", states: 3, alt: "val", call: func(s *rscen) rres { return rTry(try.OrElseOptionT(s.tryOptRecv(), s.hv)) }},
		{name: "try.OrZeroOptionT", states: 3, alt: "zero", call: func(s *rscen) rres { return rTry(try.OrZeroOptionT(s.tryOptRecv())) }},
		{name: "try.OrElseGetOptionT", states: 3, alt: "val", handler: true, call: func(s *rscen) rres { return rTry(try.OrElseGetOptionT(s.tryOptRecv(), s.supVal)) }},
		{name: "try.OrOptionT", states: 3, alt: "opt", handler: true, call: func(s *rscen) rres { return rTryOpt(try.OrOptionT(s.tryOptRecv(), s.supOpt)) }},
		{name: "try.OrOptionOptionT", states: 3, alt: "opt", call: func(s *rscen) rres { return rTryOpt(try.OrOptionOptionT(s.tryOptRecv(), s.altOpt())) }},
		{name: "try.OrPtrOptionT", states: 3, alt: "opt", call: func(s *rscen) rres { return rTryOpt(try.OrPtrOptionT(s.tryOptRecv(), s.altPtr())) }},
		{name: "try.RecoverOptionT", states: 3, alt: "val", handler: true, call: func(s *rscen) rres { return rTryOpt(try.RecoverOptionT(s.tryOptRecv(), s.supVal)) }},
	}
	for _, sp := range specs {
		recoverCheck(t, sp)
	}

	// ---- shapes that do not fit the table -------------------------------------------
	kit.Check(t, "fp.Try.Failed/recover", "receiver success/failure drawn; oracle: Failed() of a failure is a success holding that very error, Failed() of a success is a failure; non-trivial iff the receiver is a failure", kit.Opt{}, func(rt *rapid.T, rec *kit.Rec) {
		fail := rapid.Bool().Draw(rt, "fail")
		e := rapid.IntRange(0, 9).Draw(rt, "e")
		v := rapid.IntRange(-3, 8).Draw(rt, "v")
		rec.Case(fail, fmt.Sprintf("fail=%v e=%d v=%d", fail, e, v))
		var got fp.Try[error]
		rec.Guard(rt, "C02|fp.Try.Failed", func() {
			if fail {
				got = try.Failure[int](errs[e]).Failed()
			} else {
				got = try.Success(v).Failed()
			}
		})
		if fail && !(got.IsSuccess() && errors.Is(got.Get(), errs[e])) {
			rec.Failf(rt, "C02|fp.Try.Failed|handled-result", "Failure(%v).Failed() = %v, want Success of that very error", errs[e], got)
		}
		if !fail && got.IsSuccess() {
			rec.Failf(rt, "C02|fp.Try.Failed|success-untouched", "Success(%d).Failed() = %v, want a failure", v, got)
		}
	})
	kit.Check(t, "fp.Try.Unapply/recover", "receiver success/failure drawn; oracle: Unapply of a success is (v, nil), of a failure (_, that very error); non-trivial iff the receiver is a failure", kit.Opt{}, func(rt *rapid.T, rec *kit.Rec) {
		fail := rapid.Bool().Draw(rt, "fail")
		e := rapid.IntRange(0, 9).Draw(rt, "e")
		v := rapid.IntRange(-3, 8).Draw(rt, "v")
		rec.Case(fail, fmt.Sprintf("fail=%v e=%d v=%d", fail, e, v))
		var gv int
		var ge error
		rec.Guard(rt, "C02|fp.Try.Unapply", func() {
			if fail {
				gv, ge = try.Failure[int](errs[e]).Unapply()
			} else {
				gv, ge = try.Success(v).Unapply()
			}
		})
		if fail && !errors.Is(ge, errs[e]) {
			rec.Failf(rt, "C02|fp.Try.Unapply|handled-result", "Failure(%v).Unapply() = (%d, %v), want that very error", errs[e], gv, ge)
		}
		if !fail && (ge != nil || gv != v) {
			rec.Failf(rt, "C02|fp.Try.Unapply|success-untouched", "Success(%d).Unapply() = (%d, %v)", v, gv, ge)
		}
	})
	kit.Check(t, "either.Fold/recover", "receiver Right(v)/Left(e) drawn; oracle: exactly the matching branch function is invoked exactly once with the payload and its result is returned; non-trivial iff the receiver is a Left", kit.Opt{}, func(rt *rapid.T, rec *kit.Rec) {
		s := &rscen{state: rapid.IntRange(0, 1).Draw(rt, "state"), e: rapid.IntRange(0, 9).Draw(rt, "e"), v: rapid.IntRange(-3, 8).Draw(rt, "v")}
		rec.Case(s.state != 0, s.String())
		var lCalls, rCalls, lArg, rArg, got int
		rec.Guard(rt, "C02|either.Fold", func() {
			got = either.Fold(s.eitherRecv(), func(l int) int { lCalls++; lArg = l; return 100 + l }, func(r int) int { rCalls++; rArg = r; return 200 + r })
		})
		if s.state == 0 {
			if lCalls != 0 || rCalls != 1 || rArg != s.v || got != 200+s.v {
				rec.Failf(rt, "C02|either.Fold|success-untouched", "%v: Right: left fn calls %d, right fn calls %d (arg %d), result %d", s, lCalls, rCalls, rArg, got)
			}
		} else if lCalls != 1 || rCalls != 0 || lArg != s.e || got != 100+s.e {
			rec.Failf(rt, "C02|either.Fold|handled-result", "%v: Left: left fn calls %d (arg %d), right fn calls %d, result %d", s, lCalls, lArg, rCalls, got)
		}
	})
}
