// Package c02 checks property C02: failure short-circuits left to right;
// panics are captured, never lost.
//
// Files:
//
//	common_test.go      scenario (layout + failing set + probes), oracle, per-package adapters
//	family_gen_test.go  GENERATED (go run ./c02/gen): one sub-check per (package, combinator, arity)
//	chain_test.go       Chain1..9 / Applicative1..9 builder sub-checks (use the generated step functions)
//	extra_test.go       hand written short-circuit sub-checks (fp.Try / fp.Option methods, try transformers, ...)
//	recover_test.go     Recover* / OrElse* / Or* pass-through and handler sub-checks
//	panic_test.go       try.Of / Call / CallUnit / future.Apply / Apply2 / FuncN panic capture
package c02

import (
	"errors"
	"fmt"
	"sort"
	"strings"
	"testing"

	"github.com/csgura/fp"
	"github.com/csgura/fp/either"
	"github.com/csgura/fp/option"
	"github.com/csgura/fp/try"
	"pgregory.net/rapid"

	"verifharness/kit"
)

func TestMain(m *testing.M) { kit.Main(m) }

// errs are the per-position sentinels: position i fails with errs[i] (identity via errors.Is).
var errs = append(append([]error{}, kit.Errs...), errors.New("errE10"), errors.New("errE11"), errors.New("errE12"))

// kind of a position of a combinator call, listed in left-to-right EVALUATION order.
type kind byte

const (
	kV kind = 'V' // operand: an already evaluated Try/Option/Either value (may fail, not "invoked"); for StateT a step (probed)
	kF kind = 'F' // user function returning a monadic value: supplier / continuation / traverse function (probed, may fail)
	kP kind = 'P' // pure user function (probed, cannot fail)
	kC kind = 'C' // plain constant argument (not probed, cannot fail)
)

const identNone = "None"
const identOptEmpty = "fp.ErrOptionEmpty"

// scen is one generated case: a layout, the set of failing positions and the probes.
type scen struct {
	lay   []kind
	fail  []bool
	ident []string // expected identity of the failure produced at position i
	ps    kit.ProbeSet
	pr    []*kit.Probe // nil for unprobed positions
	runs  []int        // StateT: how often the step returned by callback i was run
	never []bool       // function positions that are not reached even without a failure (e.g. callback over an empty inner Option)
	// probedV: operands are themselves functions (StateT steps) and therefore probed
	probedV bool
	// noIdent: failures carry no identity (Option)
	noIdent bool
	// laterNotDemanded: invocation counts of functions positioned after the failure are not demanded
	laterNotDemanded bool
	extra            string // additional descriptor text (builder step kinds, ...)
	// callback-panic variant: the function at position panicAt panics with pb's value when invoked (-1: none)
	panicAt int
	pb      *body
}

func layout(s string) []kind { return []kind(s) }

func rep(k kind, n int) string { return strings.Repeat(string(k), n) }

type pkgMode struct {
	name    string
	probedV bool
	noIdent bool
	left    bool // Either: identity is the Left payload
}

var (
	modeTry    = pkgMode{name: "try"}
	modeOption = pkgMode{name: "option", noIdent: true}
	modeEither = pkgMode{name: "either", left: true}
	modeStateT = pkgMode{name: "statet", probedV: true}
)

func newScen(lay []kind, m pkgMode) *scen {
	sc := &scen{lay: lay, fail: make([]bool, len(lay)), ident: make([]string, len(lay)), pr: make([]*kit.Probe, len(lay)), runs: make([]int, len(lay)), never: make([]bool, len(lay)), probedV: m.probedV, noIdent: m.noIdent, panicAt: -1}
	for i, k := range lay {
		switch {
		case m.noIdent:
			sc.ident[i] = identNone
		case m.left:
			sc.ident[i] = fmt.Sprintf("Left(%d)", i)
		default:
			sc.ident[i] = errs[i].Error()
		}
		if k == kF || k == kP || (k == kV && m.probedV) {
			sc.pr[i] = sc.ps.New(fmt.Sprintf("p%d", i))
		}
	}
	return sc
}

// drawFails draws the failing set: the FIRST failing position is uniform over the
// fallible positions (or none), every later fallible position fails with probability 1/3.
func (sc *scen) drawFails(rt *rapid.T) {
	var fallible []int
	for i, k := range sc.lay {
		if k == kV || k == kF {
			fallible = append(fallible, i)
		}
	}
	if len(fallible) == 0 {
		return
	}
	// value len(fallible) means "nothing fails" (rapid's IntRange is biased towards small values
	// and, for ranges containing negative numbers, gives them half of the mass)
	first := rapid.IntRange(0, len(fallible)).Draw(rt, "firstFail")
	if first == len(fallible) {
		return
	}
	sc.fail[fallible[first]] = true
	for _, p := range fallible[first+1:] {
		if rapid.IntRange(0, 2).Draw(rt, fmt.Sprintf("fail%d", p)) == 0 {
			sc.fail[p] = true
		}
	}
}

func (sc *scen) failSet() []int {
	r := []int{}
	for i, f := range sc.fail {
		if f {
			r = append(r, i)
		}
	}
	return r
}

func (sc *scen) first() int {
	for i, f := range sc.fail {
		if f {
			return i
		}
	}
	return -1
}

func (sc *scen) desc() string {
	return fmt.Sprintf("%s%s fail=%v", string(sc.lay), sc.extra, sc.failSet())
}

// nontrivial: at least one failing position that is not the last position.
func (sc *scen) nontrivial() bool {
	p := sc.first()
	return p >= 0 && p < len(sc.lay)-1
}

func (sc *scen) hit(i int) {
	if sc.pr[i] == nil {
		panic(fmt.Sprintf("harness bug: position %d (%c) has no probe", i, sc.lay[i]))
	}
	sc.pr[i].Hit()
	if i == sc.panicAt {
		sc.pb.throw()
	}
}

// drawPanic chooses the function that panics (among the probed, reachable positions) and the value.
func (sc *scen) drawPanic(rt *rapid.T) bool {
	var cands []int
	for i, pr := range sc.pr {
		if pr != nil && !sc.never[i] {
			cands = append(cands, i)
		}
	}
	if len(cands) == 0 {
		return false
	}
	sc.panicAt = rapid.SampledFrom(cands).Draw(rt, "panicAt")
	sc.pb = &body{mode: 2, pk: rapid.IntRange(0, pkCount-1).Draw(rt, "panicKind"), pi: rapid.IntRange(0, 12).Draw(rt, "pi"), ps: kit.SmallString().Draw(rt, "ps")}
	// in 2 of 3 cases nothing fails before the panicking function, so that it is reached
	if rapid.IntRange(0, 2).Draw(rt, "reach") != 0 {
		for i := 0; i < sc.panicAt; i++ {
			sc.fail[i] = false
		}
	}
	return true
}

// panicReached: the panicking function is positioned at or before the first failing position.
func (sc *scen) panicReached() bool {
	p := sc.first()
	return sc.panicAt >= 0 && (p < 0 || sc.panicAt <= p)
}

// outcome of a combinator call as seen through the package adapter.
type outcome struct {
	ok  bool
	id  string // identity of the failure
	bad string // set by sub-checks over functions that do not return a Try/Option/Either: the observed plain result is wrong
	err error  // the failure's error where there is one (Try, StateT)
}

// plainOut is for functions returning a plain value (bool, fold result): the caller has
// compared the value with what the failing set implies; the outcome is then the expected one.
func (sc *scen) plainOut(correct bool, format string, args ...any) outcome {
	if !correct {
		return outcome{bad: fmt.Sprintf(format, args...)}
	}
	p := sc.first()
	if p < 0 {
		return outcome{ok: true}
	}
	return outcome{id: sc.ident[p]}
}

func (o outcome) String() string {
	if o.ok {
		return "success"
	}
	return "failure(" + o.id + ")"
}

func errIdent(err error) string {
	if err == nil {
		return "nil-error"
	}
	for _, e := range errs {
		if errors.Is(err, e) {
			return e.Error()
		}
	}
	if errors.Is(err, fp.ErrOptionEmpty) {
		return identOptEmpty
	}
	s := err.Error()
	if len(s) > 80 {
		s = s[:80] + "…"
	}
	return "other(" + s + ")"
}

func tryOutcome[T any](m fp.Try[T]) outcome {
	if m.IsSuccess() {
		return outcome{ok: true}
	}
	err := m.Failed().OrZero()
	return outcome{id: errIdent(err), err: err}
}

// verdict is the oracle, computed from the failing set alone.
func (sc *scen) verdict(rt *rapid.T, rec *kit.Rec, base string, out outcome) {
	p := sc.first()
	rec.Label(fmt.Sprintf("failset-size=%d", len(sc.failSet())))
	if out.bad != "" {
		rec.Failf(rt, base+"|first-failure", "%s: %s", sc.desc(), out.bad)
	}
	if p < 0 {
		if !out.ok {
			rec.Failf(rt, base+"|first-failure", "%s: no position fails but the result is %v", sc.desc(), out)
		}
	} else {
		if out.ok {
			rec.Failf(rt, base+"|first-failure", "%s: position %d fails but the result is a success", sc.desc(), p)
		}
		if !sc.noIdent && out.id != sc.ident[p] {
			rec.Failf(rt, base+"|first-failure", "%s: first failing position is %d, want failure(%s), got %v", sc.desc(), p, sc.ident[p], out)
		}
	}
	sc.counts(rt, rec, base, p, "first failure")
}

// verdictPanic is the oracle of the callback-panic variant: the function at panicAt panics when invoked.
// If it is positioned after the first failing position it is never reached and the ordinary oracle applies.
// Otherwise the panic must not be lost: it propagates to the caller with the same value (nothing in the
// try/option/either/statet combinators promises to capture it) or, should a combinator capture it, the
// result must be a failure that exposes the value; functions after it never run, earlier ones exactly once.
func (sc *scen) verdictPanic(rt *rapid.T, rec *kit.Rec, base string, out outcome, pv any, escaped bool) {
	if !sc.panicReached() {
		if escaped {
			rec.Failf(rt, base+"|later-fn-invoked", "%s: first failure at position %d, yet the function at position %d was invoked (it panicked: %v)", sc.desc(), sc.first(), sc.panicAt, pv)
		}
		sc.verdict(rt, rec, base, out)
		return
	}
	rec.Label("panic-" + pkNames[sc.pb.pk])
	want := sc.pb.thrown()
	if escaped {
		if !samePanic(pv, want) {
			rec.Failf(rt, base+"|panic-value", "%s: the function at position %d panicked with %#v (%T) but the caller observed the panic value %#v (%T)", sc.desc(), sc.panicAt, want, want, pv, pv)
		}
	} else {
		exposed := false
		var pe interface{ Panic() any }
		if !out.ok && out.err != nil {
			if errors.As(out.err, &pe) {
				exposed = samePanic(pe.Panic(), want)
			}
			if we, ok := want.(error); ok && !exposed {
				exposed = errors.Is(out.err, we)
			}
		}
		if !exposed {
			rec.Failf(rt, base+"|panic-lost", "%s: the function at position %d panicked with %#v (%T); the panic neither reached the caller nor is it exposed by the result %v", sc.desc(), sc.panicAt, want, want, out)
		}
	}
	sc.counts(rt, rec, base, sc.panicAt, "panic")
}

// counts checks the probes against the stop position p (-1: nothing stops the evaluation).
func (sc *scen) counts(rt *rapid.T, rec *kit.Rec, base string, p int, why string) {
	type hitT struct{ pos, ord int }
	var hits []hitT
	for i, pr := range sc.pr {
		if pr == nil {
			continue
		}
		if sc.never[i] {
			if pr.Calls != 0 {
				rec.Failf(rt, base+"|fn-invoked-unexpectedly", "%s: the function at position %d has nothing to be applied to but was invoked %d time(s)", sc.desc(), i, pr.Calls)
			}
			continue
		}
		if p >= 0 && i > p {
			if pr.Calls != 0 && !sc.laterNotDemanded {
				rec.Failf(rt, base+"|later-fn-invoked", "%s: %s at position %d, but the function at position %d (%c) was invoked %d time(s)", sc.desc(), why, p, i, sc.lay[i], pr.Calls)
			}
			continue
		}
		if pr.Calls != 1 {
			rec.Failf(rt, base+"|earlier-fn-count", "%s: %s at position %d; the function at position %d (%c) must be invoked exactly once, was invoked %d time(s)", sc.desc(), why, p, i, sc.lay[i], pr.Calls)
		}
		if sc.probedV && sc.lay[i] == kF && sc.runs[i] != 1 && !(i == sc.panicAt && sc.panicReached()) {
			rec.Failf(rt, base+"|earlier-fn-count", "%s: the step returned by the function at position %d must be run exactly once, was run %d time(s)", sc.desc(), i, sc.runs[i])
		}
		hits = append(hits, hitT{i, pr.Order[0]})
	}
	if !sort.SliceIsSorted(hits, func(a, b int) bool { return hits[a].ord < hits[b].ord }) {
		rec.Failf(rt, base+"|order", "%s: functions were not invoked in positional order: (position,sequence) = %v", sc.desc(), hits)
	}
}

const ruleShort = "a layout of positions in evaluation order (V operand, F fallible function, P pure function, C constant) and a rapid-drawn SET of failing positions (first failing position uniform, later ones with p=1/3); operand i fails with its own sentinel; oracle from the failing set alone: result = failure of the minimal failing position with that sentinel, probes before it hit exactly once, after it never, in positional order; non-trivial iff >= 1 failing position that is not the last position; distinct by (combinator, arity, failing set)"

const rulePanicCb = "the same layouts and failing sets as the short-circuit sub-check; additionally ONE function position (supplier / continuation / traverse function / pure callback / StateT step) is drawn that panics when invoked (in 2 of 3 cases the failing positions before it are cleared so that it is reached), with a drawn value (string, errors, int, struct, pointer, genuine runtime errors); oracle: if it is positioned after the first failing position it is never invoked and the ordinary oracle applies; otherwise the panic is not lost (the caller observes the same value, or the result is a failure exposing it), functions before it ran exactly once, functions after it never; non-trivial iff the panicking function is reached; distinct by (combinator, arity, failing set, panicking position, kind of value)"

// runShort registers the sub-checks of one combinator: <name>/short-circuit and, if the layout can
// contain a function and withPanic is set, <name>/callback-panic. mk draws the scenario and returns
// it together with the thunk that performs the library call(s).
func runShort(t *testing.T, name, rule string, weight float64, withPanic bool, mk func(rt *rapid.T) (*scen, func() outcome)) {
	t.Helper()
	base := "C02|" + name
	kit.Check(t, name+"/short-circuit", rule, kit.Opt{Weight: weight}, func(rt *rapid.T, rec *kit.Rec) {
		sc, call := mk(rt)
		nt := sc.nontrivial()
		if len(sc.lay) == 1 {
			nt = sc.first() >= 0 // single position: non-trivial iff it fails
		}
		rec.Case(nt, name+" "+sc.desc())
		var out outcome
		rec.Guard(rt, base, func() { out = call() })
		sc.verdict(rt, rec, base, out)
	})
	if !withPanic {
		return
	}
	kit.Check(t, name+"/callback-panic", rulePanicCb, kit.Opt{Weight: weight * 0.5}, func(rt *rapid.T, rec *kit.Rec) {
		sc, call := mk(rt)
		if !sc.drawPanic(rt) {
			// this draw of the layout has no function at all (e.g. empty sequence): ordinary case
			rec.Case(false, name+" "+sc.desc()+" nofn")
			var out outcome
			rec.Guard(rt, base, func() { out = call() })
			sc.verdict(rt, rec, base, out)
			return
		}
		rec.Case(sc.panicReached(), fmt.Sprintf("%s %s panicAt=%d %s", name, sc.desc(), sc.panicAt, pkNames[sc.pb.pk]))
		var out outcome
		pv, escaped := kit.Catch(func() { out = call() })
		if fe, ok := pv.(kit.FuelExhausted); ok {
			panic(fe)
		}
		sc.verdictPanic(rt, rec, base, out, pv, escaped)
	})
}

func hasFn(lay string, m pkgMode) bool {
	for _, k := range lay {
		if kind(k) == kF || kind(k) == kP || (kind(k) == kV && m.probedV) {
			return true
		}
	}
	return false
}

// short runs the sub-checks of one combinator with a fixed layout. call performs the library call(s) and returns the outcome.
func short(t *testing.T, m pkgMode, name string, lay string, weight float64, call func(sc *scen) outcome) {
	t.Helper()
	runShort(t, name, ruleShort, weight, hasFn(lay, m), func(rt *rapid.T) (*scen, func() outcome) {
		sc := newScen(layout(lay), m)
		sc.drawFails(rt)
		return sc, func() outcome { return call(sc) }
	})
}

// short1 is for single-operand functions without a callback (Replace, UnZip): outside the
// ">= 2 operands or a callback" domain, kept because they are free: the operand's own
// error must come out unchanged. Own non-trivial rule: the operand fails.
func short1(t *testing.T, m pkgMode, name string, weight float64, call func(sc *scen) outcome) {
	t.Helper()
	short1L(t, m, name, "V", weight, call)
}

const ruleSingle = "single position (operand V or fallible function F), fails or not (drawn); oracle: result fails iff the position fails and carries its own sentinel, a function is invoked exactly once; non-trivial iff the position fails; distinct by failing set"

// short1L: single-position layout (one operand, or one fallible function).
func short1L(t *testing.T, m pkgMode, name string, lay string, weight float64, call func(sc *scen) outcome) {
	t.Helper()
	runShort(t, name, ruleSingle, weight, hasFn(lay, m), func(rt *rapid.T) (*scen, func() outcome) {
		sc := newScen(layout(lay), m)
		sc.drawFails(rt)
		return sc, func() outcome { return call(sc) }
	})
}

// shortSeq is short for combinators over sequences: the layout is prefix + body*len with len drawn 0..8.
func shortSeq(t *testing.T, m pkgMode, name string, prefix string, body kind, weight float64, call func(sc *scen, n int) outcome) {
	t.Helper()
	shortSeqOpt(t, m, name, prefix, body, weight, false, call)
}

func shortSeqOpt(t *testing.T, m pkgMode, name string, prefix string, body kind, weight float64, laterNotDemanded bool, call func(sc *scen, n int) outcome) {
	t.Helper()
	rule := ruleShort + "; sequence length drawn 0..8"
	if laterNotDemanded {
		rule += "; invocation of functions positioned after the failure is NOT demanded here (see check.json assumptions)"
	}
	withPanic := !laterNotDemanded && hasFn(prefix+string(body), m)
	runShort(t, name, rule, weight, withPanic, func(rt *rapid.T) (*scen, func() outcome) {
		n := rapid.IntRange(0, 8).Draw(rt, "len")
		sc := newScen(layout(prefix+rep(body, n)), m)
		sc.laterNotDemanded = laterNotDemanded
		sc.extra = fmt.Sprintf(" len=%d", n)
		sc.drawFails(rt)
		return sc, func() outcome { return call(sc, n) }
	})
}

// ---- adapters: try ----------------------------------------------------------------

// tryV is the operand at position i.
func tryV[T any](sc *scen, i int, v T) fp.Try[T] {
	if sc.fail[i] {
		return try.Failure[T](errs[i])
	}
	return try.Success(v)
}

// tryR is what the user function at position i returns (the function has been invoked).
func tryR[T any](sc *scen, i int, v T) fp.Try[T] {
	sc.hit(i)
	return tryV(sc, i, v)
}

func tryOut[T any](sc *scen, m fp.Try[T]) outcome { return tryOutcome(m) }

// ---- adapters: option -------------------------------------------------------------

func optionV[T any](sc *scen, i int, v T) fp.Option[T] {
	if sc.fail[i] {
		return option.None[T]()
	}
	return option.Some(v)
}

func optionR[T any](sc *scen, i int, v T) fp.Option[T] {
	sc.hit(i)
	return optionV(sc, i, v)
}

func optionOut[T any](sc *scen, m fp.Option[T]) outcome {
	if m.IsDefined() {
		return outcome{ok: true}
	}
	return outcome{id: identNone}
}

// ---- adapters: either (Left payload = position) -----------------------------------

func eitherV[T any](sc *scen, i int, v T) fp.Either[int, T] {
	if sc.fail[i] {
		return either.Left[int, T](i)
	}
	return either.Right[int](v)
}

func eitherR[T any](sc *scen, i int, v T) fp.Either[int, T] {
	sc.hit(i)
	return eitherV(sc, i, v)
}

func eitherOut[T any](sc *scen, m fp.Either[int, T]) outcome {
	if m.IsRight() {
		return outcome{ok: true}
	}
	return outcome{id: fmt.Sprintf("Left(%d)", m.Left())}
}

// ---- adapters: statet (state int counts executed steps) ----------------------------

// statetV: operands of StateT combinators are steps, i.e. functions: probed when run.
func statetV[T any](sc *scen, i int, v T) fp.StateT[int, T] {
	return func(s int) (fp.Try[T], int) {
		sc.hit(i)
		return tryV(sc, i, v), s + 1
	}
}

// statetR: the callback is probed when invoked; the step it returns counts its runs.
func statetR[T any](sc *scen, i int, v T) fp.StateT[int, T] {
	sc.hit(i)
	return func(s int) (fp.Try[T], int) {
		sc.runs[i]++
		return tryV(sc, i, v), s + 1
	}
}

// statetOut runs the program. A StateT is a value: it is then run a second time, and the second run must end
// the same way and invoke exactly the same functions as often as the first (a program that drains a one-shot
// iterator while it RUNS gives its later elements to the second run: functions positioned after the failure
// are then invoked). The probes are put back to the first run's counts before the verdict looks at them.
func statetOut[T any](sc *scen, m fp.StateT[int, T]) outcome {
	r, _ := m.Run(0)
	out := tryOutcome(r)
	if sc.panicAt >= 0 {
		return out // callback-panic variant: the first run already ended in the panic
	}
	calls := make([]int, len(sc.pr))
	orders := make([]int, len(sc.pr))
	for i, pr := range sc.pr {
		if pr != nil {
			calls[i], orders[i] = pr.Calls, len(pr.Order)
		}
	}
	runs := append([]int{}, sc.runs...)
	r2, _ := m.Run(0)
	out2 := tryOutcome(r2)
	bad := ""
	if out2.ok != out.ok || out2.id != out.id {
		bad = fmt.Sprintf("the SAME StateT value run a second time ended differently: first run %v, second run %v", out, out2)
	}
	for i, pr := range sc.pr {
		if pr == nil {
			continue
		}
		// a function called while the program was BUILT (Compose(f1, f2)(0) calls f1 at once) is not called
		// again by a run; what a second run may never do is call more than the first, or call a function
		// positioned after the first failing position
		if delta := pr.Calls - calls[i]; bad == "" && (delta > calls[i] || (sc.first() >= 0 && i > sc.first() && delta != 0)) {
			bad = fmt.Sprintf("the SAME StateT value run a second time invoked the function at position %d (%c) %d time(s), the first run (and the construction) %d time(s); first failing position %d", i, sc.lay[i], delta, calls[i], sc.first())
		}
		pr.Calls, pr.Order = calls[i], pr.Order[:orders[i]]
	}
	for i := range sc.runs {
		if bad == "" && sc.runs[i] > 2*runs[i] {
			bad = fmt.Sprintf("the SAME StateT value run a second time ran the step of position %d %d time(s), the first run %d time(s)", i, sc.runs[i]-runs[i], runs[i])
		}
		sc.runs[i] = runs[i]
	}
	if bad != "" {
		return outcome{ok: out.ok, id: out.id, err: out.err, bad: bad}
	}
	return out
}

// ---- small helpers ------------------------------------------------------------------

func ints(n int) []int {
	r := make([]int, n)
	for i := range r {
		r[i] = i
	}
	return r
}

func iterOf[T any](xs []T) fp.Iterator[T] {
	i := 0
	return fp.MakeIterator(func() bool { return i < len(xs) }, func() T {
		v := xs[i]
		i++
		return v
	})
}
