package c16

import (
	"fmt"
	"reflect"
	"runtime"
	"sync"
	"sync/atomic"
	"testing"

	"github.com/csgura/fp"
	"github.com/csgura/fp/lazy"
	"github.com/csgura/fp/list"
	"github.com/csgura/fp/option"
	"pgregory.net/rapid"

	"verifharness/kit"
)

// ---------------------------------------------------------------------------------
// RUN-ONCE. Every instance of a deferred thunk (lazy.Call, lazy.TailCall*, lazy.FuncN,
// lazy.Memoize, fp.Memoize, head/tail thunks of fp.MakeList cells) carries an
// execution counter. After the result has been requested repeatedly (sequential
// sub-checks) or from G goroutines at once (…-concurrent sub-checks) every counter
// must be <= 1 and every request must have produced the same, correct value.
// Plain continuations handed to Map / FlatMap / Map2 are NOT counted: nothing is
// promised for them.
// ---------------------------------------------------------------------------------

// parallel runs f(0..G-1) on G goroutines released together by a barrier and joins
// them all. Panics are caught per goroutine.
func parallel(G int, f func(g int)) (panics []any) {
	panics = make([]any, G)
	var ready, done sync.WaitGroup
	start := make(chan struct{})
	ready.Add(G)
	done.Add(G)
	for g := 0; g < G; g++ {
		go func(g int) {
			defer done.Done()
			defer func() {
				if p := recover(); p != nil {
					panics[g] = p
				}
			}()
			ready.Done()
			<-start
			f(g)
		}(g)
	}
	ready.Wait()
	close(start)
	done.Wait()
	return panics
}

func firstPanic(ps []any) (int, any) {
	for i, p := range ps {
		if p != nil {
			return i, p
		}
	}
	return -1, nil
}

// ---- requests on a shared Eval -----------------------------------------------------

var reqName = []string{"Get", "Run", "Resume-loop", "e.Map(f).Get", "lazy.FlatMap(e,Done∘g).Get", "Map2(e,e,f2).Get", "e.FlatMap(v=>Call(v*2)).Get"}

func request(op int, e lazy.Eval[int], c *ctx) int {
	switch op {
	case 0, 1, 2:
		return runEval(op, e)
	case 3:
		return e.Map(func(x int) int { return x*5 + 1 }).Get()
	case 4:
		return lazy.FlatMap(e, func(v int) lazy.Eval[int] { return lazy.Done(v - 9) }).Get()
	case 5:
		return lazy.Map2(e, e, func(a, b int) int { return f2(a, b, 3) }).Get()
	default:
		return e.FlatMap(func(v int) lazy.Eval[int] {
			hit := c.deferred(-1)
			return lazy.Call(func() int { hit(); return v * 2 })
		}).Get()
	}
}

func requestWant(op int, v int) int {
	switch op {
	case 0, 1, 2:
		return v
	case 3:
		return v*5 + 1
	case 4:
		return v - 9
	case 5:
		return f2(v, v, 3)
	default:
		return v * 2
	}
}

func showReqs(ops []int) string {
	s := "["
	for i, o := range ops {
		if i > 0 {
			s += ", "
		}
		s += reqName[o]
	}
	return s + "]"
}

// onceEval: one shared Eval built from a generated program; requests drawn.
func onceEval(t *testing.T, name, what string, weight float64, mk func(g *gen) *node) {
	t.Helper()
	sig := "C16|" + name
	kit.Check(t, name+"/once", what+"; the SAME Eval value receives 2..6 sequential requests (Get, lazy.Run, manual Resume loop, and Get on e.Map / lazy.FlatMap / Map2(e,e) / e.FlatMap derived from it); oracle: every deferred-thunk instance ran <= 1 times and every request returns the strict value; non-trivial iff >= 1 deferred thunk is evaluated; distinct by (program, requests)",
		kit.Opt{Weight: weight}, func(rt *rapid.T, rec *kit.Rec) {
			g := &gen{rt: rt, share: true}
			n := mk(g)
			ops := rapid.SliceOfN(rapid.IntRange(0, len(reqName)-1), 2, 6).Draw(rt, "requests")
			w0 := &walker{}
			v, _ := w0.walk(n, nil, nil)
			rec.Case(w0.ndeferred > 0, showReqs(ops)+" on "+n.String())
			rec.Label(fmt.Sprintf("requests:%d", len(ops)))
			c := &ctx{}
			var e lazy.Eval[int]
			rec.Guard(rt, sig+"|once", func() { e = c.build(n, nil, nil) })
			for i, op := range ops {
				var got int
				rec.Guard(rt, sig+"|once", func() { got = request(op, e, c) })
				if want := requestWant(op, v); got != want {
					rec.Failf(rt, sig+"|once-value", "request %d (%s) on the shared Eval %s returned %d, want %d", i, reqName[op], n, got, want)
				}
				if msg, bad := c.overrun(); bad {
					rec.Failf(rt, sig+"|once", "%s after requests %s on the shared Eval %s", msg, showReqs(ops[:i+1]), n)
				}
			}
		})
	kit.Check(t, name+"/once-concurrent", what+"; G in 2..16 goroutines, released together, each send one request (as in /once) to the SAME Eval value; thunks yield the processor 0..20 times to widen overlap (never decides); oracle: counters only — every deferred-thunk instance ran <= 1 times, every goroutine got the strict value, no panic; all goroutines are joined; non-trivial iff G >= 4 and >= 1 deferred thunk is evaluated; distinct by (program, requests, yields)",
		kit.Opt{Weight: weight * 0.5}, func(rt *rapid.T, rec *kit.Rec) {
			g := &gen{rt: rt, share: true}
			n := mk(g)
			G := rapid.IntRange(2, 16).Draw(rt, "G")
			ops := rapid.SliceOfN(rapid.IntRange(0, len(reqName)-1), G, G).Draw(rt, "requests")
			yields := rapid.IntRange(0, 20).Draw(rt, "yields")
			w0 := &walker{}
			v, _ := w0.walk(n, nil, nil)
			rec.Case(G >= 4 && w0.ndeferred > 0, fmt.Sprintf("G=%d yields=%d %s on %s", G, yields, showReqs(ops), n))
			rec.Label(fmt.Sprintf("G:%s", bucket(G)))
			c := &ctx{yields: yields}
			var e lazy.Eval[int]
			rec.Guard(rt, sig+"|once-concurrent", func() { e = c.build(n, nil, nil) })
			got := make([]int, G)
			ps := parallel(G, func(i int) { got[i] = request(ops[i], e, c) })
			if i, p := firstPanic(ps); p != nil {
				rec.Failf(rt, sig+"|once-concurrent|panic", "goroutine %d (%s) panicked: %v; shared Eval %s", i, reqName[ops[i]], p, n)
			}
			if msg, bad := c.overrun(); bad {
				rec.Failf(rt, sig+"|once-concurrent", "%s after %d concurrent requests %s on the shared Eval %s", msg, G, showReqs(ops), n)
			}
			for i := range got {
				if want := requestWant(ops[i], v); got[i] != want {
					rec.Failf(rt, sig+"|once-concurrent-value", "goroutine %d (%s) got %d, want %d; shared Eval %s", i, reqName[ops[i]], got[i], want, n)
				}
			}
		})
}

func TestOnce(t *testing.T) {
	for _, s := range []struct {
		name string
		root kind
	}{{"lazy.Call", kCall}, {"lazy.TailCall", kTail}, {"lazy.TailCall1", kTail1}, {"lazy.TailCall2", kTail2}, {"lazy.TailCall3", kTail3},
		{"lazy.Func1", kFunc1}, {"lazy.Func2", kFunc2}, {"lazy.Func3", kFunc3}} {
		s := s
		onceEval(t, s.name, "program with root "+kindName[s.root]+" (sub-program <= 5 nodes, may share deferred sub-programs via Let/Ref)", 0.5, func(g *gen) *node {
			return g.rooted(s.root, rapid.IntRange(1, 6).Draw(g.rt, "size"), 0, 0)
		})
	}
	onceEval(t, "tree", fmt.Sprintf("composite program DAG of 1..%d nodes (all constructors; Let/Ref make one Eval value occur several times)", kit.Pick(40, 200)), 1, func(g *gen) *node {
		return g.tree(drawSize(g.rt, kit.Pick(40, 200)), 0, 0)
	})

	// ---- bare memoisers -------------------------------------------------------------
	type memo struct {
		name string
		mk   func(f func() int) func() int
	}
	for _, m := range []memo{
		{"lazy.Memoize", func(f func() int) func() int { return lazy.Memoize(f) }},
		{"fp.Memoize", func(f func() int) func() int { mf := fp.Memoize(f); return mf.Apply }},
		{"fp.Memoize(Unit)", func(f func() int) func() int { mf := fp.Memoize(f); return func() int { return mf(fp.Unit{}) } }},
	} {
		m := m
		sig := "C16|" + m.name
		kit.Check(t, m.name+"/once", "memoised func() int whose body returns base+1000*(number of executions so far); called 2..8 times sequentially; oracle: body executed <= 1 times, every call returns base; every case non-trivial; distinct by (base, calls)",
			kit.Opt{Weight: 0.5}, func(rt *rapid.T, rec *kit.Rec) {
				base := rapid.IntRange(-3, 8).Draw(rt, "base")
				R := rapid.IntRange(2, 8).Draw(rt, "calls")
				rec.Case(true, fmt.Sprintf("base=%d calls=%d", base, R))
				var cnt atomic.Int32
				var mf func() int
				rec.Guard(rt, sig+"|once", func() { mf = m.mk(func() int { k := cnt.Add(1); return base + 1000*int(k-1) }) })
				if cnt.Load() != 0 {
					rec.Failf(rt, sig+"|deferred", "the body ran %d times at construction, before the first call", cnt.Load())
				}
				for i := 0; i < R; i++ {
					var got int
					rec.Guard(rt, sig+"|once", func() { got = mf() })
					if cnt.Load() > 1 {
						rec.Failf(rt, sig+"|once", "body executed %d times after %d sequential calls", cnt.Load(), i+1)
					}
					if got != base {
						rec.Failf(rt, sig+"|once-value", "call %d returned %d, want %d", i, got, base)
					}
				}
			})
		kit.Check(t, m.name+"/once-concurrent", "memoised func() int (body returns base+1000*(executions so far), yields 0..20 times); G in 2..16 goroutines released together call it 1..3 times each; oracle: counters only — body executed <= 1 times, every call returned base; non-trivial iff G >= 4; distinct by (base, G, calls, yields)",
			kit.Opt{Weight: 0.25}, func(rt *rapid.T, rec *kit.Rec) {
				base := rapid.IntRange(-3, 8).Draw(rt, "base")
				G := rapid.IntRange(2, 16).Draw(rt, "G")
				R := rapid.IntRange(1, 3).Draw(rt, "calls")
				yields := rapid.IntRange(0, 20).Draw(rt, "yields")
				rec.Case(G >= 4, fmt.Sprintf("base=%d G=%d calls=%d yields=%d", base, G, R, yields))
				var cnt atomic.Int32
				var mf func() int
				rec.Guard(rt, sig+"|once-concurrent", func() {
					mf = m.mk(func() int {
						k := cnt.Add(1)
						for i := 0; i < yields; i++ {
							runtime.Gosched()
						}
						return base + 1000*int(k-1)
					})
				})
				got := make([][]int, G)
				ps := parallel(G, func(g int) {
					for i := 0; i < R; i++ {
						got[g] = append(got[g], mf())
					}
				})
				if i, p := firstPanic(ps); p != nil {
					rec.Failf(rt, sig+"|once-concurrent|panic", "goroutine %d panicked: %v", i, p)
				}
				if cnt.Load() > 1 {
					rec.Failf(rt, sig+"|once-concurrent", "body executed %d times under %d concurrent callers", cnt.Load(), G)
				}
				for g := range got {
					for i, v := range got[g] {
						if v != base {
							rec.Failf(rt, sig+"|once-concurrent-value", "goroutine %d call %d returned %d, want %d (all results %v)", g, i, v, base, got)
						}
					}
				}
			})
		// the error path: the body panics when it runs. It has been executed all the same - "at most once"
		// holds for a body that fails exactly as for one that returns (what later calls return or whether they
		// panic again is not promised and not looked at).
		kit.Check(t, m.name+"/once-after-panic", "memoised func() int whose body panics on its first execution (and would return on a later one); called 2..6 times sequentially, every call recovered, then from G in 0..8 goroutines at once; oracle: counters only - the body executed <= 1 times; every case non-trivial; distinct by (calls, G)",
			kit.Opt{Weight: 0.25}, func(rt *rapid.T, rec *kit.Rec) {
				R := rapid.IntRange(2, 6).Draw(rt, "calls")
				G := rapid.IntRange(0, 8).Draw(rt, "G")
				rec.Case(true, fmt.Sprintf("calls=%d G=%d", R, G))
				var cnt atomic.Int32
				mf := m.mk(func() int {
					if cnt.Add(1) == 1 {
						panic("boom: the memoised body fails")
					}
					return 7
				})
				call := func() {
					defer func() { _ = recover() }()
					mf()
				}
				for i := 0; i < R; i++ {
					call()
					if cnt.Load() > 1 {
						rec.Failf(rt, sig+"|once-after-panic", "body executed %d times after %d sequential calls, the first of which panicked", cnt.Load(), i+1)
					}
				}
				if G > 0 {
					parallel(G, func(int) { call() })
					if cnt.Load() > 1 {
						rec.Failf(rt, sig+"|once-after-panic", "body executed %d times: it panicked on its first execution and was then requested by %d goroutines", cnt.Load(), G)
					}
				}
			})
	}

	listOnce(t)
}

// ---- memoised list cells -------------------------------------------------------------

// traversal kinds over an fp.List[int]; limit bounds the number of cells visited
// (needed for infinite lists; kinds 0,1,4 are only used on finite lists).
var travName = []string{"ToSeq", "Foreach", "IsEmpty/Head/Tail walk", "NonEmpty/Unapply walk", "list.Fold", "Head×3 of first cell", "Tail-first walk (heads read afterwards, last cell first)"}

func traverse(kind int, l fp.List[int], limit int) []int {
	out := []int{}
	switch kind {
	case 0:
		return l.ToSeq()
	case 1:
		l.Foreach(func(v int) { out = append(out, v) })
	case 2:
		for i := 0; i < limit && !l.IsEmpty(); i++ {
			out = append(out, l.Head())
			l = l.Tail()
		}
	case 3:
		for i := 0; i < limit && l.NonEmpty(); i++ {
			var h int
			h, l = l.Unapply()
			out = append(out, h)
		}
	case 4:
		return list.Fold(l, out, func(acc []int, v int) []int { return append(acc, v) })
	case 6:
		// follow Tail() limit times WITHOUT asking a cell for its head or emptiness first, then read the
		// heads of the cells that must exist, the last one first (the caller bounds limit by the length)
		cells := []fp.List[int]{l}
		for i := 0; i < limit; i++ {
			cells = append(cells, cells[i].Tail())
		}
		hs := make([]int, limit)
		for i := limit - 1; i >= 0; i-- {
			hs[i] = cells[i].Head()
		}
		return hs
	default:
		for i := 0; i < 3; i++ {
			if l.NonEmpty() {
				out = append(out[:0], l.Head())
			}
		}
	}
	return out
}

func travWant(kind int, xs []int, limit int) []int {
	if kind == 5 {
		if len(xs) == 0 {
			return []int{}
		}
		return []int{xs[0]}
	}
	if (kind == 2 || kind == 3 || kind == 6) && limit < len(xs) {
		return append([]int{}, xs[:limit]...)
	}
	return append([]int{}, xs...)
}

func showTravs(ks []int) string {
	s := "["
	for i, k := range ks {
		if i > 0 {
			s += ", "
		}
		s += travName[k]
	}
	return s + "]"
}

// counters per position, safe for concurrent use.
type posCount struct{ n []atomic.Int32 }

func newPosCount(k int) *posCount { return &posCount{n: make([]atomic.Int32, k)} }

func (p *posCount) hit(i, yields int) {
	if i >= 0 && i < len(p.n) {
		p.n[i].Add(1)
	}
	for y := 0; y < yields; y++ {
		runtime.Gosched()
	}
}

func (p *posCount) over() (int, int32, bool) {
	for i := range p.n {
		if k := p.n[i].Load(); k > 1 {
			return i, k, true
		}
	}
	return 0, 0, false
}

// listSubject builds a lazily evaluated list over xs whose user-supplied thunks /
// functions count their executions per position.
type listSubject struct {
	name string
	what string
	// finite reports whether whole-list traversals terminate
	mk func(xs []int, yields int) (l fp.List[int], counters map[string]*posCount, finite bool)
}

var listSubjects = []listSubject{
	{"fp.MakeList", "chain of fp.MakeList cells over xs (head thunk and tail thunk of every cell counted, including the terminating empty cell)",
		func(xs []int, yields int) (fp.List[int], map[string]*posCount, bool) {
			heads, tails := newPosCount(len(xs)+1), newPosCount(len(xs)+1)
			var cell func(i int) fp.List[int]
			cell = func(i int) fp.List[int] {
				return fp.MakeList(func() fp.Option[int] {
					heads.hit(i, yields)
					if i < len(xs) {
						return option.Some(xs[i])
					}
					return option.None[int]()
				}, func() fp.List[int] {
					tails.hit(i, yields)
					if i < len(xs) {
						return cell(i + 1)
					}
					return list.Empty[int]()
				})
			}
			return cell(0), map[string]*posCount{"head thunk of cell": heads, "tail thunk of cell": tails}, true
		}},
	{"list.Generate", "list.Generate(generator) over xs (generator executions counted per index, including the terminating None)",
		func(xs []int, yields int) (fp.List[int], map[string]*posCount, bool) {
			gens := newPosCount(len(xs) + 1)
			return list.Generate(func(i int) fp.Option[int] {
				gens.hit(i, yields)
				if i < len(xs) {
					return option.Some(xs[i])
				}
				return option.None[int]()
			}), map[string]*posCount{"generator(index)": gens}, true
		}},
	{"list.Map", "list.Map(list.Of(0..n-1), i => xs[i]) (mapping function executions counted per element)",
		func(xs []int, yields int) (fp.List[int], map[string]*posCount, bool) {
			fns := newPosCount(len(xs))
			idx := make([]int, len(xs))
			for i := range idx {
				idx[i] = i
			}
			return list.Map(list.Of(idx...), func(i int) int { fns.hit(i, yields); return xs[i] }), map[string]*posCount{"mapping function on element": fns}, true
		}},
	{"list.FlatMap", "list.FlatMap(list.Of(0..n-1), i => list.Of(xs[i])) (executions of the function counted per element: it computes the cell, whichever of head and tail is asked for first)",
		func(xs []int, yields int) (fp.List[int], map[string]*posCount, bool) {
			fns := newPosCount(len(xs))
			idx := make([]int, len(xs))
			for i := range idx {
				idx[i] = i
			}
			return list.FlatMap(list.Of(idx...), func(i int) fp.List[int] { fns.hit(i, yields); return list.Of(xs[i]) }), map[string]*posCount{"function on element": fns}, true
		}},
	{"list.FilterMap", "list.FilterMap(list.Of(0..n-1), i => Some(xs[i])) (executions of the function counted per element)",
		func(xs []int, yields int) (fp.List[int], map[string]*posCount, bool) {
			fns := newPosCount(len(xs))
			idx := make([]int, len(xs))
			for i := range idx {
				idx[i] = i
			}
			return list.FilterMap(list.Of(idx...), func(i int) fp.Option[int] { fns.hit(i, yields); return option.Some(xs[i]) }), map[string]*posCount{"function on element": fns}, true
		}},
	{"list.Collect", "list.Collect(one-shot iterator over xs) (iterator next() executions counted per element: a second traversal must replay the memoised cells, not pull the iterator again)",
		func(xs []int, yields int) (fp.List[int], map[string]*posCount, bool) {
			nexts := newPosCount(len(xs))
			var mu sync.Mutex
			i := 0
			it := fp.MakeIterator(func() bool { mu.Lock(); defer mu.Unlock(); return i < len(xs) }, func() int {
				mu.Lock()
				k := i
				i++
				mu.Unlock()
				if k >= len(xs) {
					panic("harness iterator: next on empty iterator")
				}
				nexts.hit(k, yields)
				return xs[k]
			})
			return list.Collect(it), map[string]*posCount{"iterator next() for element": nexts}, true
		}},
	{"list.Recurrence1", "infinite list.Recurrence1(0, i => i+1) (relation executions counted per argument); only bounded walks of at most len(xs)+1 cells, expected contents 0,1,2,...",
		func(xs []int, yields int) (fp.List[int], map[string]*posCount, bool) {
			rels := newPosCount(len(xs) + 2)
			return list.Recurrence1(0, func(i int) int { rels.hit(i, yields); return i + 1 }), map[string]*posCount{"relation on argument": rels}, false
		}},
}

func listOnce(t *testing.T) {
	for _, s := range listSubjects {
		s := s
		sig := "C16|" + s.name
		check := func(rt *rapid.T, rec *kit.Rec, concurrent bool) {
			xs := rapid.SliceOfN(rapid.IntRange(-3, 8), 0, 6).Draw(rt, "xs")
			G := 1
			yields := 0
			nTrav := rapid.IntRange(2, 5).Draw(rt, "traversals")
			if concurrent {
				G = rapid.IntRange(2, 16).Draw(rt, "G")
				nTrav = G
				yields = rapid.IntRange(0, 10).Draw(rt, "yields")
			}
			ks := rapid.SliceOfN(rapid.SampledFrom([]int{0, 1, 2, 3, 4, 5, 6, 6}), nTrav, nTrav).Draw(rt, "kinds")
			limits := rapid.SliceOfN(rapid.IntRange(0, 8), nTrav, nTrav).Draw(rt, "limits")
			for i := range ks {
				if ks[i] == 6 && limits[i] > len(xs) {
					limits[i] = len(xs) // the Tail-first walk only visits cells that must exist
				}
			}
			var l fp.List[int]
			var cs map[string]*posCount
			finite := true
			sg := sig + "|once"
			if concurrent {
				sg = sig + "|once-concurrent"
			}
			rec.Guard(rt, sg, func() { l, cs, finite = s.mk(xs, yields) })
			want := make([][]int, nTrav)
			for i := range ks {
				if !finite {
					// infinite list: bounded walks only; contents are 0,1,2,...
					if ks[i] != 2 && ks[i] != 3 && ks[i] != 5 && ks[i] != 6 {
						ks[i] = 2 + i%2
					}
					if limits[i] > len(xs)+1 {
						limits[i] = len(xs) + 1
					}
					nat := make([]int, limits[i])
					for j := range nat {
						nat[j] = j
					}
					if ks[i] == 5 {
						want[i] = []int{0}
					} else {
						want[i] = nat
					}
				} else {
					want[i] = travWant(ks[i], xs, limits[i])
				}
			}
			desc := fmt.Sprintf("xs=%v traversals=%s limits=%v", xs, showTravs(ks), limits)
			if concurrent {
				rec.Case(G >= 4 && (len(xs) >= 1 || !finite), fmt.Sprintf("G=%d yields=%d %s", G, yields, desc))
			} else {
				rec.Case(len(xs) >= 1 || !finite, desc)
			}
			got := make([][]int, nTrav)
			if concurrent {
				ps := parallel(G, func(g int) { got[g] = traverse(ks[g], l, limits[g]) })
				if i, p := firstPanic(ps); p != nil {
					rec.Failf(rt, sg+"|panic", "goroutine %d (%s) panicked: %v; %s", i, travName[ks[i]], p, desc)
				}
			} else {
				for i := range ks {
					rec.Guard(rt, sg, func() { got[i] = traverse(ks[i], l, limits[i]) })
				}
			}
			names := make([]string, 0, len(cs))
			for k := range cs {
				names = append(names, k)
			}
			sortStrings(names)
			for _, k := range names {
				if i, n, bad := cs[k].over(); bad {
					rec.Failf(rt, sg, "%s %d executed %d times (memoised cell re-evaluated); %s", k, i, n, desc)
				}
			}
			for i := range got {
				if !eqInts(got[i], want[i]) {
					rec.Failf(rt, sg+"-value", "traversal %d (%s, limit %d) saw %v, want %v; %s", i, travName[ks[i]], limits[i], got[i], want[i], desc)
				}
			}
		}
		kit.Check(t, s.name+"/once", s.what+"; xs of 0..6 small ints; the SAME list value is traversed 2..5 times (ToSeq, Foreach, IsEmpty/Head/Tail walk, NonEmpty/Unapply walk, list.Fold, repeated Head); oracle: every counted thunk ran <= 1 times per position and every traversal saw xs; non-trivial iff xs non-empty; distinct by (xs, traversals)",
			kit.Opt{Weight: 0.5}, func(rt *rapid.T, rec *kit.Rec) { check(rt, rec, false) })
		kit.Check(t, s.name+"/once-concurrent", s.what+"; G in 2..16 goroutines released together each traverse the SAME list value once; thunks yield 0..10 times; oracle: counters only — every counted thunk ran <= 1 times per position, every goroutine saw xs, no panic; non-trivial iff G >= 4 and xs non-empty; distinct by (xs, G, traversals, yields)",
			kit.Opt{Weight: 0.25}, func(rt *rapid.T, rec *kit.Rec) { check(rt, rec, true) })
	}
}

func eqInts(a, b []int) bool {
	if len(a) == 0 && len(b) == 0 {
		return true
	}
	return reflect.DeepEqual(a, b)
}

func sortStrings(s []string) {
	for i := 1; i < len(s); i++ {
		for j := i; j > 0 && s[j] < s[j-1]; j-- {
			s[j], s[j-1] = s[j-1], s[j]
		}
	}
}
