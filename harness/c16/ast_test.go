package c16

import (
	"fmt"
	"math"
	"runtime"
	"strings"
	"sync"
	"sync/atomic"

	"github.com/csgura/fp/lazy"
	"pgregory.net/rapid"
)

// ---------------------------------------------------------------------------------
// Eval program AST. One AST is interpreted twice: build() turns it into a real
// lazy.Eval[int] (library under test), walk() evaluates it strictly and directly
// on Go ints without touching the library (reference semantics of the statement:
// FlatMap(e,k) = k(value of e); Map(e,f) = f(value of e); Map2(a,b,f) = f(va,vb);
// Call(th) = th(); TailCall(th) = value of th()).
// ---------------------------------------------------------------------------------

type kind int

const (
	kDone kind = iota
	kCall
	kFunc1
	kFunc2
	kFunc3
	kTail
	kTail1
	kTail2
	kTail3
	kMap
	kFlatMap
	kMap2
	kChainL
	kChainR
	kLet
	kRef
	kZero // the zero value lazy.Eval[int]{}: Resume substitutes the zero int for the missing first thunk
)

var kindName = map[kind]string{kDone: "Done", kCall: "Call", kFunc1: "Func1", kFunc2: "Func2", kFunc3: "Func3", kTail: "TailCall", kTail1: "TailCall1",
	kTail2: "TailCall2", kTail3: "TailCall3", kMap: "Map", kFlatMap: "FlatMap", kMap2: "Map2", kChainL: "ChainL", kChainR: "ChainR", kLet: "Let", kRef: "Ref", kZero: "ZeroEval"}

// vexp is a value expression evaluated (strictly) when the enclosing Eval is
// constructed: a constant, optionally plus a variable bound by an enclosing
// FlatMap continuation or TailCallN parameter (de Bruijn index from the innermost).
type vexp struct {
	useVar bool
	idx    int
	c      int
}

func (v vexp) eval(env []int) int {
	if v.useVar && len(env) > 0 {
		return env[len(env)-1-v.idx%len(env)] + v.c
	}
	return v.c
}

func (v vexp) String() string {
	if v.useVar {
		return fmt.Sprintf("v%d%+d", v.idx, v.c)
	}
	return fmt.Sprintf("%d", v.c)
}

// affine is a unary user function x -> x*k + c (wrapping int arithmetic).
type affine struct{ k, c, id int }

func (f affine) call(x int) int { return x*f.k + f.c }
func (f affine) String() string { return fmt.Sprintf("λx.x*%d%+d", f.k, f.c) }

// f2 is deliberately neither commutative nor associative.
func f2(a, b, c int) int { return a*31 - b*7 + c }

func f3(a, b, c, c0 int) int { return a*131 + b*17 - c + c0 }

// step is one continuation of a FlatMap chain: value -> Eval.
type step struct {
	kind   int // 0 Done(f v) 1 Call(f v) 2 TailCall(->Done(f v)) 3 TailCall1(g,v) 4 Func1(f)(v) 5 Done(v).Map(f)
	f      affine
	kid    int  // site id of the continuation itself
	method bool // attach with the method form (only ChainL / ChainR outer FlatMap)
}

func (s step) String() string {
	return fmt.Sprintf("%s%s", [...]string{"Done∘", "Call∘", "Tail∘Done∘", "Tail1∘", "Func1∘", "Done.Map∘"}[s.kind], s.f)
}

type node struct {
	kind   kind
	id     int // site id of the node's own user function (thunk / mapping function / continuation)
	val    vexp
	args   []vexp
	f      affine
	c      int
	method bool
	a, b   *node
	tab    []*node
	steps  []step
	ref    int
}

func (n *node) String() string {
	var sb strings.Builder
	n.print(&sb)
	return sb.String()
}

func (n *node) print(sb *strings.Builder) {
	m := ""
	if n.method {
		m = "."
	}
	switch n.kind {
	case kDone:
		fmt.Fprintf(sb, "Done(%s)", n.val)
	case kZero:
		sb.WriteString("Eval{}")
	case kCall:
		fmt.Fprintf(sb, "Call(%s)", n.val)
	case kFunc1, kFunc2, kFunc3:
		fmt.Fprintf(sb, "%s%v+%d", kindName[n.kind], n.args, n.c)
	case kTail:
		sb.WriteString("Tail(")
		n.a.print(sb)
		sb.WriteString(")")
	case kTail1, kTail2, kTail3:
		fmt.Fprintf(sb, "%s%v(", kindName[n.kind], n.args)
		n.a.print(sb)
		sb.WriteString(")")
	case kMap:
		fmt.Fprintf(sb, "%sMap(", m)
		n.a.print(sb)
		fmt.Fprintf(sb, ",%s)", n.f)
	case kFlatMap:
		fmt.Fprintf(sb, "%sFlatMap(", m)
		n.a.print(sb)
		sb.WriteString(",[")
		for i, t := range n.tab {
			if i > 0 {
				sb.WriteString("|")
			}
			t.print(sb)
		}
		sb.WriteString("])")
	case kMap2:
		sb.WriteString("Map2(")
		n.a.print(sb)
		sb.WriteString(",")
		n.b.print(sb)
		fmt.Fprintf(sb, ",%d)", n.c)
	case kChainL, kChainR:
		fmt.Fprintf(sb, "%s(", kindName[n.kind])
		n.a.print(sb)
		for _, s := range n.steps {
			if s.method {
				sb.WriteString(" .>>= ")
			} else {
				sb.WriteString(" >>= ")
			}
			sb.WriteString(s.String())
		}
		sb.WriteString(")")
	case kLet:
		sb.WriteString("Let(")
		n.a.print(sb)
		sb.WriteString(" in ")
		n.b.print(sb)
		sb.WriteString(")")
	case kRef:
		fmt.Fprintf(sb, "Ref%d", n.ref)
	}
}

// ---- generation --------------------------------------------------------------------

type gen struct {
	rt     *rapid.T
	nextID int
	share  bool
}

func (g *gen) id() int { g.nextID++; return g.nextID }

func (g *gen) vexp(nvars int) vexp {
	v := vexp{c: rapid.IntRange(-3, 8).Draw(g.rt, "c")}
	if nvars > 0 && rapid.IntRange(0, 2).Draw(g.rt, "var") > 0 {
		v.useVar = true
		v.idx = rapid.IntRange(0, nvars-1).Draw(g.rt, "idx")
	}
	return v
}

func (g *gen) affine() affine {
	return affine{k: rapid.IntRange(-2, 3).Draw(g.rt, "k"), c: rapid.IntRange(-3, 8).Draw(g.rt, "c"), id: g.id()}
}

func (g *gen) vexps(n, nvars int) []vexp {
	r := make([]vexp, n)
	for i := range r {
		r[i] = g.vexp(nvars)
	}
	return r
}

func (g *gen) step() step {
	return step{kind: rapid.IntRange(0, 5).Draw(g.rt, "stepkind"), kid: g.id(), f: g.affine(), method: rapid.Bool().Draw(g.rt, "method")}
}

// kZero once in eleven leaves: an Eval left at its zero value (a struct field never assigned, what
// reflectfp.LazyCall starts from) evaluates to the zero value wherever it stands in a program
var leafKinds = []kind{kDone, kDone, kCall, kCall, kFunc1, kFunc1, kFunc2, kFunc2, kFunc3, kFunc3, kZero}
var innerKinds = []kind{kTail, kTail1, kTail2, kTail3, kMap, kMap, kFlatMap, kFlatMap, kFlatMap, kMap2, kMap2, kChainL, kChainR}

// tree draws a program of at most `budget` nodes (chain steps count as nodes).
func (g *gen) tree(budget, nvars, nsh int) *node {
	if budget <= 1 {
		return g.leaf(nvars, nsh)
	}
	if rapid.IntRange(0, 9).Draw(g.rt, "leaf") == 0 {
		return g.leaf(nvars, nsh)
	}
	ks := innerKinds
	if g.share {
		ks = append(append([]kind{}, innerKinds...), kLet, kLet)
	}
	return g.rooted(rapid.SampledFrom(ks).Draw(g.rt, "kind"), budget, nvars, nsh)
}

func (g *gen) leaf(nvars, nsh int) *node {
	if g.share && nsh > 0 && rapid.IntRange(0, 2).Draw(g.rt, "ref") > 0 {
		return &node{kind: kRef, ref: rapid.IntRange(0, nsh-1).Draw(g.rt, "refidx")}
	}
	return g.rooted(rapid.SampledFrom(leafKinds).Draw(g.rt, "leafkind"), 1, nvars, nsh)
}

// split divides n (>= parts) into `parts` positive summands.
func (g *gen) split(n, parts int) []int {
	r := make([]int, parts)
	for i := range r {
		r[i] = 1
	}
	rest := n - parts
	for i := 0; i < parts-1 && rest > 0; i++ {
		x := rapid.IntRange(0, rest).Draw(g.rt, "split")
		r[i] += x
		rest -= x
	}
	if rest > 0 {
		r[parts-1] += rest
	}
	return r
}

// rooted draws a program whose root has the given kind.
func (g *gen) rooted(k kind, budget, nvars, nsh int) *node {
	n := &node{kind: k, id: g.id()}
	rest := budget - 1
	if rest < 1 {
		rest = 1
	}
	switch k {
	case kDone, kCall:
		n.val = g.vexp(nvars)
	case kFunc1:
		n.args, n.c = g.vexps(1, nvars), rapid.IntRange(-3, 8).Draw(g.rt, "c")
	case kFunc2:
		n.args, n.c = g.vexps(2, nvars), rapid.IntRange(-3, 8).Draw(g.rt, "c")
	case kFunc3:
		n.args, n.c = g.vexps(3, nvars), rapid.IntRange(-3, 8).Draw(g.rt, "c")
	case kTail:
		n.a = g.tree(rest, nvars, nsh)
	case kTail1, kTail2, kTail3:
		na := int(k-kTail1) + 1
		n.args = g.vexps(na, nvars)
		n.a = g.tree(rest, nvars+na, nsh)
	case kMap:
		n.method = rapid.Bool().Draw(g.rt, "method")
		n.f = g.affine()
		n.a = g.tree(rest, nvars, nsh)
	case kFlatMap:
		n.method = rapid.Bool().Draw(g.rt, "method")
		m := rapid.IntRange(1, 3).Draw(g.rt, "tab")
		if m > rest-1 {
			m = rest - 1
		}
		if m < 1 {
			m = 1
		}
		parts := g.split(max(rest, m+1), m+1)
		n.a = g.tree(parts[0], nvars, nsh)
		for i := 0; i < m; i++ {
			n.tab = append(n.tab, g.tree(parts[i+1], nvars+1, nsh))
		}
	case kMap2:
		parts := g.split(max(rest, 2), 2)
		n.c = rapid.IntRange(-3, 8).Draw(g.rt, "c")
		n.a = g.tree(parts[0], nvars, nsh)
		n.b = g.tree(parts[1], nvars, nsh)
	case kChainL, kChainR:
		ns := rapid.IntRange(1, min(max(rest-1, 1), 12)).Draw(g.rt, "nsteps")
		n.a = g.tree(max(rest-ns, 1), nvars, nsh)
		for i := 0; i < ns; i++ {
			n.steps = append(n.steps, g.step())
		}
	case kLet:
		parts := g.split(max(rest, 2), 2)
		n.a = g.tree(parts[0], nvars, nsh)
		n.b = g.tree(parts[1], nvars, nsh+1)
	}
	return n
}

// ---- execution context shared by the library-side interpretation --------------------

// inst is one *instance* of a deferred thunk (a Call / TailCall* / FuncN / Memoize
// thunk created at run time) with its execution counter.
type inst struct {
	site int
	n    atomic.Int32
}

type ctx struct {
	mu     sync.Mutex
	trace  []int // site ids in execution order
	insts  []*inst
	yields int // runtime.Gosched() calls inside a deferred thunk (concurrent sub-checks: widens the window, never decides)
}

// cont records that a user continuation / mapping function ran.
func (c *ctx) cont(site int) {
	c.mu.Lock()
	c.trace = append(c.trace, site)
	c.mu.Unlock()
}

// deferred registers a new deferred-thunk instance; the returned function must be
// called inside the thunk.
func (c *ctx) deferred(site int) func() {
	in := &inst{site: site}
	c.mu.Lock()
	c.insts = append(c.insts, in)
	c.mu.Unlock()
	return func() {
		in.n.Add(1)
		c.mu.Lock()
		c.trace = append(c.trace, site)
		c.mu.Unlock()
		for i := 0; i < c.yields; i++ {
			runtime.Gosched()
		}
	}
}

// overrun returns a description of the first deferred instance executed more than once.
func (c *ctx) overrun() (string, bool) {
	c.mu.Lock()
	defer c.mu.Unlock()
	for _, in := range c.insts {
		if k := in.n.Load(); k > 1 {
			return fmt.Sprintf("deferred thunk instance of site #%d executed %d times", in.site, k), true
		}
	}
	return "", false
}

func (c *ctx) snapshot() []int {
	c.mu.Lock()
	defer c.mu.Unlock()
	return append([]int{}, c.trace...)
}

func ext(env []int, vs ...int) []int {
	r := make([]int, 0, len(env)+len(vs))
	r = append(r, env...)
	return append(r, vs...)
}

func mod(v, m int) int { return ((v % m) + m) % m }

// build interprets the AST with the library.
func (c *ctx) build(n *node, env []int, sh []lazy.Eval[int]) lazy.Eval[int] {
	switch n.kind {
	case kDone:
		return lazy.Done(n.val.eval(env))
	case kZero:
		return lazy.Eval[int]{}
	case kCall:
		v := n.val.eval(env)
		hit := c.deferred(n.id)
		return lazy.Call(func() int { hit(); return v })
	case kFunc1:
		hit := c.deferred(n.id)
		return lazy.Func1(func(a int) int { hit(); return a*3 + n.c })(n.args[0].eval(env))
	case kFunc2:
		hit := c.deferred(n.id)
		return lazy.Func2(func(a, b int) int { hit(); return f2(a, b, n.c) })(n.args[0].eval(env), n.args[1].eval(env))
	case kFunc3:
		hit := c.deferred(n.id)
		return lazy.Func3(func(a, b, d int) int { hit(); return f3(a, b, d, n.c) })(n.args[0].eval(env), n.args[1].eval(env), n.args[2].eval(env))
	case kTail:
		hit := c.deferred(n.id)
		return lazy.TailCall(func() lazy.Eval[int] { hit(); return c.build(n.a, env, sh) })
	case kTail1:
		hit := c.deferred(n.id)
		return lazy.TailCall1(func(a1 int) lazy.Eval[int] { hit(); return c.build(n.a, ext(env, a1), sh) }, n.args[0].eval(env))
	case kTail2:
		hit := c.deferred(n.id)
		return lazy.TailCall2(func(a1, a2 int) lazy.Eval[int] { hit(); return c.build(n.a, ext(env, a1, a2), sh) }, n.args[0].eval(env), n.args[1].eval(env))
	case kTail3:
		hit := c.deferred(n.id)
		return lazy.TailCall3(func(a1, a2, a3 int) lazy.Eval[int] { hit(); return c.build(n.a, ext(env, a1, a2, a3), sh) },
			n.args[0].eval(env), n.args[1].eval(env), n.args[2].eval(env))
	case kMap:
		e := c.build(n.a, env, sh)
		f := func(x int) int { c.cont(n.f.id); return n.f.call(x) }
		if n.method {
			return e.Map(f)
		}
		return lazy.Map(e, f)
	case kFlatMap:
		e := c.build(n.a, env, sh)
		k := func(v int) lazy.Eval[int] {
			c.cont(n.id)
			return c.build(n.tab[mod(v, len(n.tab))], ext(env, v), sh)
		}
		if n.method {
			return e.FlatMap(k)
		}
		return lazy.FlatMap(e, k)
	case kMap2:
		a := c.build(n.a, env, sh)
		b := c.build(n.b, env, sh)
		return lazy.Map2(a, b, func(x, y int) int { c.cont(n.id); return f2(x, y, n.c) })
	case kChainL:
		// ((e >>= s0) >>= s1) >>= s2 ...
		r := c.build(n.a, env, sh)
		for _, s := range n.steps {
			k := c.stepFn(s)
			if s.method {
				r = r.FlatMap(k)
			} else {
				r = lazy.FlatMap(r, k)
			}
		}
		return r
	case kChainR:
		// e >>= (x => s0(x) >>= (y => s1(y) >>= ...))
		var right func(i int) func(int) lazy.Eval[int]
		right = func(i int) func(int) lazy.Eval[int] {
			k := c.stepFn(n.steps[i])
			if i+1 == len(n.steps) {
				return k
			}
			return func(v int) lazy.Eval[int] {
				r := k(v)
				if n.steps[i+1].method {
					return r.FlatMap(right(i + 1))
				}
				return lazy.FlatMap(r, right(i+1))
			}
		}
		e := c.build(n.a, env, sh)
		if n.steps[0].method {
			return e.FlatMap(right(0))
		}
		return lazy.FlatMap(e, right(0))
	case kLet:
		shared := c.build(n.a, env, sh)
		sh2 := append(append(make([]lazy.Eval[int], 0, len(sh)+1), sh...), shared)
		return c.build(n.b, env, sh2)
	case kRef:
		return sh[len(sh)-1-n.ref%len(sh)]
	}
	panic("harness: unknown node kind")
}

func (c *ctx) stepFn(s step) func(int) lazy.Eval[int] {
	return func(v int) lazy.Eval[int] {
		c.cont(s.kid)
		switch s.kind {
		case 0:
			return lazy.Done(s.f.call(v))
		case 1:
			hit := c.deferred(s.f.id)
			return lazy.Call(func() int { hit(); return s.f.call(v) })
		case 2:
			hit := c.deferred(s.f.id)
			return lazy.TailCall(func() lazy.Eval[int] { hit(); return lazy.Done(s.f.call(v)) })
		case 3:
			hit := c.deferred(s.f.id)
			return lazy.TailCall1(func(x int) lazy.Eval[int] { hit(); return lazy.Done(s.f.call(x)) }, v)
		case 4:
			hit := c.deferred(s.f.id)
			return lazy.Func1(func(x int) int { hit(); return s.f.call(x) })(v)
		default:
			return lazy.Done(v).Map(func(x int) int { c.cont(s.f.id); return s.f.call(x) })
		}
	}
}

// ---- strict reference interpreter + data-dependence order check ----------------------

type iv struct{ lo, hi int }

var emptyIv = iv{lo: math.MaxInt, hi: -1}

func (a iv) join(b iv) iv {
	if b.lo < a.lo {
		a.lo = b.lo
	}
	if b.hi > a.hi {
		a.hi = b.hi
	}
	return a
}

// walker evaluates the AST strictly. When pos != nil (position of the first
// occurrence of every site in the library's trace) it also checks that the
// library's order of effects respects data dependence:
//   - everything belonging to the first computation of a FlatMap precedes the
//     continuation, which precedes everything the continuation builds;
//   - a mapping function runs after the computation it maps;
//   - a TailCall thunk runs before everything in the Eval it returns.
//
// Nothing is demanded about the relative order of the two arguments of Map2.
type walker struct {
	pos       map[int]int
	strict    []int  // strict left-to-right trace (informative)
	viol      string // first order violation
	missing   string // first site needed by strict evaluation that never ran in the library
	ndeferred int
	ntFlatMap bool // some evaluated FlatMap has a deferred node in its first computation
	nFlatMap  int
}

func (w *walker) ev(id int, deferred bool) iv {
	w.strict = append(w.strict, id)
	if deferred {
		w.ndeferred++
	}
	if w.pos == nil {
		return emptyIv
	}
	p, ok := w.pos[id]
	if !ok {
		if w.missing == "" {
			w.missing = fmt.Sprintf("site #%d (needed by strict evaluation) never ran", id)
		}
		return emptyIv
	}
	return iv{p, p}
}

func (w *walker) before(a, b iv, what string) {
	if w.pos == nil || w.viol != "" {
		return
	}
	if a.hi >= 0 && b.hi >= 0 && a.hi >= b.lo {
		w.viol = fmt.Sprintf("%s: an effect at trace position %d ran before position %d of what it depends on", what, b.lo, a.hi)
	}
}

func (w *walker) walk(n *node, env []int, shv []int) (int, iv) {
	switch n.kind {
	case kDone:
		return n.val.eval(env), emptyIv
	case kZero:
		return 0, emptyIv
	case kCall:
		return n.val.eval(env), w.ev(n.id, true)
	case kFunc1:
		return n.args[0].eval(env)*3 + n.c, w.ev(n.id, true)
	case kFunc2:
		return f2(n.args[0].eval(env), n.args[1].eval(env), n.c), w.ev(n.id, true)
	case kFunc3:
		return f3(n.args[0].eval(env), n.args[1].eval(env), n.args[2].eval(env), n.c), w.ev(n.id, true)
	case kTail, kTail1, kTail2, kTail3:
		p := w.ev(n.id, true)
		env2 := env
		if n.kind != kTail {
			vs := make([]int, len(n.args))
			for i, a := range n.args {
				vs[i] = a.eval(env)
			}
			env2 = ext(env, vs...)
		}
		v, s := w.walk(n.a, env2, shv)
		w.before(p, s, kindName[n.kind]+" thunk vs the Eval it returns")
		return v, p.join(s)
	case kMap:
		v, s := w.walk(n.a, env, shv)
		p := w.ev(n.f.id, false)
		w.before(s, p, "Map function vs mapped computation")
		return n.f.call(v), s.join(p)
	case kFlatMap:
		d0 := w.ndeferred
		v, s := w.walk(n.a, env, shv)
		w.nFlatMap++
		if w.ndeferred > d0 {
			w.ntFlatMap = true
		}
		p := w.ev(n.id, false)
		w.before(s, p, "FlatMap continuation vs first computation")
		r, t := w.walk(n.tab[mod(v, len(n.tab))], ext(env, v), shv)
		w.before(p, t, "FlatMap continuation vs the Eval it returns")
		return r, s.join(p).join(t)
	case kMap2:
		va, sa := w.walk(n.a, env, shv)
		vb, sb := w.walk(n.b, env, shv)
		p := w.ev(n.id, false)
		w.before(sa, p, "Map2 function vs first argument")
		w.before(sb, p, "Map2 function vs second argument")
		return f2(va, vb, n.c), sa.join(sb).join(p)
	case kChainL, kChainR:
		d0 := w.ndeferred
		v, s := w.walk(n.a, env, shv)
		for _, st := range n.steps {
			w.nFlatMap++
			if w.ndeferred > d0 {
				w.ntFlatMap = true
			}
			p := w.ev(st.kid, false)
			w.before(s, p, "chained FlatMap continuation vs everything before it")
			s = s.join(p)
			if st.kind != 0 {
				q := w.ev(st.f.id, st.kind != 5)
				w.before(p, q, "effect inside a chained continuation vs the continuation")
				s = s.join(q)
			}
			v = st.f.call(v)
		}
		return v, s
	case kLet:
		v, _ := w.walk(n.a, env, shv)
		return w.walk(n.b, env, append(append(make([]int, 0, len(shv)+1), shv...), v))
	case kRef:
		return shv[len(shv)-1-n.ref%len(shv)], emptyIv
	}
	panic("harness: unknown node kind")
}

func firstPos(trace []int) map[int]int {
	m := make(map[int]int, len(trace))
	for i, id := range trace {
		if _, ok := m[id]; !ok {
			m[id] = i
		}
	}
	return m
}

// runners: three ways the library offers to evaluate an Eval.
func runEval(how int, e lazy.Eval[int]) int {
	switch how {
	case 0:
		return e.Get()
	case 1:
		return lazy.Run(e)
	default:
		// the documented Resume protocol driven by hand (as in the repo's lazy_test.go)
		for {
			r, k := e.Resume()
			if k == nil {
				return r
			}
			e = k()
		}
	}
}

var runnerName = []string{"Get", "Run", "Resume-loop"}
