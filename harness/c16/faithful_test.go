package c16

import (
	"fmt"
	"reflect"
	"testing"

	"github.com/csgura/fp/lazy"
	"pgregory.net/rapid"

	"verifharness/kit"
)

func TestMain(m *testing.M) { kit.Main(m) }

// faithful runs one program through the library and through the strict reference.
//   - <name>|deferred : no Call/TailCall*/FuncN thunk runs while the Eval is only being constructed
//   - <name>|faithful : value equals the strict evaluation; every effect strict evaluation needs did happen
//   - <name>|order    : order of effects respects data dependence (FlatMap: first computation, then continuation)
//   - <name>|once     : within one evaluation no deferred thunk instance ran twice
//   - <name>|effects-once : within ONE evaluation of a program without sharing no user function
//     (mapping function / continuation) ran twice — strict evaluation of the same program
//     runs each exactly once (repeated requests are a different matter: see once_test.go)
func faithful(t *testing.T, name, rule string, ntMode int, weight float64, mk func(g *gen) *node) {
	t.Helper()
	sig := "C16|" + name
	kit.Check(t, name+"/faithful", rule, kit.Opt{Weight: weight}, func(rt *rapid.T, rec *kit.Rec) {
		g := &gen{rt: rt}
		n := mk(g)
		how := rapid.IntRange(0, 2).Draw(rt, "runner")
		w0 := &walker{}
		want, _ := w0.walk(n, nil, nil)
		nt := w0.ndeferred > 0
		switch ntMode {
		case ntFM:
			nt = w0.ntFlatMap
		case ntAlways:
			nt = true
		}
		rec.Case(nt, runnerName[how]+" "+n.String())
		rec.Label("root:" + kindName[n.kind])
		if w0.ntFlatMap {
			rec.Label("flatmap-over-deferred")
		}
		rec.Label(fmt.Sprintf("flatmaps-evaluated:%s", bucket(w0.nFlatMap)))

		c := &ctx{}
		var e lazy.Eval[int]
		rec.Guard(rt, sig+"|faithful", func() { e = c.build(n, nil, nil) })
		for _, in := range c.insts {
			if in.n.Load() != 0 {
				rec.Failf(rt, sig+"|deferred", "the deferred thunk of site #%d ran while the Eval was only being constructed (before Get/Run) in %s", in.site, n)
			}
		}
		var got int
		rec.Guard(rt, sig+"|faithful", func() { got = runEval(how, e) })
		if got != want {
			rec.Failf(rt, sig+"|faithful", "%s of %s = %d, strict evaluation = %d", runnerName[how], n, got, want)
		}
		tr := c.snapshot()
		w := &walker{pos: firstPos(tr)}
		w.walk(n, nil, nil)
		if w.missing != "" {
			rec.Failf(rt, sig+"|faithful", "%s in %s (library trace %v, strict trace %v)", w.missing, n, tr, w.strict)
		}
		if w.viol != "" {
			rec.Failf(rt, sig+"|order", "%s in %s (library trace %v, strict left-to-right trace %v)", w.viol, n, tr, w.strict)
		}
		if msg, bad := c.overrun(); bad {
			rec.Failf(rt, sig+"|once", "%s during a single %s of %s", msg, runnerName[how], n)
		}
		seen := map[int]int{}
		for _, id := range tr {
			seen[id]++
			if seen[id] == 2 {
				rec.Failf(rt, sig+"|effects-once", "user function of site #%d ran twice during ONE %s of a program in which every function occurs once (strict evaluation runs it once) in %s (library trace %v, strict trace %v)", id, runnerName[how], n, tr, w.strict)
			}
		}
		if (len(tr) == 0 && len(w.strict) == 0) || reflect.DeepEqual(tr, w.strict) {
			rec.Label("trace=strict-left-to-right")
		} else {
			rec.Label("trace≠strict-left-to-right(not demanded)")
		}
	})
}

// drawSize draws 1..max, biased towards larger programs than rapid's default
// (maximum of three draws; still shrinks towards 1).
func drawSize(rt *rapid.T, max int) int {
	s := 1
	for i := 0; i < 3; i++ {
		if x := rapid.IntRange(1, max).Draw(rt, "size"); x > s {
			s = x
		}
	}
	return s
}

// pickF is kit.Pick for weights.
func pickF(q, th float64) float64 {
	if kit.Thorough() {
		return th
	}
	return q
}

const (
	ntDeferred = iota // non-trivial iff >= 1 deferred thunk is evaluated
	ntFM              // non-trivial iff an evaluated FlatMap's first computation contains a deferred thunk
	ntAlways
)

func bucket(n int) string {
	switch {
	case n == 0:
		return "0"
	case n <= 2:
		return "1-2"
	case n <= 9:
		return "3-9"
	case n <= 49:
		return "10-49"
	default:
		return "50+"
	}
}

func TestFaithful(t *testing.T) {
	type spec struct {
		name   string
		root   kind
		method int // -1 as drawn, 0 function form, 1 method form
		nt     int
	}
	specs := []spec{
		{"lazy.Done", kDone, -1, ntAlways},
		{"lazy.Call", kCall, -1, ntDeferred},
		{"lazy.Func1", kFunc1, -1, ntDeferred},
		{"lazy.Func2", kFunc2, -1, ntDeferred},
		{"lazy.Func3", kFunc3, -1, ntDeferred},
		{"lazy.TailCall", kTail, -1, ntDeferred},
		{"lazy.TailCall1", kTail1, -1, ntDeferred},
		{"lazy.TailCall2", kTail2, -1, ntDeferred},
		{"lazy.TailCall3", kTail3, -1, ntDeferred},
		{"lazy.Map", kMap, 0, ntDeferred},
		{"Eval.Map", kMap, 1, ntDeferred},
		{"lazy.FlatMap", kFlatMap, 0, ntFM},
		{"Eval.FlatMap", kFlatMap, 1, ntFM},
		{"lazy.Map2", kMap2, -1, ntDeferred},
	}
	for _, s := range specs {
		s := s
		rule := "program with root " + kindName[s.root] + " and sub-programs of at most 6 nodes (any constructor), evaluated by Get / lazy.Run / a manual Resume loop; oracle: strict direct evaluation of the same AST; "
		switch s.nt {
		case ntFM:
			rule += "non-trivial iff the first computation of an evaluated FlatMap contains a deferred thunk; distinct by printed program"
		case ntDeferred:
			rule += "non-trivial iff at least one deferred thunk is evaluated; distinct by printed program"
		default:
			rule += "every case counts (value and variable passing only); distinct by printed program"
		}
		faithful(t, s.name, rule, s.nt, 1, func(g *gen) *node {
			b := rapid.IntRange(1, 7).Draw(g.rt, "size")
			n := g.rooted(s.root, b, 0, 0)
			if s.method >= 0 {
				n.method = s.method == 1
			}
			return n
		})
	}

	chain := func(k kind) func(g *gen) *node {
		return func(g *gen) *node {
			n := &node{kind: k, id: g.id()}
			n.a = g.tree(rapid.IntRange(1, 4).Draw(g.rt, "headsize"), 0, 0)
			ns := rapid.IntRange(1, kit.Pick(40, 400)).Draw(g.rt, "nsteps")
			for i := 0; i < ns; i++ {
				n.steps = append(n.steps, g.step())
			}
			return n
		}
	}
	faithful(t, "chain-left", fmt.Sprintf("left-nested chain ((e.FlatMap k1).FlatMap k2)... of 1..%d continuations (Done/Call/TailCall/TailCall1/Func1/Done.Map bodies, method and function form mixed) over a small head program; oracle: strict evaluation; non-trivial iff a FlatMap is applied to a computation containing a deferred thunk; distinct by printed program", kit.Pick(40, 400)),
		ntFM, pickF(1, 0.08), chain(kChainL))
	faithful(t, "chain-right", fmt.Sprintf("right-nested chain e.FlatMap(x => k1(x).FlatMap(y => k2(y).FlatMap(...))) of 1..%d continuations over a small head program; oracle: strict evaluation; non-trivial iff a FlatMap is applied to a computation containing a deferred thunk; distinct by printed program", kit.Pick(40, 400)),
		ntFM, pickF(1, 0.3), chain(kChainR))

	faithful(t, "tree", fmt.Sprintf("composite program tree of 1..%d nodes over Done, Call, Func1..3, TailCall, TailCall1..3 (parameters become variables of the sub-program), Map, FlatMap (table continuation value -> sub-program, binds the value), Map2 (non-commutative), left- and right-nested FlatMap chains; oracle: strict evaluation; non-trivial iff the first computation of an evaluated FlatMap contains a deferred thunk; distinct by printed program", kit.Pick(40, 400)),
		ntFM, 1, func(g *gen) *node {
			return g.tree(drawSize(g.rt, kit.Pick(40, 400)), 0, 0)
		})
}
