package c16

import (
	"fmt"
	"runtime"
	"testing"

	"github.com/csgura/fp"
	"github.com/csgura/fp/iterator"
	"github.com/csgura/fp/lazy"
	"github.com/csgura/fp/list"
	"github.com/csgura/fp/option"
	"github.com/csgura/fp/seq"
	"pgregory.net/rapid"

	"verifharness/kit"
)

// ---------------------------------------------------------------------------------
// STACK-SAFE: measured, not timed. Every step of a tail-recursive loop calls
// dprobe.hit, which (sampled) records the goroutine's call depth with
// runtime.Callers relative to the depth of the harness function that started the
// loop. The deepest depth seen in a loop of n steps must equal (within +8 frames)
// the deepest depth seen in the same loop of n/100 steps.
// ---------------------------------------------------------------------------------

const depthSlack = 8

type stackGrew struct{ depth, step int }

type dprobe struct {
	every int
	cnt   int
	max   int
	base  int
	limit int // abort the run (panic stackGrew) when the relative depth exceeds this; 0 = never
	buf   []uintptr
	beat  func() // watchdog heartbeat on sampled steps (long runs)
	fuel  int    // a loop of n steps that takes more than 2n+100 steps is aborted (panic runaway)
}

type runaway struct{ steps int }

func newProbe(every, limit int) *dprobe {
	if every < 1 {
		every = 1
	}
	return &dprobe{every: every, limit: limit, buf: make([]uintptr, 4096)}
}

// here must be called by the function that starts the loop; depths are relative to it.
func (p *dprobe) here() { p.base = runtime.Callers(0, p.buf) }

func (p *dprobe) hit(force bool) {
	p.cnt++
	if p.fuel > 0 && p.cnt > p.fuel {
		panic(runaway{p.cnt})
	}
	if force || p.cnt%p.every == 0 {
		raw := runtime.Callers(0, p.buf)
		d := raw - p.base
		if raw >= len(p.buf) {
			// the frame buffer is saturated: thousands of frames inside a tail-recursive loop
			panic(stackGrew{d, p.cnt})
		}
		if p.beat != nil {
			p.beat()
		}
		if d > p.max {
			p.max = d
		}
		if p.limit > 0 && d > p.limit {
			panic(stackGrew{d, p.cnt})
		}
	}
}

// loop is one tail-recursive program family. run executes it for n steps with
// the probe installed in every step and returns (library result, expected result).
type loop struct {
	name string
	what string
	run  func(n int, p *dprobe) (got, want any)
}

func sumTo(n int) int { return n * (n + 1) / 2 }

func fibRef(n int) int {
	prev, curr := 0, 1
	for ; n > 1; n-- {
		prev, curr = curr, curr+prev
	}
	if n == 0 {
		return prev
	}
	return curr
}

var loops = []loop{
	{"lazy.TailCall", "count down from n with lazy.TailCall(closure)", func(n int, p *dprobe) (any, any) {
		var cd func(k int) lazy.Eval[int]
		cd = func(k int) lazy.Eval[int] {
			p.hit(k < 2)
			if k == 0 {
				return lazy.Done(42)
			}
			return lazy.TailCall(func() lazy.Eval[int] { return cd(k - 1) })
		}
		return cd(n).Get(), 42
	}},
	{"lazy.TailCall1", "count down from n with lazy.TailCall1(f, k-1), evaluated by lazy.Run", func(n int, p *dprobe) (any, any) {
		var cd func(k int) lazy.Eval[int]
		cd = func(k int) lazy.Eval[int] {
			p.hit(k < 2)
			if k == 0 {
				return lazy.Done(n)
			}
			return lazy.TailCall1(cd, k-1)
		}
		return lazy.Run(cd(n)), n
	}},
	{"lazy.TailCall2", "accumulating sum 1..n with lazy.TailCall2(f, k-1, acc+k)", func(n int, p *dprobe) (any, any) {
		var sum func(k, acc int) lazy.Eval[int]
		sum = func(k, acc int) lazy.Eval[int] {
			p.hit(k < 2)
			if k == 0 {
				return lazy.Done(acc)
			}
			return lazy.TailCall2(sum, k-1, acc+k)
		}
		return sum(n, 0).Get(), sumTo(n)
	}},
	{"lazy.TailCall3", "Fibonacci(n) (wrapping ints) with lazy.TailCall3(f, n-1, curr, curr+prev) as in the repo's own test", func(n int, p *dprobe) (any, any) {
		var fib func(k, prev, curr int) lazy.Eval[int]
		fib = func(k, prev, curr int) lazy.Eval[int] {
			p.hit(k < 3)
			if k == 0 {
				return lazy.Done(prev)
			}
			if k == 1 {
				return lazy.Done(curr)
			}
			return lazy.TailCall3(fib, k-1, curr, curr+prev)
		}
		return fib(n, 0, 1).Get(), fibRef(n)
	}},
	{"even-odd", "mutual recursion isEven(n) <-> isOdd(n-1) with lazy.TailCall1 over Eval[bool]", func(n int, p *dprobe) (any, any) {
		var isEven, isOdd func(k int) lazy.Eval[bool]
		isEven = func(k int) lazy.Eval[bool] {
			p.hit(k < 2)
			if k == 0 {
				return lazy.Done(true)
			}
			return lazy.TailCall1(isOdd, k-1)
		}
		isOdd = func(k int) lazy.Eval[bool] {
			p.hit(k < 2)
			if k == 0 {
				return lazy.Done(false)
			}
			return lazy.TailCall1(isEven, k-1)
		}
		return isEven(n).Get(), n%2 == 0
	}},
	{"FlatMap+TailCall2", "monadic loop step(k,acc) = lazy.Call(k).FlatMap(v => lazy.TailCall2(step, v-1, acc+v)): recursive call in tail position of the continuation", func(n int, p *dprobe) (any, any) {
		var st func(k, acc int) lazy.Eval[int]
		st = func(k, acc int) lazy.Eval[int] {
			if k == 0 {
				p.hit(true)
				return lazy.Done(acc)
			}
			return lazy.Call(func() int { p.hit(k < 2); return k }).FlatMap(func(v int) lazy.Eval[int] {
				return lazy.TailCall2(st, v-1, acc+v)
			})
		}
		return st(n, 0).Get(), sumTo(n)
	}},
	{"seq.FoldRight", "seq.FoldRight over n elements with the accumulated Eval used in tail position (find-first: f(a,rest) = a==target ? Done(a) : rest)", func(n int, p *dprobe) (any, any) {
		xs := make(fp.Seq[int], n)
		for i := range xs {
			xs[i] = i
		}
		return seq.FoldRight(xs, -1, findFirst(n-1, p)).Get(), n - 1
	}},
	{"list.FoldRight", "list.FoldRight over a lazily generated list of n elements, accumulated Eval in tail position (find-first, target absent)", func(n int, p *dprobe) (any, any) {
		return list.FoldRight(list.Generate(func(i int) fp.Option[int] {
			if i < n {
				return option.Some(i)
			}
			return option.None[int]()
		}), -1, findFirst(n+5, p)).Get(), -1
	}},
	{"iterator.FoldRight", "iterator.FoldRight over an n element iterator, accumulated Eval in tail position (find-first: last element)", func(n int, p *dprobe) (any, any) {
		return iterator.FoldRight(iterator.Range(0, n), -1, findFirst(n-1, p)).Get(), n - 1
	}},
}

func findFirst(target int, p *dprobe) func(a int, rest lazy.Eval[int]) lazy.Eval[int] {
	return func(a int, rest lazy.Eval[int]) lazy.Eval[int] {
		p.hit(a < 2 || a >= target-1)
		if a == target {
			return lazy.Done(a)
		}
		return rest
	}
}

// measure runs l for n steps and returns the maximal relative depth.
func measure(l loop, n, samples, limit int, beat func()) (depth int, got, want any, grew *stackGrew, pv any) {
	p := newProbe(n/samples, limit)
	p.beat = beat
	p.fuel = 2*n + 100
	func() {
		defer func() {
			if r := recover(); r != nil {
				if g, ok := r.(stackGrew); ok {
					grew = &g
				} else if ra, ok := r.(runaway); ok {
					pv = fmt.Sprintf("the loop did not finish within %d steps (expected %d)", ra.steps-1, n)
				} else {
					pv = r
				}
			}
		}()
		p.here()
		got, want = l.run(n, p)
	}()
	return p.max, got, want, grew, pv
}

func TestStack(t *testing.T) {
	for _, l := range loops {
		l := l
		sig := "C16|" + l.name
		rule := l.what + "; n = 10^3, 10^4 or 10^5 (+ jitter), call depth (runtime.Callers, relative to the caller of Get) sampled inside the steps; oracle: max depth at n <= max depth at n/100 + 8 frames, and the loop's value equals a directly computed reference; non-trivial iff n >= 10^4; distinct by (n, sampling)"
		kit.Check(t, l.name+"/stack", rule, kit.Opt{Weight: pickF(0.01, 0.002), MinChecks: 5}, func(rt *rapid.T, rec *kit.Rec) {
			n := rapid.SampledFrom([]int{1000, 10000, 100000}).Draw(rt, "n") + rapid.IntRange(0, 99).Draw(rt, "jitter")
			samples := rapid.IntRange(20, 400).Draw(rt, "samples")
			rec.Case(n >= 10000, fmt.Sprintf("n=%d samples=%d", n, samples))
			rec.Label(fmt.Sprintf("n~10^%d", len(fmt.Sprint(n))-1))
			checkStack(l, sig, n, samples, rec.Beat, func(s, f string, a ...any) { rec.Failf(rt, s, f, a...) })
		})
	}

	// one deep run per loop family: 3*10^5 steps (quick) / 2*10^7 steps (thorough)
	deep := kit.Pick(300000, 20000000)
	for _, l := range loops {
		l := l
		kit.Plain(t, l.name+"/stack-deep", fmt.Sprintf("%s; single run with n = %d steps against n/100 steps; same oracle as %s/stack; non-trivial", l.what, deep, l.name), func(t *testing.T, rec *kit.Rec) {
			rec.Case(true, fmt.Sprintf("%s n=%d", l.name, deep))
			checkStack(l, "C16|"+l.name, deep, 2000, rec.Beat, func(s, f string, a ...any) { rec.PlainFail(t, s, f, a...) })
		})
	}
}

// TestStackInfo records (never decides) how the call depth of NON-tail uses behaves:
// seq.FoldRight with f(a, rest) = rest.Map(...) — the style of the repo's own
// list tests — and a left-nested FlatMap chain. The statement only promises
// constant stack for tail-recursive programs, so nothing is demanded here; the
// measured depths are put into the evidence file.
func TestStackInfo(t *testing.T) {
	kit.Plain(t, "non-tail/info", "informative, never fails: relative call depth inside the mapping functions of seq.FoldRight(xs, 0, (a,rest) => rest.Map(+a)) and of a left-nested chain Done(0).Map(f)...Map(f) for n = 100 and n = 1000; recorded under extra", func(t *testing.T, rec *kit.Rec) {
		for _, n := range []int{100, 1000} {
			rec.Case(false, fmt.Sprintf("n=%d", n))
			xs := make(fp.Seq[int], n)
			p := newProbe(1, 0)
			p.here()
			seq.FoldRight(xs, 0, func(a int, rest lazy.Eval[int]) lazy.Eval[int] {
				return rest.Map(func(v int) int { p.hit(false); return v + a })
			}).Get()
			rec.Extra(fmt.Sprintf("seq.FoldRight rest.Map depth n=%d", n), p.max)
			q := newProbe(1, 0)
			q.here()
			e := lazy.Done(0)
			for i := 0; i < n; i++ {
				e = e.Map(func(v int) int { q.hit(false); return v + 1 })
			}
			e.Get()
			rec.Extra(fmt.Sprintf("left-nested Map chain depth n=%d", n), q.max)
		}
	})
}

func checkStack(l loop, sig string, n, samples int, beat func(), failf func(sig, format string, args ...any)) {
	n0 := n / 100
	d0, got0, want0, grew0, pv0 := measure(l, n0, samples, 0, beat)
	if grew0 != nil {
		failf(sig+"|stack", "%s: call depth reached %d frames (relative; frame buffer saturated) at step %d of a run with only n=%d steps", l.name, grew0.depth, grew0.step, n0)
	}
	if pv0 != nil {
		failf(sig+"|stack|panic", "%s with n=%d panicked: %v", l.name, n0, pv0)
	}
	if got0 != want0 {
		failf(sig+"|loop-value", "%s with n=%d evaluated to %v, want %v", l.name, n0, got0, want0)
	}
	d1, got1, want1, grew, pv1 := measure(l, n, samples, d0+depthSlack+64, beat)
	if grew != nil {
		failf(sig+"|stack", "%s: call depth grows with the recursion depth: %d frames (relative) at step %d of n=%d, but at most %d frames in the whole run with n=%d", l.name, grew.depth, grew.step, n, d0, n0)
	}
	if pv1 != nil {
		failf(sig+"|stack|panic", "%s with n=%d panicked: %v", l.name, n, pv1)
	}
	if got1 != want1 {
		failf(sig+"|loop-value", "%s with n=%d evaluated to %v, want %v", l.name, n, got1, want1)
	}
	if d1 > d0+depthSlack {
		failf(sig+"|stack", "%s: max call depth %d frames at n=%d but %d frames at n=%d: stack use depends on the recursion depth", l.name, d1, n, d0, n0)
	}
}
