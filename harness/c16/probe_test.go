package c16

import (
	"fmt"
	"runtime"
	"testing"
	"time"

	"github.com/csgura/fp"
	"github.com/csgura/fp/iterator"
	"github.com/csgura/fp/lazy"
	"github.com/csgura/fp/list"
	"github.com/csgura/fp/option"
	"github.com/csgura/fp/seq"
)

var pcs [1 << 16]uintptr

func depth() int {
	return runtime.Callers(0, pcs[:])
}

func TestProbe(t *testing.T) {
	for _, n := range []int{100, 1000, 10000} {
		maxd := 0
		var cd func(k int) lazy.Eval[int]
		cd = func(k int) lazy.Eval[int] {
			if d := depth(); d > maxd {
				maxd = d
			}
			if k == 0 {
				return lazy.Done(0)
			}
			return lazy.TailCall1(cd, k-1)
		}
		st := time.Now()
		r := cd(n).Get()
		fmt.Println("countdown", n, r, maxd, time.Since(st))

		// seq.FoldRight non-tail
		xs := make(fp.Seq[int], n)
		for i := range xs {
			xs[i] = 1
		}
		maxd = 0
		st = time.Now()
		r = seq.FoldRight(xs, 0, func(a int, b lazy.Eval[int]) lazy.Eval[int] {
			return b.Map(func(v int) int {
				if d := depth(); d > maxd {
					maxd = d
				}
				return v + a
			})
		}).Get()
		fmt.Println("seq.FoldRight map", n, r, maxd, time.Since(st))
		maxd = 0
		st = time.Now()
		r = seq.FoldRight(xs, 0, func(a int, b lazy.Eval[int]) lazy.Eval[int] {
			if d := depth(); d > maxd {
				maxd = d
			}
			return b
		}).Get()
		fmt.Println("seq.FoldRight tail", n, r, maxd, time.Since(st))
		maxd = 0
		st = time.Now()
		l := list.Generate(func(i int) fp.Option[int] {
			if i < n {
				return option.Some(1)
			}
			return option.None[int]()
		})
		r = list.FoldRight(l, 0, func(a int, b lazy.Eval[int]) lazy.Eval[int] {
			if d := depth(); d > maxd {
				maxd = d
			}
			return b
		}).Get()
		fmt.Println("list.FoldRight tail", n, r, maxd, time.Since(st))
		maxd = 0
		st = time.Now()
		r = iterator.FoldRight(iterator.FromSeq(xs), 0, func(a int, b lazy.Eval[int]) lazy.Eval[int] {
			if d := depth(); d > maxd {
				maxd = d
			}
			return b
		}).Get()
		fmt.Println("iterator.FoldRight tail", n, r, maxd, time.Since(st))
	}
}
