// Code generated (python snippet, see DESIGN.md C16); DO NOT EDIT BY HAND.
// lazy.TailCall4..9: position-sensitive accumulating loops (the arguments rotate one place per step).

package c16

import "github.com/csgura/fp/lazy"

func init() {
	loops = append(loops, loop{"lazy.TailCall4", "loop f(k, a2..a4) = lazy.TailCall4(f, k-1, a3, .., a4, a2+k): the 3 accumulators rotate one place per step, result = sum of i*a_i (wrapping ints)", func(n int, p *dprobe) (any, any) {
		var f func(k, a2, a3, a4 int) lazy.Eval[int]
		f = func(k, a2, a3, a4 int) lazy.Eval[int] {
			p.hit(k < 2)
			if k == 0 {
				return lazy.Done(2*a2 + 3*a3 + 4*a4)
			}
			return lazy.TailCall4(f, k-1, a3, a4, a2+k)
		}
		// reference: the same recurrence as a plain loop
		r := []int{2, 3, 4}
		for k := n; k > 0; k-- {
			first := r[0]
			copy(r, r[1:])
			r[len(r)-1] = first + k
		}
		want := 0
		for i, v := range r {
			want += (i + 2) * v
		}
		return f(n, 2, 3, 4).Get(), want
	}})
	loops = append(loops, loop{"lazy.TailCall5", "loop f(k, a2..a5) = lazy.TailCall5(f, k-1, a3, .., a5, a2+k): the 4 accumulators rotate one place per step, result = sum of i*a_i (wrapping ints)", func(n int, p *dprobe) (any, any) {
		var f func(k, a2, a3, a4, a5 int) lazy.Eval[int]
		f = func(k, a2, a3, a4, a5 int) lazy.Eval[int] {
			p.hit(k < 2)
			if k == 0 {
				return lazy.Done(2*a2 + 3*a3 + 4*a4 + 5*a5)
			}
			return lazy.TailCall5(f, k-1, a3, a4, a5, a2+k)
		}
		// reference: the same recurrence as a plain loop
		r := []int{2, 3, 4, 5}
		for k := n; k > 0; k-- {
			first := r[0]
			copy(r, r[1:])
			r[len(r)-1] = first + k
		}
		want := 0
		for i, v := range r {
			want += (i + 2) * v
		}
		return f(n, 2, 3, 4, 5).Get(), want
	}})
	loops = append(loops, loop{"lazy.TailCall6", "loop f(k, a2..a6) = lazy.TailCall6(f, k-1, a3, .., a6, a2+k): the 5 accumulators rotate one place per step, result = sum of i*a_i (wrapping ints)", func(n int, p *dprobe) (any, any) {
		var f func(k, a2, a3, a4, a5, a6 int) lazy.Eval[int]
		f = func(k, a2, a3, a4, a5, a6 int) lazy.Eval[int] {
			p.hit(k < 2)
			if k == 0 {
				return lazy.Done(2*a2 + 3*a3 + 4*a4 + 5*a5 + 6*a6)
			}
			return lazy.TailCall6(f, k-1, a3, a4, a5, a6, a2+k)
		}
		// reference: the same recurrence as a plain loop
		r := []int{2, 3, 4, 5, 6}
		for k := n; k > 0; k-- {
			first := r[0]
			copy(r, r[1:])
			r[len(r)-1] = first + k
		}
		want := 0
		for i, v := range r {
			want += (i + 2) * v
		}
		return f(n, 2, 3, 4, 5, 6).Get(), want
	}})
	loops = append(loops, loop{"lazy.TailCall7", "loop f(k, a2..a7) = lazy.TailCall7(f, k-1, a3, .., a7, a2+k): the 6 accumulators rotate one place per step, result = sum of i*a_i (wrapping ints)", func(n int, p *dprobe) (any, any) {
		var f func(k, a2, a3, a4, a5, a6, a7 int) lazy.Eval[int]
		f = func(k, a2, a3, a4, a5, a6, a7 int) lazy.Eval[int] {
			p.hit(k < 2)
			if k == 0 {
				return lazy.Done(2*a2 + 3*a3 + 4*a4 + 5*a5 + 6*a6 + 7*a7)
			}
			return lazy.TailCall7(f, k-1, a3, a4, a5, a6, a7, a2+k)
		}
		// reference: the same recurrence as a plain loop
		r := []int{2, 3, 4, 5, 6, 7}
		for k := n; k > 0; k-- {
			first := r[0]
			copy(r, r[1:])
			r[len(r)-1] = first + k
		}
		want := 0
		for i, v := range r {
			want += (i + 2) * v
		}
		return f(n, 2, 3, 4, 5, 6, 7).Get(), want
	}})
	loops = append(loops, loop{"lazy.TailCall8", "loop f(k, a2..a8) = lazy.TailCall8(f, k-1, a3, .., a8, a2+k): the 7 accumulators rotate one place per step, result = sum of i*a_i (wrapping ints)", func(n int, p *dprobe) (any, any) {
		var f func(k, a2, a3, a4, a5, a6, a7, a8 int) lazy.Eval[int]
		f = func(k, a2, a3, a4, a5, a6, a7, a8 int) lazy.Eval[int] {
			p.hit(k < 2)
			if k == 0 {
				return lazy.Done(2*a2 + 3*a3 + 4*a4 + 5*a5 + 6*a6 + 7*a7 + 8*a8)
			}
			return lazy.TailCall8(f, k-1, a3, a4, a5, a6, a7, a8, a2+k)
		}
		// reference: the same recurrence as a plain loop
		r := []int{2, 3, 4, 5, 6, 7, 8}
		for k := n; k > 0; k-- {
			first := r[0]
			copy(r, r[1:])
			r[len(r)-1] = first + k
		}
		want := 0
		for i, v := range r {
			want += (i + 2) * v
		}
		return f(n, 2, 3, 4, 5, 6, 7, 8).Get(), want
	}})
	loops = append(loops, loop{"lazy.TailCall9", "loop f(k, a2..a9) = lazy.TailCall9(f, k-1, a3, .., a9, a2+k): the 8 accumulators rotate one place per step, result = sum of i*a_i (wrapping ints)", func(n int, p *dprobe) (any, any) {
		var f func(k, a2, a3, a4, a5, a6, a7, a8, a9 int) lazy.Eval[int]
		f = func(k, a2, a3, a4, a5, a6, a7, a8, a9 int) lazy.Eval[int] {
			p.hit(k < 2)
			if k == 0 {
				return lazy.Done(2*a2 + 3*a3 + 4*a4 + 5*a5 + 6*a6 + 7*a7 + 8*a8 + 9*a9)
			}
			return lazy.TailCall9(f, k-1, a3, a4, a5, a6, a7, a8, a9, a2+k)
		}
		// reference: the same recurrence as a plain loop
		r := []int{2, 3, 4, 5, 6, 7, 8, 9}
		for k := n; k > 0; k-- {
			first := r[0]
			copy(r, r[1:])
			r[len(r)-1] = first + k
		}
		want := 0
		for i, v := range r {
			want += (i + 2) * v
		}
		return f(n, 2, 3, 4, 5, 6, 7, 8, 9).Get(), want
	}})
}
