package gomspec

import (
	"fmt"
	"os"
	"strings"
	"testing"
	"time"

	"github.com/csgura/fp/genfp"
	"pgregory.net/rapid"

	"verifharness/kit"
	"verifharness/scratch"
)

// ExcludeFragile lists field names removed from the generator because they are recorded known findings.
var ExcludeFragile = map[string]bool{}

// ExcludeShapes lists grammar shapes switched off because they are recorded known findings
// (VERIF_C07_EXCLUDE_SHAPES, comma separated). Shapes: deref-unnamed-param, deref-blank-param, deref-variadic,
// deref-param-r (a method of the type behind an @fp.Deref type with such a parameter list),
// deref-unexported-xpkg (an unexported method on a base type of another package), useshow-error-typed-var (a
// package-level variable of type error in a package using @fp.String(useShow=true)), pubfield-generic-base
// (@fp.GetterPubField / @fp.WithPubField on a defined type over a same-package generic struct whose type
// parameter X instantiates or renames), deref-hand-into-generic (a hand-written generic IntoX next to a generic
// @fp.Deref type), json-any-untagged (a field of type `any` without json tag in an @fp.Json / @fp.JsonTag struct;
// the twin expects omitempty as for every other nilable field).
var ExcludeShapes = map[string]bool{}

// IncludeShapes switches on productions that are off by default (VERIF_C07_INCLUDE_SHAPES): deref (defined types
// under @fp.Deref, outside C07's statement; see drawPkg).
var IncludeShapes = map[string]bool{}

func init() {
	if v := os.Getenv("VERIF_C07_EXCLUDE_NAMES"); v != "" {
		for _, n := range strings.Split(v, ",") {
			ExcludeFragile[n] = true
		}
	}
	if v := os.Getenv("VERIF_C07_INCLUDE_SHAPES"); v != "" {
		for _, n := range strings.Split(v, ",") {
			IncludeShapes[strings.TrimSpace(n)] = true
		}
	}
	if v := os.Getenv("VERIF_C07_EXCLUDE_SHAPES"); v != "" {
		for _, n := range strings.Split(v, ",") {
			ExcludeShapes[strings.TrimSpace(n)] = true
		}
	}
}

// drawPkg draws a package spec. jsonOnly: the C15 variant (every struct under @fp.Json, no @fp.Deref types).
// allowPb: base types of @fp.Deref types may live in a second package scratch/pb (needs pbSource written).
// withDeref: also draw `// @fp.Deref` defined types. C07's statement speaks of struct declarations under @fp.Value
// and its annotation family; a defined type `type X Y` under @fp.Deref is not one, and no listed property states
// what its forwarding methods must do. The production (deref.go) is therefore used for C13's determinism inputs
// only, and for C07 only on request (VERIF_C07_INCLUDE_SHAPES=deref, exploration; see DESIGN.md 10.3).
func drawPkg(rt *rapid.T, jsonOnly, allowPb, withDeref bool) pkgSpec {
	n := rapid.IntRange(1, 4).Draw(rt, "nstructs")
	var p pkgSpec
	if !jsonOnly && rapid.IntRange(0, 11).Draw(rt, "plainWidePackage") == 0 {
		// one labelled struct beyond the tuple limit and nothing else: the generated file has no other use for
		// package fp than the per-name declarations
		n = 1
		forcePlainWide = true
	}
	if !forcePlainWide && rapid.IntRange(0, 7).Draw(rt, "userPackageNamedAs") == 0 {
		userAsPackage = true
	}
	for i := 0; i < n; i++ {
		p.structs = append(p.structs, drawStruct(rt, i+1, ExcludeFragile, jsonOnly))
	}
	forcePlainWide = false
	userAsPackage = false
	if !jsonOnly && withDeref && rapid.IntRange(0, 2).Draw(rt, "derefs") == 0 {
		nd := rapid.IntRange(1, 2).Draw(rt, "nderefs")
		for i := 0; i < nd; i++ {
			p.derefs = append(p.derefs, drawDeref(rt, i+1, allowPb))
		}
	}
	return p
}

type outcome struct {
	sig string
	msg string
}

// runPackage renders the spec, runs gombok, compiles, runs the law test. prop = "C07" or "C15".
func runPackage(p pkgSpec) (fails []outcome, stage string) {
	m, err := scratch.NewModule()
	if err != nil {
		return []outcome{{"infra", err.Error()}}, "infra"
	}
	defer m.Remove()
	if err := m.WriteFile("pa/types.go", p.sourceFixed()); err != nil {
		return []outcome{{"infra", err.Error()}}, "infra"
	}
	if p.usesUserAs() {
		if err := m.WriteFile("as/as.go", UserAsSource); err != nil {
			return []outcome{{"infra", err.Error()}}, "infra"
		}
	}
	if pb := p.pbSource(); pb != "" {
		// hand-written package holding base types of @fp.Deref types; gombok is not run on it
		if err := m.WriteFile("pb/types.go", pb); err != nil {
			return []outcome{{"infra", err.Error()}}, "infra"
		}
	}
	// the input package itself must compile (harness sanity). A hand-written half of the JSON pair calls the
	// generated AsMutable/AsImmutable, as user code does, so the sanity build runs on the text without it.
	bare := p.withoutHandJson()
	if bare.sourceFixed() != p.sourceFixed() {
		if err := m.WriteFile("pa/types.go", bare.sourceFixed()); err != nil {
			return []outcome{{"infra", err.Error()}}, "infra"
		}
	}
	if r := m.Go(180*time.Second, "build", "./pa"); r.ExitCode != 0 {
		return []outcome{{"infra|input-does-not-compile", scratch.FirstError(r.Out) + "\n" + bare.sourceFixed() + "\n" + p.pbSource()}}, "infra"
	}
	if bare.sourceFixed() != p.sourceFixed() {
		if err := m.WriteFile("pa/types.go", p.sourceFixed()); err != nil {
			return []outcome{{"infra", err.Error()}}, "infra"
		}
	}
	g := m.RunGombok("pa", "pa")
	if g.TimedOut {
		return []outcome{{"gombok|timeout", "gombok did not finish within 120 s"}}, "gombok"
	}
	if scratch.ToolchainTrouble(g.Out) {
		return []outcome{{"infra|toolchain-trouble", clip(g.Out, 600)}}, "infra"
	}
	if g.ExitCode != 0 || strings.Contains(g.Out, "panic:") || strings.Contains(g.Out, "goroutine ") {
		first := ""
		for _, l := range strings.Split(g.Out, "\n") {
			if strings.HasPrefix(l, "panic:") {
				first = l
				break
			}
		}
		if first == "" {
			first = scratch.FirstError(g.Out)
		}
		return []outcome{{"gombok-failed|" + scratch.ErrorClass(first), "gombok exit " + fmt.Sprint(g.ExitCode) + ": " + clip(g.Out, 1500)}}, "gombok"
	}
	gen := m.ReadFile("pa/pa_value_generated.go")
	if gen == "" && p.mustEmit() {
		return []outcome{{"gombok|no-output", "gombok wrote no pa_value_generated.go; output: " + clip(g.Out, 800)}}, "gombok"
	}
	if r := m.Go(180*time.Second, "build", "./pa"); r.ExitCode != 0 {
		if scratch.ToolchainTrouble(r.Out) || r.TimedOut {
			return []outcome{{"infra|toolchain-trouble", clip(r.Out, 600)}}, "infra"
		}
		fe := scratch.FirstError(r.Out)
		return []outcome{{"compile|" + scratch.ErrorClass(stripPos(fe)), "generated code does not compile: " + clip(r.Out, 1500)}}, "compile"
	}
	law := strings.Replace(scratch.LawLib, "package PKGNAME", "package pa", 1)
	_ = m.WriteFile("pa/zz_law_test.go", law)
	_ = m.WriteFile("pa/zz_cases_test.go", p.cases(genfp.MaxProduct, gen))
	r, _, died := m.GoTestLaws(300 * time.Second)
	if r.TimedOut {
		return []outcome{{"law|timeout", "law test did not finish"}}, "law"
	}
	if died {
		return []outcome{{"infra|law-test-died", fmt.Sprintf("go test ended with exit code %d three times without a failing law, a panic or a build error: %s", r.ExitCode, clip(r.Out, 800))}}, "infra"
	}
	seen := map[string]bool{}
	for _, l := range strings.Split(r.Out, "\n") {
		if strings.HasPrefix(l, "LAWFAIL\t") {
			parts := strings.SplitN(l, "\t", 4)
			if len(parts) == 4 && !seen[parts[2]] {
				seen[parts[2]] = true
				fails = append(fails, outcome{"law|" + parts[2], parts[1] + ": " + parts[3]})
			}
		}
	}
	if len(fails) == 0 && r.ExitCode != 0 {
		if strings.Contains(r.Out, "[build failed]") || strings.Contains(r.Out, "[setup failed]") {
			// the emitted law test does not compile against the generated code: harness problem, not a violation
			return []outcome{{"infra|law-test-does-not-compile", clip(r.Out, 2500)}}, "infra"
		}
		return []outcome{{"law|crash", clip(r.Out, 2000)}}, "law"
	}
	if len(fails) == 0 && !strings.Contains(r.Out, "LAWS-OK") {
		return []outcome{{"infra|law-test-did-not-run", clip(r.Out, 1500)}}, "infra"
	}
	return fails, "law"
}

// gombok deliberately emits nothing for a struct none of whose fields it applies (processValue returns
// early when applyFields is empty), for @fp.Getter / @fp.With without private fields, for @fp.GetterPubField /
// @fp.WithPubField without public fields and for @fp.Deref on a plain identifier, and it writes no file when
// nothing at all was emitted. So a missing output file is a violation only if some declaration has a member
// gombok must emit; otherwise the law test below runs against the package as it is and decides.
func (p pkgSpec) mustEmit() bool {
	for _, s := range p.structs {
		priv, pub, app := 0, 0, 0
		for _, f := range s.fields {
			if f.applied() {
				app++
			}
			if f.private() && f.name != s.handGet && f.name != s.handWith {
				priv++
			}
			if f.plainPublic() && f.name != s.handGetPub && f.name != s.handWithPub {
				pub++
			}
		}
		if s.value && app > 0 {
			return true
		}
		if app > 0 && (s.builder || s.str || s.allArgs || s.reqArgs) {
			return true
		}
		if (s.getter || s.with) && priv > 0 {
			return true
		}
		if (s.getterPub || s.withPub) && pub > 0 {
			return true
		}
	}
	for _, d := range p.derefs {
		if d.rhsForm() != "ident" && !(d.handDeref && d.handInto) {
			return true
		}
	}
	return false
}

func (p pkgSpec) withoutHandJson() pkgSpec {
	q := p
	q.structs = append([]structSpec(nil), p.structs...)
	for i := range q.structs {
		q.structs[i].handJson = ""
	}
	return q
}

func stripPos(s string) string {
	if i := strings.Index(s, ": "); i >= 0 {
		return s[i+2:]
	}
	return s
}

func clip(s string, n int) string {
	if len(s) > n {
		return s[:n] + "…"
	}
	return s
}

const ruleC07 = "package spec drawn from a grammar: 1-4 structs under @fp.Value (+ optional @fp.Json [one of MarshalJSON/UnmarshalJSON hand-written in a quarter of them]/@fp.JsonTag/@fp.GenLabelled, doc comment on the type or inside a type group) or the explicit family @fp.Getter/@fp.With/@fp.Builder/@fp.String[(useShow=true) with a hand-written Show instance]/@fp.AllArgsConstructor, plus @fp.RequiredArgsConstructor, @fp.GetterPubField, @fp.WithPubField, fp:\"String.Exclude\" field tags; in a third of the packages 1-2 @fp.Deref types `type D Base...` over a struct type with 0-2 type parameters and drawn methods (value/pointer receivers, with/without results), written as identifier, qualified identifier (second package pb) or instantiation, members declared by hand; 1-25 fields (private / Public / _underscore / embedded empty and non-empty; ordinary names incl. the short ones the generator uses itself: r v t m ok b err s w i), types: basic, named (time.Time, local, aliases, in 1 package of 8 a type of a user package that is itself called `as` like gombok's helper package), pointer, slice, array, map, func, chan, interfaces (any, error, named, inline), fp.Option/Seq/Map/Try/Tuple2/Either, type parameters with any/comparable/fmt.Stringer/inline constraints, struct tags, hand-written members; 2-3 literal values per struct. Pipeline: gombok from the tree under test -> go build -> reflective law test inside the package. Non-trivial iff a struct mixes >= 3 field kinds or has a type parameter; distinct by rendered spec"

// PkgCheck registers one sub-check running generated packages through gombok.
// prop "C07": all laws except the JSON clauses; prop "C15": only the JSON clauses.
// DrawValueSource draws a package from the C07 grammar and returns its source text (pa/types.go) and a
// few labels. Used by C13, whose determinism clause ranges over "the scratch packages of C07/C08".
func DrawValueSource(rt *rapid.T) (src string, labels []string) {
	// a single file: base types of @fp.Deref types stay inside the package
	p := drawPkg(rt, false, false, true)
	n := len(p.structs)
	seen := map[string]bool{}
	add := func(l string) {
		if !seen[l] {
			seen[l] = true
			labels = append(labels, l)
		}
	}
	add(fmt.Sprintf("structs:%d", n))
	names := map[string]bool{}
	for _, s := range p.structs {
		for _, a := range s.annotations() {
			add("ann:" + a)
		}
		if len(s.params) > 0 {
			add("generic")
		}
		for _, f := range s.fields {
			names[f.name] = true
		}
	}
	for a := range names {
		for b := range names {
			if a < b && numericTie(a, b) {
				add("numeric-tie-names")
			}
		}
	}
	for _, d := range p.derefs {
		add("ann:@fp.Deref")
		add("deref-rhs:" + d.rhsForm())
	}
	return p.sourceFixed(), labels
}

// numericTie: same letters, trailing numbers of equal value (absent counts as 0).
func numericTie(a, b string) bool {
	split := func(s string) (string, string) {
		i := len(s)
		for i > 0 && s[i-1] >= '0' && s[i-1] <= '9' {
			i--
		}
		return s[:i], strings.TrimLeft(s[i:], "0")
	}
	ap, an := split(a)
	bp, bn := split(b)
	return ap == bp && an == bn
}

func PkgCheck(t *testing.T, name string, jsonOnly bool, prop string, casesPerProcess int) {
	kit.Check(t, name, ruleC07, kit.Opt{Abs: casesPerProcess, HangAfter: 20 * time.Minute}, func(rt *rapid.T, rec *kit.Rec) {
		p := drawPkg(rt, jsonOnly, true, IncludeShapes["deref"])
		nt := false
		for _, s := range p.structs {
			kinds := map[string]bool{}
			for _, f := range s.fields {
				kinds[f.t.kind] = true
				rec.Label("kind:" + f.t.kind)
				if strings.HasPrefix(f.name, "_") {
					rec.Label("field:underscore")
				} else if f.embedded {
					rec.Label("field:embedded")
				} else if !f.private() {
					rec.Label("field:public")
				} else if len(f.name) <= 3 {
					rec.Label("field:short-name")
				}
			}
			if len(kinds) >= 3 || len(s.params) > 0 {
				nt = true
			}
			for _, a := range s.annotations() {
				rec.Label("ann:" + a)
			}
			if len(s.params) > 0 {
				rec.Label("generic")
			}
			if len(s.fields) >= 22 {
				rec.Label("fields>=22")
			}
			for _, f := range s.fields {
				if f.strExclude {
					rec.Label("tag:fp-String.Exclude")
				} else if strings.Contains(f.tag, "fp:") {
					rec.Label("tag:fp-other")
				}
			}
			if s.useShow != "" {
				rec.Label("useShow-instance:" + s.useShow)
			}
			if s.handGetPub != "" || s.handWithPub != "" {
				rec.Label("hand:pub-member")
			}
			if s.handJson != "" {
				rec.Label("hand:json-" + s.handJson)
			}
			for _, f := range s.fields {
				if strings.Contains(f.t.expr, "as.Level") {
					rec.Label("user-package-named-as")
				}
			}
		}
		for _, d := range p.derefs {
			nt = true
			for _, a := range d.annotations() {
				rec.Label("ann:" + a)
			}
			rec.Label("deref-rhs:" + d.rhsForm())
			for _, sh := range d.shapes() {
				rec.Label("shape:" + sh)
			}
			if len(d.handMeths) > 0 || d.handDeref || d.handInto {
				rec.Label("deref:hand-member")
			}
			for _, m := range d.methods {
				rec.Label("deref-method:" + m.name)
			}
		}
		rec.Case(nt, p.describe())
		fails, stage := runPackage(p)
		rec.Label("stage:" + stage)
		for _, f := range fails {
			if strings.HasPrefix(f.sig, "infra") {
				// a harness problem must never look like a violation of the property
				rec.Failf(rt, "HARNESS|"+f.sig, "harness problem (not a property violation): %s", f.msg)
			}
		}
		for _, f := range fails {
			isJson := strings.HasPrefix(f.sig, "law|json")
			if (prop == "C15") != isJson {
				continue // JSON clauses are decided by the C15 sub-check only, everything else by C07
			}
			rec.Failf(rt, prop+"|"+f.sig, "%s\nspec:\n%s", f.msg, p.describe())
		}
	})
}
