package gomspec

import (
	"fmt"
	"strconv"
	"strings"

	"pgregory.net/rapid"
)

// ---- @fp.Deref ----------------------------------------------------------------------------
//
// `// @fp.Deref` on a defined type `type X <named type Y>` (examples: testpk2.AliasedStruct
// `type AliasedStruct testpk1.DefinedOtherPackage`, docexample `type OptionalInt fp.Option[int]`,
// `type MapEntry[K, V any] fp.Tuple2[K, V]`) makes gombok emit
//
//	func (r X) Deref() Y          the conversion back
//	func IntoX(v Y) X             the conversion forth
//	func (r X) M(args) results    one forwarding method per method M of Y (pointer receiver where Y's is)
//
// except for the members X declares by hand. Together with @fp.GetterPubField / @fp.WithPubField a GetF / WithF
// that Y itself declares is forwarded rather than generated, unless the annotation says (override=true).
//
// gombok recognises the right-hand side only when it is written as a qualified identifier (pb.Y) or an
// instantiation (Y[int], Y[A, B]); for a plain same-package identifier (`type X Y`) it emits no Deref member at
// all. No example or document shows that form, so the grammar produces it (rhs form "ident") but the laws
// require nothing of it; what is emitted must still compile and, where present, obey the laws.

// methSpec is one method of the base type Y. Templates use $B (Y's receiver type with its type parameters),
// $T (the type of field Pub as Y sees it), $TL (a literal of Pub's type as the law test sees it), $X (X's
// receiver type) and $XT (the type of Pub as X sees it).
type methSpec struct {
	name  string
	decl  string // declaration on Y
	args  string // argument list of the law test's call, a Go expression list
	hand  string // declaration X may carry by hand instead ("" = never hand-declared)
	shape string // grammar shape id this method stands for (see ExcludeShapes), "" = ordinary
	p     int    // drawn with probability p/100
}

var methPool = []methSpec{
	{name: "Describe", p: 45,
		decl: `func (b $B) Describe() string { return fmt.Sprint("d:", b.Pub, b.Num, b.priv) }`,
		hand: `func (x $X) Describe() string { return "by hand" }`},
	{name: "Add", p: 40,
		decl: `func (b $B) Add(n int, s string) (int, string) { return b.Num + n, s + b.priv }`,
		args: `7, "q"`},
	{name: "Incr", p: 40,
		decl: `func (b *$B) Incr(by int) { b.Num += by }`,
		args: `3`,
		hand: `func (x *$X) Incr(by int) {}`},
	{name: "Bump", p: 40,
		decl: `func (b *$B) Bump() int { b.Num++; return b.Num }`,
		hand: `func (x *$X) Bump() int { return -1 }`},
	{name: "Log", p: 30,
		decl: `func (b $B) Log(out *[]string) { *out = append(*out, fmt.Sprint(b.Num, b.priv)) }`,
		args: `new([]string)`},
	{name: "First", p: 35,
		decl: `func (b $B) First() $T { return b.Pub }`,
		hand: `func (x $X) First() $XT { var z $XT; return z }`},
	{name: "SetPub", p: 30,
		decl: `func (b *$B) SetPub(v $T, n int) { b.Pub = v; b.Num = n }`,
		args: `$TL, 5`},
	{name: "Pair", p: 30,
		decl: `func (b $B) Pair(o $T) ($T, $T) { return b.Pub, o }`,
		args: `$TL`},
	{name: "Split", p: 25,
		decl: `func (b $B) Split() (lo, hi int) { return b.Num - 1, b.Num + 1 }`},
	{name: "After", p: 25,
		decl: `func (b $B) After(d time.Duration, f func(int) bool) time.Duration { if f != nil && f(b.Num) { return d * 2 }; return d }`,
		args: `time.Second, func(i int) bool { return i%2 == 0 }`},
	{name: "Self", p: 25,
		decl: `func (b $B) Self() $B { b.Num += 100; return b }`},
	// a GetF / WithF of Y's own: forwarded unless (override=true)
	{name: "GetNum", p: 40,
		decl: `func (b $B) GetNum() int { return -b.Num - 1 }`,
		hand: `func (x $X) GetNum() int { return 12345 }`},
	{name: "GetPub", p: 20,
		decl: `func (b *$B) GetPub() $T { return b.Pub }`},
	{name: "WithPub", p: 35,
		decl: `func (b $B) WithPub(v $T) $B { b.Pub = v; b.Num += 1000; return b }`,
		args: `$TL`},
	{name: "hidden", p: 25,
		decl: `func (b $B) hidden() int { return b.Num }`},
	// parameter lists that are legal Go but unusual
	{name: "Scale", p: 6, shape: "deref-unnamed-param",
		decl: `func (b $B) Scale(int) int { return b.Num * 2 }`,
		args: `3`},
	{name: "Skip", p: 6, shape: "deref-blank-param",
		decl: `func (b $B) Skip(_ int, k int) int { return b.Num + k }`,
		args: `1, 2`},
	{name: "Sum", p: 6, shape: "deref-variadic",
		decl: `func (b $B) Sum(xs ...int) int { n := b.Num; for _, x := range xs { n += x }; return n }`,
		args: `1, 2`},
	{name: "Mul", p: 6, shape: "deref-param-r",
		decl: `func (b $B) Mul(r int) int { return b.Num * r }`,
		args: `3`},
}

type derefSpec struct {
	name         string // D1: the defined type
	base         string // Base1: the type on the right-hand side
	pb           bool   // the base lives in package scratch/pb
	nparams      int    // type parameters of the base: 0 (Pub string), 1 ([T any]), 2 ([T any, K comparable])
	genericX     bool   // `type D1[T any] Base1[T]` rather than an instantiation
	renamed      bool   // ... with parameter names of its own: `type D1[V any] Base1[V]`
	instT, instK ty
	tl           string // literal of T used as method argument
	methods      []methSpec
	handMeths    []string // methods D1 declares by hand
	handDeref    bool
	handInto     bool
	getterPub    bool
	withPub      bool
	getOverride  bool
	withOverride bool
	docOnSpec    bool
	values       [][]string // pub, key, num, priv
}

// rhsForm names how gombok sees the right-hand side.
func (d derefSpec) rhsForm() string {
	f := ""
	switch {
	case d.nparams == 0 && d.pb:
		f = "selector"
	case d.nparams == 0:
		f = "ident"
	case d.nparams == 1:
		f = "index"
	default:
		f = "indexlist"
	}
	if d.pb && d.nparams > 0 {
		f = "selector-" + f
	}
	if d.genericX {
		f = "generic-" + f
	}
	return f
}

// pubFieldOverGeneric: would @fp.GetterPubField / @fp.WithPubField have to name the type of a field that the
// base declares as its type parameter, under another name (an instantiation, or X's own parameter names)?
func (d derefSpec) pubFieldOverGeneric() bool {
	return d.nparams > 0 && !d.pb && (!d.genericX || d.renamed)
}

func (d derefSpec) shapes() []string {
	var r []string
	if d.pubFieldOverGeneric() && (d.getterPub || d.withPub) {
		r = append(r, "pubfield-generic-base")
	}
	if d.handInto && d.genericX {
		r = append(r, "deref-hand-into-generic")
	}
	for _, m := range d.methods {
		if m.shape != "" {
			r = append(r, m.shape)
		}
		if m.name == "hidden" && d.pb {
			r = append(r, "deref-unexported-xpkg")
		}
	}
	return r
}

func (d derefSpec) pkgPrefix() string {
	if d.pb {
		return "pb."
	}
	return ""
}

// names of the type parameters
func (d derefSpec) paramNames() string {
	switch d.nparams {
	case 1:
		return "[T]"
	case 2:
		return "[T, K]"
	}
	return ""
}

func (d derefSpec) paramDecl() string {
	switch d.nparams {
	case 1:
		return "[T any]"
	case 2:
		return "[T any, K comparable]"
	}
	return ""
}

func (d derefSpec) instArgs() string {
	switch d.nparams {
	case 1:
		return "[" + d.instT.expr + "]"
	case 2:
		return "[" + d.instT.expr + ", " + d.instK.expr + "]"
	}
	return ""
}

// the base type as the law test (and an instantiating declaration) names it
func (d derefSpec) baseInst() string { return d.pkgPrefix() + d.base + d.instArgs() }

// the defined type as the law test names it
func (d derefSpec) xInst() string {
	if d.genericX {
		return d.name + d.instArgs()
	}
	return d.name
}

// type parameters of a generic X
func (d derefSpec) xParamNames() string {
	if d.renamed {
		return strings.NewReplacer("T", "V", "K", "W").Replace(d.paramNames())
	}
	return d.paramNames()
}

func (d derefSpec) xParamDecl() string {
	if d.renamed {
		return strings.NewReplacer("T any", "V any", "K comparable", "W comparable").Replace(d.paramDecl())
	}
	return d.paramDecl()
}

// X's receiver type inside package pa
func (d derefSpec) xRecv() string {
	if d.genericX {
		return d.name + d.xParamNames()
	}
	return d.name
}

// the right-hand side as X's declaration writes it
func (d derefSpec) rhs() string {
	if d.genericX {
		return d.pkgPrefix() + d.base + d.xParamNames()
	}
	return d.baseInst()
}

func (d derefSpec) tInBase() string {
	if d.nparams == 0 {
		return "string"
	}
	return "T"
}

func (d derefSpec) tInX() string {
	if d.nparams == 0 {
		return "string"
	}
	if d.genericX {
		if d.renamed {
			return "V"
		}
		return "T"
	}
	return d.instT.expr
}

func (d derefSpec) repl() *strings.Replacer {
	// longer placeholders first
	return strings.NewReplacer("$XT", d.tInX(), "$TL", d.tl, "$X", d.xRecv(), "$B", d.base+d.paramNames(), "$T", d.tInBase())
}

func (d derefSpec) hasMethod(n string) bool {
	for _, m := range d.methods {
		if m.name == n {
			return true
		}
	}
	return false
}

func (d derefSpec) isHand(n string) bool {
	for _, h := range d.handMeths {
		if h == n {
			return true
		}
	}
	return false
}

func (d derefSpec) pubFields() []string {
	if d.nparams == 2 {
		return []string{"Pub", "Key", "Num"}
	}
	return []string{"Pub", "Num"}
}

func drawDeref(t *rapid.T, idx int, allowPb bool) derefSpec {
	d := derefSpec{name: fmt.Sprintf("D%d", idx), base: fmt.Sprintf("Base%d", idx)}
	d.nparams = rapid.SampledFrom([]int{0, 0, 1, 1, 1, 2}).Draw(t, "baseParams")
	if allowPb {
		d.pb = rapid.IntRange(0, 2).Draw(t, "basePkg") != 0
		if d.nparams == 0 && !d.pb && rapid.Bool().Draw(t, "avoidIdent") {
			// the plain-identifier form is inert; keep it rare
			d.pb = true
		}
	}
	if d.nparams > 0 {
		d.genericX = rapid.IntRange(0, 2).Draw(t, "genericX") == 0
		if d.genericX {
			d.renamed = rapid.Bool().Draw(t, "renamedParams")
		}
	}
	insts := []ty{basicTypes()[0], basicTypes()[7]} // int, string
	d.instT = rapid.SampledFrom(insts).Draw(t, "instT")
	d.instK = rapid.SampledFrom(insts).Draw(t, "instK")
	if d.nparams == 0 {
		d.instT = basicTypes()[7]
	}
	d.tl = d.instT.lit(t)
	for _, m := range methPool {
		if m.shape != "" {
			// rare (1/16): rapid's integer ranges favour small values, so four fair coins instead
			rare := true
			for i := 0; i < 4; i++ {
				rare = rapid.Bool().Draw(t, "rare:"+m.name) && rare
			}
			if !rare {
				continue
			}
		} else if rapid.IntRange(0, 99).Draw(t, "meth:"+m.name) >= m.p {
			continue
		}
		if m.shape != "" && ExcludeShapes[m.shape] {
			continue
		}
		if m.name == "hidden" && d.pb && ExcludeShapes["deref-unexported-xpkg"] {
			continue
		}
		d.methods = append(d.methods, m)
	}
	d.getterPub = rapid.IntRange(0, 2).Draw(t, "deref+@GetterPubField") == 0
	d.withPub = rapid.IntRange(0, 2).Draw(t, "deref+@WithPubField") == 0
	if d.pubFieldOverGeneric() && ExcludeShapes["pubfield-generic-base"] {
		d.getterPub, d.withPub = false, false
	}
	if d.getterPub {
		d.getOverride = rapid.IntRange(0, 2).Draw(t, "getOverride") == 0
	}
	if d.withPub {
		d.withOverride = rapid.IntRange(0, 2).Draw(t, "withOverride") == 0
	}
	// members X declares by hand: not generated again
	for _, m := range d.methods {
		if m.hand != "" && rapid.IntRange(0, 5).Draw(t, "hand:"+m.name) == 0 {
			d.handMeths = append(d.handMeths, m.name)
		}
	}
	d.handDeref = rapid.IntRange(0, 7).Draw(t, "handDeref") == 0
	d.handInto = rapid.IntRange(0, 7).Draw(t, "handInto") == 0
	if d.handInto && d.genericX && ExcludeShapes["deref-hand-into-generic"] {
		d.handInto = false
	}
	d.docOnSpec = rapid.IntRange(0, 3).Draw(t, "derefDocOnSpec") == 0
	nv := rapid.IntRange(2, 3).Draw(t, "derefValues")
	for v := 0; v < nv; v++ {
		d.values = append(d.values, []string{d.instT.lit(t), d.instK.lit(t), intLit(t), strLit(t)})
	}
	return d
}

func (d derefSpec) annotations() []string {
	a := []string{"@fp.Deref"}
	if d.getterPub {
		if d.getOverride {
			a = append(a, "@fp.GetterPubField(override=true)")
		} else {
			a = append(a, "@fp.GetterPubField")
		}
	}
	if d.withPub {
		if d.withOverride {
			a = append(a, "@fp.WithPubField(override=true)")
		} else {
			a = append(a, "@fp.WithPubField")
		}
	}
	return a
}

// baseSource renders the base type, its constructor and its methods (package-neutral text).
func (d derefSpec) baseSource() string {
	var sb strings.Builder
	r := d.repl()
	fmt.Fprintf(&sb, "\n// %s is the type behind %s.\ntype %s%s struct {\n\tPub %s\n", d.base, d.name, d.base, d.paramDecl(), d.tInBase())
	if d.nparams == 2 {
		sb.WriteString("\tKey K\n")
	}
	sb.WriteString("\tNum int\n\tpriv string\n}\n\n")
	recv := d.base + d.paramNames()
	if d.nparams == 2 {
		fmt.Fprintf(&sb, "func Mk%s%s(pub T, key K, num int, priv string) %s { return %s{Pub: pub, Key: key, Num: num, priv: priv} }\n", d.base, d.paramDecl(), recv, recv)
	} else {
		fmt.Fprintf(&sb, "func Mk%s%s(pub %s, num int, priv string) %s { return %s{Pub: pub, Num: num, priv: priv} }\n", d.base, d.paramDecl(), d.tInBase(), recv, recv)
	}
	for _, m := range d.methods {
		sb.WriteString("\n" + r.Replace(m.decl) + "\n")
	}
	return sb.String()
}

// source renders the annotated defined type and its hand-written members (package pa).
func (d derefSpec) source() string {
	var sb strings.Builder
	r := d.repl()
	var doc strings.Builder
	fmt.Fprintf(&doc, "// %s is a generated test type.\n", d.name)
	for _, a := range d.annotations() {
		fmt.Fprintf(&doc, "// %s\n", a)
	}
	xdecl := d.name
	if d.genericX {
		xdecl += d.xParamDecl()
	}
	if d.docOnSpec {
		sb.WriteString("\ntype (\n")
		for _, l := range strings.Split(strings.TrimRight(doc.String(), "\n"), "\n") {
			sb.WriteString("\t" + l + "\n")
		}
		fmt.Fprintf(&sb, "\t%s %s\n)\n", xdecl, d.rhs())
	} else {
		fmt.Fprintf(&sb, "\n%stype %s %s\n", doc.String(), xdecl, d.rhs())
	}
	for _, m := range d.methods {
		if d.isHand(m.name) {
			sb.WriteString("\n// declared by hand: the generator must not emit a second one\n" + r.Replace(m.hand) + "\n")
		}
	}
	if d.handDeref {
		fmt.Fprintf(&sb, "\n// declared by hand\nfunc (x %s) Deref() %s { return %s(x) }\n", d.xRecv(), d.rhs(), d.rhs())
	}
	if d.handInto {
		pd := ""
		if d.genericX {
			pd = d.xParamDecl()
		}
		fmt.Fprintf(&sb, "\n// declared by hand\nfunc Into%s%s(v %s) %s { return %s(v) }\n", d.name, pd, d.rhs(), d.xRecv(), d.xRecv())
	}
	return sb.String()
}

func (d derefSpec) valueExpr(v []string) string {
	mk := d.pkgPrefix() + "Mk" + d.base + d.instArgs()
	if d.nparams == 2 {
		return fmt.Sprintf("%s(%s(%s, %s, %s, %s))", d.xInst(), mk, v[0], v[1], v[2], v[3])
	}
	return fmt.Sprintf("%s(%s(%s, %s, %s))", d.xInst(), mk, v[0], v[2], v[3])
}

// lawCase renders the entry of derefCases.
func (d derefSpec) lawCase(gen string) string {
	var sb strings.Builder
	r := d.repl()
	fmt.Fprintf(&sb, "\t{\n\t\tName: %q, Rhs: %q,\n\t\tValues: []any{\n", d.name, d.rhsForm())
	for _, v := range d.values {
		fmt.Fprintf(&sb, "\t\t\t%s,\n", d.valueExpr(v))
	}
	fmt.Fprintf(&sb, "\t\t},\n\t\tBaseZero: %s{},\n", d.baseInst())
	into := "Into" + d.name
	if d.handInto || hasFunc(gen, into) {
		if d.genericX {
			into += d.instArgs()
		}
		fmt.Fprintf(&sb, "\t\tInto: %s,\n", into)
	}
	fmt.Fprintf(&sb, "\t\tHandDeref: %v, HandInto: %v,\n\t\tMethods: []derefMethod{\n", d.handDeref, d.handInto)
	for _, m := range d.methods {
		if m.name == "hidden" {
			continue // not callable by reflection; forwarding it only has to compile
		}
		// the forwarding law does not apply to a member X declares by hand, nor to a GetF / WithF that
		// an (override=true) annotation replaces by the plain getter / With
		// (for the inert plain-identifier form nothing is forwarded, so such a GetF / WithF is the plain one too)
		skip := d.isHand(m.name)
		ident := d.rhsForm() == "ident"
		if d.getterPub && (d.getOverride || ident) && (m.name == "GetNum" || m.name == "GetPub") {
			skip = true
		}
		if d.withPub && (d.withOverride || ident) && m.name == "WithPub" {
			skip = true
		}
		fmt.Fprintf(&sb, "\t\t\t{Name: %q, Args: func() []any { return []any{%s} }, Skip: %v},\n", m.name, r.Replace(m.args), skip)
	}
	sb.WriteString("\t\t},\n\t\tPubFields: []string{")
	for _, f := range d.pubFields() {
		fmt.Fprintf(&sb, "%q, ", f)
	}
	fmt.Fprintf(&sb, "},\n\t\tGetterPub: %v, WithPub: %v,\n\t\tFwd: map[string]bool{", d.getterPub, d.withPub)
	// GetF / WithF that Y declares itself are forwarded by @fp.Deref (no override) instead of generated
	if d.rhsForm() != "ident" {
		for _, f := range d.pubFields() {
			if d.hasMethod("Get"+f) && !d.getOverride {
				fmt.Fprintf(&sb, "%q: true, ", "Get"+f)
			}
			if d.hasMethod("With"+f) && !d.withOverride {
				fmt.Fprintf(&sb, "%q: true, ", "With"+f)
			}
		}
	}
	sb.WriteString("},\n\t\tSkip: map[string]bool{")
	for _, h := range d.handMeths {
		fmt.Fprintf(&sb, "%q: true, ", h)
	}
	sb.WriteString("},\n\t},\n")
	return sb.String()
}

func (d derefSpec) describe() string {
	var ms []string
	for _, m := range d.methods {
		ms = append(ms, m.name)
	}
	where := "pa"
	if d.pb {
		where = "pb"
	}
	return fmt.Sprintf("%s %v type %s = %s (rhs form %s; base in %s%s) methods=%v hand(methods=%v,deref=%v,into=%v) arg=%s docOnSpec=%v values=%v\n",
		d.name, d.annotations(), d.xRecv(), d.rhs(), d.rhsForm(), where, d.paramDecl(), ms, d.handMeths, d.handDeref, d.handInto, strconv.Quote(d.tl), d.docOnSpec, d.values)
}

// pbSource renders package scratch/pb ("" when no base type lives there).
func (p pkgSpec) pbSource() string {
	var sb strings.Builder
	for _, d := range p.derefs {
		if d.pb {
			sb.WriteString(d.baseSource())
		}
	}
	if sb.Len() == 0 {
		return ""
	}
	return "package pb\n\nimport (\n\t\"fmt\"\n\t\"time\"\n)\n\nvar _ = fmt.Sprint\nvar _ = time.Second\n" + sb.String()
}
