package gomspec

import (
	"fmt"
	"strings"
	"testing"
	"time"

	"pgregory.net/rapid"

	"verifharness/kit"
	"verifharness/scratch"
)

// ---- instance packages written by the user -----------------------------------------------------------
//
// The library's six typeclass packages offer TupleN / LabelledN functions, so gombok represents a struct as a
// tuple or a labelled product. An instance package a user writes usually offers the minimum only - instances of
// the leaves, HNil, HCons, Generic - and gombok then goes through the HList representation
// (as.HListN / product.TupleFromHListN). That path is never taken with the library's packages below 22 fields.

// UserEqPkg: fp.Eq instances, HCons plumbing only.
const UserEqPkg = `package myeq

import (
	"time"

	"github.com/csgura/fp"
	"github.com/csgura/fp/hlist"
)

type Derives[T any] interface {
}

func New[T any](f func(a, b T) bool) fp.Eq[T] {
	return fp.EqFunc[T](f)
}

var String = New(func(a, b string) bool { return a == b })

var Time = New(func(a, b time.Time) bool { return a.Equal(b) })

func Given[T comparable]() fp.Eq[T] {
	return New(func(a, b T) bool { return a == b })
}

var HNil = New(func(hlist.Nil, hlist.Nil) bool { return true })

func HCons[H any, T hlist.HList](heq fp.Eq[H], teq fp.Eq[T]) fp.Eq[hlist.Cons[H, T]] {
	return New(func(a, b hlist.Cons[H, T]) bool {
		return heq.Eqv(a.Head(), b.Head()) && teq.Eqv(hlist.Tail(a), hlist.Tail(b))
	})
}

func Seq[T any](e fp.Eq[T]) fp.Eq[fp.Seq[T]] {
	return New(func(a, b fp.Seq[T]) bool {
		if len(a) != len(b) {
			return false
		}
		for i := range a {
			if !e.Eqv(a[i], b[i]) {
				return false
			}
		}
		return true
	})
}

func Generic[A, Repr any](gen fp.Generic[A, Repr], reprEq fp.Eq[Repr]) fp.Eq[A] {
	return New(func(a, b A) bool {
		return reprEq.Eqv(gen.To(a), gen.To(b))
	})
}
`

// UserShowPkg: fp.Show instances, HCons plumbing only (after the repository's own test/internal/show).
const UserShowPkg = `package myshow

import (
	"fmt"
	"time"

	"github.com/csgura/fp"
	"github.com/csgura/fp/hlist"
	"github.com/csgura/fp/seq"
)

type Derives[T any] interface {
}

func New[T any](f func(T) string) fp.Show[T] {
	return fp.ShowFunc[T](f)
}

var Time = New(func(t time.Time) string {
	return t.Format(time.RFC3339)
})

var String = New(func(t string) string {
	return fmt.Sprintf("%q", t)
})

func Given[T any]() fp.Show[T] {
	return fp.Sprint[T]()
}

var HNil = New(func(hlist.Nil) string {
	return "Nil"
})

func Seq[T any](tshow fp.Show[T]) fp.Show[fp.Seq[T]] {
	return New(func(s fp.Seq[T]) string {
		return "[" + seq.Map(s, tshow.Show).MakeString(",") + "]"
	})
}

func HCons[H any, T hlist.HList](hshow fp.Show[H], tshow fp.Show[T]) fp.Show[hlist.Cons[H, T]] {
	return New(func(list hlist.Cons[H, T]) string {
		return fmt.Sprintf("%s :: %s", hshow.Show(list.Head()), tshow.Show(hlist.Tail(list)))
	})
}

func Generic[A, Repr any](gen fp.Generic[A, Repr], reprShow fp.Show[Repr]) fp.Show[A] {
	return New(func(a A) string {
		return fmt.Sprintf("%s(%s)", gen.Type, reprShow.Show(gen.To(a)))
	})
}
`

type upField struct {
	name, typ string
	nested    int // index of the nested struct (1-based), 0 = leaf
	seqOf     bool
}

type upStruct struct {
	name   string
	fields []upField
	eq     bool
	show   bool
	values [][]string // literal per field, per value
}

func upLeafLit(rt *rapid.T, typ string) string {
	switch typ {
	case "int":
		return fmt.Sprint(rapid.IntRange(-2, 3).Draw(rt, "int"))
	case "int64":
		return fmt.Sprintf("int64(%d)", rapid.IntRange(0, 2).Draw(rt, "i64"))
	case "string":
		return fmt.Sprintf("%q", rapid.SampledFrom([]string{"", "a", "b", "a b"}).Draw(rt, "str"))
	case "bool":
		return fmt.Sprint(rapid.Bool().Draw(rt, "bool"))
	case "float64":
		return rapid.SampledFrom([]string{"0.0", "1.5", "-2.0"}).Draw(rt, "f64")
	case "time.Time":
		return fmt.Sprintf("time.Unix(%d, 0).UTC()", rapid.IntRange(0, 2).Draw(rt, "time"))
	case "time.Duration":
		return fmt.Sprintf("time.Duration(%d)", rapid.IntRange(0, 2).Draw(rt, "dur"))
	case "fp.Seq[string]":
		n := rapid.IntRange(0, 2).Draw(rt, "n")
		var xs []string
		for i := 0; i < n; i++ {
			xs = append(xs, fmt.Sprintf("%q", rapid.SampledFrom([]string{"", "a", "b"}).Draw(rt, "str")))
		}
		return "fp.Seq[string]{" + strings.Join(xs, ", ") + "}"
	}
	return "nil"
}

func upLit(rt *rapid.T, ss []upStruct, s upStruct) string {
	var fs []string
	for _, f := range s.fields {
		switch {
		case f.nested > 0 && f.seqOf:
			n := rapid.IntRange(0, 2).Draw(rt, "n")
			var xs []string
			for i := 0; i < n; i++ {
				xs = append(xs, upLit(rt, ss, ss[f.nested-1]))
			}
			fs = append(fs, fmt.Sprintf("%s: %s{%s}", f.name, f.typ, strings.Join(xs, ", ")))
		case f.nested > 0:
			fs = append(fs, fmt.Sprintf("%s: %s", f.name, upLit(rt, ss, ss[f.nested-1])))
		default:
			fs = append(fs, fmt.Sprintf("%s: %s", f.name, upLeafLit(rt, f.typ)))
		}
	}
	return s.name + "{" + strings.Join(fs, ", ") + "}"
}

// UserPackageCheck: @fp.Derive of Eq and Show against instance packages the user wrote (HCons plumbing only).
// Oracle: the generated code compiles; derived Eq is the conjunction of the field equalities (reference:
// reflect.DeepEqual, which coincides with the leaf instances on the generated values); derived Show renders
// the fields in declaration order through the HCons chain of the user's package.
func UserPackageCheck(t *testing.T, name string, casesPerProcess int) {
	kit.Check(t, name, "package drawn: 1-3 @fp.Value structs, 1-5 fields over int, int64, string, bool, float64, time.Time, fp.Seq[string] (named non-struct types such as time.Duration are left out: with recursive=true gombok derives a NewType instance for them, which is C08's named-types shape), earlier structs and fp.Seq of earlier structs; per struct @fp.Derive of Eq against the user-written package myeq and/or of Show against myshow (leaf instances, HNil, HCons, Generic only: gombok takes the HList representation), in a quarter of the packages with recursive=true on the last struct only; 4 values per struct (the last a copy of the first). Pipeline: gombok from the tree under test -> go build -> emitted law test: Eqv(x, y) == reflect.DeepEqual(x, y) for all pairs, Show(x) == Type(f1 :: f2 :: ... :: Nil) with every field rendered by the instance the package offers for its type. Non-trivial iff a field type comes from another package (time) or is nested; distinct by rendered package", kit.Opt{Abs: casesPerProcess, HangAfter: 20 * time.Minute}, func(rt *rapid.T, rec *kit.Rec) {
		n := rapid.IntRange(1, 3).Draw(rt, "structs")
		recursive := rapid.IntRange(0, 3).Draw(rt, "recursiveOnLast") == 0
		var ss []upStruct
		nt := false
		for i := 1; i <= n; i++ {
			s := upStruct{name: fmt.Sprintf("S%d", i)}
			nf := rapid.IntRange(1, 5).Draw(rt, "fields")
			for j := 0; j < nf; j++ {
				kinds := []upField{}
				for _, k := range []string{"int", "int64", "string", "bool", "float64", "time.Time", "time.Time", "fp.Seq[string]"} {
					kinds = append(kinds, upField{typ: k})
				}
				for e := 1; e < i; e++ {
					kinds = append(kinds, upField{typ: fmt.Sprintf("S%d", e), nested: e}, upField{typ: fmt.Sprintf("fp.Seq[S%d]", e), nested: e, seqOf: true})
				}
				f := kinds[rapid.IntRange(0, len(kinds)-1).Draw(rt, "fieldType")]
				f.name = fmt.Sprintf("f%d", j)
				k := f.typ
				if f.nested > 0 || strings.HasPrefix(k, "time.") {
					nt = true
				}
				rec.Label("kind:" + strings.TrimRight(k, "0123456789]"))
				s.fields = append(s.fields, f)
			}
			s.eq = rapid.IntRange(0, 3).Draw(rt, "deriveEq") != 0
			s.show = !s.eq || rapid.Bool().Draw(rt, "deriveShow")
			ss = append(ss, s)
		}
		if recursive {
			// only the last struct carries directives; the instances of the others come from the recursion
			for i := range ss[:n-1] {
				ss[i].eq, ss[i].show = false, false
			}
			rec.Label("recursive")
		} else {
			// a nested struct needs the instances its users derive
			for i := n - 1; i >= 0; i-- {
				for _, f := range ss[i].fields {
					if f.nested > 0 {
						ss[f.nested-1].eq = ss[f.nested-1].eq || ss[i].eq
						ss[f.nested-1].show = ss[f.nested-1].show || ss[i].show
					}
				}
			}
		}
		for i := range ss {
			for v := 0; v < 3; v++ {
				ss[i].values = append(ss[i].values, []string{upLit(rt, ss, ss[i])})
			}
			ss[i].values = append(ss[i].values, ss[i].values[0])
		}
		var sb strings.Builder
		sb.WriteString("package pa\n\nimport (\n\t\"time\"\n\n\t\"github.com/csgura/fp\"\n\t\"scratch/myeq\"\n\t\"scratch/myshow\"\n)\n\nvar _ time.Time\nvar _ fp.Unit\nvar _ myeq.Derives[int]\nvar _ myshow.Derives[int]\n\n")
		opt := ""
		if recursive {
			opt = "(recursive=true)"
		}
		for _, s := range ss {
			fmt.Fprintf(&sb, "// @fp.Value\ntype %s struct {\n", s.name)
			for _, f := range s.fields {
				fmt.Fprintf(&sb, "\t%s %s\n", f.name, f.typ)
			}
			sb.WriteString("}\n\n")
			if s.eq {
				fmt.Fprintf(&sb, "// @fp.Derive%s\nvar _ myeq.Derives[fp.Eq[%s]]\n\n", opt, s.name)
			}
			if s.show {
				fmt.Fprintf(&sb, "// @fp.Derive%s\nvar _ myshow.Derives[fp.Show[%s]]\n\n", opt, s.name)
			}
		}
		src := sb.String()
		rec.Case(nt, src)
		m, err := scratch.NewModule()
		if err != nil {
			rec.Failf(rt, "HARNESS|infra", "%v", err)
		}
		defer m.Remove()
		_ = m.WriteFile("myeq/eq.go", UserEqPkg)
		_ = m.WriteFile("myshow/show.go", UserShowPkg)
		_ = m.WriteFile("pa/types.go", src)
		if r := m.Go(180*time.Second, "build", "./..."); r.ExitCode != 0 {
			rec.Failf(rt, "HARNESS|infra|input-does-not-compile", "%s\n%s", clip(r.Out, 800), src)
		}
		g := m.RunGombok("pa", "pa")
		if scratch.ToolchainTrouble(g.Out) || g.TimedOut {
			rec.Failf(rt, "HARNESS|infra|toolchain-trouble", "%s", clip(g.Out, 600))
		}
		if g.ExitCode != 0 || strings.Contains(g.Out, "panic:") {
			rec.Failf(rt, "C08|user-package|gombok-failed", "gombok failed: %s\n%s", clip(g.Out, 1200), src)
		}
		if r := m.Go(180*time.Second, "build", "./..."); r.ExitCode != 0 {
			if scratch.ToolchainTrouble(r.Out) || r.TimedOut {
				rec.Failf(rt, "HARNESS|infra|toolchain-trouble", "%s", clip(r.Out, 400))
			}
			rec.Failf(rt, "C08|user-package|compile|"+scratch.ErrorClass(stripPos(scratch.FirstError(r.Out))), "generated code does not compile: %s\n%s\n--- derive file:\n%s", clip(r.Out, 1200), src, clip(m.ReadFile("pa/pa_derive_generated.go"), 2500))
		}
		// the emitted law test
		var tb strings.Builder
		tb.WriteString("package pa\n\nimport (\n\t\"fmt\"\n\t\"reflect\"\n\t\"strings\"\n\t\"testing\"\n\t\"time\"\n\n\t\"github.com/csgura/fp\"\n\t\"scratch/myshow\"\n)\n\nvar _ = time.Second\nvar _ fp.Unit\nvar _ = strings.Join\nvar _ = myshow.String\nvar _ = reflect.DeepEqual\n\n")
		// reference renderers, one per struct, written out field by field
		for _, s := range ss {
			fmt.Fprintf(&tb, "func ref%s(v %s) string {\n\tparts := []string{}\n", s.name, s.name)
			for _, f := range s.fields {
				switch {
				case f.nested > 0 && f.seqOf:
					fmt.Fprintf(&tb, "\t{\n\t\txs := []string{}\n\t\tfor _, e := range v.%s {\n\t\t\txs = append(xs, ref%s(e))\n\t\t}\n\t\tparts = append(parts, \"[\"+strings.Join(xs, \",\")+\"]\")\n\t}\n", f.name, ss[f.nested-1].name)
				case f.nested > 0:
					fmt.Fprintf(&tb, "\tparts = append(parts, ref%s(v.%s))\n", ss[f.nested-1].name, f.name)
				case f.typ == "string":
					fmt.Fprintf(&tb, "\tparts = append(parts, fmt.Sprintf(\"%%q\", v.%s))\n", f.name)
				case f.typ == "time.Time":
					fmt.Fprintf(&tb, "\tparts = append(parts, v.%s.Format(time.RFC3339))\n", f.name)
				case f.typ == "fp.Seq[string]":
					fmt.Fprintf(&tb, "\t{\n\t\txs := []string{}\n\t\tfor _, e := range v.%s {\n\t\t\txs = append(xs, fmt.Sprintf(\"%%q\", e))\n\t\t}\n\t\tparts = append(parts, \"[\"+strings.Join(xs, \",\")+\"]\")\n\t}\n", f.name)
				default:
					fmt.Fprintf(&tb, "\tparts = append(parts, myshow.Given[%s]().Show(v.%s))\n", f.typ, f.name)
				}
			}
			fmt.Fprintf(&tb, "\treturn \"pa.%s(\" + strings.Join(append(parts, \"Nil\"), \" :: \") + \")\"\n}\n\n", s.name)
		}
		tb.WriteString("// inst: a derived instance is a variable or a function without parameters\nfunc inst[T any](v any) T {\n\tif f, ok := v.(func() T); ok {\n\t\treturn f()\n\t}\n\treturn v.(T)\n}\n\n")
		tb.WriteString("func TestLaws(t *testing.T) {\n\tfailed := false\n")
		for _, s := range ss {
			fmt.Fprintf(&tb, "\t{\n\t\tvals := []%s{\n", s.name)
			for _, v := range s.values {
				fmt.Fprintf(&tb, "\t\t\t%s,\n", v[0])
			}
			tb.WriteString("\t\t}\n\t\t_ = vals\n")
			usesEq := s.eq || recursive
			usesShow := s.show || recursive
			if recursive && s.name != ss[n-1].name {
				// an instance exists only if the last struct reaches this one
				usesEq, usesShow = false, false
			}
			if recursive && s.name == ss[n-1].name {
				usesEq, usesShow = s.eq, s.show
			}
			if usesEq {
				fmt.Fprintf(&tb, "\t\tfor _, x := range vals {\n\t\t\tfor _, y := range vals {\n\t\t\t\tif got, want := inst[fp.Eq[%s]](Eq%s).Eqv(x, y), reflect.DeepEqual(x, y); got != want {\n\t\t\t\t\tfmt.Printf(\"LAWFAIL\\t%s\\tEq|fieldwise\\tEqv(%%v, %%v) = %%v, the conjunction of the field equalities is %%v\\n\", x, y, got, want)\n\t\t\t\t\tfailed = true\n\t\t\t\t}\n\t\t\t}\n\t\t}\n", s.name, s.name, s.name)
			}
			if usesShow {
				fmt.Fprintf(&tb, "\t\tfor _, x := range vals {\n\t\t\tif got, want := inst[fp.Show[%s]](Show%s).Show(x), ref%s(x); got != want {\n\t\t\t\tfmt.Printf(\"LAWFAIL\\t%s\\tShow|fieldwise\\tShow = %%s, the fields in declaration order through the package's HCons give %%s\\n\", got, want)\n\t\t\t\tfailed = true\n\t\t\t}\n\t\t}\n", s.name, s.name, s.name, s.name)
			}
			tb.WriteString("\t}\n")
		}
		tb.WriteString("\tif failed {\n\t\tt.Fatal(\"law failures\")\n\t}\n\tfmt.Println(\"LAWS-OK\")\n}\n")
		_ = m.WriteFile("pa/zz_user_test.go", tb.String())
		r, _, died := m.GoTestLaws(300 * time.Second)
		if died || r.TimedOut || scratch.ToolchainTrouble(r.Out) {
			rec.Failf(rt, "HARNESS|infra|law-test-died", "%s", clip(r.Out, 800))
		}
		if strings.Contains(r.Out, "[build failed]") {
			rec.Failf(rt, "HARNESS|infra|law-test-does-not-compile", "%s\n%s\n--- derive file:\n%s", clip(r.Out, 2000), src, clip(m.ReadFile("pa/pa_derive_generated.go"), 2500))
		}
		for _, l := range strings.Split(r.Out, "\n") {
			if strings.HasPrefix(l, "LAWFAIL\t") {
				parts := strings.SplitN(l, "\t", 4)
				rec.Failf(rt, "C08|user-package|law|"+parts[2], "%s: %s\n%s\n--- derive file:\n%s", parts[1], parts[3], src, clip(m.ReadFile("pa/pa_derive_generated.go"), 2500))
			}
		}
		if r.ExitCode != 0 {
			rec.Failf(rt, "C08|user-package|law|crash", "%s\n%s", clip(r.Out, 1500), src)
		}
		if !strings.Contains(r.Out, "LAWS-OK") {
			rec.Failf(rt, "HARNESS|infra|law-test-did-not-run", "%s", clip(r.Out, 1500))
		}
	})
}

// KnownJsonEmbedsJsonCheck replays the fixed minimal input of known finding D18 (an @fp.Json struct that embeds
// another @fp.Json struct loses every field but the embedded one's in the round trip).
func KnownJsonEmbedsJsonCheck(t *testing.T) {
	kit.Plain(t, "json/known-shape/json-embeds-json", "fixed input: // @fp.Value // @fp.Json type Base struct{ id int }; // @fp.Value // @fp.Json type Derived struct{ Base; name string }; json.Unmarshal(json.Marshal(Derived{Base{3}, \"n\"})) compared with the value", func(t *testing.T, rec *kit.Rec) {
		rec.Case(true, "Derived{Base; name string}")
		m, err := scratch.NewModule()
		if err != nil {
			rec.PlainFail(t, "HARNESS|infra", "%v", err)
		}
		defer m.Remove()
		_ = m.WriteFile("pa/types.go", "package pa\n\n// @fp.Value\n// @fp.Json\ntype Base struct {\n\tid int\n}\n\n// @fp.Value\n// @fp.Json\ntype Derived struct {\n\tBase\n\tname string\n}\n")
		g := m.RunGombok("pa", "pa")
		if scratch.ToolchainTrouble(g.Out) || g.TimedOut {
			rec.PlainFail(t, "HARNESS|infra|toolchain-trouble", "%s", clip(g.Out, 400))
		}
		if g.ExitCode != 0 || strings.Contains(g.Out, "panic:") {
			rec.PlainFail(t, "C15|known-shape|json-embeds-json|gombok", "gombok failed: %s", clip(g.Out, 800))
		}
		_ = m.WriteFile("pa/zz_known_test.go", `package pa

import (
	"encoding/json"
	"fmt"
	"testing"
)

func TestKnown(t *testing.T) {
	d := Derived{Base: Base{id: 3}, name: "n"}
	b, err := json.Marshal(d)
	if err != nil {
		t.Fatalf("Marshal: %v", err)
	}
	var back Derived
	if err := json.Unmarshal(b, &back); err != nil {
		t.Fatalf("Unmarshal(%s): %v", b, err)
	}
	if back != d {
		fmt.Printf("LOST-FIELDS json=%s back=%#v want=%#v\n", b, back, d)
		t.Fail()
	}
}
`)
		r, _, died := m.GoTestLaws(300 * time.Second)
		switch {
		case died || r.TimedOut || scratch.ToolchainTrouble(r.Out):
			rec.PlainFail(t, "HARNESS|infra|law-test-died", "%s", clip(r.Out, 400))
		case strings.Contains(r.Out, "LOST-FIELDS"):
			l := r.Out[strings.Index(r.Out, "LOST-FIELDS"):]
			if i := strings.Index(l, "\n"); i > 0 {
				l = l[:i]
			}
			rec.PlainFail(t, "C15|known-shape|json-embeds-json|roundtrip", "%s\n--- Mutable struct embeds Base and with it Base's MarshalJSON/UnmarshalJSON", l)
		case r.ExitCode != 0:
			rec.PlainFail(t, "C15|known-shape|json-embeds-json|compile", "%s", clip(r.Out, 1200))
		}
	})
}
