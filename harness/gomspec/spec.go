package gomspec

import (
	"fmt"
	"regexp"
	"sort"
	"strconv"
	"strings"

	"pgregory.net/rapid"
)

// ---- type grammar -------------------------------------------------------------------

// ty is a field type: its Go expression and a way to draw literal values of it.
type ty struct {
	expr     string
	kind     string // class for histograms
	imports  []string
	lit      func(t *rapid.T) string // Go expression of a value
	isOption bool
	jsonSafe bool
	isParam  bool
}

var localDecls = `
type MyInt int
type MyStr string
type Labels map[string]string
// aliases: of a defined type whose underlying type is nilable, of an instantiated library type, of a basic type
type AliasLabels = Labels
type AliasSeq = fp.Seq[string]
type AliasInt = int
type LocalIface interface{ Local() int }
type localImpl int
func (l localImpl) Local() int { return int(l) }
type Inner struct {
	IA int
	ib string
}
type EmbedEmpty struct{}
type EmbedFull struct {
	EX int
	ey string
}
type EmbedPtr struct {
	PX int
}
type embedPriv struct {
	PV int
}
type EmbedIface interface{ Local() int }
type EmbedNamed float64
func fnA(x int) string { return "a" }
func fnB(x int) string { return "b" }
func fnC() {}
var chA = make(chan int)
var chB = make(chan int, 1)
var chS = make(chan string)
func ptrOf[T any](v T) *T { return &v }
`

func intLit(t *rapid.T) string {
	return strconv.Itoa(rapid.SampledFrom([]int{0, 1, -1, 7, 42, 100}).Draw(t, "int"))
}

func strLit(t *rapid.T) string {
	return strconv.Quote(rapid.SampledFrom([]string{"", "a", "hello", "x y", "q\"uote", "tab\there", "é", "<&>"}).Draw(t, "str"))
}

func basicTypes() []ty {
	mk := func(expr string, lit func(t *rapid.T) string) ty {
		return ty{expr: expr, kind: "basic", lit: lit, jsonSafe: true}
	}
	return []ty{
		mk("int", intLit),
		mk("int8", func(t *rapid.T) string { return strconv.Itoa(rapid.IntRange(-3, 3).Draw(t, "i8")) }),
		mk("int64", func(t *rapid.T) string {
			return rapid.SampledFrom([]string{"0", "-9223372036854775808", "9223372036854775807", "5"}).Draw(t, "i64")
		}),
		mk("uint", func(t *rapid.T) string { return strconv.Itoa(rapid.IntRange(0, 9).Draw(t, "u")) }),
		mk("uint16", func(t *rapid.T) string { return strconv.Itoa(rapid.IntRange(0, 65535).Draw(t, "u16")) }),
		mk("float64", func(t *rapid.T) string {
			return rapid.SampledFrom([]string{"0", "1.5", "-2.25", "1e300", "3"}).Draw(t, "f")
		}),
		mk("bool", func(t *rapid.T) string { return strconv.FormatBool(rapid.Bool().Draw(t, "b")) }),
		mk("string", strLit),
		mk("byte", func(t *rapid.T) string { return strconv.Itoa(rapid.IntRange(0, 255).Draw(t, "by")) }),
		mk("rune", func(t *rapid.T) string { return rapid.SampledFrom([]string{"'a'", "'é'", "0"}).Draw(t, "r") }),
	}
}

// userAsPackage is set by drawPkg while it draws a package that imports a package of the user's own named `as` -
// the name gombok wants for its helper package github.com/csgura/fp/as (the generated file must then import the
// helper under another name, and refer to it by that name everywhere).
var userAsPackage bool

// UserAsSource is the user's package scratch/as.
const UserAsSource = "package as\n\n// Level is a type of the user's own package that happens to be called `as`\ntype Level int\n"

func namedTypes() []ty {
	if userAsPackage {
		return append(namedTypesBase(), ty{expr: "as.Level", kind: "named", imports: []string{"scratch/as"}, jsonSafe: true, lit: func(t *rapid.T) string {
			return "as.Level(" + intLit(t) + ")"
		}}, ty{expr: "as.Level", kind: "named", imports: []string{"scratch/as"}, jsonSafe: true, lit: func(t *rapid.T) string {
			return "as.Level(" + intLit(t) + ")"
		}})
	}
	return namedTypesBase()
}

func namedTypesBase() []ty {
	return []ty{
		{expr: "time.Time", kind: "named", imports: []string{"time"}, jsonSafe: true, lit: func(t *rapid.T) string {
			return fmt.Sprintf("time.Unix(%d, 0).UTC()", rapid.SampledFrom([]int{0, 1700000000, 86400}).Draw(t, "ts"))
		}},
		{expr: "time.Duration", kind: "named", imports: []string{"time"}, jsonSafe: true, lit: func(t *rapid.T) string {
			return fmt.Sprintf("time.Duration(%d)", rapid.IntRange(0, 5).Draw(t, "dur"))
		}},
		{expr: "MyInt", kind: "named-local", jsonSafe: true, lit: func(t *rapid.T) string { return "MyInt(" + intLit(t) + ")" }},
		{expr: "MyStr", kind: "named-local", jsonSafe: true, lit: func(t *rapid.T) string { return "MyStr(" + strLit(t) + ")" }},
		// a field typed through an alias is what the aliased type is: a defined map or fp.Seq is a named type
		// (never `omitempty` in the Mutable struct), an alias of int is int
		{expr: "AliasLabels", kind: "named-local", jsonSafe: true, lit: func(t *rapid.T) string {
			return rapid.SampledFrom([]string{"AliasLabels{}", `AliasLabels{"k": "v"}`, `Labels{"a": "", "b": "x"}`}).Draw(t, "aliasLabels")
		}},
		{expr: "AliasSeq", kind: "named-local", imports: []string{"github.com/csgura/fp"}, jsonSafe: true, lit: func(t *rapid.T) string {
			return rapid.SampledFrom([]string{"AliasSeq{}", `AliasSeq{"a"}`, `fp.Seq[string]{"a", "b"}`}).Draw(t, "aliasSeq")
		}},
		{expr: "AliasInt", kind: "alias-basic", jsonSafe: true, lit: func(t *rapid.T) string { return intLit(t) }},
		{expr: "rf.Type", kind: "named-import-alias", lit: func(t *rapid.T) string {
			return rapid.SampledFrom([]string{"nil", "rf.TypeOf(1)", `rf.TypeOf("s")`}).Draw(t, "rftype")
		}},
		{expr: "struct{ A int; B fp.Option[string] }", kind: "inline-struct", imports: []string{"github.com/csgura/fp", "github.com/csgura/fp/option"}, lit: func(t *rapid.T) string {
			return "struct{ A int; B fp.Option[string] }{A: " + intLit(t) + ", B: option.Some(" + strLit(t) + ")}"
		}},
		{expr: "fp.Future[int]", kind: "fp.Future", imports: []string{"github.com/csgura/fp"}, lit: func(t *rapid.T) string { return "fp.Future[int]{}" }},
		{expr: "Inner", kind: "named-struct", lit: func(t *rapid.T) string { return "Inner{IA: " + intLit(t) + ", ib: " + strLit(t) + "}" }},
	}
}

func ifaceTypes() []ty {
	return []ty{
		{expr: "any", kind: "interface", lit: func(t *rapid.T) string {
			return rapid.SampledFrom([]string{"nil", "1", `"s"`, "MyInt(2)", "[]int{1}"}).Draw(t, "any")
		}},
		{expr: "error", kind: "interface", imports: []string{"errors"}, lit: func(t *rapid.T) string {
			return rapid.SampledFrom([]string{"nil", "errSentinel"}).Draw(t, "err")
		}},
		{expr: "fmt.Stringer", kind: "interface", imports: []string{"fmt", "time"}, lit: func(t *rapid.T) string {
			return rapid.SampledFrom([]string{"nil", "time.Duration(3)"}).Draw(t, "stringer")
		}},
		{expr: "LocalIface", kind: "interface", lit: func(t *rapid.T) string {
			return rapid.SampledFrom([]string{"nil", "localImpl(4)"}).Draw(t, "li")
		}},
		{expr: "interface{ Local() int }", kind: "interface-inline", lit: func(t *rapid.T) string {
			return rapid.SampledFrom([]string{"nil", "localImpl(5)"}).Draw(t, "li2")
		}},
	}
}

func funcChanTypes() []ty {
	return []ty{
		{expr: "func(int) string", kind: "func", lit: func(t *rapid.T) string { return rapid.SampledFrom([]string{"nil", "fnA", "fnB"}).Draw(t, "fn") }},
		{expr: "func()", kind: "func", lit: func(t *rapid.T) string { return rapid.SampledFrom([]string{"nil", "fnC"}).Draw(t, "fn0") }},
		{expr: "chan int", kind: "chan", lit: func(t *rapid.T) string { return rapid.SampledFrom([]string{"nil", "chA", "chB"}).Draw(t, "ch") }},
		{expr: "<-chan int", kind: "chan", lit: func(t *rapid.T) string { return rapid.SampledFrom([]string{"nil", "chA"}).Draw(t, "chr") }},
		{expr: "chan<- string", kind: "chan", lit: func(t *rapid.T) string { return rapid.SampledFrom([]string{"nil", "chS"}).Draw(t, "chs") }},
	}
}

func elemTypes() []ty {
	var r []ty
	r = append(r, basicTypes()...)
	r = append(r, namedTypes()...)
	return r
}

// jsonAny is the interface-typed element of @fp.Json structs: `any` holding only values that plain
// encoding/json decodes back identically into an `any` (numbers are float64 there, arrays []any, objects
// map[string]any). nil encodes to null: the Option / pointer productions keep excluding it as a payload.
func jsonAny() ty {
	return ty{expr: "any", kind: "json-any", jsonSafe: true, lit: func(t *rapid.T) string {
		return rapid.SampledFrom([]string{"float64(1.5)", "float64(7)", `"s"`, "true", `[]any{float64(1), "x"}`, `map[string]any{"k": float64(2), "n": "v"}`, "nil"}).Draw(t, "jsonany")
	}}
}

// composite builds pointer/slice/array/map/option/seq/tuple/try types over an element type.
func composite(t *rapid.T, depth int, jsonOnly bool, params []tparam) ty {
	return compositeX(t, depth, jsonOnly, jsonOnly, params)
}

// compositeX: jsonOnly restricts to JSON-faithful types; withAny (only for fields of @fp.Json structs) adds jsonAny.
func compositeX(t *rapid.T, depth int, jsonOnly, withAny bool, params []tparam) ty {
	var pool []string
	if depth > 0 {
		pool = []string{"elem", "elem", "ptr", "slice", "array", "map", "option", "seq", "tuple2"}
		if !jsonOnly {
			pool = append(pool, "try")
		}
	} else {
		pool = []string{"elem"}
	}
	if !jsonOnly {
		pool = append(pool, "iface", "funcchan")
		if depth > 0 {
			pool = append(pool, "fpmap", "either")
		}
	}
	if len(params) > 0 {
		pool = append(pool, "param", "param")
	}
	switch rapid.SampledFrom(pool).Draw(t, "tkind") {
	case "elem":
		es := elemTypes()
		if jsonOnly {
			var f []ty
			for _, e := range es {
				if e.jsonSafe {
					f = append(f, e)
				}
			}
			es = f
		}
		if withAny {
			es = append(es, jsonAny(), jsonAny())
		}
		return rapid.SampledFrom(es).Draw(t, "elem")
	case "iface":
		return rapid.SampledFrom(ifaceTypes()).Draw(t, "iface")
	case "funcchan":
		return rapid.SampledFrom(funcChanTypes()).Draw(t, "fc")
	case "param":
		p := rapid.SampledFrom(params).Draw(t, "param")
		return ty{expr: p.name, kind: "typeparam", imports: p.inst.imports, lit: p.inst.lit, isParam: true, jsonSafe: p.inst.jsonSafe}
	case "ptr":
		e := compositeX(t, depth-1, jsonOnly, withAny, params)
		return ty{expr: "*" + e.expr, kind: "pointer", imports: e.imports, jsonSafe: e.jsonSafe, lit: func(t *rapid.T) string {
			if rapid.Bool().Draw(t, "nilptr") {
				return "nil"
			}
			l := e.lit(t)
			if jsonOnly && (l == "nil" || strings.HasPrefix(l, "option.None")) {
				// a pointer to a value that encodes to null is not faithful: excluded by the statement
				return "nil"
			}
			return "ptrOf[" + e.expr + "](" + l + ")"
		}}
	case "slice":
		e := compositeX(t, depth-1, jsonOnly, withAny, params)
		return ty{expr: "[]" + e.expr, kind: "slice", imports: e.imports, jsonSafe: e.jsonSafe, lit: func(t *rapid.T) string {
			n := rapid.IntRange(0, 2).Draw(t, "slen")
			if n == 0 {
				return "nil"
			}
			var xs []string
			for i := 0; i < n; i++ {
				xs = append(xs, e.lit(t))
			}
			return "[]" + e.expr + "{" + strings.Join(xs, ", ") + "}"
		}}
	case "array":
		e := compositeX(t, depth-1, jsonOnly, withAny, params)
		return ty{expr: "[2]" + e.expr, kind: "array", imports: e.imports, jsonSafe: e.jsonSafe, lit: func(t *rapid.T) string {
			return "[2]" + e.expr + "{" + e.lit(t) + ", " + e.lit(t) + "}"
		}}
	case "map":
		e := compositeX(t, depth-1, jsonOnly, withAny, params)
		return ty{expr: "map[string]" + e.expr, kind: "map", imports: e.imports, jsonSafe: e.jsonSafe, lit: func(t *rapid.T) string {
			n := rapid.IntRange(0, 2).Draw(t, "mlen")
			if n == 0 {
				return "nil"
			}
			var xs []string
			for i := 0; i < n; i++ {
				xs = append(xs, fmt.Sprintf("%q: %s", fmt.Sprintf("k%d", i), e.lit(t)))
			}
			return "map[string]" + e.expr + "{" + strings.Join(xs, ", ") + "}"
		}}
	case "option":
		e := compositeX(t, depth-1, jsonOnly, withAny, params)
		// for JSON structs Some(nil)/Some(None) encode to null: excluded by the statement
		notNull := func(t *rapid.T) string {
			for i := 0; i < 20; i++ {
				l := e.lit(t)
				if l != "nil" && !strings.HasPrefix(l, "option.None") {
					return l
				}
			}
			return ""
		}
		return ty{expr: "fp.Option[" + e.expr + "]", kind: "option", imports: append([]string{"github.com/csgura/fp", "github.com/csgura/fp/option"}, e.imports...), jsonSafe: e.jsonSafe, isOption: true, lit: func(t *rapid.T) string {
			if rapid.IntRange(0, 2).Draw(t, "none") == 0 {
				return "option.None[" + e.expr + "]()"
			}
			l := e.lit(t)
			if jsonOnly {
				l = notNull(t)
				if l == "" {
					return "option.None[" + e.expr + "]()"
				}
			}
			if l == "nil" {
				if strings.HasPrefix(e.kind, "interface") || e.kind == "fp.Either" || e.kind == "named-import-alias" || e.kind == "json-any" {
					// Some(nil interface) is not recoverable by type assertion from AsMap: not demanded
					return "option.None[" + e.expr + "]()"
				}
				return "option.Some[" + e.expr + "](nil)"
			}
			return "option.Some[" + e.expr + "](" + l + ")"
		}}
	case "seq":
		e := compositeX(t, depth-1, jsonOnly, withAny, params)
		return ty{expr: "fp.Seq[" + e.expr + "]", kind: "fp.Seq", imports: append([]string{"github.com/csgura/fp"}, e.imports...), jsonSafe: e.jsonSafe, lit: func(t *rapid.T) string {
			if rapid.Bool().Draw(t, "nilseq") {
				return "nil"
			}
			return "fp.Seq[" + e.expr + "]{" + e.lit(t) + "}"
		}}
	case "tuple2":
		e := compositeX(t, depth-1, jsonOnly, withAny, params)
		return ty{expr: "fp.Tuple2[int, " + e.expr + "]", kind: "fp.Tuple2", imports: append([]string{"github.com/csgura/fp"}, e.imports...), jsonSafe: e.jsonSafe, lit: func(t *rapid.T) string {
			return "fp.Tuple2[int, " + e.expr + "]{I1: " + intLit(t) + ", I2: " + e.lit(t) + "}"
		}}
	case "try":
		e := compositeX(t, depth-1, true, false, params)
		return ty{expr: "fp.Try[" + e.expr + "]", kind: "fp.Try", imports: append([]string{"github.com/csgura/fp", "errors"}, e.imports...), lit: func(t *rapid.T) string {
			if rapid.Bool().Draw(t, "fail") {
				return "fp.Failure[" + e.expr + "](errSentinel)"
			}
			return "fp.Success[" + e.expr + "](" + e.lit(t) + ")"
		}}
	case "fpmap":
		return ty{expr: "fp.Map[string, int]", kind: "fp.Map", imports: []string{"github.com/csgura/fp"}, lit: func(t *rapid.T) string {
			if rapid.Bool().Draw(t, "emptymap") {
				return "fp.Map[string, int]{}"
			}
			return `fp.Map[string, int]{}.Updated("k", ` + intLit(t) + ")"
		}}
	default: // either
		return ty{expr: "fp.Either[int, string]", kind: "fp.Either", imports: []string{"github.com/csgura/fp"}, lit: func(t *rapid.T) string { return "nil" }}
	}
}

// ---- structs ---------------------------------------------------------------------------

type tparam struct {
	name       string
	constraint string
	inst       ty // instantiation used by the law test
	imports    []string
}

type field struct {
	name       string
	t          ty
	tag        string
	embedded   bool
	strExclude bool // the tag carries fp:"...String.Exclude...": left out of the generated String()
}

func (f field) private() bool {
	c := f.name[0]
	return c >= 'a' && c <= 'z'
}

// plainPublic: an ordinary exported field (what @fp.GetterPubField / @fp.WithPubField are documented for).
// Underscore fields and embedded structs also count as "public" inside gombok; nothing is demanded for them.
func (f field) plainPublic() bool {
	return !f.private() && !f.embedded && !strings.HasPrefix(f.name, "_")
}

// required mirrors "required" of @fp.RequiredArgsConstructor (example RequiredArgs{hello string; world *int;
// etc fp.Option[string]} -> NewRequiredArgs(hello string)): an applied field that is neither a pointer nor an
// fp.Option.
func (f field) required() bool {
	return f.applied() && f.t.kind != "pointer" && f.t.kind != "embedded-pointer" && !f.t.isOption
}

func (f field) applied() bool {
	if strings.HasPrefix(f.name, "_") {
		return false
	}
	if f.embedded && f.t.expr == "EmbedEmpty" {
		return false
	}
	return true
}

type structSpec struct {
	name        string
	params      []tparam
	fields      []field
	value       bool // @fp.Value
	json        bool
	jsonTag     bool
	labelled    bool
	getter      bool
	with        bool
	builder     bool
	str         bool
	allArgs     bool
	reqArgs     bool   // @fp.RequiredArgsConstructor (never together with @fp.AllArgsConstructor)
	getterPub   bool   // @fp.GetterPubField
	withPub     bool   // @fp.WithPubField
	pubParam    bool   // write the two as `(override=true)`: only meaningful together with @fp.Deref, must be harmless here
	useShow     string // @fp.String(useShow=true): "var" / "func" = hand-written Show instance of that form, "none" = no instance
	docOnSpec   bool   // comment on the TypeSpec inside a type ( ... ) group
	multiName   bool   // `a, b T` declarations where neighbours share a type
	handGet     string
	handWith    string
	handBuild   string
	handGetPub  string     // hand-written GetF of a public field
	handWithPub string     // hand-written WithF of a public field
	handJson    string     // @fp.Json with one of the two JSON methods written by hand: "marshal" / "unmarshal" ("" = none)
	values      [][]string // literal per field, per value
	decode      []string
}

type pkgSpec struct {
	structs []structSpec
	derefs  []derefSpec
}

var safeNames = []string{"name", "count", "data", "flag", "item", "left", "right", "size", "key", "val", "first", "second", "x1", "y2", "payload", "opt", "ptr", "list", "when", "total", "kind", "zed"}

// short identifiers the generator itself uses for receivers, parameters and locals
var fragileNames = []string{"r", "v", "t", "m", "ok", "b", "err", "s", "w", "i"}
var publicNames = []string{"Pub", "Count2", "Visible", "ID"}
var underscoreNames = []string{"_hidden", "_skip"}

// names that differ only in how a trailing number is written, or in having one at all: whatever order the
// generator emits per-name declarations in (the Named types of @fp.GenLabelled are emitted once per package,
// sorted by field name) must separate them
var numericNames = []string{"a", "a0", "a1", "a01", "a2", "a10", "a02", "n", "n0", "n00", "q9", "q09", "q10", "i1", "i01", "i001"}

// forcePlainWide is set by drawPkg while it draws the single struct of a "plain wide" package.
var forcePlainWide bool

func drawStruct(t *rapid.T, idx int, exclFragile map[string]bool, forceJson bool) structSpec {
	s := structSpec{name: fmt.Sprintf("S%d", idx), value: true}
	if rapid.IntRange(0, 3).Draw(t, "generic") == 0 {
		cons := []struct {
			c    string
			inst ty
		}{
			{"any", basicTypes()[7]},        // string
			{"comparable", basicTypes()[0]}, // int
			{"fmt.Stringer", ty{expr: "time.Duration", imports: []string{"time", "fmt"}, jsonSafe: true, lit: func(t *rapid.T) string { return "time.Duration(2)" }}},
			{"interface{ Local() int }", ty{expr: "localImpl", jsonSafe: true, lit: func(t *rapid.T) string { return "localImpl(3)" }}},
			// a constraint that is a type set, not a method set
			{"interface{ ~int | ~string }", ty{expr: "MyInt", jsonSafe: true, lit: func(t *rapid.T) string { return "MyInt(" + intLit(t) + ")" }}},
		}
		n := rapid.IntRange(1, 3).Draw(t, "nparams")
		for i := 0; i < n; i++ {
			c := rapid.SampledFrom(cons).Draw(t, "constraint")
			s.params = append(s.params, tparam{name: "T" + string(rune('A'+i)), constraint: c.c, inst: c.inst, imports: c.inst.imports})
		}
	}
	s.json = forceJson || rapid.IntRange(0, 3).Draw(t, "json") == 0
	s.jsonTag = !s.json && rapid.IntRange(0, 5).Draw(t, "jsontag") == 0
	s.labelled = rapid.IntRange(0, 2).Draw(t, "labelled") == 0
	if !forceJson && rapid.IntRange(0, 3).Draw(t, "valuePlusExplicit") == 0 {
		// @fp.Value together with members of the explicit family (both passes must de-duplicate)
		s.getter = rapid.Bool().Draw(t, "+@Getter")
		s.with = rapid.Bool().Draw(t, "+@With")
		s.builder = rapid.Bool().Draw(t, "+@Builder")
		s.str = rapid.Bool().Draw(t, "+@String")
		s.allArgs = rapid.Bool().Draw(t, "+@AllArgs")
	} else if !forceJson && rapid.IntRange(0, 4).Draw(t, "explicitFamily") == 0 {
		// the explicit annotation family instead of @fp.Value
		s.value, s.json, s.jsonTag, s.labelled = false, false, false, false
		s.getter = rapid.Bool().Draw(t, "@Getter")
		s.with = rapid.Bool().Draw(t, "@With")
		s.builder = rapid.Bool().Draw(t, "@Builder")
		s.str = rapid.Bool().Draw(t, "@String")
		s.allArgs = rapid.Bool().Draw(t, "@AllArgs")
		if !s.getter && !s.with && !s.builder && !s.str && !s.allArgs {
			s.getter = true
		}
	}
	if !forceJson {
		if !s.allArgs && rapid.IntRange(0, 4).Draw(t, "@RequiredArgs") == 0 {
			s.reqArgs = true
		}
		s.getterPub = rapid.IntRange(0, 3).Draw(t, "@GetterPubField") == 0
		s.withPub = rapid.IntRange(0, 3).Draw(t, "@WithPubField") == 0
		if s.getterPub || s.withPub {
			s.pubParam = rapid.IntRange(0, 3).Draw(t, "pubOverrideParam") == 0
		}
		if s.str && rapid.Bool().Draw(t, "useShow") || s.value && !s.str && rapid.IntRange(0, 7).Draw(t, "value+useShow") == 0 {
			s.str = true
			s.useShow = rapid.SampledFrom([]string{"var", "var", "func", "func", "none"}).Draw(t, "showInstance")
			if len(s.params) > 0 {
				// instance resolution for generic types is C08's business
				s.useShow = "none"
			}
		}
	}
	s.docOnSpec = rapid.IntRange(0, 3).Draw(t, "docOnSpec") == 0
	nf := rapid.SampledFrom([]int{1, 2, 3, 3, 4, 5, 6, 8, 12, 21, 22, 25}).Draw(t, "nfields")
	if s.json && nf > 8 {
		nf = 8
	}
	plainWide := nf >= 22 && s.labelled && len(s.params) == 0 && rapid.Bool().Draw(t, "plainWide")
	if forcePlainWide && s.value && !s.json && len(s.params) == 0 {
		// (only together with @fp.Value: @fp.GenLabelled is documented for @fp.Value structs; with the explicit
		// family alone the generated FromLabelled refers to Named types nobody declares - outside the grammar)
		// the only struct of its package: more fields than the tuple limit, labelled, no field type from fp
		nf = rapid.SampledFrom([]int{22, 23, 25}).Draw(t, "wideFields")
		s.labelled, plainWide = true, true
	}
	used := map[string]bool{}
	pick := func(pool []string, lbl string) string {
		for i := 0; i < 50; i++ {
			n := rapid.SampledFrom(pool).Draw(t, lbl)
			if !used[strings.ToLower(n)] && !exclFragile[n] {
				used[strings.ToLower(n)] = true
				return n
			}
		}
		n := fmt.Sprintf("f%d", len(used))
		used[n] = true
		return n
	}
	for i := 0; i < nf; i++ {
		var f field
		clsPool := []string{"safe", "safe", "safe", "safe", "fragile", "public", "underscore", "embedded", "numeric", "numeric"}
		if s.getterPub || s.withPub {
			clsPool = append(clsPool, "public", "public", "public")
		}
		cls := rapid.SampledFrom(clsPool).Draw(t, "namecls")
		if s.json && cls == "underscore" {
			cls = "safe"
		}
		if s.json && cls == "embedded" {
			// @fp.Json: embedded fields whose JSON encoding is faithful and never null - a non-nil pointer to a
			// struct of exported fields, a named float. (The Mutable struct embeds them under a json tag with the
			// type's name, so encoding/json treats them as ordinary named fields.)
			cls = "safe"
			switch k := rapid.IntRange(0, 1).Draw(t, "jsonEmbedKind"); {
			case k == 0 && !used["embedptr"]:
				used["embedptr"] = true
				cls = "json-embedded"
				f = field{name: "EmbedPtr", embedded: true, t: ty{expr: "*EmbedPtr", kind: "embedded-pointer", jsonSafe: true, lit: func(t *rapid.T) string {
					return "&EmbedPtr{PX: " + intLit(t) + "}"
				}}}
			case k == 1 && !used["embednamed"]:
				used["embednamed"] = true
				cls = "json-embedded"
				f = field{name: "EmbedNamed", embedded: true, t: ty{expr: "EmbedNamed", kind: "embedded-named", jsonSafe: true, lit: func(t *rapid.T) string {
					return rapid.SampledFrom([]string{"EmbedNamed(0)", "EmbedNamed(1.5)", "EmbedNamed(-2)"}).Draw(t, "embedNamed")
				}}}
			}
		}
		switch cls {
		case "safe":
			f.name = pick(safeNames, "fname")
			if i >= len(safeNames)-2 {
				f.name = fmt.Sprintf("g%d", i)
			}
		case "fragile":
			f.name = pick(fragileNames, "fragile")
		case "numeric":
			f.name = pick(numericNames, "numeric")
		case "public":
			f.name = pick(publicNames, "pubname")
		case "underscore":
			f.name = pick(underscoreNames, "uname")
		case "embedded":
			// embedded fields that are not structs: a pointer to a struct, an interface, a named non-struct type
			if k := rapid.IntRange(0, 6).Draw(t, "embedKind"); k <= 3 && !used[[]string{"embedptr", "embediface", "embednamed", "embedpriv"}[k]] {
				used[[]string{"embedptr", "embediface", "embednamed", "embedpriv"}[k]] = true
				switch k {
				case 3:
					// an embedded struct of an UNEXPORTED type: the field is called embedPriv, a private field
					f = field{name: "embedPriv", embedded: true, t: ty{expr: "embedPriv", kind: "embedded-private", lit: func(t *rapid.T) string {
						return "embedPriv{PV: " + intLit(t) + "}"
					}}}
				case 0:
					f = field{name: "EmbedPtr", embedded: true, t: ty{expr: "*EmbedPtr", kind: "embedded-pointer", lit: func(t *rapid.T) string {
						if rapid.Bool().Draw(t, "nilEmbedPtr") {
							return "nil"
						}
						return "&EmbedPtr{PX: " + intLit(t) + "}"
					}}}
				case 1:
					f = field{name: "EmbedIface", embedded: true, t: ty{expr: "EmbedIface", kind: "embedded-interface", lit: func(t *rapid.T) string {
						return rapid.SampledFrom([]string{"nil", "localImpl(6)", "localImpl(7)"}).Draw(t, "embedIface")
					}}}
				default:
					f = field{name: "EmbedNamed", embedded: true, t: ty{expr: "EmbedNamed", kind: "embedded-named", lit: func(t *rapid.T) string {
						return rapid.SampledFrom([]string{"EmbedNamed(0)", "EmbedNamed(1.5)", "EmbedNamed(-2)"}).Draw(t, "embedNamed")
					}}}
				}
			} else if used["embedempty"] && used["embedfull"] {
				f.name = pick(safeNames, "fname")
			} else if !used["embedempty"] && (used["embedfull"] || rapid.Bool().Draw(t, "emptyEmbed")) {
				used["embedempty"] = true
				f = field{name: "EmbedEmpty", embedded: true, t: ty{expr: "EmbedEmpty", kind: "embedded-empty", lit: func(t *rapid.T) string { return "EmbedEmpty{}" }}}
			} else {
				used["embedfull"] = true
				f = field{name: "EmbedFull", embedded: true, t: ty{expr: "EmbedFull", kind: "embedded", lit: func(t *rapid.T) string {
					return "EmbedFull{EX: " + intLit(t) + ", ey: " + strLit(t) + "}"
				}}}
			}
		}
		if f.t.expr == "" {
			if plainWide {
				// a wide labelled struct whose fields use no type of package fp: the generated file then needs
				// fp for nothing but the per-name declarations
				f.t = rapid.SampledFrom(basicTypes()).Draw(t, "plainElem")
			} else {
				f.t = composite(t, rapid.IntRange(0, 2).Draw(t, "depth"), s.json, s.params)
			}
		}
		if !f.embedded {
			switch rapid.IntRange(0, 5).Draw(t, "tag") {
			case 0:
				f.tag = fmt.Sprintf(`json:"c%d"`, i)
			case 1:
				f.tag = fmt.Sprintf(`bson:"b%d" json:"j%d,omitempty"`, i, i)
				if strings.HasPrefix(f.t.expr, "Alias") {
					// the alias types have empty non-nil values among their literals, which an explicit
					// omitempty would drop (not faithful): no omitempty of the user's own on them
					f.tag = fmt.Sprintf(`bson:"b%d" json:"j%d"`, i, i)
				}
			case 2:
				f.tag = fmt.Sprintf(`yaml:"y%d"`, i)
			}
			if !forceJson && rapid.IntRange(0, 6).Draw(t, "fptag") == 0 {
				// the fp:"..." tag: a list of options separated by , or ; - bare words or key=value.
				// The one option gombok knows is the bare word String.Exclude.
				form := rapid.SampledFrom([]string{`fp:"String.Exclude"`, `fp:"String.Exclude"`, `fp:"String.Exclude"`, `fp:"Other.Flag,String.Exclude"`, `fp:"name=x;String.Exclude"`, `fp:"String.Exclude;Other.Flag"`, `fp:"Other.Flag"`, `fp:"name=x"`}).Draw(t, "fpform")
				f.strExclude = strings.Contains(form, "String.Exclude")
				if f.tag == "" {
					f.tag = form
				} else if rapid.Bool().Draw(t, "fpfirst") {
					f.tag = form + " " + f.tag
				} else {
					f.tag = f.tag + " " + form
				}
			}
		}
		s.fields = append(s.fields, f)
	}
	// hand-written members the generator must respect
	var privs []field
	for _, f := range s.fields {
		if f.private() && !f.t.isParam && len(s.params) == 0 {
			privs = append(privs, f)
		}
	}
	if len(privs) > 0 && rapid.IntRange(0, 3).Draw(t, "hand") == 0 {
		f := rapid.SampledFrom(privs).Draw(t, "handField")
		switch rapid.IntRange(0, 2).Draw(t, "handKind") {
		case 0:
			s.handGet = f.name
		case 1:
			s.handWith = f.name
		default:
			s.handBuild = f.name
		}
	}
	if len(s.params) == 0 && (s.getterPub || s.withPub) {
		var pubs []field
		for _, f := range s.fields {
			if f.plainPublic() {
				pubs = append(pubs, f)
			}
		}
		if len(pubs) > 0 && rapid.IntRange(0, 2).Draw(t, "handPub") == 0 {
			f := rapid.SampledFrom(pubs).Draw(t, "handPubField")
			if s.getterPub && (!s.withPub || rapid.Bool().Draw(t, "handPubGet")) {
				s.handGetPub = f.name
			} else {
				s.handWithPub = f.name
			}
		}
	}
	if s.json && s.value && rapid.IntRange(0, 3).Draw(t, "handJson") == 0 {
		// one half of the JSON pair written by hand (with the text the generator itself would emit, so every
		// JSON law stays as it is); the other half must still be generated
		s.handJson = rapid.SampledFrom([]string{"marshal", "unmarshal"}).Draw(t, "handJsonHalf")
	}
	s.multiName = rapid.IntRange(0, 2).Draw(t, "multiName") == 0
	if s.multiName {
		// make some neighbours share their type (and drop their tags) so that `a, b T` declarations appear
		for i := 1; i < len(s.fields); i++ {
			if !s.fields[i].embedded && !s.fields[i-1].embedded && rapid.Bool().Draw(t, "shareType") {
				s.fields[i].t = s.fields[i-1].t
				s.fields[i].tag, s.fields[i-1].tag = "", ""
				s.fields[i].strExclude, s.fields[i-1].strExclude = false, false
			}
		}
	}
	if ExcludeShapes["json-any-untagged"] {
		// An untagged field of type `any` is nilable: the statement of C15 demands `omitempty` for it exactly as
		// for a field spelled `interface{}`. (go/types represents `any` as an alias node under go 1.23
		// semantics; gombok's IsNilable did not look through it - repaired, see known_findings.json.) The
		// switch VERIF_C07_EXCLUDE_SHAPES=json-any-untagged gives such fields an explicit json tag instead.
		for i, f := range s.fields {
			if f.t.kind == "json-any" && !strings.Contains(f.tag, "json") {
				tag := fmt.Sprintf(`json:"jany%d"`, i)
				if f.tag != "" {
					tag = f.tag + " " + tag
				}
				s.fields[i].tag = tag
			}
		}
	}
	nv := rapid.IntRange(2, 3).Draw(t, "nvalues")
	for v := 0; v < nv; v++ {
		var lits []string
		for _, f := range s.fields {
			lits = append(lits, f.t.lit(t))
		}
		s.values = append(s.values, lits)
	}
	if s.json {
		s.decode = drawDecodeInputs(t, s)
	}
	return s
}

func drawDecodeInputs(t *rapid.T, s structSpec) []string {
	base := []string{"", "{", "null", "[]", "{}", `{"x":`, "nul", `"str"`, "12", `{"a":1}{`, "\xff\xfe", `{"` + s.fields[0].name + `": {"deep": [1,2,{"x": null}]}}`, `{"` + s.fields[0].name + `": "wrong-type"}`, `{"` + s.fields[0].name + `": 12345678901234567890123}`, `{"` + s.fields[0].name + `": null}`, `{"` + s.fields[0].name + `": [}`}
	n := rapid.IntRange(2, 6).Draw(t, "ndecode")
	var r []string
	for i := 0; i < n; i++ {
		if rapid.Bool().Draw(t, "rawbytes") {
			r = append(r, string(rapid.SliceOfN(rapid.SampledFrom([]byte(`{}[]":,nul0123tfae \x00\xff`)), 0, 12).Draw(t, "bytes")))
		} else {
			r = append(r, rapid.SampledFrom(base).Draw(t, "decodeDoc"))
		}
	}
	return r
}

func (s structSpec) typeParamsDecl() string {
	if len(s.params) == 0 {
		return ""
	}
	var ps []string
	for _, p := range s.params {
		ps = append(ps, p.name+" "+p.constraint)
	}
	return "[" + strings.Join(ps, ", ") + "]"
}

func (s structSpec) instExpr() string {
	if len(s.params) == 0 {
		return s.name
	}
	var ps []string
	for _, p := range s.params {
		ps = append(ps, p.inst.expr)
	}
	return s.name + "[" + strings.Join(ps, ", ") + "]"
}

func (s structSpec) annotations() []string {
	var a []string
	if s.value {
		a = append(a, "@fp.Value")
	}
	if s.json {
		a = append(a, "@fp.Json")
	}
	if s.jsonTag {
		a = append(a, "@fp.JsonTag")
	}
	if s.labelled {
		a = append(a, "@fp.GenLabelled")
	}
	if s.getter {
		a = append(a, "@fp.Getter")
	}
	if s.with {
		a = append(a, "@fp.With")
	}
	if s.builder {
		a = append(a, "@fp.Builder")
	}
	if s.str {
		if s.useShow != "" {
			a = append(a, "@fp.String(useShow=true)")
		} else {
			a = append(a, "@fp.String")
		}
	}
	if s.allArgs {
		a = append(a, "@fp.AllArgsConstructor")
	}
	if s.reqArgs {
		a = append(a, "@fp.RequiredArgsConstructor")
	}
	par := ""
	if s.pubParam {
		par = "(override=true)"
	}
	if s.getterPub {
		a = append(a, "@fp.GetterPubField"+par)
	}
	if s.withPub {
		a = append(a, "@fp.WithPubField"+par)
	}
	return a
}

// usesUserAs: some field type comes from the user's package scratch/as
func (p pkgSpec) usesUserAs() bool {
	for _, s := range p.structs {
		for _, f := range s.fields {
			if strings.Contains(f.t.expr, "as.Level") {
				return true
			}
		}
		for _, tp := range s.params {
			if strings.Contains(tp.inst.expr, "as.Level") {
				return true
			}
		}
	}
	return false
}

// render the package source (types.go)
func (p pkgSpec) source() string {
	imports := map[string]bool{"errors": true}
	for _, s := range p.structs {
		for _, tp := range s.params {
			for _, i := range tp.imports {
				imports[i] = true
			}
		}
		for _, f := range s.fields {
			for _, i := range f.t.imports {
				imports[i] = true
			}
		}
		if s.useShow == "var" || s.useShow == "func" {
			imports["github.com/csgura/fp/show"] = true
		}
		if s.handJson != "" {
			imports["encoding/json"] = true
		}
	}
	for _, d := range p.derefs {
		if d.pb {
			imports["scratch/pb"] = true
		}
	}
	var sb strings.Builder
	sb.WriteString("package pa\n\nimport (\n")
	var il []string
	for i := range imports {
		il = append(il, i)
	}
	sort.Strings(il)
	for _, i := range il {
		if i == "github.com/csgura/fp/show" {
			// the law library declares a function named show
			fmt.Fprintf(&sb, "\tfpshow %q\n", i)
			continue
		}
		fmt.Fprintf(&sb, "\t%q\n", i)
	}
	sb.WriteString("\trf \"reflect\"\n)\n\nvar errSentinel = errors.New(\"sentinel\")\nvar _ = fmt.Sprint\nvar _ = time.Second\nvar _ fp.Unit\nvar _ = option.None[int]\nvar _ = rf.TypeOf\n")
	// make sure the blank uses compile
	for _, need := range []string{"fmt", "time", "github.com/csgura/fp", "github.com/csgura/fp/option"} {
		if !imports[need] {
			// add import by re-rendering header (simple approach: declare them always)
			_ = need
		}
	}
	sb.WriteString(localDecls)
	for _, s := range p.structs {
		body := func() string {
			var b strings.Builder
			fmt.Fprintf(&b, "%s%s struct {\n", s.name, s.typeParamsDecl())
			for i := 0; i < len(s.fields); i++ {
				f := s.fields[i]
				if f.embedded {
					fmt.Fprintf(&b, "\t%s\n", f.t.expr)
					continue
				}
				// consecutive untagged fields of one type may share a declaration: `a, b T`
				names := f.name
				for s.multiName && f.tag == "" && i+1 < len(s.fields) && !s.fields[i+1].embedded && s.fields[i+1].tag == "" && s.fields[i+1].t.expr == f.t.expr {
					i++
					names += ", " + s.fields[i].name
				}
				if f.tag != "" {
					fmt.Fprintf(&b, "\t%s %s `%s`\n", names, f.t.expr, f.tag)
				} else {
					fmt.Fprintf(&b, "\t%s %s\n", names, f.t.expr)
				}
			}
			b.WriteString("}\n")
			return b.String()
		}()
		var doc strings.Builder
		fmt.Fprintf(&doc, "// %s is a generated test struct.\n", s.name)
		for _, a := range s.annotations() {
			fmt.Fprintf(&doc, "// %s\n", a)
		}
		if s.docOnSpec {
			sb.WriteString("\ntype (\n")
			for _, l := range strings.Split(strings.TrimRight(doc.String(), "\n"), "\n") {
				sb.WriteString("\t" + l + "\n")
			}
			for _, l := range strings.Split(strings.TrimRight(body, "\n"), "\n") {
				sb.WriteString("\t" + l + "\n")
			}
			sb.WriteString(")\n")
		} else {
			sb.WriteString("\n" + doc.String() + "type " + body)
		}
		fidx := func(n string) field {
			for _, f := range s.fields {
				if f.name == n {
					return f
				}
			}
			return field{}
		}
		up := func(n string) string { return strings.ToUpper(n[:1]) + n[1:] }
		if s.handGet != "" {
			f := fidx(s.handGet)
			fmt.Fprintf(&sb, "\n// hand-written getter: the generator must not emit a second one\nfunc (x %s) %s() %s { return x.%s }\n", s.name, up(f.name), f.t.expr, f.name)
		}
		if s.handWith != "" {
			f := fidx(s.handWith)
			fmt.Fprintf(&sb, "\n// hand-written With: the generator must not emit a second one\nfunc (x %s) With%s(nv %s) %s { return x }\n", s.name, up(f.name), f.t.expr, s.name)
		}
		if s.handBuild != "" {
			f := fidx(s.handBuild)
			fmt.Fprintf(&sb, "\n// hand-written builder type and setter\ntype %sBuilder %s\n\nfunc (x %sBuilder) %s(nv %s) %sBuilder { return x }\n", s.name, s.name, s.name, up(f.name), f.t.expr, s.name)
		}
		if s.handGetPub != "" {
			f := fidx(s.handGetPub)
			fmt.Fprintf(&sb, "\n// hand-written getter of a public field: the generator must not emit a second one\nfunc (x %s) Get%s() %s { return x.%s }\n", s.name, f.name, f.t.expr, f.name)
		}
		if s.handWithPub != "" {
			f := fidx(s.handWithPub)
			fmt.Fprintf(&sb, "\n// hand-written With of a public field: the generator must not emit a second one\nfunc (x %s) With%s(nv %s) %s { return x }\n", s.name, f.name, f.t.expr, s.name)
		}
		recv := s.name
		if len(s.params) > 0 {
			var ns []string
			for _, tp := range s.params {
				ns = append(ns, tp.name)
			}
			recv += "[" + strings.Join(ns, ", ") + "]"
		}
		switch s.handJson {
		case "marshal":
			fmt.Fprintf(&sb, "\n// hand-written half of the JSON pair: the generator must still emit UnmarshalJSON\nfunc (x %s) MarshalJSON() ([]byte, error) {\n\treturn json.Marshal(x.AsMutable())\n}\n", recv)
		case "unmarshal":
			fmt.Fprintf(&sb, "\n// hand-written half of the JSON pair: the generator must still emit MarshalJSON\nfunc (x *%s) UnmarshalJSON(b []byte) error {\n\tif x == nil {\n\t\treturn errors.New(\"target ptr is nil\")\n\t}\n\tm := x.AsMutable()\n\terr := json.Unmarshal(b, &m)\n\tif err == nil {\n\t\t*x = m.AsImmutable()\n\t}\n\treturn err\n}\n", recv)
		}
		if s.useShow == "var" || s.useShow == "func" {
			body := fmt.Sprintf("fpshow.New(func(v %s) string { return %s })", s.name, s.showBody())
			if s.useShow == "var" {
				fmt.Fprintf(&sb, "\n// hand-written Show instance: @fp.String(useShow=true) makes String() use it\nvar Show%s = %s\n", s.name, body)
			} else {
				fmt.Fprintf(&sb, "\n// hand-written Show instance: @fp.String(useShow=true) makes String() use it\nfunc Show%s() fp.Show[%s] { return %s }\n", s.name, s.name, body)
			}
		}
	}
	for _, d := range p.derefs {
		if !d.pb {
			sb.WriteString(d.baseSource())
		}
		sb.WriteString(d.source())
	}
	return sb.String()
}

// showBody is the text the hand-written Show instance prints: the struct name and its first applied field
// (it must not print v itself: v.String() is the method under test and calls this instance).
func (s structSpec) showBody() string {
	for _, f := range s.fields {
		if f.applied() {
			return fmt.Sprintf(`fmt.Sprintf("%s<%%v>", v.%s)`, s.name, f.name)
		}
	}
	return strconv.Quote(s.name + "<>")
}

// hideErrVar: with shape useshow-error-typed-var excluded (a package-level variable of type error next to
// @fp.String(useShow=true) is a recorded finding) the sentinel error lives in a slice instead.
func hideErrVar(src string) string {
	if !ExcludeShapes["useshow-error-typed-var"] {
		return src
	}
	src = strings.ReplaceAll(src, "errSentinel", "errSentinels[0]")
	return strings.Replace(src, `var errSentinels[0] = errors.New("sentinel")`, `var errSentinels = []error{errors.New("sentinel")}`, 1)
}

// header imports must always contain fmt, time, fp, option because of the blank uses
func (p pkgSpec) sourceFixed() string {
	src := hideErrVar(p.source())
	for _, need := range []string{"fmt", "time", "github.com/csgura/fp", "github.com/csgura/fp/option"} {
		q := "\t" + strconv.Quote(need) + "\n"
		if !strings.Contains(src, q) {
			src = strings.Replace(src, "import (\n", "import (\n"+q, 1)
		}
	}
	return src
}

// jsonTwinTag computes the documented tag of the public Mutable twin.
func jsonTwinTag(s structSpec, f field) string {
	tag := f.tag
	if strings.HasPrefix(f.name, "_") {
		return tag
	}
	if (s.json || s.jsonTag) && !strings.Contains(tag, "json") {
		if tag != "" {
			tag += " "
		}
		if nilable(f.t) || f.t.isOption {
			tag += fmt.Sprintf(`json:"%s,omitempty"`, f.name)
		} else {
			tag += fmt.Sprintf(`json:"%s"`, f.name)
		}
	}
	return tag
}

// nilable mirrors what "nilable" means for the generated Mutable type: the field's own type is a
// pointer, slice, map, chan, func or interface type, or string (README example); named types
// (fp.Seq, MyStr, fp.Either) are not.
func nilable(t ty) bool {
	switch t.kind {
	case "pointer", "slice", "map", "interface", "interface-inline", "json-any", "func", "chan", "embedded-pointer", "embedded-interface":
		return true
	}
	return t.expr == "string"
}

// hasFunc: does the generated file declare the package-level function name (plain or generic)?
func hasFunc(gen, name string) bool {
	return strings.Contains(gen, "func "+name+"(") || strings.Contains(gen, "func "+name+"[")
}

// cases renders zz_cases_test.go. gen is the text of the generated file: package-level functions
// (constructors, IntoX) cannot be looked up by reflection, so a case only refers to those gombok declared and
// says which ones are missing.
func (p pkgSpec) cases(maxProduct int, gen string) string {
	var sb strings.Builder
	pbImport := ""
	for _, d := range p.derefs {
		if d.pb {
			pbImport = "\t\"scratch/pb\"\n"
		}
	}
	if p.usesUserAs() {
		pbImport += "\t\"scratch/as\"\n"
	}
	sb.WriteString("package pa\n\nimport (\n\t\"fmt\"\n\trf \"reflect\"\n\t\"time\"\n\t\"github.com/csgura/fp\"\n\t\"github.com/csgura/fp/option\"\n" + pbImport + ")\n\nvar _ = fmt.Sprint\nvar _ = time.Second\nvar _ fp.Unit\nvar _ = option.None[int]\nvar _ = rf.TypeOf\n\n")
	if p.usesUserAs() {
		sb.WriteString("var _ as.Level\n\n")
	}
	up := func(n string) string { return strings.ToUpper(n[:1]) + n[1:] }
	for _, s := range p.structs {
		if s.json {
			// public twin with the documented tags
			fmt.Fprintf(&sb, "type twin%s struct {\n", s.name)
			for _, f := range s.fields {
				if !f.applied() {
					continue
				}
				tag := jsonTwinTag(s, f)
				te := substParams(f.t.expr, s)
				if tag != "" {
					fmt.Fprintf(&sb, "\t%s %s `%s`\n", up(f.name), te, tag)
				} else {
					fmt.Fprintf(&sb, "\t%s %s\n", up(f.name), te)
				}
			}
			sb.WriteString("}\n\n")
			fmt.Fprintf(&sb, "func twinOf%s(a any) any {\n\tx := a.(%s)\n\treturn twin%s{\n", s.name, s.instExpr(), s.name)
			for _, f := range s.fields {
				if f.applied() {
					fmt.Fprintf(&sb, "\t\t%s: x.%s,\n", up(f.name), f.name)
				}
			}
			sb.WriteString("\t}\n}\n\n")
		}
	}
	sb.WriteString("var lawCases = []lawCase{\n")
	for _, s := range p.structs {
		fmt.Fprintf(&sb, "\t{\n\t\tName: %q, HasValue: %v, Labelled: %v, Json: %v, Getter: %v, With: %v, Builder: %v, MaxProduct: %d,\n", s.name, s.value, s.labelled, s.json, s.getter, s.with, s.builder, maxProduct)
		sb.WriteString("\t\tFields: []lawField{\n")
		for _, f := range s.fields {
			fmt.Fprintf(&sb, "\t\t\t{Name: %q, Applied: %v, Private: %v, IsOption: %v, Tag: %q, Embedded: %v, PlainPublic: %v, Required: %v, StrExclude: %v},\n", f.name, f.applied(), f.private(), f.t.isOption, f.tag, f.embedded, f.plainPublic(), f.required(), f.strExclude && f.applied())
		}
		sb.WriteString("\t\t},\n\t\tSkip: map[string]bool{")
		if s.handGetPub != "" {
			fmt.Fprintf(&sb, "%q: true, ", "Get"+s.handGetPub)
		}
		if s.handWithPub != "" {
			fmt.Fprintf(&sb, "%q: true, ", "With"+s.handWithPub)
		}
		if s.handGet != "" {
			fmt.Fprintf(&sb, "%q: true, ", up(s.handGet))
		}
		if s.handWith != "" {
			fmt.Fprintf(&sb, "%q: true, ", "With"+up(s.handWith))
		}
		if s.handBuild != "" {
			fmt.Fprintf(&sb, "%q: true, ", "Builder."+up(s.handBuild))
		}
		sb.WriteString("},\n\t\tValues: []any{\n")
		for _, lits := range s.values {
			fmt.Fprintf(&sb, "\t\t\t%s{", s.instExpr())
			for i, f := range s.fields {
				fmt.Fprintf(&sb, "%s: %s, ", f.name, substParams(lits[i], s))
			}
			sb.WriteString("},\n")
		}
		sb.WriteString("\t\t},\n")
		fmt.Fprintf(&sb, "\t\tNewPtr: func() any { return new(%s) },\n", s.instExpr())
		if s.allArgs {
			ctor := "New" + s.name
			if len(s.params) > 0 {
				var ps []string
				for _, tp := range s.params {
					ps = append(ps, tp.inst.expr)
				}
				ctor += "[" + strings.Join(ps, ", ") + "]"
			}
			fmt.Fprintf(&sb, "\t\tCtor: %s,\n", ctor)
		}
		if s.str {
			sb.WriteString("\t\tStr: true,\n")
		}
		tpInst := ""
		if len(s.params) > 0 {
			var ps []string
			for _, tp := range s.params {
				ps = append(ps, tp.inst.expr)
			}
			tpInst = "[" + strings.Join(ps, ", ") + "]"
		}
		if s.reqArgs {
			if hasFunc(gen, "New"+s.name) {
				fmt.Fprintf(&sb, "\t\tReqArgs: true, ReqCtor: New%s%s,\n", s.name, tpInst)
			} else {
				sb.WriteString("\t\tReqArgs: true,\n")
			}
		}
		fmt.Fprintf(&sb, "\t\tGetterPub: %v, WithPub: %v,\n", s.getterPub, s.withPub)
		if (s.value || s.str) && s.useShow == "" {
			// the String() method is gombok's own field listing: the fp:"String.Exclude" tag applies to it
			sb.WriteString("\t\tDefaultString: true,\n")
		}
		switch s.useShow {
		case "var":
			fmt.Fprintf(&sb, "\t\tShowFn: func(a any) string { return Show%s.Show(a.(%s)) },\n", s.name, s.name)
		case "func":
			fmt.Fprintf(&sb, "\t\tShowFn: func(a any) string { return Show%s().Show(a.(%s)) },\n", s.name, s.name)
		}
		if s.json {
			fmt.Fprintf(&sb, "\t\tTwin: twinOf%s,\n\t\tDecode: []string{", s.name)
			for _, d := range s.decode {
				fmt.Fprintf(&sb, "%q, ", d)
			}
			sb.WriteString("},\n")
		}
		sb.WriteString("\t},\n")
	}
	sb.WriteString("}\n\nvar derefCases = []derefCase{\n")
	for _, d := range p.derefs {
		sb.WriteString(d.lawCase(gen))
	}
	sb.WriteString("}\n")
	return hideErrVar(sb.String())
}

// substParams replaces type parameter names (TA, TB, TC) inside an expression by the instantiation.
func substParams(expr string, s structSpec) string {
	for _, tp := range s.params {
		expr = regexp.MustCompile(`\b`+tp.name+`\b`).ReplaceAllString(expr, tp.inst.expr)
	}
	return expr
}

func (p pkgSpec) describe() string {
	var sb strings.Builder
	for _, s := range p.structs {
		fmt.Fprintf(&sb, "%s%s %v{", s.name, s.typeParamsDecl(), s.annotations())
		for _, f := range s.fields {
			fmt.Fprintf(&sb, "%s %s", f.name, f.t.expr)
			if f.tag != "" {
				sb.WriteString(" `" + f.tag + "`")
			}
			sb.WriteString("; ")
		}
		fmt.Fprintf(&sb, "} hand(get=%s,with=%s,build=%s", s.handGet, s.handWith, s.handBuild)
		if s.handGetPub != "" || s.handWithPub != "" {
			fmt.Fprintf(&sb, ",getpub=%s,withpub=%s", s.handGetPub, s.handWithPub)
		}
		if s.useShow != "" {
			fmt.Fprintf(&sb, ",show-instance=%s", s.useShow)
		}
		fmt.Fprintf(&sb, ") values=%v decode=%q\n", s.values, s.decode)
	}
	for _, d := range p.derefs {
		sb.WriteString(d.describe())
	}
	return sb.String()
}
